/-
  CoreSpec, histories with writes: `execute` of a node, part 7 — the `specify` step directly after
  the `create` (`function/specify.rs: specify_and_record` for the executing query `r`).
  Core Lean only.
-/
import SalsaVerif.Proofs.CoreSpecRevCreate

namespace SalsaVerif.Proofs.CoreSpec
namespace X
open SalsaVerif.Model.CoreSpec

theorem backdate_asg_none (v : Val) (fca fdur cur : Nat) : backdate none true v none fca fdur cur = (fca, false) := rfl

theorem backdate_asg_some (o : Memo) (v : Val) (fca fdur cur : Nat) :
    backdate (some o) true v none fca fdur cur =
      if o.dur ≤ fdur ∧ o.value = v ∧ o.hgen = none then (o.ca, decide (fca < o.ca)) else (fca, false) := by
  simp [backdate]

theorem wit_of_wlog {s t : State} (h : t.wlog = s.wlog) (k lo hi : Nat) : Wit t k lo hi ↔ Wit s k lo hi := by
  simp only [Wit, h]

/-- `Inv` after the `spec` memo of `r` was replaced by `A` (verified now) by the running query `r` -/
theorem spec_inv {P idOf r t t' A} (hI : Inv P idOf t) (U : Upd r t t') (hm : t'.memos r = t.memos r)
    (hsl : t'.slots r = t.slots r) (hpn : t'.panic = none) (hsm : t'.smemos r = some A)
    (hva : A.va = t.cur) (hA : SpecOk P idOf t' r A) (hb : Busy t r)
    (hT : ∀ q m, q ≠ r → t.memos q = some m → ObsTr r t t' m) : Inv P idOf t' := by
  obtain ⟨sl, hs1, hs2, hnr⟩ := hb
  have R : UpdR r t t' :=
    ⟨fun m0 h => ⟨m0, by rw [hm]; exact h, Nat.le_refl _⟩,
     fun sm h => Or.inr (by rw [hsm] at h; cases h; rw [hva]; exact Nat.le_refl _),
     fun mc h => Or.inl (by rw [hm] at h; exact h)⟩
  have hnr' : ¬ memoSok t' r := by
    rintro ⟨m, h1, h2⟩
    rw [hm] at h1
    exact hnr ⟨m, h1, (U.sokIff m).mp h2⟩
  have hbusy : Busy t' r := ⟨sl, by rw [hsl]; exact hs1, by rw [hs2, U.cur], hnr'⟩
  refine inv_upd hI U R hpn (fun h => absurd h hnr) hT ?_ ?_ ?_ ?_ ?_ ?_
  · intro m h
    rw [hm] at h
    exact nodeOk_upd_self U R hI (hI.node r m h) hnr hbusy
  · intro _ hnb; exact absurd hbusy hnb
  · intro sm h; rw [hsm] at h; cases h; exact hA
  · intro _ _; exact ⟨sl, by rw [hsl]; exact hs1⟩
  · intro sl' h
    rw [hsl] at h
    rw [U.cur]; exact hI.slot r sl' h
  · intro _ _ _; exact Or.inr hbusy

/-- the observer obligations when only the `spec` memo of `r` changes, from (Sp) the clause for
    reads of `spec r` against the new memo and (M4) its stamp is not lower than what observers
    were promised -/
theorem spec_obsTr {r t t' m} {A : Memo} (U : Upd r t t') (hm : t'.memos r = t.memos r)
    (hsl : t'.slots r = t.slots r) (hsm : t'.smemos r = some A)
    (hSp : ∀ o, o ∈ m.obs → o.out = false → o.dep = .spec r → ∀ L, m.dur ≤ L → ObsAt t m.va L o →
      (A.value = o.val ∧ L ≤ A.dur) ∨ Wit t L m.va A.ca)
    (hM4 : ∀ o, o ∈ m.obs → o.out = false → o.dep = .spec r → ObsAt t m.va m.dur o →
      (∀ x, depInfo t o.dep = some x → m.ca ≤ x.ca) → m.ca ≤ A.ca) : ObsTr r t t' m := by
  have hmem : ∀ q, t'.memos q = t.memos q := by
    intro q
    by_cases hq : q = r
    · subst hq; exact hm
    · exact U.memos q hq
  have hslots : ∀ q, t'.slots q = t.slots q := by
    intro q
    by_cases hq : q = r
    · subst hq; exact hsl
    · exact U.slots q hq
  refine ⟨?_, ?_, ?_⟩
  · intro o ho hout hd L hL a _
    by_cases e : o.dep = .spec r
    · refine ⟨?_, ?_, ?_⟩
      · intro x hx
        rw [e] at hx
        simp only [depInfo, hsm, Option.map_some, Option.some.injEq] at hx
        subst hx
        exact (hSp o ho hout e L hL a).imp id (U.witIff _ _ _).mpr
      · intro c mc hdc hs hmc
        rw [hslots] at hs; rw [hmem] at hmc
        exact (U.witIff _ _ _).mpr (a.dead c mc hdc hs hmc)
      · intro c sl hdc hs hn
        rw [e] at hdc; cases hdc
        rw [hsm] at hn; cases hn
    · -- reads of the node memo / the field: nothing changes
      have hdi : depInfo t' o.dep = depInfo t o.dep := by
        rcases hd with e' | e' | e'
        · rw [e']; simp only [depInfo, hm]
        · rw [e']; simp only [depInfo, hsl]
        · exact absurd e' e
      refine ⟨?_, ?_, ?_⟩
      · intro x hx
        rw [hdi] at hx
        exact (a.iv x hx).imp id (U.witIff _ _ _).mpr
      · intro c mc hdc hs hmc
        rw [hslots] at hs; rw [hmem] at hmc
        exact (U.witIff _ _ _).mpr (a.dead c mc hdc hs hmc)
      · intro c sl hdc hs hn
        have : c = r := by
          rcases hd with e' | e' | e' <;> rw [e'] at hdc <;> cases hdc
          rfl
        subst this
        exact absurd hdc e
  · intro o ho hout hd L hL _ a
    refine ⟨?_, ?_⟩
    · intro c mc hdc hmc; rw [hmem] at hmc
      exact (a.odur c mc hdc hmc).imp id (U.witIff _ _ _).mpr
    · intro c mc hdc hmc; rw [hmem] at hmc
      exact (a.hexp c mc hdc hmc).imp id (U.witIff _ _ _).mpr
  · intro o ho hout hd a h x hx
    rcases hd with e | e | e
    · rw [e] at hx h; simp only [depInfo, hm] at hx; exact h x (by simpa [depInfo] using hx)
    · rw [e] at hx h; simp only [depInfo, hsl] at hx; exact h x (by simpa [depInfo] using hx)
    · rw [e] at hx
      simp only [depInfo, hsm, Option.map_some, Option.some.injEq] at hx
      subst hx
      exact hM4 o ho hout e a h

/-- what the `specify` step achieves -/
structure SpOut (P : Prog) (idOf : Nat → Nat) (r : Nat) (t t' : State) (f : Frame) (w : Nat) : Prop where
  inv : Inv P idOf t'
  upd : Upd r t t'
  memos : t'.memos r = t.memos r
  slots : t'.slots r = t.slots r
  sm : ∃ A, t'.smemos r = some A ∧ A.origin = some r ∧ A.value = ⟨w, none⟩ ∧ A.va = t.cur ∧ A.dur = f.dur

/-- the state after `installAssigned` when no backdate violation is latched -/
theorem installAssigned_state {t : State} {f : Frame} {r w : Nat} (hp : t.panic = none)
    (hpn : (installAssigned t f r w).1.panic = none) :
    (backdate (t.smemos r) true ⟨w, none⟩ none f.ca f.dur t.cur).2 = false ∧
    (installAssigned t f r w).1 = setSMemo t r (some (assignedMemo t.cur
      (backdate (t.smemos r) true ⟨w, none⟩ none f.ca f.dur t.cur).1 f.dur r w)) := by
  unfold installAssigned at hpn ⊢
  dsimp only at hpn ⊢
  cases hb : (backdate (t.smemos r) true ⟨w, none⟩ none f.ca f.dur t.cur).2 with
  | true =>
    exfalso
    rw [hb] at hpn
    simp only [failIf, if_true, setSMemo_panic] at hpn
    rw [fail_panic_none hp] at hpn; cases hpn
  | false => exact ⟨rfl, by rw [failIf_false]⟩

/-- the stamp of the new `Assigned` memo -/
theorem asg_ca_cases {t : State} {f : Frame} {r w : Nat}
    (hv : (backdate (t.smemos r) true ⟨w, none⟩ none f.ca f.dur t.cur).2 = false) :
    (t.smemos r = none ∧ (backdate (t.smemos r) true ⟨w, none⟩ none f.ca f.dur t.cur).1 = f.ca) ∨
    ∃ Xm, t.smemos r = some Xm ∧
      ((Xm.dur ≤ f.dur ∧ Xm.value = ⟨w, none⟩ ∧ Xm.hgen = none ∧
          (backdate (t.smemos r) true ⟨w, none⟩ none f.ca f.dur t.cur).1 = Xm.ca ∧ Xm.ca ≤ f.ca) ∨
       (¬ (Xm.dur ≤ f.dur ∧ Xm.value = ⟨w, none⟩ ∧ Xm.hgen = none) ∧
          (backdate (t.smemos r) true ⟨w, none⟩ none f.ca f.dur t.cur).1 = f.ca)) := by
  cases hX : t.smemos r with
  | none => exact Or.inl ⟨rfl, rfl⟩
  | some Xm =>
    right
    refine ⟨Xm, rfl, ?_⟩
    rw [hX] at hv
    rw [backdate_asg_some] at hv ⊢
    by_cases hbd : Xm.dur ≤ f.dur ∧ Xm.value = ⟨w, none⟩ ∧ Xm.hgen = none
    · rw [if_pos hbd] at hv ⊢
      left
      refine ⟨hbd.1, hbd.2.1, hbd.2.2, rfl, ?_⟩
      simp only [decide_eq_false_iff_not, Nat.not_lt] at hv
      exact hv
    · rw [if_neg hbd]
      exact Or.inr ⟨hbd, rfl⟩

/-- A `spec` memo `Xm` of `r` that is DOMINATED by the old prefix (its durability is at most the
    prefix level, or it is stale by a write not after `mo.va`): when the run has diverged before
    the `create`, every observer of `spec r` has a relevant write not after the frame's stamp. -/
theorem spec_dom_tr {P idOf r t mo PL} {fca : Nat} {m Xm : Memo} {o : Obs} {L : Nat}
    (hI : Inv P idOf t) (ok : ObsOk t m) (ho : o ∈ m.obs) (hout : o.out = false) (e : o.dep = .spec r)
    (hL : m.dur ≤ L) (hmo : t.memos r = some mo) (hmoPL : mo.dur ≤ PL) (hX : t.smemos r = some Xm)
    (W : Wit t PL mo.va fca) (DOM : Xm.dur ≤ PL ∨ Wit t Xm.dur Xm.va mo.va) (CA : Xm.ca ≤ fca)
    (a : ObsAt t m.va L o) : Wit t L m.va fca := by
  have hx : depInfo t o.dep = some ⟨Xm.value, Xm.ca, Xm.dur⟩ := by rw [e]; simp [depInfo, hX]
  rcases a.iv _ hx with ⟨_, a2⟩ | a1
  · rcases DOM with h | Wx
    · refine wit_transfer ok hL (Nat.le_trans a2 h) W ?_
      intro w d hw hd hlt
      exact ok.ordw o r mo ho hout (Or.inr e) hmo w d hw (Nat.le_trans hmoPL hd) hlt
    · cases hr : o.recd with
      | true =>
        have h5 := ok.i5s o r Xm ho hout e hr hX
        exact (wit_transfer_le ok hL a2 Wx h5).mono (Nat.le_of_lt W.lt)
      | false =>
        rcases (ok.i6 o ho hout hr).iv _ hx with ⟨_, b2⟩ | b
        · exact (wit3 hI b2 Wx).elim
        · exact (wit3 hI (Nat.le_refl _) b).elim
  · exact a1.mono CA

/-- every `spec` memo of `r` left from before the `create` is dominated (`OldF`) -/
theorem dom_of_old {P idOf r NB0 t0 t mo Ro PL} {fca : Nat} {Xm : Memo} (hI : Inv P idOf t)
    (OF : OldF P idOf NB0 t0 r mo Ro PL) (hm : t.memos r = t0.memos r) (hsm : t.smemos r = t0.smemos r)
    (hwl : t.wlog = t0.wlog) (hX : t.smemos r = some Xm) (W : Wit t PL mo.va fca) :
    (Xm.dur ≤ PL ∨ Wit t Xm.dur Xm.va mo.va) ∧ Xm.ca ≤ fca := by
  have hmo : t.memos r = some mo := by rw [hm]; exact OF.memo
  have hX0 : t0.smemos r = some Xm := by rw [← hsm]; exact hX
  have hne : Ro.ts ≠ none := by
    intro h
    have := (OF.tnone h).2
    rw [hX0] at this; cases this
  have hlt := W.lt
  cases ho : Xm.origin with
  | none =>
    have DOM : Xm.dur ≤ PL ∨ Wit t Xm.dur Xm.va mo.va :=
      (OF.drv Xm hX0 ho).imp id (wit_of_wlog hwl _ _ _).mpr
    refine ⟨DOM, ?_⟩
    obtain ⟨okD, o, rest, hobs, hdep, hout, _⟩ := (hI.smemo r Xm hX).derived ho
    have hca := okD.ca_va
    rcases DOM with h | Wx
    · have hw : Wit t Xm.dur Xm.va fca := by
        refine wit_transfer okD (Nat.le_refl _) h W ?_
        intro w d hw hd hlt'
        exact okD.ordw o r mo (by rw [hobs]; simp) hout (Or.inl hdep) hmo w d hw (Nat.le_trans OF.durPL hd) hlt'
      have := hw.lt
      omega
    · have := Wx.lt
      omega
  | some k =>
    obtain ⟨_, _, hca, _, _, _⟩ := (hI.smemo r Xm hX).assigned k ho
    cases hsp : Ro.sp with
    | some w0 =>
      obtain ⟨A, hA, _, _, hAd, hAc⟩ := OF.asg w0 hne hsp
      rw [hX0] at hA; cases hA
      exact ⟨Or.inl (Nat.le_of_eq hAd), by omega⟩
    | none =>
      have Wx := (wit_of_wlog hwl _ _ _).mpr (OF.stale hne hsp Xm hX0 (by rw [ho]; exact fun h => by cases h))
      have := Wx.lt
      exact ⟨Or.inr Wx, by omega⟩

/-- the `specify` step when the node has an old memo (`t0`: the state before the `create`) -/
theorem specify_some {P idOf r NB0 t0 t mo Ro PL C f c w k kv} (hI : Inv P idOf t)
    (OF : OldF P idOf NB0 t0 r mo Ro PL) (hm : t.memos r = t0.memos r) (hsm : t.smemos r = t0.smemos r)
    (hwl : t.wlog = t0.wlog) (hns : ¬ SOK t mo)
    (hslot : ∃ sl, t.slots r = some sl ∧ sl.upd = t.cur ∧
      (sl.fca ≤ f.ca ∨ ∃ sl0, t0.slots r = some sl0 ∧ sl.fca = sl0.fca))
    (fi : FrOk P r t f) (hts : f.ts.isSome = true) (hout : f.hasOut r = false)
    (T : Trk idOf r mo Ro NB0 PL C t f (.specify c w k) (some kv) none)
    (hhot : ∀ Xm, t.smemos r = some Xm → Xm.va = t.cur → ¬ NB0)
    (hpn : (specifyAndRecord t (some r) f c w).1.panic = none) :
    c = r ∧ specifyAndRecord t (some r) f c w = installAssigned t f r w ∧
    SpOut P idOf r t (installAssigned t f r w).1 f w := by
  have hc : r = c := by
    apply Classical.byContradiction
    intro hne
    rw [specify_foreign t (some r) f c w (Or.inl (fun h => hne (Option.some.inj h)))] at hpn
    rw [fail_panic_none hI.pn] at hpn; cases hpn
  subst hc
  obtain ⟨sl, hsl, hupd, hfcab⟩ := hslot
  have hmo : t.memos r = some mo := by rw [hm]; exact OF.memo
  have hnr : ¬ memoSok t r := by
    rintro ⟨m, h1, h2⟩; rw [hmo] at h1; cases h1; exact hns h2
  have hbusy : Busy t r := ⟨sl, hsl, hupd, hnr⟩
  -- following the old replay: the old `Assigned` memo is there and will be backdated
  have hfol : ∀ orem, Fol idOf r mo Ro f.obs (.specify r w k) (some kv) none orem → PL ≤ f.dur →
      ∃ A, t.smemos r = some A ∧ A.origin = some r ∧ A.dur ≤ f.dur ∧ A.value = ⟨w, none⟩ ∧ A.hgen = none := by
    intro orem a hPL
    obtain ⟨_, _, hsp, _⟩ := fol_specify a
    have hts' := replay_ts_keep r idOf _ _ _ _ _ a.rep
    obtain ⟨A, hA, hAo, hAv, hAd, _⟩ := OF.asg w (by rw [hts']; exact fun h => by cases h) hsp
    have hA' : t.smemos r = some A := by rw [hsm]; exact hA
    exact ⟨A, hA', hAo, by rw [hAd]; exact hPL, hAv, (hI.smemo r A hA').hgen⟩
  have hnc : ∀ o, t.smemos r = some o → o.va = t.cur → o.origin.isSome = true ∧ f.hasOut r = false := by
    intro o ho hv
    refine ⟨?_, hout⟩
    rcases T with ⟨orem, a, hPL, _⟩ | wv
    · obtain ⟨A, hA, hAo, _⟩ := hfol orem a hPL
      rw [hA] at ho; cases ho; rw [hAo]; rfl
    · exact absurd wv.1 (hhot o ho hv)
  have heq := specify_installs t f r w hts hnc
  refine ⟨rfl, heq, ?_⟩
  rw [heq] at hpn
  obtain ⟨hb2, hst⟩ := installAssigned_state hI.pn hpn
  rw [hst]
  have hcases := asg_ca_cases hb2
  generalize (backdate (t.smemos r) true ⟨w, none⟩ none f.ca f.dur t.cur).1 = ca' at hcases
  -- when the stamp is not inherited the run has diverged before the `create`
  have hW : (t.smemos r = none ∨ ∃ Xm, t.smemos r = some Xm ∧
      ¬ (Xm.dur ≤ f.dur ∧ Xm.value = ⟨w, none⟩ ∧ Xm.hgen = none)) → Wit t PL mo.va f.ca := by
    intro h
    rcases T with ⟨orem, a, hPL, _⟩ | wv
    · exfalso
      obtain ⟨A, hA, _, h1, h2, h3⟩ := hfol orem a hPL
      rcases h with h | ⟨Xm, hX, hn⟩
      · rw [hA] at h; cases h
      · rw [hA] at hX; cases hX; exact hn ⟨h1, h2, h3⟩
    · exact wv.2
  have hslfca : Wit t PL mo.va f.ca → sl.fca ≤ f.ca := by
    intro W
    rcases hfcab with h | ⟨sl0, hsl0, he⟩
    · exact h
    · have hne : Ro.ts ≠ none := by
        intro h
        have := (OF.tnone h).1
        rw [hsl0] at this; cases this
      cases hro : Ro.ts with
      | none => exact absurd hro hne
      | some kv0 =>
        obtain ⟨k0, v0⟩ := kv0
        obtain ⟨sl1, h1, _, _, h4, _⟩ := OF.tsome k0 v0 hro
        rw [hsl0] at h1; cases h1
        have := W.lt
        omega
  -- the clause of an observer of `spec r` against the new memo
  have key : ∀ m, ObsOk t m → ∀ o, o ∈ m.obs → o.out = false → o.dep = .spec r → ∀ L, m.dur ≤ L →
      ObsAt t m.va L o →
      (((⟨w, none⟩ : Val) = o.val ∧ L ≤ f.dur) ∨ Wit t L m.va ca') ∧
      ((∀ x, depInfo t o.dep = some x → m.ca ≤ x.ca) → m.ca ≤ ca') := by
    intro m ok o ho hout' e L hL a
    rcases hcases with ⟨hX, hca⟩ | ⟨Xm, hX, hbd | hnbd⟩
    · have W := hW (Or.inl hX)
      have hw := (a.deadsm r sl e hsl hX).mono (hslfca W)
      rw [hca]
      refine ⟨Or.inr hw, fun _ => ?_⟩
      have := hw.lt; have := ok.ca_va
      have := ok.dur3
      exact Nat.le_trans ok.ca_va (Nat.le_of_lt (Nat.lt_of_le_of_lt (Nat.le_refl _) hw.lt))
    · obtain ⟨h1, h2, _, h4, _⟩ := hbd
      have hx : depInfo t o.dep = some ⟨Xm.value, Xm.ca, Xm.dur⟩ := by rw [e]; simp [depInfo, hX]
      rw [h4]
      refine ⟨?_, fun h => h _ hx⟩
      rcases a.iv _ hx with ⟨a1, a2⟩ | a1
      · exact Or.inl ⟨by rw [← a1, h2], Nat.le_trans a2 h1⟩
      · exact Or.inr a1
    · obtain ⟨hn, hca⟩ := hnbd
      have W := hW (Or.inr ⟨Xm, hX, hn⟩)
      obtain ⟨DOM, CA⟩ := dom_of_old (fca := f.ca) hI OF hm hsm hwl hX W
      have hx : depInfo t o.dep = some ⟨Xm.value, Xm.ca, Xm.dur⟩ := by rw [e]; simp [depInfo, hX]
      rw [hca]
      exact ⟨Or.inr (spec_dom_tr hI ok ho hout' e hL hmo OF.durPL hX W DOM CA a),
        fun h => Nat.le_trans (h _ hx) CA⟩
  -- the new state
  have U : Upd r t (setSMemo t r (some (assignedMemo t.cur ca' f.dur r w))) :=
    ⟨rfl, rfl, rfl, rfl, fun _ _ => rfl, fun _ _ => rfl, fun c' hc' => setSMemo_other _ _ _ hc'⟩
  have hsm' : (setSMemo t r (some (assignedMemo t.cur ca' f.dur r w))).smemos r =
      some (assignedMemo t.cur ca' f.dur r w) := setSMemo_same _ _ _
  have hca_le : ca' ≤ t.cur := by
    rcases hcases with ⟨_, hca⟩ | ⟨Xm, hX, hbd | hnbd⟩
    · rw [hca]; exact fi.ca_le
    · rw [hbd.2.2.2.1]; exact Nat.le_trans hbd.2.2.2.2 fi.ca_le
    · rw [hnbd.2]; exact fi.ca_le
  refine ⟨?_, U, rfl, rfl, ⟨_, hsm', rfl, rfl, rfl, rfl⟩⟩
  refine spec_inv hI U rfl rfl hI.pn hsm' rfl ?_ hbusy ?_
  · refine ⟨(fun ho => by simp [assignedMemo] at ho), ?_, rfl, rfl, (fun ho => by simp [assignedMemo] at ho)⟩
    intro k' hk'
    cases hk'
    exact ⟨rfl, rfl, hca_le, Nat.le_refl _, hI.cur1, fi.dur3⟩
  · intro q m _ hq
    have ok := (hI.node q m hq).obs
    refine spec_obsTr U rfl rfl hsm' ?_ ?_
    · intro o ho hout' e L hL a
      exact (key m ok o ho hout' e L hL a).1
    · intro o ho hout' e a h
      exact (key m ok o ho hout' e m.dur (Nat.le_refl _) a).2 h

/-- the `specify` step when the node has no memo: nobody observes `spec r` -/
theorem specify_none {P idOf r t f c w} (hI : Inv P idOf t) (hm : t.memos r = none) (hsm : t.smemos r = none)
    (hslot : ∃ sl, t.slots r = some sl ∧ sl.upd = t.cur)
    (fi : FrOk P r t f) (hts : f.ts.isSome = true)
    (hpn : (specifyAndRecord t (some r) f c w).1.panic = none) :
    c = r ∧ specifyAndRecord t (some r) f c w = installAssigned t f r w ∧
    SpOut P idOf r t (installAssigned t f r w).1 f w := by
  have hc : r = c := by
    apply Classical.byContradiction
    intro hne
    rw [specify_foreign t (some r) f c w (Or.inl (fun h => hne (Option.some.inj h)))] at hpn
    rw [fail_panic_none hI.pn] at hpn; cases hpn
  subst hc
  obtain ⟨sl, hsl, hupd⟩ := hslot
  have hnr : ¬ memoSok t r := by
    rintro ⟨m, h1, _⟩; rw [hm] at h1; cases h1
  have hbusy : Busy t r := ⟨sl, hsl, hupd, hnr⟩
  have heq := specify_installs t f r w hts (by intro o ho; rw [hsm] at ho; cases ho)
  refine ⟨rfl, heq, ?_⟩
  rw [heq] at hpn
  obtain ⟨_, hst⟩ := installAssigned_state hI.pn hpn
  rw [hst, hsm]
  have U : Upd r t (setSMemo t r (some (assignedMemo t.cur
      (backdate none true ⟨w, none⟩ none f.ca f.dur t.cur).1 f.dur r w))) :=
    ⟨rfl, rfl, rfl, rfl, fun _ _ => rfl, fun _ _ => rfl, fun c' hc' => setSMemo_other _ _ _ hc'⟩
  refine ⟨?_, U, rfl, rfl, ⟨_, setSMemo_same _ _ _, rfl, rfl, rfl, rfl⟩⟩
  refine spec_inv hI U rfl rfl hI.pn (setSMemo_same _ _ _) rfl ?_ hbusy ?_
  · refine ⟨(fun ho => by simp [assignedMemo] at ho), ?_, rfl, rfl, (fun ho => by simp [assignedMemo] at ho)⟩
    intro k' hk'
    cases hk'
    exact ⟨rfl, rfl, fi.ca_le, Nat.le_refl _, hI.cur1, fi.dur3⟩
  · intro q m _ hq
    have ok := hI.node q m hq
    apply obsTr_off
    intro o ho hout hd
    rcases hd with e | e | e
    · obtain ⟨m', h', _⟩ := ok.obs.i5q o r ho hout e
      rw [hm] at h'; cases h'
    · obtain ⟨mc, h'⟩ := ok.hmemo o r ho hout (Or.inl e)
      rw [hm] at h'; cases h'
    · obtain ⟨mc, h'⟩ := ok.hmemo o r ho hout (Or.inr e)
      rw [hm] at h'; cases h'

end X
end SalsaVerif.Proofs.CoreSpec
