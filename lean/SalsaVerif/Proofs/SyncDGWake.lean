/-
  W6, transfer part: `transfer_lock` wakes at most one thread, with `Completed`, and that thread is the
  new owner thread or a thread the new owner (transitively) waits for.
-/
import SalsaVerif.Proofs.SyncDGTerm

namespace SalsaVerif.Proofs.SyncDG
open SalsaVerif.Model.SyncDG

theorem findIdx_spec {s : State} {nt : Nat} : ∀ (l : List Nat) (i0 i : Nat),
    findIdx s nt l i0 = some (some i) →
    i0 ≤ i ∧ ∃ t, l[i - i0]? = some t ∧ (t = nt ∨ dependsOn s nt t = some true) := by
  intro l
  induction l with
  | nil => intro i0 i h; simp [findIdx] at h
  | cons t ts ih =>
    intro i0 i h
    unfold findIdx at h
    by_cases htn : t = nt
    · simp only [htn, if_true, Option.some.injEq] at h
      subst h
      exact ⟨Nat.le_refl _, t, by simp, Or.inl htn⟩
    · simp only [htn, if_false] at h
      cases hd : dependsOn s nt t with
      | none => simp [hd] at h
      | some b =>
        cases b with
        | true =>
          simp only [hd, Option.some.injEq] at h
          subst h
          exact ⟨Nat.le_refl _, t, by simp, Or.inr hd⟩
        | false =>
          simp only [hd] at h
          obtain ⟨hle, t', ht', hp⟩ := ih (i0 + 1) i h
          refine ⟨by omega, t', ?_, hp⟩
          have : i - i0 = (i - (i0 + 1)) + 1 := by omega
          rw [this, List.getElem?_cons_succ]
          exact ht'

theorem findFirst_spec {α : Type} {f : Nat → Option (Option α)} {P : α → Prop}
    (hf : ∀ d r, f d = some (some r) → P r) : ∀ (l : List Nat) (r : α),
    findFirst f l = some (some r) → P r := by
  intro l
  induction l with
  | nil => intro r h; simp [findFirst] at h
  | cons d ds ih =>
    intro r h
    unfold findFirst at h
    cases hd : f d with
    | none => simp [hd] at h
    | some o =>
      cases o with
      | some r' =>
        simp only [hd, Option.some.injEq] at h
        subst h; exact hf d r' hd
      | none =>
        simp only [hd] at h
        exact ih r h

theorem findBlockedThread_spec {s : State} {nt : Nat} : ∀ (fuel src q i : Nat),
    findBlockedThread s nt fuel src = some (some (q, i)) →
    ∃ t, (s.qdeps q)[i]? = some t ∧ (t = nt ∨ dependsOn s nt t = some true) := by
  intro fuel
  induction fuel with
  | zero => intro src q i h; simp [findBlockedThread] at h
  | succ n ih =>
    intro src q i h
    unfold findBlockedThread at h
    cases hf : findIdx s nt (s.qdeps src) 0 with
    | none => simp [hf] at h
    | some o =>
      cases o with
      | some j =>
        simp only [hf, Option.some.injEq, Prod.mk.injEq] at h
        obtain ⟨rfl, rfl⟩ := h
        obtain ⟨_, t, ht, hp⟩ := findIdx_spec _ _ _ hf
        exact ⟨t, by simpa using ht, hp⟩
      | none =>
        simp only [hf] at h
        exact findFirst_spec (P := fun (r : Nat × Nat) =>
          ∃ t, (s.qdeps r.1)[r.2]? = some t ∧ (t = nt ∨ dependsOn s nt t = some true))
          (fun d r hd => ih d r.1 r.2 hd) _ (q, i) h

/-- What `unblock_transfer_target` does. -/
theorem unblockTransferTarget_spec {s s' : State} {src nt : Nat}
    (h : unblockTransferTarget s src nt = some s') :
    s' = s ∨ ∃ q t, t ∈ s.qdeps q ∧ (t = nt ∨ dependsOn s nt t = some true) ∧
      (s.edges t).isSome ∧ s'.edges = upd s.edges t none ∧
      s'.results = upd s.results t (some .completed) := by
  unfold unblockTransferTarget at h
  cases hf : findBlockedThread s nt (s.bound + 1) src with
  | none => simp [hf] at h
  | some o =>
    cases o with
    | none =>
      simp only [hf, Option.some.injEq] at h
      exact Or.inl h.symm
    | some qi =>
      obtain ⟨q, i⟩ := qi
      simp only [hf] at h
      obtain ⟨t, ht, hp⟩ := findBlockedThread_spec _ _ _ _ hf
      simp only [ht] at h
      obtain ⟨hb, rfl⟩ := unblockRuntime_eq h
      exact Or.inr ⟨q, t, List.mem_of_getElem? ht, hp, hb, rfl, rfl⟩

/-- One protocol/graph step wakes at most one thread, with `Completed`, and the woken thread satisfies `P`. -/
structure WakesOne (s s' : State) (P : Nat → Prop) : Prop where
  completed : ∀ x, status s x = .blocked → status s' x = .ready → s'.results x = some .completed ∧ P x
  unique : ∀ x y, status s x = .blocked → status s' x = .ready →
    status s y = .blocked → status s' y = .ready → x = y

theorem WakesOne.of_same {s s' : State} {P : Nat → Prop}
    (hst : ∀ x, status s' x = status s x) : WakesOne s s' P := by
  constructor
  · intro x h1 h2; rw [hst, h1] at h2; cases h2
  · intro x y h1 h2; rw [hst, h1] at h2; cases h2

/-- `update_transferred_edges` changes neither who is blocked nor any result. -/
structure StatusSame (s s' : State) : Prop where
  blocked : ∀ x, (s'.edges x).isSome = (s.edges x).isSome
  results : s'.results = s.results

theorem StatusSame.refl (s : State) : StatusSame s s := ⟨fun _ => rfl, rfl⟩

theorem StatusSame.trans {a b c : State} (h1 : StatusSame a b) (h2 : StatusSame b c) : StatusSame a c :=
  ⟨fun x => (h2.blocked x).trans (h1.blocked x), h2.results.trans h1.results⟩

theorem StatusSame.status {s s' : State} (h : StatusSame s s') (x : Nat) :
    Model.SyncDG.status s' x = Model.SyncDG.status s x := by
  unfold Model.SyncDG.status; rw [h.blocked, h.results]

theorem repointEdges_status {nt : Nat} : ∀ (L : List Nat) (s s' : State),
    repointEdges nt s L = some s' → StatusSame s s' := by
  intro L
  induction L with
  | nil =>
    intro s s' h
    simp only [repointEdges, Option.some.injEq] at h
    subst h; exact StatusSame.refl s
  | cons t ts ih =>
    intro s s' h
    unfold repointEdges at h
    cases het : s.edges t with
    | none => simp [het] at h
    | some u =>
      simp only [het] at h
      cases hd : dependsOn { s with edges := upd s.edges t (some nt) } nt t with
      | none => simp [hd] at h
      | some b =>
        cases b with
        | true => simp [hd] at h
        | false =>
          simp only [hd] at h
          refine StatusSame.trans (b := { s with edges := upd s.edges t (some nt) }) ⟨?_, rfl⟩ (ih _ s' h)
          intro x
          by_cases hxt : x = t
          · subst hxt; simp [het]
          · simp only; rw [upd_other _ _ _ _ hxt]

theorem updateTransferredEdges_status {nt : Nat} : ∀ (fuel : Nat) (s s' : State) (q : Nat),
    updateTransferredEdges nt fuel s q = some s' → StatusSame s s' := by
  intro fuel
  induction fuel with
  | zero => intro s s' q h; simp [updateTransferredEdges] at h
  | succ n ih =>
    intro s s' q h
    unfold updateTransferredEdges at h
    cases h1 : repointEdges nt s (s.qdeps q) with
    | none => simp [h1] at h
    | some s1 =>
      simp only [h1] at h
      refine forEachDep_ind (P := fun x => StatusSame s x) ?_ _ _ _ (repointEdges_status _ _ _ h1) h
      intro a d b ha hb
      exact ha.trans (ih a b d hb)

theorem afterTransfer_wakes {s s' : State} {q nt : Nat} (h : afterTransfer s q nt = some s') :
    WakesOne s s' (fun x => x = nt ∨ Path s.edges nt x) := by
  unfold afterTransfer at h
  cases h1 : unblockTransferTarget s q nt with
  | none => simp [h1] at h
  | some s1 =>
    simp only [h1] at h
    have hst := updateTransferredEdges_status _ _ _ _ h
    rcases unblockTransferTarget_spec h1 with rfl | ⟨k, t, _, hp, hb, he, hr⟩
    · exact WakesOne.of_same hst.status
    · have hkey : ∀ x, status s x = .blocked → status s' x = .ready → x = t := by
        intro x hx1 hx2
        rw [hst.status] at hx2
        apply Classical.byContradiction
        intro hxt
        have : status s1 x = status s x := status_congr (by rw [he, upd_other _ _ _ _ hxt])
          (by rw [hr, upd_other _ _ _ _ hxt])
        rw [this, hx1] at hx2
        cases hx2
      constructor
      · intro x hx1 hx2
        have := hkey x hx1 hx2
        subst this
        refine ⟨by rw [hst.results, hr]; simp, ?_⟩
        rcases hp with hp | hp
        · exact Or.inl hp
        · rcases dependsOnLoop_true _ _ hp with p | ⟨e, _⟩
          · exact Or.inr p
          · exact Or.inl e.symm
      · intro x y hx1 hx2 hy1 hy2
        rw [hkey x hx1 hx2, hkey y hy1 hy2]

/-- `transfer_lock` (before its own `block_on`): at most one thread is woken, with `Completed`, and it
    is the new owner thread `nt` or a thread that `nt` transitively waits for. -/
theorem transferLockCore_wakes {s s' : State} {q c n nt : Nat} {o : SyncOwner} {kind : TransferKind}
    (h : transferLockCore s q c n o = some (s', kind, nt)) :
    WakesOne s s' (fun x => x = nt ∨ Path s.edges nt x) := by
  unfold transferLockCore at h
  cases hnt : newOwnerThread s q n o with
  | none => simp [hnt] at h
  | some nt' =>
    simp only [hnt] at h
    cases hpre : transferPre s nt' c with
    | none => simp [hpre] at h
    | some b =>
      cases b with
      | false => simp [hpre] at h
      | true =>
        simp only [hpre] at h
        cases he : transferEntry s q c n nt' with
        | none => simp [he] at h
        | some r =>
          cases r with
          | none =>
            simp only [he] at h
            by_cases hcn : c = nt'
            · simp only [hcn, if_true, Option.some.injEq, Prod.mk.injEq] at h
              rw [← h.1]; exact WakesOne.of_same (fun _ => rfl)
            · simp only [hcn, if_false] at h
              cases ha : afterTransfer s q nt' with
              | none => simp [ha] at h
              | some s7 =>
                simp only [ha, Option.some.injEq, Prod.mk.injEq] at h
                obtain ⟨rfl, _, rfl⟩ := h
                exact afterTransfer_wakes ha
          | some p =>
            obtain ⟨s4, ch⟩ := p
            simp only [he] at h
            cases hr : registerDependent s4 q n with
            | none => simp [hr] at h
            | some s5 =>
              simp only [hr] at h
              have e5 := (transferEntry_sameG he).trans (registerDependent_sameG hr)
              have hst5 : ∀ x, status s5 x = status s x :=
                fun x => status_congr (by rw [e5.edges]) (by rw [e5.results])
              cases ch with
              | false =>
                simp only [Bool.false_eq_true, if_false, Option.some.injEq, Prod.mk.injEq] at h
                rw [← h.1]; exact WakesOne.of_same hst5
              | true =>
                simp only [if_true] at h
                cases ha : afterTransfer s5 q nt' with
                | none => simp [ha] at h
                | some s7 =>
                  simp only [ha, Option.some.injEq, Prod.mk.injEq] at h
                  obtain ⟨rfl, _, rfl⟩ := h
                  have w := afterTransfer_wakes ha
                  constructor
                  · intro x h1 h2
                    have := w.completed x (by rw [hst5]; exact h1) h2
                    rw [e5.edges] at this
                    exact this
                  · intro x y hx1 hx2 hy1 hy2
                    exact w.unique x y (by rw [hst5]; exact hx1) hx2 (by rw [hst5]; exact hy1) hy2

end SalsaVerif.Proofs.SyncDG
