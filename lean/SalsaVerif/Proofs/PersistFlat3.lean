/-
  C26 with flattening: a new revision (input write, synthetic write, rejected write) preserves `J`
  with the history extended by the new inputs.  Core Lean only.
-/
import SalsaVerif.Proofs.PersistFlat3b

namespace SalsaVerif.Proofs.PersistFlat
open SalsaVerif.Model.Core SalsaVerif.Model.Persist SalsaVerif.Proofs.Core SalsaVerif.Proofs.Persist

/-- the history after a new revision -/
def extH (H : Nat → Nat → Inp) (s s' : State) : Nat → Nat → Inp :=
  fun ρ => if ρ ≤ s.cur then H ρ else s'.inp

theorem extH_old {H s s' ρ} (h : ρ ≤ s.cur) : extH H s s' ρ = H ρ := by simp [extH, h]

theorem bump_base {s s' b} (hb : Bump s s' b) (hB : Base s) : Base s' := by
  have hlc_ge : ∀ k, lc s k ≤ lc s' k := by
    intro k; rw [hb.lc k]; split
    · exact Nat.le_trans (hB.lc_le k) (Nat.le_succ _)
    · exact Nat.le_refl _
  refine ⟨by rw [hb.cur]; exact Nat.le_succ_of_le hB.cur1, ?_, ?_, ?_, ?_, ?_, ?_⟩
  · intro d; rw [hb.lc d, hb.cur]; split
    · exact Nat.le_refl _
    · exact Nat.le_trans (hB.lc_le d) (Nat.le_succ _)
  · intro d; exact Nat.le_trans (hB.lc_ge1 d) (hlc_ge d)
  · intro d
    rw [hb.lc (d + 1), hb.lc d]
    by_cases h1 : d + 1 ≤ b
    · have h2 : d ≤ b := by omega
      simp [h1, h2]
    · by_cases h2 : d ≤ b
      · simp only [h1, h2, if_false, if_true]
        exact Nat.le_trans (hB.lc_le _) (Nat.le_succ _)
      · simp only [h1, h2, if_false]; exact hB.lc_anti d
  · intro d hd
    rw [hb.lc d]
    have : ¬ d ≤ b := by have := hb.b3; omega
    simp only [this, if_false]; exact hB.lc_never d hd
  · intro j
    rcases hb.inp j with h | h
    · rw [h, hb.cur]; exact Nat.le_trans (hB.inp_le j) (Nat.le_succ _)
    · rw [h.1, hb.cur]; exact Nat.le_refl _
  · intro j
    rcases hb.inp j with h | h
    · rw [h]; exact hB.inp_ge1 j
    · rw [h.1]; exact Nat.succ_le_succ (Nat.zero_le _)

theorem bump_hist {H s s' b} (hb : Bump s s' b) (hB : Base s) (hH : Hist H s) :
    Hist (extH H s s') s' := by
  have hlc_ge : ∀ k, lc s k ≤ lc s' k := by
    intro k; rw [hb.lc k]; split
    · exact Nat.le_trans (hB.lc_le k) (Nat.le_succ _)
    · exact Nat.le_refl _
  constructor
  · intro i ρ h1 h2
    by_cases hρ : ρ ≤ s.cur
    · rw [extH_old hρ]
      rcases hb.inp i with h | h
      · rw [h] at h1 ⊢; exact hH.since i ρ h1 hρ
      · omega
    · simp [extH, hρ]
  · intro ρ i k h1 h2 hne hk
    rw [hb.cur] at h2
    by_cases hρ : ρ < s.cur
    · rw [extH_old (Nat.le_of_lt hρ), extH_old (Nat.succ_le_of_lt hρ)] at hne
      rw [extH_old (Nat.le_of_lt hρ)] at hk
      exact Nat.le_trans (hH.lcw ρ i k h1 hρ hne hk) (hlc_ge k)
    · have e : ρ = s.cur := by omega
      subst e
      have hn : ¬ s.cur + 1 ≤ s.cur := by omega
      simp only [extH, Nat.le_refl, if_true, hn, if_false] at hne hk
      rw [hH.cur hB] at hne hk
      rcases hb.inp i with h | h
      · exact absurd h.symm hne
      · rw [hb.lc k]
        have : k ≤ b := Nat.le_trans hk h.2
        simp [this]
  · intro ρ i h1 h2
    by_cases hρ : ρ ≤ s.cur
    · rw [extH_old hρ]; exact hH.hca ρ i h1 hρ
    · simp only [extH, hρ, if_false]
      have : ρ = s'.cur := by rw [hb.cur] at h2 ⊢; omega
      rw [this]; exact (bump_base hb hB).inp_le i

/-- `MemoJ` looks at the history only up to the memo's `verified_at` -/
theorem memoJ_congrH {pers P H H' R0 s q m} (h : MemoJ pers P H R0 s q m)
    (he : ∀ ρ, ρ ≤ m.va → H' ρ = H ρ)
    (hall : ∀ k mk, s.memos k = some mk → H' mk.va = H mk.va) : MemoJ pers P H' R0 s q m := by
  have e1 : H' m.va = H m.va := he _ (Nat.le_refl _)
  have e2 : H' m.deepAt = H m.deepAt := he _ h.deep_va
  refine ⟨h.ca_va, h.va_cur, h.deep1, h.deep_va, h.dur3, ?_, ?_, ?_, ?_, ?_, ?_, ?_, h.j8, ?_, h.r0, ?_⟩
  · rw [e1]; exact h.j3
  · intro i hi ρ h1 h2
    rw [e2] at hi ⊢
    rw [he ρ h2]; exact h.j4 i hi ρ h1 h2
  · rw [e1]; exact h.j5
  · unfold PremL; rw [e1]; exact h.j6
  · rw [e1]; exact h.j7
  · rw [e1]; exact h.j7s
  · intro hr; exact cutC_congr rfl hall q (h.j6c hr)
  · rw [e1]; exact h.j16
  · rw [e1]; exact h.pc

theorem bump_memoJ {pers P H R0 s s' b q m} (hb : Bump s s' b) (hJ : J pers P H R0 s)
    (hm : s.memos q = some m) : MemoJ pers P H R0 s' q m := by
  have h := hJ.memo q m hm
  have hB := hJ.base
  have hinp_ca : ∀ i, (s.inp i).ca ≤ (s'.inp i).ca := by
    intro i
    rcases hb.inp i with e | e
    · rw [e]; exact Nat.le_refl _
    · rw [e.1]; exact Nat.le_trans (hB.inp_le i) (Nat.le_succ _)
  have hsok : SOK s' m → b < m.dur ∧ SOK s m := by
    intro hs
    rcases hs with hs | hs
    · rw [hb.cur] at hs; have := h.va_cur; omega
    · rw [hb.lc m.dur] at hs
      by_cases hk : m.dur ≤ b
      · simp only [hk, if_true] at hs; have := h.va_cur; omega
      · simp only [hk, if_false] at hs
        exact ⟨Nat.lt_of_not_le hk, Or.inr hs⟩
  have hpre_old : (R0 ≤ m.va ∨ PremL P H s' q m) → (R0 ≤ m.va ∨ PremL P H s q m) := by
    intro hpre
    rcases hpre with hpre | hpre
    · exact Or.inl hpre
    · right
      exact ⟨fun i hi hl => Nat.le_trans (hinp_ca i) (hpre.1 i hi hl),
        fun k mk hk hmk => hpre.2 k mk hk (by rw [hb.memos]; exact hmk)⟩
  refine ⟨h.ca_va, by rw [hb.cur]; exact Nat.le_succ_of_le h.va_cur, h.deep1, h.deep_va, h.dur3, h.j3, h.j4,
    ?_, ?_, ?_, h.j7s, ?_, ?_, ?_, h.r0, ?_⟩
  · -- j5
    rcases h.j5 with h1 | ⟨k, hk, h2⟩
    · exact Or.inl h1
    · refine Or.inr ⟨k, hk, ?_⟩
      rcases h2 with ⟨i, a, c⟩ | ⟨p, mp, a, c, d, e⟩
      · exact Or.inl ⟨i, a, Nat.le_trans c (hinp_ca i)⟩
      · exact Or.inr ⟨p, mp, a, c, by rw [hb.memos]; exact d, e⟩
  · -- j6
    intro hpre
    exact h.j6 (hpre_old hpre)
  · -- j7
    intro k hk
    obtain ⟨a, mk, c, d⟩ := h.j7 k hk
    exact ⟨a, mk, by rw [hb.memos]; exact c, d⟩
  · -- j6c
    intro hr; exact cutC_congr hb.memos (fun _ _ _ => rfl) q (h.j6c hr)
  · -- j8
    intro hs k hk
    obtain ⟨hbm, hs0⟩ := hsok hs
    obtain ⟨mk, hmk, hsk, hc, hdur⟩ := h.j8 hs0 k hk
    refine ⟨mk, by rw [hb.memos]; exact hmk, ?_, hc, hdur⟩
    right
    rw [hb.lc mk.dur]
    have hk' : ¬ mk.dur ≤ b := by omega
    simp only [hk', if_false]
    rcases hsk with e | e
    · rw [e]; exact hB.lc_le _
    · exact e
  · -- j16
    intro k hk hp
    rw [hb.memos]; exact h.j16 k hk hp
  · -- pc
    intro k mk hk hmk hc
    rw [hb.memos] at hmk
    exact h.pc k mk hk hmk hc

/-- **a new revision preserves `J`** (history extended by the new inputs) -/
theorem bump_J {pers P H R0 s s' b} (hb : Bump s s' b) (hJ : J pers P H R0 s) :
    J pers P (extH H s s') R0 s' := by
  refine ⟨bump_base hb hJ.base, bump_hist hb hJ.base hJ.hist,
    by rw [hb.cur]; exact Nat.le_succ_of_le hJ.r0, ?_⟩
  intro q m hm
  rw [hb.memos] at hm
  apply memoJ_congrH (bump_memoJ hb hJ hm)
  · intro ρ hρ
    exact extH_old (Nat.le_trans hρ (hJ.memo q m hm).va_cur)
  · intro k mk hmk
    rw [hb.memos] at hmk
    exact extH_old (hJ.memo k mk hmk).va_cur

end SalsaVerif.Proofs.PersistFlat
