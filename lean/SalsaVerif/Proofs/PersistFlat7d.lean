/-
  C26 with flattening: the walk `cmse` completes every function it enters (`cmse_done`), and the
  top-level loop `flattenObs` (`flatten_done`).  Core Lean only.
-/
import SalsaVerif.Proofs.PersistFlat7c

namespace SalsaVerif.Proofs.PersistFlat
open SalsaVerif.Model.Core SalsaVerif.Model.Persist SalsaVerif.Proofs.Core SalsaVerif.Proofs.Persist

theorem hasDep_insertEdge (a : FAcc) (o : Obs) : hasDep (insertEdge a o).flat o.dep = true := by
  unfold insertEdge
  split
  · rename_i h; exact h
  · simp [hasDep]

theorem insertEdge_ext (a : FAcc) (o : Obs) : ∃ e, (insertEdge a o).flat = a.flat ++ e := by
  unfold insertEdge
  split
  · exact ⟨[], by simp⟩
  · exact ⟨_, rfl⟩

theorem insertEdge_vis (a : FAcc) (o : Obs) : (insertEdge a o).visited = a.visited := by
  unfold insertEdge; split <;> rfl

theorem cmse_done {pers P H R0 s} (hP : Wf P) (hJ : J pers P H R0 s) (hA : AllRec s) :
    ∀ fuel j a anc, j < fuel → (∀ x, x ∈ anc → j < x) → VisOK s a anc → (∃ mj, s.memos j = some mj) →
    (∃ e, (cmse s fuel j a).flat = a.flat ++ e) ∧ VisOK s (cmse s fuel j a) anc ∧
    Done s (cmse s fuel j a).flat j := by
  intro fuel
  induction fuel with
  | zero => intro j a anc h; omega
  | succ fuel ih =>
    intro j a anc hj hanc hv ⟨mj, hmj⟩
    simp only [cmse, hmj]
    have hfilt : mj.obs.filter (·.recd) = mj.obs :=
      List.filter_eq_self.mpr (fun o ho => hA j mj hmj o ho)
    rw [hfilt]
    have h0 := hJ.memo j mj hmj
    have hv0 : VisOK s { a with visited := .qry j :: a.visited } (j :: anc) := by
      refine ⟨?_, ?_⟩
      · intro d hd
        simp only [List.mem_cons] at hd
        rcases hd with hd | hd
        · exact ⟨j, hd⟩
        · exact hv.isq d hd
      · intro k hk
        simp only [List.mem_cons, Dep.qry.injEq] at hk
        rcases hk with hk | hk
        · exact Or.inl (by simp [hk])
        · rcases hv.cov k hk with h | h
          · exact Or.inl (by simp [h])
          · exact Or.inr h
    have hlt : ∀ o p, o ∈ mj.obs → o.dep = .qry p → p < j ∧ ∃ mp, s.memos p = some mp := by
      intro o p ho hd
      obtain ⟨a1, mp, a2, _⟩ := h0.j7 p (by rw [← hd]; exact mem_odOf' ho)
      exact ⟨sdeps_lt hP a1, mp, a2⟩
    have hwalk := walkD (s := s) (anc := j :: anc) (cmseEdge (cmse s fuel)) mj.obs
      { a with visited := .qry j :: a.visited } hv0 (by
        intro a1 o ho hv1
        have same : (∀ i, o.dep = .inp i → hasDep a1.flat (.inp i) = true) →
            (∀ p, o.dep = .qry p → hasDep a1.flat (.qry p) = true ∨ Done s a1.flat p) →
            StepD s (j :: anc) a1 a1 o := fun h1 h2 => ⟨⟨[], by simp⟩, hv1, h1, h2⟩
        unfold cmseEdge
        split
        · rename_i hvis
          have hmem : o.dep ∈ a1.visited := by simpa using hvis
          obtain ⟨p, hp⟩ := hv1.isq _ hmem
          apply same
          · intro i hd; rw [hp] at hd; cases hd
          · intro p' hd
            rw [hp] at hd; cases hd
            rw [hp] at hmem
            rcases hv1.cov p hmem with h | h
            · have := (hlt o p ho hp).1
              simp only [List.mem_cons] at h
              rcases h with h | h
              · omega
              · have := hanc p h; omega
            · exact Or.inr h
        · split
          · rename_i _ hhas
            apply same
            · intro i hd; rw [← hd]; exact hhas
            · intro p hd; rw [← hd]; exact Or.inl hhas
          · split
            · rename_i i hd
              refine ⟨insertEdge_ext a1 o, visOK_ext hv1 (insertEdge_vis a1 o) (insertEdge_ext a1 o), ?_, ?_⟩
              · intro i' hd'
                rw [← hd']; exact hasDep_insertEdge a1 o
              · intro p hd'; rw [hd] at hd'; cases hd'
            · rename_i k hd
              obtain ⟨hkj, hmk⟩ := hlt o k ho hd
              obtain ⟨e1, v1, d1⟩ := ih k a1 (j :: anc) (by omega) (by
                intro x hx
                simp only [List.mem_cons] at hx
                rcases hx with hx | hx
                · omega
                · have := hanc x hx; omega) hv1 hmk
              refine ⟨e1, v1, ?_, ?_⟩
              · intro i hd'; rw [hd] at hd'; cases hd'
              · intro p hd'; rw [hd] at hd'; cases hd'; exact Or.inr d1)
    obtain ⟨we, wv, wi, wq⟩ := hwalk
    have hdone : Done s (List.foldl (cmseEdge (cmse s fuel)) { a with visited := .qry j :: a.visited } mj.obs).flat j := by
      refine Done.mk hmj wi ?_
      intro o ho p hd hf
      rcases wq o ho p hd with h | h
      · rw [h] at hf; cases hf
      · exact h
    refine ⟨we, ⟨wv.isq, ?_⟩, hdone⟩
    intro k hk
    rcases wv.cov k hk with h | h
    · simp only [List.mem_cons] at h
      rcases h with h | h
      · subst h; exact Or.inr hdone
      · exact Or.inl h
    · exact Or.inr h

end SalsaVerif.Proofs.PersistFlat
