/-
  W4, part 3: every protocol step and every graph-level step keeps the forest invariant, provided each
  transfer satisfies the client precondition `transferClientOk`.
-/
import SalsaVerif.Proofs.SyncDGForest2

namespace SalsaVerif.Proofs.SyncDG
open SalsaVerif.Model.SyncDG

theorem transferClientOk_sound {s : State} {q n : Nat} (h : transferClientOk s q n = true) :
    n ≠ q ∧ (s.transferred q = none → ¬ TPath s.transferred n q) := by
  unfold transferClientOk at h
  simp only [Bool.and_eq_true, bne_iff_ne, ne_eq, Bool.or_eq_true, beq_iff_eq] at h
  refine ⟨h.1, fun hq => ?_⟩
  rcases h.2 with h2 | h2
  · simp [hq] at h2
  · exact (dependsOnLoop_false _ _ h2).1

theorem unblockTransferTarget_sameTD {s s' : State} {src nt : Nat}
    (h : unblockTransferTarget s src nt = some s') : SameTD s s' := by
  unfold unblockTransferTarget at h
  cases hf : findBlockedThread s nt (s.bound + 1) src with
  | none => simp [hf] at h
  | some o =>
    cases o with
    | none =>
      simp only [hf, Option.some.injEq] at h
      subst h; exact SameTD.refl s
    | some qi =>
      obtain ⟨q, i⟩ := qi
      simp only [hf] at h
      cases hti : (s.qdeps q)[i]? with
      | none => simp [hti] at h
      | some t =>
        simp only [hti] at h
        obtain ⟨_, rfl⟩ := unblockRuntime_eq h
        exact ⟨rfl, rfl, rfl, rfl⟩

theorem afterTransfer_sameTD {s s' : State} {q nt : Nat} (hinv : GInv s [])
    (h : afterTransfer s q nt = some s') : s'.transferred = s.transferred ∧ s'.tdeps = s.tdeps := by
  unfold afterTransfer at h
  cases h1 : unblockTransferTarget s q nt with
  | none => simp [h1] at h
  | some s1 =>
    simp only [h1] at h
    have e1 := unblockTransferTarget_sameTD h1
    have g1 := unblockTransferTarget_gstep hinv h1
    obtain ⟨_, e2⟩ := updateTransferredEdges_gstep _ _ _ _ g1.inv h
    exact ⟨e2.transferred.trans e1.transferred, e2.tdeps.trans e1.tdeps⟩

theorem transferLockCore_forest {s s' : State} {q c n nt : Nat} {o : SyncOwner} {kind : TransferKind}
    (hinv : GInv s []) (hf : Forest s) (hcl : transferClientOk s q n = true)
    (h : transferLockCore s q c n o = some (s', kind, nt)) : Forest s' := by
  obtain ⟨hne, hnp⟩ := transferClientOk_sound hcl
  unfold transferLockCore at h
  cases hnt : newOwnerThread s q n o with
  | none => simp [hnt] at h
  | some nt' =>
    simp only [hnt] at h
    cases hpre : transferPre s nt' c with
    | none => simp [hpre] at h
    | some b =>
      cases b with
      | false => simp [hpre] at h
      | true =>
        simp only [hpre] at h
        cases he : transferEntry s q c n nt' with
        | none => simp [he] at h
        | some r =>
          cases r with
          | none =>
            simp only [he] at h
            by_cases hcn : c = nt'
            · simp only [hcn, if_true, Option.some.injEq, Prod.mk.injEq] at h
              rw [← h.1]; exact hf
            · simp only [hcn, if_false] at h
              cases ha : afterTransfer s q nt' with
              | none => simp [ha] at h
              | some s7 =>
                simp only [ha, Option.some.injEq, Prod.mk.injEq] at h
                rw [← h.1]
                obtain ⟨e1, e2⟩ := afterTransfer_sameTD hinv ha
                exact Forest.congr e1 e2 hf
          | some p =>
            obtain ⟨s4, ch⟩ := p
            simp only [he] at h
            cases hr : registerDependent s4 q n with
            | none => simp [hr] at h
            | some s5 =>
              simp only [hr] at h
              have f5 := transferEntry_forest hf hne hnp he hr
              have g5 := ((transferEntry_sameG he).trans (registerDependent_sameG hr)).gstep hinv
              cases ch with
              | false =>
                simp only [Bool.false_eq_true, if_false, Option.some.injEq, Prod.mk.injEq] at h
                rw [← h.1]; exact f5
              | true =>
                simp only [if_true] at h
                cases ha : afterTransfer s5 q nt' with
                | none => simp [ha] at h
                | some s7 =>
                  simp only [ha, Option.some.injEq, Prod.mk.injEq] at h
                  rw [← h.1]
                  obtain ⟨e1, e2⟩ := afterTransfer_sameTD g5.inv ha
                  exact Forest.congr e1 e2 f5

theorem addEdge_sameTD {s s' : State} {f k t : Nat} (h : addEdge s f k t = some s') :
    s'.transferred = s.transferred ∧ s'.tdeps = s.tdeps := by
  obtain ⟨_, _, _, rfl⟩ := addEdge_eq h
  exact ⟨rfl, rfl⟩

theorem transferLock_forest {s s' : State} {q c n : Nat} {o : SyncOwner} {kind : TransferKind} {b : Bool}
    (hinv : GInv s []) (hf : Forest s) (hcl : transferClientOk s q n = true)
    (h : transferLock s q c n o = some (s', kind, b)) : Forest s' := by
  unfold transferLock at h
  cases hc : transferLockCore s q c n o with
  | none => simp [hc] at h
  | some p =>
    obtain ⟨s1, kd, nt⟩ := p
    have f1 := transferLockCore_forest hinv hf hcl hc
    cases kd with
    | noop =>
      simp only [hc, Option.some.injEq, Prod.mk.injEq] at h
      rw [← h.1]; exact f1
    | same =>
      simp only [hc, Option.some.injEq, Prod.mk.injEq] at h
      rw [← h.1]; exact f1
    | changed =>
      simp only [hc] at h
      by_cases hcn : c = nt
      · simp only [hcn, if_true, Option.some.injEq, Prod.mk.injEq] at h
        rw [← h.1]; exact f1
      · simp only [hcn, if_false] at h
        cases hd : dependsOn s1 nt c with
        | none => simp [hd] at h
        | some bb =>
          cases bb with
          | true =>
            simp only [hd, Option.some.injEq, Prod.mk.injEq] at h
            rw [← h.1]; exact f1
          | false =>
            simp only [hd] at h
            cases ha : addEdge s1 c n nt with
            | none => simp [ha] at h
            | some s2 =>
              simp only [ha, Option.some.injEq, Prod.mk.injEq] at h
              rw [← h.1]
              obtain ⟨e1, e2⟩ := addEdge_sameTD ha
              exact Forest.congr e1 e2 f1

theorem release_forest {s s' : State} {k : Nat} {st : SyncState} {r : WaitResult} (hf : Forest s)
    (h : release s k st r = some s') : Forest s' := by
  unfold release at h
  cases haw : st.anyoneWaiting with
  | false =>
    simp only [haw, Bool.not_false, if_true, Option.some.injEq] at h
    subst h; exact hf
  | true =>
    simp only [haw, Bool.not_true, Bool.false_eq_true, if_false] at h
    cases hu : (if st.claimedTwice = true then undoTransferLock s k else some s) with
    | none => simp [hu] at h
    | some s1 =>
      simp only [hu] at h
      have f1 : Forest s1 := by
        cases hct : st.claimedTwice with
        | false =>
          simp only [hct, Bool.false_eq_true, if_false, Option.some.injEq] at hu
          subst hu; exact hf
        | true =>
          simp only [hct, if_true] at hu
          exact (undoTransferLock_forest hf hu).1
      cases h2 : unblockRuntimesBlockedOn s1 k r with
      | none => simp [h2] at h
      | some s2 =>
        simp only [h2] at h
        have e := unblockRuntimesBlockedOn_sameTD h2
        have f2 : Forest s2 := Forest.congr e.transferred e.tdeps f1
        cases htt : st.isTransferTarget with
        | false =>
          simp only [htt, Bool.false_eq_true, if_false, Option.some.injEq] at h
          subst h; exact f2
        | true =>
          simp only [htt, if_true] at h
          exact unblockTransferredOwnedBy_forest f2 h

theorem releaseEntry_forest {s s' : State} {k : Nat} {r : WaitResult} (hf : Forest s)
    (h : releaseEntry s k r = some s') : Forest s' := by
  unfold releaseEntry at h
  cases hk : s.sync k with
  | none => simp [hk] at h
  | some st =>
    simp only [hk] at h
    exact release_forest (s := { s with sync := upd s.sync k none }) (Forest.congr (s := s) rfl rfl hf) h

/-- Frame of the `claimed_twice` branch of `release_self` (no `GInv` needed). -/
theorem handback_frame {s s' : State} {t k : Nat} {st : SyncState}
    (hk : s.sync k = some st) (hct : st.claimedTwice = true) (h : releaseSelf s t k = some s') :
    s'.transferred = s.transferred ∧ s'.tdeps = s.tdeps ∧ s'.bound = s.bound := by
  rcases releaseSelf_handback_cases hk hct h with ⟨_, rfl⟩ | ⟨_, _, h⟩
  · exact ⟨rfl, rfl, rfl⟩
  · have e := unblockRuntimesBlockedOn_sameTD h
    exact ⟨e.transferred, e.tdeps, e.bound⟩

theorem releaseSelf_forest {s s' : State} {t k : Nat} (hf : Forest s)
    (h : releaseSelf s t k = some s') : Forest s' := by
  cases hk : s.sync k with
  | none => simp [releaseSelf, hk] at h
  | some st =>
    cases hct : st.claimedTwice with
    | true =>
      obtain ⟨e1, e2, _⟩ := handback_frame hk hct h
      exact Forest.congr e1 e2 hf
    | false =>
      unfold releaseSelf at h
      simp only [hk, hct, Bool.false_eq_true, if_false] at h
      exact release_forest (s := { s with sync := upd s.sync k none }) (Forest.congr (s := s) rfl rfl hf) h

theorem finishClaim_forest {s1 s' : State} {t k : Nat} {blk : Bool} {a : ClaimAnswer} {ans : Answer}
    (hf : Forest s1) (h : finishClaim t k blk (s1, a) = some (s', ans)) : Forest s' := by
  cases a with
  | claimed =>
    simp only [finishClaim, Option.some.injEq, Prod.mk.injEq] at h
    rw [← h.1]; exact hf
  | cycle i =>
    simp only [finishClaim, Option.some.injEq, Prod.mk.injEq] at h
    rw [← h.1]; exact hf
  | running o =>
    cases blk with
    | false =>
      simp only [finishClaim, Bool.false_eq_true, if_false, Option.some.injEq, Prod.mk.injEq] at h
      rw [← h.1]; exact hf
    | true =>
      simp only [finishClaim, if_true] at h
      cases ha : addEdge s1 t k o with
      | none => simp [ha] at h
      | some s2 =>
        simp only [ha, Option.some.injEq, Prod.mk.injEq] at h
        rw [← h.1]
        obtain ⟨e1, e2⟩ := addEdge_sameTD ha
        exact Forest.congr e1 e2 hf

theorem Forest_touch {s : State} (n : Nat) (h : Forest s) : Forest (touch s n) :=
  Forest.congr (s := s) rfl rfl h

theorem stepA_forest {s s' : State} {op : Op} {ans : Answer} (hinv : GInv s []) (hf : Forest s)
    (hcl : clientOk s op = true) (hs : stepA s op = some (s', ans)) : Forest s' := by
  cases op with
  | claim t k re blk =>
    simp only [stepA] at hs
    have f0 := Forest_touch k (Forest_touch t hf)
    generalize touch (touch s t) k = s0 at hs f0
    cases hi : idle s0 t with
    | false => simp [hi] at hs
    | true =>
      simp only [hi, if_true] at hs
      cases hc : tryClaim s0 t k re with
      | none => simp [hc] at hs
      | some p =>
        obtain ⟨s1, a⟩ := p
        simp only [hc] at hs
        have fr := (tryClaim_frame hc).only
        exact finishClaim_forest (Forest.congr fr.transferred fr.tdeps f0) hs
  | peek t k re blk =>
    simp only [stepA] at hs
    have f0 := Forest_touch k (Forest_touch t hf)
    generalize touch (touch s t) k = s0 at hs f0
    cases hi : idle s0 t with
    | false => simp [hi] at hs
    | true =>
      simp only [hi, if_true] at hs
      cases hc : peekClaim s0 t k re with
      | none => simp [hc] at hs
      | some p =>
        obtain ⟨s1, a⟩ := p
        simp only [hc] at hs
        have fr := (peekClaim_frame hc).only
        exact finishClaim_forest (Forest.congr fr.transferred fr.tdeps f0) hs
  | release t k r =>
    simp only [stepA] at hs
    have f0 := Forest_touch k (Forest_touch t hf)
    generalize touch (touch s t) k = s0 at hs f0
    cases hc : (idle s0 t && ownedBy s0 k t) with
    | false => simp [hc] at hs
    | true =>
      simp only [hc, if_true, Option.map_eq_some_iff, Prod.mk.injEq] at hs
      obtain ⟨s2, hr, rfl, _⟩ := hs
      exact releaseEntry_forest f0 hr
  | releaseSelf t k =>
    simp only [stepA] at hs
    have f0 := Forest_touch k (Forest_touch t hf)
    generalize touch (touch s t) k = s0 at hs f0
    cases hc : (idle s0 t && ownedBy s0 k t) with
    | false => simp [hc] at hs
    | true =>
      simp only [hc, if_true, Option.map_eq_some_iff, Prod.mk.injEq] at hs
      obtain ⟨s2, hr, rfl, _⟩ := hs
      exact releaseSelf_forest f0 hr
  | transfer t k n =>
    simp only [stepA] at hs
    simp only [clientOk] at hcl
    have f0 := Forest_touch n (Forest_touch k (Forest_touch t hf))
    have h0 := GInv_touch n (GInv_touch k (GInv_touch t hinv))
    generalize touch (touch (touch s t) k) n = s0 at hs f0 h0 hcl
    cases hc : (idle s0 t && ownedBy s0 k t) with
    | false => simp [hc] at hs
    | true =>
      simp only [hc, if_true, Option.map_eq_some_iff, Prod.mk.injEq] at hs
      obtain ⟨p, hr, rfl, _⟩ := hs
      obtain ⟨s2, a⟩ := p
      unfold transfer at hr
      cases hn : markAsTransferTarget s0 n with
      | none =>
        simp only [hn] at hr
        cases hre : releaseEntry s0 k .panicked with
        | none => simp [hre] at hr
        | some s1 =>
          simp only [hre, Option.some.injEq, Prod.mk.injEq] at hr
          rw [← hr.1]; exact releaseEntry_forest f0 hre
      | some p =>
        obtain ⟨s1, o⟩ := p
        simp only [hn] at hr
        cases hk : setTransferred s1 k with
        | none => simp [hk] at hr
        | some s2' =>
          simp only [hk] at hr
          have o2 : SyncOnly s0 s2' := (markAsTransferTarget_only hn).trans (setTransferred_only hk)
          cases ht : transferLock s2' k t n o with
          | none => simp [ht] at hr
          | some p =>
            obtain ⟨s3, kind, b⟩ := p
            simp only [ht, Option.some.injEq, Prod.mk.injEq] at hr
            rw [← hr.1]
            have hcl2 : transferClientOk s2' k n = true := by
              unfold transferClientOk at hcl ⊢
              rw [o2.transferred, o2.bound]; exact hcl
            exact transferLock_forest (o2.ginv h0) (Forest.congr o2.transferred o2.tdeps f0) hcl2 ht
  | wake t =>
    simp only [stepA] at hs
    have f0 := Forest_touch t hf
    generalize touch s t = s0 at hs f0
    cases hr : s0.results t with
    | none => simp [hr] at hs
    | some r =>
      simp only [hr, Option.some.injEq, Prod.mk.injEq] at hs
      rw [← hs.1]
      exact Forest.congr (s := s0) rfl rfl f0

theorem runC_forest : ∀ (ops : List Op) (s s' : State), GInv s [] → Forest s →
    runC s ops = some s' → GInv s' [] ∧ Forest s' := by
  intro ops
  induction ops with
  | nil =>
    intro s s' h hf hr
    simp only [runC, Option.some.injEq] at hr
    subst hr; exact ⟨h, hf⟩
  | cons op ops ih =>
    intro s s' h hf hr
    unfold runC at hr
    cases hcl : clientOk s op with
    | false => simp [hcl] at hr
    | true =>
      simp only [hcl, if_true] at hr
      cases hs : step s op with
      | none => simp [hs] at hr
      | some s1 =>
        simp only [hs] at hr
        have hs' := hs
        unfold step at hs'
        cases ha : stepA s op with
        | none => simp [ha] at hs'
        | some p =>
          obtain ⟨s1', ans⟩ := p
          simp only [ha, Option.map_some, Option.some.injEq] at hs'
          subst hs'
          exact ih _ s' (step_full h hs).1 (stepA_forest h hf hcl ha) hr

theorem gstep_forest {s s' : State} {op : GOp} (hinv : GInv s []) (hf : Forest s)
    (hcl : gclientOk s op = true) (hs : gstep s op = some s') : Forest s' := by
  cases op with
  | addEdge f k t =>
    simp only [gstep] at hs
    have f0 := Forest_touch t (Forest_touch k (Forest_touch f hf))
    generalize touch (touch (touch s f) k) t = s0 at hs f0
    cases hi : idle s0 f with
    | false => simp [hi] at hs
    | true =>
      simp only [hi, if_true] at hs
      obtain ⟨e1, e2⟩ := addEdge_sameTD hs
      exact Forest.congr e1 e2 f0
  | wake t =>
    simp only [gstep] at hs
    have f0 := Forest_touch t hf
    generalize touch s t = s0 at hs f0
    cases hr : s0.results t with
    | none => simp [hr] at hs
    | some r =>
      simp only [hr, Option.some.injEq] at hs
      subst hs
      exact Forest.congr (s := s0) rfl rfl f0
  | unblockOn k r =>
    simp only [gstep] at hs
    have e := unblockRuntimesBlockedOn_sameTD hs
    exact Forest.congr e.transferred e.tdeps (Forest_touch k hf)
  | unblockTransferred k r =>
    simp only [gstep] at hs
    exact unblockTransferredOwnedBy_forest (Forest_touch k hf) hs
  | undoTransfer k =>
    simp only [gstep] at hs
    exact (undoTransferLock_forest (Forest_touch k hf) hs).1
  | transferLock q c n o =>
    simp only [gstep] at hs
    simp only [gclientOk] at hcl
    have h0 : GInv (touchOwner (touch (touch (touch s q) c) n) o) [] := by
      cases o with
      | thread t => exact GInv_touch t (GInv_touch n (GInv_touch c (GInv_touch q hinv)))
      | transferred => exact GInv_touch n (GInv_touch c (GInv_touch q hinv))
    have f0 : Forest (touchOwner (touch (touch (touch s q) c) n) o) := by
      cases o with
      | thread t => exact Forest_touch t (Forest_touch n (Forest_touch c (Forest_touch q hf)))
      | transferred => exact Forest_touch n (Forest_touch c (Forest_touch q hf))
    generalize touchOwner (touch (touch (touch s q) c) n) o = s0 at hs h0 f0 hcl
    simp only [Option.map_eq_some_iff] at hs
    obtain ⟨p, hp, rfl⟩ := hs
    obtain ⟨s1, kd, nt⟩ := p
    exact transferLockCore_forest h0 f0 hcl hp

theorem grunC_forest : ∀ (ops : List GOp) (s s' : State), GInv s [] → Forest s →
    grunC s ops = some s' → GInv s' [] ∧ Forest s' := by
  intro ops
  induction ops with
  | nil =>
    intro s s' h hf hr
    simp only [grunC, Option.some.injEq] at hr
    subst hr; exact ⟨h, hf⟩
  | cons op ops ih =>
    intro s s' h hf hr
    unfold grunC at hr
    cases hcl : gclientOk s op with
    | false => simp [hcl] at hr
    | true =>
      simp only [hcl, if_true] at hr
      cases hs : gstep s op with
      | none => simp [hs] at hr
      | some s1 =>
        simp only [hs] at hr
        exact ih _ s' (gstep_full h hs) (gstep_forest h hf hcl hs) hr

end SalsaVerif.Proofs.SyncDG
