/-
  C26 with flattening: the flattened list of a serialized memo cuts the evaluation under the
  memo's anchor (`restore_cut`).  Core Lean only.
-/
import SalsaVerif.Proofs.PersistFlat7e

namespace SalsaVerif.Proofs.PersistFlat
open SalsaVerif.Model.Core SalsaVerif.Model.Persist SalsaVerif.Proofs.Core SalsaVerif.Proofs.Persist

theorem cov_of_done {P H s fl} : ∀ k, Done s fl k → CutC P H s k → Cov P H s (fl.map (·.dep)) k := by
  intro k hd
  induction hd with
  | @mk k mk hm hi _ ih =>
    intro hc
    cases hc with
    | mk hm' hcut hsub =>
      rw [hm] at hm'; cases hm'
      refine Cov.mk hm hcut ?_ ?_
      · intro i hin
        obtain ⟨o, ho, hd⟩ := mem_odOf hin
        exact hasDep_iff.mp (hi o ho i hd)
      · intro p hp hnp
        obtain ⟨o, ho, hd⟩ := mem_odOf hp
        have hf : hasDep fl (.qry p) = false := by
          cases hc : hasDep fl (.qry p) with
          | false => rfl
          | true => exact absurd (hasDep_iff.mp hc) hnp
        exact ih o ho p hd hf (hsub p hp)

/-- **Covers for the flattened list.**  `FL` = the dependencies of `flattenObs pers s m.obs`; if no
    leaf input of `FL` and no function of `FL` has a stamp after the anchor of `m`, then `FL` cuts
    the evaluation of `q` under that anchor. -/
theorem restore_cut {pers P H R0 s q m} (hP : Wf P) (hJ : J pers P H R0 s) (hA : AllRec s)
    (hm : s.memos q = some m)
    (fi : ∀ i, Dep.inp i ∈ (flattenObs pers s m.obs).map (·.dep) → Leaf P (H m.va) q i → (s.inp i).ca ≤ m.va)
    (ff : ∀ p mp, Dep.qry p ∈ (flattenObs pers s m.obs).map (·.dep) → s.memos p = some mp → mp.ca ≤ m.va) :
    Cut P (H m.va) ((flattenObs pers s m.obs).map (·.dep)) q := by
  have h0 := hJ.memo q m hm
  obtain ⟨d1, d2, d3⟩ := flatten_done hP hJ hA hm
  -- where the function edges of the flattened list come from
  have horig : ∀ p, Dep.qry p ∈ (flattenObs pers s m.obs).map (·.dep) → Dep.qry p ∈ odOf m ∧ pers p = true := by
    intro p hp
    simp only [List.mem_map] at hp
    obtain ⟨x, hx, hxd⟩ := hp
    exact ⟨flatten_origin pers s m.obs x hx p hxd, flatten_persisted pers s m.obs x hx p hxd⟩
  have hC : FlatCtx pers P H s q m ((flattenObs pers s m.obs).map (·.dep)) := by
    refine ⟨hm, fi, ?_⟩
    intro p hp
    obtain ⟨hp1, hp2⟩ := horig p hp
    obtain ⟨_, mp, hmp, _⟩ := h0.j7 p hp1
    exact ⟨hp2, mp, hmp, ff p mp hp hmp⟩
  -- the memo's own list cuts
  have hcut0 : Cut P (H m.va) (odOf m) q := by
    rcases h0.j7s with hall | hdir
    · apply h0.j6
      right
      refine ⟨?_, ?_⟩
      · intro i hi hl
        obtain ⟨o, ho, hd⟩ := mem_odOf hi
        exact fi i (hasDep_iff.mp (d1 o ho i hd)) hl
      · intro k mk hk hmk
        obtain ⟨o, ho, hd⟩ := mem_odOf hk
        exact ff k mk (hasDep_iff.mp (d2 o ho k hd (hall k hk))) hmk
    · exact cut_direct hdir
  intro k' hk' i hi
  rcases above_split (od := odOf m) hk' with h | ⟨p, hp, hnp, hrp, hab⟩
  · obtain ⟨o, ho, hd⟩ := mem_odOf (hcut0 k' h i hi)
    exact hasDep_iff.mp (d1 o ho i hd)
  · obtain ⟨o, ho, hd⟩ := mem_odOf hp
    have hpers : pers p = false := by
      cases hc : pers p with
      | false => rfl
      | true => exact absurd (hasDep_iff.mp (d2 o ho p hd hc)) hnp
    obtain ⟨_, mp, hmp, hle⟩ := h0.j7 p hp
    have h0p := hJ.memo p mp hmp
    have hcc : CutC P H s p := h0p.j6c (Nat.le_trans (h0p.r0 hpers) h0p.deep_va)
    have hcov := cov_of_done p (d3 o ho p hd hpers) hcc
    have hS0 : SyncH P H m.va q m.va := ⟨m.va, fun h => absurd h (Nat.lt_irrefl _), fun ρ h1 h2 i _ => by
      have : ρ = m.va := Nat.le_antisymm h2 h1
      rw [this]⟩
    have hS := child_sync hP hJ hm hS0 hrp hmp hle
    exact flat_sem hP hJ hC p hcov hrp mp hmp hS k' hab i hi

end SalsaVerif.Proofs.PersistFlat
