/-
  C26 with flattening: **serialize + deserialize preserves the invariant** (`restore_J`), for
  arbitrary `pers` and arbitrary (also non-quiescent) states.  Core Lean only.
-/
import SalsaVerif.Proofs.PersistFlat7f

namespace SalsaVerif.Proofs.PersistFlat
open SalsaVerif.Model.Core SalsaVerif.Model.Persist SalsaVerif.Proofs.Core SalsaVerif.Proofs.Persist

theorem rs_memo_inv {pers s q m'} (h : (restore (snapshot pers s)).memos q = some m') :
    pers q = true ∧ ∃ m, s.memos q = some m ∧ m' = snapshotMemo pers s m := by
  simp only [restore, snapshot] at h
  split at h
  · rename_i hp
    cases hm : s.memos q with
    | none => simp [hm] at h
    | some m =>
      simp only [hm, Option.map, Option.some.injEq] at h
      exact ⟨hp, m, rfl, h.symm⟩
  · cases h

theorem flat_fn_origin {pers s m p} (h : Dep.qry p ∈ odOf (snapshotMemo pers s m)) :
    Dep.qry p ∈ odOf m ∧ pers p = true := by
  simp only [odOf, snapshotMemo, List.mem_map] at h
  obtain ⟨x, hx, hxd⟩ := h
  exact ⟨flatten_origin pers s m.obs x hx p hxd, flatten_persisted pers s m.obs x hx p hxd⟩

/-- the memos below a memo that passes the shallow test cut, recursively, after the round trip -/
theorem restore_cutC {pers P H R0 s} (hP : Wf P) (hJ : J pers P H R0 s) (hA : AllRec s) :
    ∀ k mk, pers k = true → s.memos k = some mk → SOK s mk → CutC P H (restore (snapshot pers s)) k := by
  intro k
  induction k using Nat.strongRecOn with
  | _ k ih =>
    intro mk hp hmk hs
    have h0 := hJ.memo k mk hmk
    have hprem := sok_prem hJ hmk hs
    refine CutC.mk (snapshot_memo_pers hp hmk) ?_ ?_
    · show Cut P (H mk.va) ((flattenObs pers s mk.obs).map (·.dep)) k
      apply restore_cut hP hJ hA hmk
      · intro i _ hl
        rcases hs with hv | hsh
        · rw [hv]; exact hJ.base.inp_le i
        · exact shallow_leaf_ca hJ hmk hsh i hl
      · intro p mp hpin hmp
        exact hprem.2 p mp (flat_fn_origin (m := mk) hpin).1 hmp
    · intro p hpin
      obtain ⟨hp1, hp2⟩ := flat_fn_origin hpin
      obtain ⟨mp, hmp, hsp, _, _⟩ := h0.j8 hs p hp1
      exact ih p (sdeps_lt hP (h0.j7 p hp1).1) mp hp2 hmp hsp

end SalsaVerif.Proofs.PersistFlat
