/-
  Proof of C17 (at most one execution per key per revision) on top of the transfer-free protocol
  invariant `PInvB`: the claim on a key that is being executed stays with the executing thread.
-/
import SalsaVerif.Proofs.SyncDGReach
import SalsaVerif.Model.SyncExec

namespace SalsaVerif.Proofs.SyncExec
open SalsaVerif.Model.SyncDG SalsaVerif.Model.SyncExec SalsaVerif.Proofs.SyncDG

/-- The owner recorded for `k` does not change. -/
def KeepsOwner (s s' : State) (k : Nat) : Prop :=
  ∀ t, ownedBy s k t = true → ownedBy s' k t = true

theorem keepsOwner_of_sync {s s' : State} {k : Nat} (h : s'.sync k = s.sync k) : KeepsOwner s s' k := by
  intro t ht; unfold ownedBy at ht ⊢; rw [h]; exact ht

theorem releaseEntry_sync {s s' : State} {k : Nat} {r : WaitResult} (hinv : GInv s [])
    (h : releaseEntry s k r = some s') : s'.sync = upd s.sync k none := by
  unfold releaseEntry at h
  cases hk : s.sync k with
  | none => simp [hk] at h
  | some st =>
    simp only [hk] at h
    have hg0 : GInv { s with sync := upd s.sync k none } [] := GInv.congr (s := s) rfl rfl rfl hinv
    exact (release_gstep hg0 h).sync

theorem finishClaim_sync {s1 s' : State} {t k : Nat} {blk : Bool} {a : ClaimAnswer} {ans : Answer}
    (hf : finishClaim t k blk (s1, a) = some (s', ans)) : s'.sync = s1.sync := by
  cases a with
  | claimed =>
    simp only [finishClaim, Option.some.injEq, Prod.mk.injEq] at hf
    rw [← hf.1]
  | cycle i =>
    simp only [finishClaim, Option.some.injEq, Prod.mk.injEq] at hf
    rw [← hf.1]
  | running o =>
    cases blk with
    | false =>
      simp only [finishClaim, Bool.false_eq_true, if_false, Option.some.injEq, Prod.mk.injEq] at hf
      rw [← hf.1]
    | true =>
      simp only [finishClaim, if_true] at hf
      cases ha : addEdge s1 t k o with
      | none => simp [ha] at hf
      | some s2 =>
        simp only [ha, Option.some.injEq, Prod.mk.injEq] at hf
        rw [← hf.1]
        obtain ⟨_, _, _, rfl⟩ := addEdge_eq ha
        rfl

/-- A claim keeps every existing owner. -/
theorem claimed_keeps {s0 s1 : State} {t k : Nat} {a : ClaimAnswer}
    (h : (s0.sync k = none ∧ a = .claimed ∧ (s1 = { s0 with sync := upd s0.sync k (some (freshClaim t)) } ∨ s1 = s0)) ∨
      (∃ st id, s0.sync k = some st ∧ st.owner = .thread id ∧ s1 = setWaiting s0 k st ∧
        block s1 t id = some a)) (k' : Nat) : KeepsOwner s0 s1 k' := by
  intro u hu
  rcases h with ⟨hk, _, rfl | rfl⟩ | ⟨st, id, hk, ho, rfl, _⟩
  · by_cases hkk : k' = k
    · subst hkk; simp [ownedBy, hk] at hu
    · unfold ownedBy at hu ⊢; simp only; rw [upd_other _ _ _ _ hkk]; exact hu
  · exact hu
  · by_cases hkk : k' = k
    · subst hkk
      unfold ownedBy at hu ⊢
      simp only [setWaiting, upd_same]
      rw [hk] at hu
      exact hu
    · unfold ownedBy at hu ⊢; simp only [setWaiting]; rw [upd_other _ _ _ _ hkk]; exact hu

/-- Every transfer-free protocol step other than a release of `k` keeps the owner of `k`. -/
theorem step_keepsOwner {s s' : State} {op : Op} (hp : PInvB s) (hs : step s op = some s') (k : Nat)
    (hop : match op with
      | .transfer _ _ _ => False
      | .release _ k' _ => k' ≠ k
      | .releaseSelf _ k' => k' ≠ k
      | _ => True) : KeepsOwner s s' k := by
  unfold step at hs
  cases ha : stepA s op with
  | none => simp [ha] at hs
  | some p =>
    obtain ⟨s1, ans⟩ := p
    simp only [ha, Option.map_some, Option.some.injEq] at hs
    subst hs
    cases op with
    | claim t k' re blk =>
      simp only [stepA] at ha
      have h0 := PInvB_touch k' (PInvB_touch t hp)
      have hpre : ∀ u, ownedBy s k u = ownedBy (touch (touch s t) k') k u := fun _ => rfl
      intro u hu
      rw [hpre] at hu
      generalize touch (touch s t) k' = s0 at ha h0 hu
      cases hi : idle s0 t with
      | false => simp [hi] at ha
      | true =>
        simp only [hi, if_true] at ha
        cases hc : tryClaim s0 t k' re with
        | none => simp [hc] at ha
        | some p =>
          obtain ⟨s2, a⟩ := p
          simp only [hc] at ha
          have := tryClaim_basic h0 hc
          have hk1 : KeepsOwner s0 s2 k := by
            apply claimed_keeps (t := t) (k := k') (a := a)
            rcases this with ⟨h1, h2, h3⟩ | h
            · exact Or.inl ⟨h1, h2, Or.inl h3⟩
            · exact Or.inr h
          have := hk1 u hu
          unfold ownedBy at this ⊢
          rw [finishClaim_sync ha]; exact this
    | peek t k' re blk =>
      simp only [stepA] at ha
      have h0 := PInvB_touch k' (PInvB_touch t hp)
      have hpre : ∀ u, ownedBy s k u = ownedBy (touch (touch s t) k') k u := fun _ => rfl
      intro u hu
      rw [hpre] at hu
      generalize touch (touch s t) k' = s0 at ha h0 hu
      cases hi : idle s0 t with
      | false => simp [hi] at ha
      | true =>
        simp only [hi, if_true] at ha
        cases hc : peekClaim s0 t k' re with
        | none => simp [hc] at ha
        | some p =>
          obtain ⟨s2, a⟩ := p
          simp only [hc] at ha
          have := peekClaim_basic h0 hc
          have hk1 : KeepsOwner s0 s2 k := by
            apply claimed_keeps (t := t) (k := k') (a := a)
            rcases this with ⟨h1, h2, h3⟩ | h
            · exact Or.inl ⟨h1, h2, Or.inr h3⟩
            · exact Or.inr h
          have := hk1 u hu
          unfold ownedBy at this ⊢
          rw [finishClaim_sync ha]; exact this
    | release t k' r =>
      simp only at hop
      simp only [stepA] at ha
      have h0 := PInvB_touch k' (PInvB_touch t hp)
      have hpre : ∀ u, ownedBy s k u = ownedBy (touch (touch s t) k') k u := fun _ => rfl
      intro u hu
      rw [hpre] at hu
      generalize touch (touch s t) k' = s0 at ha h0 hu
      cases hc : (idle s0 t && ownedBy s0 k' t) with
      | false => simp [hc] at ha
      | true =>
        simp only [hc, if_true, Option.map_eq_some_iff, Prod.mk.injEq] at ha
        obtain ⟨s2, hr, rfl, _⟩ := ha
        have := releaseEntry_sync h0.g hr
        unfold ownedBy at hu ⊢
        rw [this, upd_other _ _ _ _ (Ne.symm hop)]; exact hu
    | releaseSelf t k' =>
      simp only at hop
      simp only [stepA] at ha
      have h0 := PInvB_touch k' (PInvB_touch t hp)
      have hpre : ∀ u, ownedBy s k u = ownedBy (touch (touch s t) k') k u := fun _ => rfl
      intro u hu
      rw [hpre] at hu
      generalize touch (touch s t) k' = s0 at ha h0 hu
      cases hc : (idle s0 t && ownedBy s0 k' t) with
      | false => simp [hc] at ha
      | true =>
        simp only [hc, if_true, Option.map_eq_some_iff, Prod.mk.injEq] at ha
        obtain ⟨s2, hr, rfl, _⟩ := ha
        have := releaseEntry_sync h0.g (releaseSelf_basic h0 hr)
        unfold ownedBy at hu ⊢
        rw [this, upd_other _ _ _ _ (Ne.symm hop)]; exact hu
    | transfer t k' n => exact absurd hop (by simp)
    | wake t =>
      simp only [stepA] at ha
      cases hr : (touch s t).results t with
      | none => simp [hr] at ha
      | some r =>
        simp only [hr, Option.some.injEq, Prod.mk.injEq] at ha
        obtain ⟨rfl, _⟩ := ha
        intro u hu; exact hu

/-- The C17 invariant. -/
structure XInv (x : XState) : Prop where
  base : PInvB x.base
  owner : ∀ k t, x.executing k = some t → ownedBy x.base k t = true
  excl : ∀ k, x.memo k = true → x.executing k = none
  count : ∀ k, x.execCount k = if x.memo k = true ∨ (x.executing k).isSome = true then 1 else 0

theorem XInv_init : XInv xinit := by
  refine ⟨PInvB_init, ?_, ?_, ?_⟩ <;> simp [xinit]

theorem ownedBy_unique {s : State} {k t u : Nat} (h1 : ownedBy s k t = true) (h2 : ownedBy s k u = true) :
    t = u := by
  obtain ⟨st, hs, ho⟩ := ownedBy_iff.mp h1
  obtain ⟨st', hs', ho'⟩ := ownedBy_iff.mp h2
  rw [hs] at hs'; cases hs'
  rw [ho] at ho'; cases ho'; rfl

theorem xstep_inv {x x' : XState} {op : XOp} (h : XInv x) (hs : xstep x op = some x') : XInv x' := by
  cases op with
  | proto op =>
    simp only [xstep] at hs
    cases hok : protoOk x op with
    | false => simp [hok] at hs
    | true =>
      simp only [hok, if_true, Option.map_eq_some_iff] at hs
      obtain ⟨b, hb, rfl⟩ := hs
      have hbasic : op.isBasic = true := by
        cases op <;> simp [protoOk] at hok <;> rfl
      refine ⟨step_basic h.base hbasic hb, ?_, h.excl, h.count⟩
      intro k t hk
      simp only at hk ⊢
      apply step_keepsOwner h.base hb k _ t (h.owner k t hk)
      cases op with
      | transfer _ _ _ => simp [protoOk] at hok
      | release t' k' r =>
        simp only [protoOk, Bool.and_eq_true, Option.isNone_iff_eq_none] at hok
        simp only
        rintro rfl
        rw [hok.2] at hk; cases hk
      | releaseSelf t' k' =>
        simp only [protoOk, Option.isNone_iff_eq_none] at hok
        simp only
        rintro rfl
        rw [hok] at hk; cases hk
      | claim _ _ _ _ => trivial
      | peek _ _ _ _ => trivial
      | wake _ => trivial
  | execBegin t k =>
    simp only [xstep] at hs
    split at hs
    · rename_i hc
      simp only [Option.some.injEq] at hs
      subst hs
      simp only [Bool.and_eq_true, Bool.not_eq_true', decide_eq_true_eq] at hc
      obtain ⟨⟨⟨ho, _⟩, hm⟩, hne⟩ := hc
      have hex : x.executing k = none := by
        cases he : x.executing k with
        | none => rfl
        | some u =>
          have := ownedBy_unique (h.owner k u he) ho
          subst this
          exact absurd he hne
      refine ⟨h.base, ?_, ?_, ?_⟩
      · intro k' t' hk'
        simp only at hk' ⊢
        by_cases hkk : k' = k
        · subst hkk
          simp only [upd_same, Option.some.injEq] at hk'
          subst hk'; exact ho
        · rw [upd_other _ _ _ _ hkk] at hk'; exact h.owner k' t' hk'
      · intro k' hm'
        simp only at hm' ⊢
        by_cases hkk : k' = k
        · subst hkk; rw [hm] at hm'; cases hm'
        · rw [upd_other _ _ _ _ hkk]; exact h.excl k' hm'
      · intro k'
        simp only
        by_cases hkk : k' = k
        · subst hkk
          have := h.count k'
          simp [hm, hex] at this
          simp [this]
        · simp only [upd_other _ _ _ _ hkk]; exact h.count k'
    · cases hs
  | publish t k =>
    simp only [xstep] at hs
    split at hs
    · rename_i hc
      simp only [Option.some.injEq] at hs
      subst hs
      simp only [Bool.and_eq_true, decide_eq_true_eq] at hc
      refine ⟨h.base, ?_, ?_, ?_⟩
      · intro k' t' hk'
        simp only at hk' ⊢
        by_cases hkk : k' = k
        · subst hkk; simp at hk'
        · rw [upd_other _ _ _ _ hkk] at hk'; exact h.owner k' t' hk'
      · intro k' hm'
        simp only at hm' ⊢
        by_cases hkk : k' = k
        · subst hkk; simp
        · rw [upd_other _ _ _ _ hkk] at hm' ⊢; exact h.excl k' hm'
      · intro k'
        simp only
        by_cases hkk : k' = k
        · subst hkk
          have := h.count k'
          simp [hc.1] at this
          simp [this]
        · simp only [upd_other _ _ _ _ hkk]; exact h.count k'
    · cases hs

theorem xrun_inv : ∀ (ops : List XOp) (x x' : XState), XInv x → xrun x ops = some x' → XInv x' := by
  intro ops
  induction ops with
  | nil =>
    intro x x' h hr
    simp only [xrun, Option.some.injEq] at hr
    subst hr; exact h
  | cons op ops ih =>
    intro x x' h hr
    unfold xrun at hr
    cases hs : xstep x op with
    | none => simp [hs] at hr
    | some x1 =>
      simp only [hs] at hr
      exact ih x1 x' (xstep_inv h hs) hr

end SalsaVerif.Proofs.SyncExec
