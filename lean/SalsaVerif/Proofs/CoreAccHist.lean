/-
  CoreAcc: `accumulatedBy_sound` (the result of `accumulated_by` is the from-scratch preorder and
  the invariant is kept), the flag clause over reachable keys, `run_inv` for histories with
  `get` / `set` / `synth` / `acc` in any order.  Core Lean only.
-/
import SalsaVerif.Proofs.CoreAccDfs

namespace SalsaVerif.Proofs.CoreAcc
open SalsaVerif.Model.CoreAcc

theorem visRel_nil (P : Nat → Body) (s0 : State) : VisRel P s0 [] [] := by
  intro x; constructor <;> intro h <;> cases h

/-- `accumulated_by` on any state satisfying the invariant: the invariant is kept, revision and
    inputs are untouched, and the result is the reference preorder over the current inputs. -/
theorem accumulatedBy_sound {P} (hP : Wf P) (s : State) (q : Nat) (hI : Inv P s) :
    Inv P (accumulatedBy P s q).1 ∧ (accumulatedBy P s q).2 = refAcc P s.inp q ∧
    (accumulatedBy P s q).1.cur = s.cur ∧ (accumulatedBy P s q).1.inp = s.inp ∧
    (accumulatedBy P s q).1.lch = s.lch := by
  obtain ⟨a1, a2, _, m, a4, a5, _⟩ := (eng_ok hP (q + 1)).1.ok s q (Nat.lt_succ_self q) hI
  have hf : fetch P s q = (eng P (q + 1)).1 s q := rfl
  rw [← hf] at a1 a2 a4
  generalize hs0 : (fetch P s q).1 = s0 at a1 a2 a4
  have hsk : sokDep s0 (.qry q) := ⟨m, a4, Or.inl (by rw [a5, a2.cur])⟩
  obtain ⟨b1, b2, b3⟩ := accVisit_pure hP a1 (q + 1) s0 (.qry q) [] a1 (Ver.refl s0) hsk
  obtain ⟨c1, _⟩ := pVisit_ref (snap_of_inv hP a1) (q + 1) q [] [] hsk (visRel_nil P s0)
  have hacc : accumulatedBy P s q =
      ((accVisit P (q + 1) s0 (.qry q) []).1, (accVisit P (q + 1) s0 (.qry q) []).2.2) := by
    simp only [accumulatedBy, hs0]
  rw [hacc]
  refine ⟨b1, ?_, by rw [b2.cur, a2.cur], by rw [b2.inp, a2.inp], by rw [b2.lch, a2.lch]⟩
  show (accVisit P (q + 1) s0 (.qry q) []).2.2 = refAcc P s.inp q
  rw [b3, c1, a2.inp]
  rfl

/-- a key reachable through the reads of the memos (recorded edges or not) -/
inductive Reach (s : State) : Nat → Nat → Prop
  | step {q k m o} : s.memos q = some m → o ∈ m.obs → o.dep = .qry k → Reach s q k
  | trans {q k j} : Reach s q k → Reach s k j → Reach s q j

/-- … through the recorded edges only (what `accumulated_by` follows) -/
inductive EdgeReach (s : State) : Nat → Nat → Prop
  | step {q k m o} : s.memos q = some m → o ∈ m.obs → o.recd = true → o.dep = .qry k → EdgeReach s q k
  | trans {q k j} : EdgeReach s q k → EdgeReach s k j → EdgeReach s q j

theorem EdgeReach.reach {s q k} (h : EdgeReach s q k) : Reach s q k := by
  induction h with
  | step hm ho _ hd => exact Reach.step hm ho hd
  | trans _ _ ih1 ih2 => exact Reach.trans ih1 ih2

/-- the flag clause, transitively: below a memo that passes the shallow test and whose
    `accumulated_inputs` is `Empty`, every key passes the shallow test, has no accumulated values and
    an `Empty` flag -/
theorem flag_sound {P s} (hI : Inv P s) {q k} (hr : Reach s q k) :
    ∀ m, s.memos q = some m → SOK s m → m.accIn = false →
    ∃ mk, s.memos k = some mk ∧ SOK s mk ∧ mk.acc = [] ∧ mk.accIn = false := by
  induction hr with
  | @step q k m0 o hm ho hd =>
    intro m hm' hs ha
    rw [hm] at hm'; cases hm'
    have ok := hI.memo q m0 hm
    obtain ⟨_, mk, hmk, _⟩ := ok.i5 o k ho hd
    have hsk := (ok.i3 hs o ho).2
    rw [hd] at hsk
    obtain ⟨m2, hm2, hs2⟩ := hsk
    rw [hmk] at hm2; cases hm2
    have := ok.a2 hs ha o ho mk.res (by rw [hd]; simp [depInfo, hmk])
    exact ⟨mk, hmk, hs2, hasAcc_false.mp this.1, this.2⟩
  | trans _ _ ih1 ih2 =>
    intro m hm hs ha
    obtain ⟨mk, hmk, hsk, _, hak⟩ := ih1 m hm hs ha
    exact ih2 mk hmk hsk hak

theorem step_inv {P} (hP : Wf P) (s : State) (op : Op) (hI : Inv P s) : Inv P (step P s op) := by
  cases op with
  | get q => exact (fetch_sound hP s q hI).1
  | set i v nd => obtain ⟨b, hb⟩ := write_bump s i v nd; exact bump_inv hb hI
  | synth d => obtain ⟨b, hb⟩ := synth_bump s d; exact bump_inv hb hI
  | acc q => exact (accumulatedBy_sound hP s q hI).1

theorem foldl_inv {P} (hP : Wf P) : ∀ (ops : List Op) (s : State), Inv P s → Inv P (ops.foldl (step P) s) := by
  intro ops
  induction ops with
  | nil => intro s h; exact h
  | cons op rest ih => intro s h; exact ih _ (step_inv hP s op h)

/-- every reachable state satisfies the invariant -/
theorem run_inv {P} (hP : Wf P) (inp : Nat → Inp) (ops : List Op) : Inv P (run P inp ops) :=
  foldl_inv hP ops _ (init_inv P inp)

/-- C01/C02 (stage S2) for `CoreAcc`: for every well-formed program and EVERY history of
    requests, `accumulated` requests, input writes and synthetic writes of any durability, every
    request returns the from-scratch value over the current inputs. -/
theorem c02_s2 {P} (hP : Wf P) (inp : Nat → Inp) (ops : List Op) (q : Nat) :
    (fetch P (run P inp ops) q).2.val = sem P (run P inp ops).inp q :=
  (fetch_sound hP _ q (run_inv hP inp ops)).2.1

end SalsaVerif.Proofs.CoreAcc
