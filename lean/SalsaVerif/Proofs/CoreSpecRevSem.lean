/-
  CoreSpec, histories with writes: semantic facts about `Wf2` programs and the replay `replayR`
  (Proofs/CoreSpecRevWf.lean).
    * `wf_of_wf2`      : `Wf2 P idOf → Wf P`
    * `sem_unfold2`, `sem_handle2` : the from-scratch result of a node is the evaluation of its body
      against the from-scratch values; a handle `c` in a from-scratch value points to a creator
      `c ≤ q` whose from-scratch run creates a struct with identity `idOf c`
    * `replay_sem`     : a replay against reads that carry the from-scratch values IS the
      from-scratch evaluation
    * `replay_spec_sem`: the same for the body of `spec`
    * `replay_det`, `obs_twin` : two replays against from-scratch values read the same list
    * `preOf_sublist`, `preOf_nonout`
  Core Lean only.
-/
import SalsaVerif.Proofs.CoreSpecRevWf

namespace SalsaVerif.Proofs.CoreSpec
open SalsaVerif.Model.CoreSpec

/-! ### `Wf2` implies `Wf` -/

theorem wfB_of_wf2B {idOf : Nat → Nat} {r : Nat} {ph : Phase} {H : Nat → Prop} {b : Body}
    (h : Wf2B idOf r ph H b) : (∀ c, H c → c < r) → WfB r b := by
  induction h with
  | retPre H v hv => intro hH; exact WfB.ret v (fun c hc => Nat.le_of_lt (hH c (hv c hc)))
  | retPost H v hv =>
    intro hH
    refine WfB.ret v (fun c hc => ?_)
    cases hv c hc with
    | inl h => exact Nat.le_of_lt (hH c h)
    | inr h => exact Nat.le_of_eq h
  | inp ph H i k _ _ ih => intro hH; exact WfB.inp i k (fun n => ih n hH)
  | qry ph H q k _ hq _ ih =>
    intro hH
    refine WfB.qry q k hq (fun v hv => ih v hv ?_)
    intro c hc
    cases hc with
    | inl h => exact hH c h
    | inr h => exact Nat.lt_of_le_of_lt (hv c h) hq
  | field ph H c k _ hc _ ih => intro hH; exact WfB.field c k (hH c hc) (fun n => ih n hH)
  | spec ph H c k _ hc _ ih => intro hH; exact WfB.spec c k (hH c hc) (fun n => ih n hH)
  | ident ph H c k _ hc _ ih => intro hH; exact WfB.ident c k (hH c hc) (fun n => ih n hH)
  | create H idk v k _ _ ih => intro hH; exact WfB.create idk v k (ih hH)
  | create2 H idk v k _ _ ih => intro hH; exact WfB.create idk v k (ih hH)
  | specify H c v k _ ih => intro hH; exact WfB.specify c v k (ih hH)
  | mid H b _ ih => intro hH; exact ih hH

theorem wf_of_wf2 {P : Prog} {idOf : Nat → Nat} (h : Wf2 P idOf) : Wf P where
  node q := wfB_of_wf2B (h.node q) (fun _ hc => hc.elim)
  spec := h.spec

example : Wf2 ⟨fun _ => .create 0 1 (fun h => .specify 0 2 (.ret h)), fun _ _ => .ret ⟨0, none⟩⟩ (fun _ => 0) where
  node q := Wf2B.create _ _ _ _ rfl (Wf2B.specify _ _ _ _ (Wf2B.mid _ _
    (Wf2B.retPost _ _ (fun c hc => Or.inr (by simp at hc; exact hc.symm)))))
  spec _ _ := WfS.ret 0

/-! ### the reference semantics of `Wf2` programs -/

theorem sem_unfold2 {P : Prog} {idOf : Nat → Nat} (hP : Wf2 P idOf) (env : Nat → Inp) (q : Nat) :
    semRes P env q =
      evalX q (semDep P env) (semIdent P env) (specBodyVal P env) (P.node q) none none none :=
  sem_unfold (wf_of_wf2 hP) env q

/-- creator `c` creates, from scratch, a struct with identity `idOf c` -/
def Good (P : Prog) (env : Nat → Inp) (idOf : Nat → Nat) (c : Nat) : Prop :=
  ∃ v, (semRes P env c).ts = some (idOf c, v)

/-- semantic handle discipline: a handle in a from-scratch value points to a smaller-or-equal
    creator whose struct has the identity `idOf` -/
def HD (P : Prog) (env : Nat → Inp) (idOf : Nat → Nat) : Prop :=
  ∀ q c, (sem P env q).h = some c → c ≤ q ∧ Good P env idOf c

theorem specBodyVal_handleS {P : Prog} (hS : ∀ k v, WfS (P.spec k v)) (inp k v) :
    (specBodyVal P inp k v).h = none :=
  evalS_handle _ _ _ (fun _ => rfl) _ (hS k v) _ _ _

theorem specVal_handleS {P : Prog} (hS : ∀ k v, WfS (P.spec k v)) (inp r) : (specVal P inp r).h = none := by
  unfold specVal
  split
  · rfl
  · exact specBodyVal_handleS hS _ _ _
  · rfl

/-- The handle of the value of a `Wf2B` body evaluated against the from-scratch values: a held
    handle, or the own struct — then the struct was created with identity `idOf r`. -/
theorem evalX_handle2 {P : Prog} (hS : ∀ k v, WfS (P.spec k v)) (env : Nat → Inp) (idOf : Nat → Nat) (r : Nat)
    (hlow : ∀ q c, q < r → (sem P env q).h = some c → c ≤ q ∧ Good P env idOf c) :
    ∀ ph H b, Wf2B idOf r ph H b →
      (∀ c, H c → c < r ∧ Good P env idOf c) →
      ∀ ts sp cv, (ph ≠ .pre → ∃ v, ts = some (idOf r, v)) →
      ∀ c, (evalX r (semDep P env) (semIdent P env) (specBodyVal P env) b ts sp cv).val.h = some c →
        (c < r ∧ Good P env idOf c) ∨
        (c = r ∧ ∃ v, (evalX r (semDep P env) (semIdent P env) (specBodyVal P env) b ts sp cv).ts
            = some (idOf r, v)) := by
  intro ph H b hb
  induction hb with
  | retPre H v hv => intro hH ts sp cv _ c hc; exact Or.inl (hH c (hv c hc))
  | retPost H v hv =>
    intro hH ts sp cv hts c hc
    cases hv c hc with
    | inl h => exact Or.inl (hH c h)
    | inr h => exact Or.inr ⟨h, hts (by decide)⟩
  | inp ph H i k _ _ ih =>
    intro hH ts sp cv hts c hc
    simp only [evalX, ownRead_inp] at hc ⊢
    exact ih _ hH ts sp cv hts c hc
  | qry ph H q k _ hq _ ih =>
    intro hH ts sp cv hts c hc
    simp only [evalX, ownRead_qry] at hc ⊢
    refine ih _ (fun c' hc' => (hlow q c' hq hc').1) ?_ ts sp cv hts c hc
    intro c' hc'
    cases hc' with
    | inl h => exact hH c' h
    | inr h => exact ⟨Nat.lt_of_le_of_lt (hlow q c' hq h).1 hq, (hlow q c' hq h).2⟩
  | field ph H c' k _ hc' _ ih =>
    intro hH ts sp cv hts c hc
    have hne : c' ≠ r := Nat.ne_of_lt (hH c' hc').1
    simp only [evalX, ownRead_field _ _ _ _ _ _ _ hne] at hc ⊢
    exact ih _ hH ts sp cv hts c hc
  | spec ph H c' k _ hc' _ ih =>
    intro hH ts sp cv hts c hc
    have hne : c' ≠ r := Nat.ne_of_lt (hH c' hc').1
    simp only [evalX, ownRead_spec _ _ _ _ _ _ _ hne] at hc ⊢
    have hn : (semDep P env (.spec c')).h = none := specVal_handleS hS _ _
    rw [val_eta hn] at hc ⊢
    exact ih _ hH ts sp cv hts c hc
  | ident ph H c' k _ hc' _ ih =>
    intro hH ts sp cv hts c hc
    simp only [evalX] at hc ⊢
    exact ih _ hH ts sp cv hts c hc
  | create H idk v k hid _ ih =>
    intro hH ts sp cv _ c hc
    simp only [evalX] at hc ⊢
    exact ih hH _ sp cv (fun _ => ⟨v, by rw [hid]⟩) c hc
  | create2 H idk v k hid _ ih =>
    intro hH ts sp cv _ c hc
    simp only [evalX] at hc ⊢
    exact ih hH _ sp cv (fun _ => ⟨v, by rw [hid]⟩) c hc
  | specify H c' v k _ ih =>
    intro hH ts sp cv hts c hc
    simp only [evalX] at hc ⊢
    exact ih hH ts _ cv hts c hc
  | mid H b _ ih =>
    intro hH ts sp cv hts c hc
    exact ih hH ts sp cv (fun _ => hts (by decide)) c hc

theorem hd_of_wf2 {P : Prog} {idOf : Nat → Nat} (hP : Wf2 P idOf) (env : Nat → Inp) : HD P env idOf := by
  intro q
  induction q using Nat.strongRecOn with
  | _ q ih =>
    intro c hc
    have hu := sem_unfold2 hP env q
    unfold sem at hc
    rw [hu] at hc
    have := evalX_handle2 hP.spec env idOf q (fun q' c' hq' h => ih q' hq' c' h) .pre _ _ (hP.node q)
      (fun _ h => h.elim) none none none (fun h => absurd rfl h) c hc
    cases this with
    | inl h => exact ⟨Nat.le_of_lt h.1, h.2⟩
    | inr h =>
      obtain ⟨rfl, v, hv⟩ := h
      refine ⟨Nat.le_refl _, v, ?_⟩
      rw [hu]; exact hv

theorem sem_handle2 {P : Prog} {idOf : Nat → Nat} (hP : Wf2 P idOf) (env : Nat → Inp) (q c : Nat)
    (h : (sem P env q).h = some c) : c ≤ q ∧ ∃ v, (semRes P env c).ts = some (idOf c, v) :=
  hd_of_wf2 hP env q c h

/-! ### a replay against from-scratch values is the from-scratch evaluation -/

theorem good_ident {P : Prog} {env : Nat → Inp} {idOf : Nat → Nat} {c : Nat} (h : Good P env idOf c) :
    semIdent P env c = idOf c := by
  obtain ⟨v, hv⟩ := h
  simp only [semIdent, identVal, hv]

/-- `replay_sem` from the semantic handle discipline alone -/
theorem replay_semH {P : Prog} {idOf : Nat → Nat} (hS : ∀ k v, WfS (P.spec k v)) (env : Nat → Inp)
    (hD : HD P env idOf) (r : Nat) :
    ∀ ph H b, Wf2B idOf r ph H b → ∀ obs ts sp R,
      replayR r idOf b obs ts sp = some R →
      (∀ o, o ∈ obs → o.out = false → semDep P env o.dep = o.val) →
      (∀ c, H c → c < r ∧ ∃ v, (semRes P env c).ts = some (idOf c, v)) →
      (ph = .pre → ts = none ∧ sp = none) → (ph ≠ .pre → ts.isSome = true) →
      evalX r (semDep P env) (semIdent P env) (specBodyVal P env) b ts sp none = R := by
  intro ph H b hb
  induction hb with
  | retPre H v hv =>
    intro obs ts sp R h _ _ _ _
    cases obs with
    | nil => simpa [replayR, evalX] using h
    | cons _ _ => simp [replayR] at h
  | retPost H v hv =>
    intro obs ts sp R h _ _ _ _
    cases obs with
    | nil => simpa [replayR, evalX] using h
    | cons _ _ => simp [replayR] at h
  | inp ph H i k _ _ ih =>
    intro obs ts sp R h ho hH h1 h2
    cases obs with
    | nil => simp [replayR] at h
    | cons o rest =>
      simp only [replayR] at h
      split at h
      · rename_i hc
        have hv : semDep P env (.inp i) = o.val := by
          have := ho o (by simp) hc.1; rw [hc.2] at this; exact this
        simp only [evalX, ownRead_inp, hv]
        have hn : o.val = ⟨o.val.n, none⟩ := by rw [← hv]; rfl
        rw [hn] at h ⊢
        exact ih _ rest ts sp R h (fun o' hm => ho o' (by simp [hm])) hH h1 h2
      · simp at h
  | qry ph H q k _ hq _ ih =>
    intro obs ts sp R h ho hH h1 h2
    cases obs with
    | nil => simp [replayR] at h
    | cons o rest =>
      simp only [replayR] at h
      split at h
      · rename_i hc
        have hv : sem P env q = o.val := by
          have := ho o (by simp) hc.1; rw [hc.2] at this; exact this
        simp only [evalX, ownRead_qry]
        have hv' : semDep P env (.qry q) = o.val := hv
        rw [hv']
        refine ih o.val (fun c hc' => (hD q c (by rw [hv]; exact hc')).1) rest ts sp R h
          (fun o' hm => ho o' (by simp [hm])) ?_ h1 h2
        intro c hc'
        cases hc' with
        | inl h => exact hH c h
        | inr h =>
          have := hD q c (by rw [hv]; exact h)
          exact ⟨Nat.lt_of_le_of_lt this.1 hq, this.2⟩
      · simp at h
  | field ph H c k _ hc _ ih =>
    intro obs ts sp R h ho hH h1 h2
    cases obs with
    | nil => simp [replayR] at h
    | cons o rest =>
      simp only [replayR] at h
      split at h
      · rename_i hcnd
        have hne : c ≠ r := Nat.ne_of_lt (hH c hc).1
        have hv : semDep P env (.field c) = o.val := by
          have := ho o (by simp) hcnd.1; rw [hcnd.2] at this; exact this
        simp only [evalX, ownRead_field _ _ _ _ _ _ _ hne, hv]
        have hn : o.val = ⟨o.val.n, none⟩ := by rw [← hv]; rfl
        rw [hn] at h ⊢
        exact ih _ rest ts sp R h (fun o' hm => ho o' (by simp [hm])) hH h1 h2
      · simp at h
  | spec ph H c k _ hc _ ih =>
    intro obs ts sp R h ho hH h1 h2
    cases obs with
    | nil => simp [replayR] at h
    | cons o rest =>
      simp only [replayR] at h
      split at h
      · rename_i hcnd
        have hne : c ≠ r := Nat.ne_of_lt (hH c hc).1
        have hv : semDep P env (.spec c) = o.val := by
          have := ho o (by simp) hcnd.1; rw [hcnd.2] at this; exact this
        simp only [evalX, ownRead_spec _ _ _ _ _ _ _ hne, hv]
        have hn : o.val = ⟨o.val.n, none⟩ := by
          apply val_eta; rw [← hv]; exact specVal_handleS hS _ _
        rw [hn] at h ⊢
        exact ih _ rest ts sp R h (fun o' hm => ho o' (by simp [hm])) hH h1 h2
      · simp at h
  | ident ph H c k _ hc _ ih =>
    intro obs ts sp R h ho hH h1 h2
    have hne : c ≠ r := Nat.ne_of_lt (hH c hc).1
    simp only [replayR] at h
    simp only [evalX, ownIdent_other _ _ _ _ hne, good_ident (hH c hc).2]
    exact ih _ obs ts sp R h ho hH h1 h2
  | create H idk v k hid _ ih =>
    intro obs ts sp R h ho hH h1 _
    obtain ⟨rfl, rfl⟩ := h1 rfl
    simp only [replayR] at h
    simp only [evalX]
    exact ih obs _ _ R h ho hH (fun h => by cases h) (fun _ => rfl)
  | create2 H idk v k hid _ ih =>
    intro obs ts sp R h ho hH _ h2
    have hs := h2 (by decide)
    cases ts with
    | none => simp at hs
    | some t => simp [replayR] at h
  | specify H c v k _ ih =>
    intro obs ts sp R h ho hH h1 h2
    cases obs with
    | nil => simp [replayR] at h
    | cons o rest =>
      simp only [replayR] at h
      split at h
      · rename_i hcnd
        obtain ⟨_, _, hsp, _, _, _⟩ := hcnd
        subst hsp
        simp only [evalX, specNext]
        exact ih rest ts _ R h (fun o' hm => ho o' (by simp [hm])) hH (fun h => by cases h) h2
      · simp at h
  | mid H b _ ih =>
    intro obs ts sp R h ho hH _ h2
    exact ih obs ts sp R h ho hH (fun h => by cases h) (fun _ => h2 (by decide))

theorem replay_sem {P : Prog} {idOf : Nat → Nat} (hP : Wf2 P idOf) (env : Nat → Inp) (r : Nat) :
    ∀ ph H b, Wf2B idOf r ph H b → ∀ obs ts sp R,
      replayR r idOf b obs ts sp = some R →
      (∀ o, o ∈ obs → o.out = false → semDep P env o.dep = o.val) →
      (∀ c, H c → c < r ∧ ∃ v, (semRes P env c).ts = some (idOf c, v)) →
      (ph = .pre → ts = none ∧ sp = none) → (ph ≠ .pre → ts.isSome = true) →
      evalX r (semDep P env) (semIdent P env) (specBodyVal P env) b ts sp none = R :=
  replay_semH hP.spec env (hd_of_wf2 hP env) r

/-- a replay of the whole body of node `q` yields the from-scratch result of `q` -/
theorem replay_node_sem {P : Prog} {idOf : Nat → Nat} (hP : Wf2 P idOf) (env : Nat → Inp) (q : Nat)
    (obs : List Obs) (R : SemRes) (h : replayR q idOf (P.node q) obs none none = some R)
    (ho : ∀ o, o ∈ obs → o.out = false → semDep P env o.dep = o.val) : semRes P env q = R := by
  rw [sem_unfold2 hP env q]
  exact replay_sem hP env q .pre _ _ (hP.node q) obs none none R h ho (fun _ h => h.elim)
    (fun _ => ⟨rfl, rfl⟩) (fun h => absurd rfl h)

/-! ### the body of `spec` -/

theorem replayS_sem (env : Nat → Inp) (P : Prog) (self : Nat) (idOf : Nat → Nat) (sk : Nat → Nat) (sb : Nat → Nat → Val) :
    ∀ b, WfS b → ∀ (obs : List Obs) ts sp R, replayR self idOf b obs ts sp = some R →
      (∀ o, o ∈ obs → o.out = false → semDep P env o.dep = o.val) →
      ∀ cv, evalX self (inpDep env) sk sb b ts sp cv = R := by
  intro b hb
  induction hb with
  | ret n =>
    intro obs ts sp R h _ cv
    cases obs with
    | nil => simpa [replayR, evalX] using h
    | cons _ _ => simp [replayR] at h
  | read i k _ ih =>
    intro obs ts sp R h ho cv
    cases obs with
    | nil => simp [replayR] at h
    | cons o rest =>
      simp only [replayR] at h
      split at h
      · rename_i hc
        have hv : semDep P env (.inp i) = o.val := by
          have := ho o (by simp) hc.1; rw [hc.2] at this; exact this
        have hv' : inpDep env (.inp i) = o.val := hv
        simp only [evalX, ownRead_inp, hv']
        have hn : o.val = ⟨o.val.n, none⟩ := by rw [← hv]; rfl
        rw [hn] at h ⊢
        exact ih _ rest ts sp R h (fun o' hm => ho o' (by simp [hm])) cv
      · simp at h

theorem replay_spec_sem {P : Prog} (hS : ∀ k v, WfS (P.spec k v)) (env : Nat → Inp) (idOf : Nat → Nat)
    (k v : Nat) (obs : List Obs) (x : Val)
    (h : replayR 0 idOf (P.spec k v) obs none none = some ⟨x, none, none⟩)
    (hobs : ∀ o, o ∈ obs → o.out = false → semDep P env o.dep = o.val) : x = specBodyVal P env k v := by
  unfold specBodyVal
  rw [replayS_sem env P 0 idOf _ _ _ (hS k v) obs none none _ h hobs none]

/-- the reads of a `spec` body are plain input reads (the hypothesis on the values is needed: a
    `WfS` continuation is constrained on handle-free values only) -/
theorem replayS_obs (env : Nat → Inp) (P : Prog) (self : Nat) (idOf : Nat → Nat) :
    ∀ b, WfS b → ∀ (obs : List Obs) ts sp R, replayR self idOf b obs ts sp = some R →
      (∀ o, o ∈ obs → o.out = false → semDep P env o.dep = o.val) →
      ∀ o, o ∈ obs → o.out = false ∧ ∃ i, o.dep = .inp i := by
  intro b hb
  induction hb with
  | ret n =>
    intro obs ts sp R h _ o ho
    cases obs with
    | nil => simp at ho
    | cons _ _ => simp [replayR] at h
  | read i k _ ih =>
    intro obs ts sp R h hobs o ho
    cases obs with
    | nil => simp [replayR] at h
    | cons o1 rest =>
      simp only [replayR] at h
      split at h
      · rename_i hc
        cases List.mem_cons.mp ho with
        | inl e => subst e; exact ⟨hc.1, i, hc.2⟩
        | inr hm =>
          have hv : semDep P env (.inp i) = o1.val := by
            have := hobs o1 (by simp) hc.1; rw [hc.2] at this; exact this
          have hn : o1.val = ⟨o1.val.n, none⟩ := by rw [← hv]; rfl
          rw [hn] at h
          exact ih _ rest ts sp R h (fun o' hm' => hobs o' (by simp [hm'])) o hm
      · simp at h

theorem replay_spec_obs {P : Prog} (hS : ∀ k v, WfS (P.spec k v)) (env : Nat → Inp) (idOf : Nat → Nat)
    (k v : Nat) (obs : List Obs) (x : Val)
    (h : replayR 0 idOf (P.spec k v) obs none none = some ⟨x, none, none⟩)
    (hobs : ∀ o, o ∈ obs → o.out = false → semDep P env o.dep = o.val) :
    ∀ o, o ∈ obs → o.out = false ∧ ∃ i, o.dep = .inp i :=
  replayS_obs env P 0 idOf _ (hS k v) obs none none _ h hobs

/-! ### determinism of the replay -/

/-- the part of a read the engine's decisions and the semantics see -/
def obsProj (o : Obs) : Dep × Val × Bool := (o.dep, o.val, o.out)

/-- Two replays of one body against values of one environment `f` consume the same reads (up to
    the `recd` flag), yield the same result and have the same pre-`create` prefix.  No
    well-formedness is needed: the value of an output edge is determined by its `specify`. -/
theorem replay_detF (f : Dep → Val) (r : Nat) (idOf : Nat → Nat) :
    ∀ b l1 l2 ts sp R1 R2,
      replayR r idOf b l1 ts sp = some R1 → replayR r idOf b l2 ts sp = some R2 →
      (∀ o, o ∈ l1 → o.out = false → f o.dep = o.val) →
      (∀ o, o ∈ l2 → o.out = false → f o.dep = o.val) →
      l1.map obsProj = l2.map obsProj ∧ R1 = R2 ∧
      (preOf idOf b l1).map obsProj = (preOf idOf b l2).map obsProj := by
  intro b
  induction b with
  | ret v0 =>
    intro l1 l2 ts sp R1 R2 h1 h2 _ _
    cases l1 with
    | cons _ _ => simp [replayR] at h1
    | nil =>
      cases l2 with
      | cons _ _ => simp [replayR] at h2
      | nil =>
        simp only [replayR, Option.some.injEq] at h1 h2
        exact ⟨rfl, h1.symm.trans h2, rfl⟩
  | read d k ih =>
    intro l1 l2 ts sp R1 R2 h1 h2 c1 c2
    cases l1 with
    | nil => simp [replayR] at h1
    | cons a1 r1 =>
      cases l2 with
      | nil => simp [replayR] at h2
      | cons a2 r2 =>
        simp only [replayR] at h1 h2
        split at h1
        · rename_i e1
          split at h2
          · rename_i e2
            have hx1 : f d = a1.val := by have := c1 a1 (by simp) e1.1; rw [e1.2] at this; exact this
            have hx2 : f d = a2.val := by have := c2 a2 (by simp) e2.1; rw [e2.2] at this; exact this
            have hx : a1.val = a2.val := hx1.symm.trans hx2
            have hp : obsProj a1 = obsProj a2 := by
              simp only [obsProj, e1.1, e1.2, e2.1, e2.2, hx]
            rw [hx] at h1
            obtain ⟨a, b, c⟩ := ih a2.val r1 r2 ts sp R1 R2 h1 h2 (fun o hm => c1 o (by simp [hm]))
              (fun o hm => c2 o (by simp [hm]))
            refine ⟨by simp only [List.map_cons, hp, a], b, ?_⟩
            simp only [preOf, List.map_cons, hp, hx, c]
          · simp at h2
        · simp at h1
  | ident c k ih =>
    intro l1 l2 ts sp R1 R2 h1 h2 c1 c2
    simp only [replayR] at h1 h2
    simp only [preOf]
    exact ih _ l1 l2 ts sp R1 R2 h1 h2 c1 c2
  | create idk v k ih =>
    intro l1 l2 ts sp R1 R2 h1 h2 c1 c2
    cases ts with
    | some t => simp [replayR] at h1
    | none =>
      simp only [replayR] at h1 h2
      obtain ⟨a, b, _⟩ := ih _ l1 l2 _ sp R1 R2 h1 h2 c1 c2
      exact ⟨a, b, by simp only [preOf]⟩
  | specify c v k ih =>
    intro l1 l2 ts sp R1 R2 h1 h2 c1 c2
    cases l1 with
    | nil => simp [replayR] at h1
    | cons a1 r1 =>
      cases l2 with
      | nil => simp [replayR] at h2
      | cons a2 r2 =>
        simp only [replayR] at h1 h2
        split at h1
        · rename_i e1
          split at h2
          · rename_i e2
            obtain ⟨_, _, _, o1, d1, v1⟩ := e1
            obtain ⟨_, _, _, o2, d2, v2⟩ := e2
            have hp : obsProj a1 = obsProj a2 := by simp only [obsProj, o1, d1, v1, o2, d2, v2]
            obtain ⟨a, b, _⟩ := ih r1 r2 ts _ R1 R2 h1 h2 (fun o hm => c1 o (by simp [hm]))
              (fun o hm => c2 o (by simp [hm]))
            exact ⟨by simp only [List.map_cons, hp, a], b, by simp only [preOf]⟩
          · simp at h2
        · simp at h1

/-- `replay_detF` for the from-scratch values (no well-formedness hypothesis) -/
theorem replay_det' (P : Prog) (idOf : Nat → Nat) (env : Nat → Inp) (r : Nat) :
    ∀ b l1 l2 ts sp R1 R2,
      replayR r idOf b l1 ts sp = some R1 → replayR r idOf b l2 ts sp = some R2 →
      (∀ o, o ∈ l1 → o.out = false → semDep P env o.dep = o.val) →
      (∀ o, o ∈ l2 → o.out = false → semDep P env o.dep = o.val) →
      l1.map (fun o => (o.dep, o.val, o.out)) = l2.map (fun o => (o.dep, o.val, o.out)) ∧ R1 = R2 ∧
      (preOf idOf b l1).map (fun o => (o.dep, o.val, o.out))
        = (preOf idOf b l2).map (fun o => (o.dep, o.val, o.out)) :=
  replay_detF (semDep P env) r idOf

/-- the interface form (the `Wf2` / `Wf2B` hypotheses are not used) -/
theorem replay_det {P : Prog} {idOf : Nat → Nat} (_hP : Wf2 P idOf) (env : Nat → Inp) (r : Nat) :
    ∀ ph H b, Wf2B idOf r ph H b → ∀ l1 l2 ts sp R1 R2,
      replayR r idOf b l1 ts sp = some R1 → replayR r idOf b l2 ts sp = some R2 →
      (∀ o, o ∈ l1 → o.out = false → semDep P env o.dep = o.val) →
      (∀ o, o ∈ l2 → o.out = false → semDep P env o.dep = o.val) →
      l1.map (fun o => (o.dep, o.val, o.out)) = l2.map (fun o => (o.dep, o.val, o.out)) ∧ R1 = R2 ∧
      (preOf idOf b l1).map (fun o => (o.dep, o.val, o.out))
        = (preOf idOf b l2).map (fun o => (o.dep, o.val, o.out)) :=
  fun _ _ b _ => replay_det' P idOf env r b

/-- equal projected lists: every read of one list has a twin in the other -/
theorem obs_twin {l1 l2 : List Obs}
    (h : l1.map (fun o => (o.dep, o.val, o.out)) = l2.map (fun o => (o.dep, o.val, o.out)))
    {o : Obs} (ho : o ∈ l1) : ∃ o', o' ∈ l2 ∧ o'.dep = o.dep ∧ o'.val = o.val ∧ o'.out = o.out := by
  have hm : (o.dep, o.val, o.out) ∈ l1.map (fun o => (o.dep, o.val, o.out)) :=
    List.mem_map.mpr ⟨o, ho, rfl⟩
  rw [h] at hm
  obtain ⟨o', ho', e⟩ := List.mem_map.mp hm
  simp only [Prod.mk.injEq] at e
  exact ⟨o', ho', e.1, e.2.1, e.2.2⟩

/-! ### small facts about `preOf` -/

theorem preOf_sublist (idOf : Nat → Nat) : ∀ b (obs : List Obs) o, o ∈ preOf idOf b obs → o ∈ obs := by
  intro b
  induction b with
  | ret v => intro obs o h; simp [preOf] at h
  | read d k ih =>
    intro obs o h
    cases obs with
    | nil => simp [preOf] at h
    | cons a rest =>
      simp only [preOf, List.mem_cons] at h ⊢
      cases h with
      | inl e => exact Or.inl e
      | inr hm => exact Or.inr (ih _ rest o hm)
  | ident c k ih => intro obs o h; simp only [preOf] at h; exact ih _ obs o h
  | create idk v k _ => intro obs o h; simp [preOf] at h
  | specify c v k _ => intro obs o h; simp [preOf] at h

theorem preOf_nonout (self : Nat) (idOf : Nat → Nat) : ∀ b (obs : List Obs) ts sp R,
    replayR self idOf b obs ts sp = some R → ∀ o, o ∈ preOf idOf b obs → o.out = false := by
  intro b
  induction b with
  | ret v => intro obs ts sp R _ o h; simp [preOf] at h
  | read d k ih =>
    intro obs ts sp R hr o h
    cases obs with
    | nil => simp [preOf] at h
    | cons a rest =>
      simp only [replayR] at hr
      split at hr
      · rename_i e
        simp only [preOf, List.mem_cons] at h
        cases h with
        | inl e' => rw [e']; exact e.1
        | inr hm => exact ih _ rest ts sp R hr o hm
      · simp at hr
  | ident c k ih =>
    intro obs ts sp R hr o h
    simp only [replayR] at hr
    simp only [preOf] at h
    exact ih _ obs ts sp R hr o h
  | create idk v k _ => intro obs ts sp R _ o h; simp [preOf] at h
  | specify c v k _ => intro obs ts sp R _ o h; simp [preOf] at h

/-! ### non-vacuity: a creator that reads an input, creates its struct and specifies -/

namespace RevSemEx

def P : Prog where
  node q := .read (.inp 0) fun x => .create 0 x.n fun h => .specify q 2 (.ret h)
  spec k v := .read (.inp 1) fun x => .ret ⟨x.n + k + v, none⟩

def env : Nat → Inp := fun _ => ⟨5, 0, 0⟩

def obs : List Obs := [⟨.inp 0, ⟨5, none⟩, true, false⟩, ⟨.spec 0, ⟨2, none⟩, true, true⟩]
def obs' : List Obs := [⟨.inp 0, ⟨5, none⟩, false, false⟩, ⟨.spec 0, ⟨2, none⟩, false, true⟩]
def obsS : List Obs := [⟨.inp 1, ⟨5, none⟩, true, false⟩]

theorem wf2 : Wf2 P (fun _ => 0) where
  node q := Wf2B.inp _ _ _ _ (by decide) fun n => Wf2B.create _ _ _ _ rfl (Wf2B.specify _ _ _ _
    (Wf2B.mid _ _ (Wf2B.retPost _ _ (fun c hc => Or.inr (by simp at hc; exact hc.symm)))))
  spec k v := WfS.read _ _ (fun n => WfS.ret _)

theorem hrep : replayR 0 (fun _ => 0) (P.node 0) obs none none = some ⟨⟨5, some 0⟩, some (0, 5), some 2⟩ := by
  decide
theorem hrep' : replayR 0 (fun _ => 0) (P.node 0) obs' none none = some ⟨⟨5, some 0⟩, some (0, 5), some 2⟩ := by
  decide

theorem hobs : ∀ o, o ∈ obs → o.out = false → semDep P env o.dep = o.val := by
  intro o ho hout
  simp only [obs, List.mem_cons, List.not_mem_nil, or_false] at ho
  cases ho with
  | inl e => subst e; rfl
  | inr e => subst e; cases hout
theorem hobs' : ∀ o, o ∈ obs' → o.out = false → semDep P env o.dep = o.val := by
  intro o ho hout
  simp only [obs', List.mem_cons, List.not_mem_nil, or_false] at ho
  cases ho with
  | inl e => subst e; rfl
  | inr e => subst e; cases hout

/-- `replay_sem` (through `replay_node_sem`) on a replay that consumes a read and an output edge -/
example : semRes P env 0 = ⟨⟨5, some 0⟩, some (0, 5), some 2⟩ :=
  replay_node_sem wf2 env 0 obs _ hrep hobs

/-- `sem_handle2`: the returned handle points to the creator itself, identity `idOf 0 = 0` -/
example : (0 : Nat) ≤ 0 ∧ ∃ v, (semRes P env 0).ts = some (0, v) :=
  sem_handle2 wf2 env 0 0 (by
    have : semRes P env 0 = ⟨⟨5, some 0⟩, some (0, 5), some 2⟩ := replay_node_sem wf2 env 0 obs _ hrep hobs
    simp only [sem, this])

/-- `replay_det` on two different lists (they differ in the `recd` flags) -/
example : obs.map (fun o => (o.dep, o.val, o.out)) = obs'.map (fun o => (o.dep, o.val, o.out)) :=
  (replay_det wf2 env 0 _ _ _ (wf2.node 0) obs obs' none none _ _ hrep hrep' hobs hobs').1

/-- `replay_spec_sem` / `replay_spec_obs` on the body of `spec` -/
example : (⟨13, none⟩ : Val) = specBodyVal P env 3 5 :=
  replay_spec_sem wf2.spec env (fun _ => 0) 3 5 obsS _ (by decide) (by
    intro o ho _
    simp only [obsS, List.mem_cons, List.not_mem_nil, or_false] at ho
    subst ho; rfl)

/-- `preOf`: the reads before the `create` -/
example : preOf (fun _ => 0) (P.node 0) obs = [⟨.inp 0, ⟨5, none⟩, true, false⟩] := by decide

end RevSemEx

end SalsaVerif.Proofs.CoreSpec
