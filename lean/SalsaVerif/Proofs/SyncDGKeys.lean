/-
  `KInv`: every key with a `transferred` entry is below the ghost bound, in every state reached by
  `run` (so the fuel `bound + 1` suffices for `thread_id_of_transferred_query` in a forest).
-/
import SalsaVerif.Proofs.SyncDGResolve

namespace SalsaVerif.Proofs.SyncDG
open SalsaVerif.Model.SyncDG

/-- The domain of `transferred` grows at most by the keys in `K`. -/
def TSub (s s' : State) (K : List Nat) : Prop :=
  ∀ k, (s'.transferred k).isSome → (s.transferred k).isSome ∨ k ∈ K

theorem TSub.refl (s : State) (K : List Nat) : TSub s s K := fun _ hk => Or.inl hk

theorem TSub.of_eq {s s' : State} {K : List Nat} (h : s'.transferred = s.transferred) : TSub s s' K :=
  fun k hk => Or.inl (by rw [← h]; exact hk)

theorem TSub.trans {a b c : State} {K : List Nat} (h1 : TSub a b K) (h2 : TSub b c K) : TSub a c K := by
  intro k hk
  rcases h2 k hk with h | h
  · exact h1 k h
  · exact Or.inr h

theorem TSub.of_upd_none {s s' : State} {K : List Nat} {k : Nat}
    (h : s'.transferred = upd s.transferred k none) : TSub s s' K := by
  intro x hx
  rw [h] at hx
  by_cases hxk : x = k
  · subst hxk; simp at hx
  · rw [upd_other _ _ _ _ hxk] at hx; exact Or.inl hx

theorem undoTransferLock_tsub {s s' : State} {k : Nat} {K : List Nat}
    (h : undoTransferLock s k = some s') : TSub s s' K := by
  rcases undoTransferLock_eq h with ⟨_, rfl⟩ | ⟨t, o, l, hk, hl, rfl⟩
  · exact TSub.refl _ K
  · exact TSub.of_upd_none rfl

theorem unblockRecursive_tsub {r : WaitResult} {K : List Nat} : ∀ (fuel : Nat) (s s' : State) (q : Nat),
    unblockRecursive r fuel s q = some s' → TSub s s' K := by
  intro fuel
  induction fuel with
  | zero => intro s s' q h; simp [unblockRecursive] at h
  | succ n ih =>
    intro s s' q h
    unfold unblockRecursive at h
    simp only at h
    have h1 : TSub s { s with transferred := upd s.transferred q none, tdeps := upd s.tdeps q none } K :=
      TSub.of_upd_none rfl
    refine forEachDep_ind (P := fun x => TSub s x K) ?_ _ _ _ h1 h
    intro a d b ha hb
    cases h2 : unblockRuntimesBlockedOn a d r with
    | none => simp [h2] at hb
    | some a1 =>
      simp only [h2] at hb
      exact ha.trans ((TSub.of_eq (unblockRuntimesBlockedOn_sameTD h2).transferred).trans (ih a1 b d hb))

theorem unblockTransferredOwnedBy_tsub {s s' : State} {k : Nat} {r : WaitResult} {K : List Nat}
    (h : unblockTransferredOwnedBy s k r = some s') : TSub s s' K := by
  unfold unblockTransferredOwnedBy at h
  cases h1 : undoTransferLock s k with
  | none => simp [h1] at h
  | some s1 =>
    simp only [h1] at h
    exact (undoTransferLock_tsub h1).trans (unblockRecursive_tsub _ _ _ _ h)

theorem release_tsub {s s' : State} {k : Nat} {st : SyncState} {r : WaitResult} {K : List Nat}
    (h : release s k st r = some s') : TSub s s' K := by
  unfold release at h
  cases haw : st.anyoneWaiting with
  | false =>
    simp only [haw, Bool.not_false, if_true, Option.some.injEq] at h
    subst h; exact TSub.refl s K
  | true =>
    simp only [haw, Bool.not_true, Bool.false_eq_true, if_false] at h
    cases hu : (if st.claimedTwice = true then undoTransferLock s k else some s) with
    | none => simp [hu] at h
    | some s1 =>
      simp only [hu] at h
      have f1 : TSub s s1 K := by
        cases hct : st.claimedTwice with
        | false =>
          simp only [hct, Bool.false_eq_true, if_false, Option.some.injEq] at hu
          subst hu; exact TSub.refl s K
        | true =>
          simp only [hct, if_true] at hu
          exact undoTransferLock_tsub hu
      cases h2 : unblockRuntimesBlockedOn s1 k r with
      | none => simp [h2] at h
      | some s2 =>
        simp only [h2] at h
        have f2 : TSub s s2 K := f1.trans (TSub.of_eq (unblockRuntimesBlockedOn_sameTD h2).transferred)
        cases htt : st.isTransferTarget with
        | false =>
          simp only [htt, Bool.false_eq_true, if_false, Option.some.injEq] at h
          subst h; exact f2
        | true =>
          simp only [htt, if_true] at h
          exact f2.trans (unblockTransferredOwnedBy_tsub h)

theorem releaseEntry_tsub {s s' : State} {k : Nat} {r : WaitResult} {K : List Nat}
    (h : releaseEntry s k r = some s') : TSub s s' K := by
  unfold releaseEntry at h
  cases hk : s.sync k with
  | none => simp [hk] at h
  | some st =>
    simp only [hk] at h
    exact (TSub.of_eq (s := s) (s' := { s with sync := upd s.sync k none }) rfl).trans (release_tsub h)

theorem releaseSelf_tsub {s s' : State} {t k : Nat} {K : List Nat}
    (h : releaseSelf s t k = some s') : TSub s s' K := by
  cases hk : s.sync k with
  | none => simp [releaseSelf, hk] at h
  | some st =>
    cases hct : st.claimedTwice with
    | true => exact TSub.of_eq (handback_frame hk hct h).1
    | false =>
      unfold releaseSelf at h
      simp only [hk, hct, Bool.false_eq_true, if_false] at h
      exact (TSub.of_eq (s := s) (s' := { s with sync := upd s.sync k none }) rfl).trans (release_tsub h)

theorem transferEntry_tsub {s s4 : State} {q c n nt : Nat} {ch : Bool}
    (h : transferEntry s q c n nt = some (some (s4, ch))) : TSub s s4 [q] := by
  unfold transferEntry at h
  cases hq : s.transferred q with
  | none =>
    simp only [hq, Option.some.injEq, Prod.mk.injEq] at h
    obtain ⟨rfl, _⟩ := h
    intro x hx
    by_cases hxq : x = q
    · exact Or.inr (by simp [hxq])
    · simp only at hx; rw [upd_other _ _ _ _ hxq] at hx; exact Or.inl hx
  | some p =>
    obtain ⟨ot, oo⟩ := p
    simp only [hq] at h
    by_cases hsame : ot = nt ∧ oo = n
    · simp [hsame] at h
    · simp only [hsame, if_false] at h
      cases h1 : tdepsRemove s oo q with
      | none => simp [h1] at h
      | some s1 =>
        simp only [h1] at h
        obtain ⟨loo, hloo, rfl⟩ := tdepsRemove_eq h1
        cases h3 : repointLoop { ({ s with tdeps := upd s.tdeps oo (some (smallSetRemove loo q)) } : State) with
            transferred := upd s.transferred q (some (nt, n)) } q ot oo n (s.bound + 1) n with
        | none => simp [h3] at h
        | some s3 =>
          simp only [h3, Option.some.injEq, Prod.mk.injEq] at h
          obtain ⟨rfl, _⟩ := h
          have hbase : ∀ x, ((upd s.transferred q (some (nt, n))) x).isSome → (s.transferred x).isSome := by
            intro x hx
            by_cases hxq : x = q
            · subst hxq; simp [hq]
            · rwa [upd_other _ _ _ _ hxq] at hx
          rcases repointLoop_cases _ _ _ h3 with ⟨rfl, _⟩ | ⟨src, th, _, hsrc, s2a, hrem, hcase⟩
          · intro x hx; exact Or.inl (hbase x hx)
          · obtain ⟨lq, _, rfl⟩ := tdepsRemove_eq hrem
            simp only at hsrc
            have hsrc' : (s.transferred src).isSome := hbase src (by simp [hsrc])
            rcases hcase with ⟨_, rfl⟩ | ⟨_, hpush⟩
            · intro x hx
              simp only at hx
              by_cases hxs : x = src
              · subst hxs; simp at hx
              · rw [upd_other _ _ _ _ hxs] at hx; exact Or.inl (hbase x hx)
            · obtain ⟨l', _, _, rfl⟩ := tdepsPush_eq hpush
              intro x hx
              simp only at hx
              by_cases hxs : x = src
              · subst hxs; exact Or.inl hsrc'
              · rw [upd_other _ _ _ _ hxs] at hx; exact Or.inl (hbase x hx)

theorem transferLockCore_tsub {s s' : State} {q c n nt : Nat} {o : SyncOwner} {kind : TransferKind}
    (hinv : GInv s []) (h : transferLockCore s q c n o = some (s', kind, nt)) : TSub s s' [q] := by
  unfold transferLockCore at h
  cases hnt : newOwnerThread s q n o with
  | none => simp [hnt] at h
  | some nt' =>
    simp only [hnt] at h
    cases hpre : transferPre s nt' c with
    | none => simp [hpre] at h
    | some b =>
      cases b with
      | false => simp [hpre] at h
      | true =>
        simp only [hpre] at h
        cases he : transferEntry s q c n nt' with
        | none => simp [he] at h
        | some r =>
          cases r with
          | none =>
            simp only [he] at h
            by_cases hcn : c = nt'
            · simp only [hcn, if_true, Option.some.injEq, Prod.mk.injEq] at h
              rw [← h.1]; exact TSub.refl s _
            · simp only [hcn, if_false] at h
              cases ha : afterTransfer s q nt' with
              | none => simp [ha] at h
              | some s7 =>
                simp only [ha, Option.some.injEq, Prod.mk.injEq] at h
                rw [← h.1]
                exact TSub.of_eq (afterTransfer_sameTD hinv ha).1
          | some p =>
            obtain ⟨s4, ch⟩ := p
            simp only [he] at h
            cases hr : registerDependent s4 q n with
            | none => simp [hr] at h
            | some s5 =>
              simp only [hr] at h
              have t5 : TSub s s5 [q] := by
                obtain ⟨_, _, rfl⟩ := registerDependent_eq hr
                exact (transferEntry_tsub he).trans (TSub.of_eq rfl)
              have g5 := ((transferEntry_sameG he).trans (registerDependent_sameG hr)).gstep hinv
              cases ch with
              | false =>
                simp only [Bool.false_eq_true, if_false, Option.some.injEq, Prod.mk.injEq] at h
                rw [← h.1]; exact t5
              | true =>
                simp only [if_true] at h
                cases ha : afterTransfer s5 q nt' with
                | none => simp [ha] at h
                | some s7 =>
                  simp only [ha, Option.some.injEq, Prod.mk.injEq] at h
                  rw [← h.1]
                  exact t5.trans (TSub.of_eq (afterTransfer_sameTD g5.inv ha).1)

theorem transferLock_tsub {s s' : State} {q c n : Nat} {o : SyncOwner} {kind : TransferKind} {b : Bool}
    (hinv : GInv s []) (h : transferLock s q c n o = some (s', kind, b)) : TSub s s' [q] := by
  unfold transferLock at h
  cases hc : transferLockCore s q c n o with
  | none => simp [hc] at h
  | some p =>
    obtain ⟨s1, kd, nt⟩ := p
    have f1 := transferLockCore_tsub hinv hc
    cases kd with
    | noop =>
      simp only [hc, Option.some.injEq, Prod.mk.injEq] at h
      rw [← h.1]; exact f1
    | same =>
      simp only [hc, Option.some.injEq, Prod.mk.injEq] at h
      rw [← h.1]; exact f1
    | changed =>
      simp only [hc] at h
      by_cases hcn : c = nt
      · simp only [hcn, if_true, Option.some.injEq, Prod.mk.injEq] at h
        rw [← h.1]; exact f1
      · simp only [hcn, if_false] at h
        cases hd : dependsOn s1 nt c with
        | none => simp [hd] at h
        | some bb =>
          cases bb with
          | true =>
            simp only [hd, Option.some.injEq, Prod.mk.injEq] at h
            rw [← h.1]; exact f1
          | false =>
            simp only [hd] at h
            cases ha : addEdge s1 c n nt with
            | none => simp [ha] at h
            | some s2 =>
              simp only [ha, Option.some.injEq, Prod.mk.injEq] at h
              rw [← h.1]
              exact f1.trans (TSub.of_eq (addEdge_sameTD ha).1)

theorem transfer_tsub {s s' : State} {t k n : Nat} {a : TransferAnswer} (hinv : GInv s [])
    (h : transfer s t k n = some (s', a)) : TSub s s' [k] := by
  unfold transfer at h
  cases hn : markAsTransferTarget s n with
  | none =>
    simp only [hn] at h
    cases hr : releaseEntry s k .panicked with
    | none => simp [hr] at h
    | some s1 =>
      simp only [hr, Option.some.injEq, Prod.mk.injEq] at h
      rw [← h.1]; exact releaseEntry_tsub hr
  | some p =>
    obtain ⟨s1, o⟩ := p
    simp only [hn] at h
    cases hk : setTransferred s1 k with
    | none => simp [hk] at h
    | some s2 =>
      simp only [hk] at h
      have o2 : SyncOnly s s2 := (markAsTransferTarget_only hn).trans (setTransferred_only hk)
      cases ht : transferLock s2 k t n o with
      | none => simp [ht] at h
      | some p =>
        obtain ⟨s3, kind, b⟩ := p
        simp only [ht, Option.some.injEq, Prod.mk.injEq] at h
        rw [← h.1]
        exact (TSub.of_eq o2.transferred).trans (transferLock_tsub (o2.ginv hinv) ht)

theorem finishClaim_tsub {s1 s' : State} {t k : Nat} {blk : Bool} {a : ClaimAnswer} {ans : Answer}
    {K : List Nat} (h : finishClaim t k blk (s1, a) = some (s', ans)) : TSub s1 s' K := by
  cases a with
  | claimed =>
    simp only [finishClaim, Option.some.injEq, Prod.mk.injEq] at h
    rw [← h.1]; exact TSub.refl _ _
  | cycle i =>
    simp only [finishClaim, Option.some.injEq, Prod.mk.injEq] at h
    rw [← h.1]; exact TSub.refl _ _
  | running o =>
    cases blk with
    | false =>
      simp only [finishClaim, Bool.false_eq_true, if_false, Option.some.injEq, Prod.mk.injEq] at h
      rw [← h.1]; exact TSub.refl _ _
    | true =>
      simp only [finishClaim, if_true] at h
      cases ha : addEdge s1 t k o with
      | none => simp [ha] at h
      | some s2 =>
        simp only [ha, Option.some.injEq, Prod.mk.injEq] at h
        rw [← h.1]
        exact TSub.of_eq (addEdge_sameTD ha).1

theorem KInv_of {s0 s' : State} {K : List Nat} (hk : KInv s0) (ht : TSub s0 s' K)
    (hb : s'.bound = s0.bound) (hK : ∀ k, k ∈ K → k < s0.bound) : KInv s' := by
  intro k hks
  rw [hb]
  rcases ht k hks with h | h
  · exact hk k h
  · exact hK k h

theorem KInv_touch {s : State} (n : Nat) (h : KInv s) : KInv (touch s n) := by
  intro k hk
  have := h k hk
  simp only [touch]; omega

theorem stepA_kinv {s s' : State} {op : Op} {ans : Answer} (hinv : GInv s []) (hk : KInv s)
    (hs : stepA s op = some (s', ans)) : KInv s' := by
  cases op with
  | claim t k re blk =>
    simp only [stepA] at hs
    have k0 := KInv_touch k (KInv_touch t hk)
    generalize touch (touch s t) k = s0 at hs k0
    cases hi : idle s0 t with
    | false => simp [hi] at hs
    | true =>
      simp only [hi, if_true] at hs
      cases hc : tryClaim s0 t k re with
      | none => simp [hc] at hs
      | some p =>
        obtain ⟨s1, a⟩ := p
        simp only [hc] at hs
        have fr := (tryClaim_frame hc).only
        exact KInv_of (K := []) k0 ((TSub.of_eq fr.transferred).trans (finishClaim_tsub hs))
          ((finishClaim_bound hs).trans fr.bound) (by simp)
  | peek t k re blk =>
    simp only [stepA] at hs
    have k0 := KInv_touch k (KInv_touch t hk)
    generalize touch (touch s t) k = s0 at hs k0
    cases hi : idle s0 t with
    | false => simp [hi] at hs
    | true =>
      simp only [hi, if_true] at hs
      cases hc : peekClaim s0 t k re with
      | none => simp [hc] at hs
      | some p =>
        obtain ⟨s1, a⟩ := p
        simp only [hc] at hs
        have fr := (peekClaim_frame hc).only
        exact KInv_of (K := []) k0 ((TSub.of_eq fr.transferred).trans (finishClaim_tsub hs))
          ((finishClaim_bound hs).trans fr.bound) (by simp)
  | release t k r =>
    simp only [stepA] at hs
    have k0 := KInv_touch k (KInv_touch t hk)
    have h0 := GInv_touch k (GInv_touch t hinv)
    generalize touch (touch s t) k = s0 at hs k0 h0
    cases hc : (idle s0 t && ownedBy s0 k t) with
    | false => simp [hc] at hs
    | true =>
      simp only [hc, if_true, Option.map_eq_some_iff, Prod.mk.injEq] at hs
      obtain ⟨s2, hr, rfl, _⟩ := hs
      exact KInv_of (K := []) k0 (releaseEntry_tsub hr) (releaseEntry_bound h0 hr) (by simp)
  | releaseSelf t k =>
    simp only [stepA] at hs
    have k0 := KInv_touch k (KInv_touch t hk)
    have h0 := GInv_touch k (GInv_touch t hinv)
    generalize touch (touch s t) k = s0 at hs k0 h0
    cases hc : (idle s0 t && ownedBy s0 k t) with
    | false => simp [hc] at hs
    | true =>
      simp only [hc, if_true, Option.map_eq_some_iff, Prod.mk.injEq] at hs
      obtain ⟨s2, hr, rfl, _⟩ := hs
      exact KInv_of (K := []) k0 (releaseSelf_tsub hr) (releaseSelf_bound h0 hr) (by simp)
  | transfer t k n =>
    simp only [stepA] at hs
    have k0 := KInv_touch n (KInv_touch k (KInv_touch t hk))
    have h0 := GInv_touch n (GInv_touch k (GInv_touch t hinv))
    have hkb : k < (touch (touch (touch s t) k) n).bound := by simp only [touch]; omega
    generalize touch (touch (touch s t) k) n = s0 at hs k0 h0 hkb
    cases hc : (idle s0 t && ownedBy s0 k t) with
    | false => simp [hc] at hs
    | true =>
      simp only [hc, if_true, Option.map_eq_some_iff, Prod.mk.injEq] at hs
      obtain ⟨p, hr, rfl, _⟩ := hs
      obtain ⟨s2, a⟩ := p
      refine KInv_of k0 (transfer_tsub h0 hr) (transfer_bound h0 hr) ?_
      intro x hx
      simp only [List.mem_singleton] at hx
      subst hx; exact hkb
  | wake t =>
    simp only [stepA] at hs
    have k0 := KInv_touch t hk
    generalize touch s t = s0 at hs k0
    cases hr : s0.results t with
    | none => simp [hr] at hs
    | some r =>
      simp only [hr, Option.some.injEq, Prod.mk.injEq] at hs
      obtain ⟨rfl, _⟩ := hs
      exact k0

theorem KInv_init : KInv init := by
  intro k hk; simp [init] at hk

theorem run_kinv : ∀ (ops : List Op) (s s' : State), GInv s [] → KInv s → run s ops = some s' →
    KInv s' := by
  intro ops
  induction ops with
  | nil =>
    intro s s' _ hk hr
    simp only [run, Option.some.injEq] at hr
    subst hr; exact hk
  | cons op ops ih =>
    intro s s' h hk hr
    unfold run at hr
    cases hs : step s op with
    | none => simp [hs] at hr
    | some s1 =>
      simp only [hs] at hr
      have hs' := hs
      unfold step at hs'
      cases ha : stepA s op with
      | none => simp [ha] at hs'
      | some p =>
        obtain ⟨s1', ans⟩ := p
        simp only [ha, Option.map_some, Option.some.injEq] at hs'
        subst hs'
        exact ih _ s' (stepA_full h ha).1 (stepA_kinv h hk ha) hr

end SalsaVerif.Proofs.SyncDG
