/-
  Helper lemmas for Props/C09: the state of the interner against the event log of its history
  (revision queue, durability, last_interned_at).  Core Lean only.
-/
import SalsaVerif.Model.Intern
import SalsaVerif.Proofs.InternQueue
import SalsaVerif.Proofs.InternHist

namespace SalsaVerif.Proofs.Intern
open SalsaVerif.Model.Intern SalsaVerif.Proofs.InternQueue

/-- The revisions in which the ingredient was used (an `intern` or a dependency validation),
    in chronological order, with repetitions. -/
def recorded (log : List Ev) : List Nat :=
  log.filterMap (fun e => match e.op with
    | .intern _ _ _ => some e.cur
    | .mca _ _ => some e.cur
    | _ => none)

/-- Does the op call `revision_queue.record`? -/
def records : Op → Bool
  | .intern _ _ _ => true
  | .mca _ _ => true
  | _ => false

theorem step_queue {s s' : Sys} {op : Op} {r : Ret} (h : stepSys s op = some (s', r)) :
    s'.it.revisions = s.it.revisions ∧
    (if records op then recordIfMortal s.it.revisions s.it.queue s.cur = some s'.it.queue
     else s'.it.queue = s.it.queue) ∧
    s'.cur = (if op = .newRev then s.cur + 1 else s.cur) := by
  cases op with
  | newRev =>
    simp only [stepSys, Option.some.injEq, Prod.mk.injEq] at h
    obtain ⟨rfl, _⟩ := h
    simp [records]
  | intern d inq x =>
    simp only [stepSys, Interner.intern] at h
    cases hq : recordIfMortal s.it.revisions s.it.queue s.cur with
    | none => rw [hq] at h; cases h
    | some q' =>
      rw [hq] at h
      simp only at h
      cases hsh : internShard s.it.revisions q' s.cur d inq x s.it.nextId s.it.shard with
      | none => rw [hsh] at h; cases h
      | some p =>
        rw [hsh] at h
        simp only [Option.some.injEq, Prod.mk.injEq] at h
        obtain ⟨rfl, _⟩ := h
        simp [records]
  | mca id g =>
    simp only [stepSys, Interner.maybeChangedAfter] at h
    cases hq : recordIfMortal s.it.revisions s.it.queue s.cur with
    | none => rw [hq] at h; cases h
    | some q' =>
      rw [hq] at h
      simp only at h
      cases hv : s.it.shard.slot? id with
      | none => rw [hv] at h; cases h
      | some v =>
        rw [hv] at h
        simp only at h
        by_cases hg : v.generation > g
        · rw [if_pos hg] at h
          simp only [Option.some.injEq, Prod.mk.injEq] at h
          obtain ⟨rfl, _⟩ := h
          simp [records]
        · rw [if_neg hg] at h
          simp only [Option.some.injEq, Prod.mk.injEq] at h
          obtain ⟨rfl, _⟩ := h
          simp [records]
  | addMemo id =>
    simp only [stepSys, Interner.addMemo] at h
    cases hv : s.it.shard.slot? id with
    | none => rw [hv] at h; cases h
    | some v =>
      rw [hv] at h
      simp only [Option.some.injEq, Prod.mk.injEq] at h
      obtain ⟨rfl, _⟩ := h
      simp [records]

theorem recorded_cons (e : Ev) (log : List Ev) :
    recorded (e :: log) = if records e.op then e.cur :: recorded log else recorded log := by
  unfold recorded
  rw [List.filterMap_cons]
  cases h : e.op <;> simp [records]

/-- Induction principle for successful runs. -/
theorem run_cons {s s' : Sys} {op : Op} {ops : List Op} {log : List Ev}
    (h : runSys s (op :: ops) = some (s', log)) :
    ∃ s1 r log1, stepSys s op = some (s1, r) ∧ runSys s1 ops = some (s', log1) ∧
      log = ⟨s.cur, op, r⟩ :: log1 := by
  simp only [runSys] at h
  cases hs : stepSys s op with
  | none => rw [hs] at h; cases h
  | some p =>
    rw [hs] at h
    simp only at h
    cases hr : runSys p.1 ops with
    | none => rw [hr] at h; cases h
    | some p' =>
      rw [hr] at h
      simp only [Option.some.injEq, Prod.mk.injEq] at h
      obtain ⟨rfl, rfl⟩ := h
      exact ⟨p.1, p.2, p'.2, rfl, hr, rfl⟩

theorem run_queue {s s' : Sys} {ops : List Op} {log : List Ev}
    (hm : s.it.revisions.isSome = true) (h : runSys s ops = some (s', log)) :
    s'.it.revisions = s.it.revisions ∧ recordAll s.it.queue (recorded log) = some s'.it.queue := by
  induction ops generalizing s log with
  | nil =>
    simp only [runSys, Option.some.injEq, Prod.mk.injEq] at h
    obtain ⟨rfl, rfl⟩ := h
    exact ⟨rfl, rfl⟩
  | cons op ops ih =>
    obtain ⟨s1, r, log1, hs, hr, rfl⟩ := run_cons h
    obtain ⟨hrev, hq, _⟩ := step_queue hs
    obtain ⟨hrev', hq'⟩ := ih (hrev ▸ hm) hr
    refine ⟨hrev'.trans hrev, ?_⟩
    rw [recorded_cons]
    simp only
    cases hrec : records op
    · rw [hrec] at hq
      simp only [Bool.false_eq_true, if_false] at hq ⊢
      rw [← hq]; exact hq'
    · rw [hrec] at hq
      simp only [if_true] at hq ⊢
      unfold recordIfMortal at hq
      rw [if_pos hm] at hq
      unfold recordAll
      rw [hq]
      exact hq'

/-- Revisions only grow along a history. -/
theorem run_cur {s s' : Sys} {ops : List Op} {log : List Ev}
    (h : runSys s ops = some (s', log)) :
    s.cur ≤ s'.cur ∧ (∀ e ∈ log, s.cur ≤ e.cur ∧ e.cur ≤ s'.cur) ∧
    (log.map (·.cur)).Pairwise (· ≤ ·) := by
  induction ops generalizing s log with
  | nil =>
    simp only [runSys, Option.some.injEq, Prod.mk.injEq] at h
    obtain ⟨rfl, rfl⟩ := h
    exact ⟨Nat.le_refl _, by simp, by simp⟩
  | cons op ops ih =>
    obtain ⟨s1, r, log1, hs, hr, rfl⟩ := run_cons h
    obtain ⟨_, _, hc⟩ := step_queue hs
    obtain ⟨h1, h2, h3⟩ := ih hr
    have hle : s.cur ≤ s1.cur := by rw [hc]; split <;> omega
    refine ⟨by omega, ?_, ?_⟩
    · intro e he
      rcases List.mem_cons.mp he with e1 | e1
      · subst e1; exact ⟨Nat.le_refl _, by simp only; omega⟩
      · have := h2 e e1; omega
    · rw [List.map_cons, List.pairwise_cons]
      refine ⟨?_, h3⟩
      intro c hc'
      obtain ⟨e, he, rfl⟩ := List.mem_map.mp hc'
      have := h2 e he
      simp only; omega

theorem recorded_sorted {s s' : Sys} {ops : List Op} {log : List Ev}
    (h : runSys s ops = some (s', log)) : (recorded log).Pairwise (· ≤ ·) := by
  have h3 := (run_cur h).2.2
  have : (recorded log).Sublist (log.map (·.cur)) := by
    clear h h3
    induction log with
    | nil => simp [recorded]
    | cons e l ih =>
      rw [recorded_cons, List.map_cons]
      split
      · exact List.Sublist.cons_cons _ ih
      · exact List.Sublist.cons _ ih
  exact List.Pairwise.sublist this h3


/-! ### durability = max over the intern calls since (re)creation -/

/-- One event's effect on "the durabilities of the `intern` calls that returned id `i` since its
    last (re)creation".  A call outside a query counts as NEVER_CHANGE when it creates the value
    and not at all when it merely finds it (`active_query()` is `None`: durability untouched). -/
def durStep (i : Nat) (acc : List Nat) (e : Ev) : List Nat :=
  match e.op, e.ret with
  | .intern d inq _, .interned o =>
    if o.id = i then
      (match o.kind with
       | .hit => if inq then acc ++ [d] else acc
       | _ => [newDurability d inq])
    else acc
  | _, _ => acc

def callDurs (i : Nat) (log : List Ev) : List Nat := log.foldl (durStep i) []

def maxL (l : List Nat) : Nat := l.foldl max 0

theorem maxL_snoc (l : List Nat) (d : Nat) : maxL (l ++ [d]) = max (maxL l) d := by
  simp [maxL, List.foldl_append]

theorem le_maxL (l : List Nat) : ∀ d ∈ l, d ≤ maxL l := by
  induction l using SalsaVerif.Proofs.InternQueue.recOnSnoc with
  | nil => simp
  | snoc l a ih =>
    intro d hd
    rw [maxL_snoc]
    rcases List.mem_append.mp hd with h | h
    · have := ih d h; omega
    · simp at h; omega

theorem dur_step {s s1 : Sys} {op : Op} {r : Ret} {i : Nat} {acc : List Nat} (inv : Inv s)
    (hacc : ∀ v, s.it.shard.slot? i = some v → v.durability = maxL acc ∧ acc ≠ [])
    (h : stepSys s op = some (s1, r)) :
    ∀ v, s1.it.shard.slot? i = some v →
      v.durability = maxL (durStep i acc ⟨s.cur, op, r⟩) ∧ durStep i acc ⟨s.cur, op, r⟩ ≠ [] := by
  intro v1 hv1
  cases op with
  | newRev =>
    simp only [stepSys, Option.some.injEq, Prod.mk.injEq] at h
    obtain ⟨rfl, rfl⟩ := h
    exact hacc v1 hv1
  | intern d inq x =>
    obtain ⟨q', sh', o, rfl, _, rfl, hs, _⟩ := stepSys_intern inv h
    have hv1' : sh'.slot? i = some v1 := hv1
    simp only [durStep]
    by_cases hio : o.id = i
    · rw [if_pos hio]
      subst hio
      rcases hs.cases with ⟨hk, w, hw, _, _, hw'⟩ | ⟨hk, hid, _, _, hw'⟩ | ⟨hk, w, _, _, _, _, _, _, _, hw'⟩
      · rw [hk]
        simp only
        rw [hv1'] at hw'
        injection hw' with hw'
        subst hw'
        obtain ⟨h1, h2⟩ := hacc w hw
        simp only
        cases inq
        · simpa using ⟨h1, h2⟩
        · simp only [if_true]
          rw [maxL_snoc, h1]
          exact ⟨rfl, by simp⟩
      · rw [hk]
        simp only
        rw [← hid, hv1'] at hw'
        injection hw' with hw'
        subst hw'
        simp [maxL]
      · rw [hk]
        simp only
        rw [hv1'] at hw'
        injection hw' with hw'
        subst hw'
        simp [maxL]
    · rw [if_neg hio]
      have : sh'.slot? i = s.it.shard.slot? i := hs.frame i (fun e => hio e.symm)
      rw [this] at hv1'
      exact hacc v1 hv1'
  | mca id g =>
    simp only [stepSys] at h
    cases hi : s.it.maybeChangedAfter id g s.cur with
    | none => rw [hi] at h; cases h
    | some p =>
      rw [hi] at h
      simp only [Option.some.injEq, Prod.mk.injEq] at h
      obtain ⟨rfl, rfl⟩ := h
      obtain ⟨q', w, _, hw, _, hit, _, _⟩ := mca_step inv id g p.1 p.2 hi
      have hid := slot?_id hw
      subst hid
      simp only [durStep]
      by_cases hg : w.generation > g
      · rw [if_pos hg] at hit
        rw [hit] at hv1
        exact hacc v1 hv1
      · rw [if_neg hg] at hit
        rw [hit] at hv1
        have hv1' : (s.it.shard.setSlot { w with lastInternedAt := s.cur }).slot? i = some v1 := hv1
        rw [slot?_touch w { w with lastInternedAt := s.cur } hw rfl] at hv1'
        by_cases hiw : i = w.id
        · subst hiw
          rw [if_pos rfl] at hv1'
          injection hv1' with hv1'
          subst hv1'
          exact hacc w hw
        · rw [if_neg hiw] at hv1'
          exact hacc v1 hv1'
  | addMemo id =>
    simp only [stepSys, Interner.addMemo] at h
    cases hw : s.it.shard.slot? id with
    | none => rw [hw] at h; cases h
    | some w =>
      rw [hw] at h
      simp only [Option.some.injEq, Prod.mk.injEq] at h
      obtain ⟨rfl, rfl⟩ := h
      have hid := slot?_id hw
      subst hid
      simp only [durStep]
      have hv1' : (s.it.shard.setSlot { w with memos := w.generation :: w.memos }).slot? i
          = some v1 := hv1
      rw [slot?_touch w { w with memos := w.generation :: w.memos } hw rfl] at hv1'
      by_cases hiw : i = w.id
      · subst hiw
        rw [if_pos rfl] at hv1'
        injection hv1' with hv1'
        subst hv1'
        exact hacc w hw
      · rw [if_neg hiw] at hv1'
        exact hacc v1 hv1'

theorem dur_run {s s' : Sys} {ops : List Op} {log : List Ev} {i : Nat} {acc : List Nat}
    (inv : Inv s)
    (hacc : ∀ v, s.it.shard.slot? i = some v → v.durability = maxL acc ∧ acc ≠ [])
    (h : runSys s ops = some (s', log)) :
    ∀ v, s'.it.shard.slot? i = some v →
      v.durability = maxL (log.foldl (durStep i) acc) ∧ log.foldl (durStep i) acc ≠ [] := by
  induction ops generalizing s log acc with
  | nil =>
    simp only [runSys, Option.some.injEq, Prod.mk.injEq] at h
    obtain ⟨rfl, rfl⟩ := h
    exact hacc
  | cons op ops ih =>
    obtain ⟨s1, r, log1, hs, hr, rfl⟩ := run_cons h
    rw [List.foldl_cons]
    exact ih (inv_step inv hs) (dur_step inv hacc hs) hr

/-! ### last_interned_at = the last touch -/

/-- The revisions in which id `i` was returned by `intern` or validated by a dependent
    (`maybe_changed_after` answering unchanged) since its last (re)creation. -/
def touchStep (i : Nat) (acc : List Nat) (e : Ev) : List Nat :=
  match e.op, e.ret with
  | .intern _ _ _, .interned o =>
    if o.id = i then
      (match o.kind with
       | .hit => acc ++ [e.cur]
       | _ => [e.cur])
    else acc
  | .mca j _, .verified false => if j = i then acc ++ [e.cur] else acc
  | _, _ => acc

def touchRevs (i : Nat) (log : List Ev) : List Nat := log.foldl (touchStep i) []

/-- `i` was (re)created by an `intern` outside any query (`last_interned_at = Revision::max()`)
    and no dependent has validated it since. -/
def pinStep (i : Nat) (acc : Bool) (e : Ev) : Bool :=
  match e.op, e.ret with
  | .intern _ inq _, .interned o =>
    if o.id = i then
      (match o.kind with
       | .hit => acc
       | _ => !inq)
    else acc
  | .mca j _, .verified false => if j = i then false else acc
  | _, _ => acc

def pinnedMax (i : Nat) (log : List Ev) : Bool := log.foldl (pinStep i) false

/-- the invariant linking a slot's `last_interned_at` to the two accumulators. -/
def LastOk (cur : Nat) (v : Slot) (accT : List Nat) (accP : Bool) : Prop :=
  (accP = true → v.lastInternedAt = REV_MAX) ∧
  (accP = false → accT.getLast? = some v.lastInternedAt ∧ v.lastInternedAt ≤ cur)

theorem last_step {s s1 : Sys} {op : Op} {r : Ret} {i : Nat} {accT : List Nat} {accP : Bool}
    (inv : Inv s) (hcur : s.cur ≤ REV_MAX)
    (hacc : ∀ v, s.it.shard.slot? i = some v → LastOk s.cur v accT accP)
    (h : stepSys s op = some (s1, r)) :
    ∀ v, s1.it.shard.slot? i = some v →
      LastOk s1.cur v (touchStep i accT ⟨s.cur, op, r⟩) (pinStep i accP ⟨s.cur, op, r⟩) := by
  intro v1 hv1
  cases op with
  | newRev =>
    simp only [stepSys, Option.some.injEq, Prod.mk.injEq] at h
    obtain ⟨rfl, rfl⟩ := h
    obtain ⟨h1, h2⟩ := hacc v1 hv1
    exact ⟨h1, fun hp => ⟨(h2 hp).1, Nat.le_succ_of_le (h2 hp).2⟩⟩
  | intern d inq x =>
    obtain ⟨q', sh', o, rfl, _, rfl, hs, _⟩ := stepSys_intern inv h
    have hv1' : sh'.slot? i = some v1 := hv1
    simp only [touchStep, pinStep]
    have hnew : ∀ u : Slot, u.lastInternedAt = newLastInternedAt s.cur inq →
        LastOk s.cur u [s.cur] (!inq) := by
      intro u hu
      cases inq
      · exact ⟨fun _ => hu, fun hp => (by cases hp)⟩
      · refine ⟨fun hp => (by cases hp), fun _ => ⟨?_, ?_⟩⟩
        · rw [hu]; rfl
        · rw [hu]; exact Nat.le_refl _
    by_cases hio : o.id = i
    · rw [if_pos hio, if_pos hio]
      subst hio
      rcases hs.cases with ⟨hk, w, hw, _, _, hw'⟩ | ⟨hk, hid, _, _, hw'⟩ | ⟨hk, w, _, _, _, _, _, _, _, hw'⟩
      · rw [hk]
        simp only
        rw [hv1'] at hw'
        injection hw' with hw'
        subst hw'
        obtain ⟨h1, h2⟩ := hacc w hw
        refine ⟨?_, ?_⟩
        · intro hp
          simp only
          rw [h1 hp]
          rw [if_neg (by omega)]
        · intro hp
          obtain ⟨h3, h4⟩ := h2 hp
          simp only
          refine ⟨?_, by split <;> omega⟩
          rw [List.getLast?_append]
          simp only [List.getLast?_singleton, Option.some_or]
          congr 1
          split <;> omega
      · rw [hk]
        simp only
        rw [← hid, hv1'] at hw'
        injection hw' with hw'
        subst hw'
        exact hnew _ rfl
      · rw [hk]
        simp only
        rw [hv1'] at hw'
        injection hw' with hw'
        subst hw'
        exact hnew _ rfl
    · rw [if_neg hio, if_neg hio]
      have : sh'.slot? i = s.it.shard.slot? i := hs.frame i (fun e => hio e.symm)
      rw [this] at hv1'
      exact hacc v1 hv1'
  | mca id g =>
    simp only [stepSys] at h
    cases hi : s.it.maybeChangedAfter id g s.cur with
    | none => rw [hi] at h; cases h
    | some p =>
      rw [hi] at h
      simp only [Option.some.injEq, Prod.mk.injEq] at h
      obtain ⟨rfl, rfl⟩ := h
      obtain ⟨q', w, _, hw, hc, hit, _, _⟩ := mca_step inv id g p.1 p.2 hi
      have hid := slot?_id hw
      subst hid
      by_cases hg : w.generation > g
      · rw [if_pos hg] at hit
        rw [hit] at hv1
        have : p.2 = true := by rw [hc]; simpa using hg
        rw [this]
        simp only [touchStep, pinStep]
        exact hacc v1 hv1
      · rw [if_neg hg] at hit
        rw [hit] at hv1 ⊢
        have : p.2 = false := by rw [hc]; simpa using hg
        rw [this]
        simp only [touchStep, pinStep]
        have hv1' : (s.it.shard.setSlot { w with lastInternedAt := s.cur }).slot? i = some v1 := hv1
        rw [slot?_touch w { w with lastInternedAt := s.cur } hw rfl] at hv1'
        by_cases hiw : i = w.id
        · subst hiw
          rw [if_pos rfl] at hv1'
          injection hv1' with hv1'
          subst hv1'
          rw [if_pos rfl, if_pos rfl]
          refine ⟨fun hp => (by cases hp), fun _ => ⟨?_, Nat.le_refl _⟩⟩
          simp
        · rw [if_neg hiw] at hv1'
          rw [if_neg (fun e => hiw e.symm), if_neg (fun e => hiw e.symm)]
          exact hacc v1 hv1'
  | addMemo id =>
    simp only [stepSys, Interner.addMemo] at h
    cases hw : s.it.shard.slot? id with
    | none => rw [hw] at h; cases h
    | some w =>
      rw [hw] at h
      simp only [Option.some.injEq, Prod.mk.injEq] at h
      obtain ⟨rfl, rfl⟩ := h
      have hid := slot?_id hw
      subst hid
      simp only [touchStep, pinStep]
      have hv1' : (s.it.shard.setSlot { w with memos := w.generation :: w.memos }).slot? i
          = some v1 := hv1
      rw [slot?_touch w { w with memos := w.generation :: w.memos } hw rfl] at hv1'
      by_cases hiw : i = w.id
      · subst hiw
        rw [if_pos rfl] at hv1'
        injection hv1' with hv1'
        subst hv1'
        exact hacc w hw
      · rw [if_neg hiw] at hv1'
        exact hacc v1 hv1'

theorem last_run {s s' : Sys} {ops : List Op} {log : List Ev} {i : Nat} {accT : List Nat}
    {accP : Bool} (inv : Inv s) (hcur : s'.cur ≤ REV_MAX)
    (hacc : ∀ v, s.it.shard.slot? i = some v → LastOk s.cur v accT accP)
    (h : runSys s ops = some (s', log)) :
    ∀ v, s'.it.shard.slot? i = some v →
      LastOk s'.cur v (log.foldl (touchStep i) accT) (log.foldl (pinStep i) accP) := by
  induction ops generalizing s log accT accP with
  | nil =>
    simp only [runSys, Option.some.injEq, Prod.mk.injEq] at h
    obtain ⟨rfl, rfl⟩ := h
    exact hacc
  | cons op ops ih =>
    have hle := (run_cur h).1
    obtain ⟨s1, r, log1, hs, hr, rfl⟩ := run_cons h
    rw [List.foldl_cons, List.foldl_cons]
    exact ih (inv_step inv hs) (last_step inv (by omega) hacc hs) hr

end SalsaVerif.Proofs.Intern
