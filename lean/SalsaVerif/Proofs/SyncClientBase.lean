/-
  Exact effects of the three base protocol steps used by the C16 client layer (claim with blocking,
  release, wake) on a state satisfying the transfer-free protocol invariant `PInvB`, and their
  enabledness.
-/
import SalsaVerif.Proofs.SyncExec
import SalsaVerif.Proofs.SyncDGResolve

namespace SalsaVerif.Proofs.SyncDG
open SalsaVerif.Model.SyncDG

theorem block_cases {s : State} {me other : Nat} {a : ClaimAnswer} (h : block s me other = some a) :
    (a = .cycle false ∧ (me = other ∨ dependsOn s other me = some true)) ∨
    (a = .running other ∧ me ≠ other ∧ dependsOn s other me = some false) := by
  unfold block at h
  by_cases hm : me = other
  · simp [hm] at h; exact Or.inl ⟨h.symm, Or.inl hm⟩
  · simp only [hm, if_false] at h
    cases hd : dependsOn s other me with
    | none => simp [hd] at h
    | some b =>
      cases b with
      | true => simp [hd] at h; exact Or.inl ⟨h.symm, Or.inr rfl⟩
      | false => simp [hd] at h; exact Or.inr ⟨h.symm, hm, rfl⟩

/-- The three outcomes of `claim t k` with blocking. -/
inductive ClaimCase (s s' : State) (t k : Nat) (ans : Answer) : Prop
  | claimed (ha : ans = .claim .claimed false) (hk : s.sync k = none)
      (hs : s'.sync = upd s.sync k (some (freshClaim t))) (he : s'.edges = s.edges)
      (hq : s'.qdeps = s.qdeps)
  | blocked (o : Nat) (st : SyncState) (ha : ans = .claim (.running o) true) (hk : s.sync k = some st)
      (ho : st.owner = .thread o) (hs : s'.sync = upd s.sync k (some { st with anyoneWaiting := true }))
      (he : s'.edges = upd s.edges t (some o)) (hq : s'.qdeps = upd s.qdeps k (s.qdeps k ++ [t]))
      (hne : t ≠ o)
  | cycle (o : Nat) (st : SyncState) (ha : ans = .claim (.cycle false) false) (hk : s.sync k = some st)
      (ho : st.owner = .thread o) (hc : o = t ∨ Path s.edges o t)

theorem claim_cases {s s' : State} {t k : Nat} {re : Bool} {ans : Answer} (hp : PInvB s)
    (hs : stepA s (.claim t k re true) = some (s', ans)) :
    idle s t = true ∧ s'.results = s.results ∧ ClaimCase s s' t k ans := by
  simp only [stepA] at hs
  have h0 := PInvB_touch k (PInvB_touch t hp)
  have e1 : (touch (touch s t) k).edges = s.edges := rfl
  have e2 : (touch (touch s t) k).qdeps = s.qdeps := rfl
  have e3 : (touch (touch s t) k).results = s.results := rfl
  have e4 : (touch (touch s t) k).sync = s.sync := rfl
  have e5 : idle (touch (touch s t) k) t = idle s t := rfl
  generalize touch (touch s t) k = s0 at hs h0 e1 e2 e3 e4 e5
  cases hi : idle s0 t with
  | false => simp [hi] at hs
  | true =>
    simp only [hi, if_true] at hs
    cases hc : tryClaim s0 t k re with
    | none => simp [hc] at hs
    | some pr =>
      obtain ⟨s1, a⟩ := pr
      simp only [hc] at hs
      refine ⟨by rw [← e5]; exact hi, ?_⟩
      rcases tryClaim_basic h0 hc with ⟨hk, rfl, rfl⟩ | ⟨st, id, hk, ho, rfl, hbl⟩
      · simp only [finishClaim, Option.some.injEq, Prod.mk.injEq] at hs
        obtain ⟨rfl, rfl⟩ := hs
        exact ⟨e3, .claimed rfl (by rw [← e4]; exact hk) (by simp only; rw [e4]) e1 e2⟩
      · rcases block_cases hbl with ⟨rfl, hcy⟩ | ⟨rfl, hne, hd⟩
        · simp only [finishClaim, Option.some.injEq, Prod.mk.injEq] at hs
          obtain ⟨rfl, rfl⟩ := hs
          refine ⟨e3, .cycle id st rfl (by rw [← e4]; exact hk) ho ?_⟩
          rcases hcy with h | h
          · exact Or.inl h.symm
          · rcases dependsOnLoop_true _ _ h with p | ⟨e, _⟩
            · exact Or.inr (by rw [← e1]; exact p)
            · exact Or.inl e
        · simp only [finishClaim, if_true] at hs
          cases ha : addEdge (setWaiting s0 k st) t k id with
          | none => simp [ha] at hs
          | some s2 =>
            simp only [ha, Option.some.injEq, Prod.mk.injEq] at hs
            obtain ⟨rfl, rfl⟩ := hs
            obtain ⟨_, _, _, rfl⟩ := addEdge_eq ha
            exact ⟨e3, .blocked id st rfl (by rw [← e4]; exact hk) ho
              (by simp only [setWaiting]; rw [e4]) (by simp only [setWaiting]; rw [e1])
              (by simp only [setWaiting]; rw [e2]) hne⟩

/-- Exact effect of releasing `k` in the transfer-free protocol. -/
structure ReleaseEffect (s s' : State) (k : Nat) (r : WaitResult) : Prop where
  sync : s'.sync = upd s.sync k none
  qdeps : s'.qdeps = upd s.qdeps k []
  delivered : ∀ u, u ∈ s.qdeps k → s'.results u = some r ∧ s'.edges u = none
  others : ∀ u, u ∉ s.qdeps k → s'.results u = s.results u ∧ s'.edges u = s.edges u

theorem releaseEntry_effect {s s' : State} {k : Nat} {r : WaitResult} (h : PInvB s)
    (hr : releaseEntry s k r = some s') : ReleaseEffect s s' k r := by
  unfold releaseEntry at hr
  cases hk : s.sync k with
  | none => simp [hk] at hr
  | some st =>
    simp only [hk] at hr
    obtain ⟨_, hc2, htt⟩ := h.owner k st hk
    unfold release at hr
    have hg0 : GInv { s with sync := upd s.sync k none } [] := GInv.congr (s := s) rfl rfl rfl h.g
    cases haw : st.anyoneWaiting with
    | false =>
      simp only [haw, Bool.not_false, if_true, Option.some.injEq] at hr
      subst hr
      have hq : s.qdeps k = [] := by
        cases hq : s.qdeps k with
        | nil => rfl
        | cons x xs =>
          obtain ⟨st', _, h1, _, h3, _⟩ := h.w3 x k (by simp [hq])
          rw [hk] at h1; cases h1
          rw [haw] at h3; cases h3
      refine ⟨rfl, ?_, by simp [hq], by simp⟩
      funext x
      by_cases hx : x = k
      · subst hx; simp [hq]
      · simp [upd_other _ _ _ _ hx]
    | true =>
      simp only [haw, Bool.not_true, Bool.false_eq_true, if_false, hc2, htt] at hr
      cases hu : unblockRuntimesBlockedOn { s with sync := upd s.sync k none } k r with
      | none => simp [hu] at hr
      | some s2 =>
        simp only [hu, Option.some.injEq] at hr
        subst hr
        obtain ⟨_, hun⟩ := unblockRuntimesBlockedOn_inv hg0 hu
        exact ⟨hun.same.sync, hun.qdeps, hun.delivered, hun.others⟩

theorem release_cases {s s' : State} {t k : Nat} {r : WaitResult} (hp : PInvB s)
    (hs : step s (.release t k r) = some s') :
    idle s t = true ∧ ownedBy s k t = true ∧ ReleaseEffect s s' k r := by
  have hi : idle s t = true ∧ ownedBy s k t = true := by
    simp only [step, stepA] at hs
    have e1 : idle (touch (touch s t) k) t = idle s t := rfl
    have e2 : ownedBy (touch (touch s t) k) k t = ownedBy s k t := rfl
    cases hc : (idle (touch (touch s t) k) t && ownedBy (touch (touch s t) k) k t) with
    | false => simp [hc] at hs
    | true =>
      simp only [Bool.and_eq_true] at hc
      rw [e1, e2] at hc; exact hc
  have h0 := PInvB_touch k (PInvB_touch t hp)
  have := releaseEntry_effect h0 (step_release hs)
  exact ⟨hi.1, hi.2, ⟨this.sync, this.qdeps, this.delivered, this.others⟩⟩

theorem release_enabled_inv {s : State} (hp : PInvB s) (t k : Nat) (r : WaitResult)
    (hi : idle s t = true) (ho : ownedBy s k t = true) : ∃ s', step s (.release t k r) = some s' := by
  have hp0 := PInvB_touch k (PInvB_touch t hp)
  have hi' : idle (touch (touch s t) k) t = true := hi
  have ho' : ownedBy (touch (touch s t) k) k t = true := ho
  simp only [step, stepA, hi', ho', Bool.and_self, if_true, Option.map_map]
  generalize touch (touch s t) k = s0 at hp0 ho'
  obtain ⟨st, hk, _⟩ := ownedBy_iff.mp ho'
  obtain ⟨_, hc2, htt⟩ := hp0.owner k st hk
  simp only [releaseEntry, hk, release, hc2, htt]
  cases st.anyoneWaiting with
  | false => simp
  | true =>
    have hg0 : GInv { s0 with sync := upd s0.sync k none } [] := GInv.congr (s := s0) rfl rfl rfl hp0.g
    obtain ⟨s2, h2⟩ := unblockRuntimesBlockedOn_enabled k r hg0
    simp [h2]

theorem claim_enabled_inv {s : State} (hp : PInvB s) (hb : BInv s) (t k : Nat) (re blk : Bool)
    (hi : idle s t = true) : ∃ r, stepA s (.claim t k re blk) = some r := by
  have hg := hp.g
  have hi0 : idle (touch (touch s t) k) t = true := hi
  simp only [stepA, hi0, if_true]
  cases hk : s.sync k with
  | none =>
    have hk0 : (touch (touch s t) k).sync k = none := hk
    simp [tryClaim, hk0, finishClaim]
  | some st =>
    obtain ⟨⟨u, ho⟩, _, _⟩ := hp.owner k st hk
    have hk0 : (touch (touch s t) k).sync k = some st := hk
    simp only [tryClaim, hk0, ho]
    have hg1 : GInv (setWaiting (touch (touch s t) k) k st) [] :=
      GInv.congr (s := s) rfl rfl rfl hg
    have hb1 : BInv (setWaiting (touch (touch s t) k) k st) := by
      intro x hx
      have := hb x hx
      simp only [setWaiting, touch]; omega
    have het : (setWaiting (touch (touch s t) k) k st).edges t = none := (idle_iff.mp hi).1
    generalize setWaiting (touch (touch s t) k) k st = s1 at hg1 hb1 het
    unfold block
    by_cases htu : t = u
    · simp [htu, finishClaim]
    · simp only [htu, if_false]
      have hterm := dependsOn_terminates hg1 hb1 u t
      cases hd : dependsOn s1 u t with
      | none => exact absurd hd hterm
      | some b =>
        cases b with
        | true => simp [finishClaim]
        | false =>
          cases blk with
          | false => simp [finishClaim]
          | true => simp [finishClaim, addEdge, htu, het, hd]

theorem wake_cases {s s' : State} {t : Nat} (hs : step s (.wake t) = some s') :
    (s.results t).isSome ∧ s'.edges = s.edges ∧ s'.qdeps = s.qdeps ∧ s'.sync = s.sync ∧
    s'.results = upd s.results t none := by
  simp only [step, stepA] at hs
  have e : (touch s t).results = s.results := rfl
  cases hr : (touch s t).results t with
  | none => simp [hr] at hs
  | some r =>
    simp only [hr, Option.map_some, Option.some.injEq] at hs
    subst hs
    rw [e] at hr
    exact ⟨by simp [hr], rfl, rfl, rfl, rfl⟩

theorem Path.last {e : Nat → Option Nat} {a b : Nat} (p : Path e a b) : ∃ y, e y = some b := by
  induction p with
  | single h => exact ⟨_, h⟩
  | cons _ _ ih => exact ih

end SalsaVerif.Proofs.SyncDG
