/-
  `RH s s'`: every cycle head of `s'` that was not a head in `s` is still an active query or
  has a provisional memo — a head that is popped is memoised.  Needed to know that all heads
  known at the end of the first pass of an outermost head have been recomputed in it.
  Core Lean only.
-/
import SalsaVerif.Proofs.CycleChainA

namespace SalsaVerif.Proofs.Cycle
open SalsaVerif.Model.Cycle

def RH (s s' : St) : Prop :=
  ∀ c, isHead s'.prov c = true → isHead s.prov c = true ∨ c ∈ s'.stack ∨ cval s' c ≠ none

theorem RH.refl (s : St) : RH s s := fun _ h => Or.inl h

theorem RH.trans {s s1 s2 : St} (h1 : RH s s1) (h2 : RH s1 s2) (hst : s2.stack = s1.stack)
    (hE : Ext s1 s2) : RH s s2 := by
  intro c hc
  rcases h2 c hc with h | h | h
  · rcases h1 c h with h | h | h
    · exact Or.inl h
    · exact Or.inr (Or.inl (by rw [hst]; exact h))
    · right; right
      cases hv : cval s1 c with
      | none => exact absurd hv h
      | some w => rw [hE.cache c w hv]; exact fun h => nomatch h
  · exact Or.inr (Or.inl h)
  · exact Or.inr (Or.inr h)

theorem RH_of_prov_nil {s s' : St} (h : s'.prov = []) : RH s s' := by
  intro c hc; rw [h] at hc; cases hc

section
variable (P : Prog) (env : Nat → Nat)

def ReadRH (read : Nat → St → Res Fetched) : Prop :=
  ∀ c s v hs s', Inv P env s → read c s = .ok (v, hs, s') → RH s s'

/-- after `execute`: `RH`, and a node that did not end as a provisional memo ended final with
    no provisional state left. -/
def ExecRH (exec : Nat → St → Res Fetched) : Prop :=
  ∀ j s v hs s', Inv P env s → j ∉ s.stack → s.final.lookup j = none → s.cache.lookup j = none →
    exec j s = .ok (v, hs, s') →
    RH s s' ∧ (cval s' j = none → s'.prov = [] ∧ s'.cache = [])

theorem evalM_RH {read : Nat → St → Res Fetched} (hR : ReadSpec P env read)
    (hH : ReadRH P env read) :
    ∀ (e : Expr) (s : St) (v : Nat) (hs : List Nat) (s' : St), Inv P env s →
      evalM env read e s = .ok (v, hs, s') → RH s s' := by
  intro e
  induction e with
  | const c =>
    intro s v hs s' hI h
    simp only [evalM] at h
    injection h with h; injection h with h1 h; injection h with h2 h3
    subst h3; exact RH.refl _
  | input i =>
    intro s v hs s' hI h
    simp only [evalM] at h
    injection h with h; injection h with h1 h; injection h with h2 h3
    subst h3; exact RH.refl _
  | call j =>
    intro s v hs s' hI h
    simp only [evalM] at h
    cases hr : read j s with
    | error e => rw [hr] at h; cases h
    | ok r =>
      obtain ⟨w, hs1, s1⟩ := r
      rw [hr] at h
      injection h with h; injection h with h1 h; injection h with h2 h3
      subst h3
      exact hH j s w hs1 s1 hI hr
  | union a b iha ihb =>
    intro s v hs s' hI h
    simp only [evalM] at h
    cases ha : evalM env read a s with
    | error e => rw [ha] at h; cases h
    | ok r =>
      obtain ⟨x, h1, s1⟩ := r
      rw [ha] at h
      simp only at h
      cases hb : evalM env read b s1 with
      | error e => rw [hb] at h; cases h
      | ok r2 =>
        obtain ⟨y, h2, s2⟩ := r2
        rw [hb] at h
        injection h with h; injection h with e1 h; injection h with e2 e3
        subst e3
        obtain ⟨hI1, _, _, _⟩ := evalM_spec P env hR a s x h1 s1 hI ha
        obtain ⟨_, hst2, hE2, _⟩ := evalM_spec P env hR b s1 y h2 s2 hI1 hb
        exact (iha s x h1 s1 hI ha).trans (ihb s1 y h2 s2 hI1 hb) hst2 hE2
  | inter a b iha ihb =>
    intro s v hs s' hI h
    simp only [evalM] at h
    cases ha : evalM env read a s with
    | error e => rw [ha] at h; cases h
    | ok r =>
      obtain ⟨x, h1, s1⟩ := r
      rw [ha] at h
      simp only at h
      cases hb : evalM env read b s1 with
      | error e => rw [hb] at h; cases h
      | ok r2 =>
        obtain ⟨y, h2, s2⟩ := r2
        rw [hb] at h
        injection h with h; injection h with e1 h; injection h with e2 e3
        subst e3
        obtain ⟨hI1, _, _, _⟩ := evalM_spec P env hR a s x h1 s1 hI ha
        obtain ⟨_, hst2, hE2, _⟩ := evalM_spec P env hR b s1 y h2 s2 hI1 hb
        exact (iha s x h1 s1 hI ha).trans (ihb s1 y h2 s2 hI1 hb) hst2 hE2
  | ite i a b iha ihb =>
    intro s v hs s' hI h
    simp only [evalM] at h
    split at h
    · exact iha s v hs s' hI h
    · exact ihb s v hs s' hI h
  | gate g a ihg iha =>
    intro s v hs s' hI h
    simp only [evalM] at h
    cases hg : evalM env read g s with
    | error e => rw [hg] at h; cases h
    | ok r =>
      obtain ⟨x, h1, s1⟩ := r
      rw [hg] at h
      simp only at h
      split at h
      · cases ha : evalM env read a s1 with
        | error e => rw [ha] at h; cases h
        | ok r2 =>
          obtain ⟨y, h2, s2⟩ := r2
          rw [ha] at h
          injection h with h; injection h with e1 h; injection h with e2 e3
          subst e3
          obtain ⟨hI1, _, _, _⟩ := evalM_spec P env hR g s x h1 s1 hI hg
          obtain ⟨_, hst2, hE2, _⟩ := evalM_spec P env hR a s1 y h2 s2 hI1 ha
          exact (ihg s x h1 s1 hI hg).trans (iha s1 y h2 s2 hI1 ha) hst2 hE2
      · injection h with h; injection h with e1 h; injection h with e2 e3
        subst e3
        exact ihg s x h1 s1 hI hg

theorem RH_stCached {s s1 : St} {j : Nat} (rest : List Nat) (v' : Nat) (hs' : List Nat)
    (hst : s1.stack = j :: rest) (h : RH s s1) : RH s (stCached s1 j v' hs') := by
  intro c hc
  have hc' : isHead s1.prov c = true := hc
  rcases h c hc' with h | h | h
  · exact Or.inl h
  · rw [hst] at h
    by_cases hcj : c = j
    · subst hcj; right; right; rw [cval_cons_self]; exact fun h => nomatch h
    · right; left
      show c ∈ s1.stack.tail
      rw [hst]
      cases h with
      | head => exact absurd rfl hcj
      | tail _ h => exact h
  · right; right
    by_cases hcj : c = j
    · subst hcj; rw [cval_cons_self]; exact fun h => nomatch h
    · rw [cval_cons_subst_ne s1 j v' hs' hcj]; exact h

theorem fetch_RH {exec : Nat → St → Res Fetched} (hX : ExecRH P env exec) :
    ReadRH P env (fetch P exec) := by
  intro c s v hs s' hI h
  cases hp : s.poisoned.contains c with
  | true => rw [fetch_poisoned P exec c s hp] at h; cases h
  | false =>
    cases hf : s.final.lookup c with
    | some w =>
      rw [fetch_final P exec c s hp hf] at h
      injection h with h; injection h with e1 h; injection h with e2 e3
      subst e3; exact RH.refl _
    | none =>
      cases hst : s.stack.contains c with
      | true =>
        rw [fetch_stack P exec c s hp hf hst] at h
        have hstrat := fetchColdCycle_ok_strat P c s h
        cases hl : s.prov.lookup c with
        | some w =>
          rw [fetchColdCycle_some P c s hstrat hl] at h
          injection h with h; injection h with e1 h; injection h with e2 e3
          subst e3; exact RH.refl _
        | none =>
          rw [fetchColdCycle_none P c s hstrat hl] at h
          injection h with h; injection h with e1 h; injection h with e2 e3
          subst e3
          intro k hk
          by_cases hkc : k = c
          · subst hkc
            exact Or.inr (Or.inl (by simpa using hst))
          · left
            unfold isHead at hk ⊢
            have hk' : (((c, cycleInitial P c) :: s.prov).lookup k).isSome = true := hk
            rw [lookup_cons_ne _ _ hkc] at hk'
            exact hk'
      | false =>
        cases hc : s.cache.lookup c with
        | some en =>
          rw [fetch_cache P exec c s hp hf hst hc] at h
          injection h with h; injection h with e1 h; injection h with e2 e3
          subst e3; exact RH.refl _
        | none =>
          rw [fetch_exec P exec c s hp hf hst hc] at h
          exact (hX c s v hs s' hI (by simpa using hst) hf hc h).1

end

end SalsaVerif.Proofs.Cycle
