/-
  The completeness invariant `InvC` (Proofs/CycleFbCompleteInv.lean) is preserved by the engine
  (`evalM`, `fetch`, `executeMaybeIterate`, `execute`, `eval`, histories of requests), and the
  head set a fetch returns is complete and consists of heads (core Lean only).
-/
import SalsaVerif.Proofs.CycleFbCompleteInv

namespace SalsaVerif.Proofs.Cycle
open SalsaVerif.Model.Cycle

section
variable (P : Prog) (env : Nat → Nat)

/-- what a fetch guarantees on top of `ReadSpecF`: `InvC`, the returned heads have provisional
    values, and every active query the callee reaches through non-active nodes is returned. -/
def ReadSpecC (read : Nat → St → Res Fetched) : Prop :=
  ∀ c s v hs s', InvF P env s → InvC P env s → TopCalls P env s c →
    read c s = .ok (v, hs, s') →
    InvC P env s' ∧ (∀ k ∈ hs, isHead s'.prov k = true) ∧
    (c ∉ s.stack → ∀ k ∈ s.stack, Via P env s.stack c k → k ∈ hs)

def ExecSpecC (exec : Nat → St → Res Fetched) : Prop :=
  ∀ j s v hs s', InvF P env s → InvC P env s → j ∉ s.stack → s.final.lookup j = none →
    s.cache.lookup j = none → TopCalls P env s j → exec j s = .ok (v, hs, s') →
    InvC P env s' ∧ (∀ k ∈ hs, isHead s'.prov k = true) ∧
    (∀ k ∈ s.stack, Via P env s.stack j k → k ∈ hs)

theorem evalM_specC {read : Nat → St → Res Fetched} (hR : ReadSpecF P env read)
    (hRC : ReadSpecC P env read) :
    ∀ (e : Expr), e.noGate = true → ∀ (s : St) (v : Nat) (hs : List Nat) (s' : St),
      InvF P env s → InvC P env s →
      (∀ c ∈ callees env ρ0 e, TopCalls P env s c) →
      evalM env read e s = .ok (v, hs, s') →
      InvC P env s' ∧ (∀ k ∈ hs, isHead s'.prov k = true) ∧
      (∀ c ∈ callees env ρ0 e, c ∉ s.stack → ∀ k ∈ s.stack, Via P env s.stack c k → k ∈ hs) := by
  intro e
  induction e with
  | const c =>
    intro _ s v hs s' _ hC _ h
    simp only [evalM] at h
    injection h with h; injection h with h1 h; injection h with h2 h3
    subst h1; subst h2; subst h3
    exact ⟨hC, (fun k hk => nomatch hk), (fun c hc => by simp [callees] at hc)⟩
  | input i =>
    intro _ s v hs s' _ hC _ h
    simp only [evalM] at h
    injection h with h; injection h with h1 h; injection h with h2 h3
    subst h1; subst h2; subst h3
    exact ⟨hC, (fun k hk => nomatch hk), (fun c hc => by simp [callees] at hc)⟩
  | call j =>
    intro _ s v hs s' hI hC hT h
    simp only [evalM] at h
    cases hr : read j s with
    | error e => rw [hr] at h; cases h
    | ok r =>
      obtain ⟨w, hs1, s1⟩ := r
      rw [hr] at h
      injection h with h; injection h with h1 h; injection h with h2 h3
      subst h1; subst h2; subst h3
      obtain ⟨hC1, hh, hcomp⟩ := hRC j s w hs1 s1 hI hC (hT j (by simp [callees])) hr
      refine ⟨hC1, hh, ?_⟩
      intro c hc hcs
      simp only [callees, List.mem_singleton] at hc
      subst hc; exact hcomp hcs
  | union a b iha ihb =>
    intro hng s v hs s' hI hC hT h
    simp only [Expr.noGate, Bool.and_eq_true] at hng
    have iha := iha hng.1
    have ihb := ihb hng.2
    simp only [evalM] at h
    cases ha : evalM env read a s with
    | error e => rw [ha] at h; cases h
    | ok r =>
      obtain ⟨x, h1, s1⟩ := r
      rw [ha] at h
      simp only at h
      cases hb : evalM env read b s1 with
      | error e => rw [hb] at h; cases h
      | ok r2 =>
        obtain ⟨y, h2, s2⟩ := r2
        rw [hb] at h
        injection h with h; injection h with e1 h; injection h with e2 e3
        subst e1; subst e2; subst e3
        have hTa : ∀ c ∈ callees env ρ0 a, TopCalls P env s c :=
          fun c hc => hT c (by simp [callees, hc])
        obtain ⟨hI1, hst1, _, _, _, _, _⟩ := evalM_specF P env hR a hng.1 s x h1 s1 hI hTa ha
        obtain ⟨hC1, hh1, hcomp1⟩ := iha s x h1 s1 hI hC hTa ha
        have hT2 : ∀ c ∈ callees env ρ0 b, TopCalls P env s1 c := by
          intro c hc t ht
          rw [hst1] at ht
          exact hT c (by simp [callees, hc]) t ht
        obtain ⟨_, _, hE2, _, _, _, _⟩ := evalM_specF P env hR b hng.2 s1 y h2 s2 hI1 hT2 hb
        obtain ⟨hC2, hh2, hcomp2⟩ := ihb s1 y h2 s2 hI1 hC1 hT2 hb
        refine ⟨hC2, ?_, ?_⟩
        · intro k hk
          rw [List.mem_append] at hk
          rcases hk with hk | hk
          · exact isHead_mono hE2 (hh1 k hk)
          · exact hh2 k hk
        · intro c hc hcs k hk hv
          simp only [callees, List.mem_append] at hc
          rcases hc with hc | hc
          · exact List.mem_append_left _ (hcomp1 c hc hcs k hk hv)
          · rw [← hst1] at hcs hk hv
            exact List.mem_append_right _ (hcomp2 c hc hcs k hk hv)
  | inter a b iha ihb =>
    intro hng s v hs s' hI hC hT h
    simp only [Expr.noGate, Bool.and_eq_true] at hng
    have iha := iha hng.1
    have ihb := ihb hng.2
    simp only [evalM] at h
    cases ha : evalM env read a s with
    | error e => rw [ha] at h; cases h
    | ok r =>
      obtain ⟨x, h1, s1⟩ := r
      rw [ha] at h
      simp only at h
      cases hb : evalM env read b s1 with
      | error e => rw [hb] at h; cases h
      | ok r2 =>
        obtain ⟨y, h2, s2⟩ := r2
        rw [hb] at h
        injection h with h; injection h with e1 h; injection h with e2 e3
        subst e1; subst e2; subst e3
        have hTa : ∀ c ∈ callees env ρ0 a, TopCalls P env s c :=
          fun c hc => hT c (by simp [callees, hc])
        obtain ⟨hI1, hst1, _, _, _, _, _⟩ := evalM_specF P env hR a hng.1 s x h1 s1 hI hTa ha
        obtain ⟨hC1, hh1, hcomp1⟩ := iha s x h1 s1 hI hC hTa ha
        have hT2 : ∀ c ∈ callees env ρ0 b, TopCalls P env s1 c := by
          intro c hc t ht
          rw [hst1] at ht
          exact hT c (by simp [callees, hc]) t ht
        obtain ⟨_, _, hE2, _, _, _, _⟩ := evalM_specF P env hR b hng.2 s1 y h2 s2 hI1 hT2 hb
        obtain ⟨hC2, hh2, hcomp2⟩ := ihb s1 y h2 s2 hI1 hC1 hT2 hb
        refine ⟨hC2, ?_, ?_⟩
        · intro k hk
          rw [List.mem_append] at hk
          rcases hk with hk | hk
          · exact isHead_mono hE2 (hh1 k hk)
          · exact hh2 k hk
        · intro c hc hcs k hk hv
          simp only [callees, List.mem_append] at hc
          rcases hc with hc | hc
          · exact List.mem_append_left _ (hcomp1 c hc hcs k hk hv)
          · rw [← hst1] at hcs hk hv
            exact List.mem_append_right _ (hcomp2 c hc hcs k hk hv)
  | ite i a b iha ihb =>
    intro hng s v hs s' hI hC hT h
    simp only [Expr.noGate, Bool.and_eq_true] at hng
    have iha := iha hng.1
    have ihb := ihb hng.2
    simp only [evalM] at h
    simp only [callees] at hT ⊢
    split at h
    · rename_i hc
      simp only [if_pos hc] at hT ⊢
      exact iha s v hs s' hI hC hT h
    · rename_i hc
      simp only [if_neg hc] at hT ⊢
      exact ihb s v hs s' hI hC hT h
  | gate g a _ _ => intro hng; simp [Expr.noGate] at hng

theorem fetchColdCycle_specC (c : Nat) (s : St) (v : Nat) (hs : List Nat) (s' : St)
    (hC : InvC P env s) (h : fetchColdCycle P c s = .ok (v, hs, s')) :
    InvC P env s' ∧ (∀ k ∈ hs, isHead s'.prov k = true) := by
  unfold fetchColdCycle at h
  cases hst : (P.node c).strat with
  | panic => rw [hst] at h; cases h
  | fixpoint b =>
    rw [hst] at h
    simp only at h
    cases hl : s.prov.lookup c with
    | some w =>
      rw [hl] at h
      injection h with h; injection h with e1 h; injection h with e2 e3
      subst e1; subst e2; subst e3
      refine ⟨hC, ?_⟩
      intro k hk
      simp only [List.mem_singleton] at hk
      subst hk; exact isHead_of_lookup hl
    | none =>
      rw [hl] at h
      injection h with h; injection h with e1 h; injection h with e2 e3
      subst e1; subst e2; subst e3
      refine ⟨inv_provC hC, ?_⟩
      intro k hk
      simp only [List.mem_singleton] at hk
      subst hk; simp [isHead]
  | fallback fv =>
    rw [hst] at h
    simp only at h
    cases hl : s.prov.lookup c with
    | some w =>
      rw [hl] at h
      injection h with h; injection h with e1 h; injection h with e2 e3
      subst e1; subst e2; subst e3
      refine ⟨hC, ?_⟩
      intro k hk
      simp only [List.mem_singleton] at hk
      subst hk; exact isHead_of_lookup hl
    | none =>
      rw [hl] at h
      injection h with h; injection h with e1 h; injection h with e2 e3
      subst e1; subst e2; subst e3
      refine ⟨inv_provC hC, ?_⟩
      intro k hk
      simp only [List.mem_singleton] at hk
      subst hk; simp [isHead]

theorem fetch_specC {exec : Nat → St → Res Fetched} (hXC : ExecSpecC P env exec) :
    ReadSpecC P env (fetch P exec) := by
  intro c s v hs s' hI hC hT h
  unfold fetch at h
  split at h
  · cases h
  · cases hf : s.final.lookup c with
    | some w =>
      rw [hf] at h
      injection h with h; injection h with e1 h; injection h with e2 e3
      subst e1; subst e2; subst e3
      refine ⟨hC, (fun k hk => nomatch hk), ?_⟩
      intro _ k hk hv
      exfalso
      have := hC.final_via hv (by rw [hf]; rfl)
      rw [(hI.stackFresh k hk).2] at this; cases this
    | none =>
      rw [hf] at h
      simp only at h
      split at h
      · rename_i hc
        have hc' : c ∈ s.stack := by simpa using hc
        obtain ⟨h1, h2⟩ := fetchColdCycle_specC P env c s v hs s' hC h
        exact ⟨h1, h2, fun hn => absurd hc' hn⟩
      · rename_i hc
        have hc' : c ∉ s.stack := by simpa using hc
        cases hcache : s.cache.lookup c with
        | some e =>
          rw [hcache] at h
          injection h with h; injection h with e1 h; injection h with e2 e3
          subst e1; subst e2; subst e3
          exact ⟨hC, hC.headsHead c e hcache, fun _ k hk hv => hC.headsC c e hcache k hk hv⟩
        | none =>
          rw [hcache] at h
          obtain ⟨h1, h2, h3⟩ := hXC c s v hs s' hI hC hc' hf hcache hT h
          exact ⟨h1, h2, fun _ => h3⟩

end

end SalsaVerif.Proofs.Cycle
