/-
  Glue between the GENERATED decisions of src/tracked_struct.rs (`Gen/LogicStructs.lean`) and
  `Model/Structs.lean` (+ the tracked-struct part of `Model/CoreSpec.lean`): the model's `update`
  re-assembled from generated decisions.  Core Lean only.
-/
import SalsaVerif.Gen.LogicStructs
import SalsaVerif.Model.Structs
import SalsaVerif.Model.CoreSpec

namespace SalsaVerif.Proofs.GenLogic.Structs
open SalsaVerif.Gen.LogicStructs
open SalsaVerif.Model.Structs

-- src/tracked_struct.rs: fn update_field
def updateFieldG (old new : Nat) : Nat × Bool :=
  if update_field_keeps (decide (old = new)) then (old, false) else (new, true)

/-- the slot written by the locked part of `update` -/
def updatedValueG (v : Slot) (cur dur changedAt : Nat) (id : Id) (fields : Fields) : Slot :=
  let u := updateFields (update_fields_revision changedAt) v.revs v.fields fields
  { gen := if u.identityChanged then id.gen + 1 else v.gen,
    updatedAt := update_new_updated_at cur,
    dur := update_new_durability dur,
    revs := if update_restamps dur v.dur then newRevisions (update_restamp_revision changedAt) fields
            else u.revs,
    fields := u.fields,
    memos := if u.identityChanged then [] else v.memos }

-- src/tracked_struct.rs: fn update
def updateG (s : State) (cur dur changedAt : Nat) (id : Id) (fields : Fields) :
    Except Panic (State × Option Id) :=
  match s.slots[id.idx]? with
  | none => .error .badId
  | some v =>
    if !update_requires v.updatedAt then .error .updateWriteLocked
    else if update_already_current v.updatedAt cur then .ok (s, some id)
    else if update_leaks id.gen then .ok (s, none)
    else
      .ok (⟨s.slots.set id.idx (updatedValueG v cur dur changedAt id fields), s.free⟩,
           some (if (updateFields changedAt v.revs v.fields fields).identityChanged
                 then ⟨id.idx, id.gen + 1⟩ else id))

-- src/tracked_struct.rs: fn delete_entity
def deleteEntityG (s : State) (cur g : Nat) (id : Id) : Except Panic State :=
  match s.slots[id.idx]? with
  | none => .error .badId
  | some v =>
    match v.updatedAt with
    | none => .error .deleteWriteLocked
    | some r =>
      if delete_read_locked r cur then .error .deleteReadLocked
      else .ok ⟨s.slots.set id.idx { v with updatedAt := none, memos := [] }, s.free ++ [(g, id)]⟩

-- src/tracked_struct.rs: fn acquire_read_lock (the value left in `updated_at`)
def readLockG (r cur : Nat) : Option Nat := if read_lock_held r cur then some r else read_lock_value cur

end SalsaVerif.Proofs.GenLogic.Structs

namespace SalsaVerif.Proofs.GenLogic.SpecStructs
open SalsaVerif.Gen.LogicStructs
open SalsaVerif.Model.CoreSpec

-- src/tracked_struct.rs: fn new_struct (+ update, allocate) as modelled in `CoreSpec`
def newStructG (s : State) (self : Nat) (f : Frame) (idk v : Nat) : State × Nat :=
  match f.seed, s.slots self with
  | some _, some sl =>
    if update_already_current (some sl.upd) s.cur then (s, sl.gen)
    else
      let fca := if (!update_field_keeps (decide (sl.v = v))) || update_restamps f.dur sl.dur
                 then update_fields_revision f.ca else sl.fca
      (setSlot s self (some { gen := sl.gen, k := sl.k, v := v, fca := fca,
                              dur := update_new_durability f.dur, upd := s.cur }), sl.gen)
  | _, _ =>
    (setSMemo { setSlot s self (some { gen := s.nextGen, k := idk, v := v, fca := f.ca, dur := f.dur, upd := s.cur })
                with nextGen := s.nextGen + 1 } self none, s.nextGen)

end SalsaVerif.Proofs.GenLogic.SpecStructs
