/-
  C26 with flattening: `restore_J` — the restored database satisfies the invariant (with the
  current revision as the revision of the last restore).  Core Lean only.
-/
import SalsaVerif.Proofs.PersistFlat7g

namespace SalsaVerif.Proofs.PersistFlat
open SalsaVerif.Model.Core SalsaVerif.Model.Persist SalsaVerif.Proofs.Core SalsaVerif.Proofs.Persist

theorem restore_memoJ {pers P H R0 s q m} (hP : Wf P) (hJ : J pers P H R0 s) (hA : AllRec s)
    (hp : pers q = true) (hm : s.memos q = some m) :
    MemoJ pers P H s.cur (restore (snapshot pers s)) q (snapshotMemo pers s m) := by
  have h0 := hJ.memo q m hm
  have hkeep : ∀ p mp, pers p = true → s.memos p = some mp →
      (restore (snapshot pers s)).memos p = some (snapshotMemo pers s mp) :=
    fun p mp a b => snapshot_memo_pers a b
  have hsok : ∀ mk : Memo, SOK (restore (snapshot pers s)) (snapshotMemo pers s mk) ↔ SOK s mk :=
    fun mk => Iff.rfl
  -- the premise of Covers in the restored state gives the hypotheses of `restore_cut`
  have hcutP : PremL P H (restore (snapshot pers s)) q (snapshotMemo pers s m) →
      Cut P (H m.va) ((flattenObs pers s m.obs).map (·.dep)) q := by
    intro hpre
    apply restore_cut hP hJ hA hm
    · intro i hi hl; exact hpre.1 i hi hl
    · intro p mp hpin hmp
      have := hpre.2 p (snapshotMemo pers s mp) hpin (hkeep p mp (flat_fn_origin (m := m) hpin).2 hmp)
      exact this
  have hhotP : s.cur ≤ m.va → PremL P H (restore (snapshot pers s)) q (snapshotMemo pers s m) := by
    intro hc
    have hv : m.va = s.cur := Nat.le_antisymm h0.va_cur hc
    refine ⟨?_, ?_⟩
    · intro i _ _
      show (s.inp i).ca ≤ m.va
      rw [hv]; exact hJ.base.inp_le i
    · intro p mp' hpin hmp'
      obtain ⟨_, mp, hmp, e⟩ := rs_memo_inv hmp'
      subst e
      show mp.ca ≤ m.va
      rw [hv]
      exact Nat.le_trans (hJ.memo p mp hmp).ca_va (hJ.memo p mp hmp).va_cur
  refine ⟨h0.ca_va, h0.va_cur, h0.deep1, h0.deep_va, h0.dur3, h0.j3, h0.j4, ?_, ?_, ?_, ?_, ?_, ?_, ?_, ?_, ?_⟩
  · -- j5
    show CaBnd pers P (H m.va) (restore (snapshot pers s)) q m.ca
    rcases h0.j5 with h1 | ⟨k, hk, hw⟩
    · exact Or.inl h1
    · refine Or.inr ⟨k, hk, ?_⟩
      rcases hw with ⟨i, a, b⟩ | ⟨p, mp, a, b, c, d⟩
      · exact Or.inl ⟨i, a, b⟩
      · exact Or.inr ⟨p, _, a, b, hkeep p mp b c, d⟩
  · -- j6
    intro hpre
    rcases hpre with hc | hpre
    · exact hcutP (hhotP hc)
    · exact hcutP hpre
  · -- j7
    intro k hk
    obtain ⟨hk1, hk2⟩ := flat_fn_origin hk
    obtain ⟨a, mk, hmk, hle⟩ := h0.j7 k hk1
    exact ⟨a, _, hkeep k mk hk2 hmk, hle⟩
  · -- j7s
    left
    intro k hk; exact (flat_fn_origin hk).2
  · -- j6c
    intro hc
    have hv : m.va = s.cur := Nat.le_antisymm h0.va_cur hc
    exact restore_cutC hP hJ hA q m hp hm (Or.inl hv)
  · -- j8
    intro hs k hk
    obtain ⟨hk1, hk2⟩ := flat_fn_origin hk
    obtain ⟨mk, hmk, hsk, hc, hd⟩ := h0.j8 ((hsok m).mp hs) k hk1
    exact ⟨_, hkeep k mk hk2 hmk, (hsok mk).mpr hsk, hc, hd⟩
  · -- j16
    intro k hr hpk
    obtain ⟨mk, hmk⟩ := h0.j16 k hr hpk
    exact ⟨_, hkeep k mk hpk hmk⟩
  · -- r0
    intro h; rw [hp] at h; cases h
  · -- pc
    intro k mk' hr hmk' hc
    obtain ⟨_, mk, hmk, e⟩ := rs_memo_inv hmk'
    subst e
    exact h0.pc k mk hr hmk hc

/-- **serialize + deserialize preserves the invariant** -/
theorem restore_J {pers P H R0 s} (hP : Wf P) (hJ : J pers P H R0 s) (hA : AllRec s) :
    J pers P H s.cur (restore (snapshot pers s)) := by
  refine ⟨base_congr hJ.base rfl rfl rfl, hist_congr hJ.hist rfl rfl rfl, Nat.le_refl _, ?_⟩
  intro q m' hm'
  obtain ⟨hp, m, hm, e⟩ := rs_memo_inv hm'
  subst e
  exact restore_memoJ hP hJ hA hp hm

end SalsaVerif.Proofs.PersistFlat
