/-
  `release_self` of a re-claimed transferred key (`claimed_twice`), salsa e06010e: the waiters are woken
  only when the key's transfer chain does NOT resolve to the releasing thread.

  * `resolveLoop` / `thread_id_of_transferred_query` are monotone in the ghost fuel, so the answer in a
    state and in the same state with more ids touched agree whenever the first one terminates;
  * own-target case: the step changes the sync entry only, the key keeps its `transferred` entry and
    still resolves to the releasing thread — every waiter whose edge pointed at the releasing thread
    (the owner while the key was re-claimed) or at the chain's resolved owner points at the resolved
    owner of the now `Transferred` key: the W3 clause of the key is preserved without waking anybody;
  * other case: all waiters are woken, the key has no dependents left (`releaseSelf_handback`).
-/
import SalsaVerif.Proofs.SyncDGWaiters2

namespace SalsaVerif.Proofs.SyncDG
open SalsaVerif.Model.SyncDG

/-- More fuel does not change a terminating `thread_id_of_transferred_query` walk. -/
theorem resolveLoop_mono {tr : Nat → Option (Nat × Nat)} {skip : Option Nat} :
    ∀ (fuel fuel' cur res r : Nat), fuel ≤ fuel' → resolveLoop tr skip fuel cur res = some r →
      resolveLoop tr skip fuel' cur res = some r := by
  intro fuel
  induction fuel with
  | zero => intro fuel' cur res r _ h; simp [resolveLoop] at h
  | succ n ih =>
    intro fuel' cur res r hle h
    cases fuel' with
    | zero => omega
    | succ m =>
      unfold resolveLoop at h ⊢
      cases hc : tr cur with
      | none => simpa [hc] using h
      | some p =>
        obtain ⟨nt, nk⟩ := p
        simp only [hc] at h ⊢
        exact ih m nk _ r (by omega) h

/-- `thread_id_of_transferred_query` only reads `transferred`; a terminating answer survives a larger
    ghost bound. -/
theorem threadIdOfTransferredQuery_mono {s s' : State} {k : Nat} {skip : Option Nat} {r : Option Nat}
    (ht : s'.transferred = s.transferred) (hb : s.bound ≤ s'.bound)
    (h : threadIdOfTransferredQuery s k skip = some r) : threadIdOfTransferredQuery s' k skip = some r := by
  unfold threadIdOfTransferredQuery at h ⊢
  rw [ht]
  cases hk : s.transferred k with
  | none => simpa [hk] using h
  | some p =>
    obtain ⟨rt, owner⟩ := p
    simp only [hk] at h ⊢
    cases hl : resolveLoop s.transferred skip (s.bound + 1) owner rt with
    | none => simp [hl] at h
    | some u =>
      simp only [hl, Option.some.injEq] at h
      rw [resolveLoop_mono _ (s'.bound + 1) _ _ _ (by omega) hl]
      simpa using h

theorem resolvedOwner_eq_some {s : State} {k t : Nat} :
    resolvedOwner s k = some t ↔ threadIdOfTransferredQuery s k none = some (some t) := by
  unfold resolvedOwner
  cases h : threadIdOfTransferredQuery s k none with
  | none => simp
  | some r => cases r <;> simp

theorem resolvedOwner_mono {s s' : State} {k t : Nat} (ht : s'.transferred = s.transferred)
    (hb : s.bound ≤ s'.bound) (h : resolvedOwner s k = some t) : resolvedOwner s' k = some t :=
  resolvedOwner_eq_some.mpr (threadIdOfTransferredQuery_mono ht hb (resolvedOwner_eq_some.mp h))

/-- In a forest with bounded keys the answer of `thread_id_of_transferred_query` does not depend on
    further touched ids. -/
theorem threadIdOfTransferredQuery_touch2 {s : State} (hf : Forest s) (hkv : KInv s) (t k : Nat) :
    threadIdOfTransferredQuery (touch (touch s t) k) k none = threadIdOfTransferredQuery s k none := by
  have hb : s.bound ≤ (touch (touch s t) k).bound :=
    Nat.le_trans (touch_bound_le s t).1 (touch_bound_le _ k).1
  obtain ⟨h1, h2⟩ := threadIdOfTransferredQuery_resolves hf hkv k none
  cases hk : s.transferred k with
  | none =>
    rw [h1 hk]
    exact threadIdOfTransferredQuery_mono (s := s) rfl hb (h1 hk)
  | some p =>
    obtain ⟨u, _, hu, _⟩ := h2 (by simp [hk])
    rw [hu]
    exact threadIdOfTransferredQuery_mono (s := s) rfl hb hu

/-- Own-target hand-back at the protocol-step level (state `s0` = the step's touched state). -/
theorem releaseSelf_handback_own_accurate {s0 s' : State} {t k : Nat} {st : SyncState}
    (hk : s0.sync k = some st) (hct : st.claimedTwice = true) (hr : releaseSelf s0 t k = some s')
    (hown : resolvedOwner s0 k = some t) :
    s'.edges = s0.edges ∧ s'.qdeps = s0.qdeps ∧ s'.results = s0.results ∧
    s'.transferred = s0.transferred ∧ s'.tdeps = s0.tdeps ∧
    s'.sync k = some { st with claimedTwice := false, owner := .transferred } ∧
    (∀ k', k' ≠ k → s'.sync k' = s0.sync k') ∧
    (s'.transferred k).isSome ∧ resolvedOwner s' k = some t := by
  have e := releaseSelf_handback_own hk hct hr (resolvedOwner_eq_some.mp hown)
  subst e
  refine ⟨rfl, rfl, rfl, rfl, rfl, by simp, fun k' hkk => by simp [upd_other _ _ _ _ hkk], ?_, ?_⟩
  · exact threadId_none_iff.2 t (resolvedOwner_eq_some.mp hown)
  · exact resolvedOwner_mono (s := s0) rfl (Nat.le_refl _) hown

end SalsaVerif.Proofs.SyncDG
