/-
  CoreSpec, histories with writes: requests of the specifiable function, part 5.
  `SpecRes` (what a request of `spec c` achieves), the generic installation step `install_res`,
  the creator's tie (`tie_derived`, `tie_reverify`), `SpecOk` of a re-verified memo and of a newly
  computed memo.  Core Lean only.
-/
import SalsaVerif.Proofs.CoreSpecRevFSpec4

namespace SalsaVerif.Proofs.CoreSpec
open SalsaVerif.Model.CoreSpec

/-- what a request of `spec(struct of c)` started in `s` achieves (the conclusion of `SpecFetchOk`) -/
structure SpecRes (P : Prog) (idOf : Nat → Nat) (s t : State) (c : Nat) (res : Res) : Prop where
  inv : Inv P idOf t
  ext : Ext s t (c + 1)
  memos : t.memos = s.memos
  busy : ∀ c', Busy t c' → Busy s c'
  val : res.val = semSpec P s.inp c
  hot : HotResS t s.cur c res

/-- a request preceded by read locks of the struct of the (valid) creator -/
theorem SpecRes.pre {P idOf s0 s t c res} (hL : LockR c s0 s) (hc : memoSok s0 c)
    (h : SpecRes P idOf s t c res) : SpecRes P idOf s0 t c res := by
  refine ⟨h.inv, hL.ext.trans h.ext, h.memos.trans hL.memos, ?_, by rw [h.val, hL.inp],
    by rw [← hL.cur]; exact h.hot⟩
  intro c' hb
  rcases hL.busy_back (h.busy c' hb) with a | a
  · exact a
  · subst a
    exact absurd (h.busy c' hb) (memoSok_not_busy ((hL.memoSokIff c').mpr hc))

/-- a hit: only locks -/
theorem specRes_lock {P idOf s t c} (hP : Wf2 P idOf) (hI : Inv P idOf s) (hL : LockR c s t) (hc : memoSok s c)
    {m : Memo} (hm : s.smemos c = some m) (hv : m.va = s.cur) : SpecRes P idOf s t c (hit m) := by
  have hIt := inv_lockR hI hL
  refine ⟨hIt, hL.ext, hL.memos, ?_, spec_sem hP hI hc hm (Or.inl hv),
    ⟨m, by rw [hL.smemos]; exact hm, hv, rfl, rfl, rfl⟩⟩
  intro c' hb
  rcases hL.busy_back hb with a | a
  · exact a
  · subst a
    exact absurd hb (memoSok_not_busy ((hL.memoSokIff c').mpr hc))

/-- the generic installation step -/
theorem install_res {P idOf t c M} (hP : Wf2 P idOf) (hI : Inv P idOf t) (hc : memoSok t c)
    (hsl : ∃ sl, t.slots c = some sl) (H : SetHyp t c M)
    (hM : SpecOk P idOf (setSMemo t c (some M)) c M)
    (htie : ∀ mc R sl, t.memos c = some mc → replayR c idOf (P.node c) mc.obs none none = some R →
      SpTie t c mc sl (preOf idOf (P.node c) mc.obs) R.sp → AOrd t c mc R →
      (∀ L, mc.dur ≤ L → PreAt t mc.va L (preOf idOf (P.node c) mc.obs) →
        PreAt (setSMemo t c (some M)) mc.va L (preOf idOf (P.node c) mc.obs)) →
      SpTie (setSMemo t c (some M)) c mc sl (preOf idOf (P.node c) mc.obs) R.sp ∧
      AOrd (setSMemo t c (some M)) c mc R)
    (hnh : ∀ old, t.smemos c = some old → old.va ≠ t.cur)
    (hver : ∀ old, t.smemos c = some old → SOK t old → M = { old with va := t.cur }) :
    SpecRes P idOf t (setSMemo t c (some M)) c ⟨M.value, M.ca, M.dur⟩ := by
  have hI' : Inv P idOf (setSMemo t c (some M)) := inv_setSMemo hI hc hsl H hM htie
  have hc' : memoSok (setSMemo t c (some M)) c := hc
  refine ⟨hI', ?_, rfl, fun c' hb => hb, ?_, ⟨M, setSMemo_same _ _ _, H.va, rfl, rfl, rfl⟩⟩
  · refine ⟨rfl, rfl, rfl, rfl, fun _ _ => rfl, fun _ _ => rfl, ?_, ?_, ?_, ?_, ?_, ?_, ?_, ?_⟩
    · intro q hq; exact setSMemo_other _ _ _ (by omega)
    · intro q m hm _; exact hm
    · intro q m hm _; exact ⟨m, hm, Or.inl rfl⟩
    · intro q m hm; exact ⟨m, hm, Nat.le_refl _⟩
    · intro c' sl _ h; exact ⟨sl, h, SlotEq.refl sl⟩
    · intro c' _ h; exact h
    · intro c' sm _ hsm hv
      by_cases hcc : c' = c
      · subst hcc; exact absurd hv (hnh sm hsm)
      · rw [setSMemo_other _ _ _ hcc]; exact hsm
    · intro c' sm _ hsm hs
      by_cases hcc : c' = c
      · subst hcc
        exact ⟨M, setSMemo_same _ _ _, Or.inr (hver sm hsm hs)⟩
      · exact ⟨sm, by rw [setSMemo_other _ _ _ hcc]; exact hsm, Or.inl rfl⟩
  · have h := spec_sem (s := setSMemo t c (some M)) (sm := M) hP hI' hc' (setSMemo_same _ _ _) (Or.inl H.va)
    exact h

/-! ### the creator's tie -/

/-- a `Derived` memo is installed while the old memo (if any) fails the shallow test: the creator
    does not specify (else its `Assigned` memo would be valid), the tie has nothing to say about a
    `Derived` memo -/
theorem tie_derived {P idOf t c M} (hP : Wf2 P idOf) (hI : Inv P idOf t) (hc : memoSok t c)
    (hMo : M.origin = none) (hold : ∀ old, t.smemos c = some old → ¬ SOK t old) :
    ∀ mc R sl, t.memos c = some mc → replayR c idOf (P.node c) mc.obs none none = some R →
      SpTie t c mc sl (preOf idOf (P.node c) mc.obs) R.sp → AOrd t c mc R →
      (∀ L, mc.dur ≤ L → PreAt t mc.va L (preOf idOf (P.node c) mc.obs) →
        PreAt (setSMemo t c (some M)) mc.va L (preOf idOf (P.node c) mc.obs)) →
      SpTie (setSMemo t c (some M)) c mc sl (preOf idOf (P.node c) mc.obs) R.sp ∧
      AOrd (setSMemo t c (some M)) c mc R := by
  intro mc R sl hm hR a _ htr
  obtain ⟨mc', hm', hs'⟩ := hc
  rw [hm] at hm'; cases hm'
  have hRe : R = semRes P t.inp c := fresh_of_sok hP hI c mc hm hs' R hR
  cases hsp : R.sp with
  | some w =>
    exfalso
    obtain ⟨A, hA, _, _, hsA⟩ := spec_assigned_of_sem hP hI ⟨mc, hm, hs'⟩ (by rw [← hRe]; exact hsp)
    exact hold A hA hsA
  | none =>
    rw [hsp] at a
    obtain ⟨_, h2⟩ := a
    refine ⟨⟨?_, htr _ (Nat.le_max_right _ _) h2⟩, ?_⟩
    · intro A hA ho
      rw [setSMemo_same] at hA
      have hAM : A = M := (Option.some.inj hA).symm
      rw [hAM] at ho
      exact absurd hMo ho
    · intro w0 hw0
      rw [hsp] at hw0; cases hw0

/-- the old memo `m` is marked verified (value, origin, durability kept) -/
theorem tie_reverify {P idOf t c} {m M : Memo} (hI : Inv P idOf t) (hc : memoSok t c)
    (hm0 : t.smemos c = some m)
    (ho : M.origin = m.origin) (hv : M.value = m.value) (hd : M.dur = m.dur) (hca : M.ca = m.ca)
    (hva : M.va = t.cur)
    (hsok : m.origin ≠ none → SOK t m) :
    ∀ mc R sl, t.memos c = some mc → replayR c idOf (P.node c) mc.obs none none = some R →
      SpTie t c mc sl (preOf idOf (P.node c) mc.obs) R.sp → AOrd t c mc R →
      (∀ L, mc.dur ≤ L → PreAt t mc.va L (preOf idOf (P.node c) mc.obs) →
        PreAt (setSMemo t c (some M)) mc.va L (preOf idOf (P.node c) mc.obs)) →
      SpTie (setSMemo t c (some M)) c mc sl (preOf idOf (P.node c) mc.obs) R.sp ∧
      AOrd (setSMemo t c (some M)) c mc R := by
  intro mc R sl hm _ a _ htr
  cases hsp : R.sp with
  | some w =>
    rw [hsp] at a
    obtain ⟨A, hA, h1, h2, h3, h4, h5, h6, h7⟩ := a
    rw [hm0] at hA
    have hAm : A = m := (Option.some.inj hA).symm
    rw [hAm] at h1 h2 h4 h5 h6 h7
    refine ⟨⟨M, setSMemo_same _ _ _, ho.trans h1, hv.trans h2, Or.inl ?_, by rw [hd]; exact h4,
      by rw [hd]; exact h5, ?_, by rw [hca]; exact h7⟩, ?_⟩
    · rw [hva]; exact (hI.node c mc hm).obs.va_cur
    · rw [hd]; exact htr _ h4 h6
    · intro w0 _ A' hA' w' d hw hdl hlt
      exfalso
      rw [setSMemo_same] at hA'
      have hAM : A' = M := (Option.some.inj hA').symm
      rw [hAM, hd] at hdl
      obtain ⟨mc', hm', hs'⟩ := hc
      rw [hm] at hm'
      have hmm : mc = mc' := Option.some.inj hm'
      rw [← hmm] at hs'
      exact no_late_write hI hm hs' w' d hw (Nat.le_trans h4 hdl) hlt
  | none =>
    rw [hsp] at a
    obtain ⟨h1, h2⟩ := a
    refine ⟨⟨?_, htr _ (Nat.le_max_right _ _) h2⟩, ?_⟩
    · intro A hA hoA
      rw [setSMemo_same] at hA
      have hAM : A = M := (Option.some.inj hA).symm
      rw [hAM] at hoA
      exfalso
      have hom : m.origin ≠ none := by rw [← ho]; exact hoA
      exact not_sok_of_wit hI (specOk_va' (hI.smemo c m hm0))
        ((h1 m hm0 hom).mono (hI.node c mc hm).obs.va_cur) (hsok hom)
    · intro w0 hw0
      rw [hsp] at hw0; cases hw0

/-! ### `SpecOk` of the installed memo -/

/-- the old memo is marked verified now (and deep-verified at `dA`) while all its reads are current -/
theorem specOk_reverify {P idOf t c sl dA} {m : Memo} (hI : Inv P idOf t) (hc : memoSok t c)
    (hsl : t.slots c = some sl) (hm : t.smemos c = some m)
    (hder : m.origin = none → 1 ≤ dA ∧ dA ≤ t.cur ∧ lc t m.dur ≤ dA ∧
      ∀ o, o ∈ m.obs → ∃ x, depInfo t o.dep = some x ∧ x.val = o.val ∧
       m.dur ≤ x.dur ∧ x.ca ≤ dA ∧ (o.recd = false → 3 ≤ x.dur)) :
    SpecOk P idOf (setSMemo t c (some { m with va := t.cur, deepAt := dA })) c
      { m with va := t.cur, deepAt := dA } := by
  have ok := hI.smemo c m hm
  refine ⟨?_, ?_, ok.noh, ok.hgen, ok.dshape⟩
  · intro ho
    have ho' : m.origin = none := ho
    obtain ⟨h1, h2⟩ := ok.derived ho'
    obtain ⟨hdA1, hdAc, hlc, hreads⟩ := hder ho'
    refine ⟨?_, h2⟩
    apply obsOk_fresh (M := { m with va := t.cur, deepAt := dA }) hI hc ⟨sl, hsl⟩ rfl
      (Nat.le_trans h1.ca_va h1.va_cur) hdA1 hdAc h1.dur3 hlc
    intro o hmem
    obtain ⟨a, b⟩ := ok.dshape ho' o hmem
    exact ⟨a, b, hreads o hmem⟩
  · intro k hk
    obtain ⟨a1, a2, a3, a4, _, a6⟩ := ok.assigned k hk
    exact ⟨a1, a2, Nat.le_trans a3 a4, Nat.le_refl _, hI.cur1, a6⟩

/-- the reads of the frame of a fresh run -/
theorem specFrame_reads {P idOf t c sl} (hI : Inv P idOf t) (hsl : t.slots c = some sl) (is : List Nat) :
    ∀ o, o ∈ finalObs (specFrame t.inp c sl is).dur (specFrame t.inp c sl is).obs →
      o.out = false ∧ (o.dep = .field c ∨ ∃ i, o.dep = .inp i) ∧
      ∃ x, depInfo t o.dep = some x ∧ x.val = o.val ∧ (specFrame t.inp c sl is).dur ≤ x.dur ∧ x.ca ≤ t.cur ∧
        (o.recd = false → 3 ≤ x.dur) := by
  intro o ho
  obtain ⟨o', ho', e1, e2, e3, e4⟩ := mem_finalObs ho
  rw [specFrame_obs] at ho'
  rcases List.mem_cons.mp ho' with e | ho''
  · subst e
    refine ⟨e3, Or.inl e1, ⟨⟨sl.v, none⟩, sl.fca, sl.dur⟩, by rw [e1]; simp [fieldObs, depInfo, hsl], e2.symm,
      specFrame_dur_field _ _ _ _, (hI.slot c sl hsl).1, ?_⟩
    intro hr
    rcases e4 hr with h | h
    · have h' : sl.dur = 3 := by simpa [fieldObs] using h
      show 3 ≤ sl.dur
      omega
    · have := specFrame_dur_field t.inp c sl is
      show 3 ≤ sl.dur
      omega
  · obtain ⟨i, hi, rfl⟩ := List.mem_map.mp ho''
    refine ⟨e3, Or.inr ⟨i, e1⟩, ⟨⟨(t.inp i).val, none⟩, (t.inp i).ca, (t.inp i).dur⟩, by rw [e1]; rfl, e2.symm,
      specFrame_dur_mem _ _ _ _ i hi, hI.inp_le i, ?_⟩
    intro hr
    rcases e4 hr with h | h
    · have h' : (t.inp i).dur = 3 := by simpa [inpObs] using h
      show 3 ≤ (t.inp i).dur
      omega
    · have := specFrame_dur_mem t.inp c sl is i hi
      show 3 ≤ (t.inp i).dur
      omega

/-- the memo `execute` installs -/
theorem specOk_new {P idOf t c sl is v ca} (hP : Wf2 P idOf) (hI : Inv P idOf t) (hc : memoSok t c)
    (hsl : t.slots c = some sl)
    (hrep : replayR 0 idOf (P.spec sl.k sl.v) (is.map (inpObs t.inp)) none none = some ⟨v, none, none⟩)
    (hca : ca ≤ t.cur) :
    SpecOk P idOf (setSMemo t c (some (derivedMemo t.cur v ca (specFrame t.inp c sl is)))) c
      (derivedMemo t.cur v ca (specFrame t.inp c sl is)) := by
  have hreads := specFrame_reads hI hsl is
  have hid : sl.k = idOf c := (field_sem hP hI hc hsl).2
  refine ⟨?_, ?_, ?_, rfl, ?_⟩
  · intro _
    refine ⟨?_, ?_⟩
    · apply obsOk_fresh (M := derivedMemo t.cur v ca (specFrame t.inp c sl is)) hI hc ⟨sl, hsl⟩ rfl hca hI.cur1 (Nat.le_refl _) (specFrame_dur3 _ _ _ _) (hI.lc_le _)
      exact hreads
    · obtain ⟨o', e, d1, d2, d3⟩ :=
        finalObs_cons (specFrame t.inp c sl is).dur (fieldObs c sl) (is.map (inpObs t.inp))
      refine ⟨o', finalObs (specFrame t.inp c sl is).dur (is.map (inpObs t.inp)), ?_, d1, d3, ?_⟩
      · show finalObs _ (specFrame t.inp c sl is).obs = _
        rw [specFrame_obs]; exact e
      · rw [replayR_final, d2, ← hid]; exact hrep
  · intro k hk; cases hk
  · have := replay_spec_sem hP.spec t.inp idOf sl.k sl.v _ v hrep (by
      intro o ho _
      obtain ⟨i, _, rfl⟩ := List.mem_map.mp ho
      rfl)
    show v.h = none
    rw [this]; exact specBodyVal_handleS hP.spec _ _ _
  · intro _ o ho
    obtain ⟨a, b, _⟩ := hreads o ho
    exact ⟨a, b⟩

end SalsaVerif.Proofs.CoreSpec
