/-
  CoreSpec, histories with writes: `execute` of a node, part 6 — the `create` step
  (`tracked_struct.rs: new_struct / update / allocate` for the executing query `r`).
  Core Lean only.
-/
import SalsaVerif.Proofs.CoreSpecRevTrk

namespace SalsaVerif.Proofs.CoreSpec
namespace X
open SalsaVerif.Model.CoreSpec

/-! ### frame lemmas for a change confined to the records of `r` -/

theorem below_not_atR {r : Nat} {d : Dep} (h : depBelow r d) : ¬ atR r d := by
  intro hd
  rcases hd with e | e | e <;> rw [e] at h <;> simp only [depBelow] at h <;> omega

theorem hotDep_off {r s t} (U : Upd r s t) {d : Dep} (hd : ¬ atR r d) : hotDep t d ↔ hotDep s d := by
  cases d with
  | inp i => exact Iff.rfl
  | qry q =>
    have : q ≠ r := fun e => hd (Or.inl (by rw [e]))
    simp only [hotDep, U.memos q this, U.cur]
  | field c =>
    have : c ≠ r := fun e => hd (Or.inr (Or.inl (by rw [e])))
    simp only [hotDep, U.memoSokIff this, U.slots c this]
  | spec c =>
    have : c ≠ r := fun e => hd (Or.inr (Or.inr (by rw [e])))
    simp only [hotDep, U.memoSokIff this, U.smemos c this, U.cur]

theorem ext_of_upd {r s t} (U : Upd r s t) (hm : t.memos r = s.memos r) (hnr : ¬ memoSok s r) :
    Ext s t (r + 1) := by
  have hmem : ∀ q, t.memos q = s.memos q := by
    intro q
    by_cases hq : q = r
    · subst hq; exact hm
    · exact U.memos q hq
  have hne : ∀ c, memoSok s c → c ≠ r := fun c hc e => hnr (e ▸ hc)
  refine ⟨U.cur, U.lch, U.inp, U.wlog, fun q _ => hmem q, fun q hq => U.slots q (by omega),
    fun q hq => U.smemos q (by omega), ?_, ?_, ?_, ?_, ?_, ?_, ?_⟩
  · intro q m h _; rw [hmem]; exact h
  · intro q m h _; exact ⟨m, by rw [hmem]; exact h, Or.inl rfl⟩
  · intro q m h; exact ⟨m, by rw [hmem]; exact h, Nat.le_refl _⟩
  · intro c sl hc hsl; exact ⟨sl, by rw [U.slots c (hne c hc)]; exact hsl, SlotEq.refl sl⟩
  · intro c hc hn; rw [U.slots c (hne c hc)]; exact hn
  · intro c sm hc hsm _; rw [U.smemos c (hne c hc)]; exact hsm
  · intro c sm hc hsm _; exact ⟨sm, by rw [U.smemos c (hne c hc)]; exact hsm, Or.inl rfl⟩

theorem nb_upd {r s t} (U : Upd r s t) (h : NB s r) : NB t r := by
  intro c hc hb
  exact h c hc ((U.busyIff (by omega)).mp hb)

theorem frOk_upd {P r s t f} (U : Upd r s t) (fi : FrOk P r s f) : FrOk P r t f := by
  refine ⟨by rw [U.cur]; exact fi.ca_le, fi.ca1, fi.dur3, ?_, fi.out, ?_, fi.hd⟩
  · intro o ho hout
    have a := fi.rd o ho hout
    have hn := below_not_atR a.below
    exact ⟨a.below, (hotDep_off U hn).mpr a.hot, by rw [U.depInfo_off hn]; exact a.info, by rw [U.inp]; exact a.sem⟩
  · rcases fi.att with a | ⟨o, ho, hout, x, hx, hc⟩
    · exact Or.inl a
    · exact Or.inr ⟨o, ho, hout, x, by rw [U.depInfo_off (below_not_atR (fi.rd o ho hout).below)]; exact hx, hc⟩

theorem frOk_congr {P r s f f'} (fi : FrOk P r s f) (ho : f'.obs = f.obs) (hc : f'.ca = f.ca)
    (hd : f'.dur = f.dur) : FrOk P r s f' := by
  refine ⟨by rw [hc]; exact fi.ca_le, by rw [hc]; exact fi.ca1, by rw [hd]; exact fi.dur3, ?_, ?_, ?_,
    by rw [ho]; exact fi.hd⟩
  · intro o hm hout
    rw [ho] at hm
    have a := fi.rd o hm hout
    exact ⟨a.below, a.hot, by rw [hc, hd]; exact a.info, a.sem⟩
  · intro o hm hout; rw [ho] at hm; exact fi.out o hm hout
  · rw [hc, ho]; exact fi.att

/-! ### observers of a changed struct -/

/-- The slot of `r` changes to `sl'` (node memo and `spec` memo of `r` stay): the observer clause
    of one read from (F) the clause for reads of `field r` against the new slot and (LB) the stamp
    of the field does not go down. -/
theorem slot_obsAt {r s t sl' va L} {o : Obs} (U : Upd r s t) (hm : t.memos r = s.memos r)
    (hsm : t.smemos r = s.smemos r) (hsl : t.slots r = some sl')
    (hLB : (o.dep = .field r ∨ o.dep = .spec r) →
      (∀ sl, s.slots r = some sl → sl.fca ≤ sl'.fca) ∧ (s.slots r = none → Wit s L va sl'.fca))
    (hF : o.dep = .field r → (⟨sl'.v, none⟩ = o.val ∧ L ≤ sl'.dur) ∨ Wit s L va sl'.fca)
    (hd : atR r o.dep) (a : ObsAt s va L o) : ObsAt t va L o := by
  rcases hd with e | e | e
  · -- a read of the node memo: nothing changes
    refine ⟨?_, ?_, ?_⟩
    · intro x hx
      rw [e] at hx
      simp only [depInfo, hm] at hx
      exact ((a.iv x (by rw [e]; simpa [depInfo] using hx))).imp id (U.witIff _ _ _).mpr
    · intro c mc hdc; rw [e] at hdc; rcases hdc with h | h <;> cases h
    · intro c sl hdc; rw [e] at hdc; cases hdc
  · refine ⟨?_, ?_, ?_⟩
    · intro x hx
      rw [e] at hx
      simp only [depInfo, hsl, Option.map_some, Option.some.injEq] at hx
      subst hx
      exact (hF e).imp (fun h => ⟨h.1, h.2⟩) (U.witIff _ _ _).mpr
    · intro c mc hdc hs
      have : c = r := by rw [e] at hdc; rcases hdc with h | h <;> cases h <;> rfl
      subst this; rw [hsl] at hs; cases hs
    · intro c sl hdc; rw [e] at hdc; cases hdc
  · refine ⟨?_, ?_, ?_⟩
    · intro x hx
      rw [e] at hx
      simp only [depInfo, hsm] at hx
      exact ((a.iv x (by rw [e]; simpa [depInfo] using hx))).imp id (U.witIff _ _ _).mpr
    · intro c mc hdc hs
      have : c = r := by rw [e] at hdc; rcases hdc with h | h <;> cases h <;> rfl
      subst this; rw [hsl] at hs; cases hs
    · intro c sl hdc hs hn
      have : c = r := by rw [e] at hdc; cases hdc; rfl
      subst this
      rw [hsl] at hs; cases hs
      rw [hsm] at hn
      refine (U.witIff _ _ _).mpr ?_
      obtain ⟨b1, b2⟩ := hLB (Or.inr e)
      cases hs0 : s.slots c with
      | none => exact b2 hs0
      | some sl0 => exact (a.deadsm c sl0 e hs0 hn).mono (b1 sl0 hs0)

theorem slot_obsTr {r s t m sl'} (U : Upd r s t) (hm : t.memos r = s.memos r) (hsm : t.smemos r = s.smemos r)
    (hsl : t.slots r = some sl')
    (hLB : ∀ va L o, ObsAt s va L o → (o.dep = .field r ∨ o.dep = .spec r) →
      (∀ sl, s.slots r = some sl → sl.fca ≤ sl'.fca) ∧ (s.slots r = none → Wit s L va sl'.fca))
    (hF : ∀ o, o ∈ m.obs → o.out = false → o.dep = .field r → ∀ L, m.dur ≤ L → ObsAt s m.va L o →
      (⟨sl'.v, none⟩ = o.val ∧ L ≤ sl'.dur) ∨ Wit s L m.va sl'.fca)
    (hca : m.ca ≤ m.va) : ObsTr r s t m := by
  have hmem : ∀ q, t.memos q = s.memos q := by
    intro q
    by_cases hq : q = r
    · subst hq; exact hm
    · exact U.memos q hq
  refine ⟨?_, ?_, ?_⟩
  · intro o ho hout hd L hL a _
    exact slot_obsAt U hm hsm hsl (hLB m.va L o a) (fun e => hF o ho hout e L hL a) hd a
  · intro o ho hout hd L hL _ a
    refine ⟨?_, ?_⟩
    · intro c mc hdc hmc; rw [hmem] at hmc
      exact (a.odur c mc hdc hmc).imp id (U.witIff _ _ _).mpr
    · intro c mc hdc hmc; rw [hmem] at hmc
      exact (a.hexp c mc hdc hmc).imp id (U.witIff _ _ _).mpr
  · intro o ho hout hd a h x hx
    rcases hd with e | e | e
    · rw [e] at hx h; simp only [depInfo, hm] at hx; exact h x (by simpa [depInfo] using hx)
    · rw [e] at hx
      simp only [depInfo, hsl, Option.map_some, Option.some.injEq] at hx
      subst hx
      obtain ⟨b1, b2⟩ := hLB m.va m.dur o a (Or.inl e)
      cases hs0 : s.slots r with
      | none =>
        have := (b2 hs0).lt
        simp only
        omega
      | some sl0 =>
        have h1 := h ⟨⟨sl0.v, none⟩, sl0.fca, sl0.dur⟩ (by rw [e]; simp [depInfo, hs0])
        exact Nat.le_trans h1 (b1 sl0 hs0)
    · rw [e] at hx h; simp only [depInfo, hsm] at hx; exact h x (by simpa [depInfo] using hx)

/-- `Inv` after the slot of `r` was (re)written by the running query `r` itself -/
theorem create_inv {P idOf r t t' sl'} (hI : Inv P idOf t) (U : Upd r t t') (hm : t'.memos r = t.memos r)
    (hsm : t'.smemos r = t.smemos r) (hpn : t'.panic = none) (hsl : t'.slots r = some sl')
    (hupd : sl'.upd = t.cur) (hb : sl'.fca ≤ t.cur ∧ 1 ≤ sl'.fca ∧ sl'.dur ≤ 3) (hnr : ¬ memoSok t r)
    (hT : ∀ q m, q ≠ r → t.memos q = some m → ObsTr r t t' m)
    (hD : ∀ D, t.smemos r = some D → D.origin = none → ObsOk t' D) : Inv P idOf t' := by
  have R : UpdR r t t' :=
    ⟨fun m0 h => ⟨m0, by rw [hm]; exact h, Nat.le_refl _⟩, fun sm h => Or.inl (by rw [hsm] at h; exact h),
     fun mc h => Or.inl (by rw [hm] at h; exact h)⟩
  have hnr' : ¬ memoSok t' r := by
    rintro ⟨m, h1, h2⟩
    rw [hm] at h1
    exact hnr ⟨m, h1, (U.sokIff m).mp h2⟩
  have hbusy : Busy t' r := ⟨sl', hsl, by rw [hupd, U.cur], hnr'⟩
  refine inv_upd hI U R hpn (fun h => absurd h hnr) hT ?_ ?_ ?_ ?_ ?_ ?_
  · intro m h
    rw [hm] at h
    exact nodeOk_upd_self U R hI (hI.node r m h) hnr hbusy
  · intro _ hnb; exact absurd hbusy hnb
  · intro sm h
    rw [hsm] at h
    have ok := hI.smemo r sm h
    refine ⟨fun ho => ⟨hD sm h ho, (ok.derived ho).2⟩, ?_, ok.noh, ok.hgen, ok.dshape⟩
    intro k hk
    obtain ⟨h1, h2, h3, h4, h5, h6⟩ := ok.assigned k hk
    exact ⟨h1, h2, h3, by rw [U.cur]; exact h4, h5, h6⟩
  · intro _ _; exact ⟨sl', hsl⟩
  · intro sl h
    rw [hsl] at h; cases h
    rw [U.cur]
    exact ⟨hb.1, hb.2.1, by rw [hupd]; exact Nat.le_refl _, hb.2.2⟩
  · intro _ _ _; exact Or.inr hbusy

/-! ### the step -/

/-- what the `create` step achieves: `t'` is the state after `new_struct` -/
structure CrOut (P : Prog) (idOf : Nat → Nat) (r : Nat) (t t' : State) (f : Frame) (idk v : Nat) : Prop where
  inv : Inv P idOf t'
  upd : Upd r t t'
  memos : t'.memos r = t.memos r
  smemos : t'.smemos r = t.smemos r
  slot : ∃ sl, t'.slots r = some sl ∧ sl.k = idk ∧ sl.v = v ∧ sl.upd = t.cur ∧ sl.dur ≤ f.dur ∧
    (sl.fca ≤ f.ca ∨ ∃ sl0, t.slots r = some sl0 ∧ sl.fca = sl0.fca)

/-- the state after `allocate` -/
def allocSt (t : State) (r : Nat) (f : Frame) (idk v : Nat) : State :=
  setSMemo { setSlot t r (some { gen := t.nextGen, k := idk, v := v, fca := f.ca, dur := f.dur, upd := t.cur })
              with nextGen := t.nextGen + 1 } r none

theorem newStruct_alloc {t : State} {r : Nat} {f : Frame} {idk v : Nat} (h : t.slots r = none) :
    newStruct t r f idk v = (allocSt t r f idk v, t.nextGen) := by
  unfold newStruct allocSt
  rw [h]
  cases f.seed <;> rfl

theorem alloc_upd (t : State) (r : Nat) (f : Frame) (idk v : Nat) : Upd r t (allocSt t r f idk v) := by
  refine ⟨rfl, rfl, rfl, rfl, fun _ _ => rfl, ?_, ?_⟩
  · intro c hc; simp only [allocSt, setSMemo_slots]; exact setSlot_other _ _ _ hc
  · intro c hc; simp only [allocSt]; rw [setSMemo_other _ _ _ hc]; rfl

/-- allocation: there was no struct (and no `spec` memo) -/
theorem alloc_step {P idOf r t f idk v} (hI : Inv P idOf t) (hsl : t.slots r = none) (hsm : t.smemos r = none)
    (hnr : ¬ memoSok t r) (fi : FrOk P r t f)
    (hT : ∀ q m, q ≠ r → t.memos q = some m → ObsTr r t (allocSt t r f idk v) m) :
    CrOut P idOf r t (allocSt t r f idk v) f idk v := by
  have U := alloc_upd t r f idk v
  have hsl' : (allocSt t r f idk v).slots r =
      some { gen := t.nextGen, k := idk, v := v, fca := f.ca, dur := f.dur, upd := t.cur } := by
    simp [allocSt]
  have hsm' : (allocSt t r f idk v).smemos r = t.smemos r := by rw [hsm]; simp [allocSt]
  have hm' : (allocSt t r f idk v).memos r = t.memos r := rfl
  refine ⟨?_, U, hm', hsm', ⟨_, hsl', rfl, rfl, rfl, Nat.le_refl _, Or.inl (Nat.le_refl _)⟩⟩
  refine create_inv hI U hm' hsm' hI.pn hsl' rfl ⟨fi.ca_le, fi.ca1, fi.dur3⟩ hnr hT ?_
  intro D hD; rw [hsm] at hD; cases hD

/-- the state after `update` of an unlocked struct -/
def updSlot (t : State) (f : Frame) (sl : Slot) (v : Nat) : Slot :=
  { gen := sl.gen, k := sl.k, v := v, fca := (if sl.v ≠ v ∨ f.dur < sl.dur then f.ca else sl.fca), dur := f.dur, upd := t.cur }

def updSt (t : State) (r : Nat) (f : Frame) (sl : Slot) (v : Nat) : State :=
  setSlot t r (some (updSlot t f sl v))

theorem newStruct_upd {t : State} {r : Nat} {f : Frame} {idk v g : Nat} {sl : Slot} (hs : f.seed = some g)
    (h : t.slots r = some sl) :
    newStruct t r f idk v = if sl.upd = t.cur then (t, sl.gen) else (updSt t r f sl v, sl.gen) := by
  unfold newStruct updSt updSlot
  rw [hs, h]

theorem updSt_upd (t : State) (r : Nat) (f : Frame) (sl : Slot) (v : Nat) : Upd r t (updSt t r f sl v) :=
  ⟨rfl, rfl, rfl, rfl, fun _ _ => rfl, fun c hc => setSlot_other _ _ _ hc, fun _ _ => rfl⟩

theorem Upd.refl (r : Nat) (s : State) : Upd r s s :=
  ⟨rfl, rfl, rfl, rfl, fun _ _ => rfl, fun _ _ => rfl, fun _ _ => rfl⟩

theorem updR_same {r s t} (hm : t.memos r = s.memos r) (hsm : t.smemos r = s.smemos r) : UpdR r s t :=
  ⟨fun m0 h => ⟨m0, by rw [hm]; exact h, Nat.le_refl _⟩, fun sm h => Or.inl (by rw [hsm] at h; exact h),
   fun mc h => Or.inl (by rw [hm] at h; exact h)⟩

/-- `update` of an unlocked struct: when the tracked field or the durability change, the run has
    diverged from the old replay before the `create` (`hdiv`). -/
theorem upd_step {P idOf r NB0 t f idk v sl mo PL} (hI : Inv P idOf t) (hmo : t.memos r = some mo)
    (hns : ¬ SOK t mo) (hsl : t.slots r = some sl) (hk : sl.k = idk) (hfca : sl.fca ≤ mo.va)
    (hdur : sl.dur ≤ PL) (hmoPL : mo.dur ≤ PL) (fi : FrOk P r t f)
    (hdiv : (sl.v ≠ v ∨ f.dur < sl.dur) → NB0 ∧ Wit t PL mo.va f.ca) :
    CrOut P idOf r t (updSt t r f sl v) f idk v := by
  have hnr : ¬ memoSok t r := by
    rintro ⟨m, h1, h2⟩; rw [hmo] at h1; cases h1; exact hns h2
  have U := updSt_upd t r f sl v
  have hm' : (updSt t r f sl v).memos r = t.memos r := rfl
  have hsm' : (updSt t r f sl v).smemos r = t.smemos r := rfl
  have hsl' : (updSt t r f sl v).slots r = some (updSlot t f sl v) := by
    simp [updSt]
  obtain ⟨s1, s2, _, s4⟩ := hI.slot r sl hsl
  -- the new stamp
  have hlb : sl.fca ≤ (if sl.v ≠ v ∨ f.dur < sl.dur then f.ca else sl.fca) := by
    by_cases hc : sl.v ≠ v ∨ f.dur < sl.dur
    · rw [if_pos hc]; have := (hdiv hc).2.lt; omega
    · rw [if_neg hc]; exact Nat.le_refl _
  have hub : (if sl.v ≠ v ∨ f.dur < sl.dur then f.ca else sl.fca) ≤ t.cur := by
    split
    · exact fi.ca_le
    · exact s1
  -- (F) for any owner
  have hF : ∀ m, ObsOk t m → ∀ o, o ∈ m.obs → o.out = false → o.dep = .field r → ∀ L, m.dur ≤ L →
      ObsAt t m.va L o →
      ((⟨v, none⟩ : Val) = o.val ∧ L ≤ f.dur) ∨
        Wit t L m.va (if sl.v ≠ v ∨ f.dur < sl.dur then f.ca else sl.fca) := by
    intro m ok o ho hout e L hL a
    have hx : depInfo t o.dep = some ⟨⟨sl.v, none⟩, sl.fca, sl.dur⟩ := by rw [e]; simp [depInfo, hsl]
    rcases a.iv _ hx with ⟨a1, a2⟩ | a1
    · by_cases hc : sl.v ≠ v ∨ f.dur < sl.dur
      · rw [if_pos hc]
        right
        have W := (hdiv hc).2
        refine wit_transfer ok hL (Nat.le_trans a2 hdur) W ?_
        intro w d hw hd hlt
        exact ok.ordw o r mo ho hout (Or.inl e) hmo w d hw (Nat.le_trans hmoPL hd) hlt
      · left
        have h1 : sl.v = v := Classical.byContradiction fun h => hc (Or.inl h)
        have h2 : sl.dur ≤ f.dur := Nat.le_of_not_lt fun h => hc (Or.inr h)
        exact ⟨by rw [← a1, h1], Nat.le_trans a2 h2⟩
    · exact Or.inr (a1.mono hlb)
  have hLB : ∀ va L o, ObsAt t va L o → (o.dep = .field r ∨ o.dep = .spec r) →
      (∀ sl0, t.slots r = some sl0 → sl0.fca ≤ (if sl.v ≠ v ∨ f.dur < sl.dur then f.ca else sl.fca)) ∧
      (t.slots r = none → Wit t L va (if sl.v ≠ v ∨ f.dur < sl.dur then f.ca else sl.fca)) := by
    intro va L o _ _
    refine ⟨fun sl0 h => ?_, fun h => ?_⟩
    · rw [hsl] at h; cases h; exact hlb
    · rw [hsl] at h; cases h
  refine ⟨?_, U, hm', hsm', ⟨_, hsl', hk, rfl, rfl, Nat.le_refl _, ?_⟩⟩
  · refine create_inv hI U hm' hsm' hI.pn hsl' rfl ⟨hub, Nat.le_trans s2 hlb, fi.dur3⟩ hnr ?_ ?_
    · intro q m _ hm
      have ok := (hI.node q m hm).obs
      exact slot_obsTr U hm' hsm' hsl' hLB (hF m ok) ok.ca_va
    · intro D hD ho
      have okS := hI.smemo r D hD
      obtain ⟨okD, _⟩ := okS.derived ho
      refine obsOk_upd U (updR_same hm' hsm') hI okD ?_ ?_
      · intro hs o hmem hout hd x hx
        have e : o.dep = .field r := by
          rcases (okS.dshape ho o hmem).2 with e | ⟨i, e⟩
          · exact e
          · rw [e] at hd; rcases hd with h | h | h <;> cases h
        rw [e] at hx ⊢
        simp only [depInfo, hsl, Option.map_some, Option.some.injEq] at hx
        subst hx
        refine ⟨⟨⟨(updSlot t f sl v).v, none⟩, (updSlot t f sl v).fca, (updSlot t f sl v).dur⟩,
          by simp only [depInfo, hsl', Option.map_some], ?_⟩
        simp only [updSlot]
        by_cases hc : sl.v ≠ v ∨ f.dur < sl.dur
        · exfalso
          have W := (hdiv hc).2
          have hxx : depInfo t o.dep = some ⟨⟨sl.v, none⟩, sl.fca, sl.dur⟩ := by rw [e]; simp [depInfo, hsl]
          have hw : Wit t D.dur D.va t.cur := by
            rcases (okD.iv o hmem hout).iv _ hxx with ⟨_, a2⟩ | a1
            · refine (wit_transfer okD (Nat.le_refl _) (Nat.le_trans a2 hdur) W ?_).mono fi.ca_le
              intro w d hw hd hlt
              exact okD.ordw o r mo hmem hout (Or.inl e) hmo w d hw (Nat.le_trans hmoPL hd) hlt
            · exact a1.mono s1
          exact not_sok_of_wit hI okD.va_cur hw hs
        · rw [if_neg hc]; exact Nat.le_refl _
      · intro o hmem hout hd L hL a
        have hL' : D.dur ≤ L := by
          rcases hL with h | h
          · rw [h]; exact Nat.le_refl _
          · rw [h.1]; exact okD.dur3
        exact slot_obsAt U hm' hsm' hsl' (hLB D.va L o a) (fun e => hF D okD o hmem hout e L hL' a) hd a
  · by_cases hc : sl.v ≠ v ∨ f.dur < sl.dur
    · left; simp only [updSlot, if_pos hc]; exact Nat.le_refl _
    · right; exact ⟨sl, hsl, by simp only [updSlot, if_neg hc]⟩

theorem allocSt_slot (t : State) (r : Nat) (f : Frame) (idk v : Nat) : (allocSt t r f idk v).slots r =
    some { gen := t.nextGen, k := idk, v := v, fca := f.ca, dur := f.dur, upd := t.cur } := by
  simp [allocSt]

/-- the `create` step when the node has an old memo -/
theorem create_some {P idOf r NB0 t mo Ro PL C f idk v k} (hI : Inv P idOf t)
    (OF : OldF P idOf NB0 t r mo Ro PL) (hns : ¬ SOK t mo) (fi : FrOk P r t f)
    (hseed : f.seed = mo.ts) (hidk : idk = idOf r)
    (T : Trk idOf r mo Ro NB0 PL C t f (.create idk v k) none none)
    (hbusy : NB0 → ¬ Busy t r) :
    CrOut P idOf r t (newStruct t r f idk v).1 f idk v := by
  have hmo := OF.memo
  have hnr : ¬ memoSok t r := by
    rintro ⟨m, h1, h2⟩; rw [hmo] at h1; cases h1; exact hns h2
  have okmo := hI.node r mo hmo
  cases hro : Ro.ts with
  | none =>
    obtain ⟨hsl, hsm⟩ := OF.tnone hro
    rw [newStruct_alloc hsl]
    have W : NB0 ∧ Wit t PL mo.va f.ca := by
      rcases T with ⟨orem, a, _, _⟩ | w
      · have := (fol_create a).1; rw [hro] at this; cases this
      · exact w
    have hlt : mo.ca ≤ f.ca := by have := W.2.lt; have := okmo.obs.ca_va; omega
    apply alloc_step hI hsl hsm hnr fi
    intro q m _ hm
    have ok := (hI.node q m hm).obs
    refine slot_obsTr (alloc_upd t r f idk v) rfl (by rw [hsm]; simp [allocSt]) (allocSt_slot t r f idk v) ?_ ?_
      ok.ca_va
    · intro va L o a hd
      refine ⟨?_, fun _ => (a.dead r mo hd hsl hmo).mono hlt⟩
      intro sl h; rw [hsl] at h; cases h
    · intro o _ _ e L _ a
      exact Or.inr ((a.dead r mo (Or.inl e) hsl hmo).mono hlt)
  | some kv =>
    obtain ⟨k0, v0⟩ := kv
    obtain ⟨sl, hsl, hk, hv, hfca, hdur⟩ := OF.tsome k0 v0 hro
    have hk' : sl.k = idk := by rw [hk, OF.kid k0 v0 hro, hidk]
    obtain ⟨g, hg⟩ : ∃ g, f.seed = some g := by
      have h1 := OF.tsSome
      rw [hro] at h1
      rw [hseed]
      cases h2 : mo.ts with
      | none => rw [h2] at h1; cases h1
      | some g => exact ⟨g, rfl⟩
    rw [newStruct_upd hg hsl]
    by_cases hlock : sl.upd = t.cur
    · rw [if_pos hlock]
      have hb : Busy t r := ⟨sl, hsl, hlock, hnr⟩
      rcases T with ⟨orem, a, hPL, _⟩ | w
      · have e := (fol_create a).1
        rw [hro] at e
        cases e
        exact ⟨hI, Upd.refl r t, rfl, rfl, ⟨sl, hsl, hk, hv, hlock, Nat.le_trans hdur hPL, Or.inr ⟨sl, hsl, rfl⟩⟩⟩
      · exact absurd hb (hbusy w.1)
    · rw [if_neg hlock]
      refine upd_step (NB0 := NB0) hI hmo hns hsl hk' hfca hdur OF.durPL fi ?_
      intro hc
      rcases T with ⟨orem, a, hPL, _⟩ | w
      · exfalso
        have e := (fol_create a).1
        rw [hro] at e
        cases e
        rcases hc with hc | hc
        · exact hc hv
        · omega
      · exact w

/-- the `create` step when the node has no memo: there is no struct and nobody observes one -/
theorem create_none {P idOf r t f idk v} (hI : Inv P idOf t) (hm : t.memos r = none) (hnb : ¬ Busy t r)
    (fi : FrOk P r t f) : CrOut P idOf r t (newStruct t r f idk v).1 f idk v := by
  obtain ⟨hsl, hsm⟩ := hI.nonode r hm hnb
  have hnr : ¬ memoSok t r := by
    rintro ⟨m, h1, _⟩; rw [hm] at h1; cases h1
  rw [newStruct_alloc hsl]
  apply alloc_step hI hsl hsm hnr fi
  intro q m _ hq
  have ok := hI.node q m hq
  apply obsTr_off
  intro o ho hout hd
  rcases hd with e | e | e
  · obtain ⟨m', h', _⟩ := ok.obs.i5q o r ho hout e
    rw [hm] at h'; cases h'
  · obtain ⟨mc, h'⟩ := ok.hmemo o r ho hout (Or.inl e)
    rw [hm] at h'; cases h'
  · obtain ⟨mc, h'⟩ := ok.hmemo o r ho hout (Or.inr e)
    rw [hm] at h'; cases h'

end X
end SalsaVerif.Proofs.CoreSpec
