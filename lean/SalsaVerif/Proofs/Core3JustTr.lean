/-
  Core3 engine (stage S3, invariant `InvE`): what the event trace of one `fetch` says (used by
  Props/C03Core3, Props/C04).  Part 1: the predicates and their algebra.

  `EdgeCh s s' rev d`: the recorded edge `d` answered "changed since `rev`" — read off the state `s`
  in which the question was asked (or an earlier one of the same revision) and a state `s'` after
  the answer:
    * an input written after `rev`;
    * a query whose memo, after its own refresh in the current revision, has `changed_at > rev`;
    * a query whose memo was stale, failed the shallow test, had its value evicted and failed deep
      verification (one of ITS recorded edges answered "changed" at its `verified_at`): the answer
      "changed" that `maybe_changed_after` gives without executing.
  `Just3 s s' p`: `exec p` between `s` and `s'` is justified: no memo ∨ value evicted ∨ (stale,
  shallow test failed, and (untracked ∨ a recorded edge answered "changed")).
  `Tr3 P s t`: the events between `s` and `t` (`new`) with
    * every `exec p ∈ new` justified;
    * `nochg`: a memo whose value / stamp / durability / reads differ was executed;
    * `ver`: a stale memo that is verified afterwards was validated or executed;
    * `fresh`: a new memo was executed;
    * `bd`: backdating — a memo that held a value, whose key is not `no_eq`, and that afterwards
      holds an equal value with a durability that is not lower has the same `changed_at`;
    * frame facts (`touched`, `evk`, `stable`, `mono`) that make the above compose.
  Core Lean only.
-/
import SalsaVerif.Proofs.Core3EvictTop
import SalsaVerif.Proofs.Core3Trace

namespace SalsaVerif.Proofs.Core3E
open SalsaVerif.Model.Core3 SalsaVerif.Proofs.Core3

inductive EdgeCh (s s' : State) : Nat → Dep → Prop
  | inp {rev i} : rev < (s'.inp i).ca → EdgeCh s s' rev (.inp i)
  | stamp {rev q m'} : s'.memos q = some m' → m'.va = s'.cur → rev < m'.ca → EdgeCh s s' rev (.qry q)
  | evicted {rev q m o} : s.memos q = some m → m.value = none → m.va < s.cur → m.va < lc s m.dur →
      o ∈ m.obs → o.recd = true → EdgeCh s s' m.va o.dep → EdgeCh s s' rev (.qry q)

/-- `exec p` between `s` and `s'` is justified -/
def Just3 (s s' : State) (p : Nat) : Prop :=
  s.memos p = none ∨
  ∃ m, s.memos p = some m ∧
    (m.value = none ∨
     (m.va ≠ s.cur ∧ ¬ lc s m.dur ≤ m.va ∧
       (m.untracked = true ∨ ∃ o, o ∈ m.obs ∧ o.recd = true ∧ EdgeCh s s' m.va o.dep)))

/-- the frame facts of a piece of a fetch that transport "changed" answers -/
structure Stab3 (t u : State) : Prop where
  cur : u.cur = t.cur
  lch : u.lch = t.lch
  inp : u.inp = t.inp
  mono : ∀ q m, t.memos q = some m → ∃ m', u.memos q = some m' ∧ m.va ≤ m'.va ∧ m.ca ≤ m'.ca
  touched : ∀ q, u.memos q = t.memos q ∨ ∃ m', u.memos q = some m' ∧ m'.va = t.cur
  evk : ∀ q m', u.memos q = some m' → m'.value = none → ∃ m, t.memos q = some m ∧ m.value = none

theorem Stab3.refl (s : State) : Stab3 s s :=
  ⟨rfl, rfl, rfl, fun _ m h => ⟨m, h, Nat.le_refl _, Nat.le_refl _⟩, fun _ => Or.inl rfl,
   fun _ m' h hv => ⟨m', h, hv⟩⟩

theorem Stab3.lc {t u} (h : Stab3 t u) (d : Nat) : lc u d = lc t d := by
  simp [SalsaVerif.Model.Core3.lc, h.cur, h.lch]

/-- a memo verified now stays verified now, its stamp does not decrease -/
theorem Stab3.hotmono {t u} (h : Stab3 t u) {q m} (hm : t.memos q = some m) (hv : m.va = t.cur) :
    ∃ m', u.memos q = some m' ∧ m'.va = u.cur ∧ m.ca ≤ m'.ca := by
  obtain ⟨m', hm', _, hc⟩ := h.mono q m hm
  rcases h.touched q with e | ⟨m2, hm2, hv2⟩
  · rw [e, hm] at hm'; cases hm'
    exact ⟨m, by rw [e]; exact hm, by rw [hv, h.cur], Nat.le_refl _⟩
  · rw [hm'] at hm2; cases hm2
    exact ⟨m', hm', by rw [hv2, h.cur], hc⟩

theorem EdgeCh.right {s t u rev d} (h : Stab3 t u) (hc : EdgeCh s t rev d) : EdgeCh s u rev d := by
  induction hc with
  | inp hlt => exact .inp (by rw [h.inp]; exact hlt)
  | stamp hm hv hlt =>
    obtain ⟨m', hm', hv', hc'⟩ := h.hotmono hm hv
    exact .stamp hm' hv' (Nat.lt_of_lt_of_le hlt hc')
  | evicted hm hval hv hl ho hr _ ih => exact .evicted hm hval hv hl ho hr ih

theorem EdgeCh.left {s t u rev d} (h : Stab3 s t) (hc : EdgeCh t u rev d) : EdgeCh s u rev d := by
  induction hc with
  | inp hlt => exact .inp hlt
  | stamp hm hv hlt => exact .stamp hm hv hlt
  | @evicted rev q m o hm hval hv hl ho hr _ ih =>
    have hs : s.memos q = some m := by
      rcases h.touched q with e | ⟨m', hm', hv'⟩
      · rw [← e]; exact hm
      · rw [hm] at hm'; cases hm'
        rw [hv', h.cur] at hv
        exact absurd hv (Nat.lt_irrefl _)
    exact .evicted hs hval (by rw [← h.cur]; exact hv) (by rw [← h.lc]; exact hl) ho hr ih

theorem Just3.right {s t u p} (h : Stab3 t u) (hj : Just3 s t p) : Just3 s u p := by
  rcases hj with hn | ⟨m, hm, hv | ⟨hv, hl, hu | ⟨o, ho, hr, hc⟩⟩⟩
  · exact Or.inl hn
  · exact Or.inr ⟨m, hm, Or.inl hv⟩
  · exact Or.inr ⟨m, hm, Or.inr ⟨hv, hl, Or.inl hu⟩⟩
  · exact Or.inr ⟨m, hm, Or.inr ⟨hv, hl, Or.inr ⟨o, ho, hr, hc.right h⟩⟩⟩

theorem Just3.left {s t u p} (h : Stab3 s t) (hj : Just3 t u p) : Just3 s u p := by
  rcases hj with hn | ⟨m, hm, hv | ⟨hv, hl, hx⟩⟩
  · left
    cases hs : s.memos p with
    | none => rfl
    | some m0 =>
      obtain ⟨m1, hm1, _⟩ := h.mono p m0 hs
      rw [hn] at hm1; cases hm1
  · obtain ⟨m0, hm0, hv0⟩ := h.evk p m hm hv
    exact Or.inr ⟨m0, hm0, Or.inl hv0⟩
  · right
    have hs : s.memos p = some m := by
      rcases h.touched p with e | ⟨m', hm', hv'⟩
      · rw [← e]; exact hm
      · rw [hm] at hm'; cases hm'
        exact absurd (by rw [hv', h.cur]) hv
    refine ⟨m, hs, Or.inr ⟨by rw [← h.cur]; exact hv, by rw [← h.lc]; exact hl, ?_⟩⟩
    rcases hx with hu | ⟨o, ho, hr, hc⟩
    · exact Or.inl hu
    · exact Or.inr ⟨o, ho, hr, hc.left h⟩

structure TrOK (P : Prog) (s t : State) (new : List Ev) : Prop where
  stab : Stab3 s t
  stable : ∀ q m, s.memos q = some m → m.va = s.cur → m.value ≠ none → t.memos q = some m
  just : ∀ p, .exec p ∈ new → Just3 s t p
  nochg : ∀ p m m', s.memos p = some m → t.memos p = some m' → .exec p ∉ new →
    m'.value = m.value ∧ m'.gval = m.gval ∧ m'.ca = m.ca ∧ m'.dur = m.dur ∧ m'.obs = m.obs ∧
    m'.untracked = m.untracked
  ver : ∀ p m m', s.memos p = some m → m.va ≠ s.cur → t.memos p = some m' → m'.va = s.cur →
    .valid p ∈ new ∨ .exec p ∈ new
  fresh : ∀ p m', s.memos p = none → t.memos p = some m' → .exec p ∈ new
  bd : ∀ p m m', s.memos p = some m → t.memos p = some m' → P.kind p ≠ .noeq → m.value ≠ none →
    m'.value = m.value → m.dur ≤ m'.dur → m'.ca = m.ca

def Tr3 (P : Prog) (s t : State) : Prop := ∃ new, t.trace = s.trace ++ new ∧ TrOK P s t new

theorem Tr3.refl (P : Prog) (s : State) : Tr3 P s s := by
  refine ⟨[], by simp, Stab3.refl s, fun _ _ h _ _ => h, ?_, ?_, ?_, ?_, ?_⟩
  · intro p h; simp at h
  · intro p m m' h h' _; rw [h] at h'; cases h'; exact ⟨rfl, rfl, rfl, rfl, rfl, rfl⟩
  · intro p m m' h hv h' hv'; rw [h] at h'; cases h'; exact absurd hv' hv
  · intro p m' h h'; rw [h] at h'; cases h'
  · intro p m m' h h' _ _ _ _; rw [h] at h'; cases h'; rfl

theorem Stab3.trans {s t u} (a : Stab3 s t) (b : Stab3 t u) : Stab3 s u := by
  refine ⟨b.cur.trans a.cur, b.lch.trans a.lch, b.inp.trans a.inp, ?_, ?_, ?_⟩
  · intro q m hm
    obtain ⟨m1, hm1, a1, b1⟩ := a.mono q m hm
    obtain ⟨m2, hm2, a2, b2⟩ := b.mono q m1 hm1
    exact ⟨m2, hm2, Nat.le_trans a1 a2, Nat.le_trans b1 b2⟩
  · intro q
    rcases b.touched q with e2 | ⟨m', hm', hv'⟩
    · rcases a.touched q with e1 | ⟨m', hm', hv'⟩
      · exact Or.inl (e2.trans e1)
      · exact Or.inr ⟨m', by rw [e2]; exact hm', hv'⟩
    · exact Or.inr ⟨m', hm', by rw [hv', a.cur]⟩
  · intro q m2 hm2 hv2
    obtain ⟨m1, hm1, hv1⟩ := b.evk q m2 hm2 hv2
    exact a.evk q m1 hm1 hv1

theorem Tr3.trans {P s t u} (a : Tr3 P s t) (b : Tr3 P t u) : Tr3 P s u := by
  obtain ⟨n1, e1, a⟩ := a
  obtain ⟨n2, e2, b⟩ := b
  have h1 := a.stab
  have h2 := b.stab
  refine ⟨n1 ++ n2, by rw [e2, e1, List.append_assoc], h1.trans h2, ?_, ?_, ?_, ?_, ?_, ?_⟩
  · intro q m hm hv hn
    exact b.stable q m (a.stable q m hm hv hn) (by rw [hv, h1.cur]) hn
  · intro p hp
    rcases List.mem_append.mp hp with hp | hp
    · exact (a.just p hp).right h2
    · exact (b.just p hp).left h1
  · intro p m m'' hm hm'' hne
    obtain ⟨m', hm', _⟩ := h1.mono p m hm
    have x := a.nochg p m m' hm hm' (fun h => hne (List.mem_append.mpr (Or.inl h)))
    have y := b.nochg p m' m'' hm' hm'' (fun h => hne (List.mem_append.mpr (Or.inr h)))
    exact ⟨y.1.trans x.1, y.2.1.trans x.2.1, y.2.2.1.trans x.2.2.1, y.2.2.2.1.trans x.2.2.2.1,
      y.2.2.2.2.1.trans x.2.2.2.2.1, y.2.2.2.2.2.trans x.2.2.2.2.2⟩
  · intro p m m'' hm hv hm'' hv''
    obtain ⟨m', hm', _⟩ := h1.mono p m hm
    by_cases hv' : m'.va = s.cur
    · rcases a.ver p m m' hm hv hm' hv' with h | h
      · exact Or.inl (List.mem_append.mpr (Or.inl h))
      · exact Or.inr (List.mem_append.mpr (Or.inl h))
    · rcases b.ver p m' m'' hm' (by rw [h1.cur]; exact hv') hm'' (by rw [h1.cur]; exact hv'') with h | h
      · exact Or.inl (List.mem_append.mpr (Or.inr h))
      · exact Or.inr (List.mem_append.mpr (Or.inr h))
  · intro p m'' hn hm''
    cases ht : t.memos p with
    | none => exact List.mem_append.mpr (Or.inr (b.fresh p m'' ht hm''))
    | some m' => exact List.mem_append.mpr (Or.inl (a.fresh p m' hn ht))
  · intro p m m'' hm hm'' hk hval hveq hdur
    obtain ⟨m', hm', _⟩ := h1.mono p m hm
    rcases h1.touched p with e | ⟨m1, hm1, hv1⟩
    · rw [e, hm] at hm'; cases hm'
      exact b.bd p m m'' (by rw [e]; exact hm) hm'' hk hval hveq hdur
    · rw [hm'] at hm1; cases hm1
      have hval' : m'.value ≠ none := by
        intro hn
        obtain ⟨m0, hm0, hv0⟩ := h1.evk p m' hm' hn
        rw [hm] at hm0; cases hm0
        exact hval hv0
      have := b.stable p m' hm' (by rw [hv1, h1.cur]) hval'
      rw [hm''] at this; cases this
      exact a.bd p m m'' hm hm' hk hval hveq hdur

/-- `mark_as_verified`: one `valid r` event, the memo keeps value, stamp, durability and reads -/
theorem tr_mark {P} {s : State} {r : Nat} {m m' : Memo} (hm : s.memos r = some m) (hv : m.va ≠ s.cur)
    (hle : m.va ≤ s.cur) (hva : m'.va = s.cur) (hval : m'.value = m.value) (hg : m'.gval = m.gval)
    (hca : m'.ca = m.ca) (hdur : m'.dur = m.dur) (hobs : m'.obs = m.obs) (hu : m'.untracked = m.untracked) :
    Tr3 P s (emit (setMemo s r m') (.valid r)) := by
  refine ⟨[.valid r], rfl, ⟨rfl, rfl, rfl, ?_, ?_, ?_⟩, ?_, ?_, ?_, ?_, ?_, ?_⟩
  · intro q m0 h0
    by_cases hq : q = r
    · subst hq
      rw [hm] at h0; cases h0
      exact ⟨m', by simp only [emit_memos, setMemo_same], by rw [hva]; exact hle, by rw [hca]; exact Nat.le_refl _⟩
    · exact ⟨m0, by simp only [emit_memos, setMemo_other _ _ _ hq]; exact h0, Nat.le_refl _, Nat.le_refl _⟩
  · intro q
    by_cases hq : q = r
    · subst hq; exact Or.inr ⟨m', by simp only [emit_memos, setMemo_same], hva⟩
    · exact Or.inl (by simp only [emit_memos, setMemo_other _ _ _ hq])
  · intro q m1 h1 hn
    by_cases hq : q = r
    · subst hq
      simp only [emit_memos, setMemo_same] at h1; cases h1
      exact ⟨m, hm, by rw [← hval]; exact hn⟩
    · simp only [emit_memos, setMemo_other _ _ _ hq] at h1
      exact ⟨m1, h1, hn⟩
  · intro q m0 h0 hv0 _
    by_cases hq : q = r
    · subst hq; rw [hm] at h0; cases h0; exact absurd hv0 hv
    · simp only [emit_memos, setMemo_other _ _ _ hq]; exact h0
  · intro p h; simp at h
  · intro p m0 m1 h0 h1 _
    by_cases hpr : p = r
    · subst hpr
      rw [hm] at h0; cases h0
      simp only [emit_memos, setMemo_same] at h1; cases h1
      exact ⟨hval, hg, hca, hdur, hobs, hu⟩
    · simp only [emit_memos, setMemo_other _ _ _ hpr] at h1
      rw [h0] at h1; cases h1; exact ⟨rfl, rfl, rfl, rfl, rfl, rfl⟩
  · intro p m0 m1 h0 hv0 h1 hv1
    by_cases hpr : p = r
    · subst hpr; exact Or.inl (by simp)
    · simp only [emit_memos, setMemo_other _ _ _ hpr] at h1
      rw [h0] at h1; cases h1; exact absurd hv1 hv0
  · intro p m1 hn h1
    by_cases hpr : p = r
    · subst hpr; rw [hm] at hn; cases hn
    · simp only [emit_memos, setMemo_other _ _ _ hpr] at h1
      rw [hn] at h1; cases h1
  · intro p m0 m1 h0 h1 _ _ _ _
    by_cases hpr : p = r
    · subst hpr
      rw [hm] at h0; cases h0
      simp only [emit_memos, setMemo_same] at h1; cases h1
      exact hca
    · simp only [emit_memos, setMemo_other _ _ _ hpr] at h1
      rw [h0] at h1; cases h1; rfl

/-- `record_use` only touches the LRU policy -/
theorem tr_recordUse {P s t} (q : Nat) (h : Tr3 P s t) : Tr3 P s (recordUseFor P t q) := by
  obtain ⟨n, e, ok⟩ := h
  have hm : (recordUseFor P t q).memos = t.memos := recordUse_memos P t q
  have hc : (recordUseFor P t q).cur = t.cur := by unfold recordUseFor; split <;> rfl
  have hl : (recordUseFor P t q).lch = t.lch := by unfold recordUseFor; split <;> rfl
  have hi : (recordUseFor P t q).inp = t.inp := by unfold recordUseFor; split <;> rfl
  refine ⟨n, by rw [recordUseFor_trace]; exact e, ⟨hc.trans ok.stab.cur, hl.trans ok.stab.lch,
    hi.trans ok.stab.inp, ?_, ?_, ?_⟩, ?_, ?_, ?_, ?_, ?_, ?_⟩
  · rw [hm]; exact ok.stab.mono
  · rw [hm]; exact ok.stab.touched
  · rw [hm]; exact ok.stab.evk
  · rw [hm]; exact ok.stable
  · intro p hp
    have hs : Stab3 t (recordUseFor P t q) :=
      ⟨hc, hl, hi, by rw [hm]; exact (Stab3.refl t).mono, by rw [hm]; exact (Stab3.refl t).touched,
       by rw [hm]; exact (Stab3.refl t).evk⟩
    exact (ok.just p hp).right hs
  · rw [hm]; exact ok.nochg
  · rw [hm]; exact ok.ver
  · rw [hm]; exact ok.fresh
  · rw [hm]; exact ok.bd

/-- the trace is ghost: a state that only differs by an emitted event is the same start state -/
theorem tr_of_emit {P t u} (e : Ev) (h : Tr3 P (emit t e) u) :
    ∃ n, u.trace = t.trace ++ e :: n ∧ TrOK P t u n := by
  obtain ⟨n, hn, ok⟩ := h
  have h := ok.stab
  have he : Stab3 t (emit t e) :=
    ⟨rfl, rfl, rfl, fun _ m h => ⟨m, h, Nat.le_refl _, Nat.le_refl _⟩, fun _ => Or.inl rfl,
     fun _ m' h hv => ⟨m', h, hv⟩⟩
  exact ⟨n, by rw [hn]; simp, ⟨h.cur, h.lch, h.inp, h.mono, h.touched, h.evk⟩, ok.stable,
    fun p hp => (ok.just p hp).left he, ok.nochg, ok.ver, ok.fresh, ok.bd⟩

end SalsaVerif.Proofs.Core3E
