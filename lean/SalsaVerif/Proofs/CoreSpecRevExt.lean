/-
  CoreSpec, histories with writes: the frame relation `Ext s t r` of a nested request for keys of
  rank `< r` (what it may change, what it leaves alone), hot dependencies.  Core Lean only.
-/
import SalsaVerif.Proofs.CoreSpecRevInv

namespace SalsaVerif.Proofs.CoreSpec
open SalsaVerif.Model.CoreSpec

/-- the slot up to the read lock -/
def SlotEq (a b : Slot) : Prop := b.gen = a.gen ∧ b.k = a.k ∧ b.v = a.v ∧ b.fca = a.fca ∧ b.dur = a.dur

theorem SlotEq.refl (a : Slot) : SlotEq a a := ⟨rfl, rfl, rfl, rfl, rfl⟩
theorem SlotEq.trans {a b c : Slot} (h1 : SlotEq a b) (h2 : SlotEq b c) : SlotEq a c :=
  ⟨h2.1.trans h1.1, h2.2.1.trans h1.2.1, h2.2.2.1.trans h1.2.2.1, h2.2.2.2.1.trans h1.2.2.2.1,
   h2.2.2.2.2.trans h1.2.2.2.2⟩

/-- verified now (or untouched) -/
def VerEq (cur : Nat) (m m' : Memo) : Prop := m' = m ∨ m' = { m with va := cur }

structure Ext (s t : State) (r : Nat) : Prop where
  cur : t.cur = s.cur
  lch : t.lch = s.lch
  inp : t.inp = s.inp
  wlog : t.wlog = s.wlog
  above_m : ∀ q, r ≤ q → t.memos q = s.memos q
  above_s : ∀ q, r ≤ q → t.slots q = s.slots q
  above_sm : ∀ q, r ≤ q → t.smemos q = s.smemos q
  /-- a memo verified now is left as it is -/
  hot : ∀ q m, s.memos q = some m → m.va = s.cur → t.memos q = some m
  /-- a memo that passes the shallow test is at most marked verified -/
  sok : ∀ q m, s.memos q = some m → SOK s m → ∃ m', t.memos q = some m' ∧ VerEq s.cur m m'
  mono : ∀ q m, s.memos q = some m → ∃ m', t.memos q = some m' ∧ m.va ≤ m'.va
  /-- the struct of a valid creator keeps its fields (it may be read-locked) -/
  slot : ∀ c sl, memoSok s c → s.slots c = some sl → ∃ sl', t.slots c = some sl' ∧ SlotEq sl sl'
  noslot : ∀ c, memoSok s c → s.slots c = none → t.slots c = none
  smhot : ∀ c sm, memoSok s c → s.smemos c = some sm → sm.va = s.cur → t.smemos c = some sm
  smsok : ∀ c sm, memoSok s c → s.smemos c = some sm → SOK s sm →
    ∃ sm', t.smemos c = some sm' ∧ VerEq s.cur sm sm'

theorem VerEq.refl (cur m) : VerEq cur m m := Or.inl rfl

theorem VerEq.trans {cur m1 m2 m3} (h1 : VerEq cur m1 m2) (h2 : VerEq cur m2 m3) : VerEq cur m1 m3 := by
  rcases h1 with e1 | e1 <;> rcases h2 with e2 | e2
  · left; rw [e2, e1]
  · right; rw [e2, e1]
  · right; rw [e2, e1]
  · right; rw [e2, e1]

theorem Ext.lc {s t r} (h : Ext s t r) (d : Nat) : lc t d = lc s d := by
  simp [SalsaVerif.Model.CoreSpec.lc, h.cur, h.lch]

theorem Ext.sokIff {s t r} (h : Ext s t r) (m : Memo) : SOK t m ↔ SOK s m := by
  simp only [SOK, h.cur, h.lc]

theorem Ext.wit {s t r} (h : Ext s t r) (k lo hi : Nat) : Wit t k lo hi ↔ Wit s k lo hi := by
  simp only [Wit, h.wlog]

theorem sok_verEq {s : State} {m m' : Memo} (hs : SOK s m) (h : VerEq s.cur m m') : SOK s m' := by
  rcases h with e | e
  · rw [e]; exact hs
  · rw [e]; exact Or.inl rfl

theorem Ext.memoSok {s t r c} (h : Ext s t r) (hc : memoSok s c) : memoSok t c := by
  obtain ⟨m, hm, hs⟩ := hc
  obtain ⟨m', hm', hv⟩ := h.sok c m hm hs
  exact ⟨m', hm', (h.sokIff m').mpr (sok_verEq hs hv)⟩

theorem Ext.refl (s r) : Ext s s r :=
  ⟨rfl, rfl, rfl, rfl, fun _ _ => rfl, fun _ _ => rfl, fun _ _ => rfl, fun _ _ h _ => h,
   fun _ m h _ => ⟨m, h, Or.inl rfl⟩, fun _ m h => ⟨m, h, Nat.le_refl _⟩,
   fun _ sl _ h => ⟨sl, h, SlotEq.refl sl⟩, fun _ _ h => h, fun _ _ _ h _ => h,
   fun _ sm _ h _ => ⟨sm, h, Or.inl rfl⟩⟩

theorem Ext.trans {s t u r} (h1 : Ext s t r) (h2 : Ext t u r) : Ext s u r := by
  refine ⟨h2.cur.trans h1.cur, h2.lch.trans h1.lch, h2.inp.trans h1.inp, h2.wlog.trans h1.wlog, ?_, ?_, ?_, ?_,
    ?_, ?_, ?_, ?_, ?_, ?_⟩
  · intro q hq; rw [h2.above_m q hq, h1.above_m q hq]
  · intro q hq; rw [h2.above_s q hq, h1.above_s q hq]
  · intro q hq; rw [h2.above_sm q hq, h1.above_sm q hq]
  · intro q m hm hv
    exact h2.hot q m (h1.hot q m hm hv) (by rw [hv, h1.cur])
  · intro q m hm hs
    obtain ⟨m1, a1, a2⟩ := h1.sok q m hm hs
    obtain ⟨m2, b1, b2⟩ := h2.sok q m1 a1 ((h1.sokIff m1).mpr (sok_verEq hs a2))
    rw [h1.cur] at b2
    exact ⟨m2, b1, a2.trans b2⟩
  · intro q m hm
    obtain ⟨m1, a1, a2⟩ := h1.mono q m hm
    obtain ⟨m2, b1, b2⟩ := h2.mono q m1 a1
    exact ⟨m2, b1, Nat.le_trans a2 b2⟩
  · intro c sl hc hsl
    obtain ⟨sl1, a1, a2⟩ := h1.slot c sl hc hsl
    obtain ⟨sl2, b1, b2⟩ := h2.slot c sl1 (h1.memoSok hc) a1
    exact ⟨sl2, b1, a2.trans b2⟩
  · intro c hc hn
    exact h2.noslot c (h1.memoSok hc) (h1.noslot c hc hn)
  · intro c sm hc hsm hv
    exact h2.smhot c sm (h1.memoSok hc) (h1.smhot c sm hc hsm hv) (by rw [hv, h1.cur])
  · intro c sm hc hsm hs
    obtain ⟨sm1, a1, a2⟩ := h1.smsok c sm hc hsm hs
    obtain ⟨sm2, b1, b2⟩ := h2.smsok c sm1 (h1.memoSok hc) a1 ((h1.sokIff sm1).mpr (sok_verEq hs a2))
    rw [h1.cur] at b2
    exact ⟨sm2, b1, a2.trans b2⟩

theorem Ext.weaken {s t r r'} (h : Ext s t r) (hr : r ≤ r') : Ext s t r' :=
  ⟨h.cur, h.lch, h.inp, h.wlog, fun q hq => h.above_m q (Nat.le_trans hr hq),
   fun q hq => h.above_s q (Nat.le_trans hr hq), fun q hq => h.above_sm q (Nat.le_trans hr hq),
   h.hot, h.sok, h.mono, h.slot, h.noslot, h.smhot, h.smsok⟩

/-- a dependency that was read in this revision: it is not touched any more -/
def hotDep (s : State) : Dep → Prop
  | .inp _ => True
  | .qry q => ∃ m, s.memos q = some m ∧ m.va = s.cur
  | .field c => memoSok s c ∧ ∃ sl, s.slots c = some sl
  | .spec c => memoSok s c ∧ ∃ sm, s.smemos c = some sm ∧ sm.va = s.cur

theorem hotDep_ext {s t r d} (h : Ext s t r) (hd : hotDep s d) : hotDep t d := by
  cases d with
  | inp i => trivial
  | qry q =>
    obtain ⟨m, hm, hv⟩ := hd
    exact ⟨m, h.hot q m hm hv, by rw [hv, h.cur]⟩
  | field c =>
    obtain ⟨hc, sl, hsl⟩ := hd
    obtain ⟨sl', a, _⟩ := h.slot c sl hc hsl
    exact ⟨h.memoSok hc, sl', a⟩
  | spec c =>
    obtain ⟨hc, sm, hsm, hv⟩ := hd
    exact ⟨h.memoSok hc, sm, h.smhot c sm hc hsm hv, by rw [hv, h.cur]⟩

theorem depInfo_hot_ext {s t r d x} (h : Ext s t r) (hd : hotDep s d) (hi : depInfo s d = some x) :
    depInfo t d = some x := by
  cases d with
  | inp i => simp only [depInfo] at *; rw [h.inp]; exact hi
  | qry q =>
    obtain ⟨m, hm, hv⟩ := hd
    have := h.hot q m hm hv
    simp only [depInfo, hm, this] at *
    exact hi
  | field c =>
    obtain ⟨hc, sl, hsl⟩ := hd
    obtain ⟨sl', a, _, _, b3, b4, b5⟩ := h.slot c sl hc hsl
    simp only [depInfo, hsl, a, Option.map] at *
    rw [b3, b4, b5]; exact hi
  | spec c =>
    obtain ⟨hc, sm, hsm, hv⟩ := hd
    have := h.smhot c sm hc hsm hv
    simp only [depInfo, hsm, this] at *
    exact hi

theorem sokDep_of_hot {s d} (h : hotDep s d) : sokDep s d := by
  cases d with
  | inp i => trivial
  | qry q => obtain ⟨m, hm, hv⟩ := h; exact ⟨m, hm, Or.inl hv⟩
  | field c =>
    obtain ⟨hc, sl, hsl⟩ := h
    exact ⟨hc, by rw [hsl]; simp⟩
  | spec c =>
    obtain ⟨hc, sm, hsm, hv⟩ := h
    exact ⟨hc, sm, hsm, Or.inl hv⟩

/-- `Busy` above the rank of a nested request is not affected by it -/
theorem busy_ext_above {s t r c} (h : Ext s t r) (hc : r ≤ c) : Busy t c ↔ Busy s c := by
  simp only [Busy, memoSok, h.above_s c hc, h.above_m c hc, h.cur, h.sokIff]

end SalsaVerif.Proofs.CoreSpec
