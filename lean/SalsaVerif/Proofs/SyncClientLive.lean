/-
  C16 client layer: waits descend in rank, `try_claim` never answers `Cycle`, and some step is always
  enabled while a thread is unfinished.
-/
import SalsaVerif.Proofs.SyncClientStep

namespace SalsaVerif.Proofs.SyncClient
open SalsaVerif.Model.SyncDG SalsaVerif.Model.SyncExec SalsaVerif.Model.SyncClient
open SalsaVerif.Proofs.SyncDG SalsaVerif.Proofs.SyncExec

/-- A blocked thread waits for the key it wants, and the thread it waits for holds that key. -/
theorem blocked_on_holder {p : Program} {c : CState} (h : CInv p c) {x y : Nat}
    (he : c.x.base.edges x = some y) :
    ∃ kx, c.want x = some kx ∧ x ∈ c.x.base.qdeps kx ∧ kx ∈ held c y := by
  obtain ⟨kx, hw, hq⟩ := h.blocked x (by simp [he])
  obtain ⟨st, u, hs, ho, _, heu⟩ := h.x.base.w3 x kx hq
  rw [he] at heu
  cases heu
  refine ⟨kx, hw, hq, (h.own y kx).mp ?_⟩
  exact ownedBy_iff.mpr ⟨st, hs, ho⟩

/-- Along a wait chain ending at `t`, the wanted keys have rank above everything `t` wants. -/
theorem path_rank {p : Program} {c : CState} (h : CInv p c) {t k : Nat} (hw : c.want t = some k)
    {x : Nat} (hp : Path c.x.base.edges x t) : ∃ kx, c.want x = some kx ∧ p.rank k < p.rank kx := by
  induction hp with
  | @single a b he =>
    obtain ⟨kx, hwx, _, hh⟩ := blocked_on_holder h he
    exact ⟨kx, hwx, (h.loc b).desc k hw kx hh⟩
  | @cons a m b he _ ih =>
    obtain ⟨km, hwm, hlt⟩ := ih hw
    obtain ⟨kx, hwx, _, hh⟩ := blocked_on_holder h he
    have := (h.loc m).desc km hwm kx hh
    exact ⟨kx, hwx, by omega⟩

/-- For ranked programs the claim of the wanted key is never answered `Cycle`. -/
theorem claim_not_cycle {p : Program} {c : CState} (h : CInv p c) {t k : Nat} {re : Bool}
    (hw : c.want t = some k) {b : State} {ans : Answer}
    (hs : stepA c.x.base (.claim t k re true) = some (b, ans)) :
    ∀ i bb, ans ≠ .claim (.cycle i) bb := by
  intro i bb hans
  obtain ⟨_, _, hcase⟩ := claim_cases h.x.base hs
  cases hcase with
  | claimed ha _ _ _ _ => rw [ha] at hans; cases hans
  | blocked o st ha _ _ _ _ _ _ => rw [ha] at hans; cases hans
  | cycle o st _ hk ho hc =>
    have hown : k ∈ held c o := (h.own o k).mp (ownedBy_iff.mpr ⟨st, hk, ho⟩)
    rcases hc with rfl | hp
    · have := (h.loc o).desc k hw k hown
      omega
    · obtain ⟨ko, hwo, hlt⟩ := path_rank h hw hp
      have := (h.loc o).desc ko hwo k hown
      omega

/-- The key on top of the stack is not being executed unless its frame says so. -/
theorem exec_none {p : Program} {c : CState} (h : CInv p c) {u : Nat} {fr : Frame} {rest : List Frame}
    (hst : c.stack u = fr :: rest) (hn : ¬ (fr.started = true ∧ fr.done = false)) :
    c.x.executing fr.key = none := by
  cases hex : c.x.executing fr.key with
  | none => rfl
  | some u' =>
    have h1 := h.x.owner fr.key u' hex
    have h2 : ownedBy c.x.base fr.key u = true := (h.own u fr.key).mpr (by rw [held_cons hst]; simp)
    have := ownedBy_unique h1 h2
    subst this
    exact absurd (((h.loc u').exec fr (by rw [hst]; simp)).mp hex) hn

/-- Some unfinished thread is not blocked. -/
theorem exists_unblocked {p : Program} {c : CState} (h : CInv p c) {u0 : Nat} (ha : active c u0) :
    ∃ u, active c u ∧ c.x.base.edges u = none := by
  cases he : c.x.base.edges u0 with
  | none => exact ⟨u0, ha, he⟩
  | some v =>
    obtain ⟨w, hp, hw⟩ := blocked_reaches_unblocked h.x.base.g h.b u0 (by simp [he])
    obtain ⟨y, hy⟩ := Path.last hp
    obtain ⟨ky, _, _, hh⟩ := blocked_on_holder h hy
    refine ⟨w, Or.inr ?_, hw⟩
    intro hst
    simp [held, hst] at hh

/-- An unfinished thread that is not blocked has an enabled step. -/
theorem unblocked_enabled {p : Program} {c : CState} (h : CInv p c) {u : Nat} (ha : active c u)
    (he : c.x.base.edges u = none) : ∃ op, (cstep p c op).isSome = true := by
  cases hr : c.x.base.results u with
  | some r =>
    refine ⟨.wake u, ?_⟩
    have hr' : (touch c.x.base u).results u = some r := hr
    simp [cstep, xstep, protoOk, step, stepA, hr']
  | none =>
    have hi : idle c.x.base u = true := idle_iff.mpr ⟨he, hr⟩
    cases hw : c.want u with
    | some k =>
      cases hm : c.x.memo k with
      | true => exact ⟨.hot u, by simp [cstep, hw, hi, hm]⟩
      | false =>
        refine ⟨.tryClaim u, ?_⟩
        obtain ⟨⟨b, ans⟩, hs⟩ := claim_enabled_inv h.x.base h.b u k true true hi
        have hnc := claim_not_cycle h hw hs
        obtain ⟨_, _, hcase⟩ := claim_cases h.x.base hs
        cases hcase with
        | claimed ha' _ _ _ _ => subst ha'; simp [cstep, hw, hs]
        | blocked o st ha' _ _ _ _ _ _ => subst ha'; simp [cstep, hw, hs]
        | cycle o st ha' _ _ _ => exact absurd ha' (hnc _ _)
    | none =>
      cases hst : c.stack u with
      | nil =>
        rcases ha with ha | ha
        · rw [hw] at ha; simp at ha
        · exact absurd hst ha
      | cons fr rest =>
        have hown : ownedBy c.x.base fr.key u = true := (h.own u fr.key).mpr (by rw [held_cons hst]; simp)
        have hfm : fr ∈ c.stack u := by rw [hst]; simp
        have hrel : c.x.executing fr.key = none →
            (xstep c.x (.proto (.release u fr.key .completed))).isSome = true := by
          intro hex
          obtain ⟨s', hs'⟩ := release_enabled_inv h.x.base u fr.key .completed hi hown
          simp [xstep, protoOk, hex, hs']
        cases hfs : fr.started with
        | false =>
          have hex := exec_none h hst (by simp [hfs])
          cases hm : c.x.memo fr.key with
          | true =>
            refine ⟨.recheckHit u, ?_⟩
            have := hrel hex
            cases hx : xstep c.x (.proto (.release u fr.key .completed)) with
            | none => simp [hx] at this
            | some x' => simp [cstep, hst, hfs, hm, hw, hx]
          | false =>
            refine ⟨.execBegin u, ?_⟩
            simp [cstep, hst, hfs, hw, xstep, hown, hi, hm, hex]
        | true =>
          cases hfd : fr.done with
          | true =>
            refine ⟨.release u, ?_⟩
            have := hrel (exec_none h hst (by simp [hfd]))
            cases hx : xstep c.x (.proto (.release u fr.key .completed)) with
            | none => simp [hx] at this
            | some x' => simp [cstep, hst, hfd, hw, hx]
          | false =>
            cases hd : (p.deps fr.key)[fr.pc]? with
            | some d => exact ⟨.requestSub u, by simp [cstep, hst, hi, hfs, hfd, hw, hd]⟩
            | none =>
              refine ⟨.publish u, ?_⟩
              have hlen : (p.deps fr.key).length ≤ fr.pc := by
                rw [List.getElem?_eq_none_iff] at hd; exact hd
              have hex : c.x.executing fr.key = some u := ((h.loc u).exec fr hfm).mpr ⟨hfs, hfd⟩
              simp [cstep, hst, hi, hfs, hfd, hw, hlen, xstep, hex, hown]

end SalsaVerif.Proofs.SyncClient
