/-
  Core3 engine, stage S3b (LRU eviction inside the invariant): the invariant `InvE`, the frame
  relation `ExtE`, memo installation `inv_setMemo`, eviction of a value `inv_evictValue`.

  Differences to the S3a invariant `Inv` (Proofs/Core3Inv.lean):
    * `hasval` / `lruempty` are gone: a tracked memo may have `value = none` (`valg`, `evt`);
      the invariant does not mention the LRU policy at all (any tracked value may disappear).
    * I2 and I10 are replaced by ONE observer clause `iv`: for every observation, EITHER the stored
      value is the recorded one and the durability did not drop, OR there is a relevant write
      `(w,d)`, `dur ≤ d`, `verified_at < w ≤ stamp`.  (I2 follows.)  Unlike I10 this clause says
      nothing about a stamp that rose while value and durability stayed — which is what happens
      when an evicted memo is re-executed and cannot be backdated.
    * I3 is replaced by KA/KB of DESIGN.md §3 (`ka`): a memo that passes the shallow test has all
      stamps and all `deepAt` of its dependencies below its own (semantic) `deepAt`.
    * M4 (`m4`): `changed_at` is at most the largest stamp read (or 1).
  Core Lean only.
-/
import SalsaVerif.Proofs.Core3Inv

namespace SalsaVerif.Proofs.Core3E
open SalsaVerif.Model.Core3 SalsaVerif.Proofs.Core3

/-- a relevant write: level at least `k`, revision in `(lo, hi]` -/
def Wit (s : State) (k lo hi : Nat) : Prop := ∃ w d, (w, d) ∈ s.wlog ∧ k ≤ d ∧ lo < w ∧ w ≤ hi

theorem Wit.mono {s k lo hi hi'} (h : Wit s k lo hi) (hh : hi ≤ hi') : Wit s k lo hi' := by
  obtain ⟨w, d, a, b, c, e⟩ := h
  exact ⟨w, d, a, b, c, Nat.le_trans e hh⟩

theorem Wit.lt {s k lo hi} (h : Wit s k lo hi) : lo < hi := by
  obtain ⟨w, d, _, _, c, e⟩ := h
  exact Nat.lt_of_lt_of_le c e

/-- verified in the current revision and holding a value: such a memo is not touched any more -/
def hotv (s : State) : Dep → Prop
  | .inp _ => True
  | .qry q => ∃ m, s.memos q = some m ∧ m.va = s.cur ∧ m.value ≠ none
  | .cell _ => True

/-- verified in the current revision (the value may be evicted) -/
def hotva (s : State) : Dep → Prop
  | .inp _ => True
  | .qry q => ∃ m, s.memos q = some m ∧ m.va = s.cur
  | .cell _ => True

structure MemoOkE (P : Prog) (s : State) (q : Nat) (m : Memo) : Prop where
  ca_va : m.ca ≤ m.va
  va_cur : m.va ≤ s.cur
  va1 : 1 ≤ m.va
  deep_va : m.deepAt ≤ m.va
  deep1 : 1 ≤ m.deepAt
  dur3 : m.dur ≤ 3
  valg : ∀ v, m.value = some v → v = m.gval
  evt : m.value = none → m.untracked = false
  rep : replay (P.body q) (obsPairs m.obs) = some m.gval
  g6 : m.untracked = true → m.dur = 0
  cellobs : ∀ o c, o ∈ m.obs → o.dep = .cell c →
    m.untracked = true ∧ o.recd = false ∧ (m.va = s.cur → s.cells c = o.val)
  hascell : m.untracked = true → ∃ o c, o ∈ m.obs ∧ o.dep = .cell c
  iv : ∀ o, o ∈ m.obs → ∀ r, depInfo s o.dep = some r →
        (r.val = o.val ∧ m.dur ≤ r.dur) ∨ Wit s m.dur m.va r.ca
  ka : SOK s m → ∀ o, o ∈ m.obs →
        (∀ r, depInfo s o.dep = some r → r.ca ≤ m.deepAt) ∧ sokDep s o.dep ∧
        (∀ q' m', o.dep = .qry q' → s.memos q' = some m' → m'.deepAt ≤ m.deepAt)
  i4 : lc s m.dur ≤ m.deepAt ∨ m.va < lc s m.dur
  i5 : ∀ o q', o ∈ m.obs → o.dep = .qry q' →
        q' < q ∧ ∃ m', s.memos q' = some m' ∧ (o.recd = true → m.deepAt ≤ m'.va)
  i6 : ∀ o, o ∈ m.obs → o.recd = false → ∀ r, depInfo s o.dep = some r → r.val = o.val ∧ 3 ≤ r.dur
  g4 : ∀ w d, (w, d) ∈ s.wlog → m.dur ≤ d → ¬ (m.deepAt < w ∧ w ≤ m.va)
  m4 : m.untracked = false → m.ca ≤ 1 ∨ ∃ o, o ∈ m.obs ∧ ∃ r, depInfo s o.dep = some r ∧ m.ca ≤ r.ca

/-- I2: an observation whose stamp is not above `verified_at` still has its value -/
theorem MemoOkE.i2 {P s q m} (ok : MemoOkE P s q m) : ∀ o, o ∈ m.obs → ∀ r, depInfo s o.dep = some r →
    r.ca ≤ m.va → r.val = o.val ∧ m.dur ≤ r.dur := by
  intro o ho r hi hc
  rcases ok.iv o ho r hi with h | h
  · exact h
  · exact absurd (Nat.lt_of_lt_of_le h.lt hc) (Nat.lt_irrefl _)

/-- I3 -/
theorem MemoOkE.i3 {P s q m} (ok : MemoOkE P s q m) (hs : SOK s m) : ∀ o, o ∈ m.obs →
    (∀ r, depInfo s o.dep = some r → r.ca ≤ m.va) ∧ sokDep s o.dep := by
  intro o ho
  obtain ⟨a, b, _⟩ := ok.ka hs o ho
  exact ⟨fun r hr => Nat.le_trans (a r hr) ok.deep_va, b⟩

structure InvE (P : Prog) (s : State) : Prop where
  cur1 : 1 ≤ s.cur
  lc_le : ∀ d, lc s d ≤ s.cur
  lc_ge1 : ∀ d, 1 ≤ lc s d
  lc_anti : ∀ d, lc s (d + 1) ≤ lc s d
  lc_never : ∀ d, 3 ≤ d → lc s d = 1
  inp_le : ∀ i, (s.inp i).ca ≤ s.cur
  inp_ge1 : ∀ i, 1 ≤ (s.inp i).ca
  wlog_lc : ∀ w d, (w, d) ∈ s.wlog → ∀ k, k ≤ d → w ≤ lc s k
  bumps : ∀ w, 1 < w → w ≤ s.cur → (w, 0) ∈ s.wlog
  memo : ∀ q m, s.memos q = some m → MemoOkE P s q m

theorem lc_mono {P s} (hI : InvE P s) : ∀ d d', d ≤ d' → lc s d' ≤ lc s d := by
  intro d d' h
  induction h with
  | refl => exact Nat.le_refl _
  | step _ ih => exact Nat.le_trans (hI.lc_anti _) ih

structure ExtE (s t : State) (r : Nat) : Prop where
  cur : t.cur = s.cur
  lch : t.lch = s.lch
  inp : t.inp = s.inp
  cells : t.cells = s.cells
  wlog : t.wlog = s.wlog
  above : ∀ q, r ≤ q → t.memos q = s.memos q
  /-- a memo verified now that holds a value is left as it is -/
  stable : ∀ q m, s.memos q = some m → m.va = s.cur → m.value ≠ none → t.memos q = some m
  /-- a memo verified now keeps value and does not lose durability (it may be re-executed
      after an eviction) -/
  stableE : ∀ q m, s.memos q = some m → m.va = s.cur →
    ∃ m', t.memos q = some m' ∧ m'.va = s.cur ∧ m'.gval = m.gval ∧ m.dur ≤ m'.dur
  mono : ∀ q m, s.memos q = some m → ∃ m', t.memos q = some m' ∧ m.va ≤ m'.va ∧ m.ca ≤ m'.ca

theorem ExtE.refl (s r) : ExtE s s r :=
  ⟨rfl, rfl, rfl, rfl, rfl, fun _ _ => rfl, fun _ _ h _ _ => h,
   fun _ m h hv => ⟨m, h, hv, rfl, Nat.le_refl _⟩,
   fun _ m h => ⟨m, h, Nat.le_refl _, Nat.le_refl _⟩⟩

theorem ExtE.trans {s t u r} (h1 : ExtE s t r) (h2 : ExtE t u r) : ExtE s u r := by
  refine ⟨h2.cur.trans h1.cur, h2.lch.trans h1.lch, h2.inp.trans h1.inp, h2.cells.trans h1.cells,
    h2.wlog.trans h1.wlog, ?_, ?_, ?_, ?_⟩
  · intro q hq; rw [h2.above q hq, h1.above q hq]
  · intro q m hm hv hn
    have := h1.stable q m hm hv hn
    exact h2.stable q m this (by rw [hv, h1.cur]) hn
  · intro q m hm hv
    obtain ⟨m1, a1, a2, a3, a4⟩ := h1.stableE q m hm hv
    obtain ⟨m2, b1, b2, b3, b4⟩ := h2.stableE q m1 a1 (by rw [a2, h1.cur])
    exact ⟨m2, b1, by rw [b2, h1.cur], b3.trans a3, Nat.le_trans a4 b4⟩
  · intro q m hm
    obtain ⟨m1, hm1, a1, b1⟩ := h1.mono q m hm
    obtain ⟨m2, hm2, a2, b2⟩ := h2.mono q m1 hm1
    exact ⟨m2, hm2, Nat.le_trans a1 a2, Nat.le_trans b1 b2⟩

theorem ExtE.weaken {s t r r'} (h : ExtE s t r) (hr : r ≤ r') : ExtE s t r' :=
  ⟨h.cur, h.lch, h.inp, h.cells, h.wlog, fun q hq => h.above q (Nat.le_trans hr hq), h.stable, h.stableE, h.mono⟩

theorem ExtE.lc {s t r} (h : ExtE s t r) (d : Nat) : lc t d = lc s d := by
  simp [SalsaVerif.Model.Core3.lc, h.cur, h.lch]

theorem ExtE.sok {s t r} (h : ExtE s t r) (m : Memo) : SOK t m ↔ SOK s m := by
  simp only [SOK, h.cur, h.lc]

theorem ExtE.wit {s t r} (h : ExtE s t r) (k lo hi : Nat) : Wit t k lo hi ↔ Wit s k lo hi := by
  simp only [Wit, h.wlog]

theorem hotv_ext {s t r d} (h : ExtE s t r) (hd : hotv s d) : hotv t d := by
  cases d with
  | cell c => trivial
  | inp i => trivial
  | qry q =>
    obtain ⟨m, hm, hv, hn⟩ := hd
    exact ⟨m, h.stable q m hm hv hn, by rw [hv, h.cur], hn⟩

theorem depInfo_hotv_ext {s t r d x} (h : ExtE s t r) (hd : hotv s d) (hi : depInfo s d = some x) :
    depInfo t d = some x := by
  cases d with
  | cell c => simp [depInfo] at hi
  | inp i => simp only [depInfo] at *; rw [h.inp]; exact hi
  | qry q =>
    obtain ⟨m, hm, hv, hn⟩ := hd
    have := h.stable q m hm hv hn
    simp only [depInfo, hm, this] at *
    exact hi

theorem hotva_of_hotv {s d} (h : hotv s d) : hotva s d := by
  cases d with
  | cell c => trivial
  | inp i => trivial
  | qry q => obtain ⟨m, hm, hv, _⟩ := h; exact ⟨m, hm, hv⟩

theorem sokDep_of_hotva {s d} (h : hotva s d) : sokDep s d := by
  cases d with
  | cell c => trivial
  | inp i => trivial
  | qry q => obtain ⟨m, hm, hv⟩ := h; exact ⟨m, hm, Or.inl hv⟩

/-! ### `lru` and `trace` are not mentioned by the invariant -/

theorem depInfo_frame (s : State) (l tr) (d : Dep) : depInfo { s with lru := l, trace := tr } d = depInfo s d := by
  cases d <;> rfl

theorem sokDep_frame (s : State) (l tr) (d : Dep) : sokDep { s with lru := l, trace := tr } d ↔ sokDep s d := by
  cases d <;> exact Iff.rfl

theorem memoOk_frame {P s q m} (l tr) (ok : MemoOkE P s q m) : MemoOkE P { s with lru := l, trace := tr } q m :=
  ⟨ok.ca_va, ok.va_cur, ok.va1, ok.deep_va, ok.deep1, ok.dur3, ok.valg, ok.evt, ok.rep, ok.g6, ok.cellobs,
   ok.hascell,
   fun o ho r hi => ok.iv o ho r (by rw [← depInfo_frame s l tr]; exact hi),
   fun hs o ho => ⟨fun r hi => (ok.ka hs o ho).1 r (by rw [← depInfo_frame s l tr]; exact hi),
                   (sokDep_frame s l tr _).mpr (ok.ka hs o ho).2.1, (ok.ka hs o ho).2.2⟩,
   ok.i4, ok.i5,
   fun o ho hr r hi => ok.i6 o ho hr r (by rw [← depInfo_frame s l tr]; exact hi),
   ok.g4,
   fun hu => (ok.m4 hu).imp id (fun ⟨o, ho, r, hi, hc⟩ => ⟨o, ho, r, by rw [depInfo_frame s l tr]; exact hi, hc⟩)⟩

theorem inv_frame {P s} (l tr) (h : InvE P s) : InvE P { s with lru := l, trace := tr } :=
  ⟨h.cur1, h.lc_le, h.lc_ge1, h.lc_anti, h.lc_never, h.inp_le, h.inp_ge1, h.wlog_lc, h.bumps,
   fun q m hm => memoOk_frame l tr (h.memo q m hm)⟩

theorem inv_emit {P s} (e : Ev) (h : InvE P s) : InvE P (emit s e) := inv_frame s.lru (s.trace ++ [e]) h

theorem inv_lru {P s} (l) (h : InvE P s) : InvE P { s with lru := l } := inv_frame l s.trace h

theorem ExtE.frame {s t r} (h : ExtE s t r) (l tr) : ExtE s { t with lru := l, trace := tr } r :=
  ⟨h.cur, h.lch, h.inp, h.cells, h.wlog, h.above, h.stable, h.stableE, h.mono⟩

theorem ExtE.emit {s t r} (h : ExtE s t r) (e : Ev) : ExtE s (Model.Core3.emit t e) r := h.frame t.lru _

theorem ext_emit (s e r) : ExtE s (emit s e) r := (ExtE.refl s r).emit e

theorem hotv_emit (s e d) : hotv (emit s e) d ↔ hotv s d := by cases d <;> exact Iff.rfl

/-! ### installing a memo -/

theorem inv_setMemo {P s q m'} (hI : InvE P s) (hok : MemoOkE P (setMemo s q m') q m')
    (hva : m'.va = s.cur)
    (hmono : ∀ mo, s.memos q = some mo → mo.ca ≤ m'.ca)
    (hobs : ∀ p mp o, p ≠ q → s.memos p = some mp → o ∈ mp.obs → o.dep = .qry q →
        ((m'.gval = o.val ∧ mp.dur ≤ m'.dur) ∨ Wit s mp.dur mp.va m'.ca) ∧
        (SOK s mp → m'.ca ≤ mp.deepAt ∧ m'.deepAt ≤ mp.deepAt) ∧
        (o.recd = false → m'.gval = o.val ∧ 3 ≤ m'.dur)) :
    InvE P (setMemo s q m') := by
  refine ⟨hI.cur1, hI.lc_le, hI.lc_ge1, hI.lc_anti, hI.lc_never, hI.inp_le, hI.inp_ge1, hI.wlog_lc,
    hI.bumps, ?_⟩
  intro p mp hmp
  by_cases hpq : p = q
  · subst hpq
    rw [setMemo_same] at hmp
    have e : mp = m' := (Option.some.inj hmp).symm
    rw [e]; exact hok
  · rw [setMemo_other s q m' hpq] at hmp
    have old := hI.memo p mp hmp
    refine ⟨old.ca_va, old.va_cur, old.va1, old.deep_va, old.deep1, old.dur3, old.valg, old.evt, old.rep,
      old.g6, old.cellobs, old.hascell, ?_, ?_, old.i4, ?_, ?_, old.g4, ?_⟩
    · -- iv
      intro o ho r hinfo
      by_cases hdq : o.dep = .qry q
      · rw [hdq] at hinfo
        simp [depInfo] at hinfo
        subst hinfo
        exact (hobs p mp o hpq hmp ho hdq).1
      · rw [depInfo_setMemo_other s q m' hdq] at hinfo
        exact old.iv o ho r hinfo
    · -- ka
      intro hs o ho
      have hs' : SOK s mp := hs
      obtain ⟨a, b, c⟩ := old.ka hs' o ho
      by_cases hdq : o.dep = .qry q
      · obtain ⟨k1, k2⟩ := (hobs p mp o hpq hmp ho hdq).2.1 hs'
        refine ⟨?_, ?_, ?_⟩
        · intro r hinfo
          rw [hdq] at hinfo
          simp [depInfo] at hinfo
          subst hinfo
          exact k1
        · rw [hdq]
          exact ⟨m', setMemo_same _ _ _, Or.inl hva⟩
        · intro q' m2 hd hm2
          rw [hdq] at hd
          cases hd
          rw [setMemo_same] at hm2
          cases hm2
          exact k2
      · refine ⟨?_, (sokDep_setMemo_other s q m' hdq).mpr b, ?_⟩
        · intro r hinfo
          rw [depInfo_setMemo_other s q m' hdq] at hinfo
          exact a r hinfo
        · intro q' m2 hd hm2
          have hne : q' ≠ q := fun e => hdq (by rw [hd, e])
          rw [setMemo_other s q m' hne] at hm2
          exact c q' m2 hd hm2
    · -- i5
      intro o q' ho hd
      obtain ⟨hlt, m2, hm2, hrec⟩ := old.i5 o q' ho hd
      refine ⟨hlt, ?_⟩
      by_cases hq' : q' = q
      · subst hq'
        refine ⟨m', setMemo_same _ _ _, ?_⟩
        intro _
        rw [hva]; exact Nat.le_trans old.deep_va old.va_cur
      · exact ⟨m2, by rw [setMemo_other s q m' hq']; exact hm2, hrec⟩
    · -- i6
      intro o ho hr r hinfo
      by_cases hdq : o.dep = .qry q
      · rw [hdq] at hinfo
        simp [depInfo] at hinfo
        subst hinfo
        exact (hobs p mp o hpq hmp ho hdq).2.2 hr
      · rw [depInfo_setMemo_other s q m' hdq] at hinfo
        exact old.i6 o ho hr r hinfo
    · -- m4
      intro hu
      rcases old.m4 hu with h | ⟨o, ho, r, hinfo, hc⟩
      · exact Or.inl h
      · right
        by_cases hdq : o.dep = .qry q
        · rw [hdq] at hinfo
          cases hmo : s.memos q with
          | none => simp [depInfo, hmo] at hinfo
          | some mo =>
            simp only [depInfo, hmo, Option.map, Option.some.injEq] at hinfo
            subst hinfo
            exact ⟨o, ho, ⟨m'.gval, m'.ca, m'.dur⟩, by rw [hdq]; simp [depInfo],
              Nat.le_trans hc (hmono mo hmo)⟩
        · exact ⟨o, ho, r, by rw [depInfo_setMemo_other s q m' hdq]; exact hinfo, hc⟩

/-- observers are unaffected when value and stamp stay and the durability does not drop -/
theorem hobs_same {P s q mo} (hI : InvE P s) (hmo : s.memos q = some mo) (m' : Memo)
    (hv : m'.gval = mo.gval) (hc : m'.ca = mo.ca) (hd : mo.dur ≤ m'.dur)
    (hdeep : m'.deepAt = mo.deepAt ∨ ¬ SOK s mo) :
    ∀ p mp o, p ≠ q → s.memos p = some mp → o ∈ mp.obs → o.dep = .qry q →
        ((m'.gval = o.val ∧ mp.dur ≤ m'.dur) ∨ Wit s mp.dur mp.va m'.ca) ∧
        (SOK s mp → m'.ca ≤ mp.deepAt ∧ m'.deepAt ≤ mp.deepAt) ∧
        (o.recd = false → m'.gval = o.val ∧ 3 ≤ m'.dur) := by
  intro p mp o _ hmp ho hdq
  have ok := hI.memo p mp hmp
  have hinfo : depInfo s o.dep = some ⟨mo.gval, mo.ca, mo.dur⟩ := by rw [hdq]; simp [depInfo, hmo]
  refine ⟨?_, ?_, ?_⟩
  · rcases ok.iv o ho _ hinfo with ⟨a, b⟩ | h
    · exact Or.inl ⟨by rw [hv]; exact a, Nat.le_trans b hd⟩
    · right; rw [hc]; exact h
  · intro hs
    obtain ⟨a, b, c⟩ := ok.ka hs o ho
    rw [hc]
    refine ⟨a _ hinfo, ?_⟩
    rcases hdeep with h | h
    · rw [h]; exact c q mo hdq hmo
    · rw [hdq] at b
      obtain ⟨m2, hm2, hs2⟩ := b
      rw [hmo] at hm2; cases hm2
      exact absurd hs2 h
  · intro hr
    obtain ⟨a, b⟩ := ok.i6 o ho hr _ hinfo
    exact ⟨by rw [hv]; exact a, Nat.le_trans b hd⟩

/-! ### evicting a value -/

theorem memoOk_evicted {P s q m} (ok : MemoOkE P s q m) (hu : m.untracked = false) :
    MemoOkE P s q { m with value := none } :=
  ⟨ok.ca_va, ok.va_cur, ok.va1, ok.deep_va, ok.deep1, ok.dur3, fun v h => (by cases h), fun _ => hu, ok.rep,
   ok.g6, ok.cellobs, ok.hascell, ok.iv, ok.ka, ok.i4, ok.i5, ok.i6, ok.g4, ok.m4⟩

theorem depInfo_evict {s : State} {q m} (hm : s.memos q = some m) (d : Dep) :
    depInfo (setMemo s q { m with value := none }) d = depInfo s d := by
  cases d with
  | cell c => rfl
  | inp i => rfl
  | qry p =>
    by_cases hp : p = q
    · subst hp; simp [depInfo, hm]
    · exact depInfo_setMemo_other s q _ (fun e => hp (by cases e; rfl))

theorem sokDep_evict {s : State} {q m} (hm : s.memos q = some m) (d : Dep) :
    sokDep (setMemo s q { m with value := none }) d ↔ sokDep s d := by
  cases d with
  | cell c => exact Iff.rfl
  | inp i => exact Iff.rfl
  | qry p =>
    by_cases hp : p = q
    · subst hp
      simp only [sokDep, setMemo_same, hm, Option.some.injEq]
      constructor
      · rintro ⟨m2, e, h⟩; subst e; exact ⟨m, rfl, h⟩
      · rintro ⟨m2, e, h⟩; subst e; exact ⟨_, rfl, h⟩
    · exact sokDep_setMemo_other s q _ (fun e => hp (by cases e; rfl))

/-- lookups after the eviction: the same memo up to `value` -/
theorem memos_evict {s : State} {q m} (hm : s.memos q = some m) (p : Nat) (mp : Memo)
    (h : (setMemo s q { m with value := none }).memos p = some mp) :
    ∃ mp0, s.memos p = some mp0 ∧ mp.va = mp0.va ∧ mp.deepAt = mp0.deepAt ∧
      (mp = mp0 ∨ (p = q ∧ mp0 = m ∧ mp = { m with value := none })) := by
  by_cases hp : p = q
  · subst hp
    rw [setMemo_same] at h
    cases h
    exact ⟨m, hm, rfl, rfl, Or.inr ⟨rfl, rfl, rfl⟩⟩
  · rw [setMemo_other s q _ hp] at h
    exact ⟨mp, h, rfl, rfl, Or.inl rfl⟩

theorem memos_evict_ex {s : State} {q m} (hm : s.memos q = some m) (p : Nat) (mp0 : Memo)
    (h : s.memos p = some mp0) :
    ∃ mp, (setMemo s q { m with value := none }).memos p = some mp ∧ mp.va = mp0.va := by
  by_cases hp : p = q
  · subst hp
    rw [hm] at h; cases h
    exact ⟨_, setMemo_same _ _ _, rfl⟩
  · exact ⟨mp0, by rw [setMemo_other s q _ hp]; exact h, rfl⟩

theorem memoOk_evict_state {P s q m p mp} (hm : s.memos q = some m) (ok : MemoOkE P s p mp) :
    MemoOkE P (setMemo s q { m with value := none }) p mp := by
  refine ⟨ok.ca_va, ok.va_cur, ok.va1, ok.deep_va, ok.deep1, ok.dur3, ok.valg, ok.evt, ok.rep, ok.g6,
    ok.cellobs, ok.hascell, ?_, ?_, ok.i4, ?_, ?_, ok.g4, ?_⟩
  · intro o ho r hi
    rw [depInfo_evict hm] at hi
    exact ok.iv o ho r hi
  · intro hs o ho
    obtain ⟨a, b, c⟩ := ok.ka hs o ho
    refine ⟨fun r hi => a r (by rw [← depInfo_evict hm]; exact hi), (sokDep_evict hm _).mpr b, ?_⟩
    intro q' m2 hd hm2
    obtain ⟨m0, h0, _, e, _⟩ := memos_evict hm q' m2 hm2
    rw [e]; exact c q' m0 hd h0
  · intro o q' ho hd
    obtain ⟨hlt, m2, hm2, hr⟩ := ok.i5 o q' ho hd
    obtain ⟨m3, hm3, e⟩ := memos_evict_ex hm q' m2 hm2
    exact ⟨hlt, m3, hm3, fun h => by rw [e]; exact hr h⟩
  · intro o ho hr r hi
    rw [depInfo_evict hm] at hi
    exact ok.i6 o ho hr r hi
  · intro hu
    rcases ok.m4 hu with h | ⟨o, ho, r, hi, hc⟩
    · exact Or.inl h
    · exact Or.inr ⟨o, ho, r, by rw [depInfo_evict hm]; exact hi, hc⟩

theorem inv_evictValue {P s} (hI : InvE P s) (q : Nat) : InvE P (evictValue s q) := by
  unfold evictValue
  cases hm : s.memos q with
  | none => exact hI
  | some m =>
    simp only
    by_cases hu : m.untracked = true
    · rw [if_pos hu]; exact hI
    · rw [if_neg hu]
      have hu' : m.untracked = false := by cases h : m.untracked <;> simp_all
      refine ⟨hI.cur1, hI.lc_le, hI.lc_ge1, hI.lc_anti, hI.lc_never, hI.inp_le, hI.inp_ge1, hI.wlog_lc,
        hI.bumps, ?_⟩
      intro p mp hmp
      obtain ⟨mp0, h0, _, _, e⟩ := memos_evict hm p mp hmp
      have ok0 := memoOk_evict_state (q := q) (m := m) hm (hI.memo p mp0 h0)
      rcases e with e | ⟨e1, e2, e3⟩
      · rw [e]; exact ok0
      · subst e1; subst e2; rw [e3]
        exact memoOk_evicted ok0 hu'

end SalsaVerif.Proofs.Core3E
