/-
  Reachability wrappers: the invariants of Proofs/SyncDG*.lean for states reached by `run` / `grun` /
  `runC` from `init`, and small unfolding lemmas used by Props/C19.lean.
-/
import SalsaVerif.Proofs.SyncDGWake

namespace SalsaVerif.Proofs.SyncDG
open SalsaVerif.Model.SyncDG

theorem reach_basic {ops : List Op} {s : State} (hb : basicOps ops = true)
    (h : run init ops = some s) : PInvB s := by
  refine run_basic ops init s PInvB_init ?_ h
  intro op hop
  exact List.all_eq_true.mp hb op hop


theorem reach_full {ops : List Op} {s : State} (h : run init ops = some s) : GInv s [] :=
  run_full ops init s GInv_init h

theorem greach_full {ops : List GOp} {s : State} (h : grun init ops = some s) : GInv s [] :=
  grun_full ops init s GInv_init h


theorem w1_of_ginv {s : State} (hg : GInv s []) (t : Nat) :
    ((s.edges t).isSome ↔ ∃ k, t ∈ s.qdeps k) ∧
    (∀ k k', t ∈ s.qdeps k → t ∈ s.qdeps k' → k = k') ∧
    (∀ k, (s.qdeps k).count t ≤ 1) := by
  refine ⟨⟨fun he => ?_, fun ⟨k, hk⟩ => hg.mem_blocked t k hk⟩, hg.unique t, fun k => ?_⟩
  · rcases hg.blocked_mem t he with hk | hl
    · exact hk
    · simp at hl
  · exact List.nodup_iff_count.mp (hg.nodup k) t


/-- `runC` is `run` plus the client check, so everything proved for `run` holds for `runC` runs. -/
theorem runC_run : ∀ (ops : List Op) (s s' : State), runC s ops = some s' → run s ops = some s' := by
  intro ops
  induction ops with
  | nil => intro s s' h; simpa [runC, run] using h
  | cons op ops ih =>
    intro s s' h
    unfold runC at h
    unfold run
    cases hc : clientOk s op with
    | false => simp [hc] at h
    | true =>
      simp only [hc, if_true] at h
      cases hs : step s op with
      | none => simp [hs] at h
      | some s1 =>
        simp only [hs] at h ⊢
        exact ih s1 s' h


theorem step_release {s s' : State} {t k : Nat} {r : WaitResult} (hs : step s (.release t k r) = some s') :
    releaseEntry (touch (touch s t) k) k r = some s' := by
  simp only [step, stepA] at hs
  cases hc : (idle (touch (touch s t) k) t && ownedBy (touch (touch s t) k) k t) with
  | false => simp [hc] at hs
  | true =>
    simp only [hc, if_true, Option.map_map, Option.map_eq_some_iff] at hs
    obtain ⟨s2, hr, rfl⟩ := hs
    exact hr

theorem step_releaseSelf {s s' : State} {t k : Nat} (hs : step s (.releaseSelf t k) = some s') :
    releaseSelf (touch (touch s t) k) t k = some s' := by
  simp only [step, stepA] at hs
  cases hc : (idle (touch (touch s t) k) t && ownedBy (touch (touch s t) k) k t) with
  | false => simp [hc] at hs
  | true =>
    simp only [hc, if_true, Option.map_map, Option.map_eq_some_iff] at hs
    obtain ⟨s2, hr, rfl⟩ := hs
    exact hr


theorem reach_binv {ops : List Op} {s : State} (h : run init ops = some s) : GInv s [] ∧ BInv s :=
  run_binv ops init s GInv_init BInv_init h


end SalsaVerif.Proofs.SyncDG
