/-
  W4, part 2: the transfer-map part of `transfer_lock` (`Entry::Vacant`, `Entry::Occupied` with the
  re-pointing loop, registration of the new dependent) keeps `transferred` a forest with
  `transferred_dependents` as its inverse.
-/
import SalsaVerif.Proofs.SyncDGForest

namespace SalsaVerif.Proofs.SyncDG
open SalsaVerif.Model.SyncDG

/-- Paths in a functional graph are linearly ordered. -/
theorem path_determ {e : Nat → Option Nat} {a b : Nat} (p1 : Path e a b) :
    ∀ c, Path e a c → b = c ∨ Path e b c ∨ Path e c b := by
  induction p1 with
  | @single a b h =>
    intro c p2
    obtain ⟨m, hm, hp⟩ := p2.head
    rw [h] at hm; cases hm
    rcases hp with hp | hp
    · exact Or.inl hp
    · exact Or.inr (Or.inl hp)
  | @cons a m b h p ih =>
    intro c p2
    obtain ⟨m', hm, hp⟩ := p2.head
    rw [h] at hm; cases hm
    rcases hp with hp | hp
    · subst hp; exact Or.inr (Or.inr p)
    · exact ih c hp

/-- In an acyclic graph a path to `b` does not use `b`'s own edge. -/
theorem path_avoid {e : Nat → Option Nat} (hac : ∀ x, ¬ Path e x x) {a b : Nat} (p : Path e a b) :
    Path (upd e b none) a b := by
  induction p with
  | @single a b h =>
    have hab : a ≠ b := by rintro rfl; exact hac a (Path.single h)
    exact Path.single (by rw [upd_other _ _ _ _ hab]; exact h)
  | @cons a m b h p ih =>
    have hab : a ≠ b := by rintro rfl; exact hac a (Path.cons h p)
    exact Path.cons (by rw [upd_other _ _ _ _ hab]; exact h) ih

theorem upd_comm {α : Type} (f : Nat → α) {k1 k2 : Nat} (h : k1 ≠ k2) (a b : α) :
    upd (upd f k1 a) k2 b = upd (upd f k2 b) k1 a := by
  funext x
  by_cases h1 : x = k1
  · have h2 : x ≠ k2 := by rw [h1]; exact h
    simp [upd, h1, h]
  · by_cases h2 : x = k2
    · subst h2; simp [upd, Ne.symm h]
    · simp [upd, h1, h2]

/-- The two outcomes of the re-pointing loop. -/
theorem repointLoop_cases {s2 : State} {q ot oo n : Nat} : ∀ (fuel seg : Nat) (s3 : State),
    repointLoop s2 q ot oo n fuel seg = some s3 →
    (s3 = s2 ∧ ¬ TPath s2.transferred seg q) ∨
    (∃ src th, (seg = src ∨ TPath s2.transferred seg src) ∧ s2.transferred src = some (th, q) ∧
      ∃ s2a, tdepsRemove s2 q src = some s2a ∧
        ((oo = n ∧ s3 = { s2a with transferred := upd s2a.transferred src none }) ∨
         (oo ≠ n ∧ tdepsPush { s2a with transferred := upd s2a.transferred src (some (ot, oo)) }
            oo src = some s3))) := by
  intro fuel
  induction fuel with
  | zero => intro seg s3 h; simp [repointLoop] at h
  | succ m ih =>
    intro seg s3 h
    unfold repointLoop at h
    cases hseg : s2.transferred seg with
    | none =>
      simp only [hseg, Option.some.injEq] at h
      refine Or.inl ⟨h.symm, ?_⟩
      intro p
      have := p.source_isSome
      simp [tnext, hseg] at this
    | some pr =>
      obtain ⟨th, nxt⟩ := pr
      simp only [hseg] at h
      by_cases hn : nxt = q
      · subst hn
        simp only [if_true] at h
        cases h1 : tdepsRemove s2 nxt seg with
        | none => simp [h1] at h
        | some s2a =>
          simp only [h1] at h
          refine Or.inr ⟨seg, th, Or.inl rfl, hseg, s2a, h1, ?_⟩
          by_cases hoo : oo = n
          · simp only [hoo, if_true, Option.some.injEq] at h
            exact Or.inl ⟨hoo, h.symm⟩
          · simp only [hoo, if_false] at h
            exact Or.inr ⟨hoo, h⟩
      · simp only [hn, if_false] at h
        rcases ih nxt s3 h with ⟨h1, h2⟩ | ⟨src, th', h1, h2, h3⟩
        · refine Or.inl ⟨h1, ?_⟩
          intro p
          obtain ⟨m', hm, hp⟩ := p.head
          rw [tnext_some hseg] at hm; cases hm
          rcases hp with hp | hp
          · exact hn hp
          · exact h2 hp
        · refine Or.inr ⟨src, th', Or.inr ?_, h2, h3⟩
          rcases h1 with rfl | h1
          · exact Path.single (tnext_some hseg)
          · exact Path.cons (tnext_some hseg) h1

/-- A path that starts at the new owner in the map with `q ↦ n` already written does not need `q`'s edge. -/
theorem reach_without_q {tr : Nat → Option (Nat × Nat)} {q n src nt : Nat}
    (h : n = src ∨ TPath (upd tr q (some (nt, n))) n src) :
    n = src ∨ TPath (upd tr q none) n src := by
  rcases h with h | h
  · exact Or.inl h
  · unfold TPath at h ⊢
    rw [tnext_upd] at h ⊢
    simp only [Option.map_some, Option.map_none] at h ⊢
    rw [← upd_upd (tnext tr) q none (some n)] at h
    rcases path_upd_some h with h1 | ⟨_, h2⟩
    · exact Or.inr h1
    · exact h2

theorem tpath_mono {tr tr' : Nat → Option (Nat × Nat)}
    (h : ∀ k v, tr' k = some v → tr k = some v) {a b : Nat} (p : TPath tr' a b) : TPath tr a b := by
  refine Path.mono ?_ p
  intro x y hxy
  simp only [tnext, Option.map_eq_some_iff] at hxy ⊢
  obtain ⟨v, hv, rfl⟩ := hxy
  exact ⟨v, h x v hv, rfl⟩

theorem registerDependent_link {s4 s5 : State} {q n nt : Nat} (a : State)
    (hr : registerDependent s4 q n = some s5)
    (ht : s4.transferred = upd a.transferred q (some (nt, n))) (hd : s4.tdeps = a.tdeps) :
    s5.transferred = (link a q nt n).transferred ∧ s5.tdeps = (link a q nt n).tdeps := by
  obtain ⟨_, _, rfl⟩ := registerDependent_eq hr
  have : tdepsL s4 n = tdepsL a n := by simp [tdepsL, hd]
  simp only [link]
  exact ⟨ht, by rw [hd, this]⟩

theorem transferEntry_forest {s s4 s5 : State} {q c n nt : Nat} {ch : Bool} (hf : Forest s)
    (hne : n ≠ q) (hcl : s.transferred q = none → ¬ TPath s.transferred n q)
    (he : transferEntry s q c n nt = some (some (s4, ch)))
    (hr : registerDependent s4 q n = some s5) : Forest s5 := by
  unfold transferEntry at he
  cases hq : s.transferred q with
  | none =>
    simp only [hq, Option.some.injEq, Prod.mk.injEq] at he
    obtain ⟨rfl, _⟩ := he
    obtain ⟨e1, e2⟩ := registerDependent_link (nt := nt) s hr rfl rfl
    exact Forest.congr e1 e2 (link_forest hf hq hne (hcl hq))
  | some pr =>
    obtain ⟨ot, oo⟩ := pr
    simp only [hq] at he
    by_cases hsame : ot = nt ∧ oo = n
    · simp [hsame] at he
    · simp only [hsame, if_false] at he
      cases h1 : tdepsRemove s oo q with
      | none => simp [h1] at he
      | some s1 =>
        simp only [h1] at he
        obtain ⟨loo, hloo, rfl⟩ := tdepsRemove_eq h1
        -- `a` = the forest with q's old edge removed
        have hundo : undoTransferLock s q = some
            { s with transferred := upd s.transferred q none,
                     tdeps := upd s.tdeps oo (some (smallSetRemove loo q)) } := by
          simp [undoTransferLock, hq, tdepsRemove, hloo]
        generalize ha : ({ s with transferred := upd s.transferred q none, tdeps := upd s.tdeps oo (some (smallSetRemove loo q)) } : State) = a at hundo
        have hatr : a.transferred = upd s.transferred q none := by subst ha; rfl
        have hatd : a.tdeps = upd s.tdeps oo (some (smallSetRemove loo q)) := by subst ha; rfl
        obtain ⟨fa, _, haq⟩ := undoTransferLock_forest hf hundo
        have hooq : oo ≠ q := by
          rintro rfl
          exact hf.acyclic oo (Path.single (tnext_some hq))
        cases h3 : repointLoop { ({ s with tdeps := upd s.tdeps oo (some (smallSetRemove loo q)) } : State) with
            transferred := upd s.transferred q (some (nt, n)) } q ot oo n (s.bound + 1) n with
        | none => simp [h3] at he
        | some s3 =>
          simp only [h3, Option.some.injEq, Prod.mk.injEq] at he
          obtain ⟨rfl, _⟩ := he
          rcases repointLoop_cases _ _ _ h3 with ⟨rfl, hnp⟩ | ⟨src, th, hreach, hsrc, s2a, hrem, hcase⟩
          · -- the chain from the new owner does not come back to `q`
            simp only at hnp
            obtain ⟨e1, e2⟩ := registerDependent_link (nt := nt) a hr
              (by simp only; rw [hatr, upd_upd]) (by simp only; rw [hatd])
            refine Forest.congr e1 e2 (link_forest fa haq hne ?_)
            intro p
            apply hnp
            rw [hatr] at p
            refine tpath_mono ?_ p
            intro k v hk
            by_cases hkq : k = q
            · subst hkq; simp at hk
            · rw [upd_other _ _ _ _ hkq] at hk ⊢; exact hk
          · -- the chain comes back to `q` through `src → q`
            simp only at hreach hsrc
            have hsrcq : src ≠ q := by
              rintro rfl
              simp only [upd_same, Option.some.injEq, Prod.mk.injEq] at hsrc
              exact hne hsrc.2
            rw [upd_other _ _ _ _ hsrcq] at hsrc
            have hreach' := reach_without_q hreach
            rw [← hatr] at hreach'
            have hreach_s : n = src ∨ TPath s.transferred n src := by
              rcases hreach' with h | h
              · exact Or.inl h
              · rw [hatr] at h; exact Or.inr (tpath_upd_none h)
            -- old picture:  n →* src → q → oo
            have hcyc_n : oo ≠ n := by
              rintro rfl
              apply hf.acyclic q
              rcases hreach_s with rfl | h
              · exact Path.cons (tnext_some hq) (Path.single (tnext_some hsrc))
              · exact Path.cons (tnext_some hq) (h.trans (Path.single (tnext_some hsrc)))
            rcases hcase with ⟨h, _⟩ | ⟨_, hpush⟩
            · exact absurd h hcyc_n
            · obtain ⟨lq, hlq, rfl⟩ := tdepsRemove_eq hrem
              simp only at hlq
              rw [upd_other _ _ _ _ hooq.symm] at hlq
              obtain ⟨l', hl', hnot, rfl⟩ := tdepsPush_eq hpush
              simp only at hl'
              rw [upd_other _ _ _ _ hooq, upd_same] at hl'
              cases hl'
              -- b = a with src's edge removed
              have hasrc : a.transferred src = some (th, q) := by
                rw [hatr, upd_other _ _ _ _ hsrcq]; exact hsrc
              have haqd : a.tdeps q = some lq := by
                rw [hatd, upd_other _ _ _ _ hooq.symm]; exact hlq
              have hundo2 : undoTransferLock a src = some
                  { a with transferred := upd a.transferred src none,
                           tdeps := upd a.tdeps q (some (smallSetRemove lq src)) } := by
                simp [undoTransferLock, hasrc, tdepsRemove, haqd]
              generalize hb : ({ a with transferred := upd a.transferred src none, tdeps := upd a.tdeps q (some (smallSetRemove lq src)) } : State) = b at hundo2
              have hbtr : b.transferred = upd a.transferred src none := by subst hb; rfl
              have hbtd : b.tdeps = upd a.tdeps q (some (smallSetRemove lq src)) := by subst hb; rfl
              obtain ⟨fb, _, hbsrc⟩ := undoTransferLock_forest fa hundo2
              have hbq : b.transferred q = none := by
                rw [hbtr, upd_other _ _ _ _ hsrcq.symm]; exact haq
              have hb_sub : ∀ k v, b.transferred k = some v → s.transferred k = some v := by
                intro k v hk
                rw [hbtr] at hk
                by_cases hks : k = src
                · subst hks; simp at hk
                · rw [upd_other _ _ _ _ hks, hatr] at hk
                  by_cases hkq : k = q
                  · subst hkq; simp at hk
                  · rwa [upd_other _ _ _ _ hkq] at hk
              -- c = link b src → oo
              have hoosrc : oo ≠ src := by
                rintro rfl
                exact hf.acyclic q (Path.cons (tnext_some hq) (Path.single (tnext_some hsrc)))
              have fc : Forest (link b src ot oo) := by
                refine link_forest fb hbsrc hoosrc ?_
                intro p
                have p' : TPath s.transferred oo src := tpath_mono hb_sub p
                exact hf.acyclic q (Path.cons (tnext_some hq) (p'.trans (Path.single (tnext_some hsrc))))
              have hcq : (link b src ot oo).transferred q = none := by
                simp only [link]; rw [upd_other _ _ _ _ hsrcq.symm]; exact hbq
              -- d = link c q → n
              have fd : Forest (link (link b src ot oo) q nt n) := by
                refine link_forest fc hcq hne ?_
                intro p
                unfold TPath at p
                simp only [link] at p
                rw [tnext_upd] at p
                simp only [Option.map_some] at p
                rcases path_upd_some p with p1 | ⟨_, p2⟩
                · -- a path n →* q inside b, but in b the chain from n stops at src
                  have hbsrc' : tnext b.transferred src = none := tnext_none hbsrc
                  have hbq' : tnext b.transferred q = none := tnext_none hbq
                  rcases hreach' with rfl | hr'
                  · have := p1.source_isSome
                    simp [hbsrc'] at this
                  · have hr'' : Path (tnext b.transferred) n src := by
                      rw [hbtr, tnext_upd]
                      exact path_avoid fa.acyclic hr'
                    rcases path_determ p1 src hr'' with h | h | h
                    · exact hsrcq h.symm
                    · have := h.source_isSome; simp [hbq'] at this
                    · have := h.source_isSome; simp [hbsrc'] at this
                · rcases p2 with rfl | p2
                  · exact hooq rfl
                  · have p' : TPath s.transferred oo q := tpath_mono hb_sub p2
                    exact hf.acyclic q (Path.cons (tnext_some hq) p')
              -- the state the code produced has the same maps as `d`
              obtain ⟨_, _, rfl⟩ := registerDependent_eq hr
              refine Forest.congr ?_ ?_ fd
              · simp only [link]
                rw [hbtr, hatr]
                funext x
                by_cases hxq : x = q
                · subst hxq; simp [upd, hsrcq.symm]
                · by_cases hxs : x = src
                  · subst hxs; simp [upd, hxq]
                  · simp [upd, hxq, hxs]
              · have hbo : tdepsL b oo = smallSetRemove loo q := by
                  simp [tdepsL, hbtd, hatd, upd_other _ _ _ _ hooq]
                have e3 : upd (upd (upd s.tdeps oo (some (smallSetRemove loo q))) q (some (smallSetRemove lq src))) oo
                    (some (smallSetRemove loo q ++ [src])) = (link b src ot oo).tdeps := by
                  simp only [link]; rw [hbo, hbtd, hatd]
                have e4 : ∀ (X : State), X.tdeps = (link b src ot oo).tdeps → tdepsL X n = tdepsL (link b src ot oo) n := by
                  intro X hX; simp [tdepsL, hX]
                simp only [link] at e3 e4 ⊢
                rw [e3]
                congr 2

end SalsaVerif.Proofs.SyncDG
