/-
  Core3 engine (stage S3a): `eng_ok`, `fetch_sound`, revision bumps, `run_inv`, `c01_s3a`.
  Standing hypothesis of this stage: no query is of kind `lru` (`NoLru P`), hence the LRU set stays
  empty and no value is ever evicted.  Core Lean only.
-/
import SalsaVerif.Proofs.Core3Fetch

namespace SalsaVerif.Proofs.Core3
open SalsaVerif.Model.Core3
open SalsaVerif.Model.Lru (Lru forEachEvicted setCapacity evictLoop recordUse)

def NoLru (P : Prog) : Prop := ∀ q, P.kind q ≠ .lru

theorem recordUseFor_noLru {P} (hK : NoLru P) (s : State) (q : Nat) : recordUseFor P s q = s := by
  simp [recordUseFor, hK q]

theorem mcaStep_eq_refresh (fe : FetchFn) (mc : McaFn) (P : Prog) (hK : NoLru P) (s : State) (r rev : Nat)
    (m : Memo) (v : Nat) (hm : s.memos r = some m) (hv : m.value = some v) :
    mcaStep fe mc P s r rev =
      ((refreshStep fe mc P s r).1, decide ((refreshStep fe mc P s r).2.ca > rev)) := by
  simp only [mcaStep, refreshStep, hm, hv, recordUseFor_noLru hK]
  split
  · rfl
  · split
    · rfl
    · split <;> rfl

theorem eng_ok {P} (hP : Wf P) (hK : NoLru P) : ∀ r, FetchSpec P r (eng P r).1 ∧ McaSpec P r (eng P r).2 := by
  intro r
  induction r with
  | zero =>
    exact ⟨⟨by intro s q h; omega, by intro s q m h; omega⟩, ⟨by intro s q rev h; omega⟩⟩
  | succ r ih =>
    obtain ⟨hfe, hmc⟩ := ih
    have hstep := fun s hI => refreshStep_ok hP hfe hmc s hI
    constructor
    · constructor
      · intro s q hq hI
        simp only [eng]
        by_cases hlt : q < r
        · simp only [hlt, if_true]
          obtain ⟨a1, a2, a3, a4⟩ := hfe.ok s q hlt hI
          exact ⟨a1, a2.weaken (Nat.le_succ r), a3, a4⟩
        · have : q = r := by omega
          subst this
          simp only [Nat.lt_irrefl, if_false, if_true, fetchStep, recordUseFor_noLru hK]
          exact hstep s hI
      · intro s q m hq hI hm hv
        simp only [eng]
        by_cases hlt : q < r
        · simp only [hlt, if_true]; exact hfe.hot s q m hlt hI hm hv
        · have : q = r := by omega
          subst this
          simp only [Nat.lt_irrefl, if_false, if_true, fetchStep, recordUseFor_noLru hK, refreshStep, hm,
            (hI.memo q m hm).hasval, hv]
    · constructor
      intro s q rev hq hI hex
      simp only [eng]
      by_cases hlt : q < r
      · simp only [hlt, if_true]
        obtain ⟨a1, a2, a3⟩ := hmc.ok s q rev hlt hI hex
        exact ⟨a1, a2.weaken (Nat.le_succ r), a3⟩
      · have : q = r := by omega
        subst this
        simp only [Nat.lt_irrefl, if_false, if_true]
        obtain ⟨m0, hm0⟩ := hex
        rw [mcaStep_eq_refresh _ _ P hK s q rev m0 m0.gval hm0 (hI.memo q m0 hm0).hasval]
        obtain ⟨b1, b2, _, m, b4, b5, _, b7, _⟩ := hstep s hI
        exact ⟨b1, b2, m, b4, b5, by rw [b7]⟩

theorem fetch_sound {P} (hP : Wf P) (hK : NoLru P) (s : State) (q : Nat) (hI : Inv P s) :
    Inv P (fetch P s q).1 ∧ (fetch P s q).2.val = sem P s.inp s.cells q ∧
    (fetch P s q).1.cur = s.cur ∧ (fetch P s q).1.inp = s.inp ∧ (fetch P s q).1.cells = s.cells := by
  obtain ⟨a1, a2, a3, _⟩ := (eng_ok hP hK (q + 1)).1.ok s q (Nat.lt_succ_self q) hI
  exact ⟨a1, a3, a2.cur, a2.inp, a2.cells⟩

/-- Abstract "new revision with a change of level `b`": covers accepted input writes (b = previous
    durability), synthetic writes (b = their durability) and rejected NEVER_CHANGE writes (b = 0). -/
structure Bump (s s' : State) (b : Nat) : Prop where
  b3 : b < 3
  cur : s'.cur = s.cur + 1
  lc : ∀ k, lc s' k = if k ≤ b then s.cur + 1 else lc s k
  memos : s'.memos = s.memos
  wl_old : ∀ e, e ∈ s.wlog → e ∈ s'.wlog
  wl_new : (s.cur + 1, b) ∈ s'.wlog
  wl_inv : ∀ w d, (w, d) ∈ s'.wlog → (w, d) ∈ s.wlog ∨ (w = s.cur + 1 ∧ d ≤ b)
  inp : ∀ j, s'.inp j = s.inp j ∨ ((s'.inp j).ca = s.cur + 1 ∧ (s.inp j).dur ≤ b)
  wl_zero : (s.cur + 1, 0) ∈ s'.wlog
  lru : s'.lru.set = []

theorem depInfo_bump_qry {s s' b} (h : Bump s s' b) (q : Nat) : depInfo s' (.qry q) = depInfo s (.qry q) := by
  simp [depInfo, h.memos]

theorem bump_inv {P s s' b} (hb : Bump s s' b) (hI : Inv P s) : Inv P s' := by
  have hlc_ge : ∀ k, lc s k ≤ lc s' k := by
    intro k; rw [hb.lc k]; split
    · exact Nat.le_trans (hI.lc_le k) (Nat.le_succ _)
    · exact Nat.le_refl _
  refine ⟨by rw [hb.cur]; exact Nat.le_succ_of_le hI.cur1, ?_, ?_, ?_, ?_, ?_, ?_, ?_, ?_, hb.lru, ?_⟩
  · intro d; rw [hb.lc d, hb.cur]; split
    · exact Nat.le_refl _
    · exact Nat.le_trans (hI.lc_le d) (Nat.le_succ _)
  · intro d; exact Nat.le_trans (hI.lc_ge1 d) (hlc_ge d)
  · intro d
    rw [hb.lc (d + 1), hb.lc d]
    by_cases h1 : d + 1 ≤ b
    · have h2 : d ≤ b := by omega
      simp [h1, h2]
    · by_cases h2 : d ≤ b
      · simp only [h1, h2, if_false, if_true]
        exact Nat.le_trans (hI.lc_le _) (Nat.le_succ _)
      · simp only [h1, h2, if_false]; exact hI.lc_anti d
  · intro d hd
    rw [hb.lc d]
    have : ¬ d ≤ b := by have := hb.b3; omega
    simp only [this, if_false]; exact hI.lc_never d hd
  · intro j
    rcases hb.inp j with h | h
    · rw [h, hb.cur]; exact Nat.le_trans (hI.inp_le j) (Nat.le_succ _)
    · rw [h.1, hb.cur]; exact Nat.le_refl _
  · intro j
    rcases hb.inp j with h | h
    · rw [h]; exact hI.inp_ge1 j
    · rw [h.1]; exact Nat.succ_le_succ (Nat.zero_le _)
  · intro w d hw k hk
    rcases hb.wl_inv w d hw with h | ⟨h1, h2⟩
    · exact Nat.le_trans (hI.wlog_lc w d h k hk) (hlc_ge k)
    · rw [hb.lc k, h1]
      have : k ≤ b := Nat.le_trans hk h2
      simp [this]
  · intro w h1 h2
    rw [hb.cur] at h2
    by_cases hw : w = s.cur + 1
    · rw [hw]; exact hb.wl_zero
    · exact hb.wl_old _ (hI.bumps w h1 (by omega))
  · intro q m hm
    rw [hb.memos] at hm
    have ok := hI.memo q m hm
    have hva_lt : m.va < s.cur + 1 := Nat.lt_succ_of_le ok.va_cur
    -- a memo that still passes the shallow test was not affected by the bump
    have hsok : SOK s' m → b < m.dur ∧ SOK s m := by
      intro h
      rcases h with h | h
      · rw [hb.cur] at h; omega
      · rw [hb.lc m.dur] at h
        by_cases hk : m.dur ≤ b
        · simp only [hk, if_true] at h; omega
        · simp only [hk, if_false] at h
          exact ⟨Nat.lt_of_not_le hk, Or.inr h⟩
    -- info of an observation in the new state vs the old one
    have hinfo_cases : ∀ o, o ∈ m.obs → ∀ x, depInfo s' o.dep = some x →
        depInfo s o.dep = some x ∨
        (x.ca = s.cur + 1 ∧ ∃ x0, depInfo s o.dep = some x0 ∧ x0.dur ≤ b ∧ x0.ca ≤ s.cur) := by
      intro o _ x hx
      cases hd : o.dep with
      | cell c => rw [hd] at hx; simp [depInfo] at hx
      | qry q' => rw [hd] at hx; rw [depInfo_bump_qry hb q'] at hx; exact Or.inl hx
      | inp j =>
        rw [hd] at hx
        simp only [depInfo, Option.some.injEq] at hx
        rcases hb.inp j with h | h
        · left; rw [h] at hx; simp only [depInfo]; rw [hx]
        · right
          refine ⟨by rw [← hx]; exact h.1, ⟨(s.inp j).val, (s.inp j).ca, (s.inp j).dur⟩, rfl, h.2, hI.inp_le j⟩
    refine ⟨ok.ca_va, by rw [hb.cur]; exact Nat.le_succ_of_le ok.va_cur, ok.va1, ok.deep_va, ok.dur3,
      ok.hasval, ok.rep, ok.g6, ?_, ok.hascell, ?_, ?_, ?_, ?_, ?_, ?_, ?_⟩
    · intro o c ho hd
      obtain ⟨a, b', _⟩ := ok.cellobs o c ho hd
      exact ⟨a, b', fun h => by rw [hb.cur] at h; omega⟩
    · -- i2
      intro o ho x hx hc
      rcases hinfo_cases o ho x hx with h | ⟨h1, _⟩
      · exact ok.i2 o ho x h hc
      · omega
    · -- i3
      intro hs o ho
      obtain ⟨hbm, hs0⟩ := hsok hs
      obtain ⟨a, bb⟩ := ok.i3 hs0 o ho
      refine ⟨?_, ?_⟩
      · intro x hx
        rcases hinfo_cases o ho x hx with h | ⟨_, x0, h0, hd0, _⟩
        · exact a x h
        · have := (ok.i2 o ho x0 h0 (a x0 h0)).2
          omega
      · cases hd : o.dep with
        | cell c => trivial
        | inp j => trivial
        | qry q' =>
          rw [hd] at bb
          obtain ⟨m2, hm2, hs2⟩ := bb
          refine ⟨m2, by rw [hb.memos]; exact hm2, ?_⟩
          have hinfo : depInfo s o.dep = some ⟨m2.gval, m2.ca, m2.dur⟩ := by rw [hd]; simp [depInfo, hm2]
          have hdur := (ok.i2 o ho _ hinfo (a _ hinfo)).2
          have hk : ¬ m2.dur ≤ b := by simp only at hdur; omega
          right
          rw [hb.lc m2.dur]
          simp only [hk, if_false]
          rcases hs2 with h | h
          · rw [h]; exact hI.lc_le _
          · exact h
    · -- i4
      rw [hb.lc m.dur]
      by_cases hk : m.dur ≤ b
      · simp only [hk, if_true]; right; exact hva_lt
      · simp only [hk, if_false]; exact ok.i4
    · -- i5
      intro o q' ho hd
      rw [hb.memos]; exact ok.i5 o q' ho hd
    · -- i6
      intro o ho hr x hx
      rcases hinfo_cases o ho x hx with h | ⟨_, x0, h0, hd0, _⟩
      · exact ok.i6 o ho hr x h
      · have := (ok.i6 o ho hr x0 h0).2
        have := hb.b3
        omega
    · -- g4
      intro w d hw hd h
      rcases hb.wl_inv w d hw with h' | ⟨h1, _⟩
      · exact ok.g4 w d h' hd h
      · omega
    · -- i10
      intro o ho x hx
      rcases hinfo_cases o ho x hx with h | ⟨h1, x0, h0, hd0, hc0⟩
      · rcases ok.i10 o ho x h with h2 | ⟨w, d, a, bb, c, e⟩
        · exact Or.inl h2
        · exact Or.inr ⟨w, d, hb.wl_old _ a, bb, c, e⟩
      · right
        rcases ok.i10 o ho x0 h0 with h2 | ⟨w, d, a, bb, c, e⟩
        · have hdur := (ok.i2 o ho x0 h0 h2).2
          exact ⟨s.cur + 1, b, hb.wl_new, Nat.le_trans hdur hd0, hva_lt, by rw [h1]; exact Nat.le_refl _⟩
        · exact ⟨w, d, hb.wl_old _ a, bb, c, by rw [h1]; exact Nat.le_trans e (Nat.le_succ_of_le hc0)⟩

/-! ### the LRU set stays empty -/

theorem forEachEvicted_nil (l : Lru) (h : l.set = []) :
    (forEachEvicted l).2 = [] ∧ (forEachEvicted l).1.set = [] := by
  unfold forEachEvicted
  split
  · exact ⟨rfl, h⟩
  · simp [h, evictLoop]

theorem evictLru_nil (s : State) (h : s.lru.set = []) :
    evictLru s = { s with lru := (forEachEvicted s.lru).1 } := by
  simp only [evictLru, (forEachEvicted_nil s.lru h).1, List.foldl_nil]

theorem setCapacity_nil (l : Lru) (n : Nat) (h : l.set = []) : (setCapacity l n).set = [] := by
  unfold setCapacity; split <;> simp [h]

theorem depInfo_lru (s : State) (l : Lru) (d : Dep) : depInfo { s with lru := l } d = depInfo s d := by
  cases d <;> rfl

theorem sokDep_lru (s : State) (l : Lru) (d : Dep) : sokDep { s with lru := l } d ↔ sokDep s d := by
  cases d <;> exact Iff.rfl

theorem inv_lru {P s} (l : Lru) (hl : l.set = []) (h : Inv P s) : Inv P { s with lru := l } :=
  ⟨h.cur1, h.lc_le, h.lc_ge1, h.lc_anti, h.lc_never, h.inp_le, h.inp_ge1, h.wlog_lc, h.bumps, hl,
   fun q m hm =>
    have ok := h.memo q m hm
    ⟨ok.ca_va, ok.va_cur, ok.va1, ok.deep_va, ok.dur3, ok.hasval, ok.rep, ok.g6, ok.cellobs, ok.hascell,
     fun o ho r hi => ok.i2 o ho r (by rw [← depInfo_lru s l]; exact hi),
     fun hs o ho => ⟨fun r hi => (ok.i3 hs o ho).1 r (by rw [← depInfo_lru s l]; exact hi),
                     (sokDep_lru s l _).mpr (ok.i3 hs o ho).2⟩,
     ok.i4, ok.i5,
     fun o ho hr r hi => ok.i6 o ho hr r (by rw [← depInfo_lru s l]; exact hi),
     ok.g4,
     fun o ho r hi => ok.i10 o ho r (by rw [← depInfo_lru s l]; exact hi)⟩⟩

theorem bumpRev_eq (s : State) (h : s.lru.set = []) :
    bumpRev s = { s with cur := s.cur + 1, wlog := (s.cur + 1, 0) :: s.wlog, lru := (forEachEvicted s.lru).1 } := by
  unfold bumpRev
  exact evictLru_nil { s with cur := s.cur + 1, wlog := (s.cur + 1, 0) :: s.wlog } h

theorem write_bump (s : State) (hl : s.lru.set = []) (i v : Nat) (nd : Option Nat) :
    ∃ b, Bump s (write s i v nd) b := by
  have hl' := (forEachEvicted_nil s.lru hl).2
  unfold write
  rw [bumpRev_eq s hl]
  by_cases hd : (s.inp i).dur ≥ 3
  · refine ⟨0, by omega, ?_, ?_, ?_, ?_, ?_, ?_, ?_, ?_, ?_⟩
    · simp [hd]
    · intro k
      simp only [hd, if_true, lc]
      by_cases hk : k = 0
      · simp [hk]
      · have : ¬ k ≤ 0 := by omega
        simp [hk, this]
    · simp [hd]
    · intro e he; simp [hd, he]
    · simp [hd]
    · intro w d h
      simp only [hd, if_true, List.mem_cons] at h
      rcases h with h | h
      · right; obtain ⟨a, b⟩ := Prod.mk.inj h; subst a; subst b; exact ⟨rfl, Nat.le_refl _⟩
      · exact Or.inl h
    · intro j; left; simp [hd]
    · simp [hd]
    · simp [hd, hl']
  · have hlt : (s.inp i).dur < 3 := by omega
    refine ⟨(s.inp i).dur, hlt, ?_, ?_, ?_, ?_, ?_, ?_, ?_, ?_, ?_⟩
    · simp [hd]
    · intro k
      simp only [hd, if_false, lc]
      by_cases hk : k = 0
      · subst hk; simp
      · simp [hk]
    · simp [hd]
    · intro e he; simp [hd, he]
    · simp [hd]
    · intro w d h
      simp only [hd, if_false, List.mem_cons] at h
      rcases h with h | h | h
      · right; obtain ⟨a, b⟩ := Prod.mk.inj h; subst a; subst b; exact ⟨rfl, Nat.le_refl _⟩
      · right; obtain ⟨a, b⟩ := Prod.mk.inj h; subst a; subst b; exact ⟨rfl, Nat.zero_le _⟩
      · exact Or.inl h
    · intro j
      by_cases hj : j = i
      · subst hj; right; simp [hd]
      · left; simp [hd, hj]
    · simp [hd]
    · simp [hd, hl']

theorem synth_bump (s : State) (hl : s.lru.set = []) (d : Nat) : ∃ b, Bump s (synth s d) b := by
  have hl' := (forEachEvicted_nil s.lru hl).2
  unfold synth
  rw [bumpRev_eq s hl]
  by_cases hd : d ≥ 3
  · refine ⟨0, by omega, ?_, ?_, ?_, ?_, ?_, ?_, ?_, ?_, ?_⟩
    · simp [hd]
    · intro k
      simp only [hd, if_true, lc]
      by_cases hk : k = 0
      · simp [hk]
      · have : ¬ k ≤ 0 := by omega
        simp [hk, this]
    · simp [hd]
    · intro e he; simp [hd, he]
    · simp [hd]
    · intro w d' h
      simp only [hd, if_true, List.mem_cons] at h
      rcases h with h | h
      · right; obtain ⟨a, b⟩ := Prod.mk.inj h; subst a; subst b; exact ⟨rfl, Nat.le_refl _⟩
      · exact Or.inl h
    · intro j; left; simp [hd]
    · simp [hd]
    · simp [hd, hl']
  · have hlt : d < 3 := by omega
    refine ⟨d, hlt, ?_, ?_, ?_, ?_, ?_, ?_, ?_, ?_, ?_⟩
    · simp [hd]
    · intro k
      simp only [hd, if_false, lc]
      by_cases hk : k = 0
      · subst hk; simp
      · simp [hk]
    · simp [hd]
    · intro e he; simp [hd, he]
    · simp [hd]
    · intro w d' h
      simp only [hd, if_false, List.mem_cons] at h
      rcases h with h | h | h
      · right; obtain ⟨a, b⟩ := Prod.mk.inj h; subst a; subst b; exact ⟨rfl, Nat.le_refl _⟩
      · right; obtain ⟨a, b⟩ := Prod.mk.inj h; subst a; subst b; exact ⟨rfl, Nat.zero_le _⟩
      · exact Or.inl h
    · intro j; left; simp [hd]
    · simp [hd]
    · simp [hd, hl']

/-- a cell change before the bump is invisible to `Bump` (which does not mention cells) -/
theorem bump_of_setCell {s s' : State} {c v b : Nat} (h : Bump (setCell s c v) s' b) : Bump s s' b :=
  ⟨h.b3, h.cur, h.lc, h.memos, h.wl_old, h.wl_new, h.wl_inv, h.inp, h.wl_zero, h.lru⟩

theorem init_inv (P : Prog) (inp : Nat → Inp) (cells : Nat → Nat) (cap : Nat) : Inv P (init inp cells cap) := by
  refine ⟨Nat.le_refl _, ?_, ?_, ?_, ?_, fun _ => Nat.le_refl _, fun _ => Nat.le_refl _, ?_, ?_, rfl, ?_⟩
  · intro d; simp only [lc, init]; split <;> exact Nat.le_refl _
  · intro d; simp only [lc, init]; split <;> exact Nat.le_refl _
  · intro d; simp only [lc, init]; split <;> split <;> exact Nat.le_refl _
  · intro d hd; simp only [lc, init]; have : d ≠ 0 := by omega
    simp [this]
  · intro w d h; simp [init] at h
  · intro w h1 h2; simp only [init] at h2; omega
  · intro q m h; simp [init] at h

theorem step_inv {P} (hP : Wf P) (hK : NoLru P) (s : State) (op : Op) (hI : Inv P s) : Inv P (step P s op) := by
  cases op with
  | get q => exact (fetch_sound hP hK s q hI).1
  | set i v nd => obtain ⟨b, hb⟩ := write_bump s hI.lruempty i v nd; exact bump_inv hb hI
  | synth d => obtain ⟨b, hb⟩ := synth_bump s hI.lruempty d; exact bump_inv hb hI
  | cellSynth c v d =>
    obtain ⟨b, hb⟩ := synth_bump (setCell s c v) hI.lruempty d
    exact bump_inv (bump_of_setCell hb) hI
  | cellSet c v i w nd =>
    obtain ⟨b, hb⟩ := write_bump (setCell s c v) hI.lruempty i w nd
    exact bump_inv (bump_of_setCell hb) hI
  | lruCap n => exact inv_lru _ (setCapacity_nil s.lru n hI.lruempty) hI
  | evict =>
    simp only [step]
    rw [evictLru_nil s hI.lruempty]
    exact inv_lru _ (forEachEvicted_nil s.lru hI.lruempty).2 hI

theorem foldl_inv {P} (hP : Wf P) (hK : NoLru P) : ∀ (ops : List Op) (s : State), Inv P s →
    Inv P (ops.foldl (step P) s) := by
  intro ops
  induction ops with
  | nil => intro s h; exact h
  | cons op rest ih => intro s h; exact ih _ (step_inv hP hK s op h)

theorem run_inv {P} (hP : Wf P) (hK : NoLru P) (inp cells cap) (ops : List Op) : Inv P (run P inp cells cap ops) :=
  foldl_inv hP hK ops _ (init_inv P inp cells cap)

/-- stage S3a soundness: plain and `no_eq` functions over inputs and untracked cells -/
theorem c01_s3a {P} (hP : Wf P) (hK : NoLru P) (inp cells cap) (ops : List Op) (q : Nat) :
    (fetch P (run P inp cells cap ops) q).2.val =
      sem P (run P inp cells cap ops).inp (run P inp cells cap ops).cells q :=
  (fetch_sound hP hK _ q (run_inv hP hK inp cells cap ops)).2.1

theorem wfB_compile (r : Nat) : ∀ (e : Expr) (k : Nat → Body), e.callsBelow r = true →
    (∀ v, WfB r (k v)) → WfB r (compile e k) := by
  intro e
  induction e with
  | const n => intro k _ hk; exact hk n
  | inp i => intro k _ hk; exact WfB.read _ _ (by intro q' h; cases h) hk
  | cell c => intro k _ hk; exact WfB.read _ _ (by intro q' h; cases h) hk
  | qry j =>
    intro k h hk
    refine WfB.read _ _ ?_ hk
    intro q' hq; cases hq
    simpa [Expr.callsBelow] using h
  | add a b iha ihb =>
    intro k h hk
    simp only [Expr.callsBelow, Bool.and_eq_true] at h
    exact iha _ h.1 (fun x => ihb _ h.2 (fun y => hk _))
  | min a b iha ihb =>
    intro k h hk
    simp only [Expr.callsBelow, Bool.and_eq_true] at h
    exact iha _ h.1 (fun x => ihb _ h.2 (fun y => hk _))
  | max a b iha ihb =>
    intro k h hk
    simp only [Expr.callsBelow, Bool.and_eq_true] at h
    exact iha _ h.1 (fun x => ihb _ h.2 (fun y => hk _))
  | ite c a b ihc iha ihb =>
    intro k h hk
    simp only [Expr.callsBelow, Bool.and_eq_true] at h
    refine ihc _ h.1.1 (fun x => ?_)
    split
    · exact iha _ h.1.2 hk
    · exact ihb _ h.2 hk

theorem wfList_get : ∀ (es : List (Kind × Expr)) (r q : Nat) (e : Kind × Expr), wfList r es = true →
    es[q]? = some e → e.2.callsBelow (r + q) = true := by
  intro es
  induction es with
  | nil => intro r q e _ h; simp at h
  | cons e0 rest ih =>
    intro r q e h hq
    simp only [wfList, Bool.and_eq_true] at h
    cases q with
    | zero => simp at hq; subst hq; simpa using h.1
    | succ q =>
      simp only [List.getElem?_cons_succ] at hq
      have := ih (r + 1) q e h.2 hq
      have e1 : r + 1 + q = r + (q + 1) := by omega
      rw [e1] at this; exact this

/-- a list of expressions that passes the Bool check `wfList 0` is a well-formed program -/
theorem wf_progOf (es : List (Kind × Expr)) (h : wfList 0 es = true) : Wf (progOf es) := by
  intro q
  simp only [progOf]
  cases hq : es[q]? with
  | none => exact WfB.ret 0
  | some e =>
    have := wfList_get es 0 q e h hq
    simp only [Nat.zero_add] at this
    exact wfB_compile q e.2 _ this (fun v => WfB.ret v)

/-- decidable form of `NoLru` for line-protocol programs -/
theorem noLru_progOf (es : List (Kind × Expr)) (h : es.all (fun e => e.1 != .lru) = true) :
    NoLru (progOf es) := by
  intro q
  simp only [progOf]
  cases hq : es[q]? with
  | none => simp
  | some e =>
    have hmem : e ∈ es := List.mem_of_getElem? hq
    have := List.all_eq_true.mp h e hmem
    simpa using this

end SalsaVerif.Proofs.Core3
