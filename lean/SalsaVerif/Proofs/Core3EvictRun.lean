/-
  Core3 engine, stage S3b: `fresh_of_sok`, specification records, frame invariant, `readDep_ok`,
  `run_ok`, `run_prefix`, determinism of `replay`.  Core Lean only.
-/
import SalsaVerif.Proofs.Core3EvictInv
import SalsaVerif.Proofs.Core3Run

namespace SalsaVerif.Proofs.Core3E
open SalsaVerif.Model.Core3 SalsaVerif.Proofs.Core3

theorem sok_low {P s q m} (hI : InvE P s) (ok : MemoOkE P s q m) (hd : m.dur = 0) (hs : SOK s m) :
    m.va = s.cur := by
  have := hI.cur1
  rcases hs with h | h
  · exact h
  · rw [hd] at h
    simp only [lc, if_true] at h
    exact Nat.le_antisymm ok.va_cur h

/-- A memo that passes the shallow test is semantically fresh (its last value, present or not). -/
theorem fresh_of_sok {P s} (hP : Wf P) (hI : InvE P s) :
    ∀ q m, s.memos q = some m → SOK s m → m.gval = sem P s.inp s.cells q := by
  intro q
  induction q using Nat.strongRecOn with
  | _ q ih =>
    intro m hm hs
    have ok := hI.memo q m hm
    rw [sem_unfold P s.inp s.cells hP q]
    symm
    apply replay_sem _ (P.body q) (obsPairs m.obs) m.gval ok.rep
    intro d x hmem
    obtain ⟨o, ho, hd, hx⟩ := mem_obsPairs hmem
    obtain ⟨hca, hsok⟩ := ok.i3 hs o ho
    cases d with
    | cell c =>
      obtain ⟨hu, _, hc⟩ := ok.cellobs o c ho hd
      simp only [semDep]
      rw [← hx]; exact hc (sok_low hI ok (ok.g6 hu) hs)
    | inp i =>
      have hinfo : depInfo s o.dep = some ⟨(s.inp i).val, (s.inp i).ca, (s.inp i).dur⟩ := by rw [hd]; rfl
      have := (ok.i2 o ho _ hinfo (hca _ hinfo)).1
      simp only [semDep]
      rw [← hx]; exact this
    | qry q' =>
      obtain ⟨hlt, m', hm', _⟩ := ok.i5 o q' ho hd
      have hinfo : depInfo s o.dep = some ⟨m'.gval, m'.ca, m'.dur⟩ := by rw [hd]; simp [depInfo, hm']
      have hval := (ok.i2 o ho _ hinfo (hca _ hinfo)).1
      rw [hd] at hsok
      obtain ⟨m2, hm2, hs2⟩ := hsok
      rw [hm'] at hm2; cases hm2
      have := ih q' hlt m' hm' hs2
      simp only [semDep]
      rw [← this, ← hx]; exact hval

structure FetchSpecE (P : Prog) (r : Nat) (fe : FetchFn) : Prop where
  ok : ∀ s q, q < r → InvE P s →
    InvE P (fe s q).1 ∧ ExtE s (fe s q).1 r ∧ (fe s q).2.val = sem P s.inp s.cells q ∧
    ∃ m, (fe s q).1.memos q = some m ∧ m.va = s.cur ∧ m.value = some (fe s q).2.val ∧
      m.gval = (fe s q).2.val ∧ m.ca = (fe s q).2.ca ∧ m.dur = (fe s q).2.dur

/-- `maybe_changed_after`: the answer "unchanged" is backed by a memo verified now whose stamp is
    not above `rev`; the answer "changed" promises nothing (it is the conservative answer — an
    evicted memo that fails verification gives it without executing). -/
structure McaSpecE (P : Prog) (r : Nat) (mc : McaFn) : Prop where
  ok : ∀ s q rev, q < r → InvE P s → (∃ m, s.memos q = some m) →
    InvE P (mc s q rev).1 ∧ ExtE s (mc s q rev).1 r ∧
    ((mc s q rev).2 = false → ∃ m, (mc s q rev).1.memos q = some m ∧ m.va = s.cur ∧ m.ca ≤ rev)

/-- what holds of the frame of a running query -/
structure FrInvE (s : State) (f : Frame) : Prop where
  ca_le : f.ca ≤ s.cur
  ca1 : 1 ≤ f.ca
  unt : f.untracked = true → f.dur = 0 ∧ f.ca = s.cur
  cellu : ∀ o c, o ∈ f.obs → o.dep = .cell c → f.untracked = true ∧ o.recd = false ∧ s.cells c = o.val
  hasc : f.untracked = true → ∃ o c, o ∈ f.obs ∧ o.dep = .cell c
  /-- the stamp of the frame is attained by one of its reads -/
  att_ca : f.untracked = true ∨ f.ca ≤ 1 ∨
    ∃ o, o ∈ f.obs ∧ hotv s o.dep ∧ ∃ x, depInfo s o.dep = some x ∧ f.ca ≤ x.ca
  /-- so is its durability -/
  att_dur : f.untracked = true ∨ 3 ≤ f.dur ∨
    ∃ o, o ∈ f.obs ∧ hotv s o.dep ∧ ∃ x, depInfo s o.dep = some x ∧ x.dur ≤ f.dur

theorem FrInvE.ext {s t r f} (h : ExtE s t r) (fi : FrInvE s f) : FrInvE t f := by
  refine ⟨by rw [h.cur]; exact fi.ca_le, fi.ca1, by rw [h.cur]; exact fi.unt, by rw [h.cells]; exact fi.cellu,
    fi.hasc, ?_, ?_⟩
  · rcases fi.att_ca with a | a | ⟨o, ho, hh, x, hx, hc⟩
    · exact Or.inl a
    · exact Or.inr (Or.inl a)
    · exact Or.inr (Or.inr ⟨o, ho, hotv_ext h hh, x, depInfo_hotv_ext h hh hx, hc⟩)
  · rcases fi.att_dur with a | a | ⟨o, ho, hh, x, hx, hc⟩
    · exact Or.inl a
    · exact Or.inr (Or.inl a)
    · exact Or.inr (Or.inr ⟨o, ho, hotv_ext h hh, x, depInfo_hotv_ext h hh hx, hc⟩)

/-- frame facts after `push` of a hot dependency with info `x` -/
theorem frInv_push {s : State} {f : Frame} {d : Dep} {x : Res} (fi : FrInvE s f)
    (hd : ∀ c, d ≠ .cell c) (hh : hotv s d) (hx : depInfo s d = some x) (hxc : x.ca ≤ s.cur) :
    FrInvE s (f.push d x) := by
  simp only [Frame.push]
  refine ⟨Nat.max_le.mpr ⟨fi.ca_le, hxc⟩, Nat.le_trans fi.ca1 (Nat.le_max_left _ _), ?_, ?_, ?_, ?_, ?_⟩
  · intro hu
    obtain ⟨a, b⟩ := fi.unt hu
    simp only [a, b]
    exact ⟨Nat.zero_min _, Nat.max_eq_left hxc⟩
  · intro o c' ho hdc
    simp only [List.mem_append, List.mem_singleton] at ho
    rcases ho with ho | ho
    · exact fi.cellu o c' ho hdc
    · subst ho; exact absurd hdc (hd c')
  · intro hu
    obtain ⟨o, c, ho, hdc⟩ := fi.hasc hu
    exact ⟨o, c, by simp [ho], hdc⟩
  · by_cases hle : x.ca ≤ f.ca
    · rw [Nat.max_eq_left hle]
      rcases fi.att_ca with a | a | ⟨o, ho, h1, y, h2, h3⟩
      · exact Or.inl a
      · exact Or.inr (Or.inl a)
      · exact Or.inr (Or.inr ⟨o, by simp [ho], h1, y, h2, h3⟩)
    · rw [Nat.max_eq_right (Nat.le_of_lt (Nat.lt_of_not_le hle))]
      exact Or.inr (Or.inr ⟨⟨d, x.val, decide (x.dur ≠ 3)⟩, by simp, hh, x, hx, Nat.le_refl _⟩)
  · by_cases hle : f.dur ≤ x.dur
    · rw [Nat.min_eq_left hle]
      rcases fi.att_dur with a | a | ⟨o, ho, h1, y, h2, h3⟩
      · exact Or.inl a
      · exact Or.inr (Or.inl a)
      · exact Or.inr (Or.inr ⟨o, by simp [ho], h1, y, h2, h3⟩)
    · rw [Nat.min_eq_right (Nat.le_of_lt (Nat.lt_of_not_le hle))]
      exact Or.inr (Or.inr ⟨⟨d, x.val, decide (x.dur ≠ 3)⟩, by simp, hh, x, hx, Nat.le_refl _⟩)

theorem readDep_ok {P r fe} (hfe : FetchSpecE P r fe) {s : State} {f : Frame} {d : Dep} (hI : InvE P s)
    (fi : FrInvE s f) (hr : ∀ q', d = .qry q' → q' < r) :
    InvE P (readDep fe s f d).1 ∧ ExtE s (readDep fe s f d).1 r ∧
    (readDep fe s f d).2.1 = semDep P s.inp s.cells d ∧ hotv (readDep fe s f d).1 d ∧
    FrInvE (readDep fe s f d).1 (readDep fe s f d).2.2 ∧
    f.ca ≤ (readDep fe s f d).2.2.ca ∧ (readDep fe s f d).2.2.dur ≤ f.dur ∧
    ∃ o, (readDep fe s f d).2.2.obs = f.obs ++ [o] ∧ o.dep = d ∧ o.val = (readDep fe s f d).2.1 ∧
      ObsFact (readDep fe s f d).1 (readDep fe s f d).2.2 o := by
  cases d with
  | cell c =>
    simp only [readDep, Frame.pushCell]
    refine ⟨hI, ExtE.refl s r, rfl, trivial,
      ⟨Nat.le_refl _, hI.cur1, fun _ => ⟨rfl, rfl⟩, ?_, ?_, Or.inl rfl, Or.inl rfl⟩, fi.ca_le,
      Nat.zero_le _, ⟨.cell c, s.cells c, false⟩, rfl, rfl, rfl, Or.inl ⟨c, rfl⟩⟩
    · intro o c' ho hd
      simp only [List.mem_append, List.mem_singleton] at ho
      rcases ho with ho | ho
      · exact ⟨rfl, (fi.cellu o c' ho hd).2⟩
      · subst ho; cases hd; exact ⟨rfl, rfl, rfl⟩
    · intro _; exact ⟨⟨.cell c, s.cells c, false⟩, c, by simp, rfl⟩
  | inp i =>
    simp only [readDep]
    have hx : depInfo s (.inp i) = some ⟨(s.inp i).val, (s.inp i).ca, (s.inp i).dur⟩ := rfl
    refine ⟨hI, ExtE.refl s r, rfl, trivial,
      frInv_push fi (by intro c h; cases h) trivial hx (hI.inp_le i),
      Nat.le_max_left _ _, Nat.min_le_left _ _, _, rfl, rfl, rfl,
      Or.inr ⟨_, rfl, rfl, Nat.le_max_right _ _, Nat.min_le_right _ _, ?_⟩⟩
    intro hrec
    have := of_decide_eq_false hrec
    have : (s.inp i).dur = 3 := Decidable.of_not_not this
    simp only [this]; exact Nat.le_refl 3
  | qry q =>
    simp only [readDep]
    obtain ⟨g1, g2, g3, m, g4, g5, g5v, g6, g7, g8⟩ := hfe.ok s q (hr q rfl) hI
    generalize fe s q = rd at g1 g2 g3 g4 g5 g5v g6 g7 g8
    have mok := g1.memo q m g4
    have hcale : rd.2.ca ≤ rd.1.cur := by rw [← g7, g2.cur, ← g5]; exact mok.ca_va
    have hinfo : depInfo rd.1 (.qry q) = some rd.2 := by
      simp only [depInfo, g4, Option.map, g6, g7, g8]
    have hh : hotv rd.1 (.qry q) := ⟨m, g4, by rw [g5, g2.cur], by rw [g5v]; simp⟩
    refine ⟨g1, g2, g3, hh,
      frInv_push (fi.ext g2) (by intro c h; cases h) hh hinfo hcale,
      Nat.le_max_left _ _, Nat.min_le_left _ _, _, rfl, rfl, rfl,
      Or.inr ⟨rd.2, hinfo, rfl, Nat.le_max_right _ _, Nat.min_le_right _ _, ?_⟩⟩
    intro hrec
    have := of_decide_eq_false hrec
    have : rd.2.dur = 3 := Decidable.of_not_not this
    rw [this]; exact Nat.le_refl 3

theorem obsFact_mono {t t' : State} {F F' : Frame} {o : Obs} {r} (h : ExtE t t' r) (hh : hotv t o.dep)
    (hca : F.ca ≤ F'.ca) (hdur : F'.dur ≤ F.dur) (ho : ObsFact t F o) : ObsFact t' F' o := by
  rcases ho with hc | ⟨x, h1, h2, h3, h4, h5⟩
  · exact Or.inl hc
  · exact Or.inr ⟨x, depInfo_hotv_ext h hh h1, h2, Nat.le_trans h3 hca, Nat.le_trans hdur h4, h5⟩

theorem run_ok {P r fe} (hfe : FetchSpecE P r fe) : ∀ b, WfB r b → ∀ s f, InvE P s → FrInvE s f →
    InvE P (runBody fe b s f).1 ∧ ExtE s (runBody fe b s f).1 r ∧
    (runBody fe b s f).2.2 = evalB (semDep P s.inp s.cells) b ∧
    f.ca ≤ (runBody fe b s f).2.1.ca ∧ (runBody fe b s f).2.1.dur ≤ f.dur ∧
    FrInvE (runBody fe b s f).1 (runBody fe b s f).2.1 ∧
    ∃ new, (runBody fe b s f).2.1.obs = f.obs ++ new ∧
      replay b (obsPairs new) = some (runBody fe b s f).2.2 ∧
      ∀ o, o ∈ new → hotv (runBody fe b s f).1 o.dep ∧
        ObsFact (runBody fe b s f).1 (runBody fe b s f).2.1 o ∧
        (∀ q', o.dep = .qry q' → q' < r) ∧ semDep P s.inp s.cells o.dep = o.val := by
  intro b hb
  induction hb with
  | ret v =>
    intro s f hI fi
    simp only [runBody]
    exact ⟨hI, ExtE.refl s r, rfl, Nat.le_refl _, Nat.le_refl _, fi, [], by simp, by simp [replay, obsPairs],
      by simp⟩
  | read d k hd _ ih =>
    intro s f hI fi
    simp only [runBody]
    obtain ⟨g1, g2, g3, g4, g5, g6, g7, o, g8, g9, g10, g11⟩ := readDep_ok hfe (s := s) (f := f) (d := d) hI fi hd
    generalize readDep fe s f d = rd at g1 g2 g3 g4 g5 g6 g7 g8 g10 g11
    obtain ⟨h1, h2, h3, h4, h5, h6, new, h7, h8, h9⟩ := ih rd.2.1 rd.1 rd.2.2 g1 g5
    refine ⟨h1, ExtE.trans g2 h2, ?_, Nat.le_trans g6 h4, Nat.le_trans h5 g7, h6, o :: new, ?_, ?_, ?_⟩
    · rw [h3, g2.inp, g2.cells]; simp only [evalB, g3]
    · rw [h7, g8]; simp
    · simp only [obsPairs, List.map_cons, replay, g9, if_true, g10]
      exact h8
    · intro o' hm
      simp only [List.mem_cons] at hm
      rcases hm with hm | hm
      · subst hm
        have hh : hotv rd.1 o'.dep := by rw [g9]; exact g4
        exact ⟨hotv_ext h2 hh, obsFact_mono h2 hh h4 h5 g11, by rw [g9]; exact hd, by rw [g9, g10, g3]⟩
      · obtain ⟨a, b, c, e⟩ := h9 o' hm
        exact ⟨a, b, c, by rw [← g2.inp, ← g2.cells]; exact e⟩

/-- Re-execution follows the recorded reads while their recorded values are the current semantic
    values, so it reads `o.dep` again: `t`, `F` are the state and frame right after that read. -/
theorem run_prefix {P r fe} (hfe : FetchSpecE P r fe) : ∀ pre b s f o post,
    WfB r b → InvE P s → FrInvE s f →
    (replay b (obsPairs (pre ++ o :: post))).isSome →
    (∀ o', o' ∈ pre → semDep P s.inp s.cells o'.dep = o'.val) →
    ∃ t F, InvE P t ∧ ExtE s t r ∧ FrInvE t F ∧ hotv t o.dep ∧ F.ca ≤ (runBody fe b s f).2.1.ca ∧
      ((∃ c, o.dep = .cell c) → F.ca = s.cur) ∧
      (∀ x, depInfo t o.dep = some x → x.ca ≤ F.ca ∧ x.val = semDep P s.inp s.cells o.dep) ∧
      ((∃ c, o.dep = .cell c) ∨ ∃ x, depInfo t o.dep = some x) := by
  intro pre
  induction pre with
  | nil =>
    intro b s f o post hb hI fi hrep _
    cases hb with
    | ret v => simp [replay, obsPairs] at hrep
    | read d0 k hd hk =>
      simp only [List.nil_append, obsPairs, List.map_cons, replay] at hrep
      split at hrep
      · rename_i hdd
        subst hdd
        simp only [runBody]
        obtain ⟨g1, g2, g3, g4, g5, _, _, o', g8, g9, g10, g11⟩ :=
          readDep_ok hfe (s := s) (f := f) (d := o.dep) hI fi hd
        generalize readDep fe s f o.dep = rd at g1 g2 g3 g4 g5 g8 g10 g11
        have h4 := (run_ok hfe (k rd.2.1) (hk rd.2.1) rd.1 rd.2.2 g1 g5).2.2.2.1
        refine ⟨rd.1, rd.2.2, g1, g2, g5, g4, h4, ?_, ?_, ?_⟩
        · rintro ⟨c, hc⟩
          have hin : o' ∈ rd.2.2.obs := by rw [g8]; simp
          have hu := (g5.cellu o' c hin (by rw [g9]; exact hc)).1
          rw [(g5.unt hu).2, g2.cur]
        · intro x hx
          rcases g11 with ⟨c, hc⟩ | ⟨x', h1, h2, h3, _⟩
          · rw [g9] at hc; rw [hc] at hx; simp [depInfo] at hx
          · rw [g9] at h1; rw [h1] at hx; cases hx
            exact ⟨h3, by rw [h2, g10, g3]⟩
        · rcases g11 with ⟨c, hc⟩ | ⟨x', h1, _⟩
          · exact Or.inl ⟨c, by rw [← g9]; exact hc⟩
          · exact Or.inr ⟨x', by rw [← g9]; exact h1⟩
      · simp at hrep
  | cons o1 pre ih =>
    intro b s f o post hb hI fi hrep hpre
    cases hb with
    | ret v => simp [replay, obsPairs] at hrep
    | read d0 k hd hk =>
      simp only [List.cons_append, obsPairs, List.map_cons, replay] at hrep
      split at hrep
      · rename_i hdd
        subst hdd
        simp only [runBody]
        obtain ⟨g1, g2, g3, _, g5, _⟩ := readDep_ok hfe (s := s) (f := f) (d := o1.dep) hI fi hd
        generalize readDep fe s f o1.dep = rd at g1 g2 g3 g5
        have hval : rd.2.1 = o1.val := by rw [g3]; exact hpre o1 (by simp)
        rw [hval]
        obtain ⟨t, F, a1, a2, a3, a4, a5, a6, a7, a8⟩ := ih (k o1.val) rd.1 rd.2.2 o post (hk o1.val) g1 g5
          (by simpa [obsPairs] using hrep)
          (fun o' hm => by rw [g2.inp, g2.cells]; exact hpre o' (by simp [hm]))
        refine ⟨t, F, a1, ExtE.trans g2 a2, a3, a4, a5, ?_, ?_, a8⟩
        · intro hc; rw [a6 hc, g2.cur]
        · intro x hx; rw [← g2.inp, ← g2.cells]; exact a7 x hx
      · simp at hrep

/-- two replays of one body against values of the same environment read the same list -/
theorem replay_det (f : Dep → Nat) : ∀ b l1 l2 v1 v2, replay b l1 = some v1 → replay b l2 = some v2 →
    (∀ d x, (d, x) ∈ l1 → f d = x) → (∀ d x, (d, x) ∈ l2 → f d = x) → l1 = l2 ∧ v1 = v2 := by
  intro b
  induction b with
  | ret v0 =>
    intro l1 l2 v1 v2 h1 h2 _ _
    cases l1 with
    | cons _ _ => simp [replay] at h1
    | nil =>
      cases l2 with
      | cons _ _ => simp [replay] at h2
      | nil =>
        simp only [replay, Option.some.injEq] at h1 h2
        exact ⟨rfl, h1.symm.trans h2⟩
  | read d k ih =>
    intro l1 l2 v1 v2 h1 h2 c1 c2
    cases l1 with
    | nil => simp [replay] at h1
    | cons a1 r1 =>
      cases l2 with
      | nil => simp [replay] at h2
      | cons a2 r2 =>
        obtain ⟨d1, x1⟩ := a1
        obtain ⟨d2, x2⟩ := a2
        simp only [replay] at h1 h2
        split at h1
        · rename_i e1
          split at h2
          · rename_i e2
            subst e1; subst e2
            have hx1 : f d = x1 := c1 d x1 (by simp)
            have hx2 : f d = x2 := c2 d x2 (by simp)
            have hx : x1 = x2 := hx1.symm.trans hx2
            subst hx
            obtain ⟨a, b⟩ := ih x1 r1 r2 v1 v2 h1 h2 (fun d' x' hm => c1 d' x' (by simp [hm]))
              (fun d' x' hm => c2 d' x' (by simp [hm]))
            exact ⟨by rw [a], b⟩
          · simp at h2
        · simp at h1

theorem mem_obsPairs_of {l : List Obs} {o : Obs} (h : o ∈ l) : (o.dep, o.val) ∈ obsPairs l := by
  simp only [obsPairs, List.mem_map]
  exact ⟨o, h, rfl⟩

/-- equal pair lists: every observation of one list has a twin in the other -/
theorem obs_twin {l1 l2 : List Obs} (h : obsPairs l1 = obsPairs l2) {o : Obs} (ho : o ∈ l1) :
    ∃ o', o' ∈ l2 ∧ o'.dep = o.dep ∧ o'.val = o.val := by
  have := mem_obsPairs_of ho
  rw [h] at this
  exact mem_obsPairs this

end SalsaVerif.Proofs.Core3E
