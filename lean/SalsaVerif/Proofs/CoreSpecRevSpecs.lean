/-
  CoreSpec, histories with writes: what a request of a node (`FetchSpec`, `McaSpec`) and of the
  specifiable function (`SpecFetchOk`, `SpecMcaOk`) achieves, stated for arbitrary fetchers so that
  the proofs about running bodies / walking edges can be done against these specifications.
  Core Lean only.
-/
import SalsaVerif.Proofs.CoreSpecRevExt

namespace SalsaVerif.Proofs.CoreSpec
open SalsaVerif.Model.CoreSpec

/-- the memo of node `q` in `t` is verified in revision `cur` and is what the request returned -/
def HotRes (t : State) (cur q : Nat) (res : Res) : Prop :=
  ∃ m, t.memos q = some m ∧ m.va = cur ∧ m.value = res.val ∧ m.ca = res.ca ∧ m.dur = res.dur

/-- the same for the memo of `spec(struct of c)` -/
def HotResS (t : State) (cur c : Nat) (res : Res) : Prop :=
  ∃ sm, t.smemos c = some sm ∧ sm.va = cur ∧ sm.value = res.val ∧ sm.ca = res.ca ∧ sm.dur = res.dur

/-- requests of nodes of rank `< r` that end without panic -/
def FetchSpec (P : Prog) (idOf : Nat → Nat) (r : Nat) (fe : FetchFn) : Prop :=
  ∀ s q, q < r → Inv P idOf s → NB s r → (fe s q).1.panic = none →
    Inv P idOf (fe s q).1 ∧ NB (fe s q).1 r ∧ Ext s (fe s q).1 r ∧
    (fe s q).2.val = sem P s.inp q ∧ HotRes (fe s q).1 s.cur q (fe s q).2

/-- `maybe_changed_after` of nodes of rank `< r`: the answer "unchanged" is backed by a memo
    verified now whose stamp is not above `rev` -/
def McaSpec (P : Prog) (idOf : Nat → Nat) (r : Nat) (mc : McaFn) : Prop :=
  ∀ s q rev, q < r → Inv P idOf s → NB s r → (mc s q rev).1.panic = none →
    Inv P idOf (mc s q rev).1 ∧ NB (mc s q rev).1 r ∧ Ext s (mc s q rev).1 r ∧
    ((mc s q rev).2 = false → ∃ m, (mc s q rev).1.memos q = some m ∧ m.va = s.cur ∧ m.ca ≤ rev)

/-- a request of `spec(struct of c)` while the creator `c` is valid and its struct exists.  The
    frame: only the struct's read lock and the `spec` memo of `c` change (`Ext … (c+1)` plus: node
    memos are untouched); nobody becomes busy. -/
def SpecFetchOk (P : Prog) (idOf : Nat → Nat) (fs : FetchFn) : Prop :=
  ∀ s c, Inv P idOf s → memoSok s c → (∃ sl, s.slots c = some sl) → (fs s c).1.panic = none →
    Inv P idOf (fs s c).1 ∧ Ext s (fs s c).1 (c + 1) ∧ (fs s c).1.memos = s.memos ∧
    (∀ c', Busy (fs s c).1 c' → Busy s c') ∧
    (fs s c).2.val = semSpec P s.inp c ∧ HotResS (fs s c).1 s.cur c (fs s c).2

/-- `maybe_changed_after` of `spec(struct of c)` under the same conditions -/
def SpecMcaOk (P : Prog) (idOf : Nat → Nat) (ms : State → Nat → Nat → State × Bool) : Prop :=
  ∀ s c rev, Inv P idOf s → memoSok s c → (∃ sl, s.slots c = some sl) → (ms s c rev).1.panic = none →
    Inv P idOf (ms s c rev).1 ∧ Ext s (ms s c rev).1 (c + 1) ∧ (ms s c rev).1.memos = s.memos ∧
    (∀ c', Busy (ms s c rev).1 c' → Busy s c') ∧
    ((ms s c rev).2 = false → ∃ sm, (ms s c rev).1.smemos c = some sm ∧ sm.va = s.cur ∧ sm.ca ≤ rev)

/-- What is known about the OLD memo `mo` of creator `r` while `r` is busy because its own
    verification validated its output edge (`mark_validated_output` read-locks the struct): the tie
    to struct and `Assigned` memo (suspended in `Inv` while busy) still holds, and every read
    before the `create` was found unchanged: it is valid (a recorded one: verified now; an
    unrecorded one is NEVER_CHANGE and was skipped), has its recorded value, and its stamp is not
    above the memo's `verified_at` (or it is NEVER_CHANGE). -/
def LocalTie (P : Prog) (idOf : Nat → Nat) (s : State) (r : Nat) (mo : Memo) : Prop :=
  ∃ R, replayR r idOf (P.node r) mo.obs none none = some R ∧
    TieOk s r mo R (preOf idOf (P.node r) mo.obs) ∧
    (∀ w0, R.sp = some w0 → ∀ A, s.smemos r = some A → A.va = s.cur) ∧
    ∀ o, o ∈ preOf idOf (P.node r) mo.obs →
      sokDep s o.dep ∧ (o.recd = true → hotDep s o.dep) ∧
      ∃ x, depInfo s o.dep = some x ∧ x.val = o.val ∧ semDep P s.inp o.dep = o.val ∧
        (x.ca ≤ mo.va ∨ 3 ≤ x.dur)

/-- `execute` of node `r` (no memo, or a memo that fails the shallow test), given the engine for
    smaller ranks -/
def ExecOk (P : Prog) (idOf : Nat → Nat) (r : Nat) (fe : FetchFn) : Prop :=
  RelF Sticky fe → ∀ (s : State) (old : Option Memo), Inv P idOf s → NB s r → s.memos r = old →
    (∀ mo, old = some mo → ¬ SOK s mo) →
    (Busy s r → ∃ mo, old = some mo ∧ LocalTie P idOf s r mo) →
    (execute fe P s r old).1.panic = none →
    Inv P idOf (execute fe P s r old).1 ∧ NB (execute fe P s r old).1 (r + 1) ∧
    Ext s (execute fe P s r old).1 (r + 1) ∧
    (execute fe P s r old).2.val = sem P s.inp r ∧
    HotRes (execute fe P s r old).1 s.cur r (execute fe P s r old).2

/-- `deep_verify_edges` of node `r` whose memo `m` fails the shallow test, given
    `maybe_changed_after` for smaller ranks.  The walk may validate the own output edge (then `r`
    is busy afterwards and `LocalTie` holds); if every edge is unchanged, marking the memo as
    verified re-establishes everything. -/
def DeepOk (P : Prog) (idOf : Nat → Nat) (r : Nat) (mc : McaFn) : Prop :=
  RelM Sticky mc → ∀ (s : State) (m : Memo), Inv P idOf s → NB s (r + 1) → s.memos r = some m → ¬ SOK s m →
    (deepEdges mc P.spec r m.obs s m.va).1.panic = none →
    Inv P idOf (deepEdges mc P.spec r m.obs s m.va).1 ∧ NB (deepEdges mc P.spec r m.obs s m.va).1 r ∧
    Ext s (deepEdges mc P.spec r m.obs s m.va).1 (r + 1) ∧
    (deepEdges mc P.spec r m.obs s m.va).1.memos r = some m ∧
    (Busy (deepEdges mc P.spec r m.obs s m.va).1 r → LocalTie P idOf (deepEdges mc P.spec r m.obs s m.va).1 r m) ∧
    ((deepEdges mc P.spec r m.obs s m.va).2 = true →
      (markDeepVerified (deepEdges mc P.spec r m.obs s m.va).1 r m).panic = none →
      Inv P idOf (markDeepVerified (deepEdges mc P.spec r m.obs s m.va).1 r m) ∧
      NB (markDeepVerified (deepEdges mc P.spec r m.obs s m.va).1 r m) (r + 1) ∧
      Ext s (markDeepVerified (deepEdges mc P.spec r m.obs s m.va).1 r m) (r + 1))

end SalsaVerif.Proofs.CoreSpec
