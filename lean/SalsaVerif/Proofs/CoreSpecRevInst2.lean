/-
  CoreSpec, histories with writes: `execute` of a node, part 12 — the observers of the re-executed
  node `r` (reads of `qry r`, `field r`, `spec r` by memos of higher rank) when the new memo is
  installed and, possibly, the struct deleted (`inst_obsTr`).  Core Lean only.
-/
import SalsaVerif.Proofs.CoreSpecRevInst

namespace SalsaVerif.Proofs.CoreSpec
namespace X
open SalsaVerif.Model.CoreSpec

/-- what is known when `diff_outputs` deletes the struct of `r`: the old memo created one (slot
    `sl`), the new run did not, so it diverged before the old `create` (level `PL`) -/
structure DelF (r : Nat) (t1 : State) (mo m' : Memo) (PL fca : Nat) (sl : Slot) : Prop where
  slot : t1.slots r = some sl
  sdur : sl.dur ≤ PL
  sfca : sl.fca ≤ mo.va
  mdur : mo.dur ≤ PL
  wit : Wit t1 PL mo.va fca
  ca : m'.ca = fca ∨ (m'.value = mo.value ∧ m'.ca = mo.ca)
  noh : m'.value.h ≠ some r
  dom : ∀ Xm, t1.smemos r = some Xm → (Xm.dur ≤ PL ∨ Wit t1 Xm.dur Xm.va mo.va) ∧ Xm.ca ≤ fca

theorem inst_obsTr {P idOf r t1 t2 mo m' PL fca mp} (hI : Inv P idOf t1) (ok : ObsOk t1 mp)
    (U : Upd r t1 t2) (hm1 : t1.memos r = some mo) (hm2 : t2.memos r = some m') (hns : ¬ SOK t1 mo)
    (K1 : mo.ca ≤ m'.ca)
    (K2 : (m'.value = mo.value ∧ mo.dur ≤ m'.dur) ∨ Wit t1 mo.dur mo.va m'.ca)
    (hcase : (t2.slots r = t1.slots r ∧ t2.smemos r = t1.smemos r) ∨
      (t2.slots r = none ∧ t2.smemos r = none ∧ ∃ sl, DelF r t1 mo m' PL fca sl)) :
    ObsTr r t1 t2 mp := by
  have hmoinfo : depInfo t1 (.qry r) = some ⟨mo.value, mo.ca, mo.dur⟩ := by simp [depInfo, hm1]
  have hm'info : depInfo t2 (.qry r) = some ⟨m'.value, m'.ca, m'.dur⟩ := by simp [depInfo, hm2]
  have hmova1 := (hI.node r mo hm1).obs.va1
  have hd_r : ∀ {o : Obs} {c : Nat}, (o.dep = .field r ∨ o.dep = .spec r) →
      (o.dep = .field c ∨ o.dep = .spec c) → c = r := by
    intro o c h1 h2
    rcases h1 with e | e <;> rcases h2 with e' | e' <;> rw [e] at e' <;> cases e' <;> rfl
  -- a relevant write for `mo` is one for an observer of the struct / of the memo
  have trS : ∀ o, o ∈ mp.obs → o.out = false → (o.dep = .field r ∨ o.dep = .spec r) → ∀ L, mp.dur ≤ L →
      L ≤ mo.dur → ∀ hi, Wit t1 mo.dur mo.va hi → Wit t1 L mp.va hi :=
    fun o ho hout hd L hL hLm hi W =>
      wit_transfer ok hL hLm W (fun w d hw hdd hlt => ok.ordw o r mo ho hout hd hm1 w d hw hdd hlt)
  have trQ : ∀ o, o ∈ mp.obs → o.out = false → o.dep = .qry r → ∀ L, mp.dur ≤ L → L ≤ mo.dur →
      ∀ hi, Wit t1 mo.dur mo.va hi → Wit t1 L mp.va hi := by
    intro o ho hout e L hL hLm hi W
    cases hr : o.recd with
    | true =>
      obtain ⟨m0, hm0, h5⟩ := ok.i5q o r ho hout e
      rw [hm1] at hm0; cases hm0
      exact wit_transfer_le ok hL hLm W (h5 hr)
    | false =>
      exfalso
      rcases (ok.i6 o ho hout hr).iv _ (by rw [e]; exact hmoinfo) with ⟨_, b2⟩ | b
      · apply hns; right; rw [hI.lc_never mo.dur b2]; exact hmova1
      · exact wit3 hI (Nat.le_refl _) b
  refine ⟨?_, ?_, ?_⟩
  · -- ObsAt
    intro o ho hout hd L hL a hS
    have hcases : o.dep = .qry r ∨ (o.dep = .field r ∨ o.dep = .spec r) := hd
    rcases hcases with e | hfs
    · refine ⟨?_, ?_, ?_⟩
      · intro x hx
        rw [e, hm'info] at hx
        have ex := Option.some.inj hx
        rw [← ex]
        rcases a.iv _ (by rw [e]; exact hmoinfo) with ⟨a1, a2⟩ | a1
        · rcases K2 with ⟨k1, k2⟩ | W
          · exact Or.inl ⟨by rw [k1]; exact a1, Nat.le_trans a2 k2⟩
          · exact Or.inr ((U.witIff _ _ _).mpr (trQ o ho hout e L hL a2 _ W))
        · exact Or.inr ((U.witIff _ _ _).mpr (a1.mono K1))
      · intro c mc hdc; rw [e] at hdc; rcases hdc with h | h <;> cases h
      · intro c sl hdc; rw [e] at hdc; cases hdc
    · rcases hcase with ⟨c1, c2⟩ | ⟨c1, c2, sl, DF⟩
      · have hdi : depInfo t2 o.dep = depInfo t1 o.dep := by
          rcases hfs with e | e <;> rw [e] <;> simp only [depInfo, c1, c2]
        refine ⟨?_, ?_, ?_⟩
        · intro x hx
          rw [hdi] at hx
          exact (a.iv x hx).imp id (U.witIff _ _ _).mpr
        · intro c mc hdc hs hmc
          have hc := hd_r hfs hdc
          subst hc
          rw [c1] at hs; rw [hm2] at hmc; cases hmc
          exact (U.witIff _ _ _).mpr ((a.dead c mo hfs hs hm1).mono K1)
        · intro c sl hdc hs hn
          have hc := hd_r hfs (Or.inr hdc)
          subst hc
          rw [c1] at hs; rw [c2] at hn
          exact (U.witIff _ _ _).mpr (a.deadsm c sl hdc hs hn)
      · refine ⟨?_, ?_, ?_⟩
        · intro x hx
          exfalso
          rcases hfs with e | e <;> rw [e] at hx <;> simp [depInfo, c1, c2] at hx
        · intro c mc hdc _ hmc
          have hc := hd_r hfs hdc
          subst hc
          rw [hm2] at hmc; cases hmc
          have hslt : sl.fca ≤ fca := by have := DF.wit.lt; have := DF.sfca; omega
          have WF : Wit t1 L mp.va fca := by
            rcases hfs with e | e
            · have hx : depInfo t1 o.dep = some ⟨⟨sl.v, none⟩, sl.fca, sl.dur⟩ := by
                rw [e]; simp [depInfo, DF.slot]
              rcases a.iv _ hx with ⟨_, a2⟩ | a1
              · refine wit_transfer ok hL (Nat.le_trans a2 DF.sdur) DF.wit ?_
                intro w d hw hdd hlt
                exact ok.ordw o c mo ho hout (Or.inl e) hm1 w d hw (Nat.le_trans DF.mdur hdd) hlt
              · exact a1.mono hslt
            · cases hX : t1.smemos c with
              | none => exact (a.deadsm c sl e DF.slot hX).mono hslt
              | some Xm =>
                obtain ⟨DOM, CA⟩ := DF.dom Xm hX
                exact spec_dom_tr hI ok ho hout e hL hm1 DF.mdur hX DF.wit DOM CA a
          refine (U.witIff _ _ _).mpr ?_
          rcases DF.ca with e1 | ⟨e1, e2⟩
          · rw [e1]; exact WF
          · rcases hS with hS | h3
            · rcases hS.hexp c mo hfs hm1 with hh | hw
              · exact absurd (by rw [e1]; exact hh) DF.noh
              · rw [e2]; exact hw
            · exact (wit3 hI h3 WF).elim
        · intro c sl' hdc hs
          have hc := hd_r hfs (Or.inr hdc)
          subst hc
          rw [c1] at hs; cases hs
  · -- StructAt
    intro o ho hout hd L hL a sA
    have both : (o.dep = .field r ∨ o.dep = .spec r) →
        (L ≤ m'.dur ∧ m'.value.h = some r) ∨ Wit t1 L mp.va m'.ca := by
      intro hfs
      rcases sA.odur r mo hfs hm1 with h1 | w
      · rcases sA.hexp r mo hfs hm1 with h2 | w
        · rcases K2 with ⟨k1, k2⟩ | W
          · exact Or.inl ⟨Nat.le_trans h1 k2, by rw [k1]; exact h2⟩
          · exact Or.inr (trS o ho hout hfs L hL h1 _ W)
        · exact Or.inr (w.mono K1)
      · exact Or.inr (w.mono K1)
    refine ⟨?_, ?_⟩
    · intro c mc hdc hmc
      by_cases hc : c = r
      · subst hc
        rw [hm2] at hmc; cases hmc
        exact (both hdc).imp (fun h => h.1) (U.witIff _ _ _).mpr
      · rw [U.memos c hc] at hmc
        exact (sA.odur c mc hdc hmc).imp id (U.witIff _ _ _).mpr
    · intro c mc hdc hmc
      by_cases hc : c = r
      · subst hc
        rw [hm2] at hmc; cases hmc
        exact (both hdc).imp (fun h => h.2) (U.witIff _ _ _).mpr
      · rw [U.memos c hc] at hmc
        exact (sA.hexp c mc hdc hmc).imp id (U.witIff _ _ _).mpr
  · -- M4
    intro o ho hout hd a h x hx
    rcases hd with e | e | e
    · rw [e, hm'info] at hx
      have ex := Option.some.inj hx
      rw [← ex]
      exact Nat.le_trans (h _ (by rw [e]; exact hmoinfo)) K1
    · rcases hcase with ⟨c1, _⟩ | ⟨c1, _, _⟩
      · refine h x ?_
        rw [e] at hx ⊢
        simp only [depInfo, c1] at hx
        simpa [depInfo] using hx
      · exfalso; rw [e] at hx; simp [depInfo, c1] at hx
    · rcases hcase with ⟨_, c2⟩ | ⟨_, c2, _⟩
      · refine h x ?_
        rw [e] at hx ⊢
        simp only [depInfo, c2] at hx
        simpa [depInfo] using hx
      · exfalso; rw [e] at hx; simp [depInfo, c2] at hx

end X
end SalsaVerif.Proofs.CoreSpec
