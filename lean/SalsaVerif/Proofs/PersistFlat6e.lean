/-
  C26 with flattening: `fetchStepP` (hot, shallow, deep-verified, re-executed) preserves `J` and
  returns the from-scratch value.  Core Lean only.
-/
import SalsaVerif.Proofs.PersistFlat6d

namespace SalsaVerif.Proofs.PersistFlat
open SalsaVerif.Model.Core SalsaVerif.Model.Persist SalsaVerif.Proofs.Core SalsaVerif.Proofs.Persist

theorem fr_setMemo {s t r m'} (h : Fr s t r) (hst : ∀ m, s.memos r = some m → m.va ≠ s.cur) :
    Fr s (setMemo t r m') (r + 1) := by
  refine ⟨by simp [h.cur], by simp [h.lch], by simp [h.inp], ?_, ?_, ?_⟩
  · intro q hq
    have hne : q ≠ r := by omega
    rw [setMemo_other _ _ _ hne]; exact h.above q (by omega)
  · intro q m hm hv
    by_cases hqr : q = r
    · subst hqr; exact absurd hv (hst m hm)
    · rw [setMemo_other _ _ _ hqr]; exact h.stable q m hm hv
  · intro q m hm
    by_cases hqr : q = r
    · subst hqr; exact ⟨_, setMemo_same _ _ _⟩
    · rw [setMemo_other _ _ _ hqr]; exact h.keep q m hm

theorem mem_odOf {m : Memo} {d : Dep} (h : d ∈ odOf m) : ∃ o, o ∈ m.obs ∧ o.dep = d := by
  simp only [odOf, List.mem_map] at h; exact h

theorem mem_odOf' {m : Memo} {o : Obs} (h : o ∈ m.obs) : o.dep ∈ odOf m := by
  simp only [odOf, List.mem_map]; exact ⟨o, h, rfl⟩

theorem hot_value {pers P H R0 s q m} (hJ : J pers P H R0 s) (hm : s.memos q = some m)
    (hv : m.va = s.cur) : m.value = sem P s.inp q := by
  have := (hJ.memo q m hm).value hm
  rw [hv, hJ.hist.cur hJ.base] at this
  exact this

theorem fetchStep_okJ {pers P r fe mc H R0} (hP : Wf P) (hfe : FetchSpecJ pers P r fe)
    (hmc : McaSpecJ pers P r mc) (s : State) (hJ : J pers P H R0 s) (hA : AllRec s) :
    J pers P H R0 (fetchStepP fe mc P s r).1 ∧ AllRec (fetchStepP fe mc P s r).1 ∧
    Fr s (fetchStepP fe mc P s r).1 (r + 1) ∧
    (fetchStepP fe mc P s r).2.val = sem P s.inp r ∧
    ∃ m, (fetchStepP fe mc P s r).1.memos r = some m ∧ m.va = s.cur ∧
      m.value = (fetchStepP fe mc P s r).2.val ∧ m.ca = (fetchStepP fe mc P s r).2.ca ∧
      m.dur = (fetchStepP fe mc P s r).2.dur := by
  unfold fetchStepP
  cases hm : s.memos r with
  | none =>
    simp only
    exact execute_okJ hP hfe s none hJ hA hm (by intro mo h; rw [hm] at h; cases h)
  | some m =>
    simp only
    have mok := hJ.memo r m hm
    by_cases hv : m.va = s.cur
    · simp only [hv, if_true]
      exact ⟨hJ, hA, Fr.refl s _, hot_value hJ hm hv, m, hm, hv, rfl, rfl, rfl⟩
    · simp only [hv, if_false]
      have hst : ∀ m0, s.memos r = some m0 → m0.va ≠ s.cur := by
        intro m0 h0; rw [hm] at h0; cases h0; exact hv
      by_cases hsh : lc s m.dur ≤ m.va
      · simp only [hsh, if_true, markVerified_eq]
        have h1 := shallow_J hP hJ hm hsh
        refine ⟨J_emit _ h1, allRec_emit (allRec_setMemo hA (hA r m hm)), (fr_setMemo (Fr.refl s r) hst).emit _,
          ?_, _, setMemo_same _ _ _, rfl, rfl, rfl, rfl⟩
        have := hot_value h1 (setMemo_same _ _ _) rfl
        simpa using this
      · simp only [hsh, if_false]
        have hpre : ∀ o q', o ∈ m.obs → o.dep = .qry q' → q' < r ∧ ∃ m', s.memos q' = some m' := by
          intro o q' ho hd
          obtain ⟨h1, mk, h2, _⟩ := mok.j7 q' (by rw [← hd]; exact mem_odOf' ho)
          exact ⟨sdeps_lt hP h1, mk, h2⟩
        obtain ⟨d1, dA, d2, d3⟩ := deep_okJ hmc m.obs s m.va hJ hA hpre
        generalize hs1 : deepEdges mc m.obs s m.va = t at d1 dA d2 d3
        have hm1 : t.1.memos r = some m := by rw [d2.above r (Nat.le_refl r)]; exact hm
        cases hres : t.2 with
        | true =>
          simp only [if_true, markDeepVerified_eq]
          have hfacts : ∀ d, d ∈ odOf m → hot t.1 d ∧ ∃ x, depInfo t.1 d = some x ∧ x.ca ≤ m.va := by
            intro d hd
            obtain ⟨o, ho, hod⟩ := mem_odOf hd
            rw [← hod]
            exact d3 hres o ho (hA r m hm o ho)
          have h1 := deep_J hP d1 hm1 hfacts
          refine ⟨J_emit _ h1, allRec_emit (allRec_setMemo dA (hA r m hm)), (fr_setMemo d2 hst).emit _,
            ?_, _, setMemo_same _ _ _, d2.cur, rfl, rfl, rfl⟩
          have := hot_value h1 (setMemo_same _ _ _) rfl
          simpa [d2.inp] using this
        | false =>
          simp only [Bool.false_eq_true, if_false]
          have hstale : ∀ mo, t.1.memos r = some mo → ¬ SOK t.1 mo := by
            intro mo h0 hs
            rw [hm1] at h0; cases h0
            rcases (SOK_congr d2.cur d2.lch m).mp hs with h | h
            · exact hv h
            · exact hsh h
          obtain ⟨x1, xA, x2, x3, x4⟩ := execute_okJ hP hfe t.1 (some m) d1 dA hm1 hstale
          refine ⟨x1, xA, (d2.weaken (Nat.le_succ r)).trans x2, by rw [x3, d2.inp], ?_⟩
          obtain ⟨m2, y1, y2, y3, y4, y5⟩ := x4
          exact ⟨m2, y1, by rw [y2, d2.cur], y3, y4, y5⟩

end SalsaVerif.Proofs.PersistFlat
