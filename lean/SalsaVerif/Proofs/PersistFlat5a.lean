/-
  C26 with flattening: regions.  A region `Ω` is a set of nodes of the evaluation under `H a`,
  closed under dependencies up to a boundary `B`, whose inputs have not been written since `a` and
  whose boundary functions have stamps `≤ a`.  Used for re-verification: by durability (`Ω` = all
  reachable nodes, no boundary) and by the edge list (`Ω` = nodes above the cut, boundary = listed
  functions).  Core Lean only.
-/
import SalsaVerif.Proofs.PersistFlat4e

namespace SalsaVerif.Proofs.PersistFlat
open SalsaVerif.Model.Core SalsaVerif.Model.Persist SalsaVerif.Proofs.Core SalsaVerif.Proofs.Persist

structure Region (P : Nat → Body) (H : Nat → Nat → Inp) (t : State) (a : Nat) (Ω B : Nat → Prop) : Prop where
  a1 : 1 ≤ a
  a_cur : a ≤ t.cur
  closed : ∀ k k', Ω k → Dep.qry k' ∈ sdeps P (H a) k → Ω k' ∨ B k'
  inps : ∀ k i, Ω k → Dep.inp i ∈ sdeps P (H a) k → (t.inp i).ca ≤ a
  bnd : ∀ p, B p → ∃ mp, t.memos p = some mp ∧ mp.ca ≤ a ∧ sem P (H a) p = mp.value

/-- the nodes of a region evaluate under `H ρ` (`a ≤ ρ`) as under `H a`, provided the boundary
    functions reached have their values -/
theorem region_same {P H t a Ω B} (hP : Wf P) (hH : Hist H t) (hR : Region P H t a Ω B)
    {ρ : Nat} (h1 : a ≤ ρ) (h2 : ρ ≤ t.cur) (k0 : Nat)
    (hB : ∀ p, B p → Reach P (H ρ) k0 p → sem P (H ρ) p = sem P (H a) p) :
    ∀ k, Ω k → Reach P (H ρ) k0 k →
      sem P (H ρ) k = sem P (H a) k ∧ sdeps P (H ρ) k = sdeps P (H a) k := by
  intro k
  induction k using Nat.strongRecOn with
  | _ k ih =>
    intro hk hr
    have hall : ∀ d, d ∈ sdeps P (H a) k → semDep P (H a) d = semDep P (H ρ) d := by
      rcases first_diff (P := P) (H a) (H ρ) k with ⟨d, d1, d2, hne⟩ | hall
      · exfalso
        apply hne
        cases d with
        | inp i =>
          have hc := hR.inps k i hk d1
          simp only [semDep]
          rw [hH.since i ρ (Nat.le_trans hc h1) h2, hH.since i a hc hR.a_cur]
        | qry k' =>
          have hr' : Reach P (H ρ) k0 k' := hr.trans (Reach.step d2 (Reach.refl k'))
          simp only [semDep]
          rcases hR.closed k k' hk d1 with h | h
          · exact ((ih k' (sdeps_lt hP d1) h hr').1).symm
          · exact (hB k' h hr').symm
      · exact hall
    obtain ⟨e1, e2⟩ := eval_same hP hall
    exact ⟨e2, e1⟩

/-- the memos of a region have stamps `≤ a` (a boundary of persisted functions) -/
theorem region_ca {pers P H R0 t a Ω B} (hP : Wf P) (hJ : J pers P H R0 t) (hR : Region P H t a Ω B)
    (hBp : ∀ p, B p → pers p = true) : ∀ k mk, Ω k → t.memos k = some mk → mk.ca ≤ a := by
  intro k
  induction k using Nat.strongRecOn with
  | _ k ih =>
    intro mk hk hmk
    have hk0 := hJ.memo k mk hmk
    by_cases hva : mk.va ≤ a
    · exact Nat.le_trans hk0.ca_va hva
    · have he1 : a ≤ mk.va := by omega
      have hsame := region_same hP hJ.hist hR he1 hk0.va_cur k (by
        intro p hp hrp
        obtain ⟨mp, hmp, hcp, hvp⟩ := hR.bnd p hp
        rw [hvp]
        exact (hk0.pc p mp hrp hmp (Nat.le_trans hcp he1)).1)
      rcases hk0.j5 with h1 | ⟨k2, hnp, hw⟩
      · exact Nat.le_trans h1 hR.a1
      · -- the frontier stays inside the region
        have key : ∀ k1 k2, NP P (H mk.va) pers k1 k2 → Ω k1 → Reach P (H mk.va) k k1 → k1 ≤ k →
            Ω k2 ∧ Reach P (H mk.va) k k2 ∧ k2 ≤ k := by
          intro k1 k2 h
          induction h with
          | refl _ => intro a1 a2 a3; exact ⟨a1, a2, a3⟩
          | step hd hp _ ih2 =>
            intro a1 a2 a3
            have hd' := hd
            rw [(hsame _ a1 a2).2] at hd'
            rcases hR.closed _ _ a1 hd' with h | h
            · exact ih2 h (a2.trans (Reach.step hd (Reach.refl _)))
                (Nat.le_trans (Nat.le_of_lt (sdeps_lt hP hd)) a3)
            · rw [hBp _ h] at hp; cases hp
        obtain ⟨o2, r2, l2⟩ := key k k2 hnp hk (Reach.refl k) (Nat.le_refl k)
        rcases hw with ⟨i, hi, hle⟩ | ⟨p, mp, hp1, _, hp3, hle⟩
        · rw [(hsame k2 o2 r2).2] at hi
          exact Nat.le_trans hle (hR.inps k2 i o2 hi)
        · rw [(hsame k2 o2 r2).2] at hp1
          have hlt : p < k := Nat.lt_of_lt_of_le (sdeps_lt hP hp1) l2
          rcases hR.closed k2 p o2 hp1 with h | h
          · exact Nat.le_trans hle (ih p hlt mp h hp3)
          · obtain ⟨mp', e1, e2, _⟩ := hR.bnd p h
            rw [hp3] at e1; cases e1
            exact Nat.le_trans hle e2

end SalsaVerif.Proofs.PersistFlat
