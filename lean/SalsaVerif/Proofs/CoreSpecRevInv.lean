/-
  CoreSpec, histories with writes: the invariant `Inv` (in the style of `InvE`,
  Proofs/Core3EvictInv.lean: ONE observer clause `iv`, KA, I4/G4, I5, I6) extended to
   * four kinds of dependencies: inputs, node memos, the tracked field of the struct of a creator
     (`field c`: value / stamp / durability live in `slots c`), the specifiable function on that
     struct (`spec c`: memo table `smemos`, origin `Derived` or `Assigned`);
   * the tie between a creator's memo and its struct / `Assigned` memo (`TieOk`): the recorded
     reads replay (`replayR`) to the struct's fields and the specified value; the reads before
     the `create` (`preOf`) carry an observer clause at the durability of the prefix (`PreIv`);
     a stale `Assigned` memo whose creator no longer specifies is dead (a relevant write after its
     `verified_at`);
   * `Busy`: a creator whose struct is read-locked in the current revision while its memo fails
     the shallow test is being validated / re-executed; its tie is suspended until the new memo
     is installed.  (`NB`: below the rank of the running request nobody is busy.)
   * the order clause `ordw` (observer of `field c` / `spec c` versus the memo of creator `c`):
     every write relevant to the creator after the creator's `verified_at` is after the
     observer's `deepAt`.
  All clauses were validated on ~30k random programs/histories (states at entry and exit of every
  nested request) before the proofs were written.  Core Lean only.
-/
import SalsaVerif.Proofs.CoreSpecRevWf

namespace SalsaVerif.Proofs.CoreSpec
open SalsaVerif.Model.CoreSpec

/-- a relevant write: level at least `k`, revision in `(lo, hi]` -/
def Wit (s : State) (k lo hi : Nat) : Prop := ∃ w d, (w, d) ∈ s.wlog ∧ k ≤ d ∧ lo < w ∧ w ≤ hi

theorem Wit.mono {s k lo hi hi'} (h : Wit s k lo hi) (hh : hi ≤ hi') : Wit s k lo hi' := by
  obtain ⟨w, d, a, b, c, e⟩ := h
  exact ⟨w, d, a, b, c, Nat.le_trans e hh⟩

theorem Wit.lt {s k lo hi} (h : Wit s k lo hi) : lo < hi := by
  obtain ⟨w, d, _, _, c, e⟩ := h
  exact Nat.lt_of_lt_of_le c e

theorem Wit.level {s k k' lo hi} (h : Wit s k lo hi) (hk : k' ≤ k) : Wit s k' lo hi := by
  obtain ⟨w, d, a, b, c, e⟩ := h
  exact ⟨w, d, a, Nat.le_trans hk b, c, e⟩

/-- the shallow test -/
def SOK (s : State) (m : Memo) : Prop := m.va = s.cur ∨ lc s m.dur ≤ m.va

def memoSok (s : State) (c : Nat) : Prop := ∃ m, s.memos c = some m ∧ SOK s m

def depInfo (s : State) : Dep → Option Res
  | .inp i => some ⟨⟨(s.inp i).val, none⟩, (s.inp i).ca, (s.inp i).dur⟩
  | .qry q => (s.memos q).map fun m => ⟨m.value, m.ca, m.dur⟩
  | .field c => (s.slots c).map fun sl => ⟨⟨sl.v, none⟩, sl.fca, sl.dur⟩
  | .spec c => (s.smemos c).map fun m => ⟨m.value, m.ca, m.dur⟩

def sokDep (s : State) : Dep → Prop
  | .inp _ => True
  | .qry q => memoSok s q
  | .field c => memoSok s c ∧ s.slots c ≠ none
  | .spec c => memoSok s c ∧ ∃ sm, s.smemos c = some sm ∧ SOK s sm

/-- the struct of `c` is read-locked in this revision while the memo of `c` is not valid -/
def Busy (s : State) (c : Nat) : Prop := ∃ sl, s.slots c = some sl ∧ sl.upd = s.cur ∧ ¬ memoSok s c

def depBelow (q : Nat) : Dep → Prop
  | .inp _ => True
  | .qry q' => q' < q
  | .field c => c < q
  | .spec c => c < q

/-- The observer clause for one recorded read `o` of a memo verified at `va`, at level `L`:
    EITHER the dependency still has the recorded value and its durability is at least `L`, OR there
    is a relevant write (level ≥ `L`) after `va` and not after the dependency's stamp.  When the
    dependency does not exist any more (struct deleted: the creator's `changed_at` bounds the write;
    struct re-allocated and `spec` not computed yet: the field's stamp bounds it) the second holds. -/
structure ObsAt (s : State) (va L : Nat) (o : Obs) : Prop where
  iv : ∀ x, depInfo s o.dep = some x → (x.val = o.val ∧ L ≤ x.dur) ∨ Wit s L va x.ca
  dead : ∀ c mc, (o.dep = .field c ∨ o.dep = .spec c) → s.slots c = none → s.memos c = some mc →
      Wit s L va mc.ca
  deadsm : ∀ c sl, o.dep = .spec c → s.slots c = some sl → s.smemos c = none → Wit s L va sl.fca

theorem ObsAt.level {s va L L' o} (h : ObsAt s va L o) (hl : L' ≤ L) : ObsAt s va L' o :=
  ⟨fun x hx => (h.iv x hx).imp (fun ⟨a, b⟩ => ⟨a, Nat.le_trans hl b⟩) (fun w => w.level hl),
   fun c mc hd hs hm => (h.dead c mc hd hs hm).level hl,
   fun c sl hd hs hm => (h.deadsm c sl hd hs hm).level hl⟩

/-- clauses about the recorded reads of a memo with edges (node memos, `Derived` memos of `spec`) -/
structure ObsOk (s : State) (m : Memo) : Prop where
  ca_va : m.ca ≤ m.va
  va_cur : m.va ≤ s.cur
  va1 : 1 ≤ m.va
  deep_va : m.deepAt ≤ m.va
  deep1 : 1 ≤ m.deepAt
  dur3 : m.dur ≤ 3
  iv : ∀ o, o ∈ m.obs → o.out = false → ObsAt s m.va m.dur o
  kaca : SOK s m → ∀ o, o ∈ m.obs → o.out = false → ∃ x, depInfo s o.dep = some x ∧ x.ca ≤ m.deepAt
  i4 : lc s m.dur ≤ m.deepAt ∨ m.va < lc s m.dur
  i5q : ∀ o q', o ∈ m.obs → o.out = false → o.dep = .qry q' →
        ∃ m', s.memos q' = some m' ∧ (o.recd = true → m.deepAt ≤ m'.va)
  i5s : ∀ o c sm, o ∈ m.obs → o.out = false → o.dep = .spec c → o.recd = true → s.smemos c = some sm →
        m.deepAt ≤ sm.va
  ordw : ∀ o c mc, o ∈ m.obs → o.out = false → (o.dep = .field c ∨ o.dep = .spec c) → s.memos c = some mc →
        ∀ w d, (w, d) ∈ s.wlog → mc.dur ≤ d → mc.va < w → m.deepAt < w
  /-- an unrecorded read (the dependency was NEVER_CHANGE) satisfies the observer clause at level 3;
      no logged write has level 3, so: the dependency exists, has the recorded value and is still
      NEVER_CHANGE (`ObsOk.i6'`) -/
  i6 : ∀ o, o ∈ m.obs → o.out = false → o.recd = false → ObsAt s m.va 3 o
  g4 : ∀ w d, (w, d) ∈ s.wlog → m.dur ≤ d → ¬ (m.deepAt < w ∧ w ≤ m.va)

/-- I2: an observation whose stamp is not above `verified_at` still has its value -/
theorem ObsOk.i2 {s m} (ok : ObsOk s m) : ∀ o, o ∈ m.obs → o.out = false → ∀ x, depInfo s o.dep = some x →
    x.ca ≤ m.va → x.val = o.val ∧ m.dur ≤ x.dur := by
  intro o ho hout x hi hc
  rcases (ok.iv o ho hout).iv x hi with h | h
  · exact h
  · exact absurd (Nat.lt_of_lt_of_le h.lt hc) (Nat.lt_irrefl _)

/-- extra clauses for a NODE memo's read of a struct (`field c` / `spec c`), at level `L`: the
    observer is not more durable than the creator's memo, and the creator's value still carries the
    handle — unless a relevant write bounded by the creator's stamp made the observer stale -/
structure StructAt (s : State) (va L : Nat) (o : Obs) : Prop where
  odur : ∀ c mc, (o.dep = .field c ∨ o.dep = .spec c) → s.memos c = some mc → L ≤ mc.dur ∨ Wit s L va mc.ca
  hexp : ∀ c mc, (o.dep = .field c ∨ o.dep = .spec c) → s.memos c = some mc →
      mc.value.h = some c ∨ Wit s L va mc.ca

theorem StructAt.level {s va L L' o} (h : StructAt s va L o) (hl : L' ≤ L) : StructAt s va L' o :=
  ⟨fun c mc hd hm => (h.odur c mc hd hm).imp (fun a => Nat.le_trans hl a) (fun w => w.level hl),
   fun c mc hd hm => (h.hexp c mc hd hm).imp id (fun w => w.level hl)⟩

/-- the reads before the `create` carry the observer clauses at the durability `L` of the prefix -/
def PreAt (s : State) (va L : Nat) (pre : List Obs) : Prop :=
  ∀ o, o ∈ pre → ObsAt s va L o ∧ StructAt s va L o

/-- The `Assigned` memo of creator `q` (or its absence) against the replayed `specify`.  When the
    creator specifies, the memo is there, is valid whenever the creator's memo is, and its
    durability is the level of the prefix; when it does not, an `Assigned` memo left over is dead
    (a relevant write after its `verified_at`, not after the creator's) and the level of the prefix
    is the larger of the struct's and the memo's durability.  `A.ca ≤ m.va`. -/
def SpTie (s : State) (q : Nat) (m : Memo) (sl : Slot) (pre : List Obs) : Option Nat → Prop
  | some w => ∃ A, s.smemos q = some A ∧ A.origin = some q ∧ A.value = ⟨w, none⟩ ∧
      (m.va ≤ A.va ∨ A.dur = 3) ∧ m.dur ≤ A.dur ∧ sl.dur ≤ A.dur ∧ PreAt s m.va A.dur pre ∧
      A.ca ≤ m.va
  | none => (∀ A, s.smemos q = some A → A.origin ≠ none → Wit s A.dur A.va m.va) ∧
      PreAt s m.va (max sl.dur m.dur) pre

/-- the struct of creator `q` against the replayed `create` -/
def TieOk (s : State) (q : Nat) (m : Memo) (R : SemRes) (pre : List Obs) : Prop :=
  match R.ts with
  | none => s.slots q = none ∧ s.smemos q = none
  | some (k, v) => ∃ sl, s.slots q = some sl ∧ sl.k = k ∧ sl.v = v ∧ sl.fca ≤ m.va ∧ SpTie s q m sl pre R.sp

/-- order clause of the `Assigned` memo of a creator that specifies: every write relevant to `A`
    after the creator's `verified_at` is after `A`'s (kept apart from `TieOk`: it does not hold
    for the old memo between the validation of its output edge and its re-verification) -/
def AOrd (s : State) (q : Nat) (m : Memo) (R : SemRes) : Prop :=
  ∀ w0, R.sp = some w0 → ∀ A, s.smemos q = some A →
    ∀ w' d, (w', d) ∈ s.wlog → A.dur ≤ d → m.va < w' → A.va < w'

/-- handle discipline of a list of recorded reads: every read of a field / `spec` is preceded by a
    query read whose value carries the handle (`H`: the handles held so far) -/
def HdOk : (Nat → Prop) → List Obs → Prop
  | _, [] => True
  | H, o :: rest =>
    if o.out = true then HdOk H rest
    else match o.dep with
      | .inp _ => HdOk H rest
      | .qry _ => HdOk (fun c => H c ∨ o.val.h = some c) rest
      | .field c => H c ∧ HdOk H rest
      | .spec c => H c ∧ HdOk H rest

structure NodeOk (P : Prog) (idOf : Nat → Nat) (s : State) (q : Nat) (m : Memo) : Prop where
  obs : ObsOk s m
  origin : m.origin = none
  ksok : SOK s m → ∀ o, o ∈ m.obs → o.out = false → sokDep s o.dep
  rank : ∀ o, o ∈ m.obs → o.out = false → depBelow q o.dep
  sobs : ∀ o, o ∈ m.obs → o.out = false → StructAt s m.va m.dur o
  /-- node memos are never deleted: the creator of a struct that was read has a memo -/
  hmemo : ∀ o c, o ∈ m.obs → o.out = false → (o.dep = .field c ∨ o.dep = .spec c) → ∃ mc, s.memos c = some mc
  hd : HdOk (fun _ => False) m.obs
  rep : ∃ R, replayR q idOf (P.node q) m.obs none none = some R ∧ R.val = m.value ∧
        m.ts.isSome = R.ts.isSome ∧ (∀ k v, R.ts = some (k, v) → k = idOf q) ∧
        (¬ Busy s q → TieOk s q m R (preOf idOf (P.node q) m.obs) ∧ AOrd s q m R)
  /-- the handle of the value was received from a query read, or is the own struct -/
  hsrc : ∀ c, m.value.h = some c → (c = q ∧ m.ts.isSome = true) ∨
        ∃ o q', o ∈ m.obs ∧ o.out = false ∧ o.dep = .qry q' ∧ o.val.h = some c
  outedge : ∀ o, o ∈ m.obs → o.out = true → o.dep = .spec q ∧ (o.recd = true ∨ m.dur = 3)
  never : m.dur = 3 → ∀ o, o ∈ m.obs → o.recd = false
  /-- M4: `changed_at` is at most the stamp of one of the reads (if that dependency still exists),
      or 1.  (A re-execution that repeats all reads may still not be backdated — the struct a
      handle points to was re-allocated — and then the new stamp must not be lower.) -/
  m4 : m.ca ≤ 1 ∨ ∃ o, o ∈ m.obs ∧ o.out = false ∧ ∀ x, depInfo s o.dep = some x → m.ca ≤ x.ca
  /-- recorded values have the shape `Wf2B` constrains continuations on: only a query read can
      carry a handle, and then of a creator not above the query -/
  shape : ∀ o, o ∈ m.obs → o.out = false →
    (match o.dep with | .qry q' => ∀ c, o.val.h = some c → c ≤ q' | _ => o.val.h = none)

/-- a memo of `spec(struct of c)` -/
structure SpecOk (P : Prog) (idOf : Nat → Nat) (s : State) (c : Nat) (sm : Memo) : Prop where
  derived : sm.origin = none → ObsOk s sm ∧
      ∃ o rest, sm.obs = o :: rest ∧ o.dep = .field c ∧ o.out = false ∧
        replayR 0 idOf (P.spec (idOf c) o.val.n) rest none none = some ⟨sm.value, none, none⟩
  assigned : ∀ k, sm.origin = some k → k = c ∧ sm.obs = [] ∧ sm.ca ≤ sm.va ∧ sm.va ≤ s.cur ∧ 1 ≤ sm.va ∧ sm.dur ≤ 3
  noh : sm.value.h = none
  hgen : sm.hgen = none
  /-- a `Derived` memo reads the tracked field of its struct and inputs only -/
  dshape : sm.origin = none → ∀ o, o ∈ sm.obs → o.out = false ∧ (o.dep = .field c ∨ ∃ i, o.dep = .inp i)

structure Inv (P : Prog) (idOf : Nat → Nat) (s : State) : Prop where
  pn : s.panic = none
  cur1 : 1 ≤ s.cur
  lc_le : ∀ d, lc s d ≤ s.cur
  lc_ge1 : ∀ d, 1 ≤ lc s d
  lc_anti : ∀ d, lc s (d + 1) ≤ lc s d
  lc_never : ∀ d, 3 ≤ d → lc s d = 1
  inp_le : ∀ i, (s.inp i).ca ≤ s.cur
  inp_ge1 : ∀ i, 1 ≤ (s.inp i).ca
  wlog_lc : ∀ w d, (w, d) ∈ s.wlog → ∀ k, k ≤ d → w ≤ lc s k
  wlog3 : ∀ w d, (w, d) ∈ s.wlog → d < 3
  bumps : ∀ w, 1 < w → w ≤ s.cur → (w, 0) ∈ s.wlog
  node : ∀ q m, s.memos q = some m → NodeOk P idOf s q m
  nonode : ∀ q, s.memos q = none → ¬ Busy s q → s.slots q = none ∧ s.smemos q = none
  smemo : ∀ c sm, s.smemos c = some sm → SpecOk P idOf s c sm
  smslot : ∀ c sm, s.smemos c = some sm → ∃ sl, s.slots c = some sl
  slot : ∀ c sl, s.slots c = some sl → sl.fca ≤ s.cur ∧ 1 ≤ sl.fca ∧ sl.upd ≤ s.cur ∧ sl.dur ≤ 3
  hotsm : ∀ c sm, s.smemos c = some sm → sm.va = s.cur → memoSok s c ∨ Busy s c

/-- below rank `r` nobody is busy -/
def NB (s : State) (r : Nat) : Prop := ∀ c, c < r → ¬ Busy s c

theorem lc_mono {P idOf s} (hI : Inv P idOf s) : ∀ d d', d ≤ d' → lc s d' ≤ lc s d := by
  intro d d' h
  induction h with
  | refl => exact Nat.le_refl _
  | step _ ih => exact Nat.le_trans (hI.lc_anti _) ih

end SalsaVerif.Proofs.CoreSpec
