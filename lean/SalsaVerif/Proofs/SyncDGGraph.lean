/-
  Graph-level invariant `GInv` (W1 ∧ W2 ∧ W5, with a list of "pending" threads for the middle of an
  unblock loop) and its preservation by the functions of `DependencyGraph` that do not touch the
  transfer maps: `add_edge`, `unblock_runtime`, `unblock_runtimes_blocked_on`, wake.
-/
import SalsaVerif.Proofs.SyncDGBase

namespace SalsaVerif.Proofs.SyncDG
open SalsaVerif.Model.SyncDG

/-- W1 ∧ W2 ∧ W5 on the `edges / qdeps / results` maps.  `L` is the list of threads that have been
    taken out of a `qdeps` list by the running unblock loop but not yet unblocked (`[]` between
    operations). -/
structure GInv (s : State) (L : List Nat) : Prop where
  blocked_mem : ∀ t, (s.edges t).isSome → (∃ k, t ∈ s.qdeps k) ∨ t ∈ L
  mem_blocked : ∀ t k, t ∈ s.qdeps k → (s.edges t).isSome
  pend_blocked : ∀ t, t ∈ L → (s.edges t).isSome
  pend_notin : ∀ t k, t ∈ L → t ∉ s.qdeps k
  pend_nodup : L.Nodup
  unique : ∀ t k k', t ∈ s.qdeps k → t ∈ s.qdeps k' → k = k'
  nodup : ∀ k, (s.qdeps k).Nodup
  acyclic : ∀ t, ¬ Path s.edges t t
  w5 : ∀ t, (s.results t).isSome → s.edges t = none

theorem GInv.congr {s s' : State} {L : List Nat} (h1 : s'.edges = s.edges) (h2 : s'.qdeps = s.qdeps)
    (h3 : s'.results = s.results) (h : GInv s L) : GInv s' L := by
  constructor
  · rw [h1, h2]; exact h.blocked_mem
  · rw [h1, h2]; exact h.mem_blocked
  · rw [h1]; exact h.pend_blocked
  · rw [h2]; exact h.pend_notin
  · exact h.pend_nodup
  · rw [h2]; exact h.unique
  · rw [h2]; exact h.nodup
  · rw [h1]; exact h.acyclic
  · rw [h1, h3]; exact h.w5

theorem GInv_init : GInv init [] := by
  constructor <;> simp [init]
  intro t p
  have := p.source_isSome
  simp at this

/-- Frame: a function leaves the sync table, the transfer maps and the ghost bound alone. -/
structure SameTD (s s' : State) : Prop where
  transferred : s'.transferred = s.transferred
  tdeps : s'.tdeps = s.tdeps
  sync : s'.sync = s.sync
  bound : s'.bound = s.bound

theorem SameTD.refl (s : State) : SameTD s s := ⟨rfl, rfl, rfl, rfl⟩

theorem SameTD.trans {a b c : State} (h1 : SameTD a b) (h2 : SameTD b c) : SameTD a c :=
  ⟨h2.1.trans h1.1, h2.2.trans h1.2, h2.3.trans h1.3, h2.4.trans h1.4⟩

/-! ### `add_edge` -/

theorem addEdge_eq {s s' : State} {f k t : Nat} (h : addEdge s f k t = some s') :
    f ≠ t ∧ s.edges f = none ∧ dependsOn s t f = some false ∧
    s' = { s with edges := upd s.edges f (some t), qdeps := upd s.qdeps k (s.qdeps k ++ [f]) } := by
  unfold addEdge at h
  by_cases hft : f = t
  · simp [hft] at h
  · simp only [hft, if_false] at h
    cases hef : s.edges f with
    | some x => simp [hef] at h
    | none =>
      simp only [hef, Option.isSome_none, Bool.false_eq_true, if_false] at h
      cases hd : dependsOn s t f with
      | none => simp [hd] at h
      | some b =>
        cases b with
        | true => simp [hd] at h
        | false =>
          simp only [hd, Option.some.injEq] at h
          exact ⟨hft, rfl, rfl, h.symm⟩

theorem addEdge_inv {s s' : State} {f k t : Nat} (hinv : GInv s []) (hres : s.results f = none)
    (h : addEdge s f k t = some s') : GInv s' [] ∧ SameTD s s' := by
  obtain ⟨hft, hef, hd, rfl⟩ := addEdge_eq h
  have hsound := dependsOnLoop_false _ _ hd
  have hnotin : ∀ k', f ∉ s.qdeps k' := by
    intro k' hm
    have := hinv.mem_blocked f k' hm
    simp [hef] at this
  refine ⟨?_, ⟨rfl, rfl, rfl, rfl⟩⟩
  constructor
  · intro x hx
    simp only at hx ⊢
    by_cases hxf : x = f
    · subst hxf
      exact Or.inl ⟨k, by simp⟩
    · rw [upd_other _ _ _ _ hxf] at hx
      rcases hinv.blocked_mem x hx with ⟨k', hk'⟩ | hl
      · refine Or.inl ⟨k', ?_⟩
        by_cases hkk : k' = k
        · subst hkk; simp [hk']
        · rw [upd_other _ _ _ _ hkk]; exact hk'
      · simp at hl
  · intro x k' hx
    simp only at hx ⊢
    by_cases hxf : x = f
    · subst hxf; simp
    · rw [upd_other _ _ _ _ hxf]
      by_cases hkk : k' = k
      · subst hkk
        simp only [upd_same, List.mem_append, List.mem_singleton] at hx
        rcases hx with hx | hx
        · exact hinv.mem_blocked x _ hx
        · exact absurd hx hxf
      · rw [upd_other _ _ _ _ hkk] at hx
        exact hinv.mem_blocked x _ hx
  · intro x hx; simp at hx
  · intro x k' hx; simp at hx
  · exact List.nodup_nil
  · intro x k1 k2 h1 h2
    simp only at h1 h2
    have key : ∀ k', x ∈ upd s.qdeps k (s.qdeps k ++ [f]) k' → (x = f ∧ k' = k) ∨ (x ≠ f ∧ x ∈ s.qdeps k') := by
      intro k' hm
      by_cases hkk : k' = k
      · subst hkk
        simp only [upd_same, List.mem_append, List.mem_singleton] at hm
        rcases hm with hm | hm
        · refine Or.inr ⟨?_, hm⟩
          rintro rfl
          exact hnotin _ hm
        · exact Or.inl ⟨hm, rfl⟩
      · rw [upd_other _ _ _ _ hkk] at hm
        refine Or.inr ⟨?_, hm⟩
        rintro rfl
        exact hnotin _ hm
    rcases key k1 h1 with ⟨_, rfl⟩ | ⟨hn1, hm1⟩ <;> rcases key k2 h2 with ⟨h2a, h2b⟩ | ⟨hn2, hm2⟩
    · exact h2b.symm
    · rename_i h1a; exact absurd h1a hn2
    · exact absurd h2a hn1
    · exact hinv.unique x _ _ hm1 hm2
  · intro k'
    simp only
    by_cases hkk : k' = k
    · subst hkk
      simp only [upd_same]
      rw [List.nodup_append]
      refine ⟨hinv.nodup _, by simp, ?_⟩
      intro a ha b hb
      simp at hb
      subst hb
      rintro rfl
      exact hnotin _ ha
    · rw [upd_other _ _ _ _ hkk]; exact hinv.nodup _
  · simp only
    apply acyclic_upd_some hinv.acyclic (Ne.symm hft) hsound.1
  · intro x hx
    simp only at hx ⊢
    by_cases hxf : x = f
    · subst hxf; simp [hres] at hx
    · rw [upd_other _ _ _ _ hxf]; exact hinv.w5 x hx

/-! ### `unblock_runtime`, `unblock_runtimes_blocked_on` -/

theorem unblockRuntime_eq {s s' : State} {t : Nat} {r : WaitResult} (h : unblockRuntime s t r = some s') :
    (s.edges t).isSome ∧
    s' = { s with edges := upd s.edges t none, results := upd s.results t (some r) } := by
  unfold unblockRuntime at h
  cases he : s.edges t with
  | none => simp [he] at h
  | some x =>
    simp only [he, Option.some.injEq] at h
    exact ⟨rfl, h.symm⟩

theorem unblockRuntime_some {s : State} {t : Nat} (r : WaitResult) (h : (s.edges t).isSome) :
    unblockRuntime s t r = some { s with edges := upd s.edges t none, results := upd s.results t (some r) } := by
  unfold unblockRuntime
  cases he : s.edges t with
  | none => simp [he] at h
  | some x => rfl

/-- Unblocking the head of the pending list. -/
theorem unblockRuntime_inv {s s' : State} {t : Nat} {ts : List Nat} {r : WaitResult}
    (hinv : GInv s (t :: ts)) (h : unblockRuntime s t r = some s') : GInv s' ts := by
  obtain ⟨_, rfl⟩ := unblockRuntime_eq h
  have hnd := hinv.pend_nodup
  rw [List.nodup_cons] at hnd
  constructor
  · intro x hx
    simp only at hx ⊢
    by_cases hxt : x = t
    · subst hxt; simp at hx
    · rw [upd_other _ _ _ _ hxt] at hx
      rcases hinv.blocked_mem x hx with h1 | h1
      · exact Or.inl h1
      · simp only [List.mem_cons] at h1
        rcases h1 with h1 | h1
        · exact absurd h1 hxt
        · exact Or.inr h1
  · intro x k hx
    simp only at hx ⊢
    have hxt : x ≠ t := by
      rintro rfl
      exact hinv.pend_notin x k (by simp) hx
    rw [upd_other _ _ _ _ hxt]
    exact hinv.mem_blocked x k hx
  · intro x hx
    simp only
    have hxt : x ≠ t := by
      rintro rfl
      exact hnd.1 hx
    rw [upd_other _ _ _ _ hxt]
    exact hinv.pend_blocked x (by simp [hx])
  · intro x k hx
    exact hinv.pend_notin x k (by simp [hx])
  · exact hnd.2
  · exact hinv.unique
  · exact hinv.nodup
  · intro x p
    exact hinv.acyclic x (path_upd_none p)
  · intro x hx
    simp only at hx ⊢
    by_cases hxt : x = t
    · subst hxt; simp
    · rw [upd_other _ _ _ _ hxt] at hx ⊢
      exact hinv.w5 x hx

/-- What `unblockAll` does: every listed thread gets the result and loses its edge, nothing else
    changes. -/
structure UnblockedAll (s s' : State) (L : List Nat) (r : WaitResult) : Prop where
  qdeps : s'.qdeps = s.qdeps
  same : SameTD s s'
  delivered : ∀ t, t ∈ L → s'.results t = some r ∧ s'.edges t = none
  others : ∀ t, t ∉ L → s'.results t = s.results t ∧ s'.edges t = s.edges t

theorem unblockAll_inv {r : WaitResult} : ∀ (L : List Nat) (s s' : State), GInv s L →
    unblockAll r s L = some s' → GInv s' [] ∧ UnblockedAll s s' L r := by
  intro L
  induction L with
  | nil =>
    intro s s' hinv h
    simp only [unblockAll, Option.some.injEq] at h
    subst h
    exact ⟨hinv, ⟨rfl, SameTD.refl _, by simp, by simp⟩⟩
  | cons t ts ih =>
    intro s s' hinv h
    unfold unblockAll at h
    cases h1 : unblockRuntime s t r with
    | none => simp [h1] at h
    | some s1 =>
      simp only [h1] at h
      have hinv1 := unblockRuntime_inv hinv h1
      obtain ⟨hg, hu⟩ := ih s1 s' hinv1 h
      obtain ⟨_, rfl⟩ := unblockRuntime_eq h1
      have hnd := hinv.pend_nodup
      rw [List.nodup_cons] at hnd
      refine ⟨hg, ⟨hu.qdeps, ⟨hu.same.1, hu.same.2, hu.same.3, hu.same.4⟩, ?_, ?_⟩⟩
      · intro x hx
        simp only [List.mem_cons] at hx
        rcases hx with rfl | hx
        · have := hu.others x hnd.1
          simpa using this
        · exact hu.delivered x hx
      · intro x hx
        simp only [List.mem_cons, not_or] at hx
        have := hu.others x hx.2
        simp only at this
        rw [upd_other _ _ _ _ hx.1, upd_other _ _ _ _ hx.1] at this
        exact this

/-- `unblockAll` never fails on a pending list (the `.expect("not blocked")` cannot fire). -/
theorem unblockAll_enabled {r : WaitResult} : ∀ (L : List Nat) (s : State), GInv s L →
    ∃ s', unblockAll r s L = some s' := by
  intro L
  induction L with
  | nil => intro s _; exact ⟨s, rfl⟩
  | cons t ts ih =>
    intro s hinv
    have hb := hinv.pend_blocked t (by simp)
    have h1 := unblockRuntime_some r hb
    unfold unblockAll
    rw [h1]
    exact ih _ (unblockRuntime_inv hinv h1)

/-- Taking the whole dependents list of `key` out of `qdeps` turns it into the pending list. -/
theorem GInv.take {s : State} (key : Nat) (hinv : GInv s []) :
    GInv { s with qdeps := upd s.qdeps key [] } (s.qdeps key) := by
  constructor
  · intro x hx
    simp only at hx ⊢
    rcases hinv.blocked_mem x hx with ⟨k, hk⟩ | hl
    · by_cases hkk : k = key
      · subst hkk; exact Or.inr hk
      · exact Or.inl ⟨k, by rw [upd_other _ _ _ _ hkk]; exact hk⟩
    · simp at hl
  · intro x k hx
    simp only at hx ⊢
    by_cases hkk : k = key
    · subst hkk; simp at hx
    · rw [upd_other _ _ _ _ hkk] at hx; exact hinv.mem_blocked x k hx
  · intro x hx; exact hinv.mem_blocked x key hx
  · intro x k hx hm
    simp only at hm
    by_cases hkk : k = key
    · subst hkk; simp at hm
    · rw [upd_other _ _ _ _ hkk] at hm
      exact hkk (hinv.unique x _ _ hm hx)
  · exact hinv.nodup key
  · intro x k1 k2 h1 h2
    simp only at h1 h2
    by_cases hk1 : k1 = key
    · subst hk1; simp at h1
    · by_cases hk2 : k2 = key
      · subst hk2; simp at h2
      · rw [upd_other _ _ _ _ hk1] at h1
        rw [upd_other _ _ _ _ hk2] at h2
        exact hinv.unique x _ _ h1 h2
  · intro k
    simp only
    by_cases hkk : k = key
    · subst hkk; simp
    · rw [upd_other _ _ _ _ hkk]; exact hinv.nodup k
  · exact hinv.acyclic
  · exact hinv.w5

/-- Effect of `unblock_runtimes_blocked_on key r`. -/
structure UnblockedOn (s s' : State) (key : Nat) (r : WaitResult) : Prop where
  qdeps : s'.qdeps = upd s.qdeps key []
  same : SameTD s s'
  delivered : ∀ t, t ∈ s.qdeps key → s'.results t = some r ∧ s'.edges t = none
  others : ∀ t, t ∉ s.qdeps key → s'.results t = s.results t ∧ s'.edges t = s.edges t

theorem unblockRuntimesBlockedOn_inv {s s' : State} {key : Nat} {r : WaitResult} (hinv : GInv s [])
    (h : unblockRuntimesBlockedOn s key r = some s') : GInv s' [] ∧ UnblockedOn s s' key r := by
  unfold unblockRuntimesBlockedOn at h
  obtain ⟨hg, hu⟩ := unblockAll_inv _ _ _ (hinv.take key) h
  exact ⟨hg, ⟨hu.qdeps, ⟨hu.same.1, hu.same.2, hu.same.3, hu.same.4⟩, hu.delivered, hu.others⟩⟩

theorem unblockRuntimesBlockedOn_enabled {s : State} (key : Nat) (r : WaitResult) (hinv : GInv s []) :
    ∃ s', unblockRuntimesBlockedOn s key r = some s' :=
  unblockAll_enabled _ _ (hinv.take key)

/-! ### wake -/

theorem wake_inv {s : State} {t : Nat} (hinv : GInv s []) :
    GInv { s with results := upd s.results t none } [] := by
  constructor
  · exact hinv.blocked_mem
  · exact hinv.mem_blocked
  · exact hinv.pend_blocked
  · exact hinv.pend_notin
  · exact hinv.pend_nodup
  · exact hinv.unique
  · exact hinv.nodup
  · exact hinv.acyclic
  · intro x hx
    simp only at hx ⊢
    by_cases hxt : x = t
    · subst hxt; simp at hx
    · rw [upd_other _ _ _ _ hxt] at hx; exact hinv.w5 x hx

theorem GInv_touch {s : State} {L : List Nat} (n : Nat) (h : GInv s L) : GInv (touch s n) L :=
  GInv.congr (s := s) (s' := touch s n) rfl rfl rfl h

end SalsaVerif.Proofs.SyncDG
