/-
  The graph invariant `GInv` (W1 ∧ W2 ∧ W5) is preserved by the transfer-related functions of
  `DependencyGraph`: `undo_transfer_lock`, `unblock_…_transferred_queries_owned_by`,
  `unblock_transfer_target`, `update_transferred_edges`, `transfer_lock`.
  `Deliver s s'` records that the only status change such a function makes is blocked → ready.
-/
import SalsaVerif.Proofs.SyncDGLife

namespace SalsaVerif.Proofs.SyncDG
open SalsaVerif.Model.SyncDG

/-- Every thread keeps status and result, or goes from blocked to ready. -/
def Deliver (s s' : State) : Prop := ∀ x,
  (status s' x = status s x ∧ s'.results x = s.results x) ∨
  (status s x = .blocked ∧ status s' x = .ready)

theorem Deliver.refl (s : State) : Deliver s s := fun _ => Or.inl ⟨rfl, rfl⟩

theorem Deliver.of_eq {s s' : State} (he : s'.edges = s.edges) (hr : s'.results = s.results) :
    Deliver s s' := fun x => Or.inl ⟨status_congr (by rw [he]) (by rw [hr]), by rw [hr]⟩

theorem Deliver.trans {a b c : State} (h1 : Deliver a b) (h2 : Deliver b c) : Deliver a c := by
  intro x
  rcases h1 x with ⟨h1s, h1r⟩ | ⟨h1a, h1b⟩
  · rcases h2 x with ⟨h2s, h2r⟩ | ⟨h2a, h2b⟩
    · exact Or.inl ⟨h2s.trans h1s, h2r.trans h1r⟩
    · exact Or.inr ⟨h1s ▸ h2a, h2b⟩
  · rcases h2 x with ⟨h2s, _⟩ | ⟨h2a, _⟩
    · exact Or.inr ⟨h1a, h2s.trans h1b⟩
    · rw [h1b] at h2a; cases h2a

/-- A thread that is not blocked is left alone. -/
theorem Deliver.quiet {s s' : State} (h : Deliver s s') {t : Nat} (he : s.edges t = none) :
    s'.edges t = none ∧ s'.results t = s.results t := by
  rcases h t with ⟨hs, hr⟩ | ⟨hb, _⟩
  · refine ⟨?_, hr⟩
    cases he' : s'.edges t with
    | none => rfl
    | some u =>
      have : status s' t = .blocked := status_blocked.mpr (by simp [he'])
      rw [hs, status_blocked, he] at this
      simp at this
  · rw [status_blocked, he] at hb; simp at hb

/-- Result of a graph function: invariant kept, only deliveries, sync table and ghost bound untouched. -/
structure GStep (s s' : State) : Prop where
  inv : GInv s' []
  deliver : Deliver s s'
  sync : s'.sync = s.sync
  bound : s'.bound = s.bound

theorem GStep.refl {s : State} (h : GInv s []) : GStep s s := ⟨h, Deliver.refl s, rfl, rfl⟩

theorem GStep.trans {a b c : State} (h1 : GStep a b) (h2 : GStep b c) : GStep a c :=
  ⟨h2.inv, h1.deliver.trans h2.deliver, h2.sync.trans h1.sync, h2.bound.trans h1.bound⟩

/-- A function that changes only `transferred` / `tdeps`. -/
theorem GStep.of_eq {s s' : State} (h : GInv s []) (he : s'.edges = s.edges) (hq : s'.qdeps = s.qdeps)
    (hr : s'.results = s.results) (hs : s'.sync = s.sync) (hb : s'.bound = s.bound) : GStep s s' :=
  ⟨h.congr he hq hr, Deliver.of_eq he hr, hs, hb⟩

/-- Only `transferred` / `tdeps` differ. -/
structure SameG (s s' : State) : Prop where
  edges : s'.edges = s.edges
  qdeps : s'.qdeps = s.qdeps
  results : s'.results = s.results
  sync : s'.sync = s.sync
  bound : s'.bound = s.bound

theorem SameG.refl (s : State) : SameG s s := ⟨rfl, rfl, rfl, rfl, rfl⟩

theorem SameG.trans {a b c : State} (h1 : SameG a b) (h2 : SameG b c) : SameG a c :=
  ⟨h2.1.trans h1.1, h2.2.trans h1.2, h2.3.trans h1.3, h2.4.trans h1.4, h2.5.trans h1.5⟩

theorem SameG.gstep {s s' : State} (h : SameG s s') (hi : GInv s []) : GStep s s' :=
  GStep.of_eq hi h.1 h.2 h.3 h.4 h.5

theorem unblockRuntimesBlockedOn_gstep {s s' : State} {key : Nat} {r : WaitResult} (hinv : GInv s [])
    (h : unblockRuntimesBlockedOn s key r = some s') : GStep s s' := by
  obtain ⟨hg, hu⟩ := unblockRuntimesBlockedOn_inv hinv h
  refine ⟨hg, ?_, hu.same.sync, hu.same.bound⟩
  intro x
  by_cases hx : x ∈ s.qdeps key
  · refine Or.inr ⟨status_blocked.mpr (hinv.mem_blocked x key hx), ?_⟩
    have := hu.delivered x hx
    rw [status_ready, this.1, this.2]; simp
  · have := hu.others x hx
    exact Or.inl ⟨status_congr this.2 this.1, this.1⟩

/-! ### `tdeps` helpers, `undo_transfer_lock` -/

theorem tdepsRemove_eq {s s' : State} {o k : Nat} (h : tdepsRemove s o k = some s') :
    ∃ l, s.tdeps o = some l ∧ s' = { s with tdeps := upd s.tdeps o (some (smallSetRemove l k)) } := by
  unfold tdepsRemove at h
  cases ho : s.tdeps o with
  | none => simp [ho] at h
  | some l =>
    simp only [ho, Option.some.injEq] at h
    exact ⟨l, rfl, h.symm⟩

theorem tdepsRemove_sameG {s s' : State} {o k : Nat} (h : tdepsRemove s o k = some s') : SameG s s' := by
  obtain ⟨l, _, rfl⟩ := tdepsRemove_eq h
  exact ⟨rfl, rfl, rfl, rfl, rfl⟩

theorem tdepsPush_eq {s s' : State} {o k : Nat} (h : tdepsPush s o k = some s') :
    ∃ l, s.tdeps o = some l ∧ k ∉ l ∧ s' = { s with tdeps := upd s.tdeps o (some (l ++ [k])) } := by
  unfold tdepsPush at h
  cases ho : s.tdeps o with
  | none => simp [ho] at h
  | some l =>
    simp only [ho, List.contains_eq_mem, decide_eq_true_eq] at h
    by_cases hc : k ∈ l
    · simp [hc] at h
    · simp only [hc, if_false, Option.some.injEq] at h
      exact ⟨l, rfl, hc, h.symm⟩

theorem tdepsPush_sameG {s s' : State} {o k : Nat} (h : tdepsPush s o k = some s') : SameG s s' := by
  obtain ⟨l, _, _, rfl⟩ := tdepsPush_eq h
  exact ⟨rfl, rfl, rfl, rfl, rfl⟩

theorem undoTransferLock_sameG {s s' : State} {k : Nat} (h : undoTransferLock s k = some s') :
    SameG s s' := by
  unfold undoTransferLock at h
  cases hk : s.transferred k with
  | none =>
    simp only [hk, Option.some.injEq] at h
    subst h; exact SameG.refl s
  | some p =>
    obtain ⟨t, o⟩ := p
    simp only [hk] at h
    have := tdepsRemove_sameG h
    exact ⟨this.1, this.2, this.3, this.4, this.5⟩

/-! ### `unblock_recursive` -/

theorem forEachDep_ind {P : State → Prop} {f : State → Nat → Option State}
    (hf : ∀ s d s', P s → f s d = some s' → P s') :
    ∀ (l : List Nat) (s s' : State), P s → forEachDep f s l = some s' → P s' := by
  intro l
  induction l with
  | nil =>
    intro s s' hp h
    simp only [forEachDep, Option.some.injEq] at h
    subst h; exact hp
  | cons d ds ih =>
    intro s s' hp h
    unfold forEachDep at h
    cases h1 : f s d with
    | none => simp [h1] at h
    | some s1 =>
      simp only [h1] at h
      exact ih s1 s' (hf s d s1 hp h1) h

theorem unblockRecursive_gstep {r : WaitResult} : ∀ (fuel : Nat) (s s' : State) (q : Nat),
    GInv s [] → unblockRecursive r fuel s q = some s' → GStep s s' := by
  intro fuel
  induction fuel with
  | zero => intro s s' q _ h; simp [unblockRecursive] at h
  | succ n ih =>
    intro s s' q hinv h
    unfold unblockRecursive at h
    simp only at h
    have h1 : GStep s { s with transferred := upd s.transferred q none, tdeps := upd s.tdeps q none } :=
      GStep.of_eq hinv rfl rfl rfl rfl rfl
    refine forEachDep_ind (P := fun x => GStep s x) ?_ _ _ _ h1 h
    intro a d b ha hb
    cases h2 : unblockRuntimesBlockedOn a d r with
    | none => simp [h2] at hb
    | some a1 =>
      simp only [h2] at hb
      have g1 := unblockRuntimesBlockedOn_gstep ha.inv h2
      have g2 := ih a1 b d g1.inv hb
      exact ha.trans (g1.trans g2)

theorem unblockTransferredOwnedBy_gstep {s s' : State} {k : Nat} {r : WaitResult} (hinv : GInv s [])
    (h : unblockTransferredOwnedBy s k r = some s') : GStep s s' := by
  unfold unblockTransferredOwnedBy at h
  cases h1 : undoTransferLock s k with
  | none => simp [h1] at h
  | some s1 =>
    simp only [h1] at h
    have g1 := (undoTransferLock_sameG h1).gstep hinv
    exact g1.trans (unblockRecursive_gstep _ _ _ _ g1.inv h)

/-! ### `unblock_transfer_target` -/

theorem unblockTransferTarget_gstep {s s' : State} {src nt : Nat} (hinv : GInv s [])
    (h : unblockTransferTarget s src nt = some s') : GStep s s' := by
  unfold unblockTransferTarget at h
  cases hf : findBlockedThread s nt (s.bound + 1) src with
  | none => simp [hf] at h
  | some o =>
    cases o with
    | none =>
      simp only [hf, Option.some.injEq] at h
      subst h; exact GStep.refl hinv
    | some qi =>
      obtain ⟨q, i⟩ := qi
      simp only [hf] at h
      cases hti : (s.qdeps q)[i]? with
      | none => simp [hti] at h
      | some t =>
        simp only [hti] at h
        obtain ⟨hnd, hmem⟩ := swapRemoveAt_spec (s.qdeps q) i t (hinv.nodup q) hti
        have htq : t ∈ s.qdeps q := List.mem_of_getElem? hti
        -- taking `t` out of the list makes it pending
        have hp : GInv { s with qdeps := upd s.qdeps q (swapRemoveAt (s.qdeps q) i) } [t] := by
          constructor
          · intro x hx
            simp only at hx ⊢
            rcases hinv.blocked_mem x hx with ⟨k, hk⟩ | hl
            · by_cases hxt : x = t
              · exact Or.inr (by simp [hxt])
              · refine Or.inl ⟨k, ?_⟩
                by_cases hkq : k = q
                · subst hkq; simp only [upd_same]; exact (hmem x).mpr ⟨hk, hxt⟩
                · rw [upd_other _ _ _ _ hkq]; exact hk
            · simp at hl
          · intro x k hx
            simp only at hx ⊢
            by_cases hkq : k = q
            · subst hkq
              simp only [upd_same] at hx
              exact hinv.mem_blocked x k ((hmem x).mp hx).1
            · rw [upd_other _ _ _ _ hkq] at hx; exact hinv.mem_blocked x k hx
          · intro x hx
            simp only [List.mem_singleton] at hx
            subst hx
            exact hinv.mem_blocked x q htq
          · intro x k hx hm
            simp only [List.mem_singleton] at hx
            subst hx
            simp only at hm
            by_cases hkq : k = q
            · subst hkq
              simp only [upd_same] at hm
              exact ((hmem x).mp hm).2 rfl
            · rw [upd_other _ _ _ _ hkq] at hm
              exact hkq (hinv.unique x _ _ hm htq)
          · simp
          · intro x k1 k2 h1 h2
            simp only at h1 h2
            have e1 : x ∈ s.qdeps k1 := by
              by_cases hk : k1 = q
              · subst hk; simp only [upd_same] at h1; exact ((hmem x).mp h1).1
              · rwa [upd_other _ _ _ _ hk] at h1
            have e2 : x ∈ s.qdeps k2 := by
              by_cases hk : k2 = q
              · subst hk; simp only [upd_same] at h2; exact ((hmem x).mp h2).1
              · rwa [upd_other _ _ _ _ hk] at h2
            exact hinv.unique x _ _ e1 e2
          · intro k
            simp only
            by_cases hkq : k = q
            · subst hkq; simp only [upd_same]; exact hnd
            · rw [upd_other _ _ _ _ hkq]; exact hinv.nodup k
          · exact hinv.acyclic
          · exact hinv.w5
        have hg := unblockRuntime_inv hp h
        obtain ⟨hb, rfl⟩ := unblockRuntime_eq h
        refine ⟨hg, ?_, rfl, rfl⟩
        intro x
        by_cases hxt : x = t
        · subst hxt
          refine Or.inr ⟨status_blocked.mpr hb, ?_⟩
          rw [status_ready]; simp
        · refine Or.inl ⟨status_congr ?_ ?_, ?_⟩ <;> simp [upd_other _ _ _ _ hxt]

/-! ### `update_transferred_edges` -/

theorem upd_upd {α : Type} (f : Nat → α) (k : Nat) (a b : α) : upd (upd f k a) k b = upd f k b := by
  funext x
  by_cases h : x = k <;> simp [upd, h]

/-- Re-pointing one blocked thread's edge, given the `debug_assert` that follows it. -/
theorem repoint_one {s : State} {t nt : Nat} (hinv : GInv s []) (hb : (s.edges t).isSome)
    (hd : dependsOn { s with edges := upd s.edges t (some nt) } nt t = some false) :
    GStep s { s with edges := upd s.edges t (some nt) } := by
  have hsound := dependsOnLoop_false _ _ hd
  simp only at hsound
  have hiso : ∀ x, ((upd s.edges t (some nt)) x).isSome = (s.edges x).isSome := by
    intro x
    by_cases hxt : x = t
    · subst hxt; simp [hb]
    · rw [upd_other _ _ _ _ hxt]
  refine ⟨?_, ?_, rfl, rfl⟩
  · constructor
    · intro x hx
      simp only at hx ⊢
      rw [hiso] at hx
      exact hinv.blocked_mem x hx
    · intro x k hx
      simp only at hx ⊢
      rw [hiso]
      exact hinv.mem_blocked x k hx
    · intro x hx; simp at hx
    · intro x k hx; simp at hx
    · exact List.nodup_nil
    · exact hinv.unique
    · exact hinv.nodup
    · simp only
      rw [← upd_upd s.edges t none (some nt)]
      have hac : ∀ x, ¬ Path (upd s.edges t none) x x := fun x p => hinv.acyclic x (path_upd_none p)
      have hsub : ∀ a b, upd s.edges t none a = some b → upd s.edges t (some nt) a = some b := by
        intro a b hab
        by_cases hat : a = t
        · subst hat; simp at hab
        · rw [upd_other _ _ _ _ hat] at hab ⊢; exact hab
      apply acyclic_upd_some hac
      · rintro rfl
        exact hsound.1 (Path.single (by simp))
      · intro p
        exact hsound.1 (Path.mono hsub p)
    · intro x hx
      simp only at hx ⊢
      have := hinv.w5 x hx
      by_cases hxt : x = t
      · subst hxt; rw [this] at hb; simp at hb
      · rw [upd_other _ _ _ _ hxt]; exact this
  · intro x
    refine Or.inl ⟨?_, rfl⟩
    unfold status
    simp only
    rw [hiso]

structure SameQ (s s' : State) : Prop where
  qdeps : s'.qdeps = s.qdeps
  transferred : s'.transferred = s.transferred
  tdeps : s'.tdeps = s.tdeps

theorem repointEdges_gstep {nt : Nat} : ∀ (L : List Nat) (s s' : State), GInv s [] →
    repointEdges nt s L = some s' → GStep s s' ∧ SameQ s s' := by
  intro L
  induction L with
  | nil =>
    intro s s' hinv h
    simp only [repointEdges, Option.some.injEq] at h
    subst h
    exact ⟨GStep.refl hinv, ⟨rfl, rfl, rfl⟩⟩
  | cons t ts ih =>
    intro s s' hinv h
    unfold repointEdges at h
    cases het : s.edges t with
    | none => simp [het] at h
    | some u =>
      simp only [het] at h
      cases hd : dependsOn { s with edges := upd s.edges t (some nt) } nt t with
      | none => simp [hd] at h
      | some b =>
        cases b with
        | true => simp [hd] at h
        | false =>
          simp only [hd] at h
          have g1 := repoint_one hinv (by simp [het]) hd
          obtain ⟨g2, q2⟩ := ih _ s' g1.inv h
          exact ⟨g1.trans g2, ⟨q2.1, q2.2, q2.3⟩⟩

theorem updateTransferredEdges_gstep {nt : Nat} : ∀ (fuel : Nat) (s s' : State) (q : Nat),
    GInv s [] → updateTransferredEdges nt fuel s q = some s' → GStep s s' ∧ SameQ s s' := by
  intro fuel
  induction fuel with
  | zero => intro s s' q _ h; simp [updateTransferredEdges] at h
  | succ n ih =>
    intro s s' q hinv h
    unfold updateTransferredEdges at h
    cases h1 : repointEdges nt s (s.qdeps q) with
    | none => simp [h1] at h
    | some s1 =>
      simp only [h1] at h
      obtain ⟨g1, q1⟩ := repointEdges_gstep _ _ _ hinv h1
      refine forEachDep_ind (P := fun x => GStep s x ∧ SameQ s x) ?_ _ _ _ ⟨g1, q1⟩ h
      intro a d b ha hb
      obtain ⟨g2, q2⟩ := ih a b d ha.1.inv hb
      exact ⟨ha.1.trans g2, ⟨q2.1.trans ha.2.1, q2.2.trans ha.2.2, q2.3.trans ha.2.3⟩⟩

/-! ### `transfer_lock` -/

theorem repointLoop_sameG {s : State} {q ot oo n : Nat} : ∀ (fuel seg : Nat) (s' : State),
    repointLoop s q ot oo n fuel seg = some s' → SameG s s' := by
  intro fuel
  induction fuel with
  | zero => intro seg s' h; simp [repointLoop] at h
  | succ m ih =>
    intro seg s' h
    unfold repointLoop at h
    cases hseg : s.transferred seg with
    | none =>
      simp only [hseg, Option.some.injEq] at h
      subst h; exact SameG.refl s
    | some p =>
      obtain ⟨th, nxt⟩ := p
      simp only [hseg] at h
      by_cases hn : nxt = q
      · simp only [hn, if_true] at h
        cases h1 : tdepsRemove s q seg with
        | none => simp [h1] at h
        | some s1 =>
          simp only [h1] at h
          have e1 := tdepsRemove_sameG h1
          by_cases hoo : oo = n
          · simp only [hoo, if_true, Option.some.injEq] at h
            subst h
            exact ⟨e1.1, e1.2, e1.3, e1.4, e1.5⟩
          · simp only [hoo, if_false] at h
            have e2 := tdepsPush_sameG h
            exact ⟨e2.1.trans e1.1, e2.2.trans e1.2, e2.3.trans e1.3, e2.4.trans e1.4, e2.5.trans e1.5⟩
      · simp only [hn, if_false] at h
        exact ih nxt s' h

theorem transferEntry_sameG {s s4 : State} {q c n nt : Nat} {ch : Bool}
    (h : transferEntry s q c n nt = some (some (s4, ch))) : SameG s s4 := by
  unfold transferEntry at h
  cases hq : s.transferred q with
  | none =>
    simp only [hq, Option.some.injEq, Prod.mk.injEq] at h
    rw [← h.1]
    exact ⟨rfl, rfl, rfl, rfl, rfl⟩
  | some p =>
    obtain ⟨ot, oo⟩ := p
    simp only [hq] at h
    by_cases hsame : ot = nt ∧ oo = n
    · simp [hsame] at h
    · simp only [hsame, if_false] at h
      cases h1 : tdepsRemove s oo q with
      | none => simp [h1] at h
      | some s1 =>
        simp only [h1] at h
        cases h3 : repointLoop { s1 with transferred := upd s1.transferred q (some (nt, n)) } q ot oo n (s.bound + 1) n with
        | none => simp [h3] at h
        | some s3 =>
          simp only [h3, Option.some.injEq, Prod.mk.injEq] at h
          rw [← h.1]
          have e1 := tdepsRemove_sameG h1
          have e3 := repointLoop_sameG _ _ _ h3
          exact ⟨e3.1.trans e1.1, e3.2.trans e1.2, e3.3.trans e1.3, e3.4.trans e1.4, e3.5.trans e1.5⟩

theorem registerDependent_eq {s s' : State} {q n : Nat} (h : registerDependent s q n = some s') :
    n ∉ tdepsL s n ∧ q ∉ tdepsL s n ∧
    s' = { s with tdeps := upd s.tdeps n (some (tdepsL s n ++ [q])) } := by
  unfold registerDependent at h
  simp only [List.contains_eq_mem, decide_eq_true_eq] at h
  by_cases h1 : n ∈ tdepsL s n
  · simp [h1] at h
  · simp only [h1, if_false] at h
    by_cases h2 : q ∈ tdepsL s n
    · simp [h2] at h
    · simp only [h2, if_false, Option.some.injEq] at h
      exact ⟨h1, h2, h.symm⟩

theorem registerDependent_sameG {s s' : State} {q n : Nat} (h : registerDependent s q n = some s') :
    SameG s s' := by
  obtain ⟨_, _, rfl⟩ := registerDependent_eq h
  exact ⟨rfl, rfl, rfl, rfl, rfl⟩

theorem afterTransfer_gstep {s s' : State} {q nt : Nat} (hinv : GInv s [])
    (h : afterTransfer s q nt = some s') : GStep s s' := by
  unfold afterTransfer at h
  cases h1 : unblockTransferTarget s q nt with
  | none => simp [h1] at h
  | some s1 =>
    simp only [h1] at h
    have g1 := unblockTransferTarget_gstep hinv h1
    exact g1.trans (updateTransferredEdges_gstep _ _ _ _ g1.inv h).1

theorem transferLockCore_gstep {s s' : State} {q c n nt : Nat} {o : SyncOwner} {kind : TransferKind}
    (hinv : GInv s []) (h : transferLockCore s q c n o = some (s', kind, nt)) : GStep s s' := by
  unfold transferLockCore at h
  cases hnt : newOwnerThread s q n o with
  | none => simp [hnt] at h
  | some nt' =>
    simp only [hnt] at h
    cases hpre : transferPre s nt' c with
    | none => simp [hpre] at h
    | some b =>
      cases b with
      | false => simp [hpre] at h
      | true =>
        simp only [hpre] at h
        cases he : transferEntry s q c n nt' with
        | none => simp [he] at h
        | some r =>
          cases r with
          | none =>
            simp only [he] at h
            by_cases hcn : c = nt'
            · simp only [hcn, if_true, Option.some.injEq, Prod.mk.injEq] at h
              rw [← h.1]; exact GStep.refl hinv
            · simp only [hcn, if_false] at h
              cases ha : afterTransfer s q nt' with
              | none => simp [ha] at h
              | some s7 =>
                simp only [ha, Option.some.injEq, Prod.mk.injEq] at h
                rw [← h.1]
                exact afterTransfer_gstep hinv ha
          | some p =>
            obtain ⟨s4, ch⟩ := p
            simp only [he] at h
            have g4 := (transferEntry_sameG he).gstep hinv
            cases hr : registerDependent s4 q n with
            | none => simp [hr] at h
            | some s5 =>
              simp only [hr] at h
              have g5 := g4.trans ((registerDependent_sameG hr).gstep g4.inv)
              cases ch with
              | false =>
                simp only [Bool.false_eq_true, if_false, Option.some.injEq, Prod.mk.injEq] at h
                rw [← h.1]; exact g5
              | true =>
                simp only [if_true] at h
                cases ha : afterTransfer s5 q nt' with
                | none => simp [ha] at h
                | some s7 =>
                  simp only [ha, Option.some.injEq, Prod.mk.injEq] at h
                  rw [← h.1]
                  exact g5.trans (afterTransfer_gstep g5.inv ha)

end SalsaVerif.Proofs.SyncDG
