/-
  Example data (concrete states / op sequences) used by the non-vacuity `example`s of
  Props/C06.lean.  Core Lean only.
-/
import SalsaVerif.Proofs.Structs

namespace SalsaVerif.Props.C06
open SalsaVerif.Model.Structs
open SalsaVerif.Proofs.Structs

/-- non-vacuity: two creators; creator 0 creates 3 structs (two with colliding hash), re-executes
    creating only two (one slot is freed), creator 1 reuses the freed slot with a bumped generation,
    a memo is attached and a field read; then creator 0's memo is discarded. -/
def c06DistinctOps : List Op :=
  [.spawn, .spawn, .begin 0, .new 0 1 0 1 7 ⟨1, [5]⟩, .new 0 1 0 1 7 ⟨11, [6]⟩, .new 0 1 0 1 7 ⟨2, []⟩,
   .finish 0 1, .addMemo 1 42, .begin 0, .new 0 2 0 2 7 ⟨1, [5]⟩, .new 0 2 0 2 7 ⟨2, []⟩, .finish 0 2,
   .begin 1, .new 1 2 0 2 7 ⟨3, [9]⟩, .read 2 0, .addMemo 1 43, .finish 1 2, .discard 0 3]

/-- non-vacuity for `c06_dropped`: first execution creates idv 1, 2, 11 (1 and 11 collide), a memo
    is attached to the slot of 11, the re-execution creates only 1 and 2: the struct registered
    under (7, hash 1, disambiguator 1) is dropped. -/
def c06DroppedState : State :=
  ⟨[⟨0, some 1, 0, [1], ⟨1, [5]⟩, []⟩, ⟨0, some 1, 0, [1], ⟨2, [6]⟩, []⟩,
    ⟨0, some 1, 0, [1], ⟨11, [7]⟩, [⟨42, 0⟩]⟩], []⟩

def c06DroppedPrev : List (Identity × Id) :=
  [(⟨7, 1, 0⟩, ⟨0, 0⟩), (⟨7, 2, 0⟩, ⟨1, 0⟩), (⟨7, 1, 1⟩, ⟨2, 0⟩)]

/-- non-vacuity for `c06_same_id` / `c06_memos_kept`: the state after a first execution that
    created idv 1, 2, 11 (1 and 11 collide under `% 10`; a memo hangs on slot 2, another on slot 1).
    The re-execution creates 2, 1, 11 in a different interleaving with changed tracked fields; the
    creation `j = 2` (idv 11, second creation of key (7,1)) finds `(7,1,1) ↦ slot 2`. -/
def c06SameState : State :=
  ⟨[⟨0, some 1, 1, [1, 1], ⟨1, [5, 5]⟩, []⟩, ⟨0, some 1, 1, [1], ⟨2, [6]⟩, [⟨41, 0⟩]⟩,
    ⟨0, some 1, 1, [1, 1], ⟨11, [7, 7]⟩, [⟨42, 0⟩]⟩], []⟩

def c06SamePrev : List (Identity × Id) :=
  [(⟨7, 1, 0⟩, ⟨0, 0⟩), (⟨7, 2, 0⟩, ⟨1, 0⟩), (⟨7, 1, 1⟩, ⟨2, 0⟩)]

def c06SameCs : List Creation :=
  [⟨1, 2, 7, ⟨2, [6]⟩⟩, ⟨1, 2, 7, ⟨1, [5, 9]⟩⟩, ⟨1, 2, 7, ⟨11, [8, 7]⟩⟩]

/-- non-vacuity for `c06_same_id_rerun` (and `c06_same_id_hyps_post`): first execution from the
    empty state creates idv 1, 11, 2 (1 and 11 collide), the second creates 2, 1, 11 in another
    interleaving: creation 1 of the first (idv 11, 2nd of key (7,1)) and creation 2 of the second
    get the same identity and id, and the slot stores the same identity value 11. -/
def c06RerunCs1 : List Creation := [⟨1, 1, 7, ⟨1, [5]⟩⟩, ⟨1, 1, 7, ⟨11, [6]⟩⟩, ⟨1, 1, 7, ⟨2, []⟩⟩]

def c06RerunCs2 : List Creation := [⟨1, 2, 7, ⟨2, []⟩⟩, ⟨1, 2, 7, ⟨1, [5]⟩⟩, ⟨1, 2, 7, ⟨11, [9]⟩⟩]

end SalsaVerif.Props.C06
