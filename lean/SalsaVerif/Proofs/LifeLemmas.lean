/-
  Helper lemmas for Props/C23: invariant of the memo allocation life cycle.  Core Lean only.
-/
import SalsaVerif.Model.Life

namespace SalsaVerif.Proofs.LifeLemmas
open SalsaVerif.Model.Life

/-! ### association lists -/

theorem lookup_mem : ∀ (t : List (Key × Nat)) (k : Key) (o : Nat), lookup t k = some o → (k, o) ∈ t
  | [], _, _, h => by simp [lookup] at h
  | (k', v) :: rest, k, o, h => by
    simp only [lookup] at h
    split at h
    · next hk => simp only [Option.some.injEq] at h; subst h; subst hk; exact List.mem_cons_self
    · exact List.mem_cons_of_mem _ (lookup_mem rest k o h)

theorem lookup_none : ∀ (t : List (Key × Nat)) (k : Key), lookup t k = none → ∀ e, e ∈ t → e.1 ≠ k
  | [], _, _, e, he => by cases he
  | (k', v) :: rest, k, h, e, he => by
    simp only [lookup] at h
    split at h
    · cases h
    · next hk =>
      rcases List.mem_cons.1 he with rfl | he'
      · exact hk
      · exact lookup_none rest k h e he'

theorem mem_removeKey (t : List (Key × Nat)) (k : Key) (e : Key × Nat) :
    e ∈ removeKey t k ↔ e ∈ t ∧ e.1 ≠ k := by
  simp [removeKey, List.mem_filter]

/-- with unique keys, the entries under key `k` are exactly the one `lookup` finds -/
theorem filter_key : ∀ (t : List (Key × Nat)) (k : Key) (o : Nat), (t.map (·.1)).Nodup →
    lookup t k = some o → t.filter (fun e => e.1 == k) = [(k, o)]
  | [], _, _, _, h => by simp [lookup] at h
  | (k', v) :: rest, k, o, hnd, h => by
    simp only [List.map_cons, List.nodup_cons] at hnd
    simp only [lookup] at h
    split at h
    · next hk =>
      simp only [Option.some.injEq] at h; subst h; subst hk
      have hrest : rest.filter (fun e => e.1 == k') = [] := by
        rw [List.filter_eq_nil_iff]
        intro e he hek
        simp only [beq_iff_eq] at hek
        exact hnd.1 (List.mem_map.2 ⟨e, he, hek⟩)
      simp [List.filter, hrest]
    · next hk =>
      have := filter_key rest k o hnd.2 h
      have hk' : (k' == k) = false := by simpa using hk
      simp [List.filter, hk', this]

theorem vals_perm_removeKey (t : List (Key × Nat)) (k : Key) (o : Nat) (hnd : (t.map (·.1)).Nodup)
    (h : lookup t k = some o) : (vals t).Perm (o :: vals (removeKey t k)) := by
  have hp := (List.filter_append_perm (fun e : Key × Nat => e.1 == k) t).symm
  rw [filter_key t k o hnd h] at hp
  exact hp.map (·.2)

theorem removeKey_of_none (t : List (Key × Nat)) (k : Key) (h : lookup t k = none) : removeKey t k = t := by
  unfold removeKey
  rw [List.filter_eq_self]
  intro e he
  simpa using lookup_none t k h e he

theorem vals_perm_slot (t : List (Key × Nat)) (slot : Nat) :
    (vals t).Perm (vals (slotEntries t slot) ++ vals (t.filter fun e => e.1.1 != slot)) := by
  have hp := (List.filter_append_perm (fun e : Key × Nat => e.1.1 == slot) t).symm
  have := hp.map (·.2)
  rw [List.map_append] at this
  exact this

theorem perm_blocks (A D V F : List Nat) : (A ++ D ++ (V ++ F)).Perm (V ++ A ++ D ++ F) := by
  have h1 : (A ++ D ++ V).Perm (V ++ A ++ D) := by
    rw [List.append_assoc V A D]
    exact List.perm_append_comm
  have := h1.append_right F
  simpa [List.append_assoc] using this

/-- `Nodup` of the values makes entries with equal value equal -/
theorem vals_inj : ∀ (t : List (Key × Nat)), (vals t).Nodup → ∀ e1 e2, e1 ∈ t → e2 ∈ t → e1.2 = e2.2 → e1 = e2
  | [], _, _, _, h, _, _ => by cases h
  | x :: rest, hnd, e1, e2, h1, h2, heq => by
    simp only [vals, List.map_cons, List.nodup_cons] at hnd
    rcases List.mem_cons.1 h1 with rfl | h1' <;> rcases List.mem_cons.1 h2 with rfl | h2'
    · rfl
    · exact absurd (List.mem_map.2 ⟨e2, h2', heq.symm⟩) hnd.1
    · exact absurd (List.mem_map.2 ⟨e1, h1', heq⟩) hnd.1
    · exact vals_inj rest hnd.2 e1 e2 h1' h2' heq

/-! ### invariant -/

structure LInv (s : State) : Prop where
  nodup : (allAllocs s).Nodup
  range : ∀ o, o ∈ allAllocs s ↔ o < s.next
  keys : (s.table.map (·.1)).Nodup
  refsOk : ∀ r, r ∈ s.refs → r.rev = s.cur ∧ (r.target ∈ vals s.table ∨ r.target ∈ s.deferred) ∧
      ∀ k, (k, r.target) ∈ s.table → s.accessedAt k.1 = s.cur

theorem init_linv : LInv State.init :=
  ⟨List.nodup_nil, fun o => by simp [allAllocs, State.init, vals], List.nodup_nil,
   fun r h => by cases h⟩

theorem vals_nodup (s : State) (h : LInv s) : (vals s.table).Nodup := by
  have := h.nodup
  unfold allAllocs at this
  rw [List.append_assoc] at this
  exact (List.nodup_append.1 this).1

theorem publish_perm (s : State) (hinv : LInv s) (slot mi : Nat) :
    (allAllocs (apply s (.publish slot mi))).Perm (s.next :: allAllocs s) := by
  cases hl : lookup s.table (slot, mi) with
  | none =>
    have : allAllocs (apply s (.publish slot mi)) = s.next :: allAllocs s := by
      simp only [apply, allAllocs, hl, removeKey_of_none _ _ hl, vals, List.map_cons, List.cons_append]
    rw [this]
  | some x0 =>
    have hp := vals_perm_removeKey s.table (slot, mi) x0 hinv.keys hl
    have : allAllocs (apply s (.publish slot mi)) =
        s.next :: (vals (removeKey s.table (slot, mi)) ++ (x0 :: s.deferred) ++ s.frees) := by
      simp only [apply, allAllocs, hl, vals, List.map_cons, List.cons_append]
    rw [this]
    refine List.Perm.cons _ ?_
    unfold allAllocs
    refine List.Perm.append_right _ ?_
    have h1 : (vals (removeKey s.table (slot, mi)) ++ x0 :: s.deferred).Perm
        (x0 :: (vals (removeKey s.table (slot, mi)) ++ s.deferred)) := List.perm_middle
    exact h1.trans (hp.symm.append_right s.deferred)

theorem linv_of_perm (s s' : State) (hinv : LInv s) (hp : (allAllocs s').Perm (allAllocs s))
    (hnext : s'.next = s.next) (hkeys : (s'.table.map (·.1)).Nodup)
    (hrefs : ∀ r, r ∈ s'.refs → r.rev = s'.cur ∧ (r.target ∈ vals s'.table ∨ r.target ∈ s'.deferred) ∧
      ∀ k, (k, r.target) ∈ s'.table → s'.accessedAt k.1 = s'.cur) : LInv s' :=
  ⟨hp.nodup_iff.2 hinv.nodup, fun o => by rw [hp.mem_iff, hnext]; exact hinv.range o, hkeys, hrefs⟩

theorem linv_step (s s' : State) (l : Label) (hinv : LInv s) (hs : step s l = some s') : LInv s' := by
  unfold step at hs
  split at hs
  case isFalse => cases hs
  case isTrue hpre =>
  simp only [Option.some.injEq] at hs
  subst hs
  cases l with
  | publish slot mi =>
    have hp := publish_perm s hinv slot mi
    have hfresh : s.next ∉ allAllocs s := fun h => Nat.lt_irrefl _ ((hinv.range _).1 h)
    have hvn := vals_nodup s hinv
    refine ⟨hp.nodup_iff.2 (List.nodup_cons.2 ⟨hfresh, hinv.nodup⟩), ?_, ?_, ?_⟩
    · intro o
      rw [hp.mem_iff, List.mem_cons, hinv.range o]
      show o = s.next ∨ o < s.next ↔ o < s.next + 1
      omega
    · show (List.map (·.1) (((slot, mi), s.next) :: removeKey s.table (slot, mi))).Nodup
      rw [List.map_cons, List.nodup_cons]
      refine ⟨?_, ?_⟩
      · intro hmem
        obtain ⟨e, he, hek⟩ := List.mem_map.1 hmem
        exact ((mem_removeKey _ _ e).1 he).2 hek
      · exact hinv.keys.sublist ((List.filter_sublist).map _)
    · -- references
      have hnew_not_old : ∀ k, (k, s.next) ∉ s.table := by
        intro k hk
        apply hfresh
        unfold allAllocs
        exact List.mem_append_left _ (List.mem_append_left _ (List.mem_map.2 ⟨_, hk, rfl⟩))
      intro r hr
      have hr' : r ∈ (⟨s.next, s.cur⟩ : Ref) :: s.refs := hr
      show r.rev = s.cur ∧
        (r.target ∈ vals (((slot, mi), s.next) :: removeKey s.table (slot, mi)) ∨
          r.target ∈ (match lookup s.table (slot, mi) with
            | some x => x :: s.deferred
            | none => s.deferred)) ∧
        ∀ k, (k, r.target) ∈ ((slot, mi), s.next) :: removeKey s.table (slot, mi) →
          (if k.1 = slot then s.cur else s.accessedAt k.1) = s.cur
      rcases List.mem_cons.1 hr' with rfl | hold
      · refine ⟨rfl, Or.inl (by simp [vals]), ?_⟩
        intro k hk
        rcases List.mem_cons.1 hk with heq | hrest
        · simp only [Prod.mk.injEq] at heq
          rw [heq.1]; simp
        · exact absurd ((mem_removeKey _ _ _).1 hrest).1 (hnew_not_old k)
      · obtain ⟨hrev, hwhere, hacc⟩ := hinv.refsOk r hold
        refine ⟨hrev, ?_, ?_⟩
        · rcases hwhere with hlive | hdef
          · obtain ⟨e, he, het⟩ := List.mem_map.1 hlive
            by_cases hek : e.1 = (slot, mi)
            · -- the replaced memo: now deferred
              right
              cases hl : lookup s.table (slot, mi) with
              | none => exact absurd hek (lookup_none _ _ hl e he)
              | some x0 =>
                have hx := lookup_mem _ _ _ hl
                have : e = ((slot, mi), x0) := by
                  have hk := hinv.keys
                  -- same key ⇒ same entry, via `filter_key`
                  have hf := filter_key s.table (slot, mi) x0 hk hl
                  have hmem : e ∈ s.table.filter (fun e => e.1 == (slot, mi)) :=
                    List.mem_filter.2 ⟨he, by simpa using hek⟩
                  rw [hf] at hmem
                  simpa using hmem
                subst this
                simp only at het
                rw [← het]
                exact List.mem_cons_self
            · left
              simp only [vals, List.map_cons, List.mem_cons]
              right
              exact List.mem_map.2 ⟨e, (mem_removeKey _ _ e).2 ⟨he, hek⟩, het⟩
          · right
            cases lookup s.table (slot, mi) with
            | none => exact hdef
            | some x0 => exact List.mem_cons_of_mem _ hdef
        · intro k hk
          rcases List.mem_cons.1 hk with heq | hrest
          · simp only [Prod.mk.injEq] at heq
            rw [heq.1]; simp
          · have := hacc k ((mem_removeKey _ _ _).1 hrest).1
            split
            · rfl
            · exact this
  | handOut slot mi =>
    simp only [pre, Bool.and_eq_true] at hpre
    cases hl : lookup s.table (slot, mi) with
    | none => rw [hl] at hpre; simp at hpre
    | some o =>
      have hmem := lookup_mem _ _ _ hl
      have hvn := vals_nodup s hinv
      simp only [apply, hl]
      refine linv_of_perm s _ hinv (List.Perm.refl _) rfl hinv.keys ?_
      intro r hr
      have hr' : r ∈ (⟨o, s.cur⟩ : Ref) :: s.refs := hr
      show r.rev = s.cur ∧ (r.target ∈ vals s.table ∨ r.target ∈ s.deferred) ∧
        ∀ k, (k, r.target) ∈ s.table → (if k.1 = slot then s.cur else s.accessedAt k.1) = s.cur
      rcases List.mem_cons.1 hr' with rfl | hold
      · refine ⟨rfl, Or.inl (List.mem_map.2 ⟨_, hmem, rfl⟩), ?_⟩
        intro k hk
        have := vals_inj s.table hvn _ _ hk hmem rfl
        simp only [Prod.mk.injEq] at this
        rw [this.1]; simp
      · obtain ⟨hrev, hwhere, hacc⟩ := hinv.refsOk r hold
        refine ⟨hrev, hwhere, ?_⟩
        intro k hk
        have := hacc k hk
        split
        · rfl
        · exact this
  | dropRef i =>
    refine linv_of_perm s _ hinv (List.Perm.refl _) rfl hinv.keys ?_
    intro r hr
    exact hinv.refsOk r (List.mem_of_mem_eraseIdx hr)
  | newRevision =>
    simp only [pre, Bool.and_eq_true, List.isEmpty_iff] at hpre
    refine linv_of_perm s _ hinv ?_ rfl hinv.keys ?_
    · have : allAllocs (apply s .newRevision) = allAllocs s := by
        simp [apply, allAllocs, List.append_assoc]
      rw [this]
    · intro r hr
      have hr' : r ∈ s.refs := hr
      rw [hpre.2] at hr'; cases hr'
  | clearMemos slot =>
    simp only [pre, Bool.and_eq_true, bne_iff_ne, ne_eq] at hpre
    refine linv_of_perm s _ hinv ?_ rfl ?_ ?_
    · have hp := vals_perm_slot s.table slot
      have : allAllocs (apply s (.clearMemos slot)) =
          vals (s.table.filter fun e => e.1.1 != slot) ++ s.deferred ++
            (vals (slotEntries s.table slot) ++ s.frees) := rfl
      rw [this]
      refine (perm_blocks _ _ _ _).trans ?_
      unfold allAllocs
      exact (hp.symm.append_right s.deferred).append_right s.frees
    · exact hinv.keys.sublist ((List.filter_sublist).map _)
    · intro r hr
      obtain ⟨hrev, hwhere, hacc⟩ := hinv.refsOk r hr
      refine ⟨hrev, ?_, ?_⟩
      · rcases hwhere with hlive | hdef
        · left
          obtain ⟨e, he, het⟩ := List.mem_map.1 hlive
          have hacc' := hacc e.1 (by rw [← het]; exact he)
          refine List.mem_map.2 ⟨e, List.mem_filter.2 ⟨he, ?_⟩, het⟩
          simp only [bne_iff_ne, ne_eq]
          intro heq
          rw [heq] at hacc'
          exact hpre.2 hacc'
        · exact Or.inr hdef
      · intro k hk
        exact hacc k (List.mem_filter.1 hk).1
  | evictInPlace slot mi => exact hinv
  | dropDb =>
    simp only [pre, Bool.and_eq_true, List.isEmpty_iff] at hpre
    refine linv_of_perm s _ hinv ?_ rfl List.nodup_nil ?_
    · have : allAllocs (apply s .dropDb) = allAllocs s := by
        simp [apply, allAllocs, vals, List.append_assoc]
      rw [this]
    · intro r hr
      have hr' : r ∈ s.refs := hr
      rw [hpre.2] at hr'; cases hr'

theorem linv_run : ∀ (ls : List Label) (s s' : State), LInv s → run s ls = some s' → LInv s'
  | [], s, s', hinv, h => by simp only [run, Option.some.injEq] at h; subst h; exact hinv
  | l :: ls, s, s', hinv, h => by
    simp only [run] at h
    split at h
    · next s1 h1 => exact linv_run ls s1 s' (linv_step s s1 l hinv h1) h
    · cases h

theorem linv_reachable (s : State) (h : Reachable s) : LInv s := by
  obtain ⟨ls, h⟩ := h
  exact linv_run ls _ s init_linv h

end SalsaVerif.Proofs.LifeLemmas
