/-
  Helper lemmas for Props/C24 and C23 (slot publication): the invariant of the page allocator LTS.
  Core Lean only.
-/
import SalsaVerif.Model.Alloc
import SalsaVerif.Proofs.IdsRoundtrip

namespace SalsaVerif.Proofs.AllocLemmas
open SalsaVerif.Gen.Ids SalsaVerif.Model.Alloc

/-! ### page lists -/

theorem cnt_removeFirst : ∀ (l : List (Nat × Nat)) (ing page q : Nat), lookup l ing = some page →
    cnt q (removeFirst l ing) + (if page = q then 1 else 0) = cnt q l
  | [], _, _, _, h => by simp [lookup] at h
  | (k, v) :: rest, ing, page, q, h => by
    simp only [lookup] at h
    simp only [removeFirst]
    split at h
    · next hk =>
      simp only [Option.some.injEq] at h
      subst h
      simp only [hk, if_true, cnt]; omega
    · next hk =>
      have := cnt_removeFirst rest ing page q h
      simp only [hk, if_false, cnt]; omega

theorem cnt_removeKey_le : ∀ (l : List (Nat × Nat)) (ing q : Nat), cnt q (removeKey l ing) ≤ cnt q l
  | [], _, _ => Nat.le_refl _
  | (k, v) :: rest, ing, q => by
    have := cnt_removeKey_le rest ing q
    simp only [removeKey]
    split <;> simp only [cnt] <;> omega

theorem cnt_insertMR_le (mr : List (Nat × Nat)) (ing page q : Nat) :
    cnt q (insertMR mr ing page) ≤ cnt q mr + (if page = q then 1 else 0) := by
  have := cnt_removeKey_le mr ing q
  simp only [insertMR, cnt]; omega

theorem cnt_insertMR_self (mr : List (Nat × Nat)) (ing page : Nat) :
    1 ≤ cnt page (insertMR mr ing page) := by
  simp only [insertMR, cnt, if_true]; omega

theorem cnt_of_lookup : ∀ (l : List (Nat × Nat)) (ing page : Nat), lookup l ing = some page → 1 ≤ cnt page l
  | [], _, _, h => by simp [lookup] at h
  | (k, v) :: rest, ing, page, h => by
    simp only [lookup] at h
    split at h
    · simp only [Option.some.injEq] at h; subst h; simp only [cnt, if_true]; omega
    · have := cnt_of_lookup rest ing page h
      simp only [cnt]; omega

theorem cnt_removeKey_lookup : ∀ (mr : List (Nat × Nat)) (ing page q : Nat), lookup mr ing = some page →
    cnt q (removeKey mr ing) + (if page = q then 1 else 0) ≤ cnt q mr
  | [], _, _, _, hl => by simp [lookup] at hl
  | (k, v) :: mr, ing, page, q, hl => by
    simp only [lookup] at hl
    simp only [removeKey]
    split at hl
    · next hk =>
      simp only [Option.some.injEq] at hl; subst hl
      have := cnt_removeKey_le mr ing q
      simp only [hk, if_true, cnt]; omega
    · next hk =>
      have := cnt_removeKey_lookup mr ing page q hl
      simp only [hk, if_false, cnt]; omega

theorem cnt_drain : ∀ (order : List Nat) (nf mr nf' : List (Nat × Nat)) (q : Nat),
    drain nf mr order = some nf' → cnt q nf' ≤ cnt q nf + cnt q mr
  | [], nf, mr, nf', q, h => by
    simp only [drain] at h
    split at h
    · simp only [Option.some.injEq] at h; subst h; omega
    · cases h
  | ing :: rest, nf, mr, nf', q, h => by
    simp only [drain] at h
    split at h
    · next page hl =>
      have h1 := cnt_drain rest _ _ nf' q h
      simp only [cnt] at h1
      -- the page moved is counted in `mr`, and `removeKey` drops (at least) that entry
      have h2 : cnt q (removeKey mr ing) + (if page = q then 1 else 0) ≤ cnt q mr := by
        clear h h1
        induction mr with
        | nil => simp [lookup] at hl
        | cons e mr ih =>
          obtain ⟨k, v⟩ := e
          simp only [lookup] at hl
          simp only [removeKey]
          split at hl
          · next hk =>
            simp only [Option.some.injEq] at hl; subst hl
            have := cnt_removeKey_le mr ing q
            simp only [hk, if_true, cnt]; omega
          · next hk =>
            have := ih hl
            simp only [hk, if_false, cnt]; omega
      omega
    · cases h

/-! ### handles -/

theorem occH_set (q : Nat) : ∀ (hs : List Handle) (i : Nat) (hd hd' : Handle), hs[i]? = some hd →
    occH q (hs.set i hd') + cnt q hd.mostRecent = occH q hs + cnt q hd'.mostRecent
  | [], i, _, _, h => by simp at h
  | x :: hs, 0, hd, hd', h => by
    simp only [List.getElem?_cons_zero, Option.some.injEq] at h
    subst h
    simp only [List.set_cons_zero, occH]; omega
  | x :: hs, i + 1, hd, hd', h => by
    simp only [List.getElem?_cons_succ] at h
    have := occH_set q hs i hd hd' h
    simp only [List.set_cons_succ, occH]; omega

theorem occH_ge (q : Nat) : ∀ (hs : List Handle) (i : Nat) (hd : Handle), hs[i]? = some hd →
    cnt q hd.mostRecent ≤ occH q hs
  | [], i, _, h => by simp at h
  | x :: hs, 0, hd, h => by
    simp only [List.getElem?_cons_zero, Option.some.injEq] at h
    subst h; simp only [occH]; omega
  | x :: hs, i + 1, hd, h => by
    simp only [List.getElem?_cons_succ] at h
    have := occH_ge q hs i hd h
    simp only [occH]; omega

theorem occH_two (q : Nat) (hs : List Handle) (i j : Nat) (a b : Handle) (hij : i ≠ j)
    (ha : hs[i]? = some a) (hb : hs[j]? = some b) :
    cnt q a.mostRecent + cnt q b.mostRecent ≤ occH q hs := by
  have h1 := occH_set q hs i a Handle.dead ha
  have h2 : (hs.set i Handle.dead)[j]? = some b := by rw [List.getElem?_set_ne hij]; exact hb
  have h3 := occH_ge q _ j b h2
  have h0 : cnt q Handle.dead.mostRecent = 0 := rfl
  rw [h0] at h1
  omega

theorem occH_append (q : Nat) : ∀ (hs : List Handle) (hd : Handle),
    occH q (hs ++ [hd]) = occH q hs + cnt q hd.mostRecent
  | [], hd => by simp [occH]
  | x :: hs, hd => by simp only [List.cons_append, occH, occH_append q hs hd]; omega

theorem getH_live (s : State) (h : Nat) (hl : (getH s h).live = true) :
    s.handles[h]? = some (getH s h) := by
  unfold getH at hl ⊢
  cases hg : s.handles[h]? with
  | none => rw [hg] at hl; simp [Handle.dead] at hl
  | some hd => simp

theorem lt_of_get {α} (l : List α) (i : Nat) (a : α) (h : l[i]? = some a) : i < l.length := by
  rcases Nat.lt_or_ge i l.length with h' | h'
  · exact h'
  · rw [List.getElem?_eq_none h'] at h; cases h

/-! ### invariant -/

def pcPage : Pc → Option Nat
  | .idle => none
  | .loaded p _ => some p
  | .written p _ _ => some p

/-- a handle in the middle of `PageView::allocate` owns the page (it is its `most_recent_pages`
    entry), the index it loaded is still the published length, and after the write the slot holds
    the value -/
def PcOk (pages : Nat → Option Page) (hd : Handle) : Prop :=
  match hd.pc with
  | .idle => True
  | .loaded page idx => hd.live = true ∧ 1 ≤ cnt page hd.mostRecent ∧
      ∃ p, pages page = some p ∧ p.allocated = idx ∧ idx < PAGE_LEN
  | .written page idx v => hd.live = true ∧ 1 ≤ cnt page hd.mostRecent ∧
      ∃ p, pages page = some p ∧ p.allocated = idx ∧ idx < PAGE_LEN ∧ p.slots idx = some v

structure OwnInv (s : State) : Prop where
  single : ∀ q, occ s q ≤ 1
  dom : ∀ q, s.pages q = none → occ s q = 0
  pcOk : ∀ (i : Nat) (hd : Handle), s.handles[i]? = some hd → PcOk s.pages hd

structure DataInv (pages : Nat → Option Page) (handed : List (Id × Nat)) : Prop where
  bounds : ∀ q p, pages q = some p → p.allocated ≤ PAGE_LEN ∧ q < MAX_PAGES
  pub : ∀ q p idx, pages q = some p → idx < p.allocated →
    ∃ v, p.slots idx = some v ∧ (make_id q idx, v) ∈ handed
  handedOk : ∀ id v, (id, v) ∈ handed →
    ∃ q idx p, id = make_id q idx ∧ pages q = some p ∧ idx < p.allocated ∧ p.slots idx = some v
  distinct : (handed.map (·.1)).Nodup

def AInv (s : State) : Prop := OwnInv s ∧ DataInv s.pages s.handed

theorem pcOk_frame (pages pages' : Nat → Option Page) (hd : Handle) (h : PcOk pages hd)
    (hf : ∀ page, pcPage hd.pc = some page → pages' page = pages page) : PcOk pages' hd := by
  unfold PcOk at h ⊢
  cases hpc : hd.pc with
  | idle => trivial
  | loaded page idx =>
    rw [hpc] at h hf
    simp only at h ⊢
    rw [hf page rfl]; exact h
  | written page idx v =>
    rw [hpc] at h hf
    simp only at h ⊢
    rw [hf page rfl]; exact h

theorem pcOk_cnt (pages : Nat → Option Page) (hd : Handle) (h : PcOk pages hd) (page : Nat)
    (hp : pcPage hd.pc = some page) : 1 ≤ cnt page hd.mostRecent ∧ (pages page).isSome = true := by
  unfold PcOk at h
  cases hpc : hd.pc with
  | idle => rw [hpc] at hp; cases hp
  | loaded page' idx =>
    rw [hpc] at h hp
    simp only [pcPage, Option.some.injEq] at hp; subst hp
    obtain ⟨_, hc, p, hpg, _⟩ := h
    exact ⟨hc, by rw [hpg]; rfl⟩
  | written page' idx v =>
    rw [hpc] at h hp
    simp only [pcPage, Option.some.injEq] at hp; subst hp
    obtain ⟨_, hc, p, hpg, _⟩ := h
    exact ⟨hc, by rw [hpg]; rfl⟩

/-- two different handles are never inside `allocate` on the same page -/
theorem other_page_ne (s : State) (hinv : OwnInv s) (i j : Nat) (a b : Handle) (hij : i ≠ j)
    (ha : s.handles[i]? = some a) (hb : s.handles[j]? = some b) (page : Nat)
    (hca : 1 ≤ cnt page a.mostRecent) (page' : Nat) (hpb : pcPage b.pc = some page') : page' ≠ page := by
  intro heq
  subst heq
  have hcb := (pcOk_cnt s.pages b (hinv.pcOk j b hb) page' hpb).1
  have h2 := occH_two page' s.handles i j a b hij ha hb
  have h1 := hinv.single page'
  unfold occ at h1
  omega

theorem init_ainv : AInv State.init := by
  refine ⟨⟨?_, ?_, ?_⟩, ⟨?_, ?_, ?_, ?_⟩⟩
  · intro q; exact (by omega : (0 : Nat) + (0 + 0) ≤ 1)
  · intro q _; exact (by omega : (0 : Nat) + (0 + 0) = 0)
  · intro i hd h
    match i with
    | 0 =>
      have : hd = Handle.fresh := by
        have h' : some Handle.fresh = some hd := h
        exact (Option.some.inj h').symm
      subst this; exact True.intro
    | i + 1 =>
      have h' : ([] : List Handle)[i]? = some hd := h
      simp at h'
  · intro q p h; cases h
  · intro q p idx h; cases h
  · intro id v h; cases h
  · exact List.nodup_nil

/-- `handles.set` keeps every other handle -/
theorem pcOk_set (s : State) (pages' : Nat → Option Page) (h : Nat) (hd' : Handle)
    (hinv : OwnInv s) (hget : s.handles[h]? = some (getH s h))
    (hnew : PcOk pages' hd')
    (hframe : ∀ (j : Nat) (b : Handle), j ≠ h → s.handles[j]? = some b → ∀ page, pcPage b.pc = some page → pages' page = s.pages page) :
    ∀ (i : Nat) (hd : Handle), (s.handles.set h hd')[i]? = some hd → PcOk pages' hd := by
  intro i hd hi
  by_cases hih : h = i
  · subst hih
    rw [List.getElem?_set_self (lt_of_get _ _ _ hget)] at hi
    simp only [Option.some.injEq] at hi; subst hi; exact hnew
  · rw [List.getElem?_set_ne hih] at hi
    exact pcOk_frame s.pages pages' hd (hinv.pcOk i hd hi) (hframe i hd (fun e => hih e.symm) hi)

/-! ### the steps preserve the invariant -/

theorem ainv_take (s : State) (h ing page : Nat) (hinv : AInv s)
    (hpre : pre s (.take h ing page) = true) : AInv (apply s (.take h ing page)) := by
  obtain ⟨hown, hdata⟩ := hinv
  simp only [pre, Bool.and_eq_true, beq_iff_eq, Option.isNone_iff_eq_none, takeNonFullPage] at hpre
  obtain ⟨⟨⟨hlive, hpc⟩, _⟩, htake⟩ := hpre
  have hget := getH_live s h hlive
  have key : ∀ q, occ (apply s (.take h ing page)) q ≤ occ s q := by
    intro q
    show cnt q (removeFirst s.nonFull ing) +
      occH q (s.handles.set h (Handle.mk (getH s h).live (insertMR (getH s h).mostRecent ing page) (getH s h).pc)) ≤
      cnt q s.nonFull + occH q s.handles
    have h1 := cnt_removeFirst s.nonFull ing page q htake
    have h2 := occH_set q s.handles h (getH s h)
      (Handle.mk (getH s h).live (insertMR (getH s h).mostRecent ing page) (getH s h).pc) hget
    have h3 := cnt_insertMR_le (getH s h).mostRecent ing page q
    simp only at h2
    omega
  refine ⟨⟨fun q => Nat.le_trans (key q) (hown.single q), ?_, ?_⟩, hdata⟩
  · intro q hq
    have := hown.dom q hq
    have := key q
    omega
  · exact pcOk_set s s.pages h _ hown hget (by simp only [PcOk, hpc]) (fun _ _ _ _ _ _ => rfl)

theorem ainv_push (s : State) (h ing page : Nat) (hinv : AInv s)
    (hpre : pre s (.push h ing page) = true) : AInv (apply s (.push h ing page)) := by
  obtain ⟨hown, hdata⟩ := hinv
  simp only [pre, Bool.and_eq_true, beq_iff_eq, Option.isNone_iff_eq_none, decide_eq_true_eq] at hpre
  obtain ⟨⟨⟨⟨hlive, hpc⟩, hfresh⟩, hmax⟩, _⟩ := hpre
  have hget := getH_live s h hlive
  have key : ∀ q, occ (apply s (.push h ing page)) q ≤ occ s q + (if page = q then 1 else 0) := by
    intro q
    show cnt q s.nonFull +
      occH q (s.handles.set h (Handle.mk (getH s h).live (insertMR (getH s h).mostRecent ing page) (getH s h).pc)) ≤
      cnt q s.nonFull + occH q s.handles + (if page = q then 1 else 0)
    have h2 := occH_set q s.handles h (getH s h)
      (Handle.mk (getH s h).live (insertMR (getH s h).mostRecent ing page) (getH s h).pc) hget
    have h3 := cnt_insertMR_le (getH s h).mostRecent ing page q
    simp only at h2
    omega
  have hpages : ∀ q, (apply s (.push h ing page)).pages q =
      if q = page then some ⟨ing, 0, fun _ => none⟩ else s.pages q := fun _ => rfl
  refine ⟨⟨?_, ?_, ?_⟩, ⟨?_, ?_, ?_, hdata.distinct⟩⟩
  · intro q
    have := key q
    by_cases hq : page = q
    · subst hq
      have := hown.dom page hfresh
      simp only [if_true] at *; omega
    · have := hown.single q
      simp only [hq, if_false] at *; omega
  · intro q hq
    rw [hpages] at hq
    split at hq
    · cases hq
    · next hne =>
      have := key q
      have := hown.dom q hq
      have hne' : ¬ page = q := fun e => hne e.symm
      simp only [hne', if_false] at *; omega
  · refine pcOk_set s _ h _ hown hget (by simp only [PcOk, hpc]) ?_
    intro j b _ hb pg hpg
    have := (pcOk_cnt s.pages b (hown.pcOk j b hb) pg hpg).2
    have hne : pg ≠ page := by
      intro e; subst e; rw [hfresh] at this; cases this
    show (if pg = page then _ else s.pages pg) = s.pages pg
    simp only [hne, if_false]
  · intro q p hq
    rw [hpages] at hq
    split at hq
    · next he =>
      simp only [Option.some.injEq] at hq; subst hq; subst he
      exact ⟨Nat.zero_le _, hmax⟩
    · exact hdata.bounds q p hq
  · intro q p idx hq hidx
    rw [hpages] at hq
    split at hq
    · simp only [Option.some.injEq] at hq; subst hq
      exact absurd hidx (Nat.not_lt_zero _)
    · exact hdata.pub q p idx hq hidx
  · intro id v hmem
    obtain ⟨q, idx, p, hid, hq, hidx, hslot⟩ := hdata.handedOk id v hmem
    refine ⟨q, idx, p, hid, ?_, hidx, hslot⟩
    rw [hpages]
    have hne : q ≠ page := by
      intro e; subst e; rw [hfresh] at hq; cases hq
    simp only [hne, if_false]; exact hq

/-- replacing a handle by one with the same `most_recent_pages` changes no count -/
theorem occ_setH_same (s : State) (h : Nat) (hd' : Handle) (hget : s.handles[h]? = some (getH s h))
    (hmr : hd'.mostRecent = (getH s h).mostRecent) (q : Nat) :
    occH q (s.handles.set h hd') = occH q s.handles := by
  have := occH_set q s.handles h (getH s h) hd' hget
  rw [hmr] at this; omega

theorem ainv_load (s : State) (h page n : Nat) (hinv : AInv s)
    (hpre : pre s (.load h page n) = true) : AInv (apply s (.load h page n)) := by
  obtain ⟨hown, hdata⟩ := hinv
  simp only [pre, Bool.and_eq_true, beq_iff_eq] at hpre
  obtain ⟨⟨hlive, hpc⟩, hpg⟩ := hpre
  have hget := getH_live s h hlive
  simp only [apply]
  split
  case isFalse => exact ⟨hown, hdata⟩
  case isTrue hn =>
  cases hp : s.pages page with
  | none => rw [hp] at hpg; cases hpg
  | some p =>
    rw [hp] at hpg
    simp only [Bool.and_eq_true, beq_iff_eq] at hpg
    obtain ⟨hlk, hnp⟩ := hpg
    have hocc : ∀ q, occ (setH s h (Handle.mk (getH s h).live (getH s h).mostRecent (.loaded page n))) q = occ s q := by
      intro q
      show cnt q s.nonFull + occH q (s.handles.set h _) = cnt q s.nonFull + occH q s.handles
      rw [occ_setH_same s h (Handle.mk (getH s h).live (getH s h).mostRecent (.loaded page n)) hget rfl q]
    refine ⟨⟨fun q => by rw [hocc]; exact hown.single q, fun q hq => by rw [hocc]; exact hown.dom q hq, ?_⟩, hdata⟩
    refine pcOk_set s s.pages h _ hown hget ?_ (fun _ _ _ _ _ _ => rfl)
    exact ⟨hlive, cnt_of_lookup _ _ _ hlk, p, hp, hnp.symm, hn⟩

theorem ainv_write (s : State) (h page slot v : Nat) (hinv : AInv s)
    (hpre : pre s (.write h page slot v) = true) : AInv (apply s (.write h page slot v)) := by
  obtain ⟨hown, hdata⟩ := hinv
  simp only [pre, Bool.and_eq_true, beq_iff_eq] at hpre
  obtain ⟨hlive, hpc⟩ := hpre
  have hget := getH_live s h hlive
  have hok := hown.pcOk h _ hget
  simp only [PcOk, hpc] at hok
  obtain ⟨_, hcnt, p, hp, halloc, hlt⟩ := hok
  simp only [apply, hp]
  have hpages : ∀ q, (setPage (setH s h (Handle.mk (getH s h).live (getH s h).mostRecent (.written page slot v))) page
      { p with slots := fun i => if i = slot then some v else p.slots i }).pages q =
      if q = page then some { p with slots := fun i => if i = slot then some v else p.slots i } else s.pages q :=
    fun _ => rfl
  have hocc : ∀ q, occ (setPage (setH s h (Handle.mk (getH s h).live (getH s h).mostRecent (.written page slot v))) page
      { p with slots := fun i => if i = slot then some v else p.slots i }) q = occ s q := by
    intro q
    show cnt q s.nonFull + occH q (s.handles.set h _) = cnt q s.nonFull + occH q s.handles
    rw [occ_setH_same s h (Handle.mk (getH s h).live (getH s h).mostRecent (.written page slot v)) hget rfl q]
  refine ⟨⟨fun q => by rw [hocc]; exact hown.single q, ?_, ?_⟩, ⟨?_, ?_, ?_, hdata.distinct⟩⟩
  · intro q hq
    rw [hocc]
    apply hown.dom
    rw [hpages] at hq
    split at hq
    · cases hq
    · exact hq
  · refine pcOk_set s _ h _ hown hget ?_ ?_
    · refine ⟨hlive, hcnt, { p with slots := fun i => if i = slot then some v else p.slots i }, ?_, halloc, hlt, ?_⟩
      · exact if_pos rfl
      · exact if_pos rfl
    · intro j b hj hb pg hpg
      have hne := other_page_ne s hown h j (getH s h) b (fun e => hj e.symm) hget hb page hcnt pg hpg
      show (if pg = page then _ else s.pages pg) = s.pages pg
      simp only [hne, if_false]
  · intro q p' hq
    rw [hpages] at hq
    split at hq
    · next he =>
      simp only [Option.some.injEq] at hq; subst hq; subst he
      exact hdata.bounds q p hp
    · exact hdata.bounds q p' hq
  · intro q p' idx hq hidx
    rw [hpages] at hq
    split at hq
    · next he =>
      simp only [Option.some.injEq] at hq; subst hq; subst he
      simp only at hidx ⊢
      have hne : idx ≠ slot := by omega
      simp only [hne, if_false]
      exact hdata.pub q p idx hp hidx
    · exact hdata.pub q p' idx hq hidx
  · intro id w hmem
    obtain ⟨q, idx, p0, hid, hq, hidx, hslot⟩ := hdata.handedOk id w hmem
    by_cases he : q = page
    · subst he
      rw [hp] at hq; simp only [Option.some.injEq] at hq; subst hq
      rw [halloc] at hidx
      have hne : idx ≠ slot := by omega
      refine ⟨q, idx, { p with slots := fun i => if i = slot then some v else p.slots i }, hid,
        by rw [hpages]; exact if_pos rfl, by rw [halloc]; exact hidx, ?_⟩
      show (if idx = slot then some v else p.slots idx) = some w
      rw [if_neg hne]; exact hslot
    · exact ⟨q, idx, p0, hid, by rw [hpages, if_neg he]; exact hq, hidx, hslot⟩

theorem ainv_store (s : State) (h page n : Nat) (hinv : AInv s)
    (hpre : pre s (.store h page n) = true) : AInv (apply s (.store h page n)) := by
  obtain ⟨hown, hdata⟩ := hinv
  simp only [pre, Bool.and_eq_true] at hpre
  obtain ⟨hlive, hm⟩ := hpre
  have hget := getH_live s h hlive
  cases hpc : (getH s h).pc with
  | idle => rw [hpc] at hm; cases hm
  | loaded _ _ => rw [hpc] at hm; cases hm
  | written page' idx v =>
    rw [hpc] at hm
    simp only [Bool.and_eq_true, beq_iff_eq] at hm
    obtain ⟨hpe, hn⟩ := hm
    subst hpe; subst hn
    have hok := hown.pcOk h _ hget
    simp only [PcOk, hpc] at hok
    obtain ⟨_, hcnt, p, hp, halloc, hlt, hslot⟩ := hok
    obtain ⟨hb1, hb2⟩ := hdata.bounds page' p hp
    simp only [apply, hp, hpc]
    have hpages : ∀ q, (setPage (setH s h (Handle.mk (getH s h).live (getH s h).mostRecent .idle)) page'
        { p with allocated := idx + 1 }).pages q =
        if q = page' then some { p with allocated := idx + 1 } else s.pages q := fun _ => rfl
    refine ⟨⟨?_, ?_, ?_⟩, ⟨?_, ?_, ?_, ?_⟩⟩
    · intro q
      show cnt q s.nonFull + occH q (s.handles.set h _) ≤ 1
      rw [occ_setH_same s h (Handle.mk (getH s h).live (getH s h).mostRecent .idle) hget rfl q]
      exact hown.single q
    · intro q hq
      show cnt q s.nonFull + occH q (s.handles.set h _) = 0
      rw [occ_setH_same s h (Handle.mk (getH s h).live (getH s h).mostRecent .idle) hget rfl q]
      apply hown.dom
      have hq' : (if q = page' then some { p with allocated := idx + 1 } else s.pages q) = none := hq
      split at hq'
      · cases hq'
      · exact hq'
    · refine pcOk_set s _ h _ hown hget True.intro ?_
      intro j b hj hb pg hpg
      have hne := other_page_ne s hown h j (getH s h) b (fun e => hj e.symm) hget hb page' hcnt pg hpg
      show (if pg = page' then _ else s.pages pg) = s.pages pg
      simp only [hne, if_false]
    · intro q p' hq
      have hq' : (if q = page' then some { p with allocated := idx + 1 } else s.pages q) = some p' := hq
      split at hq'
      · next he =>
        simp only [Option.some.injEq] at hq'; subst hq'; subst he
        exact ⟨by show idx + 1 ≤ PAGE_LEN; omega, hb2⟩
      · exact hdata.bounds q p' hq'
    · intro q p' i hq hi
      have hq' : (if q = page' then some { p with allocated := idx + 1 } else s.pages q) = some p' := hq
      split at hq'
      · next he =>
        simp only [Option.some.injEq] at hq'; subst hq'; subst he
        have hi' : i < idx + 1 := hi
        by_cases hlt' : i < idx
        · obtain ⟨w, hw1, hw2⟩ := hdata.pub q p i hp (by omega)
          exact ⟨w, hw1, List.mem_cons_of_mem _ hw2⟩
        · have : i = idx := by omega
          subst this
          exact ⟨v, hslot, List.mem_cons_self⟩
      · obtain ⟨w, hw1, hw2⟩ := hdata.pub q p' i hq' hi
        exact ⟨w, hw1, List.mem_cons_of_mem _ hw2⟩
    · intro id w hmem
      have hmem' : (id, w) ∈ (make_id page' idx, v) :: s.handed := hmem
      rcases List.mem_cons.1 hmem' with heq | htail
      · simp only [Prod.mk.injEq] at heq
        obtain ⟨rfl, rfl⟩ := heq
        exact ⟨page', idx, { p with allocated := idx + 1 }, rfl, by rw [hpages]; exact if_pos rfl,
          Nat.lt_succ_self idx, hslot⟩
      · obtain ⟨q, i, p0, hid, hq, hi, hsl⟩ := hdata.handedOk id w htail
        by_cases he : q = page'
        · subst he
          rw [hp] at hq; simp only [Option.some.injEq] at hq; subst hq
          exact ⟨q, i, { p with allocated := idx + 1 }, hid, by rw [hpages]; exact if_pos rfl,
            by show i < idx + 1; omega, hsl⟩
        · exact ⟨q, i, p0, hid, by rw [hpages, if_neg he]; exact hq, hi, hsl⟩
    · show (List.map (·.1) ((make_id page' idx, v) :: s.handed)).Nodup
      rw [List.map_cons, List.nodup_cons]
      refine ⟨?_, hdata.distinct⟩
      intro hmem
      obtain ⟨⟨id, w⟩, hmem', hfst⟩ := List.mem_map.1 hmem
      simp only at hfst
      subst hfst
      obtain ⟨q, i, p0, hid, hq, hi, _⟩ := hdata.handedOk _ w hmem'
      obtain ⟨hq1, hq2⟩ := hdata.bounds q p0 hq
      have hinj := SalsaVerif.Proofs.IdsRoundtrip.make_id_injective q i page' idx hq2 (by omega) hb2 hlt hid.symm
      obtain ⟨rfl, rfl⟩ := hinj
      rw [hp] at hq; simp only [Option.some.injEq] at hq; subst hq
      omega

theorem ainv_dropHandle (s : State) (h : Nat) (order : List Nat) (hinv : AInv s)
    (hpre : pre s (.dropHandle h order) = true) : AInv (apply s (.dropHandle h order)) := by
  obtain ⟨hown, hdata⟩ := hinv
  simp only [pre, Bool.and_eq_true, beq_iff_eq] at hpre
  obtain ⟨⟨hlive, hpc⟩, hdr⟩ := hpre
  have hget := getH_live s h hlive
  cases hd : drain s.nonFull (getH s h).mostRecent order with
  | none => rw [hd] at hdr; cases hdr
  | some nf =>
    simp only [apply, hd]
    have key : ∀ q, occ { setH s h Handle.dead with nonFull := nf } q ≤ occ s q := by
      intro q
      show cnt q nf + occH q (s.handles.set h Handle.dead) ≤ cnt q s.nonFull + occH q s.handles
      have h1 := cnt_drain order _ _ nf q hd
      have h2 := occH_set q s.handles h (getH s h) Handle.dead hget
      have h0 : cnt q Handle.dead.mostRecent = 0 := rfl
      rw [h0] at h2
      omega
    refine ⟨⟨fun q => Nat.le_trans (key q) (hown.single q), ?_, ?_⟩, hdata⟩
    · intro q hq
      have h1 := hown.dom q hq
      have h2 := key q
      rw [h1] at h2
      exact Nat.le_zero.1 h2
    · exact pcOk_set s s.pages h _ hown hget True.intro (fun _ _ _ _ _ _ => rfl)

theorem ainv_release (s : State) (h ing page : Nat) (hinv : AInv s)
    (hpre : pre s (.release h ing page) = true) : AInv (apply s (.release h ing page)) := by
  obtain ⟨hown, hdata⟩ := hinv
  simp only [pre, Bool.and_eq_true, beq_iff_eq] at hpre
  obtain ⟨⟨hlive, hpc⟩, hlk⟩ := hpre
  have hget := getH_live s h hlive
  have key : ∀ q, occ (apply s (.release h ing page)) q ≤ occ s q := by
    intro q
    show cnt q ((ing, page) :: s.nonFull) +
      occH q (s.handles.set h (Handle.mk (getH s h).live (removeKey (getH s h).mostRecent ing) (getH s h).pc)) ≤
      cnt q s.nonFull + occH q s.handles
    have h1 := cnt_removeKey_lookup (getH s h).mostRecent ing page q hlk
    have h2 := occH_set q s.handles h (getH s h)
      (Handle.mk (getH s h).live (removeKey (getH s h).mostRecent ing) (getH s h).pc) hget
    simp only at h2
    simp only [cnt]
    omega
  refine ⟨⟨fun q => Nat.le_trans (key q) (hown.single q), ?_, ?_⟩, hdata⟩
  · intro q hq
    have h1 := hown.dom q hq
    have h2 := key q
    rw [h1] at h2
    exact Nat.le_zero.1 h2
  · exact pcOk_set s s.pages h _ hown hget (by simp only [PcOk, hpc]) (fun _ _ _ _ _ _ => rfl)

theorem ainv_cloneHandle (s : State) (parent : Nat) (hinv : AInv s) :
    AInv (apply s (.cloneHandle parent)) := by
  obtain ⟨hown, hdata⟩ := hinv
  have hocc : ∀ q, occ (apply s (.cloneHandle parent)) q = occ s q := by
    intro q
    show cnt q s.nonFull + occH q (s.handles ++ [Handle.fresh]) = cnt q s.nonFull + occH q s.handles
    rw [occH_append]
    have h0 : cnt q Handle.fresh.mostRecent = 0 := rfl
    rw [h0]; rfl
  refine ⟨⟨fun q => by rw [hocc]; exact hown.single q, fun q hq => by rw [hocc]; exact hown.dom q hq, ?_⟩, hdata⟩
  intro i hd hi
  have hi' : (s.handles ++ [Handle.fresh])[i]? = some hd := hi
  rcases Nat.lt_or_ge i s.handles.length with hlt | hge
  · rw [List.getElem?_append_left hlt] at hi'
    exact hown.pcOk i hd hi'
  · rw [List.getElem?_append_right hge] at hi'
    cases hk : i - s.handles.length with
    | zero =>
      rw [hk] at hi'
      simp only [List.getElem?_cons_zero, Option.some.injEq] at hi'
      subst hi'; exact True.intro
    | succ k =>
      rw [hk] at hi'
      simp at hi'

theorem ainv_step (s s' : State) (l : Label) (hinv : AInv s) (hs : step s l = some s') : AInv s' := by
  unfold step at hs
  split at hs
  case isFalse => cases hs
  case isTrue hpre =>
  simp only [Option.some.injEq] at hs
  subst hs
  cases l with
  | take h ing page => exact ainv_take s h ing page hinv hpre
  | push h ing page => exact ainv_push s h ing page hinv hpre
  | load h page n => exact ainv_load s h page n hinv hpre
  | write h page slot v => exact ainv_write s h page slot v hinv hpre
  | store h page n => exact ainv_store s h page n hinv hpre
  | release h ing page => exact ainv_release s h ing page hinv hpre
  | dropHandle h order => exact ainv_dropHandle s h order hinv hpre
  | cloneHandle parent => exact ainv_cloneHandle s parent hinv

theorem ainv_run : ∀ (ls : List Label) (s s' : State), AInv s → run s ls = some s' → AInv s'
  | [], s, s', hinv, h => by simp only [run, Option.some.injEq] at h; subst h; exact hinv
  | l :: ls, s, s', hinv, h => by
    simp only [run] at h
    split at h
    · next s1 h1 => exact ainv_run ls s1 s' (ainv_step s s1 l hinv h1) h
    · cases h

theorem ainv_reachable (s : State) (h : Reachable s) : AInv s := by
  obtain ⟨ls, h⟩ := h
  exact ainv_run ls _ s init_ainv h

/-! ### consequences -/

theorem cnt_pos_iff_mem (q : Nat) : ∀ l : List (Nat × Nat), 1 ≤ cnt q l ↔ q ∈ l.map (·.2)
  | [] => by simp [cnt]
  | (k, v) :: rest => by
    have ih := cnt_pos_iff_mem q rest
    simp only [cnt, List.map_cons, List.mem_cons]
    by_cases hv : v = q
    · simp only [hv, if_true, true_or, iff_true]; omega
    · have hv' : ¬ q = v := fun e => hv e.symm
      simp only [hv, hv', if_false, false_or, Nat.zero_add]; exact ih

theorem cnt_eq_zero_of_not_mem (q : Nat) (l : List (Nat × Nat)) (h : q ∉ l.map (·.2)) : cnt q l = 0 := by
  have := cnt_pos_iff_mem q l
  rcases Nat.eq_zero_or_pos (cnt q l) with h0 | hpos
  · exact h0
  · exact absurd (this.1 hpos) h

theorem occH_eq_zero_of_not_mem (q : Nat) : ∀ hs : List Handle,
    q ∉ hs.flatMap (fun h => h.mostRecent.map (·.2)) → occH q hs = 0
  | [], _ => rfl
  | h :: hs, hn => by
    simp only [List.flatMap_cons, List.mem_append, not_or] at hn
    simp only [occH, cnt_eq_zero_of_not_mem q _ hn.1, occH_eq_zero_of_not_mem q hs hn.2]

/-- the Bool check of the driver is the invariant -/
theorem singleWriterOk_iff (s : State) : singleWriterOk s = true ↔ ∀ q, occ s q ≤ 1 := by
  unfold singleWriterOk
  rw [List.all_eq_true]
  constructor
  · intro h q
    by_cases hq : q ∈ owned s
    · simpa using h q hq
    · unfold owned at hq
      simp only [List.mem_append, not_or] at hq
      unfold occ
      rw [cnt_eq_zero_of_not_mem q _ hq.1, occH_eq_zero_of_not_mem q _ hq.2]
      omega
  · intro h q _
    simpa using h q

theorem handed_mono_step (s s' : State) (l : Label) (hs : step s l = some s') :
    ∀ x, x ∈ s.handed → x ∈ s'.handed := by
  unfold step at hs
  split at hs
  case isFalse => cases hs
  case isTrue hpre =>
  simp only [Option.some.injEq] at hs
  subst hs
  intro x hx
  cases l with
  | take h ing page => exact hx
  | push h ing page => exact hx
  | load h page n =>
    simp only [apply]; split <;> exact hx
  | write h page slot v =>
    simp only [apply]; split <;> exact hx
  | store h page n =>
    simp only [apply]
    split
    · exact List.mem_cons_of_mem _ hx
    · exact hx
  | release h ing page => exact hx
  | dropHandle h order =>
    simp only [apply]; split <;> exact hx
  | cloneHandle parent => exact hx

theorem handed_mono_run : ∀ (ls : List Label) (s s' : State), run s ls = some s' →
    ∀ x, x ∈ s.handed → x ∈ s'.handed
  | [], s, s', h => by simp only [run, Option.some.injEq] at h; subst h; exact fun _ hx => hx
  | l :: ls, s, s', h => by
    simp only [run] at h
    split at h
    · next s1 h1 => exact fun x hx => handed_mono_run ls s1 s' h x (handed_mono_step s s1 l h1 x hx)
    · cases h

/-- what a reader sees for a handed-out id -/
theorem readSlot_of_handed (s : State) (hinv : AInv s) (page idx v : Nat) (hp : page < MAX_PAGES)
    (hi : idx < PAGE_LEN) (hmem : (make_id page idx, v) ∈ s.handed) : readSlot s page idx = some v := by
  obtain ⟨q, i, p, hid, hq, hlt, hsl⟩ := hinv.2.handedOk _ v hmem
  obtain ⟨hb1, hb2⟩ := hinv.2.bounds q p hq
  obtain ⟨rfl, rfl⟩ := SalsaVerif.Proofs.IdsRoundtrip.make_id_injective page idx q i hp hi hb2 (by omega) hid
  simp only [readSlot, hq, hlt, if_true, hsl]

/-- `store` is enabled only after the slot has been written, and it is what publishes the slot -/
theorem store_after_write (s s' : State) (hinv : AInv s) (h page n : Nat)
    (hs : step s (.store h page n) = some s') :
    ∃ idx v, n = idx + 1 ∧ (getH s h).pc = .written page idx v ∧
      (∃ p, s.pages page = some p ∧ p.slots idx = some v ∧ p.allocated = idx) ∧
      readSlot s page idx = none ∧ readSlot s' page idx = some v ∧
      s'.handed = (make_id page idx, v) :: s.handed := by
  have hinv' := ainv_step s s' _ hinv hs
  unfold step at hs
  split at hs
  case isFalse => cases hs
  case isTrue hpre =>
  simp only [Option.some.injEq] at hs
  simp only [pre, Bool.and_eq_true] at hpre
  obtain ⟨hlive, hm⟩ := hpre
  have hget := getH_live s h hlive
  cases hpc : (getH s h).pc with
  | idle => rw [hpc] at hm; cases hm
  | loaded _ _ => rw [hpc] at hm; cases hm
  | written page' idx v =>
    rw [hpc] at hm
    simp only [Bool.and_eq_true, beq_iff_eq] at hm
    obtain ⟨hpe, hn⟩ := hm
    subst hpe; subst hn
    have hok := hinv.1.pcOk h _ hget
    simp only [PcOk, hpc] at hok
    obtain ⟨_, hcnt, p, hp, halloc, hlt, hslot⟩ := hok
    obtain ⟨_, hb2⟩ := hinv.2.bounds page' p hp
    have hhanded : s'.handed = (make_id page' idx, v) :: s.handed := by
      rw [← hs]; simp only [apply, hp, hpc]
    refine ⟨idx, v, rfl, rfl, ⟨p, hp, hslot, halloc⟩, ?_, ?_, hhanded⟩
    · simp only [readSlot, hp, halloc, Nat.lt_irrefl, if_false]
    · exact readSlot_of_handed s' hinv' page' idx v hb2 hlt (by rw [hhanded]; exact List.mem_cons_self)

/-- the slot write is invisible to readers: it goes to the first unpublished slot -/
theorem write_invisible (s s' : State) (hinv : AInv s) (h page slot v : Nat)
    (hs : step s (.write h page slot v) = some s') :
    readSlot s page slot = none ∧ ∀ q i, readSlot s' q i = readSlot s q i := by
  unfold step at hs
  split at hs
  case isFalse => cases hs
  case isTrue hpre =>
  simp only [Option.some.injEq] at hs
  simp only [pre, Bool.and_eq_true, beq_iff_eq] at hpre
  obtain ⟨hlive, hpc⟩ := hpre
  have hget := getH_live s h hlive
  have hok := hinv.1.pcOk h _ hget
  simp only [PcOk, hpc] at hok
  obtain ⟨_, _, p, hp, halloc, _⟩ := hok
  subst hs
  refine ⟨by simp only [readSlot, hp, halloc, Nat.lt_irrefl, if_false], ?_⟩
  intro q i
  simp only [apply, hp]
  show (match (if q = page then some { p with slots := fun j => if j = slot then some v else p.slots j }
      else s.pages q) with
    | some p' => if i < p'.allocated then p'.slots i else none
    | none => none) = readSlot s q i
  by_cases hq : q = page
  · subst hq
    simp only [if_true, readSlot, hp]
    by_cases hi : i < p.allocated
    · have : i ≠ slot := by omega
      simp only [hi, if_true, this, if_false]
    · simp only [hi, if_false]
  · simp only [hq, if_false, readSlot]
    cases s.pages q <;> rfl

end SalsaVerif.Proofs.AllocLemmas
