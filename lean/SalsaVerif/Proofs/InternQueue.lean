/-
  Helper lemmas for Props/C09.lean: the `RevisionQueue` against its specification.
  Core Lean only.
-/
import SalsaVerif.Model.Intern

namespace SalsaVerif.Proofs.InternQueue
open SalsaVerif.Model.Intern

theorem recOnSnoc {α : Type} {P : List α → Prop} (nil : P [])
    (snoc : ∀ l a, P l → P (l ++ [a])) : ∀ l, P l := by
  intro l
  have h : ∀ r : List α, P r.reverse := by
    intro r
    induction r with
    | nil => simpa using nil
    | cons a t ih => rw [List.reverse_cons]; exact snoc _ _ ih
  simpa using h l.reverse

/-- Record a sequence of revisions (chronological order). -/
def recordAll : RevisionQueue → List Nat → Option RevisionQueue
  | q, [] => some q
  | q, r :: rs =>
    match q.record r with
    | none => none
    | some q' => recordAll q' rs

/-- The strict running maxima of a sequence above `m`, in chronological order: the revisions that
    were strictly newer than everything recorded before them.  For a non-decreasing sequence
    these are exactly its distinct elements `> m` (`ups_mem_of_sorted`, `ups_pairwise`). -/
def ups (m : Nat) : List Nat → List Nat
  | [] => []
  | r :: rs => if r > m then r :: ups r rs else ups m rs

/-- The specified content of a queue of `n` slots after the distinct new revisions `u` (newest
    first) were shifted in. -/
def queueOf (n : Nat) (u : List Nat) : List Nat := (u ++ List.replicate n R1).take n

theorem ups_gt (m : Nat) (rs : List Nat) : ∀ r ∈ ups m rs, r > m := by
  induction rs generalizing m with
  | nil => simp [ups]
  | cons r0 rs ih =>
    intro r hr
    unfold ups at hr
    by_cases h : r0 > m
    · rw [if_pos h] at hr
      rcases List.mem_cons.mp hr with e | hr
      · omega
      · have := ih r0 r hr; omega
    · rw [if_neg h] at hr
      exact ih m r hr

theorem ups_sub (m : Nat) (rs : List Nat) : ∀ r ∈ ups m rs, r ∈ rs := by
  induction rs generalizing m with
  | nil => simp [ups]
  | cons r0 rs ih =>
    intro r hr
    unfold ups at hr
    by_cases h : r0 > m
    · rw [if_pos h] at hr
      rcases List.mem_cons.mp hr with e | hr
      · exact e ▸ List.mem_cons_self
      · exact List.mem_cons_of_mem _ (ih r0 r hr)
    · rw [if_neg h] at hr
      exact List.mem_cons_of_mem _ (ih m r hr)

/-- The recorded maxima are strictly increasing (so: pairwise distinct). -/
theorem ups_pairwise (m : Nat) (rs : List Nat) : (ups m rs).Pairwise (· < ·) := by
  induction rs generalizing m with
  | nil => simp [ups]
  | cons r0 rs ih =>
    unfold ups
    by_cases h : r0 > m
    · rw [if_pos h]
      exact List.pairwise_cons.mpr ⟨fun r hr => ups_gt r0 rs r hr, ih r0⟩
    · rw [if_neg h]; exact ih m

/-- For a non-decreasing sequence every element above `m` is one of the maxima. -/
theorem ups_mem_of_sorted (m : Nat) (rs : List Nat) (hs : rs.Pairwise (· ≤ ·)) :
    ∀ r, r ∈ ups m rs ↔ r ∈ rs ∧ r > m := by
  intro r
  constructor
  · intro h; exact ⟨ups_sub m rs r h, ups_gt m rs r h⟩
  · induction rs generalizing m with
    | nil => simp
    | cons r0 rs ih =>
      rintro ⟨hr, hm⟩
      have hs' := List.pairwise_cons.mp hs
      unfold ups
      by_cases h : r0 > m
      · rw [if_pos h]
        rcases List.mem_cons.mp hr with e | hr
        · exact e ▸ List.mem_cons_self
        · have hle := hs'.1 r hr
          by_cases e : r = r0
          · exact e ▸ List.mem_cons_self
          · exact List.mem_cons_of_mem _ (ih r0 hs'.2 ⟨hr, by omega⟩)
      · rw [if_neg h]
        rcases List.mem_cons.mp hr with e | hr
        · omega
        · exact ih m hs'.2 ⟨hr, hm⟩

theorem queueOf_length (n : Nat) (u : List Nat) : (queueOf n u).length = n := by
  simp [queueOf]

theorem queueOf_cons (n : Nat) (u : List Nat) (r : Nat) (hn : n ≠ 0) :
    queueOf n (r :: u) = r :: (queueOf n u).dropLast := by
  unfold queueOf
  obtain ⟨k, rfl⟩ : ∃ k, n = k + 1 := ⟨n - 1, by omega⟩
  rw [List.cons_append, List.take_succ_cons, List.dropLast_eq_take, List.take_take]
  congr 1
  congr 1
  simp

theorem queueOf_head (n : Nat) (u : List Nat) (hn : n ≠ 0) :
    ∃ rest, queueOf n u = (u.head?.getD R1) :: rest := by
  unfold queueOf
  obtain ⟨k, rfl⟩ : ∃ k, n = k + 1 := ⟨n - 1, by omega⟩
  cases u with
  | nil => exact ⟨List.replicate k R1, by simp [List.replicate_succ]⟩
  | cons a t => exact ⟨(t ++ List.replicate (k + 1) R1).take k, by simp⟩

/-- Main lemma: recording `rs` into the specified queue for `u` gives the specified queue for
    `(ups m rs).reverse ++ u`, where `m` is the newest revision of `u`. -/
theorem recordAll_queueOf (n : Nat) (hn : n ≠ 0) (rs : List Nat) :
    ∀ u : List Nat,
      recordAll ⟨queueOf n u⟩ rs = some ⟨queueOf n ((ups (u.head?.getD R1) rs).reverse ++ u)⟩ := by
  induction rs with
  | nil => intro u; simp [recordAll, ups]
  | cons r rs ih =>
    intro u
    obtain ⟨rest, hq⟩ := queueOf_head n u hn
    unfold recordAll RevisionQueue.record
    simp only [hq]
    by_cases h : u.head?.getD R1 ≥ r
    · rw [if_pos h]
      simp only
      rw [← hq, ih u]
      have : ¬ r > u.head?.getD R1 := by omega
      simp [ups, this]
    · rw [if_neg h]
      simp only
      rw [← hq, ← queueOf_cons n u r hn, ih (r :: u)]
      have : r > u.head?.getD R1 := by omega
      simp [ups, this]

theorem new_eq_queueOf (n : Nat) : RevisionQueue.new (some n) = ⟨queueOf n []⟩ := by
  simp [RevisionQueue.new, queueOf]

/-- The oldest slot of the specified queue. -/
theorem queueOf_getLast (n : Nat) (u : List Nat) (hn : n ≠ 0) :
    (queueOf n u).getLast? = some (if h : n - 1 < u.length then u[n - 1] else R1) := by
  rw [List.getLast?_eq_getElem?, queueOf_length]
  unfold queueOf
  rw [List.getElem?_take]
  have h1 : n - 1 < n := by omega
  rw [if_pos h1]
  by_cases h : n - 1 < u.length
  · rw [dif_pos h, List.getElem?_append_left h, List.getElem?_eq_getElem h]
  · rw [dif_neg h, List.getElem?_append_right (by omega)]
    rw [List.getElem?_replicate]
    rw [if_pos (by omega)]

theorem isPrimed_queueOf (n : Nat) (u : List Nat) (hn : n ≠ 0) (hu : ∀ r ∈ u, r > R1) :
    (RevisionQueue.isPrimed ⟨queueOf n u⟩) = true ↔ n ≤ u.length := by
  unfold RevisionQueue.isPrimed
  simp only [queueOf_getLast n u hn]
  by_cases h : n - 1 < u.length
  · rw [dif_pos h]
    have := hu _ (List.getElem_mem h)
    simp only [decide_eq_true_eq]
    constructor
    · intro _; omega
    · intro _; exact this
  · rw [dif_neg h]
    simp only [decide_eq_true_eq]
    constructor
    · intro h'; exact absurd h' (Nat.lt_irrefl _)
    · intro h'; omega

theorem isStale_queueOf (n : Nat) (u : List Nat) (hn : n ≠ 0) (hu : ∀ r ∈ u, r > R1) (x : Nat) :
    (RevisionQueue.isStale ⟨queueOf n u⟩ x) = true ↔ ∃ h : n - 1 < u.length, x < u[n - 1] := by
  unfold RevisionQueue.isStale
  simp only [queueOf_getLast n u hn]
  by_cases h : n - 1 < u.length
  · rw [dif_pos h]
    have := hu _ (List.getElem_mem h)
    have hne : ¬ u[n - 1] = R1 := by omega
    rw [if_neg hne]
    simp only [decide_eq_true_eq]
    constructor
    · intro h'; exact ⟨h, h'⟩
    · rintro ⟨_, h'⟩; exact h'
  · rw [dif_neg h]
    simp only [if_true]
    constructor
    · intro h'; cases h'
    · rintro ⟨h', _⟩; exact absurd h' h

end SalsaVerif.Proofs.InternQueue
