/-
  Core3 engine (stage S3a): `fresh_of_sok`, specification records, frame invariant, `readDep_ok`,
  `run_ok`.  Core Lean only.
-/
import SalsaVerif.Proofs.Core3Inv

namespace SalsaVerif.Proofs.Core3
open SalsaVerif.Model.Core3

theorem mem_obsPairs {l : List Obs} {d x} (h : (d, x) ∈ obsPairs l) : ∃ o, o ∈ l ∧ o.dep = d ∧ o.val = x := by
  simp only [obsPairs, List.mem_map] at h
  obtain ⟨o, ho, he⟩ := h
  exact ⟨o, ho, (Prod.mk.inj he).1, (Prod.mk.inj he).2⟩

theorem sok_low {P s m} (hI : Inv P s) (ok : MemoOk P s q m) (hd : m.dur = 0) (hs : SOK s m) : m.va = s.cur := by
  have := hI.cur1
  rcases hs with h | h
  · exact h
  · rw [hd] at h
    simp only [lc, if_true] at h
    exact Nat.le_antisymm ok.va_cur h

/-- A memo that passes the shallow test is semantically fresh. -/
theorem fresh_of_sok {P s} (hP : Wf P) (hI : Inv P s) :
    ∀ q m, s.memos q = some m → SOK s m → m.gval = sem P s.inp s.cells q := by
  intro q
  induction q using Nat.strongRecOn with
  | _ q ih =>
    intro m hm hs
    have ok := hI.memo q m hm
    rw [sem_unfold P s.inp s.cells hP q]
    symm
    apply replay_sem _ (P.body q) (obsPairs m.obs) m.gval ok.rep
    intro d x hmem
    obtain ⟨o, ho, hd, hx⟩ := mem_obsPairs hmem
    obtain ⟨hca, hsok⟩ := ok.i3 hs o ho
    cases d with
    | cell c =>
      obtain ⟨hu, _, hc⟩ := ok.cellobs o c ho hd
      simp only [semDep]
      rw [← hx]; exact hc (sok_low hI ok (ok.g6 hu) hs)
    | inp i =>
      have hinfo : depInfo s o.dep = some ⟨(s.inp i).val, (s.inp i).ca, (s.inp i).dur⟩ := by rw [hd]; rfl
      have := (ok.i2 o ho _ hinfo (hca _ hinfo)).1
      simp only [semDep]
      rw [← hx]; exact this
    | qry q' =>
      obtain ⟨hlt, m', hm', _⟩ := ok.i5 o q' ho hd
      have hinfo : depInfo s o.dep = some ⟨m'.gval, m'.ca, m'.dur⟩ := by rw [hd]; simp [depInfo, hm']
      have hval := (ok.i2 o ho _ hinfo (hca _ hinfo)).1
      rw [hd] at hsok
      obtain ⟨m2, hm2, hs2⟩ := hsok
      rw [hm'] at hm2; cases hm2
      have := ih q' hlt m' hm' hs2
      simp only [semDep]
      rw [← this, ← hx]; exact hval

structure FetchSpec (P : Prog) (r : Nat) (fe : FetchFn) : Prop where
  ok : ∀ s q, q < r → Inv P s →
    Inv P (fe s q).1 ∧ Ext s (fe s q).1 r ∧ (fe s q).2.val = sem P s.inp s.cells q ∧
    ∃ m, (fe s q).1.memos q = some m ∧ m.va = s.cur ∧ m.gval = (fe s q).2.val ∧
      m.ca = (fe s q).2.ca ∧ m.dur = (fe s q).2.dur
  hot : ∀ s q m, q < r → Inv P s → s.memos q = some m → m.va = s.cur → fe s q = (s, ⟨m.gval, m.ca, m.dur⟩)

structure McaSpec (P : Prog) (r : Nat) (mc : McaFn) : Prop where
  ok : ∀ s q rev, q < r → Inv P s → (∃ m, s.memos q = some m) →
    Inv P (mc s q rev).1 ∧ Ext s (mc s q rev).1 r ∧
    ∃ m, (mc s q rev).1.memos q = some m ∧ m.va = s.cur ∧ (mc s q rev).2 = decide (m.ca > rev)

/-- what holds of the frame of a running query -/
structure FrInv (s : State) (f : Frame) : Prop where
  ca_le : f.ca ≤ s.cur
  unt : f.untracked = true → f.dur = 0 ∧ f.ca = s.cur
  cellu : ∀ o c, o ∈ f.obs → o.dep = .cell c → f.untracked = true ∧ o.recd = false ∧ s.cells c = o.val
  hasc : f.untracked = true → ∃ o c, o ∈ f.obs ∧ o.dep = .cell c

theorem FrInv.ext {s t r f} (h : Ext s t r) (fi : FrInv s f) : FrInv t f :=
  ⟨by rw [h.cur]; exact fi.ca_le, by rw [h.cur]; exact fi.unt, by rw [h.cells]; exact fi.cellu, fi.hasc⟩

/-- the facts about one fresh observation `o` w.r.t. the state `t` and frame `F` -/
def ObsFact (t : State) (F : Frame) (o : Obs) : Prop :=
  (∃ c, o.dep = .cell c) ∨
  ∃ x, depInfo t o.dep = some x ∧ x.val = o.val ∧ x.ca ≤ F.ca ∧ F.dur ≤ x.dur ∧ (o.recd = false → 3 ≤ x.dur)

theorem readDep_ok {P r fe} (hfe : FetchSpec P r fe) {s : State} {f : Frame} {d : Dep} (hI : Inv P s)
    (fi : FrInv s f) (hr : ∀ q', d = .qry q' → q' < r) :
    Inv P (readDep fe s f d).1 ∧ Ext s (readDep fe s f d).1 r ∧
    (readDep fe s f d).2.1 = semDep P s.inp s.cells d ∧ hot (readDep fe s f d).1 d ∧
    FrInv (readDep fe s f d).1 (readDep fe s f d).2.2 ∧
    f.ca ≤ (readDep fe s f d).2.2.ca ∧ (readDep fe s f d).2.2.dur ≤ f.dur ∧
    ∃ o, (readDep fe s f d).2.2.obs = f.obs ++ [o] ∧ o.dep = d ∧ o.val = (readDep fe s f d).2.1 ∧
      ObsFact (readDep fe s f d).1 (readDep fe s f d).2.2 o := by
  cases d with
  | cell c =>
    simp only [readDep, Frame.pushCell]
    refine ⟨hI, Ext.refl s r, rfl, trivial, ⟨Nat.le_refl _, fun _ => ⟨rfl, rfl⟩, ?_, ?_⟩, fi.ca_le,
      Nat.zero_le _, ⟨.cell c, s.cells c, false⟩, rfl, rfl, rfl, Or.inl ⟨c, rfl⟩⟩
    · intro o c' ho hd
      simp only [List.mem_append, List.mem_singleton] at ho
      rcases ho with ho | ho
      · exact ⟨rfl, (fi.cellu o c' ho hd).2⟩
      · subst ho; cases hd; exact ⟨rfl, rfl, rfl⟩
    · intro _; exact ⟨⟨.cell c, s.cells c, false⟩, c, by simp, rfl⟩
  | inp i =>
    simp only [readDep, Frame.push]
    refine ⟨hI, Ext.refl s r, rfl, trivial, ⟨Nat.max_le.mpr ⟨fi.ca_le, hI.inp_le i⟩, ?_, ?_, ?_⟩,
      Nat.le_max_left _ _, Nat.min_le_left _ _, _, rfl, rfl, rfl, Or.inr ⟨_, rfl, rfl, Nat.le_max_right _ _,
        Nat.min_le_right _ _, ?_⟩⟩
    · intro hu
      obtain ⟨a, b⟩ := fi.unt hu
      simp only [a, b]
      exact ⟨Nat.zero_min _, Nat.max_eq_left (hI.inp_le i)⟩
    · intro o c' ho hd
      simp only [List.mem_append, List.mem_singleton] at ho
      rcases ho with ho | ho
      · exact fi.cellu o c' ho hd
      · subst ho; cases hd
    · intro hu
      obtain ⟨o, c, ho, hd⟩ := fi.hasc hu
      exact ⟨o, c, by simp [ho], hd⟩
    · intro hrec
      have := of_decide_eq_false hrec
      have : (s.inp i).dur = 3 := Decidable.of_not_not this
      simp only [this]; exact Nat.le_refl 3
  | qry q =>
    simp only [readDep, Frame.push]
    obtain ⟨g1, g2, g3, m, g4, g5, g6, g7, g8⟩ := hfe.ok s q (hr q rfl) hI
    generalize fe s q = rd at g1 g2 g3 g4 g5 g6 g7 g8
    have mok := g1.memo q m g4
    have hcale : rd.2.ca ≤ s.cur := by rw [← g7, ← g5]; exact mok.ca_va
    have hinfo : depInfo rd.1 (.qry q) = some rd.2 := by
      simp only [depInfo, g4, Option.map, g6, g7, g8]
    refine ⟨g1, g2, g3, ⟨m, g4, by rw [g5, g2.cur]⟩,
      ⟨by rw [g2.cur]; exact Nat.max_le.mpr ⟨fi.ca_le, hcale⟩, ?_, ?_, ?_⟩,
      Nat.le_max_left _ _, Nat.min_le_left _ _, _, rfl, rfl, rfl,
      Or.inr ⟨rd.2, hinfo, rfl, Nat.le_max_right _ _, Nat.min_le_right _ _, ?_⟩⟩
    · intro hu
      obtain ⟨a, b⟩ := fi.unt hu
      simp only [a, b, g2.cur]
      exact ⟨Nat.zero_min _, Nat.max_eq_left hcale⟩
    · intro o c' ho hd
      simp only [List.mem_append, List.mem_singleton] at ho
      rcases ho with ho | ho
      · rw [g2.cells]; exact fi.cellu o c' ho hd
      · subst ho; cases hd
    · intro hu
      obtain ⟨o, c, ho, hd⟩ := fi.hasc hu
      exact ⟨o, c, by simp [ho], hd⟩
    · intro hrec
      have := of_decide_eq_false hrec
      have : rd.2.dur = 3 := Decidable.of_not_not this
      rw [this]; exact Nat.le_refl 3

theorem obsFact_mono {t t' : State} {F F' : Frame} {o : Obs} {r} (h : Ext t t' r) (hh : hot t o.dep)
    (hca : F.ca ≤ F'.ca) (hdur : F'.dur ≤ F.dur) (ho : ObsFact t F o) : ObsFact t' F' o := by
  rcases ho with hc | ⟨x, h1, h2, h3, h4, h5⟩
  · exact Or.inl hc
  · exact Or.inr ⟨x, depInfo_hot_ext h hh h1, h2, Nat.le_trans h3 hca, Nat.le_trans hdur h4, h5⟩

theorem run_ok {P r fe} (hfe : FetchSpec P r fe) : ∀ b, WfB r b → ∀ s f, Inv P s → FrInv s f →
    Inv P (runBody fe b s f).1 ∧ Ext s (runBody fe b s f).1 r ∧
    (runBody fe b s f).2.2 = evalB (semDep P s.inp s.cells) b ∧
    f.ca ≤ (runBody fe b s f).2.1.ca ∧ (runBody fe b s f).2.1.dur ≤ f.dur ∧
    FrInv (runBody fe b s f).1 (runBody fe b s f).2.1 ∧
    ∃ new, (runBody fe b s f).2.1.obs = f.obs ++ new ∧
      replay b (obsPairs new) = some (runBody fe b s f).2.2 ∧
      ∀ o, o ∈ new → hot (runBody fe b s f).1 o.dep ∧
        ObsFact (runBody fe b s f).1 (runBody fe b s f).2.1 o ∧
        (∀ q', o.dep = .qry q' → q' < r) := by
  intro b hb
  induction hb with
  | ret v =>
    intro s f hI fi
    simp only [runBody]
    exact ⟨hI, Ext.refl s r, rfl, Nat.le_refl _, Nat.le_refl _, fi, [], by simp, by simp [replay, obsPairs],
      by simp⟩
  | read d k hd _ ih =>
    intro s f hI fi
    simp only [runBody]
    obtain ⟨g1, g2, g3, g4, g5, g6, g7, o, g8, g9, g10, g11⟩ := readDep_ok hfe (s := s) (f := f) (d := d) hI fi hd
    generalize readDep fe s f d = rd at g1 g2 g3 g4 g5 g6 g7 g8 g10 g11
    obtain ⟨h1, h2, h3, h4, h5, h6, new, h7, h8, h9⟩ := ih rd.2.1 rd.1 rd.2.2 g1 g5
    refine ⟨h1, Ext.trans g2 h2, ?_, Nat.le_trans g6 h4, Nat.le_trans h5 g7, h6, o :: new, ?_, ?_, ?_⟩
    · rw [h3, g2.inp, g2.cells]; simp only [evalB, g3]
    · rw [h7, g8]; simp
    · simp only [obsPairs, List.map_cons, replay, g9, if_true, g10]
      exact h8
    · intro o' hm
      simp only [List.mem_cons] at hm
      rcases hm with hm | hm
      · subst hm
        have hh : hot rd.1 o'.dep := by rw [g9]; exact g4
        exact ⟨hot_ext h2 hh, obsFact_mono h2 hh h4 h5 g11, by rw [g9]; exact hd⟩
      · exact h9 o' hm

/-- Re-execution follows the recorded reads while their recorded values are the current semantic
    values, so it reads `o.dep` again: `t`, `F` are the state and frame right after that read. -/
theorem run_prefix {P r fe} (hfe : FetchSpec P r fe) : ∀ pre b s f o post,
    WfB r b → Inv P s → FrInv s f →
    (replay b (obsPairs (pre ++ o :: post))).isSome →
    (∀ o', o' ∈ pre → semDep P s.inp s.cells o'.dep = o'.val) →
    ∃ t F, Inv P t ∧ Ext s t r ∧ FrInv t F ∧ hot t o.dep ∧ F.ca ≤ (runBody fe b s f).2.1.ca ∧
      ((∃ c, o.dep = .cell c) → F.ca = s.cur) ∧
      (∀ x, depInfo t o.dep = some x → x.ca ≤ F.ca ∧ x.val = semDep P s.inp s.cells o.dep) ∧
      ((∃ c, o.dep = .cell c) ∨ ∃ x, depInfo t o.dep = some x) := by
  intro pre
  induction pre with
  | nil =>
    intro b s f o post hb hI fi hrep _
    cases hb with
    | ret v => simp [replay, obsPairs] at hrep
    | read d0 k hd hk =>
      simp only [List.nil_append, obsPairs, List.map_cons, replay] at hrep
      split at hrep
      · rename_i hdd
        subst hdd
        simp only [runBody]
        obtain ⟨g1, g2, g3, g4, g5, _, _, o', g8, g9, g10, g11⟩ :=
          readDep_ok hfe (s := s) (f := f) (d := o.dep) hI fi hd
        generalize readDep fe s f o.dep = rd at g1 g2 g3 g4 g5 g8 g10 g11
        have h4 := (run_ok hfe (k rd.2.1) (hk rd.2.1) rd.1 rd.2.2 g1 g5).2.2.2.1
        refine ⟨rd.1, rd.2.2, g1, g2, g5, g4, ?_, ?_, ?_, ?_⟩
        · -- only the frame's stamp matters here, and `run_ok` bounds it for any continuation
          exact h4
        · rintro ⟨c, hc⟩
          have hin : o' ∈ rd.2.2.obs := by rw [g8]; simp
          have hu := (g5.cellu o' c hin (by rw [g9]; exact hc)).1
          rw [(g5.unt hu).2, g2.cur]
        · intro x hx
          rcases g11 with ⟨c, hc⟩ | ⟨x', h1, h2, h3, _⟩
          · rw [g9] at hc; rw [hc] at hx; simp [depInfo] at hx
          · rw [g9] at h1; rw [h1] at hx; cases hx
            exact ⟨h3, by rw [h2, g10, g3]⟩
        · rcases g11 with ⟨c, hc⟩ | ⟨x', h1, _⟩
          · exact Or.inl ⟨c, by rw [← g9]; exact hc⟩
          · exact Or.inr ⟨x', by rw [← g9]; exact h1⟩
      · simp at hrep
  | cons o1 pre ih =>
    intro b s f o post hb hI fi hrep hpre
    cases hb with
    | ret v => simp [replay, obsPairs] at hrep
    | read d0 k hd hk =>
      simp only [List.cons_append, obsPairs, List.map_cons, replay] at hrep
      split at hrep
      · rename_i hdd
        subst hdd
        simp only [runBody]
        obtain ⟨g1, g2, g3, _, g5, _⟩ := readDep_ok hfe (s := s) (f := f) (d := o1.dep) hI fi hd
        generalize readDep fe s f o1.dep = rd at g1 g2 g3 g5
        have hval : rd.2.1 = o1.val := by rw [g3]; exact hpre o1 (by simp)
        rw [hval]
        obtain ⟨t, F, a1, a2, a3, a4, a5, a6, a7, a8⟩ := ih (k o1.val) rd.1 rd.2.2 o post (hk o1.val) g1 g5
          (by simpa [obsPairs] using hrep)
          (fun o' hm => by rw [g2.inp, g2.cells]; exact hpre o' (by simp [hm]))
        refine ⟨t, F, a1, Ext.trans g2 a2, a3, a4, a5, ?_, ?_, a8⟩
        · intro hc; rw [a6 hc, g2.cur]
        · intro x hx; rw [← g2.inp, ← g2.cells]; exact a7 x hx
      · simp at hrep

end SalsaVerif.Proofs.Core3
