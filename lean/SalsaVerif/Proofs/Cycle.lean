/-
  Invariants of the engine model `Model/Cycle.lean` (core Lean only).
-/
import SalsaVerif.Model.Cycle
import SalsaVerif.Proofs.CycleLfp

namespace SalsaVerif.Proofs.Cycle
open SalsaVerif.Model.Cycle

/-! ## small helpers used by the property files -/

/-- the successful result of a request (`Except` has no `DecidableEq`). -/
def okOf {α β : Type} (f : α → β) : Res α → Option β
  | .ok r => some (f r)
  | .error _ => none

def errOf {α : Type} : Res α → Option Panic
  | .ok _ => none
  | .error e => some e

/-- stamps reachable from `initial c` by `k` successful increments. -/
def incrN : Nat → Nat → Option Nat
  | 0, s => some s
  | k + 1, s => (SalsaVerif.Gen.Stamp.IterationStamp.increment_iteration s).bind (incrN k)

/-- an error of the query function comes out of a fetch. -/
theorem evalM_error (env : Nat → Nat) (read : Nat → St → Res Fetched) :
    ∀ (e : Expr) (s : St) (err : Panic), evalM env read e s = .error err →
      ∃ c s0, read c s0 = .error err := by
  intro e
  induction e with
  | const c => intro s err h; simp [evalM] at h
  | input i => intro s err h; simp [evalM] at h
  | call j =>
    intro s err h
    simp only [evalM] at h
    cases hr : read j s with
    | error e' => rw [hr] at h; injection h with h; subst h; exact ⟨j, s, hr⟩
    | ok r => obtain ⟨w, hs1, s1⟩ := r; rw [hr] at h; cases h
  | union a b iha ihb =>
    intro s err h
    simp only [evalM] at h
    cases ha : evalM env read a s with
    | error e' => rw [ha] at h; injection h with h; subst h; exact iha s _ ha
    | ok r =>
      obtain ⟨x, h1, s1⟩ := r
      rw [ha] at h
      simp only at h
      cases hb : evalM env read b s1 with
      | error e' => rw [hb] at h; injection h with h; subst h; exact ihb s1 _ hb
      | ok r2 => obtain ⟨y, h2, s2⟩ := r2; rw [hb] at h; cases h
  | inter a b iha ihb =>
    intro s err h
    simp only [evalM] at h
    cases ha : evalM env read a s with
    | error e' => rw [ha] at h; injection h with h; subst h; exact iha s _ ha
    | ok r =>
      obtain ⟨x, h1, s1⟩ := r
      rw [ha] at h
      simp only at h
      cases hb : evalM env read b s1 with
      | error e' => rw [hb] at h; injection h with h; subst h; exact ihb s1 _ hb
      | ok r2 => obtain ⟨y, h2, s2⟩ := r2; rw [hb] at h; cases h
  | ite i a b iha ihb =>
    intro s err h
    simp only [evalM] at h
    split at h
    · exact iha s err h
    · exact ihb s err h
  | gate c a ihc iha =>
    intro s err h
    simp only [evalM] at h
    cases hc : evalM env read c s with
    | error e' => rw [hc] at h; injection h with h; subst h; exact ihc s _ hc
    | ok r =>
      obtain ⟨x, h1, s1⟩ := r
      rw [hc] at h
      simp only at h
      split at h
      · cases ha : evalM env read a s1 with
        | error e' => rw [ha] at h; injection h with h; subst h; exact iha s1 _ ha
        | ok r2 => obtain ⟨y, h2, s2⟩ := r2; rw [ha] at h; cases h
      · cases h

/-- a gate-free program: every body (also that of an out-of-range node) is gate-free. -/
theorem noGate_node {P : Prog} (h : P.NoGate) (j : Nat) : (P.node j).body.noGate = true := by
  unfold Prog.node
  rw [List.getD_eq_getElem?_getD]
  cases hj : P.nodes[j]? with
  | none => rfl
  | some nd => exact h nd (List.mem_of_getElem? hj)

/-! ## association lists -/

theorem lookup_cons_self {β : Type} (k : Nat) (b : β) (l : List (Nat × β)) :
    ((k, b) :: l).lookup k = some b := by
  simp [List.lookup]

theorem lookup_cons_ne {β : Type} {k c : Nat} (b : β) (l : List (Nat × β)) (h : c ≠ k) :
    ((k, b) :: l).lookup c = l.lookup c := by
  have : (c == k) = false := by simp [h]
  simp [List.lookup, this]

theorem lookup_mem {β : Type} {c : Nat} {b : β} {l : List (Nat × β)}
    (h : l.lookup c = some b) : (c, b) ∈ l := by
  induction l with
  | nil => simp [List.lookup] at h
  | cons p l ih =>
    obtain ⟨k, b'⟩ := p
    by_cases hk : c = k
    · subst hk
      rw [lookup_cons_self] at h
      injection h with h
      subst h
      exact List.mem_cons_self
    · rw [lookup_cons_ne _ _ hk] at h
      exact List.mem_cons_of_mem _ (ih h)

theorem lookup_isSome_of_mem {β : Type} {c : Nat} {b : β} {l : List (Nat × β)}
    (h : (c, b) ∈ l) : (l.lookup c).isSome = true := by
  induction l with
  | nil => cases h
  | cons p l ih =>
    obtain ⟨k, b'⟩ := p
    by_cases hk : c = k
    · subst hk; rw [lookup_cons_self]; rfl
    · rw [lookup_cons_ne _ _ hk]
      cases h with
      | head => exact absurd rfl hk
      | tail _ h => exact ih h

theorem lookup_map_val (l : List (Nat × Entry)) (c : Nat) :
    (l.map (fun p => (p.1, p.2.val))).lookup c = (l.lookup c).map (·.val) := by
  induction l with
  | nil => rfl
  | cons p l ih =>
    obtain ⟨k, e⟩ := p
    by_cases hk : c = k
    · subst hk; simp
    · simp only [List.map_cons]
      rw [lookup_cons_ne _ _ hk, lookup_cons_ne _ _ hk, ih]

theorem lookup_append {β : Type} (l1 l2 : List (Nat × β)) (c : Nat) :
    (l1 ++ l2).lookup c = (l1.lookup c).or (l2.lookup c) := by
  induction l1 with
  | nil => simp [List.lookup]
  | cons p l ih =>
    obtain ⟨k, b⟩ := p
    by_cases hk : c = k
    · subst hk; simp
    · simp only [List.cons_append]
      rw [lookup_cons_ne _ _ hk, lookup_cons_ne _ _ hk, ih]

theorem lookup_substCache (j : Nat) (hc : List Nat) (l : List (Nat × Entry)) (c : Nat) :
    ((substCache j hc l).lookup c).map (·.val) = (l.lookup c).map (·.val) := by
  unfold substCache
  induction l with
  | nil => rfl
  | cons p l ih =>
    obtain ⟨k, e⟩ := p
    by_cases hk : c = k
    · subst hk; simp
    · simp only [List.map_cons]
      rw [lookup_cons_ne _ _ hk, lookup_cons_ne _ _ hk, ih]

theorem lookup_substCache_none (j : Nat) (hc : List Nat) (l : List (Nat × Entry)) (c : Nat) :
    (substCache j hc l).lookup c = none ↔ l.lookup c = none := by
  have := lookup_substCache j hc l c
  constructor
  · intro h; rw [h] at this; cases hl : l.lookup c with
    | none => rfl
    | some e => rw [hl] at this; simp at this
  · intro h; rw [h] at this; cases hl : (substCache j hc l).lookup c with
    | none => rfl
    | some e => rw [hl] at this; simp at this

/-! ## relational evaluation of a body -/

/-- `EvalRel env A e v`: `v` is the value of `e` when every call `j` is answered by some `w`
    with `A j w`. -/
def EvalRel (env : Nat → Nat) (A : Nat → Nat → Prop) : Expr → Nat → Prop
  | .const c, v => v = c % 256
  | .input i, v => v = env i % 256
  | .call j, v => ∃ w, A j w ∧ v = w % 256
  | .union a b, v => ∃ x y, EvalRel env A a x ∧ EvalRel env A b y ∧ v = x ||| y
  | .inter a b, v => ∃ x y, EvalRel env A a x ∧ EvalRel env A b y ∧ v = x &&& y
  | .ite i a b, v => if env i % 256 ≠ 0 then EvalRel env A a v else EvalRel env A b v
  | .gate c a, v => ∃ x, EvalRel env A c x ∧ if x % 2 = 1 then EvalRel env A a v else v = 0

theorem EvalRel.mono {env : Nat → Nat} {A A' : Nat → Nat → Prop} (h : ∀ c w, A c w → A' c w) :
    ∀ {e : Expr} {v : Nat}, EvalRel env A e v → EvalRel env A' e v := by
  intro e
  induction e with
  | const c => intro v hv; exact hv
  | input i => intro v hv; exact hv
  | call j => intro v ⟨w, hw, hv⟩; exact ⟨w, h j w hw, hv⟩
  | union a b iha ihb => intro v ⟨x, y, hx, hy, hv⟩; exact ⟨x, y, iha hx, ihb hy, hv⟩
  | inter a b iha ihb => intro v ⟨x, y, hx, hy, hv⟩; exact ⟨x, y, iha hx, ihb hy, hv⟩
  | ite i a b iha ihb =>
    intro v hv
    simp only [EvalRel] at hv ⊢
    split
    · rename_i hc; rw [if_pos hc] at hv; exact iha hv
    · rename_i hc; rw [if_neg hc] at hv; exact ihb hv
  | gate c a ihc iha =>
    intro v ⟨x, hx, hv⟩
    refine ⟨x, ihc hx, ?_⟩
    split
    · rename_i ho; rw [if_pos ho] at hv; exact iha hv
    · rename_i ho; rw [if_neg ho] at hv; exact hv

/-- upper bound: answers below `ρ` give a value below `evalExpr ρ`. -/
theorem EvalRel.upper {env : Nat → Nat} {A : Nat → Nat → Prop} {ρ : Nat → Nat}
    (h : ∀ c w, A c w → le w (ρ c)) :
    ∀ {e : Expr} {v : Nat}, EvalRel env A e v → le v (evalExpr env ρ e) := by
  intro e
  induction e with
  | const c => intro v hv; rw [hv]; exact le_refl _
  | input i => intro v hv; rw [hv]; exact le_refl _
  | call j => intro v ⟨w, hw, hv⟩; rw [hv]; exact mod_mono (h j w hw)
  | union a b iha ihb => intro v ⟨x, y, hx, hy, hv⟩; rw [hv]; exact or_mono (iha hx) (ihb hy)
  | inter a b iha ihb => intro v ⟨x, y, hx, hy, hv⟩; rw [hv]; exact and_mono (iha hx) (ihb hy)
  | ite i a b iha ihb =>
    intro v hv
    simp only [EvalRel] at hv
    simp only [evalExpr]
    split
    · rename_i hc; rw [if_pos hc] at hv; exact iha hv
    · rename_i hc; rw [if_neg hc] at hv; exact ihb hv
  | gate c a ihc iha =>
    intro v ⟨x, hx, hv⟩
    simp only [evalExpr]
    by_cases ho : x % 2 = 1
    · rw [if_pos ho] at hv
      rw [if_pos (low_mono (ihc hx) ho)]
      exact iha hv
    · rw [if_neg ho] at hv
      rw [hv]; exact zero_le _

/-- lower bound: answers above `ρ` (on the callees) give a value above `evalExpr ρ`. -/
theorem EvalRel.lower {env : Nat → Nat} {A : Nat → Nat → Prop} {ρ : Nat → Nat}
    (h : ∀ c w, A c w → le (ρ c) w) :
    ∀ {e : Expr} {v : Nat}, EvalRel env A e v → le (evalExpr env ρ e) v := by
  intro e
  induction e with
  | const c => intro v hv; rw [hv]; exact le_refl _
  | input i => intro v hv; rw [hv]; exact le_refl _
  | call j => intro v ⟨w, hw, hv⟩; rw [hv]; exact mod_mono (h j w hw)
  | union a b iha ihb => intro v ⟨x, y, hx, hy, hv⟩; rw [hv]; exact or_mono (iha hx) (ihb hy)
  | inter a b iha ihb => intro v ⟨x, y, hx, hy, hv⟩; rw [hv]; exact and_mono (iha hx) (ihb hy)
  | ite i a b iha ihb =>
    intro v hv
    simp only [EvalRel] at hv
    simp only [evalExpr]
    split
    · rename_i hc; rw [if_pos hc] at hv; exact iha hv
    · rename_i hc; rw [if_neg hc] at hv; exact ihb hv
  | gate c a ihc iha =>
    intro v ⟨x, hx, hv⟩
    simp only [evalExpr]
    by_cases ho : evalExpr env ρ c % 2 = 1
    · rw [if_pos ho]
      rw [if_pos (low_mono (ihc hx) ho)] at hv
      exact iha hv
    · rw [if_neg ho]; exact zero_le _

/-- functional answers: the value is `evalExpr`. -/
theorem EvalRel.exact {env : Nat → Nat} {A : Nat → Nat → Prop} {ρ : Nat → Nat}
    (h : ∀ c w, A c w → w = ρ c) {e : Expr} {v : Nat} (hv : EvalRel env A e v) :
    v = evalExpr env ρ e := by
  have h1 : ∀ c w, A c w → le w (ρ c) := fun c w hw => by rw [h c w hw]; exact le_refl _
  have h2 : ∀ c w, A c w → le (ρ c) w := fun c w hw => by rw [h c w hw]; exact le_refl _
  exact le_antisymm (EvalRel.upper h1 hv) (EvalRel.lower h2 hv)

/-- every callee under an assignment `ρ` below the answers was answered (a gate that is open
    under `ρ` was open in the evaluation). -/
theorem EvalRel.answered {env : Nat → Nat} {A : Nat → Nat → Prop} {ρ : Nat → Nat}
    (h : ∀ c w, A c w → le (ρ c) w) :
    ∀ {e : Expr} {v : Nat}, EvalRel env A e v → ∀ c ∈ callees env ρ e, ∃ w, A c w := by
  intro e
  induction e with
  | const c => intro v _ c hc; simp [callees] at hc
  | input i => intro v _ c hc; simp [callees] at hc
  | call j =>
    intro v ⟨w, hw, _⟩ c hc
    simp only [callees, List.mem_singleton] at hc
    subst hc; exact ⟨w, hw⟩
  | union a b iha ihb =>
    intro v ⟨x, y, hx, hy, _⟩ c hc
    simp only [callees, List.mem_append] at hc
    exact hc.elim (iha hx c) (ihb hy c)
  | inter a b iha ihb =>
    intro v ⟨x, y, hx, hy, _⟩ c hc
    simp only [callees, List.mem_append] at hc
    exact hc.elim (iha hx c) (ihb hy c)
  | ite i a b iha ihb =>
    intro v hv c hc
    simp only [EvalRel] at hv
    simp only [callees] at hc
    split at hc
    · rename_i h; rw [if_pos h] at hv; exact iha hv c hc
    · rename_i h; rw [if_neg h] at hv; exact ihb hv c hc
  | gate g a ihg iha =>
    intro v ⟨x, hx, hv⟩ c hc
    simp only [callees, List.mem_append] at hc
    rcases hc with hc | hc
    · exact ihg hx c hc
    · split at hc
      · rename_i ho
        rw [if_pos (low_mono (EvalRel.lower h hx) ho)] at hv
        exact iha hv c hc
      · cases hc

/-- functional answers: every callee under them was answered. -/
theorem EvalRel.answered_exact {env : Nat → Nat} {A : Nat → Nat → Prop} {ρ : Nat → Nat}
    (h : ∀ c w, A c w → w = ρ c) {e : Expr} {v : Nat} (hv : EvalRel env A e v) :
    ∀ c ∈ callees env ρ e, ∃ w, A c w :=
  EvalRel.answered (fun c w hw => by rw [h c w hw]; exact le_refl _) hv

theorem EvalRel.lt {env : Nat → Nat} {A : Nat → Nat → Prop} :
    ∀ {e : Expr} {v : Nat}, EvalRel env A e v → v < 256 := by
  intro e
  induction e with
  | const c => intro v hv; rw [hv]; exact Nat.mod_lt _ (by decide)
  | input i => intro v hv; rw [hv]; exact Nat.mod_lt _ (by decide)
  | call j => intro v ⟨w, _, hv⟩; rw [hv]; exact Nat.mod_lt _ (by decide)
  | union a b iha ihb => intro v ⟨x, y, hx, hy, hv⟩; rw [hv]; exact or_lt_256 (iha hx) (ihb hy)
  | inter a b iha ihb => intro v ⟨x, y, hx, _, hv⟩; rw [hv]; exact and_lt_256 (iha hx)
  | ite i a b iha ihb =>
    intro v hv
    simp only [EvalRel] at hv
    split at hv
    · exact iha hv
    · exact ihb hv
  | gate c a _ iha =>
    intro v ⟨x, _, hv⟩
    split at hv
    · exact iha hv
    · rw [hv]; decide

/-! ## the invariant -/

/-- value of the provisional memo of `c` in this iteration. -/
def cval (s : St) (c : Nat) : Option Nat := (s.cache.lookup c).map (·.val)

/-- some active query is a cycle head. -/
def HeadOn (s : St) : Prop := ∃ k ∈ s.stack, isHead s.prov k = true

/-- `w` is a value a reader can have obtained for `c` in this iteration. -/
def Avail (s : St) (c w : Nat) : Prop :=
  s.final.lookup c = some w ∨ s.prov.lookup c = some w ∨ cval s c = some w

/-- the state only grew (within one iteration). -/
structure Ext (s s' : St) : Prop where
  poisoned : s'.poisoned = s.poisoned
  final : ∀ c w, s.final.lookup c = some w → s'.final.lookup c = some w
  prov : ∀ c w, s.prov.lookup c = some w → s'.prov.lookup c = some w
  cache : ∀ c w, cval s c = some w → cval s' c = some w

theorem Ext.refl (s : St) : Ext s s := ⟨rfl, fun _ _ h => h, fun _ _ h => h, fun _ _ h => h⟩

theorem Ext.trans {s1 s2 s3 : St} (h1 : Ext s1 s2) (h2 : Ext s2 s3) : Ext s1 s3 :=
  ⟨h2.poisoned.trans h1.poisoned,
   fun c w h => h2.final c w (h1.final c w h),
   fun c w h => h2.prov c w (h1.prov c w h), fun c w h => h2.cache c w (h1.cache c w h)⟩

theorem Avail.mono {s s' : St} (h : Ext s s') {c w : Nat} (ha : Avail s c w) : Avail s' c w := by
  rcases ha with ha | ha | ha
  · exact Or.inl (h.final c w ha)
  · exact Or.inr (Or.inl (h.prov c w ha))
  · exact Or.inr (Or.inr (h.cache c w ha))

theorem isHead_mono {s s' : St} (h : Ext s s') {k : Nat} (hp : isHead s.prov k = true) :
    isHead s'.prov k = true := by
  unfold isHead at *
  cases hl : s.prov.lookup k with
  | none => rw [hl] at hp; cases hp
  | some w => rw [h.prov k w hl]; rfl

theorem HeadOn.mono {s s' : St} (h : Ext s s') (hst : ∀ k ∈ s.stack, k ∈ s'.stack)
    (hh : HeadOn s) : HeadOn s' := by
  obtain ⟨k, hk, hp⟩ := hh
  refine ⟨k, hst k hk, ?_⟩
  unfold isHead at *
  cases hl : s.prov.lookup k with
  | none => rw [hl] at hp; cases hp
  | some w => rw [h.prov k w hl]; rfl

section
variable (P : Prog) (env : Nat → Nat)

/-- the invariant of the engine (relative to the least fixpoint of `P` under `env`). -/
structure Inv (s : St) : Prop where
  nodup : s.stack.Nodup
  stackFresh : ∀ x ∈ s.stack, s.cache.lookup x = none ∧ s.final.lookup x = none
  cacheNotFinal : ∀ x, s.cache.lookup x ≠ none → s.final.lookup x = none
  empty : ¬ HeadOn s → s.cache = [] ∧ s.prov = []
  finalOk : ∀ c v, s.final.lookup c = some v → v = lfp P env c
  finalClosed : ∀ x v, s.final.lookup x = some v →
    ∀ c ∈ callees env (lfp P env) (P.node x).body, (s.final.lookup c).isSome = true
  provLe : ∀ c v, s.prov.lookup c = some v → le v (lfp P env c)
  cacheLe : ∀ c v, cval s c = some v → le v (lfp P env c)
  just : ∀ x v, cval s x = some v →
    ∃ v0, EvalRel env (Avail s) (P.node x).body v0 ∧ le v0 v

/-- what a fetch guarantees. -/
def ReadSpec (read : Nat → St → Res Fetched) : Prop :=
  ∀ c s v hs s', Inv P env s → read c s = .ok (v, hs, s') →
    Inv P env s' ∧ s'.stack = s.stack ∧ Ext s s' ∧ Avail s' c v

theorem Inv.avail_le {s : St} (hI : Inv P env s) {c w : Nat} (h : Avail s c w) :
    le w (lfp P env c) := by
  rcases h with h | h | h
  · rw [hI.finalOk c w h]; exact le_refl _
  · exact hI.provLe c w h
  · exact hI.cacheLe c w h

/-- no node uses `FallbackImmediate`. -/
def NoFallback (P : Prog) : Prop := ∀ j v, (P.node j).strat ≠ .fallback v

theorem cycleInitial_zero {P : Prog} (h : NoFallback P) (j : Nat) : cycleInitial P j = 0 := by
  unfold cycleInitial fallbackValue
  cases hs : (P.node j).strat with
  | fallback v => exact absurd hs (h j v)
  | fixpoint b => rfl
  | panic => rfl

theorem participantValue_id {P : Prog} (h : NoFallback P) (j v : Nat) :
    participantValue P j v = v := by
  unfold participantValue
  cases hs : (P.node j).strat with
  | fallback fv => exact absurd hs (h j fv)
  | fixpoint b => rfl
  | panic => rfl

theorem cycleFn_bounds {P : Prog} (h : NoFallback P) (j last v : Nat) :
    le v (cycleFn P j last v) ∧ ∀ u, le v u → le last u → le (cycleFn P j last v) u := by
  unfold cycleFn
  cases hs : (P.node j).strat with
  | fallback fv => exact absurd hs (h j fv)
  | panic => exact ⟨le_refl _, fun u hu _ => hu⟩
  | fixpoint b =>
    cases b with
    | false => exact ⟨le_refl _, fun u hu _ => hu⟩
    | true => exact ⟨le_or_left _ _, fun u hu hl => or_le hu hl⟩

theorem evalM_spec {read : Nat → St → Res Fetched} (hR : ReadSpec P env read) :
    ∀ (e : Expr) (s : St) (v : Nat) (hs : List Nat) (s' : St), Inv P env s →
      evalM env read e s = .ok (v, hs, s') →
      Inv P env s' ∧ s'.stack = s.stack ∧ Ext s s' ∧ EvalRel env (Avail s') e v := by
  intro e
  induction e with
  | const c =>
    intro s v hs s' hI h
    simp only [evalM] at h
    injection h with h; injection h with h1 h; injection h with h2 h3
    subst h1; subst h3
    exact ⟨hI, rfl, Ext.refl _, rfl⟩
  | input i =>
    intro s v hs s' hI h
    simp only [evalM] at h
    injection h with h; injection h with h1 h; injection h with h2 h3
    subst h1; subst h3
    exact ⟨hI, rfl, Ext.refl _, rfl⟩
  | call j =>
    intro s v hs s' hI h
    simp only [evalM] at h
    cases hr : read j s with
    | error e => rw [hr] at h; cases h
    | ok r =>
      obtain ⟨w, hs1, s1⟩ := r
      rw [hr] at h
      injection h with h; injection h with h1 h; injection h with h2 h3
      subst h1; subst h3
      obtain ⟨hI1, hst, hE, hA⟩ := hR j s w hs1 s1 hI hr
      exact ⟨hI1, hst, hE, w, hA, rfl⟩
  | union a b iha ihb =>
    intro s v hs s' hI h
    simp only [evalM] at h
    cases ha : evalM env read a s with
    | error e => rw [ha] at h; cases h
    | ok r =>
      obtain ⟨x, h1, s1⟩ := r
      rw [ha] at h
      simp only at h
      cases hb : evalM env read b s1 with
      | error e => rw [hb] at h; cases h
      | ok r2 =>
        obtain ⟨y, h2, s2⟩ := r2
        rw [hb] at h
        injection h with h; injection h with e1 h; injection h with e2 e3
        subst e1; subst e3
        obtain ⟨hI1, hst1, hE1, hA1⟩ := iha s x h1 s1 hI ha
        obtain ⟨hI2, hst2, hE2, hA2⟩ := ihb s1 y h2 s2 hI1 hb
        exact ⟨hI2, hst2.trans hst1, hE1.trans hE2, x, y,
          EvalRel.mono (fun c w hw => Avail.mono hE2 hw) hA1, hA2, rfl⟩
  | inter a b iha ihb =>
    intro s v hs s' hI h
    simp only [evalM] at h
    cases ha : evalM env read a s with
    | error e => rw [ha] at h; cases h
    | ok r =>
      obtain ⟨x, h1, s1⟩ := r
      rw [ha] at h
      simp only at h
      cases hb : evalM env read b s1 with
      | error e => rw [hb] at h; cases h
      | ok r2 =>
        obtain ⟨y, h2, s2⟩ := r2
        rw [hb] at h
        injection h with h; injection h with e1 h; injection h with e2 e3
        subst e1; subst e3
        obtain ⟨hI1, hst1, hE1, hA1⟩ := iha s x h1 s1 hI ha
        obtain ⟨hI2, hst2, hE2, hA2⟩ := ihb s1 y h2 s2 hI1 hb
        exact ⟨hI2, hst2.trans hst1, hE1.trans hE2, x, y,
          EvalRel.mono (fun c w hw => Avail.mono hE2 hw) hA1, hA2, rfl⟩
  | ite i a b iha ihb =>
    intro s v hs s' hI h
    simp only [evalM] at h
    simp only [EvalRel]
    split at h
    · rename_i hc; rw [if_pos hc]; exact iha s v hs s' hI h
    · rename_i hc; rw [if_neg hc]; exact ihb s v hs s' hI h
  | gate c a ihc iha =>
    intro s v hs s' hI h
    simp only [evalM] at h
    cases hc : evalM env read c s with
    | error e => rw [hc] at h; cases h
    | ok r =>
      obtain ⟨x, h1, s1⟩ := r
      rw [hc] at h
      simp only at h
      obtain ⟨hI1, hst1, hE1, hA1⟩ := ihc s x h1 s1 hI hc
      by_cases ho : x % 2 = 1
      · rw [if_pos ho] at h
        cases ha : evalM env read a s1 with
        | error e => rw [ha] at h; cases h
        | ok r2 =>
          obtain ⟨y, h2, s2⟩ := r2
          rw [ha] at h
          injection h with h; injection h with e1 h; injection h with e2 e3
          subst e1; subst e3
          obtain ⟨hI2, hst2, hE2, hA2⟩ := iha s1 y h2 s2 hI1 ha
          refine ⟨hI2, hst2.trans hst1, hE1.trans hE2, x,
            EvalRel.mono (fun c w hw => Avail.mono hE2 hw) hA1, ?_⟩
          rw [if_pos ho]; exact hA2
      · rw [if_neg ho] at h
        injection h with h; injection h with e1 h; injection h with e2 e3
        subst e1; subst e3
        refine ⟨hI1, hst1, hE1, x, hA1, ?_⟩
        rw [if_neg ho]

/-- what `execute` guarantees for a node that is neither active nor memoised. -/
def ExecSpec (exec : Nat → St → Res Fetched) : Prop :=
  ∀ j s v hs s', Inv P env s → j ∉ s.stack → s.final.lookup j = none → s.cache.lookup j = none →
    exec j s = .ok (v, hs, s') →
    Inv P env s' ∧ s'.stack = s.stack ∧ Ext s s' ∧ Avail s' j v

theorem fetchColdCycle_spec (hNF : NoFallback P) (c : Nat) (s : St) (v : Nat) (hs : List Nat)
    (s' : St) (hI : Inv P env s) (hc : c ∈ s.stack)
    (h : fetchColdCycle P c s = .ok (v, hs, s')) :
    Inv P env s' ∧ s'.stack = s.stack ∧ Ext s s' ∧ Avail s' c v := by
  unfold fetchColdCycle at h
  have key : (match s.prov.lookup c with
      | some v => (Except.ok (v, [c], s) : Res Fetched)
      | none => .ok (cycleInitial P c, [c], { s with prov := (c, cycleInitial P c) :: s.prov }))
      = .ok (v, hs, s') := by
    cases hst : (P.node c).strat with
    | panic => rw [hst] at h; cases h
    | fixpoint b => rw [hst] at h; exact h
    | fallback fv => rw [hst] at h; exact h
  clear h
  cases hl : s.prov.lookup c with
  | some w =>
    rw [hl] at key
    injection key with key; injection key with e1 key; injection key with e2 e3
    subst e1; subst e3
    exact ⟨hI, rfl, Ext.refl _, Or.inr (Or.inl hl)⟩
  | none =>
    rw [hl] at key
    injection key with key; injection key with e1 key; injection key with e2 e3
    subst e1; subst e3
    rw [cycleInitial_zero hNF]
    have hE : Ext s { s with prov := (c, 0) :: s.prov } := by
      refine ⟨rfl, fun _ _ h => h, ?_, fun _ _ h => h⟩
      intro c' w hw
      have : c' ≠ c := by intro e; subst e; rw [hl] at hw; cases hw
      show ((c, 0) :: s.prov).lookup c' = some w
      rw [lookup_cons_ne _ _ this]; exact hw
    refine ⟨?_, rfl, hE, Or.inr (Or.inl (lookup_cons_self _ _ _))⟩
    refine ⟨hI.nodup, hI.stackFresh, hI.cacheNotFinal, ?_, hI.finalOk, hI.finalClosed, ?_,
      hI.cacheLe, ?_⟩
    · intro hno
      exact absurd ⟨c, hc, by simp [isHead]⟩ hno
    · intro c' w hw
      by_cases hcc : c' = c
      · subst hcc
        have hw' : ((c', 0) :: s.prov).lookup c' = some w := hw
        rw [lookup_cons_self] at hw'
        injection hw' with hw'; subst hw'; exact zero_le _
      · have hw' : ((c, 0) :: s.prov).lookup c' = some w := hw
        rw [lookup_cons_ne _ _ hcc] at hw'
        exact hI.provLe c' w hw'
    · intro x w hx
      obtain ⟨v0, hv0, hle⟩ := hI.just x w hx
      exact ⟨v0, EvalRel.mono (fun c w hw => Avail.mono hE hw) hv0, hle⟩

theorem fetch_spec (hNF : NoFallback P) {exec : Nat → St → Res Fetched}
    (hX : ExecSpec P env exec) : ReadSpec P env (fetch P exec) := by
  intro c s v hs s' hI h
  unfold fetch at h
  split at h
  · cases h
  · cases hf : s.final.lookup c with
    | some w =>
      rw [hf] at h
      injection h with h; injection h with e1 h; injection h with e2 e3
      subst e1; subst e3
      exact ⟨hI, rfl, Ext.refl _, Or.inl hf⟩
    | none =>
      rw [hf] at h
      simp only at h
      split at h
      · rename_i hc
        exact fetchColdCycle_spec P env hNF c s v hs s' hI (by simpa using hc) h
      · rename_i hc
        cases hcache : s.cache.lookup c with
        | some e =>
          rw [hcache] at h
          injection h with h; injection h with e1 h; injection h with e2 e3
          subst e1; subst e3
          exact ⟨hI, rfl, Ext.refl _, Or.inr (Or.inr (by simp [cval, hcache]))⟩
        | none =>
          rw [hcache] at h
          exact hX c s v hs s' hI (by simpa using hc) hf hcache h

end

end SalsaVerif.Proofs.Cycle
