/-
  C26 with flattening: tools for the flattening proof — comparing the evaluation above a cut under
  two inputs (both-sided version), splitting a path at an inner edge list, and the
  synchronisation interval handed from a memo to the memos of its edges.  Core Lean only.
-/
import SalsaVerif.Proofs.PersistFlat6f

namespace SalsaVerif.Proofs.PersistFlat
open SalsaVerif.Model.Core SalsaVerif.Model.Persist SalsaVerif.Proofs.Core SalsaVerif.Proofs.Persist

/-- like `cut_same`, but the hypotheses on listed edges are only needed for edges read under both
    inputs by a node reached under both -/
theorem cut_same2 {P} (hP : Wf P) {inp1 inp2 : Nat → Inp} {od : List Dep} {q : Nat}
    (hc : Cut P inp1 od q)
    (hi : ∀ i k', Dep.inp i ∈ od → Reach P inp2 q k' → Dep.inp i ∈ sdeps P inp2 k' →
      (inp1 i).val = (inp2 i).val)
    (hf : ∀ p, Dep.qry p ∈ od → Reach P inp1 q p → Reach P inp2 q p → sem P inp1 p = sem P inp2 p) :
    ∀ k, Above P inp1 od q k → Reach P inp2 q k →
      sem P inp2 k = sem P inp1 k ∧ sdeps P inp2 k = sdeps P inp1 k := by
  intro k
  induction k using Nat.strongRecOn with
  | _ k ih =>
    intro hk hr
    have hall : ∀ d, d ∈ sdeps P inp1 k → semDep P inp1 d = semDep P inp2 d := by
      rcases first_diff (P := P) inp1 inp2 k with ⟨d, d1, d2, hne⟩ | hall
      · exfalso
        apply hne
        cases d with
        | inp i => exact hi i k (hc k hk i d1) hr d2
        | qry k' =>
          have hr' : Reach P inp2 q k' := hr.trans (Reach.step d2 (Reach.refl k'))
          simp only [semDep]
          by_cases hin : Dep.qry k' ∈ od
          · exact hf k' hin (hk.reach.trans (Reach.step d1 (Reach.refl k'))) hr'
          · exact ((ih k' (sdeps_lt hP d1) (Above.step hk d1 hin) hr').1).symm
      · exact hall
    obtain ⟨e1, e2⟩ := eval_same hP hall
    exact ⟨e2, e1⟩

/-- nodes above the cut under `inp1` are reached under `inp2` when the evaluation above the cut
    is the same -/
theorem above_reach2 {P} {inp1 inp2 : Nat → Inp} {od : List Dep} {q : Nat}
    (hs : ∀ k, Above P inp1 od q k → Reach P inp2 q k → sdeps P inp2 k = sdeps P inp1 k) :
    ∀ k, Above P inp1 od q k → Reach P inp2 q k := by
  intro k hk
  induction hk with
  | refl => exact Reach.refl q
  | step hk' hd _ ih =>
    exact ih.trans (Reach.step (by rw [hs _ hk' ih]; exact hd) (Reach.refl _))

/-- a path avoiding the functions of `FL` either avoids the functions of `od` as well, or enters
    a function of `od` that is not in `FL` -/
theorem above_split {P inp} {FL od : List Dep} {k k' : Nat} (h : Above P inp FL k k') :
    Above P inp od k k' ∨ ∃ p, Dep.qry p ∈ od ∧ Dep.qry p ∉ FL ∧ Reach P inp k p ∧ Above P inp FL p k' := by
  induction h with
  | refl => exact Or.inl Above.refl
  | step hk hd hn ih =>
    rename_i k1 k2
    rcases ih with h | ⟨p, a, b, c, d⟩
    · by_cases hin : Dep.qry k2 ∈ od
      · exact Or.inr ⟨k2, hin, hn, h.reach.trans (Reach.step hd (Reach.refl k2)), Above.refl⟩
      · exact Or.inl (Above.step h hd hin)
    · exact Or.inr ⟨p, a, b, c, Above.step d hd hn⟩

/-- the synchronisation hypothesis for a memo of `k` verified at `va`, relative to the anchor `a`:
    the inputs under `k` (as evaluated under `H a`) are constant on an interval `[lo, a]` that
    contains `va` if `va < a` -/
def SyncH (P : Nat → Body) (H : Nat → Nat → Inp) (a k va : Nat) : Prop :=
  ∃ lo, (va < a → lo ≤ va) ∧ ∀ ρ, lo ≤ ρ → ρ ≤ a → ∀ i, Leaf P (H a) k i → H ρ i = H a i

theorem SyncH.agree {P H a k va} (h : SyncH P H a k va) (hlt : va < a) : AgreeOn P (H a) (H va) k := by
  obtain ⟨lo, h1, h2⟩ := h
  intro i hi
  rw [h2 va (h1 hlt) (Nat.le_of_lt hlt) i hi]

/-- from a memo to the memo of one of its edges -/
theorem child_sync {pers P H R0 s a k mk p mp} (hP : Wf P) (hJ : J pers P H R0 s)
    (hmk : s.memos k = some mk) (hS : SyncH P H a k mk.va) (hrp : Reach P (H a) k p)
    (_hmp : s.memos p = some mp) (hle : mk.deepAt ≤ mp.va) : SyncH P H a p mp.va := by
  have h0 := hJ.memo k mk hmk
  have down : ∀ L, (∀ ρ, L ≤ ρ → ρ ≤ a → ∀ i, Leaf P (H a) k i → H ρ i = H a i) →
      (mp.va < a → L ≤ mp.va) → SyncH P H a p mp.va :=
    fun L hc hl => ⟨L, hl, fun ρ h1 h2 i hi => hc ρ h1 h2 i (hi.of_reach hrp)⟩
  by_cases hva : mk.va < a
  · -- the memo of `k` is older than the anchor
    obtain ⟨lo, l1, l2⟩ := hS
    have hag : AgreeOn P (H a) (H mk.va) k := SyncH.agree ⟨lo, l1, l2⟩ hva
    have hag2 : AgreeOn P (H mk.deepAt) (H mk.va) k := by
      intro j hj; rw [h0.j4 j hj mk.va h0.deep_va (Nat.le_refl _)]
    apply down (min lo mk.deepAt)
    · intro ρ h1 h2 i hi
      by_cases hρ : lo ≤ ρ
      · exact l2 ρ hρ h2 i hi
      · have hi2 : Leaf P (H mk.va) k i := (leaf_same hP hag).mp hi
        have hi3 : Leaf P (H mk.deepAt) k i := (leaf_same hP hag2).mpr hi2
        have hd : mk.deepAt ≤ ρ := by
          rcases Nat.le_total lo mk.deepAt with h | h
          · rw [Nat.min_eq_left h] at h1; omega
          · rw [Nat.min_eq_right h] at h1; exact h1
        have hρva : ρ ≤ mk.va := by have := l1 hva; omega
        rw [h0.j4 i hi3 ρ hd hρva, ← h0.j4 i hi3 mk.va h0.deep_va (Nat.le_refl _)]
        exact l2 mk.va (l1 hva) (Nat.le_of_lt hva) i hi
    · intro _; exact Nat.le_trans (Nat.min_le_right _ _) hle
  · -- the memo of `k` was verified at or after the anchor
    have hva' : a ≤ mk.va := by omega
    by_cases hd : mk.deepAt ≤ a
    · have hag : AgreeOn P (H mk.deepAt) (H a) k := by
        intro j hj; rw [h0.j4 j hj a hd hva']
      apply down mk.deepAt
      · intro ρ h1 h2 i hi
        have hi3 : Leaf P (H mk.deepAt) k i := (leaf_same hP hag).mpr hi
        rw [h0.j4 i hi3 ρ h1 (Nat.le_trans h2 hva'), h0.j4 i hi3 a hd hva']
      · intro _; exact hle
    · apply down a
      · intro ρ h1 h2 i _
        have : ρ = a := Nat.le_antisymm h2 h1
        rw [this]
      · intro hlt; omega

end SalsaVerif.Proofs.PersistFlat
