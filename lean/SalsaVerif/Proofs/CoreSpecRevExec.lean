/-
  CoreSpec, histories with writes: `execute` of a node, part 13 — `diff_outputs` / `installNode`
  as a state change confined to the records of `r`, and the assembly of `execOk`.
  Core Lean only.
-/
import SalsaVerif.Proofs.CoreSpecRevInst2

namespace SalsaVerif.Proofs.CoreSpec
namespace X
open SalsaVerif.Model.CoreSpec

/-- `t` is `s` up to the trace -/
structure SameUpTrace (s t : State) : Prop where
  cur : t.cur = s.cur
  lch : t.lch = s.lch
  inp : t.inp = s.inp
  wlog : t.wlog = s.wlog
  memos : t.memos = s.memos
  slots : t.slots = s.slots
  smemos : t.smemos = s.smemos
  panic : t.panic = s.panic

theorem SameUpTrace.refl (s : State) : SameUpTrace s s := ⟨rfl, rfl, rfl, rfl, rfl, rfl, rfl, rfl⟩
theorem sameUpTrace_emit (s : State) (e : Ev) : SameUpTrace s (emit s e) := ⟨rfl, rfl, rfl, rfl, rfl, rfl, rfl, rfl⟩
theorem SameUpTrace.trans {s t u : State} (h1 : SameUpTrace s t) (h2 : SameUpTrace t u) : SameUpTrace s u :=
  ⟨h2.cur.trans h1.cur, h2.lch.trans h1.lch, h2.inp.trans h1.inp, h2.wlog.trans h1.wlog,
   h2.memos.trans h1.memos, h2.slots.trans h1.slots, h2.smemos.trans h1.smemos, h2.panic.trans h1.panic⟩

/-- `delete_entity` of an existing, unlocked struct -/
theorem deleteEntity_some {t : State} {r : Nat} {sl : Slot} (hsl : t.slots r = some sl) (hp : t.panic = none)
    (hpn : (deleteEntity t r).panic = none) :
    sl.upd ≠ t.cur ∧ (deleteEntity t r).cur = t.cur ∧ (deleteEntity t r).lch = t.lch ∧
    (deleteEntity t r).inp = t.inp ∧ (deleteEntity t r).wlog = t.wlog ∧ (deleteEntity t r).memos = t.memos ∧
    (deleteEntity t r).slots r = none ∧ (deleteEntity t r).smemos r = none ∧
    ∀ c, c ≠ r → (deleteEntity t r).slots c = t.slots c ∧ (deleteEntity t r).smemos c = t.smemos c := by
  unfold deleteEntity at hpn ⊢
  rw [hsl] at hpn ⊢
  dsimp only at hpn ⊢
  have hne : sl.upd ≠ t.cur := by
    intro e
    have hd : decide (sl.upd = t.cur) = true := decide_eq_true e
    rw [hd] at hpn
    simp only [failIf, if_true] at hpn
    split at hpn
    · simp only [setSlot_panic, setSMemo_panic, emit_panic] at hpn
      rw [fail_panic_none (by simp [hp])] at hpn; cases hpn
    · simp only [setSlot_panic] at hpn
      rw [fail_panic_none (by simp [hp])] at hpn; cases hpn
  have hd : decide (sl.upd = t.cur) = false := decide_eq_false hne
  rw [hd]
  simp only [failIf_false]
  refine ⟨hne, ?_⟩
  split
  · refine ⟨rfl, rfl, rfl, rfl, rfl, by simp, by simp, ?_⟩
    intro c hc
    exact ⟨by rw [setSlot_other _ _ _ hc]; rfl, by simp only [setSlot_smemos]; rw [setSMemo_other _ _ _ hc]; rfl⟩
  · rename_i hn
    refine ⟨rfl, rfl, rfl, rfl, rfl, by simp, by simpa using hn, ?_⟩
    intro c hc
    exact ⟨by rw [setSlot_other _ _ _ hc]; rfl, rfl⟩

/-- `t` is `s` with the struct and the `spec` memo of `r` removed (up to the trace) -/
structure Deleted (r : Nat) (s t : State) : Prop where
  cur : t.cur = s.cur
  lch : t.lch = s.lch
  inp : t.inp = s.inp
  wlog : t.wlog = s.wlog
  memos : t.memos = s.memos
  slot : t.slots r = none
  smemo : t.smemos r = none
  other : ∀ c, c ≠ r → t.slots c = s.slots c ∧ t.smemos c = s.smemos c

theorem Deleted.emit {r : Nat} {s t : State} (h : Deleted r s t) (e : Ev) : Deleted r s (emit t e) :=
  ⟨h.cur, h.lch, h.inp, h.wlog, h.memos, h.slot, h.smemo, h.other⟩

/-- `diff_outputs`: nothing but events, or the struct of `r` (unlocked) is deleted -/
theorem diff_cases {t1 : State} {r : Nat} {mo : Memo} {f : Frame} {g : Nat} (hp : t1.panic = none)
    (hpn : (diffOutputs t1 r mo f g).panic = none) :
    (SameUpTrace t1 (diffOutputs t1 r mo f g) ∧ (mo.ts.isSome = true ∧ f.ts = none → t1.slots r = none)) ∨
    (mo.ts.isSome = true ∧ f.ts = none ∧ ∃ sl, t1.slots r = some sl ∧ sl.upd ≠ t1.cur ∧
      Deleted r t1 (diffOutputs t1 r mo f g)) := by
  unfold diffOutputs at hpn ⊢
  dsimp only at hpn ⊢
  by_cases hdel : mo.ts.isSome = true ∧ f.ts.isNone = true
  · have hfts : f.ts = none := by
      cases h : f.ts with
      | none => rfl
      | some _ => rw [h] at hdel; simp at hdel
    rw [if_pos hdel] at hpn ⊢
    cases hsl : t1.slots r with
    | none =>
      have e : deleteEntity t1 r = t1 := by unfold deleteEntity; rw [hsl]
      rw [e] at hpn ⊢
      left
      refine ⟨?_, fun _ => rfl⟩
      split
      · exact sameUpTrace_emit t1 _
      · exact SameUpTrace.refl t1
    | some sl =>
      right
      have hpn' : (deleteEntity t1 r).panic = none := by
        split at hpn
        · simpa using hpn
        · exact hpn
      obtain ⟨h0, h1, h2, h3, h4, h5, h6, h7, h8⟩ := deleteEntity_some hsl hp hpn'
      have D : Deleted r t1 (deleteEntity t1 r) := ⟨h1, h2, h3, h4, h5, h6, h7, h8⟩
      refine ⟨hdel.1, hfts, sl, rfl, h0, ?_⟩
      split
      · exact D.emit _
      · exact D
  · rw [if_neg hdel] at hpn ⊢
    left
    refine ⟨?_, ?_⟩
    · split
      · exact sameUpTrace_emit t1 _
      · exact SameUpTrace.refl t1
    · intro h
      exfalso
      apply hdel
      exact ⟨h.1, by rw [h.2]; rfl⟩

theorem installNode_none (t1 : State) (r : Nat) (f : Frame) (v : Val) :
    installNode t1 r none f v = (setMemo t1 r (newMemo t1 f v f.ca), ⟨v, f.ca, f.dur⟩) := by
  unfold installNode newMemo
  simp only [backdate, failIf_false]

theorem backdate_node (mo : Memo) (ho : mo.origin = none) (v : Val) (hg : Option Nat) (fca fdur cur : Nat) :
    backdate (some mo) false v hg fca fdur cur =
      if mo.dur ≤ fdur ∧ mo.value = v ∧ mo.hgen = hg then (mo.ca, decide (fca < mo.ca)) else (fca, false) := by
  simp [backdate, ho]

theorem installNode_some {t1 : State} {r : Nat} {mo : Memo} {f : Frame} {v : Val} (hp : t1.panic = none)
    (ho : mo.origin = none) (hpn : (installNode t1 r (some mo) f v).1.panic = none) :
    ∃ ca' s3, installNode t1 r (some mo) f v = (setMemo s3 r (newMemo t1 f v ca'), ⟨v, ca', f.dur⟩) ∧
      ((mo.dur ≤ f.dur ∧ mo.value = v ∧ mo.hgen = hgenOf t1 v ∧ ca' = mo.ca ∧ mo.ca ≤ f.ca) ∨
       (¬ (mo.dur ≤ f.dur ∧ mo.value = v ∧ mo.hgen = hgenOf t1 v) ∧ ca' = f.ca)) ∧
      s3.panic = none ∧
      ((SameUpTrace t1 s3 ∧ (mo.ts.isSome = true ∧ f.ts = none → t1.slots r = none)) ∨
       (mo.ts.isSome = true ∧ f.ts = none ∧ ∃ sl, t1.slots r = some sl ∧ sl.upd ≠ t1.cur ∧ Deleted r t1 s3)) := by
  unfold installNode at hpn ⊢
  dsimp only at hpn ⊢
  rw [backdate_node mo ho] at hpn ⊢
  by_cases hbd : mo.dur ≤ f.dur ∧ mo.value = v ∧ mo.hgen = hgenOf t1 v
  · rw [if_pos hbd] at hpn ⊢
    dsimp only at hpn ⊢
    have hle : mo.ca ≤ f.ca := by
      apply Nat.le_of_not_lt
      intro hlt
      have hd : decide (f.ca < mo.ca) = true := decide_eq_true hlt
      rw [hd] at hpn
      simp only [failIf, if_true, setMemo_panic] at hpn
      have := diffOutputs_rel primRel_sticky (fail t1 .backdateViolation) r mo f (genOf t1 r) _ (fail_panic_none hp)
      rw [this] at hpn; cases hpn
    have hd : decide (f.ca < mo.ca) = false := decide_eq_false (Nat.not_lt.mpr hle)
    rw [hd] at hpn ⊢
    rw [failIf_false] at hpn ⊢
    have hp3 : (diffOutputs t1 r mo f (genOf t1 r)).panic = none := by simpa using hpn
    exact ⟨mo.ca, _, rfl, Or.inl ⟨hbd.1, hbd.2.1, hbd.2.2, rfl, hle⟩, hp3, diff_cases hp hp3⟩
  · rw [if_neg hbd] at hpn ⊢
    dsimp only at hpn ⊢
    rw [failIf_false] at hpn ⊢
    have hp3 : (diffOutputs t1 r mo f (genOf t1 r)).panic = none := by simpa using hpn
    exact ⟨f.ca, _, rfl, Or.inr ⟨hbd, rfl⟩, hp3, diff_cases hp hp3⟩

/-- the `spec` memo of `r` when only the node memo of `r` changes -/
theorem specOk_keep {P idOf r t1 t2 sm} (U : Upd r t1 t2) (R : UpdR r t1 t2) (hI : Inv P idOf t1)
    (hsl : t2.slots r = t1.slots r) (hsm : t1.smemos r = some sm) : SpecOk P idOf t2 r sm := by
  have ok := hI.smemo r sm hsm
  refine ⟨?_, ?_, ok.noh, ok.hgen, ok.dshape⟩
  · intro ho
    obtain ⟨okD, h2⟩ := ok.derived ho
    obtain ⟨sl, hslot⟩ := hI.smslot r sm hsm
    have hfield : ∀ o, o ∈ sm.obs → o.out = false → atR r o.dep → o.dep = .field r := by
      intro o hm _ hd
      rcases (ok.dshape ho o hm).2 with e | ⟨i, e⟩
      · exact e
      · rw [e] at hd; rcases hd with h | h | h <;> cases h
    have hdi : depInfo t2 (.field r) = depInfo t1 (.field r) := by simp only [depInfo, hsl]
    refine ⟨obsOk_upd U R hI okD ?_ ?_, h2⟩
    · intro _ o hm hout hd x hx
      have e := hfield o hm hout hd
      exact ⟨x, by rw [e, hdi, ← e]; exact hx, Nat.le_refl _⟩
    · intro o hm hout hd L _ a
      have e := hfield o hm hout hd
      refine ⟨?_, ?_, ?_⟩
      · intro x hx
        rw [e, hdi, ← e] at hx
        exact (a.iv x hx).imp id (U.witIff _ _ _).mpr
      · intro c mc hdc hs _
        exfalso
        have hc : c = r := by
          rw [e] at hdc; rcases hdc with h | h <;> cases h; rfl
        subst hc
        rw [hsl, hslot] at hs; cases hs
      · intro c sl' hdc; rw [e] at hdc; cases hdc
  · intro k hk
    obtain ⟨h1, h2, h3, h4, h5, h6⟩ := ok.assigned k hk
    exact ⟨h1, h2, h3, by rw [U.cur]; exact h4, h5, h6⟩

/-- `Inv` after the new memo of `r` is installed (and the struct of `r` possibly deleted), from
    the observer obligations -/
theorem install_inv {P idOf r NB0 s0 old Ro PL t1 t2 f} {v : Val} {ca' : Nat} {ts' : Option (Nat × Nat)}
    {sp' : Option Nat} (hP : Wf2 P idOf) (hI1 : Inv P idOf t1) (fr : FrOk P r t1 f) (U : Upd r t1 t2)
    (hpn : t2.panic = none) (hm2 : t2.memos r = some (newMemo t1 f v ca')) (hnr : ¬ memoSok t1 r)
    (hca : ca' ≤ f.ca) (hrep : replayR r idOf (P.node r) f.obs none none = some ⟨v, ts', sp'⟩)
    (pf : PreFin P idOf r NB0 s0 old Ro PL t1 f v (preOf idOf (P.node r) f.obs) ts' sp')
    (hcase : (t2.slots r = t1.slots r ∧ t2.smemos r = t1.smemos r ∧ (ts' = none → t1.slots r = none)) ∨
      (t2.slots r = none ∧ t2.smemos r = none ∧ ts' = none))
    (hT : ∀ q mp, q ≠ r → t1.memos q = some mp → ObsTr r t1 t2 mp) : Inv P idOf t2 := by
  have R : UpdR r t1 t2 := by
    refine ⟨fun m0 h => ⟨_, hm2, (hI1.node r m0 h).obs.va_cur⟩, ?_, ?_⟩
    · intro sm' h
      rcases hcase with ⟨_, c2, _⟩ | ⟨_, c2, _⟩
      · exact Or.inl (by rw [c2] at h; exact h)
      · rw [c2] at h; cases h
    · intro mc' h
      rw [hm2] at h
      cases h
      exact Or.inr (Nat.le_refl _)
  have hsok2 : memoSok t2 r := ⟨_, hm2, Or.inl (by simp only [newMemo]; exact U.cur.symm)⟩
  -- facts from the way the run ended
  have hts : f.ts.isSome = ts'.isSome := by
    rcases pf with ⟨e, _, e3, _⟩ | ⟨kv, fd, e, e2, _⟩
    · rw [e, e3]; rfl
    · rw [e, e2]; rfl
  have hkid : ∀ k v', ts' = some (k, v') → k = idOf r := by
    intro k v' h
    rcases pf with ⟨e, _⟩ | ⟨kv, fd, e, _, e3, _⟩
    · rw [e] at h; cases h
    · rw [e] at h; cases h; exact e3
  have hsrc : ∀ c, v.h = some c → (c = r ∧ f.ts.isSome = true) ∨
      ∃ o q', o ∈ f.obs ∧ o.out = false ∧ o.dep = .qry q' ∧ o.val.h = some c := by
    intro c hc
    rcases pf with ⟨_, _, _, _, _, _, e7⟩ | ⟨kv, fd, _, e2, _, _, _, _, _, _, e9, _⟩
    · exact Or.inr (e7 c hc)
    · rcases e9 c hc with h | h
      · exact Or.inl ⟨h, e2⟩
      · exact Or.inr h
  have h1 : ts' = none → t2.slots r = none ∧ t2.smemos r = none := by
    intro e
    rcases hcase with ⟨c1, c2, c3⟩ | ⟨c1, c2, _⟩
    · have hs := c3 e
      refine ⟨by rw [c1]; exact hs, ?_⟩
      rw [c2]
      cases hsm : t1.smemos r with
      | none => rfl
      | some sm =>
        obtain ⟨sl, hsl⟩ := hI1.smslot r sm hsm
        rw [hs] at hsl; cases hsl
    · exact ⟨c1, c2⟩
  have h2 : ts' ≠ none → t2.slots r = t1.slots r ∧ t2.smemos r = t1.smemos r := by
    intro e
    rcases hcase with ⟨c1, c2, _⟩ | ⟨_, _, c3⟩
    · exact ⟨c1, c2⟩
    · exact absurd c3 e
  refine inv_upd hI1 U R hpn (fun h => absurd h hnr) hT ?_ ?_ ?_ ?_ ?_ ?_
  · intro m h
    rw [hm2] at h; cases h
    exact nodeOk_new hP U hI1 fr hca hrep rfl hts hkid (tie_new U hI1 fr hrep pf h1 h2) hsrc
  · intro h; rw [hm2] at h; cases h
  · intro sm h
    rcases hcase with ⟨c1, c2, _⟩ | ⟨_, c2, _⟩
    · rw [c2] at h; exact specOk_keep U R hI1 c1 h
    · rw [c2] at h; cases h
  · intro sm h
    rcases hcase with ⟨c1, c2, _⟩ | ⟨_, c2, _⟩
    · rw [c2] at h; rw [c1]; exact hI1.smslot r sm h
    · rw [c2] at h; cases h
  · intro sl h
    rcases hcase with ⟨c1, _, _⟩ | ⟨c1, _, _⟩
    · rw [c1] at h; rw [U.cur]; exact hI1.slot r sl h
    · rw [c1] at h; cases h
  · intro _ _ _; exact Or.inl hsok2

/-- the stamp of the new memo against the old memo `mo`: not lower; and either the run reproduced
    value and durability, or a relevant write lies between the old `verified_at` and the new stamp -/
theorem end_facts {P idOf r NB0 s0 mo Ro PL t1 f} {v : Val} {ca' : Nat} {ts' : Option (Nat × Nat)}
    {sp' : Option Nat} {hg : Option Nat} (hI1 : Inv P idOf t1) (fr : FrOk P r t1 f)
    (hm1 : t1.memos r = some mo) (OF : OldF P idOf NB0 s0 r mo Ro PL)
    (pf : PreFin P idOf r NB0 s0 (some mo) Ro PL t1 f v (preOf idOf (P.node r) f.obs) ts' sp')
    (hbd : (mo.dur ≤ f.dur ∧ mo.value = v ∧ mo.hgen = hg ∧ ca' = mo.ca ∧ mo.ca ≤ f.ca) ∨
       (¬ (mo.dur ≤ f.dur ∧ mo.value = v ∧ mo.hgen = hg) ∧ ca' = f.ca)) :
    ca' ≤ f.ca ∧ mo.ca ≤ ca' ∧ ((v = mo.value ∧ mo.dur ≤ f.dur) ∨ Wit t1 mo.dur mo.va ca') := by
  have okmo := hI1.node r mo hm1
  have hval : Ro.val = mo.value := by
    obtain ⟨R, h1, h2, _⟩ := okmo.rep
    rw [OF.rep] at h1; cases h1; exact h2
  rcases hbd with ⟨b1, b2, _, b4, b5⟩ | ⟨_, b2⟩
  · rw [b4]
    exact ⟨b5, Nat.le_refl _, Or.inl ⟨b2.symm, b1⟩⟩
  · rw [b2]
    have E : (Ro.val = v ∧ mo.obs.map obsProj = f.obs.map obsProj ∧ mo.dur ≤ f.dur) ∨
        Wit t1 mo.dur mo.va f.ca := by
      rcases pf with ⟨_, _, _, _, _, e6, _⟩ | ⟨kv, fd, _, _, _, _, _, _, _, e8, _⟩
      · rcases e6 mo rfl with ⟨a1, a2, a3⟩ | ⟨_, w⟩
        · exact Or.inl ⟨by rw [a1], a2, Nat.le_trans OF.durPL a3⟩
        · exact Or.inr (w.level OF.durPL)
      · rcases e8 mo rfl with ⟨a1, a2, a3⟩ | ⟨_, w⟩
        · exact Or.inl ⟨by rw [a1], a2, a3⟩
        · exact Or.inr w
    refine ⟨Nat.le_refl _, ?_, ?_⟩
    · rcases E with ⟨_, a2, _⟩ | w
      · rcases okmo.m4 with h | ⟨o, ho, hout, h⟩
        · exact Nat.le_trans h fr.ca1
        · obtain ⟨o', ho', e1, _, e3⟩ := obs_twin a2 ho
          obtain ⟨x, hx, _, hc, _⟩ := (fr.rd o' ho' (by rw [e3]; exact hout)).info
          exact Nat.le_trans (h x (by rw [← e1]; exact hx)) hc
      · have := w.lt; have := okmo.obs.ca_va; omega
    · rcases E with ⟨a1, _, a3⟩ | w
      · exact Or.inl ⟨by rw [← a1, hval], a3⟩
      · exact Or.inr w

/-- the facts of the deletion case -/
theorem delF_of {P idOf r NB0 s0 mo Ro PL t1 f} {v : Val} {ca' : Nat} {ts' : Option (Nat × Nat)}
    {sp' : Option Nat} {hg : Option Nat} {sl : Slot} (hP : Wf2 P idOf) (hI1 : Inv P idOf t1)
    (fr : FrOk P r t1 f) (OF : OldF P idOf NB0 s0 r mo Ro PL)
    (hm : t1.memos r = s0.memos r) (hwl : t1.wlog = s0.wlog)
    (pf : PreFin P idOf r NB0 s0 (some mo) Ro PL t1 f v (preOf idOf (P.node r) f.obs) ts' sp')
    (hbd : (mo.dur ≤ f.dur ∧ mo.value = v ∧ mo.hgen = hg ∧ ca' = mo.ca ∧ mo.ca ≤ f.ca) ∨
       (¬ (mo.dur ≤ f.dur ∧ mo.value = v ∧ mo.hgen = hg) ∧ ca' = f.ca))
    (hfts : f.ts = none) (hsl : t1.slots r = some sl) :
    ts' = none ∧ DelF r t1 mo (newMemo t1 f v ca') PL f.ca sl := by
  rcases pf with ⟨e1, _, _, e4, e5, e6, e7⟩ | ⟨kv, fd, _, e2, _⟩
  · refine ⟨e1, ?_⟩
    have hsl0 : s0.slots r = some sl := by rw [← e4]; exact hsl
    have hne : Ro.ts ≠ none := by
      intro h
      have := (OF.tnone h).1
      rw [hsl0] at this; cases this
    have W : Wit t1 PL mo.va f.ca := by
      rcases e6 mo rfl with ⟨a1, _, _⟩ | ⟨_, w⟩
      · exfalso; apply hne; rw [a1]
      · exact w
    cases hro : Ro.ts with
    | none => exact absurd hro hne
    | some kv0 =>
      obtain ⟨k0, v0⟩ := kv0
      obtain ⟨sl1, h1, _, _, h4, h5⟩ := OF.tsome k0 v0 hro
      rw [hsl0] at h1; cases h1
      refine ⟨hsl, h5, h4, OF.durPL, W, ?_, ?_, ?_⟩
      · rcases hbd with ⟨_, b2, _, b4, _⟩ | ⟨_, b2⟩
        · exact Or.inr ⟨b2.symm, b4⟩
        · exact Or.inl b2
      · intro hh
        obtain ⟨o', q', a1, a2, a3, a4⟩ := e7 r hh
        have := (handle_live hP hI1 fr a1 a2 a3 a4).1
        exact Nat.lt_irrefl _ this
      · intro Xm hX
        exact dom_of_old hI1 OF hm e5 hwl hX W
  · rw [hfts] at e2; cases e2

end X
end SalsaVerif.Proofs.CoreSpec
