/-
  The invariant `CInv` of the C16 client layer (Model/SyncClient.lean) and its preservation by every
  client step.
-/
import SalsaVerif.Proofs.SyncClientBase
import SalsaVerif.Model.SyncClient

namespace SalsaVerif.Proofs.SyncClient
open SalsaVerif.Model.SyncDG SalsaVerif.Model.SyncExec SalsaVerif.Model.SyncClient
open SalsaVerif.Proofs.SyncDG SalsaVerif.Proofs.SyncExec

/-- Adjacent frames: the older frame is running and waits for exactly the newer frame's key. -/
def ChainOk (p : Program) : List Frame → Prop
  | [] => True
  | [_] => True
  | fr1 :: fr2 :: rest =>
    fr2.started = true ∧ fr2.done = false ∧ (p.deps fr2.key)[fr2.pc]? = some fr1.key ∧
      ChainOk p (fr2 :: rest)

/-- The key of the thread's top-level request as far as it is still visible in its local state. -/
def rootKey (c : CState) (u : Nat) : Option Nat :=
  match (c.stack u).getLast? with
  | some fr => some fr.key
  | none => c.want u

/-- Thread-local part of the invariant. -/
structure LInv (p : Program) (c : CState) (u : Nat) : Prop where
  desc : ∀ k, c.want u = some k → ∀ k', k' ∈ held c u → p.rank k < p.rank k'
  sorted : (held c u).Pairwise (fun a b => p.rank a < p.rank b)
  exec : ∀ fr, fr ∈ c.stack u →
    (c.x.executing fr.key = some u ↔ (fr.started = true ∧ fr.done = false))
  flags : ∀ fr, fr ∈ c.stack u → fr.done = true → (fr.started = true ∧ c.x.memo fr.key = true)
  wantTop : ∀ k fr rest, c.want u = some k → c.stack u = fr :: rest →
    fr.started = true ∧ fr.done = false ∧ (p.deps fr.key)[fr.pc]? = some k
  chain : ChainOk p (c.stack u)
  vals : ∀ fr, fr ∈ c.stack u → fr.vals = ((p.deps fr.key).take fr.pc).map (eval p)
  root : rootKey c u = none ∨ rootKey c u = c.asked u
  res : ∀ v, c.result u = some v → ∃ k, c.asked u = some k ∧ v = eval p k

structure CInv (p : Program) (c : CState) : Prop where
  x : XInv c.x
  b : BInv c.x.base
  own : ∀ u k, ownedBy c.x.base k u = true ↔ k ∈ held c u
  blocked : ∀ u, (c.x.base.edges u).isSome → ∃ k, c.want u = some k ∧ u ∈ c.x.base.qdeps k
  memo : ∀ k, c.x.memo k = true → c.val k = eval p k
  loc : ∀ u, LInv p c u

theorem CInv_init (p : Program) : CInv p cinit := by
  refine ⟨XInv_init, BInv_init, ?_, ?_, ?_, ?_⟩
  · intro u k; simp [cinit, xinit, held, ownedBy, init]
  · intro u hu; simp [cinit, xinit, init] at hu
  · intro k hk; simp [cinit, xinit] at hk
  · intro u
    constructor <;> simp [cinit, held, ChainOk, rootKey]

/-! ### small helpers -/

theorem xstep_proto {x x' : XState} {op : Op} (h : xstep x (.proto op) = some x') :
    protoOk x op = true ∧ ∃ b, step x.base op = some b ∧ x' = { x with base := b } := by
  simp only [xstep] at h
  cases hok : protoOk x op with
  | false => simp [hok] at h
  | true =>
    simp only [hok, if_true, Option.map_eq_some_iff] at h
    obtain ⟨b, hb, rfl⟩ := h
    exact ⟨rfl, b, hb, rfl⟩

theorem step_binv {s s' : State} {op : Op} (hg : GInv s []) (hb : BInv s) (hs : step s op = some s') :
    BInv s' := by
  unfold step at hs
  cases ha : stepA s op with
  | none => simp [ha] at hs
  | some pr =>
    obtain ⟨s1, ans⟩ := pr
    simp only [ha, Option.map_some, Option.some.injEq] at hs
    subst hs
    exact stepA_binv hg hb ha

theorem held_cons {c : CState} {u : Nat} {fr : Frame} {rest : List Frame} (h : c.stack u = fr :: rest) :
    held c u = fr.key :: rest.map (·.key) := by simp [held, h]

/-- Two different threads never hold the same key. -/
theorem held_disjoint {p : Program} {c : CState} (h : CInv p c) {u v k : Nat} (hu : k ∈ held c u)
    (hv : k ∈ held c v) : u = v :=
  ownedBy_unique ((h.own u k).mpr hu) ((h.own v k).mpr hv)

/-- The local invariant of a thread whose local state is untouched. -/
theorem LInv_other {p : Program} {c c' : CState} {u : Nat} (h : LInv p c u)
    (hs : c'.stack u = c.stack u) (hw : c'.want u = c.want u) (ha : c'.asked u = c.asked u)
    (hr : c'.result u = c.result u)
    (he : ∀ fr, fr ∈ c.stack u → c'.x.executing fr.key = c.x.executing fr.key)
    (hm : ∀ fr, fr ∈ c.stack u → c.x.memo fr.key = true → c'.x.memo fr.key = true) : LInv p c' u := by
  have hh : held c' u = held c u := by simp [held, hs]
  constructor
  · intro k hk k' hk'; rw [hw] at hk; rw [hh] at hk'; exact h.desc k hk k' hk'
  · rw [hh]; exact h.sorted
  · intro fr hfr; rw [hs] at hfr; rw [he fr hfr]; exact h.exec fr hfr
  · intro fr hfr hd; rw [hs] at hfr
    exact ⟨(h.flags fr hfr hd).1, hm fr hfr (h.flags fr hfr hd).2⟩
  · intro k fr rest hk hst; rw [hw] at hk; rw [hs] at hst; exact h.wantTop k fr rest hk hst
  · rw [hs]; exact h.chain
  · intro fr hfr; rw [hs] at hfr; exact h.vals fr hfr
  · simp only [rootKey, hs, hw, ha]; exact h.root
  · intro v hv; rw [hr] at hv; rw [ha]; exact h.res v hv

theorem chainOk_tail {p : Program} {fr : Frame} {rest : List Frame} (h : ChainOk p (fr :: rest)) :
    ChainOk p rest := by
  cases rest with
  | nil => trivial
  | cons fr2 r => exact h.2.2.2

/-- Changing fields of the top frame other than `key` keeps the chain (it only mentions the key of
    the newer frame). -/
theorem chainOk_top {p : Program} {fr fr' : Frame} {rest : List Frame} (hk : fr'.key = fr.key)
    (h : ChainOk p (fr :: rest)) : ChainOk p (fr' :: rest) := by
  cases rest with
  | nil => trivial
  | cons fr2 r => exact ⟨h.1, h.2.1, by rw [hk]; exact h.2.2.1, h.2.2.2⟩

theorem getLast?_top {fr fr' : Frame} {rest : List Frame} (hk : fr'.key = fr.key) :
    ((fr' :: rest).getLast?.map (·.key)) = ((fr :: rest).getLast?.map (·.key)) := by
  cases rest with
  | nil => simp [hk]
  | cons a r => simp [List.getLast?_cons_cons]

theorem rootKey_eq {c : CState} {u : Nat} :
    rootKey c u = match ((c.stack u).getLast?.map (·.key)) with
      | some k => some k
      | none => c.want u := by
  unfold rootKey
  cases (c.stack u).getLast? <;> rfl

/-! ### `deliver` -/

theorem deliver_nil {c : CState} {t v : Nat} (h : c.stack t = []) :
    deliver c t v = { c with want := upd c.want t none, result := upd c.result t (some v) } := by
  simp [deliver, h]

theorem deliver_cons {c : CState} {t v : Nat} {fr : Frame} {rest : List Frame} (h : c.stack t = fr :: rest) :
    deliver c t v = { c with want := upd c.want t none, stack := upd c.stack t ({ fr with pc := fr.pc + 1, vals := fr.vals ++ [v] } :: rest) } := by
  simp [deliver, h]

theorem take_succ_map {l : List Nat} {n k : Nat} (f : Nat → Nat) (h : l[n]? = some k) :
    (l.take (n + 1)).map f = (l.take n).map f ++ [f k] := by
  rw [List.take_add_one, h]; simp

/-- Handing the value of key `k` to thread `t`, which is waiting for exactly that key. -/
theorem deliver_cinv {p : Program} {c : CState} {t v k : Nat} (h : CInv p c)
    (he : c.x.base.edges t = none) (hv : v = eval p k)
    (hfr : ∀ fr rest, c.stack t = fr :: rest →
      fr.started = true ∧ fr.done = false ∧ (p.deps fr.key)[fr.pc]? = some k)
    (hroot : c.stack t = [] → c.asked t = some k) : CInv p (deliver c t v) := by
  cases hst : c.stack t with
  | nil =>
    rw [deliver_nil hst]
    refine ⟨h.x, h.b, ?_, ?_, h.memo, ?_⟩
    · intro u k'; exact h.own u k'
    · intro u hu
      obtain ⟨k', hk', hq⟩ := h.blocked u hu
      have hut : u ≠ t := by rintro rfl; simp only at hu; rw [he] at hu; simp at hu
      exact ⟨k', by simp only; rw [upd_other _ _ _ _ hut]; exact hk', hq⟩
    · intro u
      by_cases hut : u = t
      · subst hut
        have hl := h.loc u
        constructor
        · intro k' hk'; simp at hk'
        · exact hl.sorted
        · intro fr hfr'; simp only [hst] at hfr'; simp at hfr'
        · intro fr hfr'; simp only [hst] at hfr'; simp at hfr'
        · intro k' fr rest hk'; simp at hk'
        · simp only [hst]; trivial
        · intro fr hfr'; simp only [hst] at hfr'; simp at hfr'
        · left; simp [rootKey, hst]
        · intro v' hv'
          simp only [upd_same, Option.some.injEq] at hv'
          subst hv'
          exact ⟨k, hroot hst, hv⟩
      · refine LInv_other (h.loc u) rfl ?_ rfl ?_ (fun _ _ => rfl) (fun _ _ hm => hm)
        · simp only; rw [upd_other _ _ _ _ hut]
        · simp only; rw [upd_other _ _ _ _ hut]
  | cons fr rest =>
    rw [deliver_cons hst]
    obtain ⟨hfs, hfd, hfk⟩ := hfr fr rest hst
    have hheld : ∀ u, held ({ c with want := upd c.want t none, stack := upd c.stack t ({ fr with pc := fr.pc + 1, vals := fr.vals ++ [v] } :: rest) } : CState) u = held c u := by
      intro u
      by_cases hut : u = t
      · subst hut; simp [held, hst]
      · simp [held, upd_other _ _ _ _ hut]
    refine ⟨h.x, h.b, ?_, ?_, h.memo, ?_⟩
    · intro u k'; rw [hheld]; exact h.own u k'
    · intro u hu
      obtain ⟨k', hk', hq⟩ := h.blocked u hu
      have hut : u ≠ t := by rintro rfl; simp only at hu; rw [he] at hu; simp at hu
      exact ⟨k', by simp only; rw [upd_other _ _ _ _ hut]; exact hk', hq⟩
    · intro u
      by_cases hut : u = t
      · subst hut
        have hl := h.loc u
        have hmem : ∀ fr', fr' ∈ ({ fr with pc := fr.pc + 1, vals := fr.vals ++ [v] } :: rest) →
            (fr' = { fr with pc := fr.pc + 1, vals := fr.vals ++ [v] }) ∨ fr' ∈ c.stack u := by
          intro fr' hfr'
          simp only [List.mem_cons] at hfr'
          rcases hfr' with h1 | h1
          · exact Or.inl h1
          · exact Or.inr (by rw [hst]; simp [h1])
        have hfrm : fr ∈ c.stack u := by rw [hst]; simp
        constructor
        · intro k' hk'; simp at hk'
        · rw [hheld]; exact hl.sorted
        · intro fr' hfr'
          simp only [upd_same] at hfr'
          rcases hmem fr' hfr' with rfl | h1
          · exact hl.exec fr hfrm
          · exact hl.exec fr' h1
        · intro fr' hfr' hd
          simp only [upd_same] at hfr'
          rcases hmem fr' hfr' with rfl | h1
          · exact hl.flags fr hfrm hd
          · exact hl.flags fr' h1 hd
        · intro k' fr' rest' hk'; simp at hk'
        · simp only [upd_same]
          exact chainOk_top (fr := fr) rfl (hst ▸ hl.chain)
        · intro fr' hfr'
          simp only [upd_same] at hfr'
          rcases hmem fr' hfr' with rfl | h1
          · simp only
            rw [take_succ_map (eval p) hfk, ← hl.vals fr hfrm, hv]
          · exact hl.vals fr' h1
        · have := hl.root
          rw [rootKey_eq] at this ⊢
          simp only [upd_same]
          rw [getLast?_top (fr := fr) (fr' := { fr with pc := fr.pc + 1, vals := fr.vals ++ [v] }) rfl]
          rw [hst] at this
          cases hg : ((fr :: rest).getLast?.map (·.key)) with
          | none => simp at hg
          | some kk => simp only [hg] at this ⊢; exact this
        · exact hl.res
      · refine LInv_other (h.loc u) ?_ ?_ rfl rfl (fun _ _ => rfl) (fun _ _ hm => hm)
        · simp only; rw [upd_other _ _ _ _ hut]
        · simp only; rw [upd_other _ _ _ _ hut]

end SalsaVerif.Proofs.SyncClient
