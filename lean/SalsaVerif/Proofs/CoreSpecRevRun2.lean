/-
  CoreSpec, histories with writes: `execute` of a node, part 9 — running the body, phase MID
  (directly after the `create`: zero or more `specify`, then phase POST).  Core Lean only.
-/
import SalsaVerif.Proofs.CoreSpecRevRun1

namespace SalsaVerif.Proofs.CoreSpec
namespace X
open SalsaVerif.Model.CoreSpec

/-- the old memo (if any) against the state `t0` before the `create` -/
structure OCtx (P : Prog) (idOf : Nat → Nat) (NB0 : Prop) (r : Nat) (t0 : State) (old : Option Memo)
    (Ro : SemRes) (PL : Nat) : Prop where
  some : ∀ mo, old = some mo → OldF P idOf NB0 t0 r mo Ro PL
  none : old = none → t0.memos r = none ∧ t0.slots r = none ∧ t0.smemos r = none

/-- the `spec` memo of `r` during phase MID: untouched before the `specify`, the new `Assigned`
    memo after it -/
def SpSt (r : Nat) (t0 t : State) (f : Frame) (fd : Nat) : Option Nat → Prop
  | none => t.smemos r = t0.smemos r ∧ f.hasOut r = false
  | some w => ∃ A, t.smemos r = some A ∧ A.origin = some r ∧ A.value = ⟨w, none⟩ ∧ A.va = t.cur ∧
      A.dur = fd ∧ f.hasOut r = true

/-- the `spec` memo of `r` at the end of the run: the new `Assigned` memo, or what was there before
    — and then an `Assigned` memo left over is stale -/
def SpFin (r : Nat) (t0 t' : State) (fd : Nat) : Option Nat → Prop
  | some w => ∃ A, t'.smemos r = some A ∧ A.origin = some r ∧ A.value = ⟨w, none⟩ ∧ A.va = t'.cur ∧ A.dur = fd
  | none => t'.smemos r = t0.smemos r ∧
      ∀ A, t0.smemos r = some A → A.origin ≠ none → Wit t' A.dur A.va t'.cur

structure MidH (P : Prog) (idOf : Nat → Nat) (r : Nat) (fe : FetchFn) (NB0 : Prop) (t0 : State)
    (old : Option Memo) (Ro : SemRes) (PL : Nat) (kv : Nat × Nat) (sp : Option Nat) (fd : Nat)
    (H : Nat → Prop) (t : State) (f : Frame) (b : Body) : Prop where
  inv : Inv P idOf t
  nb : NB t r
  fr : FrOk P r t f
  hs : HSrc H f.obs
  ts : f.ts.isSome = true
  fdur : f.dur = fd
  memo : t.memos r = t0.memos r
  memo0 : t0.memos r = old
  wl : t.wlog = t0.wlog
  nsok : ∀ mo, old = some mo → ¬ SOK t mo
  slot : ∃ sl, t.slots r = some sl ∧ sl.upd = t.cur ∧
    (sl.fca ≤ f.ca ∨ ∃ sl0, t0.slots r = some sl0 ∧ sl.fca = sl0.fca)
  spst : SpSt r t0 t f fd sp
  trk : TrkO idOf r old Ro NB0 (fun _ => PL) (fun _ _ _ => True) t f b (some kv) sp
  hot : sp = none → ∀ Xm, t.smemos r = some Xm → Xm.va = t.cur → ¬ NB0
  pn : (runBody fe (fetchSpec P.spec) (some r) b t f).1.panic = none

structure MidC (P : Prog) (idOf : Nat → Nat) (r : Nat) (t0 : State) (old : Option Memo) (Ro : SemRes)
    (kv : Nat × Nat) (sp : Option Nat) (fd : Nat) (t : State) (f : Frame) (b : Body)
    (t' : State) (f' : Frame) (v : Val) : Prop where
  inv : Inv P idOf t'
  nb : NB t' r
  fr : FrOk P r t' f'
  ext : Ext t t' (r + 1)
  memo : t'.memos r = t.memos r
  slots : t'.slots r = t.slots r
  fts : f'.ts = f.ts
  fseed : f'.seed = f.seed
  fdur : f'.dur ≤ f.dur
  fca : f.ca ≤ f'.ca
  rep : ∃ new sp', f'.obs = f.obs ++ new ∧
    replayR r idOf b new (some kv) sp = some ⟨v, some kv, sp'⟩ ∧ SpFin r t0 t' fd sp' ∧
    EndTrk idOf r old Ro Memo.dur True t' f' ⟨v, some kv, sp'⟩
  hsrc : ∀ c, v.h = some c → c = r ∨ ∃ o q', o ∈ f'.obs ∧ o.out = false ∧ o.dep = .qry q' ∧ o.val.h = some c

/-- recording the output edge -/
theorem frOk_addOut {P r s f} (fi : FrOk P r s f) (v : Nat) (hout : f.hasOut r = false) :
    FrOk P r s (f.addOut r v) ∧ (f.addOut r v).obs = f.obs ++ [⟨.spec r, ⟨v, none⟩, true, true⟩] ∧
    (f.addOut r v).ca = f.ca ∧ (f.addOut r v).dur = f.dur ∧ (f.addOut r v).seed = f.seed := by
  have e : f.addOut r v = { f with obs := f.obs ++ [⟨.spec r, ⟨v, none⟩, true, true⟩] } := by
    unfold Frame.addOut; rw [hout]; simp
  rw [e]
  refine ⟨⟨fi.ca_le, fi.ca1, fi.dur3, ?_, ?_, ?_, ?_⟩, rfl, rfl, rfl, rfl⟩
  · intro o ho hout'
    simp only [List.mem_append, List.mem_singleton] at ho
    rcases ho with ho | ho
    · have a := fi.rd o ho hout'
      exact ⟨a.below, a.hot, a.info, a.sem⟩
    · subst ho; cases hout'
  · intro o ho hout'
    simp only [List.mem_append, List.mem_singleton] at ho
    rcases ho with ho | ho
    · exact fi.out o ho hout'
    · subst ho; exact ⟨rfl, rfl⟩
  · rcases fi.att with a | ⟨o, ho, hout', x, hx, hc⟩
    · exact Or.inl a
    · exact Or.inr ⟨o, by simp [ho], hout', x, hx, hc⟩
  · exact hdOk_snoc fi.hd (Or.inl rfl)

/-- the end of phase MID: the rest of the body is a POST-phase body -/
theorem mid_end {P idOf r fe NB0 t0 old Ro PL kv sp fd H t f b} (hP : Wf2 P idOf) (hfe : FetchSpec P idOf r fe)
    (hfs : SpecFetchOk P idOf (fetchSpec P.spec)) (hst : RelF Sticky fe)
    (hpost : Wf2B idOf r .post H b) (OC : OCtx P idOf NB0 r t0 old Ro PL)
    (h : MidH P idOf r fe NB0 t0 old Ro PL kv sp fd H t f b) :
    MidC P idOf r t0 old Ro kv sp fd t f b (runBody fe (fetchSpec P.spec) (some r) b t f).1
      (runBody fe (fetchSpec P.spec) (some r) b t f).2.1 (runBody fe (fetchSpec P.spec) (some r) b t f).2.2 := by
  have PH : PostH P idOf r fe old Ro kv sp H t f b := by
    refine ⟨h.inv, h.nb, h.fr, h.hs, h.ts, h.memo.trans h.memo0, ?_, h.pn⟩
    intro mo hmo
    exact trk_weaken (h.trk mo hmo) (OC.some mo hmo).durPL (fun _ _ => trivial) rfl rfl rfl rfl (fun _ => trivial)
  have hrun := runPost hP hfe hfs hst old Ro kv sp hpost rfl t f PH
  unfold PostC at hrun
  generalize runBody fe (fetchSpec P.spec) (some r) b t f = R at hrun
  obtain ⟨a, ⟨new, b2, b3, _⟩, b5, b6⟩ := hrun
  have hsm' : R.1.smemos r = t.smemos r := a.ext.above_sm r (Nat.le_refl _)
  have hwl' : R.1.wlog = t0.wlog := a.ext.wlog.trans h.wl
  refine ⟨a.inv, a.nb, a.fr, a.ext.weaken (Nat.le_succ r), a.ext.above_m r (Nat.le_refl _),
    a.ext.above_s r (Nat.le_refl _), a.ts, a.seed, a.dur, a.ca, ⟨new, sp, b2, b3, ?_, b6⟩, b5⟩
  cases sp with
  | some w =>
    obtain ⟨A, hA, h1, h2, h3, h4, _⟩ := h.spst
    exact ⟨A, by rw [hsm']; exact hA, h1, h2, by rw [h3, a.ext.cur], h4⟩
  | none =>
    obtain ⟨hsm, _⟩ := h.spst
    refine ⟨hsm'.trans hsm, ?_⟩
    intro A hA0 hor
    cases hold : old with
    | none =>
      have := (OC.none hold).2.2
      rw [hA0] at this; cases this
    | some mo =>
      have OF := OC.some mo hold
      have hne : Ro.ts ≠ none := by
        intro hh
        have := (OF.tnone hh).2
        rw [hA0] at this; cases this
      have hmo : t.memos r = some mo := by rw [h.memo]; exact OF.memo
      have hva : mo.va ≤ R.1.cur := by rw [a.ext.cur]; exact (h.inv.node r mo hmo).obs.va_cur
      have stale : Ro.sp = none → Wit R.1 A.dur A.va R.1.cur := by
        intro hsp
        exact ((wit_of_wlog hwl' _ _ _).mpr (OF.stale hne hsp A hA0 hor)).mono hva
      rcases h.trk mo hold with ⟨orem, a', _, _⟩ | ⟨hn0, W⟩
      · apply stale
        exact replay_post_keep hpost rfl orem kv none Ro (fun o ho => OF.shape o (a'.sub o ho)) a'.rep
      · cases hsp : Ro.sp with
        | none => exact stale hsp
        | some w0 =>
          obtain ⟨A', hA', _, _, hAd, _⟩ := OF.asg w0 hne hsp
          rw [hA0] at hA'; cases hA'
          obtain ⟨w', d, hw, hd, hlo, hhi⟩ := W
          rw [h.wl] at hw
          have hlt := OF.aord hn0 w0 hsp A hA0 w' d hw (by rw [hAd]; exact hd) hlo
          refine ⟨w', d, by rw [hwl']; exact hw, by rw [hAd]; exact hd, hlt, ?_⟩
          rw [a.ext.cur]
          exact Nat.le_trans hhi h.fr.ca_le

theorem not_memoSok_of {r : Nat} {t : State} {old : Option Memo} (hm : t.memos r = old)
    (hns : ∀ mo, old = some mo → ¬ SOK t mo) : ¬ memoSok t r := by
  rintro ⟨m, h1, h2⟩
  rw [hm] at h1
  exact hns m h1 h2

/-- the run of a MID-phase body -/
theorem runMid {P idOf r fe NB0 t0 old Ro PL kv fd} (hP : Wf2 P idOf) (hfe : FetchSpec P idOf r fe)
    (hfs : SpecFetchOk P idOf (fetchSpec P.spec)) (hst : RelF Sticky fe)
    (OC : OCtx P idOf NB0 r t0 old Ro PL) :
    ∀ {ph H b}, Wf2B idOf r ph H b → ph = .mid → ∀ (sp : Option Nat) (t : State) (f : Frame),
      MidH P idOf r fe NB0 t0 old Ro PL kv sp fd H t f b →
      MidC P idOf r t0 old Ro kv sp fd t f b (runBody fe (fetchSpec P.spec) (some r) b t f).1
        (runBody fe (fetchSpec P.spec) (some r) b t f).2.1 (runBody fe (fetchSpec P.spec) (some r) b t f).2.2 := by
  intro ph H b hb
  induction hb with
  | retPre H v hv => intro h; cases h
  | retPost H v hv => intro h; cases h
  | inp ph H i k hne _ _ => intro hp; exact absurd hp hne
  | qry ph H q k hne _ _ _ => intro hp; exact absurd hp hne
  | field ph H c k hne _ _ _ => intro hp; exact absurd hp hne
  | spec ph H c k hne _ _ _ => intro hp; exact absurd hp hne
  | ident ph H c k hne _ _ _ => intro hp; exact absurd hp hne
  | create H idk v k _ _ _ => intro h; cases h
  | create2 H idk v k _ _ _ => intro h; cases h
  | mid H b hpost _ => intro _ sp t f h; exact mid_end hP hfe hfs hst hpost OC h
  | specify H c v k _ ih =>
    intro hp sp t f h
    have hpn := h.pn
    simp only [runBody] at hpn ⊢
    cases sp with
    | some w' =>
      exfalso
      obtain ⟨A, hA, hAo, _, hAva, _, hout⟩ := h.spst
      by_cases hc : r = c
      · subst hc
        rw [specify_twice t f r v A r h.ts hA hAva hAo hout] at hpn
        exact fail_contra h.inv.pn (run_sticky hst _ _ _ _) hpn
      · rw [specify_foreign t (some r) f c v (Or.inl (fun e => hc (Option.some.inj e)))] at hpn
        exact fail_contra h.inv.pn (run_sticky hst _ _ _ _) hpn
    | none =>
      obtain ⟨hsm, hout⟩ := h.spst
      have hp1 : (specifyAndRecord t (some r) f c v).1.panic = none :=
        sticky_none (run_sticky hst _ _ _ _) hpn
      have step : c = r ∧ specifyAndRecord t (some r) f c v = installAssigned t f r v ∧
          SpOut P idOf r t (installAssigned t f r v).1 f v := by
        cases hold : old with
        | some mo =>
          exact specify_some h.inv (OC.some mo hold) h.memo hsm h.wl (h.nsok mo hold) h.slot h.fr h.ts hout
            (h.trk mo hold) (h.hot rfl) hp1
        | none =>
          obtain ⟨x1, _, x3⟩ := OC.none hold
          obtain ⟨sl, y1, y2, _⟩ := h.slot
          exact specify_none h.inv (by rw [h.memo]; exact x1) (by rw [hsm]; exact x3) ⟨sl, y1, y2⟩ h.fr h.ts hp1
      obtain ⟨hc, heq, so⟩ := step
      have hf2 : (installAssigned t f r v).2 = f.addOut r v := (installAssigned_facts t f r v).2.2.2.2
      rw [heq] at hpn ⊢
      rw [hf2] at hpn ⊢
      obtain ⟨fr2, ho2, hca2, hd2, hseed2⟩ := frOk_addOut (frOk_upd so.upd h.fr) v hout
      have hnr : ¬ memoSok t r := not_memoSok_of (h.memo.trans h.memo0) h.nsok
      generalize (installAssigned t f r v).1 = t2 at hpn so fr2 ⊢
      have MH : MidH P idOf r fe NB0 t0 old Ro PL kv (some v) fd H t2 (f.addOut r v) k := by
        refine ⟨so.inv, nb_upd so.upd h.nb, fr2, by rw [ho2]; exact hsrc_append h.hs,
          by rw [addOut_ts]; exact h.ts, hd2.trans h.fdur, so.memos.trans h.memo, h.memo0,
          so.upd.wlog.trans h.wl, fun mo hmo hs => h.nsok mo hmo ((so.upd.sokIff mo).mp hs), ?_, ?_, ?_,
          (fun hh => by cases hh), hpn⟩
        · obtain ⟨sl, y1, y2, y3⟩ := h.slot
          exact ⟨sl, by rw [so.slots]; exact y1, by rw [y2, so.upd.cur], by rw [hca2]; exact y3⟩
        · obtain ⟨A, a1, a2, a3, a4, a5⟩ := so.sm
          exact ⟨A, a1, a2, a3, by rw [a4, so.upd.cur], a5.trans h.fdur, addOut_hasOut f r v⟩
        · intro mo hmo
          exact trk_specify (h.trk mo hmo) so.upd.wlog ho2 hd2 hca2 (fun _ => trivial)
      have res := ih hp (some v) t2 (f.addOut r v) MH
      generalize runBody fe (fetchSpec P.spec) (some r) k t2 (f.addOut r v) = R at res
      obtain ⟨new, sp', e1, e2, e3, e4⟩ := res.rep
      refine ⟨res.inv, res.nb, res.fr, (ext_of_upd so.upd so.memos hnr).trans res.ext,
        res.memo.trans so.memos, res.slots.trans so.slots, res.fts.trans (addOut_ts f r v),
        res.fseed.trans hseed2, Nat.le_trans res.fdur (Nat.le_of_eq hd2), by rw [← hca2]; exact res.fca,
        ⟨⟨.spec r, ⟨v, none⟩, true, true⟩ :: new, sp', by rw [e1, ho2]; simp, ?_, e3, e4⟩, res.hsrc⟩
      simp only [replayR, hc, Option.isSome_some, and_self, if_true]
      exact e2

end X
end SalsaVerif.Proofs.CoreSpec
