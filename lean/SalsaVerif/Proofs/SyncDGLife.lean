/-
  Per-step effects of the transfer-free protocol: the thread life cycle (W5 "exactly once"),
  the delivery of results on release (W6) and the cycle answer of `try_claim` (c19_cycle_reported).
-/
import SalsaVerif.Proofs.SyncDGProto

namespace SalsaVerif.Proofs.SyncDG
open SalsaVerif.Model.SyncDG

theorem status_idle {s : State} {t : Nat} :
    status s t = .idle ↔ s.edges t = none ∧ s.results t = none := by
  unfold status
  cases he : s.edges t <;> cases hr : s.results t <;> simp

theorem status_blocked {s : State} {t : Nat} : status s t = .blocked ↔ (s.edges t).isSome := by
  unfold status
  cases he : s.edges t <;> cases hr : s.results t <;> simp

theorem status_ready {s : State} {t : Nat} :
    status s t = .ready ↔ s.edges t = none ∧ (s.results t).isSome := by
  unfold status
  cases he : s.edges t <;> cases hr : s.results t <;> simp

theorem status_congr {s s' : State} {t : Nat} (he : s'.edges t = s.edges t)
    (hr : s'.results t = s.results t) : status s' t = status s t := by
  unfold status; rw [he, hr]

theorem Lifecycle_same {s s' : State} {op : Op} (he : s'.edges = s.edges) (hr : s'.results = s.results) :
    Lifecycle s s' op := by
  intro t
  exact Or.inl ⟨status_congr (by rw [he]) (by rw [hr]), by rw [hr]⟩

/-- Re-basing the pre-state (used to get rid of the ghost `touch`). -/
theorem Lifecycle_pre {s0 s s' : State} {op : Op} (he : s0.edges = s.edges) (hr : s0.results = s.results)
    (h : Lifecycle s0 s' op) : Lifecycle s s' op := by
  intro t
  have hst : status s0 t = status s t := status_congr (by rw [he]) (by rw [hr])
  have := h t
  rw [hst, hr] at this
  exact this

/-- The effect of a claim/peek on the graph maps: nothing, or exactly one new edge of the caller. -/
inductive ClaimEffect (s0 s' : State) (t k : Nat) (blk : Bool) (ans : Answer) : Prop
  | none (he : s'.edges = s0.edges) (hq : s'.qdeps = s0.qdeps) (hr : s'.results = s0.results)
      (ha : ∀ o, ans ≠ .claim (.running o) true)
  | edge (id : Nat) (hblk : blk = true) (hne : t ≠ id) (hdep : ¬ Path s0.edges id t)
      (he : s'.edges = upd s0.edges t (some id))
      (hq : s'.qdeps = upd s0.qdeps k (s0.qdeps k ++ [t])) (hr : s'.results = s0.results)
      (ha : ans = .claim (.running id) true)

theorem finishClaim_effect {s1 s' : State} {t k id : Nat} {blk : Bool} {a : ClaimAnswer} {ans : Answer}
    (hb : block s1 t id = some a) (hf : finishClaim t k blk (s1, a) = some (s', ans)) :
    ClaimEffect s1 s' t k blk ans := by
  rcases block_eq hb with rfl | ⟨rfl, hne, hd⟩
  · simp only [finishClaim, Option.some.injEq, Prod.mk.injEq] at hf
    obtain ⟨rfl, rfl⟩ := hf
    exact .none rfl rfl rfl (by intro o; simp)
  · cases blk with
    | false =>
      simp only [finishClaim, Bool.false_eq_true, if_false, Option.some.injEq, Prod.mk.injEq] at hf
      obtain ⟨rfl, rfl⟩ := hf
      exact .none rfl rfl rfl (by intro o; simp)
    | true =>
      simp only [finishClaim, if_true] at hf
      cases ha : addEdge s1 t k id with
      | none => simp [ha] at hf
      | some s2 =>
        simp only [ha, Option.some.injEq, Prod.mk.injEq] at hf
        obtain ⟨rfl, rfl⟩ := hf
        obtain ⟨_, _, hdd, rfl⟩ := addEdge_eq ha
        exact .edge id rfl hne (dependsOnLoop_false _ _ hdd).1 rfl rfl rfl rfl

theorem claim_effect {s0 s' : State} {t k : Nat} {re blk : Bool} {r : State × ClaimAnswer} {ans : Answer}
    (h : PInvB s0) (hc : tryClaim s0 t k re = some r) (hf : finishClaim t k blk r = some (s', ans)) :
    ClaimEffect s0 s' t k blk ans := by
  obtain ⟨s1, a⟩ := r
  rcases tryClaim_basic h hc with ⟨_, rfl, rfl⟩ | ⟨st, id, _, _, rfl, hbl⟩
  · simp only [finishClaim, Option.some.injEq, Prod.mk.injEq] at hf
    obtain ⟨rfl, rfl⟩ := hf
    exact .none rfl rfl rfl (by intro o; simp)
  · cases finishClaim_effect hbl hf with
    | none he hq hr ha => exact .none he hq hr ha
    | edge id hblk hne hdep he hq hr ha => exact .edge id hblk hne hdep he hq hr ha

theorem peek_effect {s0 s' : State} {t k : Nat} {re blk : Bool} {r : State × ClaimAnswer} {ans : Answer}
    (h : PInvB s0) (hc : peekClaim s0 t k re = some r) (hf : finishClaim t k blk r = some (s', ans)) :
    ClaimEffect s0 s' t k blk ans := by
  obtain ⟨s1, a⟩ := r
  rcases peekClaim_basic h hc with ⟨_, rfl, rfl⟩ | ⟨st, id, _, _, rfl, hbl⟩
  · simp only [finishClaim, Option.some.injEq, Prod.mk.injEq] at hf
    obtain ⟨rfl, rfl⟩ := hf
    exact .none rfl rfl rfl (by intro o; simp)
  · cases finishClaim_effect hbl hf with
    | none he hq hr ha => exact .none he hq hr ha
    | edge id hblk hne hdep he hq hr ha => exact .edge id hblk hne hdep he hq hr ha

theorem ClaimEffect.life {s0 s' : State} {t k : Nat} {blk : Bool} {ans : Answer} {op : Op}
    (hi : idle s0 t = true) (hact : op.actor = t) (hnw : op ≠ .wake t)
    (h : ClaimEffect s0 s' t k blk ans) : Lifecycle s0 s' op := by
  cases h with
  | none he hq hr ha => exact Lifecycle_same he hr
  | edge id hblk hne hdep he hq hr ha =>
    intro x
    by_cases hxt : x = t
    · subst hxt
      refine Or.inr (Or.inl ⟨status_idle.mpr (idle_iff.mp hi), ?_, hact, hnw⟩)
      rw [status_blocked, he]; simp
    · refine Or.inl ⟨status_congr ?_ (by rw [hr]), by rw [hr]⟩
      rw [he, upd_other _ _ _ _ hxt]

/-- Result delivery by a release: life cycle. -/
theorem release_life {s0 s' : State} {k : Nat} {r : WaitResult} {op : Op} (h : PInvB s0)
    (hr : releaseEntry s0 k r = some s') : Lifecycle s0 s' op := by
  obtain ⟨_, _, _, hdel, hoth⟩ := releaseEntry_basic h hr
  intro x
  by_cases hx : x ∈ s0.qdeps k
  · refine Or.inr (Or.inr (Or.inl ⟨status_blocked.mpr (h.g.mem_blocked x k hx), ?_⟩))
    have := hdel x hx
    rw [status_ready, this.1, this.2]; simp
  · have := hoth x hx
    exact Or.inl ⟨status_congr this.2 this.1, this.1⟩

theorem stepA_basic_life {s s' : State} {op : Op} {ans : Answer} (h : PInvB s) (hb : op.isBasic = true)
    (hs : stepA s op = some (s', ans)) : Lifecycle s s' op := by
  cases op with
  | claim t k re blk =>
    simp only [stepA] at hs
    have h0 := PInvB_touch k (PInvB_touch t h)
    refine Lifecycle_pre (s0 := touch (touch s t) k) rfl rfl ?_
    generalize touch (touch s t) k = s0 at hs h0
    cases hi : idle s0 t with
    | false => simp [hi] at hs
    | true =>
      simp only [hi, if_true] at hs
      cases hc : tryClaim s0 t k re with
      | none => simp [hc] at hs
      | some p =>
        simp only [hc] at hs
        exact (claim_effect h0 hc hs).life hi rfl (by simp)
  | peek t k re blk =>
    simp only [stepA] at hs
    have h0 := PInvB_touch k (PInvB_touch t h)
    refine Lifecycle_pre (s0 := touch (touch s t) k) rfl rfl ?_
    generalize touch (touch s t) k = s0 at hs h0
    cases hi : idle s0 t with
    | false => simp [hi] at hs
    | true =>
      simp only [hi, if_true] at hs
      cases hc : peekClaim s0 t k re with
      | none => simp [hc] at hs
      | some p =>
        simp only [hc] at hs
        exact (peek_effect h0 hc hs).life hi rfl (by simp)
  | release t k r =>
    simp only [stepA] at hs
    have h0 := PInvB_touch k (PInvB_touch t h)
    refine Lifecycle_pre (s0 := touch (touch s t) k) rfl rfl ?_
    generalize touch (touch s t) k = s0 at hs h0
    cases hc : (idle s0 t && ownedBy s0 k t) with
    | false => simp [hc] at hs
    | true =>
      simp only [hc, if_true, Option.map_eq_some_iff, Prod.mk.injEq] at hs
      obtain ⟨s2, hr, rfl, _⟩ := hs
      exact release_life h0 hr
  | releaseSelf t k =>
    simp only [stepA] at hs
    have h0 := PInvB_touch k (PInvB_touch t h)
    refine Lifecycle_pre (s0 := touch (touch s t) k) rfl rfl ?_
    generalize touch (touch s t) k = s0 at hs h0
    cases hc : (idle s0 t && ownedBy s0 k t) with
    | false => simp [hc] at hs
    | true =>
      simp only [hc, if_true, Option.map_eq_some_iff, Prod.mk.injEq] at hs
      obtain ⟨s2, hr, rfl, _⟩ := hs
      exact release_life h0 (releaseSelf_basic h0 hr)
  | transfer t k n => simp [Op.isBasic] at hb
  | wake t =>
    simp only [stepA] at hs
    have h0 := PInvB_touch t h
    refine Lifecycle_pre (s0 := touch s t) rfl rfl ?_
    generalize touch s t = s0 at hs h0
    cases hr : s0.results t with
    | none => simp [hr] at hs
    | some r =>
      simp only [hr, Option.some.injEq, Prod.mk.injEq] at hs
      obtain ⟨rfl, _⟩ := hs
      intro x
      by_cases hxt : x = t
      · subst hxt
        have he : s0.edges x = none := h0.g.w5 x (by simp [hr])
        refine Or.inr (Or.inr (Or.inr ⟨?_, ?_, rfl⟩))
        · rw [status_ready]; simp [he, hr]
        · rw [status_idle]; simp [he]
      · refine Or.inl ⟨status_congr rfl ?_, ?_⟩ <;> simp [upd_other _ _ _ _ hxt]

/-- `depends_on` is monotone in the fuel once it has answered. -/
theorem dependsOnLoop_fuel_mono {e : Nat → Option Nat} {b : Nat} {r : Bool} :
    ∀ (n m a : Nat), dependsOnLoop e b n a = some r → dependsOnLoop e b (n + m) a = some r := by
  intro n
  induction n with
  | zero => intro m a h; simp [dependsOnLoop] at h
  | succ n ih =>
    intro m a h
    have : n + 1 + m = (n + m) + 1 := by omega
    rw [this]
    unfold dependsOnLoop at h ⊢
    cases hea : e a with
    | none => simpa [hea] using h
    | some q =>
      simp only [hea] at h ⊢
      by_cases hq : q = b
      · simpa [hq] using h
      · simp only [hq, if_false] at h ⊢
        exact ih m q h

end SalsaVerif.Proofs.SyncDG
