/-
  Walks in acyclic, bounded functional graphs end: every blocked thread transitively waits for a thread
  that is not blocked, and resolving a transferred key (`thread_id_of_transferred_query`) terminates at
  a key that is not transferred.
-/
import SalsaVerif.Proofs.SyncDGReach

namespace SalsaVerif.Proofs.SyncDG
open SalsaVerif.Model.SyncDG

/-- In an acyclic graph whose nodes with an edge are `< bound`, every walk reaches a node without edge. -/
theorem walk_ends {e : Nat → Option Nat} {bound : Nat}
    (hac : ∀ x, ¬ Path e x x) (hb : ∀ t, (e t).isSome → t < bound) :
    ∀ (fuel p : Nat) (visited : List Nat), visited.Nodup →
      (∀ x, x ∈ visited → x < bound ∧ Path e x p) → bound + 1 ≤ fuel + visited.length →
      ∃ u, (u = p ∨ Path e p u) ∧ e u = none := by
  intro fuel
  induction fuel with
  | zero =>
    intro p visited hnd hv hlen
    have := nodup_lt_length bound visited hnd (fun x hx => (hv x hx).1)
    omega
  | succ n ih =>
    intro p visited hnd hv hlen
    cases hep : e p with
    | none => exact ⟨p, Or.inl rfl, hep⟩
    | some q =>
      obtain ⟨u, hu, hnone⟩ := ih q (p :: visited)
        (by
          rw [List.nodup_cons]
          exact ⟨fun hm => hac p (hv p hm).2, hnd⟩)
        (by
          intro x hx
          simp only [List.mem_cons] at hx
          rcases hx with rfl | hx
          · exact ⟨hb x (by simp [hep]), Path.single hep⟩
          · exact ⟨(hv x hx).1, (hv x hx).2.trans (Path.single hep)⟩)
        (by simp only [List.length_cons]; omega)
      refine ⟨u, Or.inr ?_, hnone⟩
      rcases hu with rfl | hu
      · exact Path.single hep
      · exact Path.cons hep hu

/-- Every blocked thread transitively waits for a thread that is not blocked. -/
theorem blocked_reaches_unblocked {s : State} (hg : GInv s []) (hb : BInv s) (t : Nat)
    (ht : (s.edges t).isSome) : ∃ u, Path s.edges t u ∧ s.edges u = none := by
  obtain ⟨u, hu, hnone⟩ := walk_ends hg.acyclic hb (s.bound + 1) t [] List.nodup_nil
    (by intro x hx; simp at hx) (by simp)
  rcases hu with rfl | hu
  · rw [hnone] at ht; simp at ht
  · exact ⟨u, hu, hnone⟩

/-- Every key with a `transferred` entry is below the ghost bound. -/
def KInv (s : State) : Prop := ∀ k, (s.transferred k).isSome → k < s.bound

theorem resolveLoop_terminates {tr : Nat → Option (Nat × Nat)} {skip : Option Nat} {bound : Nat}
    (hac : ∀ x, ¬ TPath tr x x) (hb : ∀ k, (tr k).isSome → k < bound) :
    ∀ (fuel cur res : Nat) (visited : List Nat), visited.Nodup →
      (∀ x, x ∈ visited → x < bound ∧ TPath tr x cur) → bound + 1 ≤ fuel + visited.length →
      ∃ t root, resolveLoop tr skip fuel cur res = some t ∧ (root = cur ∨ TPath tr cur root) ∧
        tr root = none := by
  intro fuel
  induction fuel with
  | zero =>
    intro cur res visited hnd hv hlen
    have := nodup_lt_length bound visited hnd (fun x hx => (hv x hx).1)
    omega
  | succ n ih =>
    intro cur res visited hnd hv hlen
    unfold resolveLoop
    cases hc : tr cur with
    | none => exact ⟨res, cur, rfl, Or.inl rfl, hc⟩
    | some p =>
      obtain ⟨nt, nk⟩ := p
      simp only
      have hstep : tnext tr cur = some nk := tnext_some hc
      obtain ⟨t, root, h1, h2, h3⟩ := ih nk (if some nk = skip then res else nt) (cur :: visited)
        (by
          rw [List.nodup_cons]
          exact ⟨fun hm => hac cur (hv cur hm).2, hnd⟩)
        (by
          intro x hx
          simp only [List.mem_cons] at hx
          rcases hx with rfl | hx
          · exact ⟨hb x (by simp [hc]), Path.single hstep⟩
          · exact ⟨(hv x hx).1, (hv x hx).2.trans (Path.single hstep)⟩)
        (by simp only [List.length_cons]; omega)
      refine ⟨t, root, h1, Or.inr ?_, h3⟩
      rcases h2 with rfl | h2
      · exact Path.single hstep
      · exact Path.cons hstep h2

/-- `thread_id_of_transferred_query` terminates in a forest; for a transferred key it returns a thread
    and the chain it followed ends at a key that is not transferred. -/
theorem threadIdOfTransferredQuery_resolves {s : State} (hf : Forest s) (hk : KInv s) (k : Nat)
    (skip : Option Nat) :
    (s.transferred k = none → threadIdOfTransferredQuery s k skip = some none) ∧
    ((s.transferred k).isSome → ∃ t root, threadIdOfTransferredQuery s k skip = some (some t) ∧
      TPath s.transferred k root ∧ s.transferred root = none) := by
  constructor
  · intro h; simp [threadIdOfTransferredQuery, h]
  · intro h
    cases hc : s.transferred k with
    | none => simp [hc] at h
    | some p =>
      obtain ⟨rt, owner⟩ := p
      obtain ⟨t, root, h1, h2, h3⟩ := resolveLoop_terminates (skip := skip) hf.acyclic hk
        (s.bound + 1) owner rt [] List.nodup_nil (by intro x hx; simp at hx) (by simp)
      refine ⟨t, root, by simp [threadIdOfTransferredQuery, hc, h1], ?_, h3⟩
      rcases h2 with rfl | h2
      · exact Path.single (tnext_some hc)
      · exact Path.cons (tnext_some hc) h2

end SalsaVerif.Proofs.SyncDG
