/-
  Core engine (stage S2): what the event trace of one `fetch` says (used by Props/C03).
  `Tr s s'`: the trace of `s'` extends that of `s` by events `new` such that
    * every `exec p` in `new` is justified (`Just`): `p` had no memo, or its memo was stale, failed
      the shallow test and has a recorded edge that answered "changed";
    * a memo whose value / changed_at / durability / reads differ was re-executed (`exec p ∈ new`);
    * a stale memo that is verified afterwards was validated or executed;
    * a new memo was executed.
  Core Lean only.
-/
import SalsaVerif.Proofs.CoreTop

namespace SalsaVerif.Proofs.Core
open SalsaVerif.Model.Core

/-- the recorded edge `d` answers "changed since `rev`" in `s'`: an input written after `rev`, or a
    query whose memo, refreshed in the current revision, has `changed_at > rev` -/
def edgeChanged (s' : State) (rev : Nat) : Dep → Prop
  | .inp i => rev < (s'.inp i).ca
  | .qry q => ∃ m, s'.memos q = some m ∧ m.va = s'.cur ∧ rev < m.ca

/-- `exec p` between `s` and `s'` is justified -/
def Just (s s' : State) (p : Nat) : Prop :=
  s.memos p = none ∨
  ∃ m, s.memos p = some m ∧ m.va ≠ s.cur ∧ ¬ lc s m.dur ≤ m.va ∧
    ∃ o, o ∈ m.obs ∧ o.recd = true ∧ edgeChanged s' m.va o.dep

/-- the part of `Ext` that keeps "changed" answers valid -/
structure Stab (t u : State) : Prop where
  cur : u.cur = t.cur
  inp : u.inp = t.inp
  stable : ∀ q m, t.memos q = some m → m.va = t.cur → u.memos q = some m

theorem Ext.stab {t u r} (h : Ext t u r) : Stab t u := ⟨h.cur, h.inp, h.stable⟩

theorem edgeChanged_ext {t u rev d} (h : Stab t u) (hc : edgeChanged t rev d) : edgeChanged u rev d := by
  cases d with
  | inp i => simp only [edgeChanged] at *; rw [h.inp]; exact hc
  | qry q =>
    obtain ⟨m, hm, hv, hlt⟩ := hc
    exact ⟨m, h.stable q m hm hv, by rw [hv, h.cur], hlt⟩

theorem Just.right {s t u p} (h : Stab t u) (hj : Just s t p) : Just s u p := by
  rcases hj with hn | ⟨m, hm, hv, hl, o, ho, hr, hc⟩
  · exact Or.inl hn
  · exact Or.inr ⟨m, hm, hv, hl, o, ho, hr, edgeChanged_ext h hc⟩

theorem Just.left {s t u p r} (h : Ext s t r) (hj : Just t u p) : Just s u p := by
  rcases hj with hn | ⟨m, hm, hv, hl, o, ho, hr, hc⟩
  · left
    cases hs : s.memos p with
    | none => rfl
    | some m0 =>
      obtain ⟨m1, hm1, _⟩ := h.mono p m0 hs
      rw [hn] at hm1; cases hm1
  · right
    have hs : s.memos p = some m := by
      rcases h.touched p with e | ⟨m', hm', hv'⟩
      · rw [← e]; exact hm
      · rw [hm] at hm'; cases hm'
        exact absurd (by rw [hv', h.cur]) hv
    exact ⟨m, hs, by rw [← h.cur]; exact hv, by rw [← h.lc]; exact hl, o, ho, hr, hc⟩

structure TrOK (s s' : State) (new : List Ev) : Prop where
  just : ∀ p, .exec p ∈ new → Just s s' p
  nochg : ∀ p m m', s.memos p = some m → s'.memos p = some m' → .exec p ∉ new →
    m'.value = m.value ∧ m'.ca = m.ca ∧ m'.dur = m.dur ∧ m'.obs = m.obs
  ver : ∀ p m m', s.memos p = some m → m.va ≠ s.cur → s'.memos p = some m' → m'.va = s.cur →
    .valid p ∈ new ∨ .exec p ∈ new
  fresh : ∀ p m', s.memos p = none → s'.memos p = some m' → .exec p ∈ new

def Tr (s s' : State) : Prop := ∃ new, s'.trace = s.trace ++ new ∧ TrOK s s' new

theorem Tr.refl (s : State) : Tr s s := by
  refine ⟨[], by simp, ?_, ?_, ?_, ?_⟩
  · intro p h; simp at h
  · intro p m m' h h' _; rw [h] at h'; cases h'; exact ⟨rfl, rfl, rfl, rfl⟩
  · intro p m m' h hv h' hv'; rw [h] at h'; cases h'; exact absurd hv' hv
  · intro p m' h h'; rw [h] at h'; cases h'

theorem Tr.trans {s t u r1} (h1 : Ext s t r1) (h2 : Stab t u) (a : Tr s t) (b : Tr t u) : Tr s u := by
  obtain ⟨n1, e1, a⟩ := a
  obtain ⟨n2, e2, b⟩ := b
  refine ⟨n1 ++ n2, by rw [e2, e1, List.append_assoc], ?_, ?_, ?_, ?_⟩
  · intro p hp
    rcases List.mem_append.mp hp with hp | hp
    · exact (a.just p hp).right h2
    · exact (b.just p hp).left h1
  · intro p m m'' hm hm'' hne
    obtain ⟨m', hm', _⟩ := h1.mono p m hm
    have x := a.nochg p m m' hm hm' (fun h => hne (List.mem_append.mpr (Or.inl h)))
    have y := b.nochg p m' m'' hm' hm'' (fun h => hne (List.mem_append.mpr (Or.inr h)))
    exact ⟨y.1.trans x.1, y.2.1.trans x.2.1, y.2.2.1.trans x.2.2.1, y.2.2.2.trans x.2.2.2⟩
  · intro p m m'' hm hv hm'' hv''
    obtain ⟨m', hm', _⟩ := h1.mono p m hm
    by_cases hv' : m'.va = s.cur
    · rcases a.ver p m m' hm hv hm' hv' with h | h
      · exact Or.inl (List.mem_append.mpr (Or.inl h))
      · exact Or.inr (List.mem_append.mpr (Or.inl h))
    · rcases b.ver p m' m'' hm' (by rw [h1.cur]; exact hv') hm'' (by rw [h1.cur]; exact hv'') with h | h
      · exact Or.inl (List.mem_append.mpr (Or.inr h))
      · exact Or.inr (List.mem_append.mpr (Or.inr h))
  · intro p m'' hn hm''
    cases ht : t.memos p with
    | none => exact List.mem_append.mpr (Or.inr (b.fresh p m'' ht hm''))
    | some m' => exact List.mem_append.mpr (Or.inl (a.fresh p m' hn ht))

/-- `mark_as_verified`: one `valid r` event, the memo keeps value, stamp, durability and reads -/
theorem tr_mark {s : State} {r : Nat} {m m' : Memo} (hm : s.memos r = some m)
    (hval : m'.value = m.value) (hca : m'.ca = m.ca) (hdur : m'.dur = m.dur) (hobs : m'.obs = m.obs) :
    Tr s (emit (setMemo s r m') (.valid r)) := by
  refine ⟨[.valid r], rfl, ?_, ?_, ?_, ?_⟩
  · intro p h; simp at h
  · intro p m0 m1 h0 h1 _
    by_cases hpr : p = r
    · subst hpr
      rw [hm] at h0; cases h0
      simp only [emit_memos, setMemo_same] at h1; cases h1
      exact ⟨hval, hca, hdur, hobs⟩
    · simp only [emit_memos, setMemo_other _ _ _ hpr] at h1
      rw [h0] at h1; cases h1; exact ⟨rfl, rfl, rfl, rfl⟩
  · intro p m0 m1 h0 hv h1 hv1
    by_cases hpr : p = r
    · subst hpr; exact Or.inl (by simp)
    · simp only [emit_memos, setMemo_other _ _ _ hpr] at h1
      rw [h0] at h1; cases h1; exact absurd hv1 hv
  · intro p m1 hn h1
    by_cases hpr : p = r
    · subst hpr; rw [hm] at hn; cases hn
    · simp only [emit_memos, setMemo_other _ _ _ hpr] at h1
      rw [hn] at h1; cases h1

theorem just_of_emit {t u e p} (h : Just (emit t e) u p) : Just t u p := h

structure FetchTr (P : Nat → Body) (r : Nat) (fe : FetchFn) : Prop where
  tr : ∀ s q, q < r → Inv P s → Tr s (fe s q).1

structure McaTr (P : Nat → Body) (r : Nat) (mc : McaFn) : Prop where
  tr : ∀ s q rev, q < r → Inv P s → (∃ m, s.memos q = some m) → Tr s (mc s q rev).1

theorem run_tr {P r fe} (hfe : FetchSpec P r fe) (hft : FetchTr P r fe) : ∀ b, WfB r b →
    ∀ s f, Inv P s → f.ca ≤ s.cur → Tr s (runBody fe b s f).1 := by
  intro b hb
  induction hb with
  | ret v => intro s f _ _; exact Tr.refl s
  | read d k hd hk ih =>
    intro s f hI hf
    simp only [runBody]
    obtain ⟨g1, g2, _, _, _, g6⟩ := readDep_ok hfe (s := s) (d := d) hI hd
    have gt : Tr s (readDep fe s d).1 := by
      cases d with
      | inp i => exact Tr.refl s
      | qry q => exact hft.tr s q (hd q rfl) hI
    generalize readDep fe s d = rd at g1 g2 g6 gt
    have hf' : (f.push d rd.2).ca ≤ rd.1.cur := by
      simp only [Frame.push]; rw [g2.cur]; exact Nat.max_le.mpr ⟨hf, g6⟩
    have h2 := (run_ok hfe (k rd.2.val) (hk rd.2.val) rd.1 (f.push d rd.2) g1 hf').2.1
    exact Tr.trans g2 h2.stab gt (ih rd.2.val rd.1 (f.push d rd.2) g1 hf')

theorem deep_tr {P r mc} (hmc : McaSpec P r mc) (hmt : McaTr P r mc) : ∀ obs s rev, Inv P s →
    (∀ o q', o ∈ obs → o.dep = .qry q' → q' < r ∧ ∃ m, s.memos q' = some m) →
    Tr s (deepEdges mc obs s rev).1 := by
  intro obs
  induction obs with
  | nil => intro s rev _ _; exact Tr.refl s
  | cons o rest ih =>
    intro s rev hI hpre
    have hpre_rest : ∀ o' q', o' ∈ rest → o'.dep = .qry q' → q' < r ∧ ∃ m, s.memos q' = some m :=
      fun o' q' hm hd => hpre o' q' (by simp [hm]) hd
    simp only [deepEdges]
    by_cases hrec : o.recd = true
    · simp only [hrec, if_true]
      have first : Inv P (depChanged mc s o.dep rev).1 ∧ Ext s (depChanged mc s o.dep rev).1 r ∧
          Tr s (depChanged mc s o.dep rev).1 := by
        cases hd : o.dep with
        | inp i => exact ⟨hI, Ext.refl s r, Tr.refl s⟩
        | qry q =>
          simp only [depChanged]
          obtain ⟨hq, hm⟩ := hpre o q (by simp) hd
          obtain ⟨a1, a2, _⟩ := hmc.ok s q rev hq hI hm
          exact ⟨a1, a2, hmt.tr s q rev hq hI hm⟩
      obtain ⟨f1, f2, f3⟩ := first
      by_cases hch : (depChanged mc s o.dep rev).2 = true
      · simp only [hch, if_true]; exact f3
      · have hch' : (depChanged mc s o.dep rev).2 = false := by
          cases h : (depChanged mc s o.dep rev).2 <;> simp_all
        simp only [hch']
        have hpre' : ∀ o' q', o' ∈ rest → o'.dep = .qry q' →
            q' < r ∧ ∃ m, (depChanged mc s o.dep rev).1.memos q' = some m := by
          intro o' q' hm hd
          obtain ⟨hq, m, hmm⟩ := hpre_rest o' q' hm hd
          obtain ⟨m', hm', _⟩ := f2.mono q' m hmm
          exact ⟨hq, m', hm'⟩
        have h2 := (deep_ok hmc rest (depChanged mc s o.dep rev).1 rev f1 hpre').2.1
        exact Tr.trans f2 h2.stab f3 (ih _ rev f1 hpre')
    · have hrec' : o.recd = false := by cases h : o.recd <;> simp_all
      simp only [hrec', Bool.false_eq_true, if_false]
      exact ih s rev hI hpre_rest

/-- `execute` from a state in which the execution of `r` is justified -/
theorem tr_execute {P r fe} (hP : Wf P) (hfe : FetchSpec P r fe) (hft : FetchTr P r fe) (t : State)
    (old : Option Memo) (hI : Inv P t) (hj : Just t t r) : Tr t (execute fe P t r old).1 := by
  have hrun := run_ok hfe (P r) (hP r) (emit t (.exec r)) frame0 (inv_emit _ hI) hI.cur1
  have htr := run_tr hfe hft (P r) (hP r) (emit t (.exec r)) frame0 (inv_emit _ hI) hI.cur1
  simp only [execute]
  generalize runBody fe (P r) (emit t (.exec r)) frame0 = r0 at hrun htr
  generalize newMemo r0.2.2 r0.1.cur (backdateCa old r0.2.2 r0.2.1) r0.2.1.dur r0.2.1.obs = nm
  obtain ⟨_, k2, _⟩ := hrun
  obtain ⟨n1, e1, b⟩ := htr
  have hur : r0.1.memos r = t.memos r := k2.above r (Nat.le_refl r)
  -- the memo of `r` is not verified in this revision, so refreshed dependencies survive the store
  have hstale : ∀ m, t.memos r = some m → m.va ≠ t.cur := by
    intro m hm
    rcases hj with hn | ⟨m0, hm0, hv0, _⟩
    · rw [hn] at hm; cases hm
    · rw [hm0] at hm; cases hm; exact hv0
  have hedge : ∀ rev d, edgeChanged r0.1 rev d → edgeChanged (setMemo r0.1 r nm) rev d := by
    intro rev d hc
    cases d with
    | inp i => exact hc
    | qry q =>
      obtain ⟨m, hm, hv, hlt⟩ := hc
      have hne : q ≠ r := by
        intro e; subst e
        rw [hur] at hm
        exact hstale m hm (by rw [hv]; exact k2.cur)
      exact ⟨m, by rw [setMemo_other _ _ _ hne]; exact hm, hv, hlt⟩
  have hjust : ∀ p, Just t r0.1 p → Just t (setMemo r0.1 r nm) p := by
    intro p hjp
    rcases hjp with hn | ⟨m, hm, hv, hl, o, ho, hr, hc⟩
    · exact Or.inl hn
    · exact Or.inr ⟨m, hm, hv, hl, o, ho, hr, hedge _ _ hc⟩
  refine ⟨.exec r :: n1, by simp only [setMemo_trace]; rw [e1]; simp, ?_, ?_, ?_, ?_⟩
  · intro p hp
    simp only [List.mem_cons, Ev.exec.injEq] at hp
    rcases hp with hp | hp
    · subst hp
      exact hjust _ ((hj.right (Ext.trans (ext_emit t _ _) k2).stab))
    · exact hjust p (just_of_emit (b.just p hp))
  · intro p m m' hm hm' hne
    have hpr : p ≠ r := fun e => hne (by rw [e]; simp)
    rw [setMemo_other _ _ _ hpr] at hm'
    exact b.nochg p m m' hm hm' (fun h => hne (List.mem_cons_of_mem _ h))
  · intro p m m' hm hv hm' hv'
    by_cases hpr : p = r
    · subst hpr; exact Or.inr (by simp)
    · rw [setMemo_other _ _ _ hpr] at hm'
      rcases b.ver p m m' hm hv hm' hv' with h | h
      · exact Or.inl (List.mem_cons_of_mem _ h)
      · exact Or.inr (List.mem_cons_of_mem _ h)
  · intro p m' hn hm'
    by_cases hpr : p = r
    · subst hpr; simp
    · rw [setMemo_other _ _ _ hpr] at hm'
      exact List.mem_cons_of_mem _ (b.fresh p m' hn hm')

theorem edgeChanged_of_info {t rev d x} (hh : hot t d) (hi : depInfo t d = some x) (hlt : rev < x.ca) :
    edgeChanged t rev d := by
  cases d with
  | inp i =>
    simp only [depInfo, Option.some.injEq] at hi; subst hi; exact hlt
  | qry q =>
    obtain ⟨m, hm, hv⟩ := hh
    simp only [depInfo, hm, Option.map, Option.some.injEq] at hi
    subst hi
    exact ⟨m, hm, hv, hlt⟩

theorem fetchStep_tr {P r fe mc} (hP : Wf P) (hfe : FetchSpec P r fe) (hmc : McaSpec P r mc)
    (hft : FetchTr P r fe) (hmt : McaTr P r mc) (s : State) (hI : Inv P s) :
    Tr s (fetchStep fe mc P s r).1 := by
  have hall := fetchStep_ok hP hfe hmc s hI
  unfold fetchStep at hall ⊢
  cases hm : s.memos r with
  | none =>
    simp only
    exact tr_execute hP hfe hft s none hI (Or.inl hm)
  | some m =>
    simp only [hm] at hall ⊢
    have mok := hI.memo r m hm
    by_cases hv : m.va = s.cur
    · simp only [hv, if_true]; exact Tr.refl s
    · simp only [hv, if_false] at hall ⊢
      by_cases hsh : lc s m.dur ≤ m.va
      · simp only [hsh, if_true, markVerified_eq]
        exact tr_mark hm rfl rfl rfl rfl
      · simp only [hsh, if_false] at hall ⊢
        have hpre : ∀ o q', o ∈ m.obs → o.dep = .qry q' → q' < r ∧ ∃ m', s.memos q' = some m' := by
          intro o q' ho hd
          obtain ⟨h1, m', h2, _⟩ := mok.i5 o q' ho hd
          exact ⟨h1, m', h2⟩
        obtain ⟨d1, d2, _, d4⟩ := deep_ok hmc m.obs s m.va hI hpre
        have dt := deep_tr hmc hmt m.obs s m.va hI hpre
        generalize deepEdges mc m.obs s m.va = t at d1 d2 d4 dt hall
        have hm1 : t.1.memos r = some m := by rw [d2.above r (Nat.le_refl r)]; exact hm
        have hv1 : m.va ≠ t.1.cur := by rw [d2.cur]; exact hv
        cases hres : t.2 with
        | true =>
          simp only [if_true, markDeepVerified_eq]
          have e2 : Ext t.1 (emit (setMemo t.1 r { m with va := t.1.cur, deepAt := t.1.cur }) (.valid r)) (r + 1) :=
            (ext_setMemo (m' := { m with va := t.1.cur, deepAt := t.1.cur }) d1 hm1 hv1 (Ext.refl t.1 r) rfl rfl).emit _
          exact Tr.trans d2 e2.stab dt (tr_mark hm1 rfl rfl rfl rfl)
        | false =>
          simp only [hres, Bool.false_eq_true, if_false] at hall ⊢
          obtain ⟨pre, o, post, x, e1, e1r, _, e3, e4, e5⟩ := d4 hres
          have hoin : o ∈ m.obs := by rw [e1]; simp
          have hj : Just t.1 t.1 r :=
            Or.inr ⟨m, hm1, hv1, by rw [d2.lc]; exact hsh, o, hoin, e1r, edgeChanged_of_info e3 e4 e5⟩
          have te := tr_execute hP hfe hft t.1 (some m) d1 hj
          -- an `Ext` between `t` and the final state, for composing the traces
          have hstale : ∀ m0, t.1.memos r = some m0 → m0.va ≠ t.1.cur := by
            intro m0 h0; rw [hm1] at h0; cases h0; exact hv1
          have e2 : Stab t.1 (execute fe P t.1 r (some m)).1 := by
            have hrun := run_ok hfe (P r) (hP r) (emit t.1 (.exec r)) frame0 (inv_emit _ d1) d1.cur1
            simp only [execute]
            generalize runBody fe (P r) (emit t.1 (.exec r)) frame0 = r0 at hrun
            obtain ⟨_, k2, _⟩ := hrun
            replace k2 : Ext t.1 r0.1 r := Ext.trans (ext_emit t.1 _ r) k2
            refine ⟨by simp [k2.cur], by simp [k2.inp], ?_⟩
            intro q m0 hm0 hv0
            by_cases hqr : q = r
            · subst hqr; exact absurd hv0 (hstale m0 hm0)
            · rw [setMemo_other _ _ _ hqr]; exact k2.stable q m0 hm0 hv0
          exact Tr.trans d2 e2 dt te

theorem eng_tr {P} (hP : Wf P) : ∀ r, FetchTr P r (eng P r).1 ∧ McaTr P r (eng P r).2 := by
  intro r
  induction r with
  | zero => exact ⟨⟨by intro s q h; omega⟩, ⟨by intro s q rev h; omega⟩⟩
  | succ r ih =>
    obtain ⟨hft, hmt⟩ := ih
    obtain ⟨hfe, hmc⟩ := eng_ok hP r
    have hstep := fun s hI => fetchStep_tr hP hfe hmc hft hmt s hI
    constructor
    · constructor
      intro s q hq hI
      simp only [eng]
      by_cases hlt : q < r
      · simp only [hlt, if_true]; exact hft.tr s q hlt hI
      · have : q = r := by omega
        subst this
        simp only [Nat.lt_irrefl, if_false, if_true]
        exact hstep s hI
    · constructor
      intro s q rev hq hI hex
      simp only [eng]
      by_cases hlt : q < r
      · simp only [hlt, if_true]; exact hmt.tr s q rev hlt hI hex
      · have : q = r := by omega
        subst this
        simp only [Nat.lt_irrefl, if_false, if_true]
        obtain ⟨m0, hm0⟩ := hex
        simp only [mcaStep, hm0]
        exact hstep s hI

theorem fetch_tr {P} (hP : Wf P) (s : State) (q : Nat) (hI : Inv P s) : Tr s (fetch P s q).1 :=
  (eng_tr hP (q + 1)).1.tr s q (Nat.lt_succ_self q) hI

theorem fetch_ext {P} (hP : Wf P) (s : State) (q : Nat) (hI : Inv P s) : Ext s (fetch P s q).1 (q + 1) :=
  ((eng_ok hP (q + 1)).1.ok s q (Nat.lt_succ_self q) hI).2.1

/-! ### footprints -/

/-- `p` is reachable from `q` through the reads of the stored memos (all reads of the last
    executions, including unrecorded NEVER_CHANGE reads). -/
inductive Reach (s : State) (q : Nat) : Nat → Prop
  | refl : Reach s q q
  | step {p p' : Nat} {m : Memo} {o : Obs} : Reach s q p → s.memos p = some m → o ∈ m.obs →
      o.dep = .qry p' → Reach s q p'

/-- input `i` is in the footprint of `q`: read by `q` or transitively by one of its dependencies -/
def InFootprint (s : State) (q i : Nat) : Prop :=
  ∃ p m o, Reach s q p ∧ s.memos p = some m ∧ o ∈ m.obs ∧ o.dep = .inp i

/-- decidable test: the list `ps` is closed under the query reads of its memos -/
def closedUnder (s : State) (ps : List Nat) : Bool :=
  ps.all fun p => match s.memos p with
    | none => true
    | some m => m.obs.all fun o => match o.dep with
      | .qry p' => ps.contains p'
      | .inp _ => true

/-- decidable test: no memo of a query in `ps` read input `i` -/
def noInputRead (s : State) (ps : List Nat) (i : Nat) : Bool :=
  ps.all fun p => match s.memos p with
    | none => true
    | some m => m.obs.all fun o => o.dep != .inp i

theorem not_inFootprint_of_check (s : State) (q i : Nat) (ps : List Nat) (hq : q ∈ ps)
    (hc : closedUnder s ps = true) (hn : noInputRead s ps i = true) : ¬ InFootprint s q i := by
  have hreach : ∀ p, Reach s q p → p ∈ ps := by
    intro p hr
    induction hr with
    | refl => exact hq
    | step _ hm ho hd ih =>
      have := List.all_eq_true.mp hc _ ih
      simp only [hm] at this
      have := List.all_eq_true.mp this _ ho
      simp only [hd] at this
      simpa using this
  rintro ⟨p, m, o, hr, hm, ho, hd⟩
  have := List.all_eq_true.mp hn _ (hreach p hr)
  simp only [hm] at this
  have := List.all_eq_true.mp this _ ho
  simp [hd] at this

end SalsaVerif.Proofs.Core
