/-
  Glue between the revision-aware cycle model (`Model/CycleRev.lean`, which also holds the
  translation `toCycle` / `envOfVals` to `Model/Cycle.lean` and the closed-table certificates)
  and the from-scratch references: the `NoAdd` fragment and the recorded witnesses.
  Core Lean only.
-/
import SalsaVerif.Model.CycleRev
import SalsaVerif.Proofs.CycleLfp

namespace SalsaVerif.Proofs.CycleRev
open SalsaVerif.Model
open SalsaVerif.Model.CycleRev

/-- no `add` anywhere: the program lies in the (monotone) language of `Model/Cycle.lean`, which
    has the value-controlled `gate`. -/
def noAddE : Expr → Bool
  | .add _ _ => false
  | .gate c a => noAddE c && noAddE a
  | .union a b => noAddE a && noAddE b
  | .inter a b => noAddE a && noAddE b
  | .ite _ a b => noAddE a && noAddE b
  | _ => true

def NoAdd (P : Prog) : Prop := ∀ nd ∈ P.nodes, noAddE nd.body = true

instance (P : Prog) : Decidable (NoAdd P) := by unfold NoAdd; infer_instance

/-! ### the recorded findings, minimised (corpus/CYCLEREV/kf2-min.ops, kf1-min.ops) -/

/-- `q0 = {2} ∪ q2`, `q1 = i0 ∪ q2`, `q2 = (q1 ∪ q0) ∩ i1`, all `fix`. -/
def kf2P : Prog := ⟨[
  ⟨.fixpoint false, .union (.const 2) (.call 2)⟩,
  ⟨.fixpoint false, .union (.input 0) (.call 2)⟩,
  ⟨.fixpoint false, .inter (.union (.call 1) (.call 0)) (.input 1)⟩]⟩

/-- get 1; get 0; write input 0 := 4; get 0 -/
def kf2Ops : List Op := [.get 1, .get 0, .set 0 4 none, .get 0]

/-- `q0 = q1`, `q1 = q0`, both `cycle_result` with values 200 / 201. -/
def kf1P : Prog := ⟨[⟨.fallback 200, .call 1⟩, ⟨.fallback 201, .call 0⟩]⟩

/-- get 0; unrelated (synthetic) write; get 0; get 1 -/
def kf1Ops : List Op := [.get 0, .synth 0, .get 0, .get 1]

/-- the history of the "stale final memo validated through a provisional dependency" defect,
    found by the certificate statistics of the differential runs and repaired in salsa since
    (work/cyclerev/stale-final-memo-validated-through-provisional-dep.ops): `q0 = if i0 odd then q1 ∪ q2 else i1` (fix), `q1 = q0` (plain), `q2 = q1` (fix). -/
def staleFinalP : Prog := ⟨[
  ⟨.fixpoint false, .ite 0 (.union (.call 1) (.call 2)) (.input 1)⟩,
  ⟨.panic, .call 0⟩,
  ⟨.fixpoint false, .call 1⟩]⟩

/-- get 2; write input 0 := 3 (the cycle appears); get 0 -/
def staleFinalOps : List Op := [.get 2, .set 0 3 none, .get 0]

/-- a gated program (the shape of `gen_gated_nested_case`): `q0 = i0 ∪ q1`,
    `q1 = i1 ∪ {0} ∪ gate q0 (gate q1 i2)`: the inner query calls the outer one, and then itself,
    only once their values are odd — `q1` becomes a nested self-referential head in a later
    iteration of `q0`. -/
def gatedP : Prog := ⟨[
  ⟨.fixpoint false, .union (.input 0) (.call 1)⟩,
  ⟨.fixpoint false,
    .union (.union (.input 1) (.const 1)) (.gate (.call 0) (.gate (.call 1) (.input 2)))⟩]⟩

/-! ### the recorded findings as recorded (corpus/C12/kf2-stale-participant.ops,
   corpus/C13/kf1-fallback-history.ops) -/

def kf2RecP : Prog := ⟨[
  ⟨.panic, .inter (.input 0) (.const 18)⟩,
  ⟨.panic, .inter (.union (.call 0) (.const 255)) (.const 56)⟩,
  ⟨.panic, .input 0⟩,
  ⟨.fixpoint false,
    .union (.union (.call 5)
      (.union (.inter (.union (.input 0) (.call 0)) (.inter (.call 2) (.call 1)))
              (.inter (.call 4) (.const 191)))) (.call 3)⟩,
  ⟨.fixpoint false,
    .union (.call 3) (.union (.call 5)
      (.union (.union (.inter (.input 0) (.input 1)) (.inter (.const 34) (.const 32))) (.call 5)))⟩,
  ⟨.fixpoint false,
    .union (.union (.inter (.call 1) (.call 2)) (.inter (.input 0) (.const 16)))
           (.inter (.call 3) (.const 251))⟩]⟩

/-- get 4; get 5; write input 1 := 209; get 3; get 5 -/
def kf2RecOps : List Op := [.get 4, .get 5, .set 1 209 none, .get 3, .get 5]

def kf1RecP : Prog := ⟨[
  ⟨.fallback 200, .const 1⟩,
  ⟨.fallback 201, .call 3⟩,
  ⟨.fallback 202, .const 8⟩,
  ⟨.fallback 203, .call 4⟩,
  ⟨.fallback 204, .ite 0 (.inter (.inter (.input 1) (.const 4)) (.call 3))
                          (.ite 1 (.call 4) (.union (.const 64) (.input 1)))⟩]⟩

/-- get 4; write the unrelated input 2 := 7; get 4; get 3 -/
def kf1RecOps : List Op := [.get 4, .set 2 7 none, .get 4, .get 3]

end SalsaVerif.Proofs.CycleRev
