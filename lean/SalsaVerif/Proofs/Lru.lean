/-
  Helper lemmas for Props/C05.lean: specification vocabulary for LRU histories (`usedSince`,
  `dedupLast`, `Live`) and the invariants of reachable policy states.  Core Lean only.
-/
import SalsaVerif.Model.Lru

namespace SalsaVerif.Proofs.Lru
open SalsaVerif.Model.Lru

/-! ### generic list facts -/

theorem snoc_induction {α : Type} {P : List α → Prop} (nil : P [])
    (snoc : ∀ l a, P l → P (l ++ [a])) : ∀ l, P l := by
  intro l
  have h : ∀ r : List α, P r.reverse := by
    intro r
    induction r with
    | nil => simpa using nil
    | cons a t ih => rw [List.reverse_cons]; exact snoc _ _ ih
  simpa using h l.reverse

/-! ### specification vocabulary -/

/-- The ids of the accepted `record_use` calls since the set was last cleared (capacity set to
    0), oldest first.  Uses while the capacity is 0 are not accepted and produce no event. -/
def usedSince (evs : List Event) : List Nat :=
  evs.foldl (fun acc e => match e with
    | .used id => acc ++ [id]
    | .evicted _ => acc
    | .cleared => []) []

/-- Distinct elements of a sequence of uses ordered by their *last* occurrence: least recently
    used first, most recently used last. -/
def dedupLast : List Nat → List Nat
  | [] => []
  | x :: xs => if x ∈ xs then dedupLast xs else x :: dedupLast xs

/-- `id` was used (accepted) at some point and since then neither evicted nor cleared away. -/
def Live (evs : List Event) (id : Nat) : Prop :=
  ∃ pre post, evs = pre ++ Event.used id :: post ∧ Event.evicted id ∉ post ∧ Event.cleared ∉ post

/-- No `evicted id` and no `cleared` in the log. -/
def Clean (evs : List Event) (id : Nat) : Prop :=
  Event.evicted id ∉ evs ∧ Event.cleared ∉ evs

/-! ### dedupLast -/

theorem mem_dedupLast (xs : List Nat) (a : Nat) : a ∈ dedupLast xs ↔ a ∈ xs := by
  induction xs with
  | nil => simp [dedupLast]
  | cons x xs ih =>
    unfold dedupLast
    by_cases h : x ∈ xs
    · rw [if_pos h, ih]
      constructor
      · intro h'; exact List.mem_cons_of_mem _ h'
      · intro h'
        cases List.mem_cons.mp h' with
        | inl e => exact e ▸ h
        | inr h'' => exact h''
    · rw [if_neg h, List.mem_cons, List.mem_cons, ih]

theorem dedupLast_nodup (xs : List Nat) : (dedupLast xs).Nodup := by
  induction xs with
  | nil => simp [dedupLast]
  | cons x xs ih =>
    unfold dedupLast
    by_cases h : x ∈ xs
    · rw [if_pos h]; exact ih
    · rw [if_neg h]
      refine List.nodup_cons.mpr ⟨?_, ih⟩
      rw [mem_dedupLast]; exact h

theorem dedupLast_snoc (xs : List Nat) (id : Nat) :
    dedupLast (xs ++ [id]) = (dedupLast xs).erase id ++ [id] := by
  induction xs with
  | nil => simp [dedupLast]
  | cons x xs ih =>
    rw [List.cons_append]
    by_cases hx : x = id
    · subst hx
      have h1 : x ∈ xs ++ [x] := by simp
      rw [dedupLast, if_pos h1, ih]
      by_cases h : x ∈ xs
      · rw [dedupLast, if_pos h]
      · rw [dedupLast, if_neg h, List.erase_cons_head]
        have : x ∉ dedupLast xs := by rw [mem_dedupLast]; exact h
        rw [List.erase_of_not_mem this]
    · by_cases h : x ∈ xs
      · have h1 : x ∈ xs ++ [id] := by simp [h]
        rw [dedupLast, if_pos h1, ih, dedupLast, if_pos h]
      · have h1 : x ∉ xs ++ [id] := by simp [h, hx]
        rw [dedupLast, if_neg h1, ih, dedupLast, if_neg h]
        have hne : ¬ (x == id) = true := by simpa using hx
        rw [List.erase_cons_tail hne, List.cons_append]

/-! ### insert / evictLoop -/

theorem mem_insert (s : List Nat) (id a : Nat) : a ∈ linkedInsert s id ↔ a = id ∨ a ∈ s := by
  unfold linkedInsert
  by_cases h : a = id
  · subst h; simp
  · simp [h, List.mem_erase_of_ne h]

theorem insert_nodup (s : List Nat) (id : Nat) (h : s.Nodup) : (linkedInsert s id).Nodup := by
  unfold linkedInsert
  rw [List.nodup_append]
  refine ⟨h.erase id, by simp, ?_⟩
  intro a ha b hb
  have hb' : b = id := by simpa using hb
  subst hb'
  intro e
  subst e
  exact (List.Nodup.mem_erase_iff h).mp ha |>.1 rfl

theorem evictLoop_eq (cap : Nat) (s : List Nat) :
    evictLoop cap s = (s.drop (s.length - cap), s.take (s.length - cap)) := by
  induction s with
  | nil => simp [evictLoop]
  | cons x xs ih =>
    unfold evictLoop
    by_cases h : (x :: xs).length > cap
    · rw [if_pos h]
      simp only [ih]
      have hl : (x :: xs).length - cap = (xs.length - cap) + 1 := by
        simp only [List.length_cons] at h ⊢; omega
      rw [hl, List.drop_succ_cons, List.take_succ_cons]
    · rw [if_neg h]
      have hl : (x :: xs).length - cap = 0 := by omega
      rw [hl]; simp

theorem forEachEvicted_eq (l : Lru) (h : l.capacity ≠ 0) :
    forEachEvicted l =
      ({ l with set := l.set.drop (l.set.length - l.capacity) },
        l.set.take (l.set.length - l.capacity)) := by
  unfold forEachEvicted
  rw [if_neg h, evictLoop_eq]

theorem forEachEvicted_cap0 (l : Lru) (h : l.capacity = 0) : forEachEvicted l = (l, []) := by
  unfold forEachEvicted
  rw [if_pos h]

theorem forEachEvicted_capacity (l : Lru) : (forEachEvicted l).1.capacity = l.capacity := by
  unfold forEachEvicted
  by_cases h : l.capacity = 0
  · rw [if_pos h]
  · rw [if_neg h]

/-! ### run / events over `ops ++ [op]` -/

theorem run_snoc (l : Lru) (ops : List Op) (op : Op) :
    run l (ops ++ [op]) = step (run l ops) op := by
  simp [run, List.foldl_append]

theorem events_snoc (l : Lru) (ops : List Op) (op : Op) :
    events l (ops ++ [op]) = events l ops ++ stepEvents (run l ops) op := by
  induction ops generalizing l with
  | nil => simp [events, run]
  | cons o os ih =>
    simp only [List.cons_append, events, ih, List.append_assoc]
    rfl

theorem usedSince_snoc (evs : List Event) (e : Event) :
    usedSince (evs ++ [e]) = match e with
      | .used id => usedSince evs ++ [id]
      | .evicted _ => usedSince evs
      | .cleared => [] := by
  simp [usedSince, List.foldl_append]

theorem usedSince_append_evicted (evs : List Event) (es : List Nat) :
    usedSince (evs ++ es.map Event.evicted) = usedSince evs := by
  induction es using snoc_induction with
  | nil => simp
  | snoc l a ih =>
    rw [List.map_append, ← List.append_assoc]
    simp only [List.map_cons, List.map_nil]
    rw [usedSince_snoc]
    exact ih

/-! ### Live -/

theorem live_used_mem {evs : List Event} {id : Nat} (h : Live evs id) : Event.used id ∈ evs := by
  obtain ⟨pre, post, e, _, _⟩ := h
  subst e; simp

theorem live_append (a b : List Event) (id : Nat) :
    Live (a ++ b) id ↔ (Live a id ∧ Clean b id) ∨ Live b id := by
  constructor
  · rintro ⟨pre, post, e, h1, h2⟩
    rcases List.append_eq_append_iff.mp e with ⟨a', rfl, hb⟩ | ⟨c', ha, hb⟩
    · exact Or.inr ⟨a', post, hb, h1, h2⟩
    · cases c' with
      | nil =>
        right
        refine ⟨[], post, ?_, h1, h2⟩
        simpa using hb.symm
      | cons c cs =>
        rw [List.cons_append] at hb
        injection hb with hc hp
        subst hc
        subst hp
        left
        refine ⟨⟨pre, cs, ha, ?_, ?_⟩, ?_, ?_⟩
        · intro h; exact h1 (List.mem_append_left _ h)
        · intro h; exact h2 (List.mem_append_left _ h)
        · intro h; exact h1 (List.mem_append_right _ h)
        · intro h; exact h2 (List.mem_append_right _ h)
  · rintro (⟨⟨pre, post, e, h1, h2⟩, c1, c2⟩ | ⟨pre, post, e, h1, h2⟩)
    · refine ⟨pre, post ++ b, by rw [e]; simp, ?_, ?_⟩
      · intro h
        rcases List.mem_append.mp h with h | h
        · exact h1 h
        · exact c1 h
      · intro h
        rcases List.mem_append.mp h with h | h
        · exact h2 h
        · exact c2 h
    · exact ⟨a ++ pre, post, by rw [e]; simp, h1, h2⟩

theorem live_snoc_used (evs : List Event) (j id : Nat) :
    Live (evs ++ [Event.used j]) id ↔ id = j ∨ Live evs id := by
  rw [live_append]
  constructor
  · rintro (⟨h, _⟩ | h)
    · exact Or.inr h
    · have := live_used_mem h
      simp at this
      exact Or.inl this
  · rintro (h | h)
    · subst h
      exact Or.inr ⟨[], [], by simp, by simp, by simp⟩
    · exact Or.inl ⟨h, by simp [Clean]⟩

theorem live_snoc_cleared (evs : List Event) (id : Nat) :
    ¬ Live (evs ++ [Event.cleared]) id := by
  rw [live_append]
  rintro (⟨_, _, h⟩ | h)
  · exact h (by simp)
  · have := live_used_mem h
    simp at this

theorem live_append_evicted (evs : List Event) (es : List Nat) (id : Nat) :
    Live (evs ++ es.map Event.evicted) id ↔ Live evs id ∧ id ∉ es := by
  rw [live_append]
  constructor
  · rintro (⟨h, c, _⟩ | h)
    · refine ⟨h, ?_⟩
      intro hm
      exact c (List.mem_map.mpr ⟨id, hm, rfl⟩)
    · have := live_used_mem h
      simp at this
  · rintro ⟨h, hn⟩
    left
    refine ⟨h, ?_, ?_⟩
    · intro hm
      obtain ⟨x, hx, e⟩ := List.mem_map.mp hm
      injection e with e
      subst e
      exact hn hx
    · intro hm
      obtain ⟨x, _, e⟩ := List.mem_map.mp hm
      cases e

theorem not_live_nil (id : Nat) : ¬ Live [] id := by
  rintro ⟨pre, post, e, _, _⟩
  cases pre <;> simp at e

/-! ### the invariant of reachable states -/

/-- Suffix preservation for `insert` against `dedupLast` of the extended use sequence. -/
theorem insert_suffix (s d : List Nat) (id : Nat) (hd : d.Nodup) (h : s <:+ d) :
    linkedInsert s id <:+ d.erase id ++ [id] := by
  obtain ⟨p, rfl⟩ := h
  unfold linkedInsert
  by_cases hp : id ∈ p
  · have hs : id ∉ s := by
      intro hs
      exact (List.nodup_append.mp hd).2.2 id hp id hs rfl
    rw [List.erase_append_left _ hp, List.erase_of_not_mem hs]
    exact ⟨p.erase id, by simp⟩
  · rw [List.erase_append_right _ hp]
    exact ⟨p, by simp⟩

structure Inv (l : Lru) (evs : List Event) : Prop where
  nodup : l.set.Nodup
  cap0 : l.capacity = 0 → l.set = []
  suffix : l.set <:+ dedupLast (usedSince evs)
  mem : ∀ id, id ∈ l.set ↔ Live evs id

theorem inv_init (c : Nat) : Inv (Lru.new c) [] := by
  refine ⟨by simp [Lru.new], by simp [Lru.new], by simp [Lru.new, usedSince, dedupLast], ?_⟩
  intro id
  simp [Lru.new, not_live_nil]

theorem inv_step (l : Lru) (evs : List Event) (op : Op) (h : Inv l evs) :
    Inv (step l op) (evs ++ stepEvents l op) := by
  cases op with
  | use id =>
    simp only [step, stepEvents, recordUse]
    by_cases hc : l.capacity ≠ 0
    · rw [if_pos hc, if_pos hc]
      refine ⟨insert_nodup _ _ h.nodup, fun h0 => absurd h0 hc, ?_, ?_⟩
      · rw [usedSince_snoc]
        simp only
        rw [dedupLast_snoc]
        exact insert_suffix _ _ _ (dedupLast_nodup _) h.suffix
      · intro a
        rw [live_snoc_used]
        simp only [mem_insert, h.mem]
    · rw [if_neg hc, if_neg hc, List.append_nil]
      exact h
  | setCap n =>
    simp only [step, stepEvents, setCapacity]
    by_cases hn : n = 0
    · rw [if_pos hn, if_pos hn]
      refine ⟨by simp, by simp, ?_, ?_⟩
      · rw [usedSince_snoc]; simp [dedupLast]
      · intro a
        simp [live_snoc_cleared]
    · rw [if_neg hn, if_neg hn, List.append_nil]
      exact ⟨h.nodup, fun h0 => absurd h0 hn, h.suffix, h.mem⟩
  | evict =>
    simp only [step, stepEvents]
    by_cases hc : l.capacity = 0
    · rw [forEachEvicted_cap0 l hc]
      simpa using h
    · rw [forEachEvicted_eq l hc]
      simp only
      refine ⟨?_, fun h0 => absurd h0 hc, ?_, ?_⟩
      · exact List.Nodup.sublist (List.drop_sublist _ _) h.nodup
      · rw [usedSince_append_evicted]
        exact List.IsSuffix.trans (List.drop_suffix _ _) h.suffix
      · intro a
        rw [live_append_evicted, ← h.mem]
        generalize l.set.length - l.capacity = k
        have hsplit : l.set = l.set.take k ++ l.set.drop k := (List.take_append_drop k l.set).symm
        constructor
        · intro ha
          refine ⟨List.mem_of_mem_drop ha, ?_⟩
          intro ht
          have hnd := h.nodup
          rw [hsplit] at hnd
          exact (List.nodup_append.mp hnd).2.2 a ht a ha rfl
        · rintro ⟨ha, hn⟩
          rw [hsplit] at ha
          rcases List.mem_append.mp ha with h' | h'
          · exact absurd h' hn
          · exact h'

theorem inv_run (c : Nat) (ops : List Op) :
    Inv (run (Lru.new c) ops) (events (Lru.new c) ops) := by
  induction ops using snoc_induction with
  | nil => exact inv_init c
  | snoc l a ih =>
    rw [run_snoc, events_snoc]
    exact inv_step _ _ _ ih

/-- A suffix is determined by its length. -/
theorem suffix_eq_drop {α : Type} (s d : List α) (h : s <:+ d) : s = d.drop (d.length - s.length) := by
  obtain ⟨p, rfl⟩ := h
  simp

end SalsaVerif.Proofs.Lru
