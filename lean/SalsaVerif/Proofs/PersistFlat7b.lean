/-
  C26 with flattening: the semantic core of the flattening proof.  If the edge lists of the memos
  walked by the serializer are covered by the flattened list `FL` (`Cov`), and no leaf edge of
  `FL` and no function edge of `FL` has a stamp after the anchor, then `FL` cuts the evaluation
  under the anchor.  Core Lean only.
-/
import SalsaVerif.Proofs.PersistFlat7a

namespace SalsaVerif.Proofs.PersistFlat
open SalsaVerif.Model.Core SalsaVerif.Model.Persist SalsaVerif.Proofs.Core SalsaVerif.Proofs.Persist

/-- the root memo and the stamps of the flattened list -/
structure FlatCtx (pers : Nat → Bool) (P : Nat → Body) (H : Nat → Nat → Inp) (s : State) (q : Nat) (m : Memo)
    (FL : List Dep) : Prop where
  hm : s.memos q = some m
  fi : ∀ i, Dep.inp i ∈ FL → Leaf P (H m.va) q i → (s.inp i).ca ≤ m.va
  ff : ∀ p, Dep.qry p ∈ FL → pers p = true ∧ ∃ mp, s.memos p = some mp ∧ mp.ca ≤ m.va

/-- the edge list of the memo of `k` cuts the evaluation under its anchor, its input edges are in `FL` and its
    function edges are in `FL` or covered themselves -/
inductive Cov (P : Nat → Body) (H : Nat → Nat → Inp) (s : State) (FL : List Dep) : Nat → Prop
  | mk {k : Nat} {mk : Memo} : s.memos k = some mk → Cut P (H mk.va) (odOf mk) k →
      (∀ i, Dep.inp i ∈ odOf mk → Dep.inp i ∈ FL) →
      (∀ p, Dep.qry p ∈ odOf mk → Dep.qry p ∉ FL → Cov P H s FL p) → Cov P H s FL k

/-- a cut by `FL` below `p` gives a region, hence a bound on the stamps -/
theorem ca_of_cut {pers P H R0 s q m FL} (hP : Wf P) (hJ : J pers P H R0 s)
    (hC : FlatCtx pers P H s q m FL) {p : Nat} (hr : Reach P (H m.va) q p)
    (hcut : Cut P (H m.va) FL p) : ∀ mp, s.memos p = some mp → mp.ca ≤ m.va := by
  have h0 := hJ.memo q m hC.hm
  have hreg : Region P H s m.va (fun k => Above P (H m.va) FL p k)
      (fun p0 => Dep.qry p0 ∈ FL ∧ Reach P (H m.va) p p0) := by
    refine ⟨h0.va1, h0.va_cur, ?_, ?_, ?_⟩
    · intro k k' hk hd
      by_cases hin : Dep.qry k' ∈ FL
      · exact Or.inr ⟨hin, hk.reach.trans (Reach.step hd (Reach.refl k'))⟩
      · exact Or.inl (Above.step hk hd hin)
    · intro k i hk hd
      exact hC.fi i (hcut k hk i hd) ⟨k, hr.trans hk.reach, hd⟩
    · intro p0 ⟨hin, hr0⟩
      obtain ⟨_, mp0, hmp0, hc0⟩ := hC.ff p0 hin
      exact ⟨mp0, hmp0, hc0, (h0.pc p0 mp0 (hr.trans hr0) hmp0 hc0).1⟩
  intro mp hmp
  exact region_ca hP hJ hreg (fun p0 hp0 => (hC.ff p0 hp0.1).1) p mp Above.refl hmp

/-- **the flattened list cuts the evaluation below every covered memo** -/
theorem flat_sem {pers P H R0 s q m FL} (hP : Wf P) (hJ : J pers P H R0 s)
    (hC : FlatCtx pers P H s q m FL) : ∀ k, Cov P H s FL k → Reach P (H m.va) q k →
    ∀ mk, s.memos k = some mk → SyncH P H m.va k mk.va → Cut P (H m.va) FL k := by
  have h0 := hJ.memo q m hC.hm
  intro k
  induction k using Nat.strongRecOn with
  | _ k ih =>
    intro hcov hr mk hmk hS
    cases hcov with
    | mk hmk' hcutk hin hfn =>
      rw [hmk] at hmk'; cases hmk'
      have h0k := hJ.memo k mk hmk
      -- the covered edges
      have IHcut : ∀ p, Dep.qry p ∈ odOf mk → Dep.qry p ∉ FL → Reach P (H m.va) k p →
          Cut P (H m.va) FL p := by
        intro p hp hnp hrp
        obtain ⟨hd, mp, hmp, hle⟩ := h0k.j7 p hp
        exact ih p (sdeps_lt hP hd) (hfn p hp hnp) (hr.trans hrp) mp hmp
          (child_sync hP hJ hmk hS hrp hmp hle)
      have hca : ∀ p mp, Dep.qry p ∈ odOf mk → Reach P (H m.va) k p → s.memos p = some mp →
          mp.ca ≤ m.va := by
        intro p mp hp hrp hmp
        by_cases hin' : Dep.qry p ∈ FL
        · obtain ⟨_, mp', e1, e2⟩ := hC.ff p hin'
          rw [hmp] at e1; cases e1; exact e2
        · exact ca_of_cut hP hJ hC (hr.trans hrp) (IHcut p hp hin' hrp) mp hmp
      -- step 1: the evaluation above the list of `k` is the same under the two anchors
      have same : ∀ k', Above P (H mk.va) (odOf mk) k k' → Reach P (H m.va) k k' →
          sem P (H m.va) k' = sem P (H mk.va) k' ∧ sdeps P (H m.va) k' = sdeps P (H mk.va) k' := by
        by_cases hva : mk.va < m.va
        · intro k' _ hrk
          have hag := (SyncH.agree hS hva).down hrk
          obtain ⟨a, b⟩ := subtree_same hP k' hag
          exact ⟨a.symm, b.symm⟩
        · have hva' : m.va ≤ mk.va := by omega
          apply cut_same2 hP hcutk
          · intro i k' hi hrk hd
            have hci := hC.fi i (hin i hi) ⟨k', hr.trans hrk, hd⟩
            rw [hJ.hist.since i mk.va (Nat.le_trans hci hva') h0k.va_cur,
              hJ.hist.since i m.va hci h0.va_cur]
          · intro p hp hr1 hr2
            obtain ⟨_, mp, hmp, _⟩ := h0k.j7 p hp
            have hcp := hca p mp hp hr2 hmp
            rw [(h0k.pc p mp hr1 hmp (Nat.le_trans hcp hva')).1,
              (h0.pc p mp (hr.trans hr2) hmp hcp).1]
      have reach2 := above_reach2 (P := P) (inp1 := H mk.va) (inp2 := H m.va) (od := odOf mk) (q := k)
        (fun k' a b => (same k' a b).2)
      -- step 2: the list of `k` cuts the evaluation under the anchor of the root
      have hcutk2 : Cut P (H m.va) (odOf mk) k :=
        cut_transfer hcutk (fun k' hk' => (same k' hk' (reach2 k' hk')).2)
      -- step 3
      intro k' hk' i hi
      rcases above_split (od := odOf mk) hk' with h | ⟨p, hp, hnp, hrp, hab⟩
      · exact hin i (hcutk2 k' h i hi)
      · exact IHcut p hp hnp hrp k' hab i hi

end SalsaVerif.Proofs.PersistFlat
