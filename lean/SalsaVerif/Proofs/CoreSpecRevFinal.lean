/-
  CoreSpec, histories with writes: the pieces (`specFetchOk` / `specMcaOk`: CoreSpecRevFSpec,
  `shallow_step_ok` / `inv_lock'`: CoreSpecRevShallow, `execOk`: CoreSpecRevExecOk, `deepOk`:
  CoreSpecRevDeep6) assembled (`pieces`), and the closed theorems of the multi-revision soundness:
    * `rev_sound`: a panic-free history on a fresh database returns the from-scratch values,
    * `rev_request`: the per-request form,
    * `rev_request_congr`: two histories with the same writes — a request made after them returns
      the same value,
    * `rev_run_inv`: the invariant holds after every panic-free history and nobody is busy.
  Core Lean only.
-/
import SalsaVerif.Proofs.CoreSpecRevTop
import SalsaVerif.Proofs.CoreSpecRevFSpec
import SalsaVerif.Proofs.CoreSpecRevShallow
import SalsaVerif.Proofs.CoreSpecRevExecOk
import SalsaVerif.Proofs.CoreSpecRevDeep6

namespace SalsaVerif.Proofs.CoreSpec
open SalsaVerif.Model.CoreSpec

theorem pieces {P : Prog} {idOf : Nat → Nat} (hP : Wf2 P idOf) : Pieces P idOf where
  fs := specFetchOk hP
  ms := specMcaOk hP
  exec := fun r fe hfe => execOk hP r fe hfe (specFetchOk hP)
  deep := fun r mc hmc => deepOk hP r mc hmc (specMcaOk hP)
  shallow := fun _ _ _ hI hm hv hsh hpn => shallow_step_ok hP hI hm hv hsh hpn
  lock := fun _ _ _ hI hsl => inv_lock' hI hsl

/-- Multi-revision soundness of the engine model: every request of a panic-free history (requests,
    input writes with or without a change of durability, synthetic writes, in any order) on a
    fresh database returns the from-scratch value of the reference semantics. -/
theorem rev_sound {P : Prog} {idOf : Nat → Nat} (hP : Wf2 P idOf) (inp : Nat → Inp) (ops : List Op)
    (hnp : (run P inp ops).panic = none) :
    outputs P (init inp) ops = refOutputs P (fun i => ((inp i).val, (inp i).dur)) ops :=
  sound_of_pieces hP (pieces hP) inp ops hnp

theorem rev_run_inv {P : Prog} {idOf : Nat → Nat} (hP : Wf2 P idOf) (inp : Nat → Inp) (ops : List Op)
    (hnp : (run P inp ops).panic = none) :
    Inv P idOf (run P inp ops) ∧ ∀ c, ¬ Busy (run P inp ops) c :=
  run_inv hP (pieces hP) inp ops hnp

/-- the per-request form -/
theorem rev_request {P : Prog} {idOf : Nat → Nat} (hP : Wf2 P idOf) (inp : Nat → Inp) (ops : List Op) (q : Nat)
    (hnp : (run P inp ops).panic = none) (hq : (getOp P (run P inp ops) q).1.panic = none) :
    (getOp P (run P inp ops) q).2 = sem P (run P inp ops).inp q :=
  request_of_pieces hP (pieces hP) inp ops q hnp hq

/-- order independence across revisions -/
theorem rev_request_congr {P : Prog} {idOf : Nat → Nat} (hP : Wf2 P idOf) (inp : Nat → Inp)
    (ops1 ops2 : List Op) (q : Nat) (hw : writesOf ops1 = writesOf ops2)
    (h1 : (run P inp ops1).panic = none) (h2 : (run P inp ops2).panic = none)
    (hq1 : (getOp P (run P inp ops1) q).1.panic = none) (hq2 : (getOp P (run P inp ops2) q).1.panic = none) :
    (getOp P (run P inp ops1) q).2 = (getOp P (run P inp ops2) q).2 :=
  request_congr_of_pieces hP (pieces hP) inp ops1 ops2 q hw h1 h2 hq1 hq2

end SalsaVerif.Proofs.CoreSpec
