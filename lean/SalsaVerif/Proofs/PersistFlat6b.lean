/-
  C26 with flattening: running a body — the state afterwards and what the frame holds.
  Core Lean only.
-/
import SalsaVerif.Proofs.PersistFlat6a

namespace SalsaVerif.Proofs.PersistFlat
open SalsaVerif.Model.Core SalsaVerif.Model.Persist SalsaVerif.Proofs.Core SalsaVerif.Proofs.Persist

structure RunOut (P : Nat → Body) (s : State) (f : Frame) (b : Body) (out : State × Frame × Nat) : Prop where
  val : out.2.2 = evalB (semDep P s.inp) b
  obs : ∃ new, out.2.1.obs = f.obs ++ new ∧ new.map (·.dep) = depsB (semDep P s.inp) b ∧
    ∀ o, o ∈ new → o.recd = true
  hotd : ∀ d, d ∈ depsB (semDep P s.inp) b →
    hot out.1 d ∧ ∃ x, depInfo out.1 d = some x ∧ x.ca ≤ out.2.1.ca ∧ out.2.1.dur ≤ x.dur
  ca_ge : f.ca ≤ out.2.1.ca
  dur_le : out.2.1.dur ≤ f.dur
  ca_cur : f.ca ≤ s.cur → out.2.1.ca ≤ s.cur
  ca_max : out.2.1.ca ≤ f.ca ∨
    ∃ d, d ∈ depsB (semDep P s.inp) b ∧ ∃ x, depInfo out.1 d = some x ∧ out.2.1.ca ≤ x.ca
  dur_min : out.2.1.dur = f.dur ∨
    ∃ d, d ∈ depsB (semDep P s.inp) b ∧ ∃ x, depInfo out.1 d = some x ∧ x.dur ≤ out.2.1.dur

theorem run_okJ {pers P r fe H R0} (hfe : FetchSpecJ pers P r fe) : ∀ b, WfB r b → ∀ s f,
    J pers P H R0 s → AllRec s →
    J pers P H R0 (runBodyP fe b s f).1 ∧ AllRec (runBodyP fe b s f).1 ∧ Fr s (runBodyP fe b s f).1 r ∧
    RunOut P s f b (runBodyP fe b s f) := by
  intro b hb
  induction hb with
  | ret v =>
    intro s f hJ hA
    simp only [runBodyP]
    exact ⟨hJ, hA, Fr.refl s r, rfl, ⟨[], by simp, rfl, by intro o ho; cases ho⟩, by intro d hd; simp [depsB] at hd,
      Nat.le_refl _, Nat.le_refl _, fun h => h, Or.inl (Nat.le_refl _), Or.inl rfl⟩
  | read d k hd _ ih =>
    intro s f hJ hA
    simp only [runBodyP]
    obtain ⟨g1, gA, g2, g3, g4, g5, g6⟩ := readDep_okJ hfe (s := s) (d := d) hJ hA hd
    generalize hrd : readDep fe s d = rd at g1 gA g2 g3 g4 g5 g6
    obtain ⟨h1, hA1, h2, ho⟩ := ih rd.2.val rd.1 (pushP f d rd.2) g1 gA
    generalize hout : runBodyP fe (k rd.2.val) rd.1 (pushP f d rd.2) = out at h1 hA1 h2 ho
    have hinp : rd.1.inp = s.inp := g2.inp
    have hk : k rd.2.val = k (semDep P s.inp d) := by rw [g3]
    obtain ⟨v1, ⟨new, o1, o2, o3⟩, v3, v4, v5, v6, v7, v8⟩ := ho
    rw [hinp, hk] at v1 o2 v3 v7 v8
    have hca' : (pushP f d rd.2).ca = max f.ca rd.2.ca := rfl
    have hdur' : (pushP f d rd.2).dur = min f.dur rd.2.dur := rfl
    refine ⟨h1, hA1, g2.trans h2, ?_, ?_, ?_, ?_, ?_, ?_, ?_, ?_⟩
    · simp only [evalB]; exact v1
    · refine ⟨⟨d, rd.2.val, true⟩ :: new, ?_, ?_, ?_⟩
      · rw [o1]; simp [pushP]
      · simp only [List.map_cons, depsB, o2]
      · intro o ho
        simp only [List.mem_cons] at ho
        rcases ho with e | e
        · rw [e]
        · exact o3 o e
    · intro d' hd'
      simp only [depsB, List.mem_cons] at hd'
      rcases hd' with e | e
      · subst e
        refine ⟨hot_fr h2 g4, rd.2, depInfo_hot_fr h2 g4 g5, ?_, ?_⟩
        · exact Nat.le_trans (by rw [hca']; exact Nat.le_max_right _ _) v4
        · exact Nat.le_trans v5 (by rw [hdur']; exact Nat.min_le_right _ _)
      · exact v3 d' e
    · exact Nat.le_trans (by rw [hca']; exact Nat.le_max_left _ _) v4
    · exact Nat.le_trans v5 (by rw [hdur']; exact Nat.min_le_left _ _)
    · intro hf
      have : (pushP f d rd.2).ca ≤ rd.1.cur := by
        rw [hca', g2.cur]; exact Nat.max_le.mpr ⟨hf, g6⟩
      rw [← g2.cur]; exact v6 this
    · rcases v7 with h | ⟨d', a, x, b, c⟩
      · rw [hca'] at h
        by_cases hm : rd.2.ca ≤ f.ca
        · left; rw [Nat.max_eq_left hm] at h; exact h
        · right
          have hm' : f.ca ≤ rd.2.ca := by omega
          rw [Nat.max_eq_right hm'] at h
          exact ⟨d, by simp [depsB], rd.2, depInfo_hot_fr h2 g4 g5, h⟩
      · exact Or.inr ⟨d', by simp [depsB, a], x, b, c⟩
    · rcases v8 with h | ⟨d', a, x, b, c⟩
      · rw [hdur'] at h
        by_cases hm : f.dur ≤ rd.2.dur
        · left; rw [Nat.min_eq_left hm] at h; exact h
        · right
          have hm' : rd.2.dur ≤ f.dur := by omega
          rw [Nat.min_eq_right hm'] at h
          exact ⟨d, by simp [depsB], rd.2, depInfo_hot_fr h2 g4 g5, by rw [h]; exact Nat.le_refl _⟩
      · exact Or.inr ⟨d', by simp [depsB, a], x, b, c⟩

end SalsaVerif.Proofs.PersistFlat
