/-
  Protocol-level invariant for the protocol WITHOUT ownership transfers (`Op.isBasic`): the graph
  invariant `GInv` plus W3 (every dependent of `k` points at the thread that owns `k`, and the owner's
  `anyone_waiting` flag is set), from which W6 follows.
-/
import SalsaVerif.Proofs.SyncDGGraph

namespace SalsaVerif.Proofs.SyncDG
open SalsaVerif.Model.SyncDG

structure PInvB (s : State) : Prop where
  g : GInv s []
  noT : ∀ k, s.transferred k = none
  noD : ∀ k, s.tdeps k = none
  owner : ∀ k st, s.sync k = some st →
    (∃ u, st.owner = .thread u) ∧ st.claimedTwice = false ∧ st.isTransferTarget = false
  w3 : ∀ t k, t ∈ s.qdeps k →
    ∃ st u, s.sync k = some st ∧ st.owner = .thread u ∧ st.anyoneWaiting = true ∧ s.edges t = some u

theorem PInvB_init : PInvB init := by
  refine ⟨GInv_init, ?_, ?_, ?_, ?_⟩ <;> simp [init]

theorem PInvB_touch {s : State} (n : Nat) (h : PInvB s) : PInvB (touch s n) :=
  ⟨GInv_touch n h.g, h.noT, h.noD, h.owner, h.w3⟩

/-- W6, state form: a key without sync entry has no dependents. -/
theorem PInvB.w6 {s : State} (h : PInvB s) (k : Nat) (hk : s.sync k = none) : s.qdeps k = [] := by
  cases hq : s.qdeps k with
  | nil => rfl
  | cons t ts =>
    obtain ⟨st, _, hs, _⟩ := h.w3 t k (by simp [hq])
    simp [hk] at hs

theorem block_eq {s : State} {me other : Nat} {a : ClaimAnswer} (h : block s me other = some a) :
    a = .cycle false ∨ (a = .running other ∧ me ≠ other ∧ dependsOn s other me = some false) := by
  unfold block at h
  by_cases hm : me = other
  · simp [hm] at h; exact Or.inl h.symm
  · simp only [hm, if_false] at h
    cases hd : dependsOn s other me with
    | none => simp [hd] at h
    | some b =>
      cases b with
      | true => simp [hd] at h; exact Or.inl h.symm
      | false => simp [hd] at h; exact Or.inr ⟨h.symm, hm, rfl⟩

/-- Setting `anyone_waiting` keeps the invariant. -/
theorem PInvB_setWaiting {s : State} {k : Nat} {st : SyncState} (h : PInvB s) (hk : s.sync k = some st) :
    PInvB (setWaiting s k st) := by
  refine ⟨GInv.congr (s := s) rfl rfl rfl h.g, h.noT, h.noD, ?_, ?_⟩
  · intro k' st' hs
    simp only [setWaiting] at hs
    by_cases hkk : k' = k
    · subst hkk
      simp only [upd_same, Option.some.injEq] at hs
      subst hs
      exact h.owner _ st hk
    · rw [upd_other _ _ _ _ hkk] at hs; exact h.owner _ _ hs
  · intro t k' ht
    obtain ⟨st', u, h1, h2, h3, h4⟩ := h.w3 t k' ht
    by_cases hkk : k' = k
    · subst hkk
      rw [hk] at h1
      cases h1
      exact ⟨{ st with anyoneWaiting := true }, u, by simp [setWaiting], h2, rfl, h4⟩
    · exact ⟨st', u, by simp only [setWaiting]; rw [upd_other _ _ _ _ hkk]; exact h1, h2, h3, h4⟩

/-- Blocking on the owner keeps the invariant. -/
theorem PInvB_addEdge {s s' : State} {t k id : Nat} {st : SyncState} (h : PInvB s)
    (hk : s.sync k = some st) (ho : st.owner = .thread id) (hw : st.anyoneWaiting = true)
    (hres : s.results t = none) (ha : addEdge s t k id = some s') : PInvB s' := by
  obtain ⟨hg, hsame⟩ := addEdge_inv h.g hres ha
  obtain ⟨hne, het, _, rfl⟩ := addEdge_eq ha
  refine ⟨hg, h.noT, h.noD, h.owner, ?_⟩
  intro x k' hx
  simp only at hx ⊢
  by_cases hxt : x = t
  · subst hxt
    have hkk : k' = k := by
      apply hg.unique x k' k hx
      simp
    subst hkk
    exact ⟨st, id, hk, ho, hw, by simp⟩
  · rw [upd_other _ _ _ _ hxt]
    have hx' : x ∈ s.qdeps k' := by
      by_cases hkk : k' = k
      · subst hkk
        simp only [upd_same, List.mem_append, List.mem_singleton] at hx
        rcases hx with hx | hx
        · exact hx
        · exact absurd hx hxt
      · rwa [upd_other _ _ _ _ hkk] at hx
    exact h.w3 x k' hx'

/-- The cases of `try_claim` when no key is in the `Transferred` state. -/
theorem tryClaim_basic {s s1 : State} {t k : Nat} {re : Bool} {a : ClaimAnswer} (h : PInvB s)
    (hc : tryClaim s t k re = some (s1, a)) :
    (s.sync k = none ∧ a = .claimed ∧ s1 = { s with sync := upd s.sync k (some (freshClaim t)) }) ∨
    (∃ st id, s.sync k = some st ∧ st.owner = .thread id ∧ s1 = setWaiting s k st ∧
      block s1 t id = some a) := by
  unfold tryClaim at hc
  cases hk : s.sync k with
  | none =>
    simp only [hk, Option.some.injEq, Prod.mk.injEq] at hc
    exact Or.inl ⟨rfl, hc.2.symm, hc.1.symm⟩
  | some st =>
    simp only [hk] at hc
    obtain ⟨⟨u, hu⟩, _, _⟩ := h.owner k st hk
    rw [hu] at hc
    simp only at hc
    cases hb : block (setWaiting s k st) t u with
    | none => simp [hb] at hc
    | some a' =>
      simp only [hb, Option.some.injEq, Prod.mk.injEq] at hc
      refine Or.inr ⟨st, u, rfl, hu, hc.1.symm, ?_⟩
      rw [← hc.1, hb, hc.2]

theorem peekClaim_basic {s s1 : State} {t k : Nat} {re : Bool} {a : ClaimAnswer} (h : PInvB s)
    (hc : peekClaim s t k re = some (s1, a)) :
    (s.sync k = none ∧ a = .claimed ∧ s1 = s) ∨
    (∃ st id, s.sync k = some st ∧ st.owner = .thread id ∧ s1 = setWaiting s k st ∧
      block s1 t id = some a) := by
  unfold peekClaim at hc
  cases hk : s.sync k with
  | none =>
    simp only [hk, Option.some.injEq, Prod.mk.injEq] at hc
    exact Or.inl ⟨rfl, hc.2.symm, hc.1.symm⟩
  | some st =>
    simp only [hk] at hc
    obtain ⟨⟨u, hu⟩, _, _⟩ := h.owner k st hk
    rw [hu] at hc
    simp only at hc
    cases hb : block (setWaiting s k st) t u with
    | none => simp [hb] at hc
    | some a' =>
      simp only [hb, Option.some.injEq, Prod.mk.injEq] at hc
      refine Or.inr ⟨st, u, rfl, hu, hc.1.symm, ?_⟩
      rw [← hc.1, hb, hc.2]

/-- A fresh claim on a vacant key keeps the invariant. -/
theorem PInvB_fresh {s : State} {t k : Nat} (h : PInvB s) (hk : s.sync k = none) :
    PInvB { s with sync := upd s.sync k (some (freshClaim t)) } := by
  refine ⟨GInv.congr (s := s) rfl rfl rfl h.g, h.noT, h.noD, ?_, ?_⟩
  · intro k' st' hs
    simp only at hs
    by_cases hkk : k' = k
    · subst hkk
      simp only [upd_same, Option.some.injEq] at hs
      subst hs
      exact ⟨⟨t, rfl⟩, rfl, rfl⟩
    · rw [upd_other _ _ _ _ hkk] at hs; exact h.owner _ _ hs
  · intro x k' hx
    simp only at hx ⊢
    have hkk : k' ≠ k := by
      rintro rfl
      rw [h.w6 _ hk] at hx
      simp at hx
    rw [upd_other _ _ _ _ hkk]
    exact h.w3 x k' hx

/-- The second half of a claim (`Running::block_on` or dropping the `Running`). -/
theorem finishClaim_basic {s1 s' : State} {t k id : Nat} {st : SyncState} {blk : Bool}
    {a : ClaimAnswer} {ans : Answer} (h : PInvB s1) (hk : s1.sync k = some st)
    (ho : st.owner = .thread id) (hw : st.anyoneWaiting = true) (hres : s1.results t = none)
    (hb : block s1 t id = some a) (hf : finishClaim t k blk (s1, a) = some (s', ans)) : PInvB s' := by
  rcases block_eq hb with rfl | ⟨rfl, _, _⟩
  · simp only [finishClaim, Option.some.injEq, Prod.mk.injEq] at hf
    rw [← hf.1]; exact h
  · cases blk with
    | false =>
      simp only [finishClaim, Bool.false_eq_true, if_false, Option.some.injEq, Prod.mk.injEq] at hf
      rw [← hf.1]; exact h
    | true =>
      simp only [finishClaim, if_true] at hf
      cases ha : addEdge s1 t k id with
      | none => simp [ha] at hf
      | some s2 =>
        simp only [ha, Option.some.injEq, Prod.mk.injEq] at hf
        rw [← hf.1]
        exact PInvB_addEdge h hk ho hw hres ha

theorem idle_iff {s : State} {t : Nat} : idle s t = true ↔ s.edges t = none ∧ s.results t = none := by
  simp [idle, Option.isNone_iff_eq_none]

theorem ownedBy_iff {s : State} {k t : Nat} :
    ownedBy s k t = true ↔ ∃ st, s.sync k = some st ∧ st.owner = .thread t := by
  unfold ownedBy
  cases hk : s.sync k with
  | none => simp
  | some st => simp

/-- Effect of releasing a key in the transfer-free protocol. -/
theorem releaseEntry_basic {s s' : State} {k : Nat} {r : WaitResult} (h : PInvB s)
    (hr : releaseEntry s k r = some s') :
    PInvB s' ∧ s'.sync k = none ∧ s'.qdeps k = [] ∧
    (∀ u, u ∈ s.qdeps k → s'.results u = some r ∧ s'.edges u = none) ∧
    (∀ u, u ∉ s.qdeps k → s'.results u = s.results u ∧ s'.edges u = s.edges u) := by
  unfold releaseEntry at hr
  cases hk : s.sync k with
  | none => simp [hk] at hr
  | some st =>
    simp only [hk] at hr
    obtain ⟨_, hc2, htt⟩ := h.owner k st hk
    unfold release at hr
    -- the state with the entry removed
    have hg0 : GInv { s with sync := upd s.sync k none } [] := GInv.congr (s := s) rfl rfl rfl h.g
    cases haw : st.anyoneWaiting with
    | false =>
      simp only [haw, Bool.not_false, if_true, Option.some.injEq] at hr
      subst hr
      have hq : s.qdeps k = [] := by
        cases hq : s.qdeps k with
        | nil => rfl
        | cons x xs =>
          obtain ⟨st', _, h1, _, h3, _⟩ := h.w3 x k (by simp [hq])
          rw [hk] at h1; cases h1
          rw [haw] at h3; cases h3
      refine ⟨⟨hg0, h.noT, h.noD, ?_, ?_⟩, by simp, hq, by simp [hq], by simp⟩
      · intro k' st' hs
        simp only at hs
        by_cases hkk : k' = k
        · subst hkk; simp at hs
        · rw [upd_other _ _ _ _ hkk] at hs; exact h.owner _ _ hs
      · intro x k' hx
        simp only at hx ⊢
        have hkk : k' ≠ k := by
          rintro rfl
          rw [hq] at hx; simp at hx
        rw [upd_other _ _ _ _ hkk]
        exact h.w3 x k' hx
    | true =>
      simp only [haw, Bool.not_true, Bool.false_eq_true, if_false, hc2, htt] at hr
      cases hu : unblockRuntimesBlockedOn { s with sync := upd s.sync k none } k r with
      | none => simp [hu] at hr
      | some s2 =>
        simp only [hu, Option.some.injEq] at hr
        subst hr
        obtain ⟨hg2, hun⟩ := unblockRuntimesBlockedOn_inv hg0 hu
        have hsync : s2.sync = upd s.sync k none := hun.same.sync
        have hq2 : s2.qdeps = upd s.qdeps k [] := hun.qdeps
        refine ⟨⟨hg2, ?_, ?_, ?_, ?_⟩, by rw [hsync]; simp, by rw [hq2]; simp, hun.delivered, hun.others⟩
        · intro k'; rw [hun.same.transferred]; exact h.noT k'
        · intro k'; rw [hun.same.tdeps]; exact h.noD k'
        · intro k' st' hs
          rw [hsync] at hs
          by_cases hkk : k' = k
          · subst hkk; simp at hs
          · rw [upd_other _ _ _ _ hkk] at hs; exact h.owner _ _ hs
        · intro x k' hx
          rw [hq2] at hx
          have hkk : k' ≠ k := by
            rintro rfl
            simp at hx
          rw [upd_other _ _ _ _ hkk] at hx
          rw [hsync, upd_other _ _ _ _ hkk]
          have hxk : x ∉ s.qdeps k := fun hm => hkk (h.g.unique x _ _ hx hm)
          rw [(hun.others x hxk).2]
          exact h.w3 x k' hx

theorem releaseSelf_basic {s s' : State} {t k : Nat} (h : PInvB s) (hr : releaseSelf s t k = some s') :
    releaseEntry s k .completed = some s' := by
  unfold releaseSelf at hr
  unfold releaseEntry
  cases hk : s.sync k with
  | none => simp [hk] at hr
  | some st =>
    simp only [hk] at hr ⊢
    obtain ⟨_, hc2, _⟩ := h.owner k st hk
    simpa [hc2] using hr

/-- Every basic protocol step keeps the invariant. -/
theorem stepA_basic {s s' : State} {op : Op} {ans : Answer} (h : PInvB s) (hb : op.isBasic = true)
    (hs : stepA s op = some (s', ans)) : PInvB s' := by
  cases op with
  | claim t k re blk =>
    simp only [stepA] at hs
    have h0 := PInvB_touch k (PInvB_touch t h)
    generalize touch (touch s t) k = s0 at hs h0
    cases hi : idle s0 t with
    | false => simp [hi] at hs
    | true =>
      simp only [hi, if_true] at hs
      cases hc : tryClaim s0 t k re with
      | none => simp [hc] at hs
      | some p =>
        obtain ⟨s1, a⟩ := p
        simp only [hc] at hs
        rcases tryClaim_basic h0 hc with ⟨hk, rfl, rfl⟩ | ⟨st, id, hk, ho, rfl, hbl⟩
        · simp only [finishClaim, Option.some.injEq, Prod.mk.injEq] at hs
          rw [← hs.1]; exact PInvB_fresh h0 hk
        · have h1 := PInvB_setWaiting h0 hk
          refine finishClaim_basic (st := { st with anyoneWaiting := true }) h1 (by simp [setWaiting]) ho rfl
            ?_ hbl hs
          exact (idle_iff.mp hi).2
  | peek t k re blk =>
    simp only [stepA] at hs
    have h0 := PInvB_touch k (PInvB_touch t h)
    generalize touch (touch s t) k = s0 at hs h0
    cases hi : idle s0 t with
    | false => simp [hi] at hs
    | true =>
      simp only [hi, if_true] at hs
      cases hc : peekClaim s0 t k re with
      | none => simp [hc] at hs
      | some p =>
        obtain ⟨s1, a⟩ := p
        simp only [hc] at hs
        rcases peekClaim_basic h0 hc with ⟨hk, rfl, rfl⟩ | ⟨st, id, hk, ho, rfl, hbl⟩
        · simp only [finishClaim, Option.some.injEq, Prod.mk.injEq] at hs
          rw [← hs.1]; exact h0
        · have h1 := PInvB_setWaiting h0 hk
          refine finishClaim_basic (st := { st with anyoneWaiting := true }) h1 (by simp [setWaiting]) ho rfl
            ?_ hbl hs
          exact (idle_iff.mp hi).2
  | release t k r =>
    simp only [stepA] at hs
    have h0 := PInvB_touch k (PInvB_touch t h)
    generalize touch (touch s t) k = s0 at hs h0
    cases hc : (idle s0 t && ownedBy s0 k t) with
    | false => simp [hc] at hs
    | true =>
      simp only [hc, if_true, Option.map_eq_some_iff, Prod.mk.injEq] at hs
      obtain ⟨s2, hr, rfl, _⟩ := hs
      exact (releaseEntry_basic h0 hr).1
  | releaseSelf t k =>
    simp only [stepA] at hs
    have h0 := PInvB_touch k (PInvB_touch t h)
    generalize touch (touch s t) k = s0 at hs h0
    cases hc : (idle s0 t && ownedBy s0 k t) with
    | false => simp [hc] at hs
    | true =>
      simp only [hc, if_true, Option.map_eq_some_iff, Prod.mk.injEq] at hs
      obtain ⟨s2, hr, rfl, _⟩ := hs
      exact (releaseEntry_basic h0 (releaseSelf_basic h0 hr)).1
  | transfer t k n => simp [Op.isBasic] at hb
  | wake t =>
    simp only [stepA] at hs
    have h0 := PInvB_touch t h
    generalize touch s t = s0 at hs h0
    cases hr : s0.results t with
    | none => simp [hr] at hs
    | some r =>
      simp only [hr, Option.some.injEq, Prod.mk.injEq] at hs
      rw [← hs.1]
      exact ⟨wake_inv h0.g, h0.noT, h0.noD, h0.owner, h0.w3⟩

theorem step_basic {s s' : State} {op : Op} (h : PInvB s) (hb : op.isBasic = true)
    (hs : step s op = some s') : PInvB s' := by
  unfold step at hs
  cases ha : stepA s op with
  | none => simp [ha] at hs
  | some p =>
    obtain ⟨s1, ans⟩ := p
    simp only [ha, Option.map_some, Option.some.injEq] at hs
    subst hs
    exact stepA_basic h hb ha

theorem run_basic : ∀ (ops : List Op) (s s' : State), PInvB s → (∀ op ∈ ops, op.isBasic = true) →
    run s ops = some s' → PInvB s' := by
  intro ops
  induction ops with
  | nil =>
    intro s s' h _ hr
    simp only [run, Option.some.injEq] at hr
    subst hr; exact h
  | cons op ops ih =>
    intro s s' h hb hr
    unfold run at hr
    cases hs : step s op with
    | none => simp [hs] at hr
    | some s1 =>
      simp only [hs] at hr
      exact ih s1 s' (step_basic h (hb op (by simp)) hs) (fun o ho => hb o (by simp [ho])) hr

end SalsaVerif.Proofs.SyncDG
