/-
  Core3 engine, stage S3b: shallow / deep verification steps, `refreshStep_ok`, `fetchStep_ok`,
  `mcaStep_ok`.  Core Lean only.
-/
import SalsaVerif.Proofs.Core3EvictStep

namespace SalsaVerif.Proofs.Core3E
open SalsaVerif.Model.Core3 SalsaVerif.Proofs.Core3

theorem sokDep_of_never {P s d x} (hI : InvE P s) (hi : depInfo s d = some x) (h3 : 3 ≤ x.dur) : sokDep s d := by
  cases d with
  | cell c => trivial
  | inp i => trivial
  | qry q =>
    cases hm : s.memos q with
    | none => simp [depInfo, hm] at hi
    | some m =>
      simp only [depInfo, hm, Option.map, Option.some.injEq] at hi
      subst hi
      exact ⟨m, hm, sok_of_never hI h3 (hI.memo q m hm).va1⟩

/-- a non-cell observation of a stored memo has a stored dependency -/
theorem depInfo_exists {P s q m o} (hI : InvE P s) (hm : s.memos q = some m) (ho : o ∈ m.obs)
    (hnc : ∀ c, o.dep ≠ .cell c) : ∃ x, depInfo s o.dep = some x := by
  cases hd : o.dep with
  | cell c => exact absurd hd (hnc c)
  | inp i => exact ⟨_, rfl⟩
  | qry q' =>
    obtain ⟨_, m2, hm2, _⟩ := (hI.memo q m hm).i5 o q' ho hd
    exact ⟨⟨m2.gval, m2.ca, m2.dur⟩, by simp [depInfo, hm2]⟩

theorem obs_ne_self {P s q m o} (hI : InvE P s) (hm : s.memos q = some m) (ho : o ∈ m.obs) : o.dep ≠ .qry q := by
  intro hd
  have := ((hI.memo q m hm).i5 o q ho hd).1
  omega

/-- a tracked memo has no cell observation -/
theorem no_cell_of_tracked {P s q m} (ok : MemoOkE P s q m) (hu : m.untracked = false) :
    ∀ o, o ∈ m.obs → ∀ c, o.dep ≠ .cell c := by
  intro o ho c hd
  have := (ok.cellobs o c ho hd).1
  rw [hu] at this; cases this

/-- shallow verification by durability (`HigherDurability`) -/
theorem inv_markShallow {P s r m} (hI : InvE P s) (hm : s.memos r = some m) (hv : m.va ≠ s.cur)
    (hsh : lc s m.dur ≤ m.va) : InvE P (setMemo s r { m with va := s.cur }) := by
  have mok := hI.memo r m hm
  have hsok : SOK s m := Or.inr hsh
  have hdeep : lc s m.dur ≤ m.deepAt := by
    rcases mok.i4 with h | h
    · exact h
    · exact absurd hsh (Nat.not_le.mpr h)
  have hnu : m.untracked = false := by
    cases hu : m.untracked with
    | false => rfl
    | true => exact absurd (sok_low hI mok (mok.g6 hu) hsok) hv
  have hnc := no_cell_of_tracked mok hnu
  have hne := fun o (ho : o ∈ m.obs) => obs_ne_self hI hm ho
  have hok : MemoOkE P (setMemo s r { m with va := s.cur }) r { m with va := s.cur } := by
    refine ⟨Nat.le_trans mok.ca_va mok.va_cur, Nat.le_refl _, hI.cur1,
      Nat.le_trans mok.deep_va mok.va_cur, mok.deep1, mok.dur3, mok.valg, mok.evt, mok.rep, mok.g6, ?_,
      mok.hascell, ?_, ?_, Or.inl hdeep, ?_, ?_, ?_, ?_⟩
    · intro o c ho hd; exact absurd hd (hnc o ho c)
    · intro o ho x hinfo
      rw [depInfo_setMemo_other _ _ _ (hne o ho)] at hinfo
      exact Or.inl (mok.i2 o ho x hinfo ((mok.i3 hsok o ho).1 x hinfo))
    · intro _ o ho
      obtain ⟨a, b, c⟩ := mok.ka hsok o ho
      refine ⟨?_, (sokDep_setMemo_other _ _ _ (hne o ho)).mpr b, ?_⟩
      · intro x hinfo
        rw [depInfo_setMemo_other _ _ _ (hne o ho)] at hinfo
        exact a x hinfo
      · intro q' m2 hd hm2
        have hq : q' ≠ r := fun e => hne o ho (by rw [hd, e])
        rw [setMemo_other _ _ _ hq] at hm2
        exact c q' m2 hd hm2
    · intro o q' ho hd
      obtain ⟨hlt, m2, hm2, hr⟩ := mok.i5 o q' ho hd
      have hq : q' ≠ r := by omega
      exact ⟨hlt, m2, by rw [setMemo_other _ _ _ hq]; exact hm2, hr⟩
    · intro o ho hr x hinfo
      rw [depInfo_setMemo_other _ _ _ (hne o ho)] at hinfo
      exact mok.i6 o ho hr x hinfo
    · intro w d hw hd h
      have h1 := hI.wlog_lc w d hw m.dur hd
      exact absurd (Nat.le_trans h1 hdeep) (Nat.not_le.mpr h.1)
    · intro hu
      rcases mok.m4 hu with h | ⟨o, ho, x, hx, hc⟩
      · exact Or.inl h
      · exact Or.inr ⟨o, ho, x, by rw [depInfo_setMemo_other _ _ _ (hne o ho)]; exact hx, hc⟩
  have hobs := hobs_same (q := r) (mo := m) hI hm { m with va := s.cur } rfl rfl (Nat.le_refl _) (Or.inl rfl)
  exact inv_setMemo (q := r) (m' := { m with va := s.cur }) hI hok rfl
    (by intro mo h; rw [hm] at h; cases h; exact Nat.le_refl _) hobs

/-- successful deep verification of a tracked memo that failed the shallow test -/
theorem inv_markDeep {P t r m} (hI : InvE P t) (hm : t.memos r = some m) (hnu : m.untracked = false)
    (hns : ¬ SOK t m)
    (facts : ∀ o, o ∈ m.obs → o.recd = true →
      hotva t o.dep ∧ ∃ x, depInfo t o.dep = some x ∧ x.val = o.val ∧ m.dur ≤ x.dur) :
    InvE P (setMemo t r { m with va := t.cur, deepAt := t.cur }) := by
  have mok := hI.memo r m hm
  have hnc := no_cell_of_tracked mok hnu
  have hne := fun o (ho : o ∈ m.obs) => obs_ne_self hI hm ho
  have hall : ∀ o, o ∈ m.obs → ∀ x, depInfo t o.dep = some x →
      x.val = o.val ∧ m.dur ≤ x.dur ∧ sokDep t o.dep := by
    intro o ho x hinfo
    cases hr : o.recd with
    | true =>
      obtain ⟨hh, x', hi', a, b⟩ := facts o ho hr
      rw [hinfo] at hi'; cases hi'
      exact ⟨a, b, sokDep_of_hotva hh⟩
    | false =>
      obtain ⟨a, b⟩ := mok.i6 o ho hr x hinfo
      exact ⟨a, Nat.le_trans mok.dur3 b, sokDep_of_never hI hinfo b⟩
  have hok : MemoOkE P (setMemo t r { m with va := t.cur, deepAt := t.cur }) r
      { m with va := t.cur, deepAt := t.cur } := by
    refine ⟨Nat.le_trans mok.ca_va mok.va_cur, Nat.le_refl _, hI.cur1, Nat.le_refl _, hI.cur1, mok.dur3,
      mok.valg, mok.evt, mok.rep, mok.g6, ?_, mok.hascell, ?_, ?_, Or.inl (hI.lc_le _), ?_, ?_, ?_, ?_⟩
    · intro o c ho hd; exact absurd hd (hnc o ho c)
    · intro o ho x hinfo
      rw [depInfo_setMemo_other _ _ _ (hne o ho)] at hinfo
      exact Or.inl ⟨(hall o ho x hinfo).1, (hall o ho x hinfo).2.1⟩
    · intro _ o ho
      refine ⟨?_, ?_, ?_⟩
      · intro x hinfo
        rw [depInfo_setMemo_other _ _ _ (hne o ho)] at hinfo
        exact depInfo_ca_le hI hinfo
      · rw [sokDep_setMemo_other _ _ _ (hne o ho)]
        obtain ⟨x, hx⟩ := depInfo_exists hI hm ho (hnc o ho)
        exact (hall o ho x hx).2.2
      · intro q' m2 hd hm2
        have hq : q' ≠ r := fun e => hne o ho (by rw [hd, e])
        rw [setMemo_other _ _ _ hq] at hm2
        have ok2 := hI.memo q' m2 hm2
        exact Nat.le_trans ok2.deep_va ok2.va_cur
    · intro o q' ho hd
      obtain ⟨hlt, m2, hm2, _⟩ := mok.i5 o q' ho hd
      have hq : q' ≠ r := by omega
      refine ⟨hlt, m2, by rw [setMemo_other _ _ _ hq]; exact hm2, ?_⟩
      intro hr
      obtain ⟨hh, _⟩ := facts o ho hr
      rw [hd] at hh
      obtain ⟨m3, hm3, hv3⟩ := hh
      rw [hm2] at hm3; cases hm3
      show t.cur ≤ m2.va
      rw [hv3]; exact Nat.le_refl _
    · intro o ho hr x hinfo
      rw [depInfo_setMemo_other _ _ _ (hne o ho)] at hinfo
      exact mok.i6 o ho hr x hinfo
    · intro w d _ _ h
      exact absurd h.1 (Nat.not_lt.mpr h.2)
    · intro hu
      rcases mok.m4 hu with h | ⟨o, ho, x, hx, hc⟩
      · exact Or.inl h
      · exact Or.inr ⟨o, ho, x, by rw [depInfo_setMemo_other _ _ _ (hne o ho)]; exact hx, hc⟩
  have hobs := hobs_same (q := r) (mo := m) hI hm { m with va := t.cur, deepAt := t.cur }
    rfl rfl (Nat.le_refl _) (Or.inr hns)
  exact inv_setMemo (q := r) (m' := { m with va := t.cur, deepAt := t.cur }) hI hok rfl
    (by intro mo h; rw [hm] at h; cases h; exact Nat.le_refl _) hobs

theorem stepOk_trans {P r s t out} (h : ExtE s t r) (hs : StepOk P r t out) : StepOk P r s out := by
  obtain ⟨a, b, c, m, d1, d2, d3⟩ := hs
  exact ⟨a, ExtE.trans (h.weaken (Nat.le_succ r)) b, by rw [c, h.inp, h.cells], m, d1, by rw [d2, h.cur], d3⟩

theorem shallow_step {P s r m} (hI : InvE P s) (hm : s.memos r = some m) (hv : m.va ≠ s.cur)
    (hsh : lc s m.dur ≤ m.va) :
    InvE P (markVerified s r m) ∧ ExtE s (markVerified s r m) (r + 1) ∧
    (markVerified s r m).memos r = some { m with va := s.cur } := by
  rw [markVerified_eq]
  have hinv := inv_markShallow hI hm hv hsh
  refine ⟨inv_emit _ hinv,
    (ext_install (m' := { m with va := s.cur }) hI (ExtE.refl s r) rfl ?_ ?_).emit _, setMemo_same _ _ _⟩
  · intro m0 h0; rw [hm] at h0; cases h0; exact Nat.le_refl _
  · intro m0 h0 hv0; rw [hm] at h0; cases h0; exact absurd hv0 hv

/-- the walk over the edges of a tracked memo that failed the shallow test -/
theorem deep_step {P r mc} (hP : Wf P) (hmc : McaSpecE P r mc) {s : State} {m : Memo} (hI : InvE P s)
    (hm : s.memos r = some m) (hu : m.untracked = false) (hns : ¬ SOK s m) :
    InvE P (deepEdges mc m.obs s m.va).1 ∧ ExtE s (deepEdges mc m.obs s m.va).1 r ∧
    (deepEdges mc m.obs s m.va).1.memos r = some m ∧
    ((deepEdges mc m.obs s m.va).2 = true →
      InvE P (markDeepVerified (deepEdges mc m.obs s m.va).1 r m) ∧
      ExtE s (markDeepVerified (deepEdges mc m.obs s m.va).1 r m) (r + 1) ∧
      m.gval = sem P s.inp s.cells r) := by
  have mok := hI.memo r m hm
  have hpre : ∀ o q', o ∈ m.obs → o.dep = .qry q' → q' < r ∧ ∃ m', s.memos q' = some m' := by
    intro o q' ho hd
    obtain ⟨h1, m', h2, _⟩ := mok.i5 o q' ho hd
    exact ⟨h1, m', h2⟩
  have hcell : ∀ o c, o ∈ m.obs → o.dep = .cell c → o.recd = false :=
    fun o c ho hd => (mok.cellobs o c ho hd).2.1
  obtain ⟨d1, d2, d3⟩ := deep_ok hmc m.obs s m.va hI hpre hcell
  generalize deepEdges mc m.obs s m.va = t at d1 d2 d3
  have hm1 : t.1.memos r = some m := by rw [d2.above r (Nat.le_refl r)]; exact hm
  refine ⟨d1, d2, hm1, ?_⟩
  intro hres
  have hns' : ¬ SOK t.1 m := fun h => hns ((d2.sok m).mp h)
  have facts : ∀ o, o ∈ m.obs → o.recd = true →
      hotva t.1 o.dep ∧ ∃ x, depInfo t.1 o.dep = some x ∧ x.val = o.val ∧ m.dur ≤ x.dur := by
    intro o ho hr
    obtain ⟨s1, b1, b2, b3, b4, x, b5, b6⟩ := d3 hres o ho hr
    have hms1 : s1.memos r = some m := by rw [b2.above r (Nat.le_refl r)]; exact hm
    exact vok_of_deep b1 hms1 ho b4 b5 b6 b3
  have hinv := inv_markDeep d1 hm1 hu hns' facts
  have hvne : m.va ≠ s.cur := fun h => hns (Or.inl h)
  rw [markDeepVerified_eq]
  refine ⟨inv_emit _ hinv,
    (ext_install (m' := { m with va := t.1.cur, deepAt := t.1.cur }) hI d2 d2.cur ?_ ?_).emit _, ?_⟩
  · intro m0 h0; rw [hm] at h0; cases h0; exact Nat.le_refl _
  · intro m0 h0 hv0; rw [hm] at h0; cases h0; exact absurd hv0 hvne
  · have := fresh_of_sok hP hinv r _ (setMemo_same _ _ _) (Or.inl rfl)
    simpa [d2.inp, d2.cells] using this

theorem refreshStep_ok {P r fe mc} (hP : Wf P) (hfe : FetchSpecE P r fe) (hmc : McaSpecE P r mc)
    (s : State) (hI : InvE P s) : StepOk P r s (refreshStep fe mc P s r) := by
  unfold refreshStep
  cases hm : s.memos r with
  | none =>
    simp only
    exact execute_ok hP hfe s none hI hm (by intro o h; cases h)
  | some m =>
    have mok := hI.memo r m hm
    cases hval : m.value with
    | none =>
      simp only [hval]
      exact execute_ok hP hfe s (some m) hI hm (by intro o h _; cases h; exact hval)
    | some v =>
      have hvg : v = m.gval := mok.valg v hval
      simp only [hval]
      by_cases hv : m.va = s.cur
      · simp only [hv, if_true]
        refine ⟨hI, ExtE.refl s _, ?_, m, hm, hv, hval, hvg.symm, rfl, rfl⟩
        rw [hvg]; exact fresh_of_sok hP hI r m hm (Or.inl hv)
      · simp only [hv, if_false]
        by_cases hsh : lc s m.dur ≤ m.va
        · simp only [hsh, if_true]
          obtain ⟨a1, a2, a3⟩ := shallow_step hI hm hv hsh
          refine ⟨a1, a2, ?_, _, a3, rfl, hval, hvg.symm, rfl, rfl⟩
          rw [hvg]; exact fresh_of_sok hP hI r m hm (Or.inr hsh)
        · simp only [hsh, if_false]
          have hns : ¬ SOK s m := fun h => h.elim hv hsh
          unfold deepVerify
          cases hu : m.untracked with
          | true =>
            simp only [if_true, Bool.false_eq_true, if_false]
            exact execute_ok hP hfe s (some m) hI hm (by intro o h hs; cases h; exact absurd hs hns)
          | false =>
            simp only [Bool.false_eq_true, if_false]
            obtain ⟨d1, d2, d3, d4⟩ := deep_step hP hmc hI hm hu hns
            generalize deepEdges mc m.obs s m.va = t at d1 d2 d3 d4
            cases hres : t.2 with
            | true =>
              simp only [if_true]
              obtain ⟨e1, e2, e3⟩ := d4 hres
              refine ⟨e1, e2, by rw [hvg]; exact e3, { m with va := t.1.cur, deepAt := t.1.cur }, ?_, d2.cur, hval,
                hvg.symm, rfl, rfl⟩
              rw [markDeepVerified_eq]; exact setMemo_same _ _ _
            | false =>
              simp only [Bool.false_eq_true, if_false]
              have hns' : ¬ SOK t.1 m := fun h => hns ((d2.sok m).mp h)
              exact stepOk_trans d2 (execute_ok hP hfe t.1 (some m) d1 d3
                (by intro o h hs; cases h; exact absurd hs hns'))

/-! ### `record_use` only touches the LRU policy -/

theorem inv_recordUse {P s} (q : Nat) (h : InvE P s) : InvE P (recordUseFor P s q) := by
  unfold recordUseFor
  split
  · exact inv_lru _ h
  · exact h

theorem ext_recordUse {P : Prog} {s t r} (q : Nat) (h : ExtE s t r) : ExtE s (recordUseFor P t q) r := by
  unfold recordUseFor
  split
  · exact h.frame _ t.trace
  · exact h

theorem recordUse_memos (P : Prog) (t : State) (q : Nat) : (recordUseFor P t q).memos = t.memos := by
  unfold recordUseFor
  split <;> rfl

theorem fetchStep_ok {P r fe mc} (hP : Wf P) (hfe : FetchSpecE P r fe) (hmc : McaSpecE P r mc)
    (s : State) (hI : InvE P s) : StepOk P r s (fetchStep fe mc P s r) := by
  obtain ⟨a, b, c, m, d1, d2⟩ := refreshStep_ok hP hfe hmc s hI
  exact ⟨inv_recordUse r a, ext_recordUse r b, c, m, by rw [fetchStep]; simp only [recordUse_memos]; exact d1, d2⟩

/-- what `maybe_changed_after` of key `r` achieves (the answer "changed" promises nothing) -/
def McaOk (P : Prog) (r : Nat) (s : State) (rev : Nat) (out : State × Bool) : Prop :=
  InvE P out.1 ∧ ExtE s out.1 (r + 1) ∧
  (out.2 = false → ∃ m, out.1.memos r = some m ∧ m.va = s.cur ∧ m.ca ≤ rev)

theorem mca_of_step {P r s rev} {x : State × Res} (h : StepOk P r s x) :
    McaOk P r s rev (recordUseFor P x.1 r, decide (x.2.ca > rev)) := by
  obtain ⟨a, b, _, m, d1, d2, _, _, d5, _⟩ := h
  refine ⟨inv_recordUse r a, ext_recordUse r b, ?_⟩
  intro hf
  refine ⟨m, by simp only [recordUse_memos]; exact d1, d2, ?_⟩
  rw [d5]
  exact Nat.le_of_not_gt (of_decide_eq_false hf)

theorem mcaStep_ok {P r fe mc} (hP : Wf P) (hfe : FetchSpecE P r fe) (hmc : McaSpecE P r mc)
    (s : State) (rev : Nat) (hI : InvE P s) : McaOk P r s rev (mcaStep fe mc P s r rev) := by
  unfold mcaStep
  cases hm : s.memos r with
  | none =>
    simp only
    exact ⟨hI, ExtE.refl s _, by simp⟩
  | some m =>
    simp only
    by_cases hv : m.va = s.cur
    · simp only [hv, if_true]
      exact ⟨hI, ExtE.refl s _, fun h => ⟨m, hm, hv, Nat.le_of_not_gt (of_decide_eq_false h)⟩⟩
    · simp only [hv, if_false]
      by_cases hsh : lc s m.dur ≤ m.va
      · simp only [hsh, if_true]
        obtain ⟨a1, a2, a3⟩ := shallow_step hI hm hv hsh
        exact ⟨a1, a2, fun h => ⟨_, a3, rfl, Nat.le_of_not_gt (of_decide_eq_false h)⟩⟩
      · simp only [hsh, if_false]
        have hns : ¬ SOK s m := fun h => h.elim hv hsh
        unfold deepVerify
        cases hu : m.untracked with
        | true =>
          simp only [if_true, Bool.false_eq_true, if_false]
          cases hval : m.value with
          | none => exact ⟨hI, ExtE.refl s _, by simp⟩
          | some v =>
            simp only
            exact mca_of_step (execute_ok hP hfe s (some m) hI hm
              (by intro o h hs; cases h; exact absurd hs hns))
        | false =>
          simp only [Bool.false_eq_true, if_false]
          obtain ⟨d1, d2, d3, d4⟩ := deep_step hP hmc hI hm hu hns
          generalize deepEdges mc m.obs s m.va = t at d1 d2 d3 d4
          cases hres : t.2 with
          | true =>
            simp only [if_true]
            obtain ⟨e1, e2, _⟩ := d4 hres
            refine ⟨e1, e2, fun h => ⟨{ m with va := t.1.cur, deepAt := t.1.cur }, ?_, d2.cur,
              Nat.le_of_not_gt (of_decide_eq_false h)⟩⟩
            rw [markDeepVerified_eq]; exact setMemo_same _ _ _
          | false =>
            simp only [Bool.false_eq_true, if_false]
            cases hval : m.value with
            | none => exact ⟨d1, d2.weaken (Nat.le_succ r), by simp⟩
            | some v =>
              simp only
              have hns' : ¬ SOK t.1 m := fun h => hns ((d2.sok m).mp h)
              exact mca_of_step (stepOk_trans d2 (execute_ok hP hfe t.1 (some m) d1 d3
                (by intro o h hs; cases h; exact absurd hs hns')))

end SalsaVerif.Proofs.Core3E
