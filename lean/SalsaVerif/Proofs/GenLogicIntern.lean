/-
  Glue between the GENERATED decision logic of src/interned.rs (`Gen/LogicIntern.lean`) and the
  hand-written `Model/Intern.lean`: the model's steps re-assembled from generated decisions.
  `Props/GenLogicIntern.lean` proves them equal to the model's own.  Core Lean only.
-/
import SalsaVerif.Gen.LogicIntern
import SalsaVerif.Model.Intern

namespace SalsaVerif.Proofs.GenLogic.Intern
open SalsaVerif.Gen.LogicIntern
open SalsaVerif.Model.Intern

/-- `C::REVISIONS == IMMORTAL`: the model writes `revisions = none` for `usize::MAX` -/
def immortal (revisions : Option Nat) : Bool := revisions.isNone

/-- the model's key map is keyed by the fields themselves: hashing is the identity -/
def hashIn (key : Nat) (v : Slot) : HashIn := { ofKey := key, ofOldFields := v.fields }

/-- the `(durability, last_interned_at)` stamp of a new / reused slot -/
def stampG (inQuery : Bool) (inQ noQ : Nat × Nat) : Nat × Nat := if inQuery then inQ else noQ

-- src/interned.rs: fn intern_id, fast path
def internHitG (revisions : Option Nat) (cur callerDur : Nat) (inQuery : Bool)
    (sh : Shard) (v : Slot) : Shard × Outcome :=
  let imm := immortal revisions
  let refreshed := hit_refreshes v.lastInternedAt cur
  let last1 := if refreshed then cur else v.lastInternedAt
  let lru1 := if refreshed && hit_moves_to_front imm v.durability then v.id :: sh.lru.erase v.id else sh.lru
  let was := hit_was_reusable imm v.durability
  let dur1 := if inQuery then hit_new_durability v.durability callerDur else v.durability
  let lru2 := if inQuery && hit_unlinks imm was dur1 then lru1.erase v.id else lru1
  ({ (sh.setSlot { v with lastInternedAt := last1, durability := dur1 }) with lru := lru2 },
    ⟨.hit, v.id, v.generation⟩)

-- src/interned.rs: fn intern_id_cold + insert_value
def internColdG (revisions : Option Nat) (cur callerDur : Nat) (inQuery : Bool) (key fresh : Nat)
    (sh : Shard) : Shard × Outcome :=
  let st := stampG inQuery (cold_stamp_in_query callerDur cur) cold_stamp_no_query
  let v : Slot := ⟨fresh, key, 0, st.2, st.1, []⟩
  ({ slots := sh.slots ++ [v],
     keyMap := (cold_insert_hash key, fresh) :: sh.keyMap,
     lru := if insert_links (immortal revisions) st.1 then fresh :: sh.lru else sh.lru },
    ⟨.new, fresh, 0⟩)

-- src/interned.rs: fn intern_id, reuse of the stale slot `v`
def internReuseG (revisions : Option Nat) (cur callerDur : Nat) (inQuery : Bool) (key : Nat)
    (sh : Shard) (v : Slot) : Option (Shard × Outcome) :=
  let h := hashIn key v
  if (reuse_remove_hash h, v.id) ∈ sh.keyMap then
    let st := stampG inQuery (reuse_stamp_in_query callerDur cur) reuse_stamp_no_query
    let v' : Slot := ⟨v.id, key, v.generation + 1, st.2, st.1, []⟩
    let lru1 := sh.lru.erase v.id
    some ({ slots := (sh.setSlot v').slots,
            keyMap := (reuse_insert_hash h, v.id) :: sh.keyMap.erase (reuse_remove_hash h, v.id),
            lru := if reuse_relinks (immortal revisions) st.1 then v.id :: lru1 else lru1 },
          ⟨.reuse, v.id, v.generation + 1⟩)
  else none

-- src/interned.rs: fn intern_id, under the shard lock
def internShardG (revisions : Option Nat) (q : RevisionQueue) (cur callerDur : Nat)
    (inQuery : Bool) (key fresh : Nat) (sh : Shard) : Option (Shard × Outcome) :=
  match sh.keyMap.lookup (find_hash ⟨key, 0⟩) with
  | some id =>
    match sh.slot? id with
    | none => none
    | some v => some (internHitG revisions cur callerDur inQuery sh v)
  | none =>
    if skips_reuse (RevisionQueue.is_primed q.revisions.getLast?) then
      some (internColdG revisions cur callerDur inQuery key fresh sh)
    else
      match scanLru q sh sh.lru.reverse with
      | none => none
      | some (r, none) =>
        some (internColdG revisions cur callerDur inQuery key fresh { sh with lru := r.reverse })
      | some (r, some v) =>
        internReuseG revisions cur callerDur inQuery key { sh with lru := r.reverse } v

/-- `if C::REVISIONS != IMMORTAL { self.revision_queue.record(current_revision) }` -/
def recordG (records : Bool) (q : RevisionQueue) (cur : Nat) : Option RevisionQueue :=
  if records then
    match q.revisions with
    | [] => none
    | newest :: rest =>
      if RevisionQueue.already_recorded newest cur then some q
      else some ⟨cur :: (newest :: rest).dropLast⟩
  else some q

-- src/interned.rs: fn maybe_changed_after
def maybeChangedAfterG (s : Interner) (id edgeGeneration cur : Nat) : Option (Interner × Bool) :=
  match recordG (mca_records (immortal s.revisions)) s.queue (mca_current_revision cur) with
  | none => none
  | some q =>
    match s.shard.slot? id with
    | none => none
    | some v =>
      if mca_changed v.generation edgeGeneration then some ({ s with queue := q }, true)
      else some ({ s with queue := q,
                          shard := s.shard.setSlot { v with lastInternedAt := mca_validated_at cur } }, false)

end SalsaVerif.Proofs.GenLogic.Intern
