/-
  Upper bound for the revision-aware cycle model, part 3: the iteration loop and `execute`.
  Core Lean only.
-/
import SalsaVerif.Proofs.CycleRevLe2

namespace SalsaVerif.Proofs.CycleRev
open SalsaVerif.Model
open SalsaVerif.Model.CycleRev
open SalsaVerif.Proofs.Cycle (le le_refl le_trans zero_le or_le or_mono and_mono mod_mono)

variable {B : Nat → Nat} {i : List Inp}

/-- outcome of `execute_maybe_iterate`: the completed memo's value is below `B c`. -/
def GoodC (B : Nat → Nat) (i : List Inp) (c : Nat) (r : Res Completed) : Prop :=
  match r with
  | .ok (m, _, s) => G B i s ∧ ∀ v, m.value = some v → le v (B c)
  | .error p => G B i p.st

theorem good_onPanic {α : Type} {Q : α → Prop} {r : Res (α × St)} (f : St → St)
    (hf : ∀ s, G B i s → G B i (f s)) (h : Good B i Q r) : Good B i Q (onPanic f r) := by
  cases r with
  | error p => exact hf _ h
  | ok a => exact h

theorem goodC_onPanic {c : Nat} {r : Res Completed} (f : St → St)
    (hf : ∀ s, G B i s → G B i (f s)) (h : GoodC B i c r) : GoodC B i c (onPanic f r) := by
  cases r with
  | error p => exact hf _ h
  | ok a => exact h

theorem goodS_onPanic {r : Res St} (f : St → St)
    (hf : ∀ s, G B i s → G B i (f s)) (h : GoodS B i r) : GoodS B i (onPanic f r) := by
  cases r with
  | error p => exact hf _ h
  | ok a => exact h

theorem incr_err {it : Nat} {s : St} {p : Panic} (h : incr it s = .error p) : p.st = s := by
  unfold incr at h
  split at h
  · cases h
  · cases h; rfl

theorem cycleFn_le {P : Prog} {c last v : Nat} (h1 : le last (B c)) (h2 : le v (B c)) :
    le (cycleFn P c last v) (B c) := by
  unfold cycleFn
  split
  · exact or_le h2 h1
  · exact h2

theorem goodC_iterateLoop (P : Prog) {sub : Eng} (hs : EngGood B i sub) (hNF : NoFb P)
    (hNA : NoAdd P) (hB : Post P B i) (c : Nat) :
    ∀ (fuel : Nat) (lastProv : Option Memo) (iteration : Nat) (optOld : Option Memo) (s : St),
      G B i s → (∀ m v, lastProv = some m → m.value = some v → le v (B c)) →
      GoodC B i c (iterateLoop P sub c fuel lastProv iteration optOld s) := by
  intro fuel
  induction fuel with
  | zero => intro _ _ _ s h _; exact h
  | succ fuel ih =>
    intro lastProv iteration optOld s h hl
    unfold iterateLoop
    have h1 : G B i (seedFrame (pushQuery s c) (lastProv.or optOld)) :=
      G_seedFrame (G_pushQuery h c) _
    generalize seedFrame (pushQuery s c) (lastProv.or optOld) = s1 at h1
    have he := good_onPanic popQuery (fun _ => G_popQuery)
      (good_evalM sub.fetch hs.fetch _ (body_noAdd hNA c) s1 h1)
    simp only
    cases hr : onPanic popQuery (evalM sub.fetch (P.node c).body s1) with
    | error p => rw [hr] at he; exact he
    | ok r =>
      obtain ⟨v, s2⟩ := r
      rw [hr] at he
      simp only
      have hs2 : G B i s2 := he.1
      have hvB : le v (B c) := le_trans he.2 (hB c)
      have hs3 : ∀ heads, G B i (outerCycle s2 heads c).2 := fun _ => G_outerCycle hs2 _ _
      have hfb := isFallback_false hNF c
      simp only [hfb, Bool.false_eq_true, if_false, Bool.false_or]
      split
      · exact hs2
      · rename_i fr tl hst
        split
        · -- Completed
          split
          · rename_i p hp
            split at hp
            · cases hp
            · show G B i p.st; rw [incr_err hp]; exact G_popQuery hs2
          · rename_i it' _
            exact ⟨G_popQuery hs2, fun w hw => by cases hw; exact hvB⟩
        · split
          · exact G_popQuery hs2
          · rename_i maxIter dos heads hcoll
            split
            · -- Participant
              split
              · exact G_popQuery (hs3 heads)
              · rename_i o ho
                split
                · rename_i p hp; show G B i p.st; rw [incr_err hp]; exact G_popQuery (hs3 heads)
                · rename_i it' _
                  exact ⟨G_popQuery (hs3 heads), fun w hw => by cases hw; exact hvB⟩
            · -- CycleHead
              split
              · exact G_popQuery (hs3 heads)
              · rename_i lastMemo hlm
                have hlv : ∀ lv, lastMemo.value = some lv → le lv (B c) := by
                  intro lv hlv
                  cases hp : lastProv with
                  | some m' => rw [hp] at hlm; cases hlm; exact hl _ lv hp hlv
                  | none => rw [hp] at hlm; exact (hs3 heads).1 c lastMemo lv hlm hlv
                split
                · exact G_popQuery (hs3 heads)
                · split
                  · exact G_popQuery (hs3 heads)
                  · rename_i lastValue hlval
                    have hnv := cycleFn_le (P := P) (hlv _ hlval) hvB
                    split
                    · exact ⟨G_popQuery (hs3 heads), fun w hw => by cases hw; exact hnv⟩
                    · split
                      · exact ⟨G_foldl_final (G_popQuery (hs3 heads)) _,
                          fun w hw => by cases hw; exact hnv⟩
                      · split
                        · rename_i p hp
                          show G B i p.st
                          rw [incr_err hp]; exact G_popQuery (hs3 heads)
                        · rename_i it' _
                          apply ih
                          · exact G_setMemo (G_foldl_setIter (G_emit (G_popQuery (hs3 heads)) _) _ _) c _
                              (fun w hw => by cases hw; exact hnv)
                          · intro m w hm hw; cases hm; cases hw; exact hnv

theorem goodC_executeMaybeIterate (P : Prog) {sub : Eng} (hs : EngGood B i sub) (hNF : NoFb P)
    (hNA : NoAdd P) (hB : Post P B i) (c : Nat) (old : Option Memo) {s : St} (h : G B i s)
    (hold : ∀ m v, old = some m → m.value = some v → le v (B c)) :
    GoodC B i c (executeMaybeIterate P sub c old s) := by
  unfold executeMaybeIterate
  simp only
  split
  · rename_i p hp
    split at hp
    · split at hp
      · split at hp
        · cases hp; exact h
        · cases hp
      · cases hp
    · cases hp
  · rename_i lastProv iteration hst
    apply goodC_onPanic _ (fun _ hg => G_poison hg c)
    apply goodC_iterateLoop P hs hNF hNA hB c _ _ _ _ _ h
    intro m v hm hv
    split at hst
    · rename_i o
      split at hst
      · split at hst
        · cases hst
        · cases hst
          split at hm
          · cases hm; exact hold _ v rfl hv
          · cases hm
      · cases hst; cases hm
    · cases hst; cases hm

theorem backdate_value {old cq cq1 : Memo} (h : backdateIfAppropriate old cq = some cq1) :
    cq1.value = cq.value := by
  unfold backdateIfAppropriate at h
  split at h
  · split at h
    · cases h
    · cases h; rfl
  · split at h
    · cases h; rfl
    · cases h; rfl

theorem goodC_executeQuery (P : Prog) {sub : Eng} (hs : EngGood B i sub) (hNF : NoFb P)
    (hNA : NoAdd P) (hB : Post P B i) (c : Nat) (old : Option Memo) (mode0 : Mode) {s0 : St}
    (h0 : G B i s0) (hold : ∀ m v, old = some m → m.value = some v → le v (B c)) :
    GoodC B i c (executeQuery P sub c old mode0 s0) := by
  unfold executeQuery
  split
  · have h1 : G B i (seedFrame (pushQuery s0 c) old) := G_seedFrame (G_pushQuery h0 c) _
    generalize seedFrame (pushQuery s0 c) old = s1 at h1
    have he := good_onPanic popQuery (fun _ => G_popQuery)
      (good_evalM sub.fetch hs.fetch _ (body_noAdd hNA c) s1 h1)
    simp only
    cases hr : onPanic popQuery (evalM sub.fetch (P.node c).body s1) with
    | error p => rw [hr] at he; exact he
    | ok r =>
      obtain ⟨v, s2⟩ := r
      rw [hr] at he
      simp only
      split
      · exact he.1
      · exact ⟨G_popQuery he.1, fun w hw => by cases hw; exact le_trans he.2 (hB c)⟩
  · exact goodC_executeMaybeIterate P hs hNF hNA hB c old h0 hold

theorem discard_value (m : Memo) : (discardEdgesIfNeverChange m).value = m.value := by
  unfold discardEdgesIfNeverChange; split <;> rfl

theorem goodS_finishExecute (c : Nat) (old : Option Memo) (cq : Memo) (mode : Mode) {s1 : St}
    (h : G B i s1) (hv : ∀ v, cq.value = some v → le v (B c)) :
    GoodS B i (finishExecute c old cq mode s1) := by
  unfold finishExecute
  split
  · exact h
  · rename_i cq1 hbd
    have hv1 : ∀ v, cq1.value = some v → le v (B c) := by
      intro v hv'
      cases old with
      | none => simp only at hbd; cases hbd; exact hv v hv'
      | some o => simp only at hbd; rw [backdate_value hbd] at hv'; exact hv v hv'
    have hset : G B i (setMemo s1 c (discardEdgesIfNeverChange cq1)) :=
      G_setMemo h c _ (fun v hv' => hv1 v (by rw [discard_value] at hv'; exact hv'))
    simp only
    split
    · exact G_releaseDefault hset c
    · rename_i s3 hd; exact G_dropClaim hset hd

theorem goodS_execute (P : Prog) {sub : Eng} (hs : EngGood B i sub) (hNF : NoFb P)
    (hNA : NoAdd P) (hB : Post P B i) (c : Nat) (old : Option Memo) (mode0 : Mode) {s : St}
    (h : G B i s) (hold : ∀ m v, old = some m → m.value = some v → le v (B c)) :
    GoodS B i (execute P sub c old mode0 s) := by
  unfold execute
  have hq := goodC_executeQuery P hs hNF hNA hB c old mode0 (G_emit h (.exec c)) hold
  cases hr : executeQuery P sub c old mode0 (emit s (.exec c)) with
  | error p => rw [hr] at hq; exact hq
  | ok r =>
    obtain ⟨cq, mode, s1⟩ := r
    rw [hr] at hq
    exact goodS_finishExecute c old cq mode hq.1 hq.2

end SalsaVerif.Proofs.CycleRev
