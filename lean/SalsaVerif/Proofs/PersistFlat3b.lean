/-
  C26 with flattening: `CutC` (edge lists that cut, recursively) under changes of the state, and
  what shallow verification knows (`shallow_const`, `sok_cutC`).  Core Lean only.
-/
import SalsaVerif.Proofs.PersistFlat2

namespace SalsaVerif.Proofs.PersistFlat
open SalsaVerif.Model.Core SalsaVerif.Model.Persist SalsaVerif.Proofs.Core SalsaVerif.Proofs.Persist

theorem cutC_congr {P H H' s s'} (hm : s'.memos = s.memos)
    (he : ∀ k mk, s.memos k = some mk → H' mk.va = H mk.va) : ∀ k, CutC P H s k → CutC P H' s' k := by
  intro k h
  induction h with
  | mk hmk hc _ ih =>
    refine CutC.mk (by rw [hm]; exact hmk) ?_ ih
    rw [he _ _ hmk]; exact hc

/-- replacing the memo of `q` does not matter below `q` -/
theorem cutC_below {pers P H R0 t q m'} (hP : Wf P) (hJ : J pers P H R0 t) :
    ∀ k, CutC P H t k → k < q → CutC P H (setMemo t q m') k := by
  intro k h
  induction h with
  | @mk k mk hmk hc _ ih =>
    intro hlt
    refine CutC.mk (by rw [setMemo_other _ _ _ (Nat.ne_of_lt hlt)]; exact hmk) hc ?_
    intro p hp
    have := sdeps_lt hP ((hJ.memo k mk hmk).j7 p hp).1
    exact ih p hp (by omega)

/-- replacing the memo of `q` by one that is `CutC` keeps `CutC` everywhere -/
theorem cutC_setMemo {P H t q m'} (hq : CutC P H (setMemo t q m') q) :
    ∀ k, CutC P H t k → CutC P H (setMemo t q m') k := by
  intro k h
  induction h with
  | @mk k mk hmk hc _ ih =>
    by_cases hkq : k = q
    · subst hkq; exact hq
    · exact CutC.mk (by rw [setMemo_other _ _ _ hkq]; exact hmk) hc ih

/-- shallow verification: the inputs under the memo are constant since its anchor -/
theorem shallow_const {pers P H R0 t r m} (hJ : J pers P H R0 t) (hm : t.memos r = some m)
    (hsh : lc t m.dur ≤ m.va) : ∀ i, Leaf P (H m.va) r i → ∀ ρ, m.va ≤ ρ → ρ ≤ t.cur → H ρ i = H m.va i := by
  intro i hi
  have h0 := hJ.memo r m hm
  exact hJ.hist.const_of_lc h0.va1 hsh (h0.j3 i hi)

theorem shallow_leaf_ca {pers P H R0 t r m} (hJ : J pers P H R0 t) (hm : t.memos r = some m)
    (hsh : lc t m.dur ≤ m.va) : ∀ i, Leaf P (H m.va) r i → (t.inp i).ca ≤ m.va := by
  intro i hl
  have h0 := hJ.memo r m hm
  have e := shallow_const hJ hm hsh i hl t.cur h0.va_cur (Nat.le_refl _)
  rw [hJ.hist.cur hJ.base] at e
  rw [e]; exact hJ.hist.hca m.va i h0.va1 h0.va_cur

/-- a memo that passes the shallow test satisfies the premise of Covers -/
theorem sok_prem {pers P H R0 t r m} (hJ : J pers P H R0 t) (hm : t.memos r = some m)
    (hs : SOK t m) : PremL P H t r m := by
  have h0 := hJ.memo r m hm
  refine ⟨?_, ?_⟩
  · intro i _ hl
    rcases hs with hv | hsh
    · rw [hv]; exact hJ.base.inp_le i
    · exact shallow_leaf_ca hJ hm hsh i hl
  · intro k mk hk hmk
    obtain ⟨mk', e1, _, e3, _⟩ := h0.j8 hs k hk
    rw [hmk] at e1; cases e1; exact e3

/-- … and so do, recursively, the memos of its function edges -/
theorem sok_cutC {pers P H R0 t} (hP : Wf P) (hJ : J pers P H R0 t) :
    ∀ k mk, t.memos k = some mk → SOK t mk → CutC P H t k := by
  intro k
  induction k using Nat.strongRecOn with
  | _ k ih =>
    intro mk hmk hs
    have h0 := hJ.memo k mk hmk
    refine CutC.mk hmk (h0.j6 (Or.inr (sok_prem hJ hmk hs))) ?_
    intro p hp
    obtain ⟨mp, hmp, hsp, _, _⟩ := h0.j8 hs p hp
    exact ih p (sdeps_lt hP (h0.j7 p hp).1) mp hmp hsp

end SalsaVerif.Proofs.PersistFlat
