/-
  Helper lemmas for Props/C08 `c08_linearizable`: the interleaving LTS of Model/InternConc.lean
  is simulated by the sequential execution of the calls in the order of their shard steps.
  Core Lean only.
-/
import SalsaVerif.Model.InternConc

namespace SalsaVerif.Proofs.InternConc
open SalsaVerif.Model.Intern

theorem record_idem {q q1 : RevisionQueue} {r : Nat} (h : q.record r = some q1) :
    q1.record r = some q1 := by
  unfold RevisionQueue.record at h
  cases hq : q.revisions with
  | nil => rw [hq] at h; cases h
  | cons a t =>
    rw [hq] at h
    simp only at h
    by_cases hge : a ≥ r
    · rw [if_pos hge] at h
      injection h with h
      subst h
      unfold RevisionQueue.record
      rw [hq]
      simp only
      rw [if_pos hge]
    · rw [if_neg hge] at h
      injection h with h
      subst h
      unfold RevisionQueue.record
      simp only
      rw [if_pos (Nat.le_refl r)]

theorem recordIfMortal_idem {rev : Option Nat} {q q1 : RevisionQueue} {r : Nat}
    (h : recordIfMortal rev q r = some q1) : recordIfMortal rev q1 r = some q1 := by
  unfold recordIfMortal at h ⊢
  by_cases hr : rev.isSome = true
  · rw [if_pos hr] at h ⊢; exact record_idem h
  · rw [if_neg hr] at h ⊢

theorem internAll_snoc (hash : Nat → Nat) (cur : Nat) (m m1 m2 : Multi) (cs : List Call)
    (os : List Outcome) (c : Call) (o : Outcome)
    (h1 : Multi.internAll hash cur m cs = some (m1, os))
    (h2 : m1.intern hash cur c = some (m2, o)) :
    Multi.internAll hash cur m (cs ++ [c]) = some (m2, os ++ [o]) := by
  induction cs generalizing m os with
  | nil =>
    simp only [Multi.internAll, Option.some.injEq, Prod.mk.injEq] at h1
    obtain ⟨rfl, rfl⟩ := h1
    simp only [List.nil_append, Multi.internAll, h2]
  | cons c0 cs ih =>
    simp only [Multi.internAll] at h1
    cases hi : m.intern hash cur c0 with
    | none => rw [hi] at h1; cases h1
    | some r =>
      rw [hi] at h1
      simp only at h1
      cases hr : Multi.internAll hash cur r.1 cs with
      | none => rw [hr] at h1; cases h1
      | some r' =>
        rw [hr] at h1
        simp only [Option.some.injEq, Prod.mk.injEq] at h1
        obtain ⟨rfl, rfl⟩ := h1
        have := ih r.1 r'.2 hr
        simp only [List.cons_append, Multi.internAll, hi, this]

def evOf (t : Nat) (e : LinEv) : Bool := e.thread == t

/-- The simulation invariant between the concurrent state `c` reached from `c0` and the
    sequential execution of the linearization so far. -/
structure Sim (hash : Nat → Nat) (cur : Nat) (c0 c : Conc) : Prop where
  seq : ∃ S : Multi,
    Multi.internAll hash cur c0.m (c.lin.map (·.call)) = some (S, c.lin.map (·.out)) ∧
    S.revisions = c.m.revisions ∧ S.shards = c.m.shards ∧ S.nextId = c.m.nextId ∧
    (S.queue = c.m.queue ∨
      ((∃ t, (c.threads t).recorded = true) ∧
        recordIfMortal c.m.revisions S.queue cur = some c.m.queue))
  fixed : ∀ t, (c.threads t).recorded = true →
    recordIfMortal c.m.revisions c.m.queue cur = some c.m.queue
  todo : ∀ t, (c0.threads t).todo = ((c.lin.filter (evOf t)).map (·.call)) ++ (c.threads t).todo
  results : ∀ t, (c.threads t).results =
    (c0.threads t).results ++ (c.lin.filter (evOf t)).map (·.out)

theorem sim_init (hash : Nat → Nat) (cur : Nat) (c0 : Conc) (hlin : c0.lin = [])
    (h0 : ∀ t, (c0.threads t).recorded = false) : Sim hash cur c0 c0 := by
  refine ⟨⟨c0.m, ?_, rfl, rfl, rfl, Or.inl rfl⟩, ?_, ?_, ?_⟩
  · rw [hlin]; rfl
  · intro t ht; rw [h0 t] at ht; cases ht
  · intro t; rw [hlin]; rfl
  · intro t; rw [hlin]; simp

theorem multi_eq {a b : Multi} (h1 : a.revisions = b.revisions) (h2 : a.queue = b.queue)
    (h3 : a.shards = b.shards) (h4 : a.nextId = b.nextId) : a = b := by
  cases a; cases b
  simp only at h1 h2 h3 h4
  subst h1; subst h2; subst h3; subst h4
  rfl

theorem sim_step (hash : Nat → Nat) (cur : Nat) (c0 c c' : Conc) (t : Nat)
    (sim : Sim hash cur c0 c) (h : c.step hash cur t = some c') : Sim hash cur c0 c' := by
  unfold Conc.step at h
  cases htodo : (c.threads t).todo with
  | nil => rw [htodo] at h; cases h
  | cons call rest =>
    rw [htodo] at h
    simp only at h
    by_cases hrec : (c.threads t).recorded = true
    · -- shard step
      rw [if_pos hrec] at h
      cases hs : c.m.shardStep hash cur call with
      | none => rw [hs] at h; cases h
      | some r =>
        rw [hs] at h
        simp only [Option.some.injEq] at h
        subst h
        obtain ⟨S, hall, hrev, hsh, hnid, hq⟩ := sim.seq
        have hfix := sim.fixed t hrec
        -- the sequential intern does exactly the same shard step
        have hSrec : S.recordStep cur = some c.m := by
          unfold Multi.recordStep
          have : recordIfMortal S.revisions S.queue cur = some c.m.queue := by
            rw [hrev]
            rcases hq with hq | ⟨_, hq⟩
            · rw [hq]; exact hfix
            · exact hq
          rw [this]
          simp only [Option.some.injEq]
          exact multi_eq hrev rfl hsh hnid
        have hSint : S.intern hash cur call = some (r.1, r.2) := by
          unfold Multi.intern
          rw [hSrec]
          simp only
          rw [hs]
        have hmrev : r.1.revisions = c.m.revisions ∧ r.1.queue = c.m.queue := by
          unfold Multi.shardStep at hs
          cases hi : internShard c.m.revisions c.m.queue cur call.callerDur call.inQuery
              call.fields c.m.nextId (c.m.shards (hash call.fields)) with
          | none => rw [hi] at hs; cases hs
          | some p =>
            rw [hi] at hs
            simp only [Option.some.injEq] at hs
            rw [← hs]
            exact ⟨rfl, rfl⟩
        refine ⟨⟨r.1, ?_, rfl, rfl, rfl, Or.inl rfl⟩, ?_, ?_, ?_⟩
        · simp only [List.map_append, List.map_cons, List.map_nil]
          exact internAll_snoc hash cur c0.m S r.1 _ _ call r.2 hall hSint
        · intro k hk
          simp only at hk ⊢
          rw [hmrev.1, hmrev.2]
          by_cases hkt : k = t
          · rw [if_pos hkt] at hk; cases hk
          · rw [if_neg hkt] at hk
            exact sim.fixed k hk
        · intro k
          simp only [List.filter_append]
          by_cases hkt : k = t
          · subst hkt
            have := sim.todo k
            rw [htodo] at this
            simp [evOf, this]
          · have hne : (evOf k ⟨t, call, r.2⟩) = false := by
              simp only [evOf, beq_eq_false_iff_ne, ne_eq]
              exact fun e => hkt e.symm
            simp only [List.filter_cons, hne, List.filter_nil, if_neg hkt]
            simpa using sim.todo k
        · intro k
          simp only [List.filter_append]
          by_cases hkt : k = t
          · subst hkt
            have := sim.results k
            simp [evOf, this]
          · have hne : (evOf k ⟨t, call, r.2⟩) = false := by
              simp only [evOf, beq_eq_false_iff_ne, ne_eq]
              exact fun e => hkt e.symm
            simp only [List.filter_cons, hne, List.filter_nil, if_neg hkt]
            simpa using sim.results k
    · -- record step
      rw [if_neg hrec] at h
      cases hs : c.m.recordStep cur with
      | none => rw [hs] at h; cases h
      | some m' =>
        rw [hs] at h
        simp only [Option.some.injEq] at h
        subst h
        unfold Multi.recordStep at hs
        cases hq1 : recordIfMortal c.m.revisions c.m.queue cur with
        | none => rw [hq1] at hs; cases hs
        | some q1 =>
          rw [hq1] at hs
          simp only [Option.some.injEq] at hs
          subst hs
          obtain ⟨S, hall, hrev, hsh, hnid, hq⟩ := sim.seq
          have hidem := recordIfMortal_idem hq1
          have hwit : ∃ k, ((fun k => if k = t then { c.threads t with recorded := true }
              else c.threads k) k : Thread).recorded = true := ⟨t, by simp⟩
          refine ⟨⟨S, hall, hrev, hsh, hnid, Or.inr ⟨hwit, ?_⟩⟩, ?_, ?_, ?_⟩
          · show recordIfMortal c.m.revisions S.queue cur = some q1
            rcases hq with hq | ⟨⟨k, hk⟩, hq⟩
            · rw [hq]; exact hq1
            · have hfix := sim.fixed k hk
              rw [hfix] at hq1
              injection hq1 with hq1
              rw [← hq1]; exact hq
          · intro k _
            exact hidem
          · intro k
            by_cases hkt : k = t
            · subst hkt
              simpa [htodo] using sim.todo k
            · simpa [hkt] using sim.todo k
          · intro k
            by_cases hkt : k = t
            · subst hkt
              simpa using sim.results k
            · simpa [hkt] using sim.results k

theorem sim_run (hash : Nat → Nat) (cur : Nat) (c0 c c' : Conc) (sched : List Nat)
    (sim : Sim hash cur c0 c) (h : c.run hash cur sched = some c') : Sim hash cur c0 c' := by
  induction sched generalizing c with
  | nil =>
    simp only [Conc.run, Option.some.injEq] at h
    exact h ▸ sim
  | cons t ts ih =>
    simp only [Conc.run] at h
    cases hs : c.step hash cur t with
    | none => rw [hs] at h; cases h
    | some c1 =>
      rw [hs] at h
      exact ih c1 (sim_step hash cur c0 c c1 t sim hs) h

end SalsaVerif.Proofs.InternConc
