/-
  CoreSpec, histories with writes: the well-formedness `Wf2` of the multi-revision soundness
  theorem, and the replay of a node body against the reads recorded in a memo.

  `Wf2` strengthens `Wf` (Proofs/CoreSpecRef.lean) by three conditions; each excludes a history on
  which the MODEL returns a non-from-scratch value (Props/C10: `c10_never_change_witness`,
  `c10_unreceived_handle_witness`, and the identity-change example in the header there):
    * handle discipline (A1): fields / `spec` / identity of the struct of `c` are read only after
      a value carrying the handle `c` was received from a query read of the same execution;
    * one identity per creator: every `create` of node `r` uses the identity `idOf r`;
    * `specify` directly after `create`: whatever decides whether (and what) the creator specifies
      is read BEFORE the struct is created.
  Core Lean only.
-/
import SalsaVerif.Proofs.CoreSpecRef

namespace SalsaVerif.Proofs.CoreSpec
open SalsaVerif.Model.CoreSpec

/-- the three phases of a creator body: before `create`, between `create` and the first read /
    `ret` (only `specify` here), after that -/
inductive Phase where
  | pre
  | mid
  | post
deriving DecidableEq

/-- `Wf2B idOf r ph H b`: body `b` of node `r`, in phase `ph`, holding the handles `H`. -/
inductive Wf2B (idOf : Nat → Nat) (r : Nat) : Phase → (Nat → Prop) → Body → Prop
  | retPre (H) (v : Val) : (∀ c, v.h = some c → H c) → Wf2B idOf r .pre H (.ret v)
  | retPost (H) (v : Val) : (∀ c, v.h = some c → H c ∨ c = r) → Wf2B idOf r .post H (.ret v)
  | inp (ph H) (i : Nat) (k : Val → Body) : ph ≠ .mid → (∀ n, Wf2B idOf r ph H (k ⟨n, none⟩)) →
      Wf2B idOf r ph H (.read (.inp i) k)
  | qry (ph H) (q : Nat) (k : Val → Body) : ph ≠ .mid → q < r →
      (∀ v, (∀ c, v.h = some c → c ≤ q) → Wf2B idOf r ph (fun c => H c ∨ v.h = some c) (k v)) →
      Wf2B idOf r ph H (.read (.qry q) k)
  | field (ph H) (c : Nat) (k : Val → Body) : ph ≠ .mid → H c → (∀ n, Wf2B idOf r ph H (k ⟨n, none⟩)) →
      Wf2B idOf r ph H (.read (.field c) k)
  | spec (ph H) (c : Nat) (k : Val → Body) : ph ≠ .mid → H c → (∀ n, Wf2B idOf r ph H (k ⟨n, none⟩)) →
      Wf2B idOf r ph H (.read (.spec c) k)
  | ident (ph H) (c : Nat) (k : Nat → Body) : ph ≠ .mid → H c → (∀ n, Wf2B idOf r ph H (k n)) →
      Wf2B idOf r ph H (.ident c k)
  | create (H) (idk v : Nat) (k : Val → Body) : idk = idOf r → Wf2B idOf r .mid H (k ⟨v, some r⟩) →
      Wf2B idOf r .pre H (.create idk v k)
  /-- a second `create` (it panics in the model: `secondStruct`; in the reference semantics it
      overwrites the struct) -/
  | create2 (H) (idk v : Nat) (k : Val → Body) : idk = idOf r → Wf2B idOf r .mid H (k ⟨v, some r⟩) →
      Wf2B idOf r .post H (.create idk v k)
  | specify (H) (c v : Nat) (k : Body) : Wf2B idOf r .mid H k → Wf2B idOf r .mid H (.specify c v k)
  | mid (H) (b : Body) : Wf2B idOf r .post H b → Wf2B idOf r .mid H b

structure Wf2 (P : Prog) (idOf : Nat → Nat) : Prop where
  node : ∀ q, Wf2B idOf q .pre (fun _ => False) (P.node q)
  spec : ∀ k v, WfS (P.spec k v)

/-! ### replay of a body against recorded reads -/

/-- Replay body `b` of node `self` against the recorded reads `obs` (output edges are consumed by
    the `specify` they belong to).  The result mirrors `evalX`: value, struct created, value
    specified.  Identity fields are not recorded: they are `idOf`. -/
def replayR (self : Nat) (idOf : Nat → Nat) : Body → List Obs → Option (Nat × Nat) → Option Nat → Option SemRes
  | .ret v, [], ts, sp => some ⟨v, ts, sp⟩
  | .ret _, _ :: _, _, _ => none
  | .read _ _, [], _, _ => none
  | .read d k, o :: rest, ts, sp =>
    if o.out = false ∧ o.dep = d then replayR self idOf (k o.val) rest ts sp else none
  | .ident c k, obs, ts, sp => replayR self idOf (k (idOf c)) obs ts sp
  | .create idk v k, obs, ts, sp =>
    match ts with
    | some _ => none
    | none => replayR self idOf (k ⟨v, some self⟩) obs (some (idk, v)) sp
  | .specify c v k, obs, ts, sp =>
    match obs with
    | o :: rest =>
      if c = self ∧ ts.isSome = true ∧ sp = none ∧ o.out = true ∧ o.dep = .spec self ∧ o.val = ⟨v, none⟩ then
        replayR self idOf k rest ts (some v)
      else none
    | [] => none

/-- the reads recorded before the `create` -/
def preOf (idOf : Nat → Nat) : Body → List Obs → List Obs
  | .ret _, _ => []
  | .read _ _, [] => []
  | .read _ k, o :: rest => o :: preOf idOf (k o.val) rest
  | .ident c k, obs => preOf idOf (k (idOf c)) obs
  | .create _ _ _, _ => []
  | .specify _ _ _, _ => []

end SalsaVerif.Proofs.CoreSpec
