/-
  Bit-level helper lemmas over `Nat` (core Lean only).
-/
namespace SalsaVerif.Bits

theorem mod_pow_of_lt {a n : Nat} (h : a < 2^n) : a % 2^n = a := Nat.mod_eq_of_lt h

/-- `lo ||| (hi <<< k)` with `lo < 2^k` splits back into its parts. -/
theorem or_shl_and_mask (lo hi k : Nat) (hlo : lo < 2^k) :
    (lo ||| hi <<< k) &&& (2^k - 1) = lo := by
  rw [Nat.or_comm, ← Nat.shiftLeft_add_eq_or_of_lt hlo, Nat.and_two_pow_sub_one_eq_mod, Nat.shiftLeft_eq,
    Nat.mul_comm, Nat.mul_add_mod]
  exact Nat.mod_eq_of_lt hlo

theorem or_shl_shr (lo hi k : Nat) (hlo : lo < 2^k) :
    (lo ||| hi <<< k) >>> k = hi := by
  rw [Nat.or_comm, ← Nat.shiftLeft_add_eq_or_of_lt hlo, Nat.shiftRight_eq_div_pow, Nat.shiftLeft_eq,
    Nat.mul_comm, Nat.mul_add_div (Nat.two_pow_pos k), Nat.div_eq_of_lt hlo, Nat.add_zero]

theorem shl_lt {a k n : Nat} (h : a < 2^(n - k)) (hk : k ≤ n) : a <<< k < 2^n := by
  rw [Nat.shiftLeft_eq]
  have : 2^n = 2^(n-k) * 2^k := by rw [← Nat.pow_add]; congr 1; omega
  rw [this]
  exact Nat.mul_lt_mul_of_pos_right h (Nat.two_pow_pos k)

theorem or_shl_eq_add (lo hi k : Nat) (hlo : lo < 2^k) : lo ||| hi <<< k = hi * 2^k + lo := by
  rw [Nat.or_comm, ← Nat.shiftLeft_add_eq_or_of_lt hlo, Nat.shiftLeft_eq]

theorem and_mask_of_lt {a k : Nat} (h : a < 2^k) : a &&& (2^k - 1) = a := by
  rw [Nat.and_two_pow_sub_one_eq_mod]; exact Nat.mod_eq_of_lt h

end SalsaVerif.Bits
