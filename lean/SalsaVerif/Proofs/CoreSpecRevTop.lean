/-
  CoreSpec, histories with writes: the top of the multi-revision soundness proof.  The pieces about
  running a body (`ExecOk`), walking the edges (`DeepOk`), the shallow path and the specifiable
  function are taken as hypotheses (`Pieces`); from them
    * `fetchStep_rev`, `mcaStep_rev`: one step of the engine meets `FetchSpec` / `McaSpec`,
    * `eng_rev`: the engine meets its specification at every rank,
    * `getOp_rev`: a request on a quiescent state returns the from-scratch value and leaves a
      quiescent state that satisfies the invariant,
    * `outputs_rev`, `sound_of_pieces`: histories with writes against the reference semantics,
    * `run_inv`, `request_of_pieces`, `run_env_congr`, `run_inp_congr`: the per-request form and the
      independence of the inputs from the requests made.
  (Names end in `_rev` to stay clear of the one-revision development, Proofs/CoreSpecFresh.lean.)
  Core Lean only.
-/
import SalsaVerif.Proofs.CoreSpecRevSpecs
import SalsaVerif.Proofs.CoreSpecRevFresh
import SalsaVerif.Proofs.CoreSpecRevBump

namespace SalsaVerif.Proofs.CoreSpec
open SalsaVerif.Model.CoreSpec

/-- the pieces of the proof that are established elsewhere -/
structure Pieces (P : Prog) (idOf : Nat → Nat) : Prop where
  fs : SpecFetchOk P idOf (fetchSpec P.spec)
  ms : SpecMcaOk P idOf (mcaSpec P.spec)
  exec : ∀ r fe, FetchSpec P idOf r fe → ExecOk P idOf r fe
  deep : ∀ r mc, McaSpec P idOf r mc → DeepOk P idOf r mc
  shallow : ∀ (s : State) (q : Nat) (m : Memo), Inv P idOf s → s.memos q = some m → m.va ≠ s.cur →
    lc s m.dur ≤ m.va → (markOutputsVerified q m.obs (markVerified s q m)).panic = none →
    Inv P idOf (markOutputsVerified q m.obs (markVerified s q m)) ∧
    Ext s (markOutputsVerified q m.obs (markVerified s q m)) (q + 1) ∧
    (∀ c, Busy (markOutputsVerified q m.obs (markVerified s q m)) c → Busy s c) ∧
    HotRes (markOutputsVerified q m.obs (markVerified s q m)) s.cur q (hit m)
  lock : ∀ (s : State) (c : Nat) (sl : Slot), Inv P idOf s → s.slots c = some sl → Inv P idOf (lockSlot s c sl)

/-- a request that ends without panic never panicked -/
theorem sticky_none_rev {s t : State} (h : Sticky s t) (ht : t.panic = none) : s.panic = none := by
  cases hp : s.panic with
  | none => rfl
  | some p => rw [h p hp] at ht; cases ht

/-! ### the cases of `fetchStep` -/

theorem fetchStep_none {fe mc P s q} (hm : s.memos q = none) :
    fetchStep fe mc P s q = execute fe P s q none := by
  unfold fetchStep; simp only [hm]

theorem fetchStep_hot {fe mc P s q m} (hm : s.memos q = some m) (hv : m.va = s.cur) :
    fetchStep fe mc P s q = (s, hit m) := by
  unfold fetchStep; simp only [hm, hv, if_true]

theorem fetchStep_shallow {fe mc P s q m} (hm : s.memos q = some m) (hv : m.va ≠ s.cur)
    (hsh : lc s m.dur ≤ m.va) :
    fetchStep fe mc P s q = (markOutputsVerified q m.obs (markVerified s q m), hit m) := by
  unfold fetchStep; simp only [hm, hv, hsh, if_true, if_false]

theorem fetchStep_deep_green {fe mc P s q m} (hm : s.memos q = some m) (hv : m.va ≠ s.cur)
    (hsh : ¬ lc s m.dur ≤ m.va) (hd : (deepEdges mc P.spec q m.obs s m.va).2 = true) :
    fetchStep fe mc P s q = (markDeepVerified (deepEdges mc P.spec q m.obs s m.va).1 q m, hit m) := by
  unfold fetchStep; simp only [hm, hv, hsh, hd, if_true, if_false]

theorem fetchStep_deep_red {fe mc P s q m} (hm : s.memos q = some m) (hv : m.va ≠ s.cur)
    (hsh : ¬ lc s m.dur ≤ m.va) (hd : (deepEdges mc P.spec q m.obs s m.va).2 = false) :
    fetchStep fe mc P s q = execute fe P (deepEdges mc P.spec q m.obs s m.va).1 q (some m) := by
  unfold fetchStep; simp only [hm, hv, hsh, hd, if_false, Bool.false_eq_true]

theorem markDeepVerified_sticky (s q m) : Sticky s (markDeepVerified s q m) := fun _ h => h

/-! ### (a) one step of `fetch` -/

theorem fetchStep_rev {P : Prog} {idOf : Nat → Nat} {r : Nat} {fe : FetchFn} {mc : McaFn}
    (hP : Wf2 P idOf) (pc : Pieces P idOf)
    (hfe : FetchSpec P idOf r fe) (hmc : McaSpec P idOf r mc)
    (hsf : RelF Sticky fe) (hsm : RelM Sticky mc)
    (s : State) (hI : Inv P idOf s) (hnb : NB s (r + 1))
    (hpn : (fetchStep fe mc P s r).1.panic = none) :
    Inv P idOf (fetchStep fe mc P s r).1 ∧ NB (fetchStep fe mc P s r).1 (r + 1) ∧
    Ext s (fetchStep fe mc P s r).1 (r + 1) ∧
    (fetchStep fe mc P s r).2.val = sem P s.inp r ∧
    HotRes (fetchStep fe mc P s r).1 s.cur r (fetchStep fe mc P s r).2 := by
  have hnbr : NB s r := fun c hc => hnb c (Nat.lt_succ_of_lt hc)
  cases hm : s.memos r with
  | none =>
    rw [fetchStep_none hm] at hpn ⊢
    exact pc.exec r fe hfe hsf s none hI hnbr hm (fun mo h => by cases h)
      (fun hb => absurd hb (hnb r (Nat.lt_succ_self r))) hpn
  | some m =>
    by_cases hv : m.va = s.cur
    · rw [fetchStep_hot hm hv]
      exact ⟨hI, hnb, Ext.refl s _, value_of_sok hP hI hm (Or.inl hv), m, hm, hv, rfl, rfl, rfl⟩
    · by_cases hsh : lc s m.dur ≤ m.va
      · rw [fetchStep_shallow hm hv hsh] at hpn ⊢
        obtain ⟨a1, a2, a3, a4⟩ := pc.shallow s r m hI hm hv hsh hpn
        exact ⟨a1, fun c hc hb => hnb c hc (a3 c hb), a2, value_of_sok hP hI hm (Or.inr hsh), a4⟩
      · have hns : ¬ SOK s m := fun h => h.elim hv hsh
        cases hd : (deepEdges mc P.spec r m.obs s m.va).2 with
        | true =>
          rw [fetchStep_deep_green hm hv hsh hd] at hpn ⊢
          have hp1 : (deepEdges mc P.spec r m.obs s m.va).1.panic = none :=
            sticky_none_rev (markDeepVerified_sticky _ r m) hpn
          obtain ⟨_, _, b3, _, _, b6⟩ := pc.deep r mc hmc hsm s m hI hnb hm hns hp1
          obtain ⟨c1, c2, c3⟩ := b6 hd hpn
          have hmm : (markDeepVerified (deepEdges mc P.spec r m.obs s m.va).1 r m).memos r =
              some { m with va := (deepEdges mc P.spec r m.obs s m.va).1.cur,
                            deepAt := (deepEdges mc P.spec r m.obs s m.va).1.cur } := by
            simp [markDeepVerified]
          have hval := value_of_sok hP c1 hmm (Or.inl (by simp [markDeepVerified]))
          rw [c3.inp] at hval
          exact ⟨c1, c2, c3, hval, _, hmm, b3.cur, rfl, rfl, rfl⟩
        | false =>
          rw [fetchStep_deep_red hm hv hsh hd] at hpn ⊢
          have hp1 : (deepEdges mc P.spec r m.obs s m.va).1.panic = none :=
            sticky_none_rev (execute_rel primRel_sticky hsf P _ r (some m)) hpn
          obtain ⟨b1, b2, b3, b4, b5, _⟩ := pc.deep r mc hmc hsm s m hI hnb hm hns hp1
          obtain ⟨c1, c2, c3, c4, c5⟩ := pc.exec r fe hfe hsf _ (some m) b1 b2 b4
            (fun mo h => by cases h; exact fun hs => hns ((b3.sokIff m).mp hs))
            (fun hb => ⟨m, rfl, b5 hb⟩) hpn
          rw [b3.inp] at c4
          rw [b3.cur] at c5
          exact ⟨c1, c2, b3.trans c3, c4, c5⟩

/-! ### (b) one step of `maybe_changed_after` -/

theorem mcaStep_rev {P : Prog} {idOf : Nat → Nat} {r : Nat} {fe : FetchFn} {mc : McaFn}
    (hP : Wf2 P idOf) (pc : Pieces P idOf)
    (hfe : FetchSpec P idOf r fe) (hmc : McaSpec P idOf r mc)
    (hsf : RelF Sticky fe) (hsm : RelM Sticky mc)
    (s : State) (rev : Nat) (hI : Inv P idOf s) (hnb : NB s (r + 1))
    (hpn : (mcaStep fe mc P s r rev).1.panic = none) :
    Inv P idOf (mcaStep fe mc P s r rev).1 ∧ NB (mcaStep fe mc P s r rev).1 (r + 1) ∧
    Ext s (mcaStep fe mc P s r rev).1 (r + 1) ∧
    ((mcaStep fe mc P s r rev).2 = false →
      ∃ m, (mcaStep fe mc P s r rev).1.memos r = some m ∧ m.va = s.cur ∧ m.ca ≤ rev) := by
  cases hm : s.memos r with
  | none =>
    have e : mcaStep fe mc P s r rev = (s, true) := by unfold mcaStep; simp only [hm]
    rw [e]
    exact ⟨hI, hnb, Ext.refl s _, fun h => by cases h⟩
  | some m0 =>
    have e : mcaStep fe mc P s r rev =
        ((fetchStep fe mc P s r).1, decide ((fetchStep fe mc P s r).2.ca > rev)) := by
      unfold mcaStep; simp only [hm]
    rw [e] at hpn ⊢
    obtain ⟨a1, a2, a3, _, m, hm', hva, _, hca, _⟩ := fetchStep_rev hP pc hfe hmc hsf hsm s hI hnb hpn
    refine ⟨a1, a2, a3, fun h => ⟨m, hm', hva, ?_⟩⟩
    have : ¬ (fetchStep fe mc P s r).2.ca > rev := by simpa using h
    omega

/-! ### (c) the engine, by induction on the rank -/

theorem nb_lift {s t : State} {r : Nat} (he : Ext s t r) (ht : NB t r) (hs : NB s (r + 1)) : NB t (r + 1) := by
  intro c hc
  by_cases hlt : c < r
  · exact ht c hlt
  · have : c = r := by omega
    subst this
    exact fun hb => hs c hc ((busy_ext_above he (Nat.le_refl c)).mp hb)

theorem eng_rev {P : Prog} {idOf : Nat → Nat} (hP : Wf2 P idOf) (pc : Pieces P idOf) :
    ∀ r, FetchSpec P idOf r (eng P r).1 ∧ McaSpec P idOf r (eng P r).2 := by
  intro r
  induction r with
  | zero => exact ⟨fun s q h => by omega, fun s q rev h => by omega⟩
  | succ r ih =>
    obtain ⟨hfe, hmc⟩ := ih
    have hsf : RelF Sticky (eng P r).1 := (eng_rel primRel_sticky P r).1
    have hsm : RelM Sticky (eng P r).2 := (eng_rel primRel_sticky P r).2
    constructor
    · intro s q hq hI hnb hpn
      simp only [eng] at hpn ⊢
      by_cases hlt : q < r
      · simp only [hlt, if_true] at hpn ⊢
        obtain ⟨a1, a2, a3, a4, a5⟩ := hfe s q hlt hI (fun c hc => hnb c (Nat.lt_succ_of_lt hc)) hpn
        exact ⟨a1, nb_lift a3 a2 hnb, a3.weaken (Nat.le_succ r), a4, a5⟩
      · have : q = r := by omega
        subst this
        simp only [Nat.lt_irrefl, if_false, if_true] at hpn ⊢
        exact fetchStep_rev hP pc hfe hmc hsf hsm s hI hnb hpn
    · intro s q rev hq hI hnb hpn
      simp only [eng] at hpn ⊢
      by_cases hlt : q < r
      · simp only [hlt, if_true] at hpn ⊢
        obtain ⟨a1, a2, a3, a4⟩ := hmc s q rev hlt hI (fun c hc => hnb c (Nat.lt_succ_of_lt hc)) hpn
        exact ⟨a1, nb_lift a3 a2 hnb, a3.weaken (Nat.le_succ r), a4⟩
      · have : q = r := by omega
        subst this
        simp only [Nat.lt_irrefl, if_false, if_true] at hpn ⊢
        exact mcaStep_rev hP pc hfe hmc hsf hsm s rev hI hnb hpn

/-- a request of node `q` on a quiescent state -/
theorem fetch_rev {P : Prog} {idOf : Nat → Nat} (hP : Wf2 P idOf) (pc : Pieces P idOf)
    (s : State) (q : Nat) (hI : Inv P idOf s) (hnb : ∀ c, ¬ Busy s c) (hpn : (fetch P s q).1.panic = none) :
    Inv P idOf (fetch P s q).1 ∧ (∀ c, ¬ Busy (fetch P s q).1 c) ∧ Ext s (fetch P s q).1 (q + 1) ∧
    (fetch P s q).2.val = sem P s.inp q ∧ HotRes (fetch P s q).1 s.cur q (fetch P s q).2 := by
  obtain ⟨a1, a2, a3, a4, a5⟩ :=
    (eng_rev hP pc (q + 1)).1 s q (Nat.lt_succ_self q) hI (fun c _ => hnb c) hpn
  refine ⟨a1, ?_, a3, a4, a5⟩
  intro c
  by_cases hc : c < q + 1
  · exact a2 c hc
  · exact fun hb => hnb c ((busy_ext_above a3 (Nat.le_of_not_lt hc)).mp hb)

/-! ### (d) `get`: the request and the observation of the result -/

theorem not_busy_lock {s : State} {c : Nat} {sl : Slot} (hc : memoSok s c) (hnb : ∀ c', ¬ Busy s c') :
    ∀ c', ¬ Busy (lockSlot s c sl) c' := by
  intro c' hb
  obtain ⟨sl', h1, h2, h3⟩ := hb
  have hms : ∀ x, memoSok (lockSlot s c sl) x ↔ memoSok s x := fun x => Iff.rfl
  by_cases e : c' = c
  · subst e; exact h3 ((hms c').mpr hc)
  · have h1' : s.slots c' = some sl' := by
      rw [← h1]; simp only [lockSlot]; exact (setSlot_other _ _ _ e).symm
    exact hnb c' ⟨sl', h1', h2, fun h => h3 ((hms c').mpr h)⟩

theorem getOp_rev {P : Prog} {idOf : Nat → Nat} (hP : Wf2 P idOf) (pc : Pieces P idOf)
    (s : State) (q : Nat) (hI : Inv P idOf s) (hnb : ∀ c, ¬ Busy s c)
    (hpn : (getOp P s q).1.panic = none) :
    Inv P idOf (getOp P s q).1 ∧ (∀ c, ¬ Busy (getOp P s q).1 c) ∧
    (getOp P s q).2 = sem P s.inp q ∧ SameEnv s (getOp P s q).1 := by
  have henv : SameEnv s (getOp P s q).1 := getOp_rel primRel_sameEnv P s q
  refine ⟨?_, ?_, ?_, henv⟩
  all_goals unfold getOp at hpn ⊢
  all_goals dsimp only at hpn ⊢
  all_goals have hp1 : (fetch P s q).1.panic = none := sticky_none_rev (observe_rel primRel_sticky _ _) hpn
  all_goals obtain ⟨a1, a2, a3, a4, m, hm, hva, hval, _, _⟩ := fetch_rev hP pc s q hI hnb hp1
  · unfold observe
    cases hh : (fetch P s q).2.val.h with
    | none => exact a1
    | some c =>
      obtain ⟨_, _, sl, hsl⟩ := handle_ok hP a1 hm (Or.inl (hva.trans a3.cur.symm)) (hval ▸ hh)
      simp only [hsl]
      exact pc.lock _ c sl a1 hsl
  · unfold observe
    cases hh : (fetch P s q).2.val.h with
    | none => exact a2
    | some c =>
      obtain ⟨_, hc, sl, hsl⟩ := handle_ok hP a1 hm (Or.inl (hva.trans a3.cur.symm)) (hval ▸ hh)
      simp only [hsl]
      exact not_busy_lock hc a2
  · exact a4

/-! ### (e) histories -/

theorem write_panic (s : State) (i v : Nat) (nd : Option Nat) : (write s i v nd).panic = s.panic := by
  unfold write; dsimp only; split <;> rfl

theorem synth_panic (s : State) (d : Nat) : (synth s d).panic = s.panic := by
  unfold synth; dsimp only; split <;> rfl

theorem step_sticky (P : Prog) (s : State) (o : Op) : Sticky s (step P s o) := by
  cases o with
  | get q => exact getOp_rel primRel_sticky P s q
  | set i v nd => intro p h; simp only [step, write_panic]; exact h
  | synth d => intro p h; simp only [step, synth_panic]; exact h

theorem foldl_step_sticky (P : Prog) : ∀ ops s, Sticky s (List.foldl (step P) s ops) := by
  intro ops
  induction ops with
  | nil => intro s p h; exact h
  | cons o ops ih => intro s p h; exact ih _ p (step_sticky P s o p h)

/-- the model's inputs against the environment of the reference semantics -/
def EnvOf (s : State) (env : Nat → Nat × Nat) : Prop :=
  ∀ i, (s.inp i).val = (env i).1 ∧ (s.inp i).dur = (env i).2

theorem envOf_write {s env} (h : EnvOf s env) (i v : Nat) (nd : Option Nat) :
    EnvOf (write s i v nd) (refWrite env i v nd) := by
  have hi := h i
  unfold write refWrite
  dsimp only
  by_cases hd : (s.inp i).dur ≥ 3
  · have hd' : (env i).2 ≥ 3 := by rw [← hi.2]; exact hd
    simp only [hd, hd', if_true]
    exact h
  · have hd' : ¬ (env i).2 ≥ 3 := by rw [← hi.2]; exact hd
    simp only [hd, hd', if_false]
    intro j
    dsimp only
    by_cases hj : j = i
    · rw [if_pos hj, if_pos hj]
      refine ⟨rfl, ?_⟩
      cases nd with
      | none => exact hi.2
      | some d => rfl
    · rw [if_neg hj, if_neg hj]
      exact h j

theorem envOf_synth {s env} (h : EnvOf s env) (d : Nat) : EnvOf (synth s d) env := by
  have : (synth s d).inp = s.inp := by unfold synth; dsimp only; split <;> rfl
  intro i; rw [this]; exact h i

theorem sem_envOf (P : Prog) {s env} (h : EnvOf s env) : sem P s.inp = sem P (refInp env) :=
  sem_congr P (fun i => (h i).1)

/-- Histories with writes: every request of a panic-free history returns the from-scratch value. -/
theorem outputs_rev {P : Prog} {idOf : Nat → Nat} (hP : Wf2 P idOf) (pc : Pieces P idOf) :
    ∀ (ops : List Op) (s : State) (env : Nat → Nat × Nat), Inv P idOf s → (∀ c, ¬ Busy s c) → EnvOf s env →
      (List.foldl (step P) s ops).panic = none → outputs P s ops = refOutputs P env ops := by
  intro ops
  induction ops with
  | nil => intro s env _ _ _ _; rfl
  | cons o ops ih =>
    intro s env hI hnb he hpn
    simp only [List.foldl_cons] at hpn
    cases o with
    | get q =>
      have hp1 : (getOp P s q).1.panic = none := sticky_none_rev (foldl_step_sticky P ops _) hpn
      obtain ⟨a1, a2, a3, a4⟩ := getOp_rev hP pc s q hI hnb hp1
      have he' : EnvOf (getOp P s q).1 env := by intro i; rw [a4.2.2.1]; exact he i
      simp only [outputs, refOutputs]
      rw [ih _ env a1 a2 he' hpn, a3, sem_envOf P he]
    | set i v nd =>
      obtain ⟨a1, a2⟩ := write_inv hI hnb i v nd
      simp only [outputs, refOutputs]
      exact ih _ _ a1 a2 (envOf_write he i v nd) hpn
    | synth d =>
      obtain ⟨a1, a2⟩ := synth_inv hI hnb d
      simp only [outputs, refOutputs]
      exact ih _ _ a1 a2 (envOf_synth he d) hpn

theorem envOf_init (inp : Nat → Inp) : EnvOf (init inp) (fun i => ((inp i).val, (inp i).dur)) :=
  fun _ => ⟨rfl, rfl⟩

/-- MAIN (under the pieces): a panic-free history on a fresh database returns, request by request,
    the from-scratch values of the reference semantics. -/
theorem sound_of_pieces {P : Prog} {idOf : Nat → Nat} (hP : Wf2 P idOf) (pc : Pieces P idOf)
    (inp : Nat → Inp) (ops : List Op) (hnp : (run P inp ops).panic = none) :
    outputs P (init inp) ops = refOutputs P (fun i => ((inp i).val, (inp i).dur)) ops :=
  outputs_rev hP pc ops (init inp) _ (init_inv P idOf inp).1 (init_inv P idOf inp).2 (envOf_init inp) hnp

/-- the invariant along a panic-free history -/
theorem foldl_inv {P : Prog} {idOf : Nat → Nat} (hP : Wf2 P idOf) (pc : Pieces P idOf) :
    ∀ (ops : List Op) (s : State), Inv P idOf s → (∀ c, ¬ Busy s c) →
      (List.foldl (step P) s ops).panic = none →
      Inv P idOf (List.foldl (step P) s ops) ∧ ∀ c, ¬ Busy (List.foldl (step P) s ops) c := by
  intro ops
  induction ops with
  | nil => intro s hI hnb _; exact ⟨hI, hnb⟩
  | cons o ops ih =>
    intro s hI hnb hpn
    simp only [List.foldl_cons] at hpn ⊢
    cases o with
    | get q =>
      have hp1 : (getOp P s q).1.panic = none := sticky_none_rev (foldl_step_sticky P ops _) hpn
      obtain ⟨a1, a2, _, _⟩ := getOp_rev hP pc s q hI hnb hp1
      exact ih _ a1 a2 hpn
    | set i v nd =>
      obtain ⟨a1, a2⟩ := write_inv hI hnb i v nd
      exact ih _ a1 a2 hpn
    | synth d =>
      obtain ⟨a1, a2⟩ := synth_inv hI hnb d
      exact ih _ a1 a2 hpn

theorem run_inv {P : Prog} {idOf : Nat → Nat} (hP : Wf2 P idOf) (pc : Pieces P idOf)
    (inp : Nat → Inp) (ops : List Op) (hnp : (run P inp ops).panic = none) :
    Inv P idOf (run P inp ops) ∧ ∀ c, ¬ Busy (run P inp ops) c :=
  foldl_inv hP pc ops (init inp) (init_inv P idOf inp).1 (init_inv P idOf inp).2 hnp

/-- the per-request form: after any panic-free history, a request that does not panic returns the
    from-scratch value under the current inputs -/
theorem request_of_pieces {P : Prog} {idOf : Nat → Nat} (hP : Wf2 P idOf) (pc : Pieces P idOf)
    (inp : Nat → Inp) (ops : List Op) (q : Nat) (hnp : (run P inp ops).panic = none)
    (hq : (getOp P (run P inp ops) q).1.panic = none) :
    (getOp P (run P inp ops) q).2 = sem P (run P inp ops).inp q := by
  obtain ⟨hI, hnb⟩ := run_inv hP pc inp ops hnp
  exact (getOp_rev hP pc _ q hI hnb hq).2.2.1

/-! ### the inputs (values, durabilities, stamps, revision) depend on the writes only -/

/-- the writes (`set`, `synth`) of a history, in order -/
def writesOf (ops : List Op) : List Op :=
  ops.filter fun o => match o with
    | .get _ => false
    | _ => true

theorem SameEnv.symm {s t : State} (h : SameEnv s t) : SameEnv t s :=
  ⟨h.1.symm, h.2.1.symm, h.2.2.1.symm, h.2.2.2.symm⟩

theorem write_sameEnv {s t : State} (h : SameEnv s t) (i v : Nat) (nd : Option Nat) :
    SameEnv (write s i v nd) (write t i v nd) := by
  obtain ⟨h1, h2, h3, h4⟩ := h
  unfold write SameEnv
  dsimp only
  rw [h1, h2, h3, h4]
  by_cases hd : (s.inp i).dur ≥ 3
  · rw [if_pos hd, if_pos hd]; exact ⟨rfl, rfl, rfl, rfl⟩
  · rw [if_neg hd, if_neg hd]; exact ⟨rfl, rfl, rfl, rfl⟩

theorem synth_sameEnv {s t : State} (h : SameEnv s t) (d : Nat) : SameEnv (synth s d) (synth t d) := by
  obtain ⟨h1, h2, h3, h4⟩ := h
  unfold synth SameEnv
  dsimp only
  rw [h1, h2, h3, h4]
  by_cases hd : d ≥ 3
  · rw [if_pos hd, if_pos hd]; exact ⟨rfl, rfl, rfl, rfl⟩
  · rw [if_neg hd, if_neg hd]; exact ⟨rfl, rfl, rfl, rfl⟩

theorem foldl_writes_sameEnv (P : Prog) : ∀ (ops : List Op) (s t : State), SameEnv s t →
    SameEnv (List.foldl (step P) s ops) (List.foldl (step P) t (writesOf ops)) := by
  intro ops
  induction ops with
  | nil => intro s t h; exact h
  | cons o ops ih =>
    intro s t h
    cases o with
    | get q =>
      have e : writesOf (Op.get q :: ops) = writesOf ops := rfl
      rw [e, List.foldl_cons]
      exact ih _ _ (primRel_sameEnv.trans (getOp_rel primRel_sameEnv P s q).symm h)
    | set i v nd =>
      have e : writesOf (Op.set i v nd :: ops) = Op.set i v nd :: writesOf ops := rfl
      rw [e, List.foldl_cons, List.foldl_cons]
      exact ih _ _ (write_sameEnv h i v nd)
    | synth d =>
      have e : writesOf (Op.synth d :: ops) = Op.synth d :: writesOf ops := rfl
      rw [e, List.foldl_cons, List.foldl_cons]
      exact ih _ _ (synth_sameEnv h d)

/-- two histories with the same writes end in the same revision with the same inputs -/
theorem run_env_congr (P : Prog) (inp : Nat → Inp) {ops1 ops2 : List Op} (h : writesOf ops1 = writesOf ops2) :
    SameEnv (run P inp ops1) (run P inp ops2) := by
  have a1 := foldl_writes_sameEnv P ops1 (init inp) (init inp) ⟨rfl, rfl, rfl, rfl⟩
  have a2 := foldl_writes_sameEnv P ops2 (init inp) (init inp) ⟨rfl, rfl, rfl, rfl⟩
  rw [h] at a1
  exact primRel_sameEnv.trans a1 a2.symm

theorem run_inp_congr (P : Prog) (inp : Nat → Inp) {ops1 ops2 : List Op} (h : writesOf ops1 = writesOf ops2) :
    (run P inp ops1).inp = (run P inp ops2).inp := (run_env_congr P inp h).2.2.1.symm

/-- order independence across revisions: after two panic-free histories with the same writes
    (whatever requests were made in between, in whatever order) a request returns the same value -/
theorem request_congr_of_pieces {P : Prog} {idOf : Nat → Nat} (hP : Wf2 P idOf) (pc : Pieces P idOf)
    (inp : Nat → Inp) (ops1 ops2 : List Op) (q : Nat) (hw : writesOf ops1 = writesOf ops2)
    (h1 : (run P inp ops1).panic = none) (h2 : (run P inp ops2).panic = none)
    (hq1 : (getOp P (run P inp ops1) q).1.panic = none) (hq2 : (getOp P (run P inp ops2) q).1.panic = none) :
    (getOp P (run P inp ops1) q).2 = (getOp P (run P inp ops2) q).2 := by
  rw [request_of_pieces hP pc inp ops1 q h1 hq1, request_of_pieces hP pc inp ops2 q h2 hq2,
    run_inp_congr P inp hw]

end SalsaVerif.Proofs.CoreSpec
