/-
  C26 with flattening: the top-level loop of `flattenObs`, where the function edges of the
  flattened list come from, and `Cov` from `Done` + `CutC`.  Core Lean only.
-/
import SalsaVerif.Proofs.PersistFlat7d

namespace SalsaVerif.Proofs.PersistFlat
open SalsaVerif.Model.Core SalsaVerif.Model.Persist SalsaVerif.Proofs.Core SalsaVerif.Proofs.Persist

theorem hasDep_snoc (l : List Obs) (o : Obs) : hasDep (l ++ [o]) o.dep = true := by
  simp [hasDep]

/-- every function edge of the flattened list is an edge of the memo itself (only the top level
    copies function edges) -/
theorem flatten_origin (pers : Nat → Bool) (s : State) (obs : List Obs) :
    ∀ x, x ∈ flattenObs pers s obs → ∀ p, x.dep = .qry p → Dep.qry p ∈ obs.map (·.dep) := by
  let pers' : Nat → Bool := fun j => decide (Dep.qry j ∈ obs.map (·.dep))
  have key : ∀ (l : List Obs) (a : FAcc), (∀ o, o ∈ l → o ∈ obs) → (∀ y, y ∈ a.flat → PersObs pers' y) →
      ∀ y, y ∈ (l.foldl (flattenEdge pers s) a).flat → PersObs pers' y := by
    intro l
    induction l with
    | nil => intro a _ ha; exact ha
    | cons o rest ih =>
      intro a hl ha
      simp only [List.foldl_cons]
      apply ih _ (fun o' ho' => hl o' (by simp [ho']))
      have ho : o ∈ obs := hl o (by simp)
      have copy : ∀ y, y ∈ a.flat ++ [o] → PersObs pers' y := by
        intro y hy
        simp only [List.mem_append, List.mem_singleton] at hy
        rcases hy with hy | hy
        · exact ha y hy
        · rw [hy]
          intro j hj
          simp only [pers', decide_eq_true_eq, List.mem_map]
          exact ⟨o, ho, hj⟩
      unfold flattenEdge
      split
      · exact copy
      · split
        · exact copy
        · exact cmse_flat pers' s _ _ a ha
  intro x hx p hp
  have := key obs ⟨[], []⟩ (fun o ho => ho) (by intro y hy; cases hy) x hx p hp
  simpa [pers'] using this

theorem cmse_ext (s : State) : ∀ fuel j a, ∃ e, (cmse s fuel j a).flat = a.flat ++ e := by
  intro fuel
  induction fuel with
  | zero => intro j a; exact ⟨[], by simp [cmse]⟩
  | succ fuel ih =>
    intro j a
    simp only [cmse]
    split
    · exact ⟨[], by simp⟩
    · rename_i m _
      have key : ∀ (l : List Obs) (a0 : FAcc), ∃ e, (l.foldl (cmseEdge (cmse s fuel)) a0).flat = a0.flat ++ e := by
        intro l
        induction l with
        | nil => intro a0; exact ⟨[], by simp⟩
        | cons o rest ih2 =>
          intro a0
          simp only [List.foldl_cons]
          obtain ⟨e2, he2⟩ := ih2 (cmseEdge (cmse s fuel) a0 o)
          have h1 : ∃ e, (cmseEdge (cmse s fuel) a0 o).flat = a0.flat ++ e := by
            unfold cmseEdge
            split
            · exact ⟨[], by simp⟩
            · split
              · exact ⟨[], by simp⟩
              · split
                · exact insertEdge_ext a0 o
                · exact ih _ a0
          obtain ⟨e1, he1⟩ := h1
          exact ⟨e1 ++ e2, by rw [he2, he1, List.append_assoc]⟩
      exact key _ _

/-- input edges and persisted function edges of the memo are copied -/
theorem flatten_top_mem (pers : Nat → Bool) (s : State) (obs : List Obs) :
    ∀ o, o ∈ obs → ((∃ i, o.dep = .inp i) ∨ (∃ p, o.dep = .qry p ∧ pers p = true)) →
    hasDep (flattenObs pers s obs) o.dep = true := by
  have ext1 : ∀ a o, ∃ e, (flattenEdge pers s a o).flat = a.flat ++ e := by
    intro a o
    unfold flattenEdge
    split
    · exact ⟨[o], rfl⟩
    · split
      · exact ⟨[o], rfl⟩
      · exact cmse_ext s _ _ a
  have extl : ∀ (l : List Obs) (a : FAcc), ∃ e, (l.foldl (flattenEdge pers s) a).flat = a.flat ++ e := by
    intro l
    induction l with
    | nil => intro a; exact ⟨[], by simp⟩
    | cons o rest ih =>
      intro a
      simp only [List.foldl_cons]
      obtain ⟨e2, he2⟩ := ih (flattenEdge pers s a o)
      obtain ⟨e1, he1⟩ := ext1 a o
      exact ⟨e1 ++ e2, by rw [he2, he1, List.append_assoc]⟩
  have key : ∀ (l : List Obs) (a : FAcc) o, o ∈ l →
      ((∃ i, o.dep = .inp i) ∨ (∃ p, o.dep = .qry p ∧ pers p = true)) →
      hasDep (l.foldl (flattenEdge pers s) a).flat o.dep = true := by
    intro l
    induction l with
    | nil => intro a o ho; cases ho
    | cons o1 rest ih =>
      intro a o ho hk
      simp only [List.foldl_cons]
      simp only [List.mem_cons] at ho
      rcases ho with e | e
      · subst e
        obtain ⟨e2, he2⟩ := extl rest (flattenEdge pers s a o)
        rw [he2]
        apply hasDep_append
        unfold flattenEdge
        rcases hk with ⟨i, hd⟩ | ⟨p, hd, hp⟩
        · simp only [hd]
          have := hasDep_snoc a.flat o
          rw [hd] at this; exact this
        · simp only [hd, hp, if_true]
          have := hasDep_snoc a.flat o
          rw [hd] at this; exact this
      · exact ih _ o e hk
  intro o ho hk
  exact key obs ⟨[], []⟩ o ho hk

theorem flatten_done {pers P H R0 s q m} (hP : Wf P) (hJ : J pers P H R0 s) (hA : AllRec s)
    (hm : s.memos q = some m) :
    (∀ o, o ∈ m.obs → ∀ i, o.dep = .inp i → hasDep (flattenObs pers s m.obs) (.inp i) = true) ∧
    (∀ o, o ∈ m.obs → ∀ p, o.dep = .qry p → pers p = true → hasDep (flattenObs pers s m.obs) (.qry p) = true) ∧
    (∀ o, o ∈ m.obs → ∀ n, o.dep = .qry n → pers n = false → Done s (flattenObs pers s m.obs) n) := by
  have h0 := hJ.memo q m hm
  have hwalk := walkD (s := s) (anc := []) (flattenEdge pers s) m.obs ⟨[], []⟩
    ⟨(by intro d hd; cases hd), (by intro k hk; cases hk)⟩ (by
      intro a1 o ho hv1
      have copy : StepD s [] a1 { a1 with flat := a1.flat ++ [o] } o := by
        refine ⟨⟨[o], rfl⟩, visOK_ext hv1 rfl ⟨[o], rfl⟩, ?_, ?_⟩
        · intro i hd; rw [← hd]; exact hasDep_snoc _ _
        · intro p hd; rw [← hd]; exact Or.inl (hasDep_snoc _ _)
      unfold flattenEdge
      split
      · exact copy
      · rename_i j hd
        split
        · exact copy
        · obtain ⟨_, mj, hmj, _⟩ := h0.j7 j (by rw [← hd]; exact mem_odOf' ho)
          obtain ⟨e1, v1, d1⟩ := cmse_done hP hJ hA (j + 1) j a1 [] (Nat.lt_succ_self j)
            (by intro x hx; cases hx) hv1 ⟨mj, hmj⟩
          refine ⟨e1, v1, ?_, ?_⟩
          · intro i hd'; rw [hd] at hd'; cases hd'
          · intro p hd'; rw [hd] at hd'; cases hd'; exact Or.inr d1)
  obtain ⟨_, _, wi, wq⟩ := hwalk
  refine ⟨wi, ?_, ?_⟩
  · intro o ho p hd hp
    have := flatten_top_mem pers s m.obs o ho (Or.inr ⟨p, hd, hp⟩)
    rw [hd] at this; exact this
  · intro o ho n hd hn
    rcases wq o ho n hd with h | h
    · obtain ⟨x, hx, hxd⟩ := hasDep_mem h
      have := flatten_persisted pers s m.obs x hx n hxd
      rw [hn] at this; cases this
    · exact h

end SalsaVerif.Proofs.PersistFlat
