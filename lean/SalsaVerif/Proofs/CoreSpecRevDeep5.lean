/-
  CoreSpec, histories with writes: deep verification of a node, part 5.
    * `walk_all`  : the walk invariant along `deep_verify_edges` (induction over the edges);
    * `Walk.tie`  : the tie of creator `r` re-built from the current reads before the `create`
                    (for the old memo while `r` is busy: `LocalTie`; for the re-stamped memo);
    * `nodeOk_restamped` : all clauses of the memo marked verified after a successful walk.
  The result (`deepOk`) is assembled in Proofs/CoreSpecRevDeep6.lean.
  Core Lean only.
-/
import SalsaVerif.Proofs.CoreSpecRevDeep4

namespace SalsaVerif.Proofs.CoreSpec
open SalsaVerif.Model.CoreSpec

/-- a request that ends without panic never panicked (local copy of `sticky_none`,
    Proofs/CoreSpecFresh.lean, which cannot be imported here: it defines another `Ext`) -/
theorem sticky_none' {s t : State} (h : Sticky s t) (ht : t.panic = none) : s.panic = none := by
  cases hp : s.panic with
  | none => rfl
  | some p => rw [h p hp] at ht; cases ht

section WalkAll
variable {P : Prog} {idOf : Nat → Nat} {r : Nat} {s : State} {m : Memo} {R : SemRes}

/-- the walk over the remaining edges `rest` -/
theorem walk_all {mc : McaFn} (C : WalkCtx P idOf r s m R) (hmc : McaSpec P idOf r mc)
    (hms : SpecMcaOk P idOf (mcaSpec P.spec)) (hst : RelM Sticky mc) (VO : ValidateOutputOk P idOf) :
    ∀ (rest done : List Obs) (t : State), m.obs = done ++ rest → Walk P idOf r s m R done t →
      (deepEdges mc P.spec r rest t m.va).1.panic = none →
      ∃ done', Walk P idOf r s m R done' (deepEdges mc P.spec r rest t m.va).1 ∧
        ((deepEdges mc P.spec r rest t m.va).2 = true → done' = m.obs) := by
  intro rest
  induction rest with
  | nil =>
    intro done t hs w _
    simp only [deepEdges]
    exact ⟨done, w, fun _ => by rw [hs]; simp⟩
  | cons o rest ih =>
    intro done t hs w hpn
    have ho := dv_mem_of_split hs
    have hs' : m.obs = (done ++ [o]) ++ rest := by rw [hs]; simp
    have nok := w.inv.node r m w.mem
    have stk : ∀ t0, Sticky t0 (deepEdges mc P.spec r rest t0 m.va).1 :=
      fun t0 => deepEdges_rel primRel_sticky hst _ _ _ _ _
    simp only [deepEdges] at hpn ⊢
    cases hrec : o.recd with
    | false =>
      simp only [hrec, Bool.false_eq_true, if_false] at hpn ⊢
      cases hout : o.out with
      | false => exact ih _ t hs' (w.add C ho hout (w.checkUnrec C hs hout hrec)) hpn
      | true => exact ih _ t hs' (w.snocSkip hout hrec C.hR) hpn
    | true =>
      simp only [hrec, if_true] at hpn ⊢
      cases hout : o.out with
      | true =>
        have hd := (nok.outedge o ho hout).1
        simp only [hout, if_true, hd] at hpn ⊢
        exact ih _ _ hs' (w.validate C VO hs hout) hpn
      | false =>
        simp only [hout, Bool.false_eq_true, if_false] at hpn ⊢
        cases hch : (depChanged mc P.spec t o.dep m.va).2 with
        | true =>
          simp only [hch, if_true] at hpn ⊢
          obtain ⟨w', _⟩ := w.checkRec C hmc hms hs hout hrec hpn
          exact ⟨done, w', fun h => by cases h⟩
        | false =>
          simp only [hch, Bool.false_eq_true, if_false] at hpn ⊢
          have hpn' := sticky_none' (stk _) hpn
          obtain ⟨w', ck⟩ := w.checkRec C hmc hms hs hout hrec hpn'
          exact ih _ _ hs' (w'.add C ho hout (ck hch)) hpn

variable {done : List Obs} {t : State}

/-- the tie of `r` for a memo `m2` with the durability of `m`, re-built from the current reads
    before the `create` -/
theorem Walk.tie (C : WalkCtx P idOf r s m R) (w : Walk P idOf r s m R done t)
    (hall : ∀ p, p ∈ preOf idOf (P.node r) m.obs → p ∈ done) (m2 : Memo) (hdur : m2.dur = m.dur)
    (hva : m.va ≤ m2.va)
    (hfca : ∀ sl, t.slots r = some sl → sl.fca ≤ m2.va)
    (hAva : ∀ w0, R.sp = some w0 → ∀ A, t.smemos r = some A → m2.va ≤ A.va ∨ A.dur = 3) :
    TieOk t r m2 R (preOf idOf (P.node r) m.obs) := by
  have nok := w.inv.node r m w.mem
  obtain ⟨post, hpo⟩ := preOf_prefix idOf (P.node r) m.obs
  have hd : HdOk (fun _ => False) (preOf idOf (P.node r) m.obs ++ post) := by rw [← hpo]; exact nok.hd
  have hno := preOf_nonout r idOf _ _ none none R C.hR
  have hpre : ∀ va, PreAt t va (tieLvl s r m R.sp) (preOf idOf (P.node r) m.obs) :=
    fun va => preAt_green C.hP w.inv hd hno (fun p hp => w.pgreen p (hall p hp) hp) va
  have htie := C.tie
  unfold TieOk at htie ⊢
  cases hts : R.ts with
  | none =>
    rw [hts] at htie
    exact ⟨w.slN htie.1, w.smN htie.2⟩
  | some kv =>
    obtain ⟨k, v⟩ := kv
    rw [hts] at htie
    obtain ⟨sl0, hsl0, hk, hv, _, h5⟩ := htie
    obtain ⟨sl', hsl', e⟩ := w.slS sl0 hsl0
    refine ⟨sl', hsl', e.2.1.trans hk, e.2.2.1.trans hv, hfca sl' hsl', ?_⟩
    cases hsp : R.sp with
    | some w0 =>
      rw [hsp] at h5
      obtain ⟨A0, hA0, hor, hval, _, hd1, hd2, _, hca⟩ := h5
      obtain ⟨A', hA', hver⟩ := w.smS A0 hA0
      obtain ⟨f1, f2, f3, _, _, f6, _, _⟩ := verEq_fields' hver
      have hl : tieLvl s r m R.sp = A'.dur := by rw [hsp]; simp only [tieLvl, hA0, f3]
      refine ⟨A', hA', by rw [f6]; exact hor, by rw [f1]; exact hval, hAva w0 hsp A' hA',
        by rw [hdur, f3]; exact hd1, by rw [e.2.2.2.2, f3]; exact hd2, ?_, by rw [f2]; exact Nat.le_trans hca hva⟩
      rw [← hl]; exact hpre _
    | none =>
      rw [hsp] at h5
      have hnb : ¬ Busy t r := fun hb => (w.busy hb).1 hsp
      obtain ⟨R', hR', _, _, _, htf⟩ := nok.rep
      rw [C.hR] at hR'; cases hR'
      have htf := (htf hnb).1
      unfold TieOk at htf
      rw [hts] at htf
      obtain ⟨sl1, _, _, _, _, h5'⟩ := htf
      rw [hsp] at h5'
      have hl : tieLvl s r m R.sp = max sl'.dur m2.dur := by
        rw [hsp]; simp only [tieLvl, hsl0, e.2.2.2.2, hdur]
      refine ⟨fun A hA ho => (h5'.1 A hA ho).mono hva, ?_⟩
      rw [← hl]; exact hpre _

/-- all clauses of the memo of `r` marked verified after a walk that found every edge unchanged -/
theorem nodeOk_restamped (C : WalkCtx P idOf r s m R) (w : Walk P idOf r s m R m.obs t) :
    NodeOk P idOf (restamp t r m) r { m with va := t.cur, deepAt := t.cur } := by
  have nok := w.inv.node r m w.mem
  have hI := w.inv
  have all : ∀ o, o ∈ m.obs → o.out = false → Green t m.dur o := w.green
  have hd0 : HdOk (fun _ => False) (m.obs ++ []) := by simpa using nok.hd
  have hlt : ∀ o, o ∈ m.obs → o.out = false → ∀ c, (o.dep = .field c ∨ o.dep = .spec c) → c ≠ r := by
    intro o ho hout c hd
    have := nok.rank o ho hout
    rcases hd with e | e <;> rw [e] at this <;> exact Nat.ne_of_lt this
  have hstruct := structAt_green C.hP hI hd0 all
  refine ⟨⟨Nat.le_trans nok.obs.ca_va nok.obs.va_cur, Nat.le_refl _, hI.cur1, Nat.le_refl _, hI.cur1,
    nok.obs.dur3, ?_, ?_, Or.inl (hI.lc_le _), ?_, ?_, ?_, ?_, ?_⟩, nok.origin, ?_, nok.rank, ?_, ?_, nok.hd, ?_,
    nok.hsrc, nok.outedge, nok.never, ?_, nok.shape⟩
  · -- iv
    intro o ho hout
    exact rs_obsAt w.mem ((all o ho hout).obsAt hI t.cur)
  · -- kaca
    intro _ o ho hout
    obtain ⟨x, hx, _⟩ := (all o ho hout).info
    exact ⟨x, by rw [rs_depInfo w.mem]; exact hx, dv_depInfo_ca_le hI hx⟩
  · -- i5q
    intro o q' ho hout hd
    have g := all o ho hout
    have hne : q' ≠ r := by
      have := nok.rank o ho hout
      rw [hd] at this; exact Nat.ne_of_lt this
    have hs := g.sok
    rw [hd] at hs
    obtain ⟨m2, hm2, _⟩ := hs
    refine ⟨m2, by rw [rs_mem_other hne]; exact hm2, fun hr => ?_⟩
    have hh := g.hot hr
    rw [hd] at hh
    obtain ⟨m3, hm3, hv3⟩ := hh
    rw [hm2] at hm3; cases hm3
    exact Nat.le_of_eq hv3.symm
  · -- i5s
    intro o c sm ho hout hd hr hsm
    have hh := (all o ho hout).hot hr
    rw [hd] at hh
    obtain ⟨_, sm', hsm', hv⟩ := hh
    have hsm0 : t.smemos c = some sm := hsm
    rw [hsm0] at hsm'; cases hsm'
    exact Nat.le_of_eq hv.symm
  · -- ordw
    intro o c mc ho hout hd hmc w0 d hw hdur hlt'
    rw [rs_mem_other (hlt o ho hout c hd)] at hmc
    obtain ⟨⟨mc', hmc', hsc⟩, _⟩ := hstruct o ho hout c mc hd hmc
    rw [hmc] at hmc'; cases hmc'
    exact absurd hlt' (dv_no_write_after_sok hI hsc w0 d hw hdur)
  · -- i6
    intro o ho hout hr
    exact rs_obsAt w.mem ((all o ho hout).obsAt3 hI hr t.cur)
  · -- g4
    intro w0 d _ _ h
    exact absurd h.1 (Nat.not_lt.mpr h.2)
  · -- ksok
    intro _ o ho hout
    exact rs_sokDep_fwd (all o ho hout).sok
  · -- sobs
    intro o ho hout
    refine rs_structAt w.mem ⟨?_, ?_⟩
    · intro c mc hd hmc
      exact Or.inl (hstruct o ho hout c mc hd hmc).2.2.1
    · intro c mc hd hmc
      exact Or.inl (hstruct o ho hout c mc hd hmc).2.2.2
  · -- hmemo
    intro o c ho hout hd
    obtain ⟨mc, hmc⟩ := nok.hmemo o c ho hout hd
    exact ⟨mc, by rw [rs_mem_other (hlt o ho hout c hd)]; exact hmc⟩
  · -- rep
    obtain ⟨R', hR', h2, h3, h4, _⟩ := nok.rep
    rw [C.hR] at hR'; cases hR'
    refine ⟨R, C.hR, h2, h3, h4, fun _ => ⟨rs_tieOk w.mem ?_, ?_⟩⟩
    rotate_left
    · -- the order clause: no write is later than the current revision
      intro w0 _ A _ w' d hw _ hlt'
      have h1 := hI.wlog_lc w' d hw 0 (Nat.zero_le _)
      have h2' := hI.lc_le 0
      have hlt'' : t.cur < w' := hlt'
      omega
    refine w.tie C (fun p hp => preOf_sublist idOf _ _ p hp) _ rfl nok.obs.va_cur
      (fun sl hsl => (hI.slot r sl hsl).1) ?_
    intro w0 hsp A hA
    obtain ⟨o, ho, hout⟩ := replay_sp_out' r idOf _ _ none none R w0 C.hR rfl hsp
    rcases (nok.outedge o ho hout).2 with hr | h3
    · obtain ⟨A2, _, hA2, hva2, _⟩ := w.passed o ho hout hr
      rw [hA] at hA2; cases hA2
      exact Or.inl (Nat.le_of_eq hva2.symm)
    · have : SOK s m := dv_sok_of_never C.hI (by omega) (C.hI.node r m C.hm).obs.va1
      exact absurd this C.hns
  · -- m4
    rcases nok.m4 with a | ⟨o, ho, hout, a⟩
    · exact Or.inl a
    · exact Or.inr ⟨o, ho, hout, fun x hx => a x (by rw [rs_depInfo w.mem] at hx; exact hx)⟩

end WalkAll

end SalsaVerif.Proofs.CoreSpec
