/-
  CoreAcc engine (adapted copy of CoreRun.lean): `fresh_of_sok`, `obs_sem_of_sok`, `acc_of_sok`,
  `calls_of_sok`, the specification records, `run_ok` (with the frame facts about `acc` / `accIn`),
  `run_prefix`, `deep_ok` (with the flag returned by the walk).  Core Lean only.
-/
import SalsaVerif.Proofs.CoreAccInv

namespace SalsaVerif.Proofs.CoreAcc
open SalsaVerif.Model.CoreAcc

theorem mem_obsPairs {l : List Obs} {d x} (h : (d, x) ∈ obsPairs l) : ∃ o, o ∈ l ∧ o.dep = d ∧ o.val = x := by
  simp only [obsPairs, List.mem_map] at h
  obtain ⟨o, ho, he⟩ := h
  exact ⟨o, ho, (Prod.mk.inj he).1, (Prod.mk.inj he).2⟩

/-- A memo that passes the shallow test is semantically fresh. -/
theorem fresh_of_sok {P s} (hP : Wf P) (hI : Inv P s) :
    ∀ q m, s.memos q = some m → SOK s m → m.value = sem P s.inp q := by
  intro q
  induction q using Nat.strongRecOn with
  | _ q ih =>
    intro m hm hs
    have ok := hI.memo q m hm
    rw [sem_unfold P s.inp hP q]
    symm
    apply replay_sem _ (P q) (obsPairs m.obs) m.value ok.rep
    intro d x hmem
    obtain ⟨o, ho, hd, hx⟩ := mem_obsPairs hmem
    obtain ⟨hca, hsok⟩ := ok.i3 hs o ho
    cases d with
    | inp i =>
      have hinfo : depInfo s o.dep = some (s.inp i).res := by rw [hd]; rfl
      have := (ok.i2 o ho _ hinfo (hca _ hinfo)).1
      simp only [semDep]
      rw [← hx]; exact this
    | qry q' =>
      obtain ⟨hlt, m', hm', _⟩ := ok.i5 o q' ho hd
      have hinfo : depInfo s o.dep = some m'.res := by rw [hd]; simp [depInfo, hm']
      have hval := (ok.i2 o ho _ hinfo (hca _ hinfo)).1
      rw [hd] at hsok
      obtain ⟨m2, hm2, hs2⟩ := hsok
      rw [hm'] at hm2; cases hm2
      have := ih q' hlt m' hm' hs2
      simp only [semDep]
      rw [← this, ← hx]; exact hval

/-- … and every recorded read of such a memo holds the current semantic value of its dependency -/
theorem obs_sem_of_sok {P s} (hP : Wf P) (hI : Inv P s) {q m} (hm : s.memos q = some m) (hs : SOK s m) :
    ∀ d x, (d, x) ∈ obsPairs m.obs → semDep P s.inp d = x := by
  have ok := hI.memo q m hm
  intro d x hmem
  obtain ⟨o, ho, hd, hx⟩ := mem_obsPairs hmem
  obtain ⟨hca, hsok⟩ := ok.i3 hs o ho
  cases d with
  | inp i =>
    have hinfo : depInfo s o.dep = some (s.inp i).res := by rw [hd]; rfl
    have := (ok.i2 o ho _ hinfo (hca _ hinfo)).1
    simp only [semDep]
    rw [← hx]; exact this
  | qry q' =>
    obtain ⟨_, m', hm', _⟩ := ok.i5 o q' ho hd
    have hinfo : depInfo s o.dep = some m'.res := by rw [hd]; simp [depInfo, hm']
    have hval := (ok.i2 o ho _ hinfo (hca _ hinfo)).1
    rw [hd] at hsok
    obtain ⟨m2, hm2, hs2⟩ := hsok
    rw [hm'] at hm2; cases hm2
    have := fresh_of_sok hP hI q' m' hm' hs2
    simp only [semDep]
    rw [← this, ← hx]; exact hval

/-- its accumulated values are the from-scratch pushes -/
theorem acc_of_sok {P s} (hP : Wf P) (hI : Inv P s) {q m} (hm : s.memos q = some m) (hs : SOK s m) :
    m.acc = pushesOf P s.inp q := by
  have ok := hI.memo q m hm
  rw [← ok.repAcc]
  exact replayAcc_sem _ (P q) (obsPairs m.obs) m.value ok.rep (obs_sem_of_sok hP hI hm hs)

/-- and the queries it read are the from-scratch callees, in order -/
theorem calls_of_sok {P s} (hP : Wf P) (hI : Inv P s) {q m} (hm : s.memos q = some m) (hs : SOK s m) :
    (m.obs.map fun o => depCall o.dep).flatten = callsOf P s.inp q := by
  have ok := hI.memo q m hm
  have := calls_sem _ (P q) (obsPairs m.obs) m.value ok.rep (obs_sem_of_sok hP hI hm hs)
  simp only [obsPairs, List.map_map] at this
  exact this

structure FetchSpec (P : Nat → Body) (r : Nat) (fe : FetchFn) : Prop where
  ok : ∀ s q, q < r → Inv P s →
    Inv P (fe s q).1 ∧ Ext s (fe s q).1 r ∧ (fe s q).2.val = sem P s.inp q ∧
    ∃ m, (fe s q).1.memos q = some m ∧ m.va = s.cur ∧ m.res = (fe s q).2
  hot : ∀ s q m, q < r → s.memos q = some m → m.va = s.cur → fe s q = (s, m.res)

structure McaSpec (P : Nat → Body) (r : Nat) (mc : McaFn) : Prop where
  ok : ∀ s q rev, q < r → Inv P s → (∃ m, s.memos q = some m) →
    Inv P (mc s q rev).1 ∧ Ext s (mc s q rev).1 r ∧
    ∃ m, (mc s q rev).1.memos q = some m ∧ m.va = s.cur ∧ (mc s q rev).2.1 = decide (m.ca > rev) ∧
      (mc s q rev).2.2 = (m.hasAcc || m.accIn)

theorem readDep_ok {P r fe} (hfe : FetchSpec P r fe) {s : State} {d : Dep} (hI : Inv P s)
    (hr : ∀ q', d = .qry q' → q' < r) :
    Inv P (readDep fe s d).1 ∧ Ext s (readDep fe s d).1 r ∧
    (readDep fe s d).2.val = semDep P s.inp d ∧ hot (readDep fe s d).1 d ∧
    depInfo (readDep fe s d).1 d = some (readDep fe s d).2 ∧ (readDep fe s d).2.ca ≤ s.cur := by
  cases d with
  | inp i =>
    simp only [readDep]
    exact ⟨hI, Ext.refl s r, rfl, trivial, rfl, hI.inp_le i⟩
  | qry q =>
    simp only [readDep]
    obtain ⟨g1, g2, g3, m, g4, g5, g6⟩ := hfe.ok s q (hr q rfl) hI
    have mok := g1.memo q m g4
    refine ⟨g1, g2, g3, ⟨m, g4, by rw [g5, g2.cur]⟩, ?_, ?_⟩
    · simp only [depInfo, g4, Option.map, g6]
    · rw [← g6, ← g5]; exact mok.ca_va

theorem readDep_hot {P r fe} (hfe : FetchSpec P r fe) {s d x} (hh : hot s d)
    (hi : depInfo s d = some x) (hr : ∀ q', d = .qry q' → q' < r) :
    readDep fe s d = (s, x) := by
  cases d with
  | inp i => simp only [depInfo, Option.some.injEq] at hi; simp [readDep, hi]
  | qry q =>
    obtain ⟨m, hm, hv⟩ := hh
    simp only [depInfo, hm, Option.map, Option.some.injEq] at hi
    subst hi
    simp only [readDep]
    exact hfe.hot s q m (hr q rfl) hm hv

/-- what `run_ok` knows about one read `o` of the execution that ended in state `t` with frame `f` -/
structure ReadOk (r : Nat) (t : State) (f : Frame) (o : Obs) : Prop where
  hot : hot t o.dep
  info : ∃ x, depInfo t o.dep = some x ∧ x.val = o.val ∧ x.ca ≤ f.ca ∧ f.dur ≤ x.dur ∧
    (o.recd = false → 3 ≤ x.dur ∧ x.hasAcc = false ∧ x.accIn = false) ∧
    (f.accIn = false → x.hasAcc = false ∧ x.accIn = false)
  below : ∀ q', o.dep = .qry q' → q' < r

theorem run_ok {P r fe} (hfe : FetchSpec P r fe) : ∀ b, WfB r b → ∀ s f, Inv P s → f.ca ≤ s.cur →
    Inv P (runBody fe b s f).1 ∧ Ext s (runBody fe b s f).1 r ∧
    (runBody fe b s f).2.2 = evalB (semDep P s.inp) b ∧
    f.ca ≤ (runBody fe b s f).2.1.ca ∧ (runBody fe b s f).2.1.ca ≤ s.cur ∧
    (runBody fe b s f).2.1.dur ≤ f.dur ∧
    (f.accIn = true → (runBody fe b s f).2.1.accIn = true) ∧
    ∃ new, (runBody fe b s f).2.1.obs = f.obs ++ new ∧
      replay b (obsPairs new) = some (runBody fe b s f).2.2 ∧
      (runBody fe b s f).2.1.acc = f.acc ++ replayAcc b (obsPairs new) ∧
      ∀ o, o ∈ new → ReadOk r (runBody fe b s f).1 (runBody fe b s f).2.1 o := by
  intro b hb
  induction hb with
  | ret v =>
    intro s f hI hf
    simp only [runBody]
    exact ⟨hI, Ext.refl s r, rfl, Nat.le_refl _, hf, Nat.le_refl _, id, [], by simp,
      by simp [replay, obsPairs], by simp [replayAcc], by simp⟩
  | read d k hd _ ih =>
    intro s f hI hf
    simp only [runBody]
    obtain ⟨g1, g2, g3, g4, g5, g6⟩ := readDep_ok hfe (s := s) (d := d) hI hd
    generalize hrd : readDep fe s d = rd at g1 g2 g3 g4 g5 g6
    have hf' : (f.push d rd.2).ca ≤ rd.1.cur := by
      simp only [Frame.push]; rw [g2.cur]; exact Nat.max_le.mpr ⟨hf, g6⟩
    obtain ⟨h1, h2, h3, h4, h5, h5d, h5a, new, h6, h7, h7a, h8⟩ := ih rd.2.val rd.1 (f.push d rd.2) g1 hf'
    refine ⟨h1, Ext.trans g2 h2, ?_, ?_, by rw [← g2.cur]; exact h5, ?_, ?_,
      ⟨d, rd.2.val, decide (rd.2.dur ≠ 3) || (rd.2.hasAcc || rd.2.accIn)⟩ :: new, ?_, ?_, ?_, ?_⟩
    · rw [h3, g2.inp]; simp only [evalB, g3]
    · exact Nat.le_trans (by simp only [Frame.push]; exact Nat.le_max_left _ _) h4
    · exact Nat.le_trans h5d (by simp only [Frame.push]; exact Nat.min_le_left _ _)
    · intro ha; apply h5a; simp only [Frame.push, ha, Bool.true_or]
    · rw [h6]; simp [Frame.push]
    · simp only [obsPairs, List.map_cons, replay, if_true]
      exact h7
    · rw [h7a]; simp only [obsPairs, List.map_cons, replayAcc, Frame.push]
    · intro o hm
      simp only [List.mem_cons] at hm
      rcases hm with hm | hm
      · subst hm
        refine ⟨hot_ext h2 g4, ⟨rd.2, depInfo_hot_ext h2 g4 g5, rfl, ?_, ?_, ?_, ?_⟩, hd⟩
        · exact Nat.le_trans (by simp only [Frame.push]; exact Nat.le_max_right _ _) h4
        · exact Nat.le_trans h5d (by simp only [Frame.push]; exact Nat.min_le_right _ _)
        · intro hrec
          simp only [Bool.or_eq_false_iff, decide_eq_false_iff_not, Decidable.not_not] at hrec
          refine ⟨by rw [hrec.1]; exact Nat.le_refl 3, hrec.2.1, hrec.2.2⟩
        · intro hfin
          have : (f.push d rd.2).accIn = false := by
            cases hx : (f.push d rd.2).accIn with
            | false => rfl
            | true => rw [h5a hx] at hfin; cases hfin
          simp only [Frame.push, Bool.or_eq_false_iff] at this
          exact this.2
      · exact h8 o hm
  | push v k _ ih =>
    intro s f hI hf
    simp only [runBody]
    obtain ⟨h1, h2, h3, h4, h5, h5d, h5a, new, h6, h7, h7a, h8⟩ := ih s (f.accumulate v) hI hf
    refine ⟨h1, h2, by rw [h3]; rfl, h4, h5, h5d, h5a, new, h6, by simp only [replay]; exact h7, ?_, h8⟩
    rw [h7a]; simp [Frame.accumulate, replayAcc]

/-- Lemma B (semantic form): re-execution follows the recorded reads while their recorded values
    are the current semantic values, so it reads the first changed edge again. -/
theorem run_prefix {P r fe} (hfe : FetchSpec P r fe) : ∀ b, WfB r b → ∀ pre s f o post x,
    Inv P s → f.ca ≤ s.cur →
    (replay b (obsPairs (pre ++ o :: post))).isSome →
    (∀ o', o' ∈ pre → semDep P s.inp o'.dep = o'.val) →
    hot s o.dep → depInfo s o.dep = some x →
    x.ca ≤ (runBody fe b s f).2.1.ca := by
  intro b hb
  induction hb with
  | ret v =>
    intro pre s f o post x _ _ hrep
    cases pre <;> simp [replay, obsPairs] at hrep
  | push v k _ ih =>
    intro pre s f o post x hI hf hrep hpre hh hi
    simp only [replay] at hrep
    simp only [runBody]
    exact ih pre s (f.accumulate v) o post x hI hf hrep hpre hh hi
  | read d0 k hd hk ih =>
    intro pre
    cases pre with
    | nil =>
      intro s f o post x hI hf hrep _ hh hi
      simp only [List.nil_append, obsPairs, List.map_cons, replay] at hrep
      split at hrep
      · rename_i hdd
        subst hdd
        simp only [runBody]
        rw [readDep_hot hfe hh hi hd]
        have hc : x.ca ≤ s.cur := by
          have := (readDep_ok hfe (s := s) (d := o.dep) hI hd).2.2.2.2.2
          rw [readDep_hot hfe hh hi hd] at this
          exact this
        have hf' : (f.push o.dep x).ca ≤ s.cur := by
          simp only [Frame.push]; exact Nat.max_le.mpr ⟨hf, hc⟩
        have := (run_ok hfe (k x.val) (hk x.val) s (f.push o.dep x) hI hf').2.2.2.1
        exact Nat.le_trans (by simp only [Frame.push]; exact Nat.le_max_right _ _) this
      · simp at hrep
    | cons o1 pre =>
      intro s f o post x hI hf hrep hpre hh hi
      simp only [List.cons_append, obsPairs, List.map_cons, replay] at hrep
      split at hrep
      · rename_i hdd
        subst hdd
        simp only [runBody]
        obtain ⟨g1, g2, g3, _, _, g6⟩ := readDep_ok hfe (s := s) (d := o1.dep) hI hd
        generalize hrd : readDep fe s o1.dep = rd at g1 g2 g3 g6
        have hval : rd.2.val = o1.val := by rw [g3]; exact hpre o1 (by simp)
        rw [hval]
        have hf' : (f.push o1.dep rd.2).ca ≤ rd.1.cur := by
          simp only [Frame.push]; rw [g2.cur]; exact Nat.max_le.mpr ⟨hf, g6⟩
        exact ih o1.val pre rd.1 (f.push o1.dep rd.2) o post x g1 hf'
          (by simpa [obsPairs] using hrep)
          (fun o' hm => by rw [g2.inp]; exact hpre o' (by simp [hm]))
          (hot_ext g2 hh) (depInfo_hot_ext g2 hh hi)
      · simp at hrep

/-- what a successful walk knows about a recorded edge: verified now, unchanged since `rev`, and
    if the walk's flag is `Empty` the dependency has no accumulated values and an `Empty` flag -/
def EdgeOk (t : State) (rev : Nat) (flag : Bool) (o : Obs) : Prop :=
  hot t o.dep ∧ ∃ x, depInfo t o.dep = some x ∧ x.ca ≤ rev ∧
    (flag = false → x.hasAcc = false ∧ x.accIn = false)

theorem deep_ok {P r mc} (hmc : McaSpec P r mc) : ∀ obs s rev, Inv P s →
    (∀ o q', o ∈ obs → o.dep = .qry q' → q' < r ∧ ∃ m, s.memos q' = some m) →
    Inv P (deepEdges mc obs s rev).1 ∧ Ext s (deepEdges mc obs s rev).1 r ∧
    ((deepEdges mc obs s rev).2.1 = true → ∀ o, o ∈ obs → o.recd = true →
        EdgeOk (deepEdges mc obs s rev).1 rev (deepEdges mc obs s rev).2.2 o) ∧
    ((deepEdges mc obs s rev).2.1 = false → ∃ pre o post x, obs = pre ++ o :: post ∧ o.recd = true ∧
        (∀ o', o' ∈ pre → o'.recd = true → hot (deepEdges mc obs s rev).1 o'.dep ∧
            ∃ x', depInfo (deepEdges mc obs s rev).1 o'.dep = some x' ∧ x'.ca ≤ rev) ∧
        hot (deepEdges mc obs s rev).1 o.dep ∧ depInfo (deepEdges mc obs s rev).1 o.dep = some x ∧
        rev < x.ca) := by
  intro obs
  induction obs with
  | nil =>
    intro s rev hI _
    simp only [deepEdges]
    exact ⟨hI, Ext.refl s r, by simp, by simp⟩
  | cons o rest ih =>
    intro s rev hI hpre
    have hpre_rest : ∀ o' q', o' ∈ rest → o'.dep = .qry q' → q' < r ∧ ∃ m, s.memos q' = some m :=
      fun o' q' hm hd => hpre o' q' (by simp [hm]) hd
    simp only [deepEdges]
    by_cases hrec : o.recd = true
    · simp only [hrec, if_true]
      have first : Inv P (depChanged mc s o.dep rev).1 ∧ Ext s (depChanged mc s o.dep rev).1 r ∧
          hot (depChanged mc s o.dep rev).1 o.dep ∧
          ∃ x, depInfo (depChanged mc s o.dep rev).1 o.dep = some x ∧
            (depChanged mc s o.dep rev).2.1 = decide (x.ca > rev) ∧
            (depChanged mc s o.dep rev).2.2 = (x.hasAcc || x.accIn) := by
        cases hd : o.dep with
        | inp i =>
          simp only [depChanged]
          exact ⟨hI, Ext.refl s r, trivial, _, rfl, rfl, rfl⟩
        | qry q =>
          simp only [depChanged]
          obtain ⟨hq, hm⟩ := hpre o q (by simp) hd
          obtain ⟨a1, a2, m, a3, a4, a5, a6⟩ := hmc.ok s q rev hq hI hm
          exact ⟨a1, a2, ⟨m, a3, by rw [a4, a2.cur]⟩, m.res, by simp [depInfo, a3], a5, a6⟩
      obtain ⟨f1, f2, f3, x, f4, f5, f6⟩ := first
      by_cases hch : (depChanged mc s o.dep rev).2.1 = true
      · simp only [hch, if_true]
        refine ⟨f1, f2, by simp, ?_⟩
        intro _
        refine ⟨[], o, rest, x, by simp, hrec, by simp, f3, f4, ?_⟩
        rw [f5] at hch
        exact of_decide_eq_true hch
      · have hch' : (depChanged mc s o.dep rev).2.1 = false := by
          cases h : (depChanged mc s o.dep rev).2.1 <;> simp_all
        simp only [hch', Bool.false_eq_true, if_false]
        have hpre' : ∀ o' q', o' ∈ rest → o'.dep = .qry q' →
            q' < r ∧ ∃ m, (depChanged mc s o.dep rev).1.memos q' = some m := by
          intro o' q' hm hd
          obtain ⟨hq, m, hmm⟩ := hpre_rest o' q' hm hd
          obtain ⟨m', hm', _⟩ := f2.mono q' m hmm
          exact ⟨hq, m', hm'⟩
        obtain ⟨i1, i2, i3, i4⟩ := ih (depChanged mc s o.dep rev).1 rev f1 hpre'
        have hcle : x.ca ≤ rev := by
          rw [f5] at hch'
          exact Nat.le_of_not_gt (of_decide_eq_false hch')
        refine ⟨i1, Ext.trans f2 i2, ?_, ?_⟩
        · intro ht o' hm hr'
          simp only [List.mem_cons] at hm
          rcases hm with hm | hm
          · subst hm
            refine ⟨hot_ext i2 f3, x, depInfo_hot_ext i2 f3 f4, hcle, ?_⟩
            intro hfl
            simp only [Bool.or_eq_false_iff] at hfl
            rw [f6] at hfl
            simpa using hfl.1
          · obtain ⟨b1, x', b2, b3, b4⟩ := i3 ht o' hm hr'
            refine ⟨b1, x', b2, b3, ?_⟩
            intro hfl
            simp only [Bool.or_eq_false_iff] at hfl
            exact b4 hfl.2
        · intro hf
          obtain ⟨pre, o2, post, x2, j1, j1r, j2, j3, j4, j5⟩ := i4 hf
          refine ⟨o :: pre, o2, post, x2, by simp [j1], j1r, ?_, j3, j4, j5⟩
          intro o' hm hr'
          simp only [List.mem_cons] at hm
          rcases hm with hm | hm
          · subst hm
            exact ⟨hot_ext i2 f3, x, depInfo_hot_ext i2 f3 f4, hcle⟩
          · exact j2 o' hm hr'
    · have hrec' : o.recd = false := by cases h : o.recd <;> simp_all
      simp only [hrec', Bool.false_eq_true, if_false]
      obtain ⟨i1, i2, i3, i4⟩ := ih s rev hI hpre_rest
      refine ⟨i1, i2, ?_, ?_⟩
      · intro ht o' hm hr'
        simp only [List.mem_cons] at hm
        rcases hm with hm | hm
        · subst hm; rw [hrec'] at hr'; cases hr'
        · exact i3 ht o' hm hr'
      · intro hf
        obtain ⟨pre, o2, post, x2, j1, j1r, j2, j3, j4, j5⟩ := i4 hf
        refine ⟨o :: pre, o2, post, x2, by simp [j1], j1r, ?_, j3, j4, j5⟩
        intro o' hm hr'
        simp only [List.mem_cons] at hm
        rcases hm with hm | hm
        · subst hm; rw [hrec'] at hr'; cases hr'
        · exact j2 o' hm hr'

end SalsaVerif.Proofs.CoreAcc
