/-
  The graph invariant `GInv` (W1 ∧ W2 ∧ W5) and the thread life cycle for EVERY protocol step
  (including re-entrant claims of transferred keys and `transfer`) and for every graph-level step.
-/
import SalsaVerif.Proofs.SyncDGTransfer

namespace SalsaVerif.Proofs.SyncDG
open SalsaVerif.Model.SyncDG

/-- Only the sync table differs. -/
structure SyncOnly (s s' : State) : Prop where
  edges : s'.edges = s.edges
  qdeps : s'.qdeps = s.qdeps
  results : s'.results = s.results
  transferred : s'.transferred = s.transferred
  tdeps : s'.tdeps = s.tdeps
  bound : s'.bound = s.bound

theorem SyncOnly.refl (s : State) : SyncOnly s s := ⟨rfl, rfl, rfl, rfl, rfl, rfl⟩

theorem SyncOnly.ginv {s s' : State} {L : List Nat} (h : SyncOnly s s') (hi : GInv s L) : GInv s' L :=
  hi.congr h.edges h.qdeps h.results

theorem SyncOnly.life {s s' : State} {op : Op} (h : SyncOnly s s') : Lifecycle s s' op :=
  Lifecycle_same h.edges h.results

theorem block_running {s : State} {me other o : Nat} (h : block s me other = some (.running o)) :
    o = other ∧ me ≠ other ∧ dependsOn s other me = some false := by
  rcases block_eq h with h1 | ⟨h1, h2, h3⟩
  · cases h1
  · cases h1; exact ⟨rfl, h2, h3⟩

/-- What a (try/peek) claim returns: only the sync table changes, and a `Running(o)` answer comes
    with the facts `block` checked. -/
structure ClaimFrame (s s1 : State) (t : Nat) (a : ClaimAnswer) : Prop where
  only : SyncOnly s s1
  running : ∀ o, a = .running o → t ≠ o ∧ dependsOn s1 o t = some false

theorem blockWaiting_frame {s s1 : State} {t k other : Nat} {st : SyncState} {a : ClaimAnswer}
    (h : (match block (setWaiting s k st) t other with
          | none => none
          | some a => some (setWaiting s k st, a)) = some (s1, a)) : ClaimFrame s s1 t a := by
  cases hb : block (setWaiting s k st) t other with
  | none => simp [hb] at h
  | some a' =>
    simp only [hb, Option.some.injEq, Prod.mk.injEq] at h
    obtain ⟨rfl, rfl⟩ := h
    refine ⟨⟨rfl, rfl, rfl, rfl, rfl, rfl⟩, ?_⟩
    intro o ho
    subst ho
    obtain ⟨rfl, h2, h3⟩ := block_running hb
    exact ⟨h2, h3⟩

theorem tryClaim_frame {s s1 : State} {t k : Nat} {re : Bool} {a : ClaimAnswer}
    (hc : tryClaim s t k re = some (s1, a)) : ClaimFrame s s1 t a := by
  unfold tryClaim at hc
  cases hk : s.sync k with
  | none =>
    simp only [hk, Option.some.injEq, Prod.mk.injEq] at hc
    obtain ⟨rfl, rfl⟩ := hc
    exact ⟨⟨rfl, rfl, rfl, rfl, rfl, rfl⟩, by intro o ho; cases ho⟩
  | some st =>
    simp only [hk] at hc
    cases ho : st.owner with
    | thread id =>
      simp only [ho] at hc
      exact blockWaiting_frame hc
    | transferred =>
      simp only [ho] at hc
      unfold tryClaimTransferred at hc
      cases hbt : blockTransferred s k t with
      | none => simp [hbt] at hc
      | some r =>
        cases r with
        | imTheOwner =>
          simp only [hbt] at hc
          cases re with
          | false =>
            simp only [Bool.false_eq_true, if_false, Option.some.injEq, Prod.mk.injEq] at hc
            obtain ⟨rfl, rfl⟩ := hc
            exact ⟨SyncOnly.refl s, by intro o ho; cases ho⟩
          | true =>
            simp only [if_true] at hc
            cases hct : st.claimedTwice with
            | true => simp [hct] at hc
            | false =>
              simp only [hct, Bool.false_eq_true, if_false, Option.some.injEq, Prod.mk.injEq] at hc
              obtain ⟨rfl, rfl⟩ := hc
              exact ⟨⟨rfl, rfl, rfl, rfl, rfl, rfl⟩, by intro o ho; cases ho⟩
        | ownedBy other =>
          simp only [hbt] at hc
          exact blockWaiting_frame hc
        | released =>
          simp only [hbt, Option.some.injEq, Prod.mk.injEq] at hc
          obtain ⟨rfl, rfl⟩ := hc
          exact ⟨⟨rfl, rfl, rfl, rfl, rfl, rfl⟩, by intro o ho; cases ho⟩

theorem peekClaim_frame {s s1 : State} {t k : Nat} {re : Bool} {a : ClaimAnswer}
    (hc : peekClaim s t k re = some (s1, a)) : ClaimFrame s s1 t a := by
  unfold peekClaim at hc
  cases hk : s.sync k with
  | none =>
    simp only [hk, Option.some.injEq, Prod.mk.injEq] at hc
    obtain ⟨rfl, rfl⟩ := hc
    exact ⟨SyncOnly.refl s, by intro o ho; cases ho⟩
  | some st =>
    simp only [hk] at hc
    cases ho : st.owner with
    | thread id =>
      simp only [ho] at hc
      exact blockWaiting_frame hc
    | transferred =>
      simp only [ho] at hc
      unfold peekClaimTransferred at hc
      cases hbt : blockTransferred s k t with
      | none => simp [hbt] at hc
      | some r =>
        cases r with
        | imTheOwner =>
          simp only [hbt] at hc
          cases re with
          | false =>
            simp only [Bool.false_eq_true, if_false, Option.some.injEq, Prod.mk.injEq] at hc
            obtain ⟨rfl, rfl⟩ := hc
            exact ⟨SyncOnly.refl s, by intro o ho; cases ho⟩
          | true =>
            simp only [if_true, Option.some.injEq, Prod.mk.injEq] at hc
            obtain ⟨rfl, rfl⟩ := hc
            exact ⟨SyncOnly.refl s, by intro o ho; cases ho⟩
        | ownedBy other =>
          simp only [hbt] at hc
          exact blockWaiting_frame hc
        | released =>
          simp only [hbt, Option.some.injEq, Prod.mk.injEq] at hc
          obtain ⟨rfl, rfl⟩ := hc
          exact ⟨SyncOnly.refl s, by intro o ho; cases ho⟩

/-- Blocking the (idle) acting thread: invariant and life cycle. -/
theorem addEdge_life {s s' : State} {t k o : Nat} {op : Op} (hinv : GInv s []) (hi : idle s t = true)
    (hact : op.actor = t) (hnw : op ≠ .wake t) (ha : addEdge s t k o = some s') :
    GInv s' [] ∧ Lifecycle s s' op ∧ s'.sync = s.sync ∧ s'.bound = s.bound := by
  obtain ⟨hg, hsame⟩ := addEdge_inv hinv (idle_iff.mp hi).2 ha
  obtain ⟨_, _, _, rfl⟩ := addEdge_eq ha
  refine ⟨hg, ?_, rfl, rfl⟩
  intro x
  by_cases hxt : x = t
  · subst hxt
    refine Or.inr (Or.inl ⟨status_idle.mpr (idle_iff.mp hi), ?_, hact, hnw⟩)
    rw [status_blocked]; simp
  · refine Or.inl ⟨status_congr ?_ rfl, rfl⟩
    simp [upd_other _ _ _ _ hxt]

theorem finishClaim_full {s1 s' : State} {t k : Nat} {blk : Bool} {a : ClaimAnswer} {ans : Answer}
    {op : Op} (hinv : GInv s1 []) (hi : idle s1 t = true) (hact : op.actor = t) (hnw : op ≠ .wake t)
    (hf : finishClaim t k blk (s1, a) = some (s', ans)) :
    GInv s' [] ∧ Lifecycle s1 s' op := by
  cases a with
  | claimed =>
    simp only [finishClaim, Option.some.injEq, Prod.mk.injEq] at hf
    rw [← hf.1]; exact ⟨hinv, (SyncOnly.refl s1).life⟩
  | cycle i =>
    simp only [finishClaim, Option.some.injEq, Prod.mk.injEq] at hf
    rw [← hf.1]; exact ⟨hinv, (SyncOnly.refl s1).life⟩
  | running o =>
    cases blk with
    | false =>
      simp only [finishClaim, Bool.false_eq_true, if_false, Option.some.injEq, Prod.mk.injEq] at hf
      rw [← hf.1]; exact ⟨hinv, (SyncOnly.refl s1).life⟩
    | true =>
      simp only [finishClaim, if_true] at hf
      cases ha : addEdge s1 t k o with
      | none => simp [ha] at hf
      | some s2 =>
        simp only [ha, Option.some.injEq, Prod.mk.injEq] at hf
        rw [← hf.1]
        obtain ⟨h1, h2, _⟩ := addEdge_life hinv hi hact hnw ha
        exact ⟨h1, h2⟩

theorem Lifecycle_trans_sync {s s1 s' : State} {op : Op} (h1 : SyncOnly s s1) (h2 : Lifecycle s1 s' op) :
    Lifecycle s s' op :=
  Lifecycle_pre h1.edges h1.results h2

theorem Deliver.life {s s' : State} {op : Op} (h : Deliver s s') : Lifecycle s s' op := by
  intro x
  rcases h x with h1 | h1
  · exact Or.inl h1
  · exact Or.inr (Or.inr (Or.inl h1))

/-! ### release -/

theorem release_gstep {s s' : State} {k : Nat} {st : SyncState} {r : WaitResult} (hinv : GInv s [])
    (h : release s k st r = some s') : GStep s s' := by
  unfold release at h
  cases haw : st.anyoneWaiting with
  | false =>
    simp only [haw, Bool.not_false, if_true, Option.some.injEq] at h
    subst h; exact GStep.refl hinv
  | true =>
    simp only [haw, Bool.not_true, Bool.false_eq_true, if_false] at h
    have h1 : ∀ s1, (if st.claimedTwice = true then undoTransferLock s k else some s) = some s1 →
        GStep s s1 := by
      intro s1 hs1
      cases hct : st.claimedTwice with
      | false =>
        simp only [hct, Bool.false_eq_true, if_false, Option.some.injEq] at hs1
        subst hs1; exact GStep.refl hinv
      | true =>
        simp only [hct, if_true] at hs1
        exact (undoTransferLock_sameG hs1).gstep hinv
    cases hu : (if st.claimedTwice = true then undoTransferLock s k else some s) with
    | none => simp [hu] at h
    | some s1 =>
      simp only [hu] at h
      have g1 := h1 s1 hu
      cases h2 : unblockRuntimesBlockedOn s1 k r with
      | none => simp [h2] at h
      | some s2 =>
        simp only [h2] at h
        have g2 := g1.trans (unblockRuntimesBlockedOn_gstep g1.inv h2)
        cases htt : st.isTransferTarget with
        | false =>
          simp only [htt, Bool.false_eq_true, if_false, Option.some.injEq] at h
          subst h; exact g2
        | true =>
          simp only [htt, if_true] at h
          exact g2.trans (unblockTransferredOwnedBy_gstep g2.inv h)

theorem releaseEntry_full {s s' : State} {k : Nat} {r : WaitResult} (hinv : GInv s [])
    (h : releaseEntry s k r = some s') : GInv s' [] ∧ Deliver s s' := by
  unfold releaseEntry at h
  cases hk : s.sync k with
  | none => simp [hk] at h
  | some st =>
    simp only [hk] at h
    have hg0 : GInv { s with sync := upd s.sync k none } [] := GInv.congr (s := s) rfl rfl rfl hinv
    have g := release_gstep hg0 h
    exact ⟨g.inv, g.deliver⟩

/-- The `claimed_twice` branch of `release_self` (hand the key back to its transfer target and — unless
    the releasing thread owns that target — wake the threads that started waiting meanwhile): a graph
    step up to the sync table. -/
theorem releaseSelf_handback_gstep {s s' : State} {t k : Nat} {st : SyncState} (hinv : GInv s [])
    (hk : s.sync k = some st) (hct : st.claimedTwice = true) (h : releaseSelf s t k = some s') :
    GInv s' [] ∧ Deliver s s' ∧ s'.bound = s.bound ∧ s'.transferred = s.transferred ∧
      s'.tdeps = s.tdeps := by
  rcases releaseSelf_handback_cases hk hct h with ⟨_, rfl⟩ | ⟨_, _, h⟩
  · exact ⟨GInv.congr (s := s) rfl rfl rfl hinv, Deliver.of_eq rfl rfl, rfl, rfl, rfl⟩
  · have hg0 : GInv { s with sync := upd s.sync k (some (handedBack st false)) } [] :=
      GInv.congr (s := s) rfl rfl rfl hinv
    have g := unblockRuntimesBlockedOn_gstep hg0 h
    have e := (unblockRuntimesBlockedOn_inv hg0 h).2.same
    exact ⟨g.inv, g.deliver, g.bound, e.transferred, e.tdeps⟩

theorem releaseSelf_full {s s' : State} {t k : Nat} (hinv : GInv s [])
    (h : releaseSelf s t k = some s') : GInv s' [] ∧ Deliver s s' := by
  cases hk : s.sync k with
  | none => simp [releaseSelf, hk] at h
  | some st =>
    cases hct : st.claimedTwice with
    | true =>
      have g := releaseSelf_handback_gstep hinv hk hct h
      exact ⟨g.1, g.2.1⟩
    | false =>
      unfold releaseSelf at h
      simp only [hk, hct, Bool.false_eq_true, if_false] at h
      have hg0 : GInv { s with sync := upd s.sync k none } [] := GInv.congr (s := s) rfl rfl rfl hinv
      have g := release_gstep hg0 h
      exact ⟨g.inv, g.deliver⟩

/-! ### transfer -/

theorem transferLock_full {s s' : State} {q c n : Nat} {o : SyncOwner} {kind : TransferKind} {b : Bool}
    {op : Op} (hinv : GInv s []) (hi : idle s c = true) (hact : op.actor = c) (hnw : op ≠ .wake c)
    (h : transferLock s q c n o = some (s', kind, b)) : GInv s' [] ∧ Lifecycle s s' op := by
  unfold transferLock at h
  cases hc : transferLockCore s q c n o with
  | none => simp [hc] at h
  | some p =>
    obtain ⟨s1, kd, nt⟩ := p
    have g := transferLockCore_gstep hinv hc
    have hq := g.deliver.quiet (idle_iff.mp hi).1
    have hi1 : idle s1 c = true := idle_iff.mpr ⟨hq.1, by rw [hq.2]; exact (idle_iff.mp hi).2⟩
    cases kd with
    | noop =>
      simp only [hc, Option.some.injEq, Prod.mk.injEq] at h
      rw [← h.1]; exact ⟨g.inv, g.deliver.life⟩
    | same =>
      simp only [hc, Option.some.injEq, Prod.mk.injEq] at h
      rw [← h.1]; exact ⟨g.inv, g.deliver.life⟩
    | changed =>
      simp only [hc] at h
      by_cases hcn : c = nt
      · simp only [hcn, if_true, Option.some.injEq, Prod.mk.injEq] at h
        rw [← h.1]; exact ⟨g.inv, g.deliver.life⟩
      · simp only [hcn, if_false] at h
        cases hd : dependsOn s1 nt c with
        | none => simp [hd] at h
        | some bb =>
          cases bb with
          | true =>
            simp only [hd, Option.some.injEq, Prod.mk.injEq] at h
            rw [← h.1]; exact ⟨g.inv, g.deliver.life⟩
          | false =>
            simp only [hd] at h
            cases ha : addEdge s1 c n nt with
            | none => simp [ha] at h
            | some s2 =>
              simp only [ha, Option.some.injEq, Prod.mk.injEq] at h
              rw [← h.1]
              obtain ⟨h1, h2, _⟩ := addEdge_life (op := op) g.inv hi1 hact hnw ha
              refine ⟨h1, ?_⟩
              -- compose: deliveries first, then the actor blocks
              intro x
              rcases g.deliver x with ⟨d1, d2⟩ | ⟨d1, d2⟩
              · have := h2 x
                rw [d1, d2] at this
                exact this
              · rcases h2 x with ⟨e1, _⟩ | ⟨e1, _⟩ | ⟨e1, _⟩ | ⟨e1, _⟩
                · exact Or.inr (Or.inr (Or.inl ⟨d1, e1.trans d2⟩))
                · rw [d2] at e1; cases e1
                · rw [d2] at e1; cases e1
                · -- ready → idle needs `op = wake x`, excluded: the actor is `c` and `x` was blocked
                  rename_i hw
                  have hx : x = c := by rw [hw.2] at hact; exact hact
                  subst hx
                  rw [status_blocked, (idle_iff.mp hi).1] at d1
                  simp at d1

theorem markAsTransferTarget_only {s s1 : State} {n : Nat} {o : SyncOwner}
    (h : markAsTransferTarget s n = some (s1, o)) : SyncOnly s s1 := by
  unfold markAsTransferTarget at h
  cases hn : s.sync n with
  | none => simp [hn] at h
  | some st =>
    simp only [hn, Option.some.injEq, Prod.mk.injEq] at h
    rw [← h.1]; exact ⟨rfl, rfl, rfl, rfl, rfl, rfl⟩

theorem setTransferred_only {s s1 : State} {k : Nat} (h : setTransferred s k = some s1) :
    SyncOnly s s1 := by
  unfold setTransferred at h
  cases hn : s.sync k with
  | none => simp [hn] at h
  | some st =>
    simp only [hn, Option.some.injEq] at h
    rw [← h]; exact ⟨rfl, rfl, rfl, rfl, rfl, rfl⟩

theorem SyncOnly.trans {a b c : State} (h1 : SyncOnly a b) (h2 : SyncOnly b c) : SyncOnly a c :=
  ⟨h2.1.trans h1.1, h2.2.trans h1.2, h2.3.trans h1.3, h2.4.trans h1.4, h2.5.trans h1.5, h2.6.trans h1.6⟩

theorem transfer_full {s s' : State} {t k n : Nat} {a : TransferAnswer} {op : Op} (hinv : GInv s [])
    (hi : idle s t = true) (hact : op.actor = t) (hnw : op ≠ .wake t)
    (h : transfer s t k n = some (s', a)) : GInv s' [] ∧ Lifecycle s s' op := by
  unfold transfer at h
  cases hn : markAsTransferTarget s n with
  | none =>
    simp only [hn] at h
    cases hr : releaseEntry s k .panicked with
    | none => simp [hr] at h
    | some s1 =>
      simp only [hr, Option.some.injEq, Prod.mk.injEq] at h
      rw [← h.1]
      obtain ⟨h1, h2⟩ := releaseEntry_full hinv hr
      exact ⟨h1, h2.life⟩
  | some p =>
    obtain ⟨s1, o⟩ := p
    simp only [hn] at h
    cases hk : setTransferred s1 k with
    | none => simp [hk] at h
    | some s2 =>
      simp only [hk] at h
      have o2 : SyncOnly s s2 := (markAsTransferTarget_only hn).trans (setTransferred_only hk)
      cases ht : transferLock s2 k t n o with
      | none => simp [ht] at h
      | some p =>
        obtain ⟨s3, kind, b⟩ := p
        simp only [ht, Option.some.injEq, Prod.mk.injEq] at h
        rw [← h.1]
        have hi2 : idle s2 t = true := by
          unfold idle; rw [o2.edges, o2.results]; exact hi
        obtain ⟨h1, h2⟩ := transferLock_full (op := op) (o2.ginv hinv) hi2 hact hnw ht
        exact ⟨h1, Lifecycle_trans_sync o2 h2⟩

/-! ### every protocol step -/

theorem stepA_full {s s' : State} {op : Op} {ans : Answer} (hinv : GInv s [])
    (hs : stepA s op = some (s', ans)) : GInv s' [] ∧ Lifecycle s s' op := by
  cases op with
  | claim t k re blk =>
    simp only [stepA] at hs
    have h0 := GInv_touch k (GInv_touch t hinv)
    have hpre : Lifecycle (touch (touch s t) k) s' (.claim t k re blk) →
        Lifecycle s s' (.claim t k re blk) := Lifecycle_pre rfl rfl
    generalize touch (touch s t) k = s0 at hs h0 hpre
    cases hi : idle s0 t with
    | false => simp [hi] at hs
    | true =>
      simp only [hi, if_true] at hs
      cases hc : tryClaim s0 t k re with
      | none => simp [hc] at hs
      | some p =>
        obtain ⟨s1, a⟩ := p
        simp only [hc] at hs
        have fr := tryClaim_frame hc
        have hi1 : idle s1 t = true := by
          unfold idle; rw [fr.only.edges, fr.only.results]; exact hi
        obtain ⟨h1, h2⟩ := finishClaim_full (op := .claim t k re blk) (fr.only.ginv h0) hi1 rfl (by simp) hs
        exact ⟨h1, hpre (Lifecycle_trans_sync fr.only h2)⟩
  | peek t k re blk =>
    simp only [stepA] at hs
    have h0 := GInv_touch k (GInv_touch t hinv)
    have hpre : Lifecycle (touch (touch s t) k) s' (.peek t k re blk) →
        Lifecycle s s' (.peek t k re blk) := Lifecycle_pre rfl rfl
    generalize touch (touch s t) k = s0 at hs h0 hpre
    cases hi : idle s0 t with
    | false => simp [hi] at hs
    | true =>
      simp only [hi, if_true] at hs
      cases hc : peekClaim s0 t k re with
      | none => simp [hc] at hs
      | some p =>
        obtain ⟨s1, a⟩ := p
        simp only [hc] at hs
        have fr := peekClaim_frame hc
        have hi1 : idle s1 t = true := by
          unfold idle; rw [fr.only.edges, fr.only.results]; exact hi
        obtain ⟨h1, h2⟩ := finishClaim_full (op := .peek t k re blk) (fr.only.ginv h0) hi1 rfl (by simp) hs
        exact ⟨h1, hpre (Lifecycle_trans_sync fr.only h2)⟩
  | release t k r =>
    simp only [stepA] at hs
    have h0 := GInv_touch k (GInv_touch t hinv)
    have hpre : Lifecycle (touch (touch s t) k) s' (.release t k r) →
        Lifecycle s s' (.release t k r) := Lifecycle_pre rfl rfl
    generalize touch (touch s t) k = s0 at hs h0 hpre
    cases hc : (idle s0 t && ownedBy s0 k t) with
    | false => simp [hc] at hs
    | true =>
      simp only [hc, if_true, Option.map_eq_some_iff, Prod.mk.injEq] at hs
      obtain ⟨s2, hr, rfl, _⟩ := hs
      obtain ⟨h1, h2⟩ := releaseEntry_full h0 hr
      exact ⟨h1, hpre h2.life⟩
  | releaseSelf t k =>
    simp only [stepA] at hs
    have h0 := GInv_touch k (GInv_touch t hinv)
    have hpre : Lifecycle (touch (touch s t) k) s' (.releaseSelf t k) →
        Lifecycle s s' (.releaseSelf t k) := Lifecycle_pre rfl rfl
    generalize touch (touch s t) k = s0 at hs h0 hpre
    cases hc : (idle s0 t && ownedBy s0 k t) with
    | false => simp [hc] at hs
    | true =>
      simp only [hc, if_true, Option.map_eq_some_iff, Prod.mk.injEq] at hs
      obtain ⟨s2, hr, rfl, _⟩ := hs
      obtain ⟨h1, h2⟩ := releaseSelf_full h0 hr
      exact ⟨h1, hpre h2.life⟩
  | transfer t k n =>
    simp only [stepA] at hs
    have h0 := GInv_touch n (GInv_touch k (GInv_touch t hinv))
    have hpre : Lifecycle (touch (touch (touch s t) k) n) s' (.transfer t k n) →
        Lifecycle s s' (.transfer t k n) := Lifecycle_pre rfl rfl
    generalize touch (touch (touch s t) k) n = s0 at hs h0 hpre
    cases hc : (idle s0 t && ownedBy s0 k t) with
    | false => simp [hc] at hs
    | true =>
      simp only [hc, if_true, Option.map_eq_some_iff, Prod.mk.injEq] at hs
      obtain ⟨p, hr, rfl, _⟩ := hs
      obtain ⟨s2, a⟩ := p
      have hi : idle s0 t = true := by
        simp only [Bool.and_eq_true] at hc; exact hc.1
      obtain ⟨h1, h2⟩ := transfer_full (op := .transfer t k n) h0 hi rfl (by simp) hr
      exact ⟨h1, hpre h2⟩
  | wake t =>
    simp only [stepA] at hs
    have h0 := GInv_touch t hinv
    have hpre : Lifecycle (touch s t) s' (.wake t) → Lifecycle s s' (.wake t) := Lifecycle_pre rfl rfl
    generalize touch s t = s0 at hs h0 hpre
    cases hr : s0.results t with
    | none => simp [hr] at hs
    | some r =>
      simp only [hr, Option.some.injEq, Prod.mk.injEq] at hs
      obtain ⟨rfl, _⟩ := hs
      refine ⟨wake_inv h0, hpre ?_⟩
      intro x
      by_cases hxt : x = t
      · subst hxt
        have he : s0.edges x = none := h0.w5 x (by simp [hr])
        refine Or.inr (Or.inr (Or.inr ⟨?_, ?_, rfl⟩))
        · rw [status_ready]; simp [he, hr]
        · rw [status_idle]; simp [he]
      · refine Or.inl ⟨status_congr rfl ?_, ?_⟩ <;> simp [upd_other _ _ _ _ hxt]

theorem step_full {s s' : State} {op : Op} (hinv : GInv s []) (hs : step s op = some s') :
    GInv s' [] ∧ Lifecycle s s' op := by
  unfold step at hs
  cases ha : stepA s op with
  | none => simp [ha] at hs
  | some p =>
    obtain ⟨s1, ans⟩ := p
    simp only [ha, Option.map_some, Option.some.injEq] at hs
    subst hs
    exact stepA_full hinv ha

theorem run_full : ∀ (ops : List Op) (s s' : State), GInv s [] → run s ops = some s' → GInv s' [] := by
  intro ops
  induction ops with
  | nil =>
    intro s s' h hr
    simp only [run, Option.some.injEq] at hr
    subst hr; exact h
  | cons op ops ih =>
    intro s s' h hr
    unfold run at hr
    cases hs : step s op with
    | none => simp [hs] at hr
    | some s1 =>
      simp only [hs] at hr
      exact ih s1 s' (step_full h hs).1 hr

/-! ### every graph-level step (lock-hold granularity) -/

theorem gstep_full {s s' : State} {op : GOp} (hinv : GInv s []) (hs : gstep s op = some s') :
    GInv s' [] := by
  cases op with
  | addEdge f k t =>
    simp only [gstep] at hs
    have h0 := GInv_touch t (GInv_touch k (GInv_touch f hinv))
    generalize touch (touch (touch s f) k) t = s0 at hs h0
    cases hi : idle s0 f with
    | false => simp [hi] at hs
    | true =>
      simp only [hi, if_true] at hs
      exact (addEdge_inv h0 (idle_iff.mp hi).2 hs).1
  | wake t =>
    simp only [gstep] at hs
    have h0 := GInv_touch t hinv
    generalize touch s t = s0 at hs h0
    cases hr : s0.results t with
    | none => simp [hr] at hs
    | some r =>
      simp only [hr, Option.some.injEq] at hs
      subst hs
      exact wake_inv h0
  | unblockOn k r =>
    simp only [gstep] at hs
    exact (unblockRuntimesBlockedOn_gstep (GInv_touch k hinv) hs).inv
  | unblockTransferred k r =>
    simp only [gstep] at hs
    exact (unblockTransferredOwnedBy_gstep (GInv_touch k hinv) hs).inv
  | undoTransfer k =>
    simp only [gstep] at hs
    exact ((undoTransferLock_sameG hs).gstep (GInv_touch k hinv)).inv
  | transferLock q c n o =>
    simp only [gstep] at hs
    have h0 : GInv (touchOwner (touch (touch (touch s q) c) n) o) [] := by
      cases o with
      | thread t => exact GInv_touch t (GInv_touch n (GInv_touch c (GInv_touch q hinv)))
      | transferred => exact GInv_touch n (GInv_touch c (GInv_touch q hinv))
    generalize touchOwner (touch (touch (touch s q) c) n) o = s0 at hs h0
    simp only [Option.map_eq_some_iff] at hs
    obtain ⟨p, hp, rfl⟩ := hs
    obtain ⟨s1, kd, nt⟩ := p
    exact (transferLockCore_gstep h0 hp).inv

theorem grun_full : ∀ (ops : List GOp) (s s' : State), GInv s [] → grun s ops = some s' → GInv s' [] := by
  intro ops
  induction ops with
  | nil =>
    intro s s' h hr
    simp only [grun, Option.some.injEq] at hr
    subst hr; exact h
  | cons op ops ih =>
    intro s s' h hr
    unfold grun at hr
    cases hs : gstep s op with
    | none => simp [hs] at hr
    | some s1 =>
      simp only [hs] at hr
      exact ih s1 s' (gstep_full h hs) hr

end SalsaVerif.Proofs.SyncDG
