/-
  The fuel of the engine model is never exhausted for well-formed programs: `outOfFuel` is not
  an outcome of `eval` (core Lean only).
-/
import SalsaVerif.Model.Cycle
import SalsaVerif.Proofs.CycleLfp

namespace SalsaVerif.Proofs.Cycle
open SalsaVerif.Model.Cycle SalsaVerif.Gen.Stamp

/-- pigeonhole: a duplicate-free list of numbers below `n` has at most `n` elements. -/
theorem nodup_length_le : ∀ (n : Nat) (l : List Nat), l.Nodup → (∀ x ∈ l, x < n) → l.length ≤ n := by
  intro n
  induction n with
  | zero =>
    intro l _ h
    cases l with
    | nil => exact Nat.le_refl 0
    | cons a l => exact absurd (h a List.mem_cons_self) (Nat.not_lt_zero a)
  | succ n ih =>
    intro l hnd h
    by_cases hn : n ∈ l
    · have h1 : (l.erase n).Nodup := hnd.erase n
      have h2 : ∀ x ∈ l.erase n, x < n := by
        intro x hx
        have hx' := (List.Nodup.mem_erase_iff hnd).mp hx
        have := h x hx'.2
        omega
      have h3 := ih (l.erase n) h1 h2
      have h4 : (l.erase n).length = l.length - 1 := List.length_erase_of_mem hn
      have h5 : 0 < l.length := List.length_pos_of_mem hn
      omega
    · have h2 : ∀ x ∈ l, x < n := by
        intro x hx
        have := h x hx
        have : x ≠ n := by intro e; subst e; exact hn hx
        omega
      have := ih l hnd h2
      omega

section
variable (P : Prog) (env : Nat → Nat)

/-- the result is not the model's artificial `outOfFuel` panic. -/
def NoOOF {α : Type} (r : Res α) : Prop := ∀ e, r = .error e → e.cls ≠ .outOfFuel

/-- what the fuel argument needs of a fetch function, for states with stack `st`. -/
def ReadFuel (st : List Nat) (read : Nat → St → Res Fetched) : Prop :=
  ∀ c s, c < P.n → s.stack = st → NoOOF (read c s) ∧
    ∀ v hs s', read c s = .ok (v, hs, s') → s'.stack = st

theorem wf_allCallees (hW : P.Wf) {j : Nat} (hj : j < P.n) :
    ∀ c ∈ allCallees (P.node j).body, c < P.n := by
  intro c hc
  have hmem : P.node j ∈ P.nodes := by
    unfold Prog.node Prog.n at *
    rw [List.getD_eq_getElem?_getD, List.getElem?_eq_getElem hj]
    exact List.getElem_mem hj
  exact hW _ hmem c hc

theorem wf_callees (hW : P.Wf) (ρ : Nat → Nat) {j : Nat} (hj : j < P.n) :
    ∀ c ∈ callees env ρ (P.node j).body, c < P.n :=
  fun c hc => wf_allCallees P hW hj c (callees_sub_all env ρ _ c hc)

theorem evalM_fuel {st : List Nat} {read : Nat → St → Res Fetched} (hR : ReadFuel P st read) :
    ∀ (e : Expr) (s : St), (∀ c ∈ allCallees e, c < P.n) → s.stack = st →
      NoOOF (evalM env read e s) ∧
      ∀ v hs s', evalM env read e s = .ok (v, hs, s') → s'.stack = st := by
  intro e
  induction e with
  | const c =>
    intro s _ hs
    refine ⟨fun e h => by simp [evalM] at h, ?_⟩
    intro v hs' s' h
    simp only [evalM] at h
    injection h with h; injection h with _ h; injection h with _ h3
    subst h3; exact hs
  | input i =>
    intro s _ hs
    refine ⟨fun e h => by simp [evalM] at h, ?_⟩
    intro v hs' s' h
    simp only [evalM] at h
    injection h with h; injection h with _ h; injection h with _ h3
    subst h3; exact hs
  | call j =>
    intro s hc hs
    obtain ⟨h1, h2⟩ := hR j s (hc j (by simp [allCallees])) hs
    constructor
    · intro e h
      simp only [evalM] at h
      cases hr : read j s with
      | error e' => rw [hr] at h; injection h with h; subst h; exact h1 _ hr
      | ok r => obtain ⟨w, a, b⟩ := r; rw [hr] at h; cases h
    · intro v hs' s' h
      simp only [evalM] at h
      cases hr : read j s with
      | error e' => rw [hr] at h; cases h
      | ok r =>
        obtain ⟨w, a, b⟩ := r
        rw [hr] at h
        injection h with h; injection h with _ h; injection h with _ h3
        subst h3; exact h2 w a b hr
  | union a b iha ihb =>
    intro s hc hs
    obtain ⟨a1, a2⟩ := iha s (fun c h => hc c (by simp [allCallees, h])) hs
    constructor
    · intro e h
      simp only [evalM] at h
      cases ha : evalM env read a s with
      | error e' => rw [ha] at h; injection h with h; subst h; exact a1 _ ha
      | ok r =>
        obtain ⟨x, h1, s1⟩ := r
        rw [ha] at h
        simp only at h
        obtain ⟨b1, _⟩ := ihb s1 (fun c h => hc c (by simp [allCallees, h])) (a2 x h1 s1 ha)
        cases hb : evalM env read b s1 with
        | error e' => rw [hb] at h; injection h with h; subst h; exact b1 _ hb
        | ok r2 => obtain ⟨y, h2, s2⟩ := r2; rw [hb] at h; cases h
    · intro v hs' s' h
      simp only [evalM] at h
      cases ha : evalM env read a s with
      | error e' => rw [ha] at h; cases h
      | ok r =>
        obtain ⟨x, h1, s1⟩ := r
        rw [ha] at h
        simp only at h
        obtain ⟨_, b2⟩ := ihb s1 (fun c h => hc c (by simp [allCallees, h])) (a2 x h1 s1 ha)
        cases hb : evalM env read b s1 with
        | error e' => rw [hb] at h; cases h
        | ok r2 =>
          obtain ⟨y, h2, s2⟩ := r2
          rw [hb] at h
          injection h with h; injection h with _ h; injection h with _ h3
          subst h3; exact b2 y h2 s2 hb
  | inter a b iha ihb =>
    intro s hc hs
    obtain ⟨a1, a2⟩ := iha s (fun c h => hc c (by simp [allCallees, h])) hs
    constructor
    · intro e h
      simp only [evalM] at h
      cases ha : evalM env read a s with
      | error e' => rw [ha] at h; injection h with h; subst h; exact a1 _ ha
      | ok r =>
        obtain ⟨x, h1, s1⟩ := r
        rw [ha] at h
        simp only at h
        obtain ⟨b1, _⟩ := ihb s1 (fun c h => hc c (by simp [allCallees, h])) (a2 x h1 s1 ha)
        cases hb : evalM env read b s1 with
        | error e' => rw [hb] at h; injection h with h; subst h; exact b1 _ hb
        | ok r2 => obtain ⟨y, h2, s2⟩ := r2; rw [hb] at h; cases h
    · intro v hs' s' h
      simp only [evalM] at h
      cases ha : evalM env read a s with
      | error e' => rw [ha] at h; cases h
      | ok r =>
        obtain ⟨x, h1, s1⟩ := r
        rw [ha] at h
        simp only at h
        obtain ⟨_, b2⟩ := ihb s1 (fun c h => hc c (by simp [allCallees, h])) (a2 x h1 s1 ha)
        cases hb : evalM env read b s1 with
        | error e' => rw [hb] at h; cases h
        | ok r2 =>
          obtain ⟨y, h2, s2⟩ := r2
          rw [hb] at h
          injection h with h; injection h with _ h; injection h with _ h3
          subst h3; exact b2 y h2 s2 hb
  | ite i a b iha ihb =>
    intro s hc hs
    simp only [evalM]
    split
    · exact iha s (fun c h => hc c (by simp [allCallees, h])) hs
    · exact ihb s (fun c h => hc c (by simp [allCallees, h])) hs
  | gate g a ihg iha =>
    intro s hc hs
    obtain ⟨g1, g2⟩ := ihg s (fun c h => hc c (by simp [allCallees, h])) hs
    constructor
    · intro e h
      simp only [evalM] at h
      cases hg : evalM env read g s with
      | error e' => rw [hg] at h; injection h with h; subst h; exact g1 _ hg
      | ok r =>
        obtain ⟨x, h1, s1⟩ := r
        rw [hg] at h
        simp only at h
        obtain ⟨a1, _⟩ := iha s1 (fun c h => hc c (by simp [allCallees, h])) (g2 x h1 s1 hg)
        split at h
        · cases ha : evalM env read a s1 with
          | error e' => rw [ha] at h; injection h with h; subst h; exact a1 _ ha
          | ok r2 => obtain ⟨y, h2, s2⟩ := r2; rw [ha] at h; cases h
        · cases h
    · intro v hs' s' h
      simp only [evalM] at h
      cases hg : evalM env read g s with
      | error e' => rw [hg] at h; cases h
      | ok r =>
        obtain ⟨x, h1, s1⟩ := r
        rw [hg] at h
        simp only at h
        obtain ⟨_, a2⟩ := iha s1 (fun c h => hc c (by simp [allCallees, h])) (g2 x h1 s1 hg)
        split at h
        · cases ha : evalM env read a s1 with
          | error e' => rw [ha] at h; cases h
          | ok r2 =>
            obtain ⟨y, h2, s2⟩ := r2
            rw [ha] at h
            injection h with h; injection h with _ h; injection h with _ h3
            subst h3; exact a2 y h2 s2 ha
        · injection h with h; injection h with _ h; injection h with _ h3
          subst h3; exact g2 x h1 s1 hg

theorem iter_le_of_lt (stamp : Nat) : IterationStamp.iteration stamp < 256 := by
  simp only [IterationStamp.iteration, Nat.shiftRight_zero]
  exact Nat.mod_lt _ (by decide)

/-- a successful increment advances the iteration byte by one and stays `≤ 200`. -/
theorem incr_iter (stamp stamp' : Nat) (hs : stamp < 2^16)
    (hit : IterationStamp.iteration stamp ≤ 200)
    (h : IterationStamp.increment_iteration stamp = some stamp') :
    IterationStamp.iteration stamp' = IterationStamp.iteration stamp + 1 ∧
    IterationStamp.iteration stamp' ≤ 200 ∧ stamp' < 2^16 := by
  simp only [IterationStamp.iteration, Nat.shiftRight_zero] at hit ⊢
  have hs1 : (stamp + 1) % 2^16 = stamp + 1 := by
    apply Nat.mod_eq_of_lt
    omega
  simp only [IterationStamp.increment_iteration, hs1, IterationStamp.iteration, MAX_ITERATIONS,
    Nat.shiftRight_zero] at h
  split at h
  · rename_i hle
    have hle := of_decide_eq_true hle
    injection h with h
    subst h
    omega
  · cases h

/-- the head loop: no `outOfFuel`, and the stack is popped. -/
theorem loop_fuel {rest : List Nat} (j : Nat) (hj : j < P.n) (hW : P.Wf)
    {read : Nat → St → Res Fetched} (hR : ReadFuel P (j :: rest) read) :
    ∀ (fuel stamp : Nat) (s : St), stamp < 2^16 →
      IterationStamp.iteration stamp ≤ 200 →
      fuel + IterationStamp.iteration stamp = 201 → s.stack = j :: rest →
      NoOOF (executeMaybeIterate P env read j fuel stamp s) ∧
      ∀ v hs s', executeMaybeIterate P env read j fuel stamp s = .ok (v, hs, s') →
        s'.stack = rest := by
  intro fuel
  induction fuel with
  | zero => intro stamp s _ h1 h2; omega
  | succ fuel ih =>
    intro stamp s hst hit hsum hs
    obtain ⟨e1, e2⟩ := evalM_fuel P env hR (P.node j).body s (wf_allCallees P hW hj) hs
    have hrec : ∀ stamp', IterationStamp.increment_iteration stamp = some stamp' →
        stamp' < 2^16 ∧ IterationStamp.iteration stamp' ≤ 200 ∧
        fuel + IterationStamp.iteration stamp' = 201 := by
      intro stamp' hinc
      have := incr_iter stamp stamp' hst hit hinc
      omega
    constructor
    · intro err h
      rw [executeMaybeIterate] at h
      cases hev : evalM env read (P.node j).body s with
      | error e' => rw [hev] at h; injection h with h; subst h; exact e1 _ hev
      | ok r =>
        obtain ⟨v1, hs1, s1⟩ := r
        rw [hev] at h
        simp only at h
        have hs1' : s1.stack = j :: rest := e2 v1 hs1 s1 hev
        cases hl : s1.prov.lookup j with
        | none =>
          rw [hl] at h
          simp only at h
          split at h <;> cases h
        | some last =>
          rw [hl] at h
          simp only at h
          split at h
          · cases h
          · split at h
            · cases h
            · cases hinc : IterationStamp.increment_iteration stamp with
              | none =>
                rw [hinc] at h
                injection h with h; subst h
                intro hc; cases hc
              | some stamp' =>
                rw [hinc] at h
                obtain ⟨a, b, c⟩ := hrec stamp' hinc
                simp only at h
                refine (ih stamp' _ a b c ?_).1 err h
                exact hs1'
    · intro v hs' s' h
      rw [executeMaybeIterate] at h
      cases hev : evalM env read (P.node j).body s with
      | error e' => rw [hev] at h; cases h
      | ok r =>
        obtain ⟨v1, hs1, s1⟩ := r
        rw [hev] at h
        simp only at h
        have hs1' : s1.stack = j :: rest := e2 v1 hs1 s1 hev
        have htail : s1.stack.tail = rest := by rw [hs1']; rfl
        cases hl : s1.prov.lookup j with
        | none =>
          rw [hl] at h
          simp only at h
          split at h
          · injection h with h; injection h with _ h; injection h with _ h3
            subst h3; exact htail
          · injection h with h; injection h with _ h; injection h with _ h3
            subst h3; exact htail
        | some last =>
          rw [hl] at h
          simp only at h
          split at h
          · injection h with h; injection h with _ h; injection h with _ h3
            subst h3; exact htail
          · split at h
            · injection h with h; injection h with _ h; injection h with _ h3
              subst h3; exact htail
            · cases hinc : IterationStamp.increment_iteration stamp with
              | none => rw [hinc] at h; cases h
              | some stamp' =>
                rw [hinc] at h
                obtain ⟨a, b, c⟩ := hrec stamp' hinc
                simp only at h
                refine (ih stamp' _ a b c ?_).2 v hs' s' h
                exact hs1'

/-- `execute` with enough depth fuel: no `outOfFuel`, stack restored. -/
theorem execute_fuel (hW : P.Wf) : ∀ (d j : Nat) (s : St), j < P.n → j ∉ s.stack →
    s.stack.Nodup → (∀ x ∈ s.stack, x < P.n) → P.n + 1 ≤ s.stack.length + d →
    NoOOF (execute P env d j s) ∧
    ∀ v hs s', execute P env d j s = .ok (v, hs, s') → s'.stack = s.stack := by
  intro d
  induction d with
  | zero =>
    intro j s hj hjs hnd hlt hlen
    have := nodup_length_le P.n s.stack hnd hlt
    omega
  | succ d ih =>
    intro j s hj hjs hnd hlt hlen
    have hR : ReadFuel P (j :: s.stack) (fetch P (execute P env d)) := by
      intro c s' hc hs'
      have hnd' : s'.stack.Nodup := by rw [hs']; exact List.nodup_cons.mpr ⟨hjs, hnd⟩
      have hlt' : ∀ x ∈ s'.stack, x < P.n := by
        intro x hx; rw [hs'] at hx
        cases hx with
        | head => exact hj
        | tail _ hx => exact hlt x hx
      have hlen' : P.n + 1 ≤ s'.stack.length + d := by rw [hs']; simp only [List.length_cons]; omega
      constructor
      · intro e h
        unfold fetch at h
        split at h
        · injection h with h; subst h; intro hc; cases hc
        · cases hf : s'.final.lookup c with
          | some w => rw [hf] at h; cases h
          | none =>
            rw [hf] at h
            simp only at h
            split at h
            · unfold fetchColdCycle at h
              cases hstr : (P.node c).strat with
              | panic => rw [hstr] at h; injection h with h; subst h; intro hc; cases hc
              | fixpoint b =>
                rw [hstr] at h; simp only at h
                cases hl : s'.prov.lookup c <;> rw [hl] at h <;> cases h
              | fallback fv =>
                rw [hstr] at h; simp only at h
                cases hl : s'.prov.lookup c <;> rw [hl] at h <;> cases h
            · rename_i hcs
              cases hcache : s'.cache.lookup c with
              | some en => rw [hcache] at h; cases h
              | none =>
                rw [hcache] at h
                exact (ih c s' hc (by simpa using hcs) hnd' hlt' hlen').1 e h
      · intro v hs1 s1 h
        unfold fetch at h
        split at h
        · cases h
        · cases hf : s'.final.lookup c with
          | some w =>
            rw [hf] at h
            injection h with h; injection h with _ h; injection h with _ h3
            subst h3; exact hs'
          | none =>
            rw [hf] at h
            simp only at h
            split at h
            · unfold fetchColdCycle at h
              cases hstr : (P.node c).strat with
              | panic => rw [hstr] at h; cases h
              | fixpoint b =>
                rw [hstr] at h; simp only at h
                cases hl : s'.prov.lookup c with
                | none =>
                  rw [hl] at h
                  injection h with h; injection h with _ h; injection h with _ h3
                  subst h3; exact hs'
                | some w =>
                  rw [hl] at h
                  injection h with h; injection h with _ h; injection h with _ h3
                  subst h3; exact hs'
              | fallback fv =>
                rw [hstr] at h; simp only at h
                cases hl : s'.prov.lookup c with
                | none =>
                  rw [hl] at h
                  injection h with h; injection h with _ h; injection h with _ h3
                  subst h3; exact hs'
                | some w =>
                  rw [hl] at h
                  injection h with h; injection h with _ h; injection h with _ h3
                  subst h3; exact hs'
            · rename_i hcs
              cases hcache : s'.cache.lookup c with
              | some en =>
                rw [hcache] at h
                injection h with h; injection h with _ h; injection h with _ h3
                subst h3; exact hs'
              | none =>
                rw [hcache] at h
                rw [(ih c s' hc (by simpa using hcs) hnd' hlt' hlen').2 v hs1 s1 h]; exact hs'
    unfold execute
    exact loop_fuel P env j hj hW hR loopFuel (IterationStamp.initial 0) _ (by decide) (by decide)
      (by decide) rfl

/-- **the model's fuel suffices**: a request for an existing node of a well-formed program never
    ends in the artificial `outOfFuel` panic. -/
theorem eval_fuel (hW : P.Wf) (final : List (Nat × Nat)) (poisoned : List Nat) (j : Nat)
    (hj : j < P.n) : NoOOF (eval P env final poisoned j) := by
  intro e h
  unfold eval at h
  cases hf : fetch P (execute P env (P.n + 1)) j (St.init final poisoned) with
  | ok r => obtain ⟨v, hs, s⟩ := r; rw [hf] at h; cases h
  | error e' =>
    rw [hf] at h
    injection h with h; subst h
    unfold fetch at hf
    split at hf
    · injection hf with hf; subst hf; intro hc; cases hc
    · cases hfin : (St.init final poisoned).final.lookup j with
      | some w => rw [hfin] at hf; cases hf
      | none =>
        rw [hfin] at hf
        simp only at hf
        have hst : (St.init final poisoned).stack.contains j = false := by simp [St.init]
        rw [hst] at hf
        simp only [Bool.false_eq_true, if_false] at hf
        have hca : (St.init final poisoned).cache.lookup j = none := rfl
        rw [hca] at hf
        exact (execute_fuel P env hW (P.n + 1) j (St.init final poisoned) hj (by simp [St.init])
          (by simp [St.init]) (by simp [St.init]) (by simp [St.init])).1 e' hf

end

end SalsaVerif.Proofs.Cycle
