/-
  CoreSpec, histories with writes: `execute` of a node, part 2 — read locks and events preserve the
  invariant (own copies, through `inv_upd`; Proofs/CoreSpecRevFSpec1.lean proves the same directly).
  Core Lean only.
-/
import SalsaVerif.Proofs.CoreSpecRevUpd

namespace SalsaVerif.Proofs.CoreSpec
namespace X
open SalsaVerif.Model.CoreSpec

/-- `t` is `s` up to the read lock of the struct of `c` (and the trace) -/
structure LockU (c : Nat) (s t : State) : Prop where
  upd : Upd c s t
  memos : t.memos c = s.memos c
  smemos : t.smemos c = s.smemos c
  panic : t.panic = s.panic
  gone : s.slots c = none → t.slots c = none
  same : ∀ sl, s.slots c = some sl →
    ∃ sl', t.slots c = some sl' ∧ SlotEq sl sl' ∧ (sl'.upd = sl.upd ∨ sl'.upd = s.cur)

namespace LockU
variable {c : Nat} {s t : State}

theorem back (h : LockU c s t) {sl'} (ht : t.slots c = some sl') :
    ∃ sl, s.slots c = some sl ∧ SlotEq sl sl' ∧ (sl'.upd = sl.upd ∨ sl'.upd = s.cur) := by
  cases hs : s.slots c with
  | none => rw [h.gone hs] at ht; cases ht
  | some sl =>
    obtain ⟨sl2, a, b, u⟩ := h.same sl hs
    rw [a] at ht; cases ht
    exact ⟨sl, rfl, b, u⟩

theorem back_none (h : LockU c s t) (ht : t.slots c = none) : s.slots c = none := by
  cases hs : s.slots c with
  | none => rfl
  | some sl =>
    obtain ⟨sl2, a, _⟩ := h.same sl hs
    rw [a] at ht; cases ht

theorem depInfo_eq (h : LockU c s t) (d : Dep) : depInfo t d = depInfo s d := by
  by_cases hd : atR c d
  · rcases hd with e | e | e
    · subst e; simp only [depInfo, h.memos]
    · subst e
      cases hs : s.slots c with
      | none => simp only [depInfo, hs, h.gone hs]
      | some sl =>
        obtain ⟨sl', a, ⟨_, _, e3, e4, e5⟩, _⟩ := h.same sl hs
        simp only [depInfo, a, hs, Option.map_some, e3, e4, e5]
    · subst e; simp only [depInfo, h.smemos]
  · exact h.upd.depInfo_off hd

theorem memoSokIff (h : LockU c s t) (q : Nat) : memoSok t q ↔ memoSok s q := by
  by_cases hq : q = c
  · subst hq; simp only [memoSok, h.memos, h.upd.sokIff]
  · exact h.upd.memoSokIff hq

theorem sokDep_fwd (h : LockU c s t) {d : Dep} (a : sokDep s d) : sokDep t d := by
  by_cases hd : atR c d
  · rcases hd with e | e | e
    · subst e; exact (h.memoSokIff c).mpr a
    · subst e
      refine ⟨(h.memoSokIff c).mpr a.1, ?_⟩
      intro hn
      exact a.2 (h.back_none hn)
    · subst e
      obtain ⟨a1, sm, a2, a3⟩ := a
      exact ⟨(h.memoSokIff c).mpr a1, sm, by rw [h.smemos]; exact a2, (h.upd.sokIff sm).mpr a3⟩
  · exact (h.upd.sokDep_off hd).mpr a

theorem busy_fwd (h : LockU c s t) {q} (hb : Busy s q) : Busy t q := by
  by_cases hq : q = c
  · subst hq
    obtain ⟨sl, hsl, hu, hn⟩ := hb
    obtain ⟨sl', a, _, u⟩ := h.same sl hsl
    refine ⟨sl', a, ?_, fun hm => hn ((h.memoSokIff q).mp hm)⟩
    rw [h.upd.cur]
    rcases u with u | u
    · rw [u]; exact hu
    · exact u
  · exact (h.upd.busyIff hq).mpr hb

theorem busy_back (h : LockU c s t) {q} (hb : Busy t q) : Busy s q ∨ q = c := by
  by_cases hq : q = c
  · exact Or.inr hq
  · exact Or.inl ((h.upd.busyIff hq).mp hb)

theorem obsAt (h : LockU c s t) {va L o} (a : ObsAt s va L o) : ObsAt t va L o := by
  by_cases hd : atR c o.dep
  · refine ⟨?_, ?_, ?_⟩
    · intro x hx
      rw [h.depInfo_eq] at hx
      exact (a.iv x hx).imp id (h.upd.witIff _ _ _).mpr
    · intro c' mc hdc hs hm
      have hc : c' = c := by
        rcases hd with e | e | e <;> rcases hdc with e' | e' <;> rw [e] at e' <;> cases e' <;> rfl
      subst hc
      rw [h.memos] at hm
      exact (h.upd.witIff _ _ _).mpr (a.dead c' mc hdc (h.back_none hs) hm)
    · intro c' sl' hdc hs hm
      have hc : c' = c := by
        rcases hd with e | e | e <;> rw [e] at hdc <;> cases hdc <;> rfl
      subst hc
      rw [h.smemos] at hm
      obtain ⟨sl, hsl, ⟨_, _, _, e4, _⟩, _⟩ := h.back hs
      rw [e4]
      exact (h.upd.witIff _ _ _).mpr (a.deadsm c' sl hdc hsl hm)
  · exact h.upd.obsAt_off hd a

theorem structAt (h : LockU c s t) {va L o} (a : StructAt s va L o) : StructAt t va L o := by
  have hmem : ∀ q, t.memos q = s.memos q := by
    intro q
    by_cases hq : q = c
    · subst hq; exact h.memos
    · exact h.upd.memos q hq
  refine ⟨?_, ?_⟩
  · intro c' mc hd hm
    rw [hmem] at hm
    exact (a.odur c' mc hd hm).imp id (h.upd.witIff _ _ _).mpr
  · intro c' mc hd hm
    rw [hmem] at hm
    exact (a.hexp c' mc hd hm).imp id (h.upd.witIff _ _ _).mpr

theorem updR (h : LockU c s t) : UpdR c s t :=
  ⟨fun m0 hm => ⟨m0, by rw [h.memos]; exact hm, Nat.le_refl _⟩,
   fun sm hsm => Or.inl (by rw [h.smemos] at hsm; exact hsm),
   fun mc hmc => Or.inl (by rw [h.memos] at hmc; exact hmc)⟩

theorem obsTr (h : LockU c s t) (m : Memo) : ObsTr c s t m :=
  ⟨fun _ _ _ _ _ _ a _ => h.obsAt a, fun _ _ _ _ _ _ _ a => h.structAt a,
   fun o _ _ _ _ a x hx => a x (by rw [h.depInfo_eq] at hx; exact hx)⟩

end LockU

theorem inv_lockU {P idOf c s t} (hI : Inv P idOf s) (h : LockU c s t) : Inv P idOf t := by
  have hS : memoSok s c → ∀ d, atR c d →
      (∀ x, depInfo s d = some x → ∃ x', depInfo t d = some x' ∧ x'.ca ≤ x.ca) ∧ (sokDep s d → sokDep t d) :=
    fun _ d _ => ⟨fun x hx => ⟨x, by rw [h.depInfo_eq d]; exact hx, Nat.le_refl _⟩, h.sokDep_fwd⟩
  refine inv_upd hI h.upd h.updR (h.panic.trans hI.pn) hS (fun q m _ _ => h.obsTr m) ?_ ?_ ?_ ?_ ?_ ?_
  · intro m hm
    rw [h.memos] at hm
    have ok := hI.node c m hm
    refine nodeOk_upd h.upd h.updR hI ok hS (h.obsTr m) ?_
    intro hnb
    refine ⟨fun hb => hnb (h.busy_fwd hb), h.gone, ?_, h.smemos⟩
    intro sl hsl
    obtain ⟨sl', a, b, _⟩ := h.same sl hsl
    exact ⟨sl', a, b⟩
  · intro hm hnb
    rw [h.memos] at hm
    obtain ⟨a, b⟩ := hI.nonode c hm (fun hb => hnb (h.busy_fwd hb))
    exact ⟨h.gone a, by rw [h.smemos]; exact b⟩
  · intro sm hsm
    rw [h.smemos] at hsm
    have ok := hI.smemo c sm hsm
    refine ⟨?_, ?_, ok.noh, ok.hgen, ok.dshape⟩
    · intro ho
      obtain ⟨h1, h2⟩ := ok.derived ho
      exact ⟨obsOk_upd h.upd h.updR hI h1
        (fun _ o _ _ _ x hx => ⟨x, by rw [h.depInfo_eq o.dep]; exact hx, Nat.le_refl _⟩)
        (fun _ _ _ _ _ _ a => h.obsAt a), h2⟩
    · intro k hk
      obtain ⟨h1, h2, h3, h4, h5, h6⟩ := ok.assigned k hk
      exact ⟨h1, h2, h3, by rw [h.upd.cur]; exact h4, h5, h6⟩
  · intro sm hsm
    rw [h.smemos] at hsm
    obtain ⟨sl, hsl⟩ := hI.smslot c sm hsm
    obtain ⟨sl', a, _⟩ := h.same sl hsl
    exact ⟨sl', a⟩
  · intro sl' hsl'
    obtain ⟨sl, hsl, ⟨_, _, _, e4, e5⟩, u⟩ := h.back hsl'
    obtain ⟨a1, a2, a3, a4⟩ := hI.slot c sl hsl
    rw [h.upd.cur, e4, e5]
    refine ⟨a1, a2, ?_, a4⟩
    rcases u with u | u
    · rw [u]; exact a3
    · rw [u]; exact Nat.le_refl _
  · intro sm hsm hva
    rw [h.smemos] at hsm; rw [h.upd.cur] at hva
    rcases hI.hotsm c sm hsm hva with a | a
    · exact Or.inl ((h.memoSokIff c).mpr a)
    · exact Or.inr (h.busy_fwd a)

theorem lockU_lockSlot {c s sl} (hsl : s.slots c = some sl) : LockU c s (lockSlot s c sl) := by
  refine ⟨⟨rfl, rfl, rfl, rfl, fun _ _ => rfl, ?_, fun _ _ => rfl⟩, rfl, rfl, rfl, ?_, ?_⟩
  · intro c' hc; simp only [lockSlot]; exact setSlot_other _ _ _ hc
  · intro hn; rw [hsl] at hn; cases hn
  · intro sl' hsl'
    rw [hsl] at hsl'; cases hsl'
    exact ⟨{ sl with upd := s.cur }, by simp [lockSlot], ⟨rfl, rfl, rfl, rfl, rfl⟩, Or.inr rfl⟩

theorem lockU_emit (c s e) : LockU c s (emit s e) :=
  ⟨⟨rfl, rfl, rfl, rfl, fun _ _ => rfl, fun _ _ => rfl, fun _ _ => rfl⟩, rfl, rfl, rfl, id,
   fun sl h => ⟨sl, h, SlotEq.refl sl, Or.inl rfl⟩⟩

theorem inv_lock' {P idOf s c sl} (hI : Inv P idOf s) (hsl : s.slots c = some sl) :
    Inv P idOf (lockSlot s c sl) := inv_lockU hI (lockU_lockSlot hsl)

theorem inv_emit' {P idOf s} (hI : Inv P idOf s) (e : Ev) : Inv P idOf (emit s e) :=
  inv_lockU hI (lockU_emit 0 s e)

/-- the frame of a lock -/
theorem LockU.ext {c s t} (h : LockU c s t) : Ext s t (c + 1) := by
  have hmem : ∀ q, t.memos q = s.memos q := by
    intro q
    by_cases hq : q = c
    · subst hq; exact h.memos
    · exact h.upd.memos q hq
  have hsm : ∀ q, t.smemos q = s.smemos q := by
    intro q
    by_cases hq : q = c
    · subst hq; exact h.smemos
    · exact h.upd.smemos q hq
  refine ⟨h.upd.cur, h.upd.lch, h.upd.inp, h.upd.wlog, fun q _ => hmem q, ?_, fun q _ => hsm q, ?_, ?_, ?_,
    ?_, ?_, ?_, ?_⟩
  · intro q hq; exact h.upd.slots q (by omega)
  · intro q m hm _; rw [hmem]; exact hm
  · intro q m hm _; exact ⟨m, by rw [hmem]; exact hm, Or.inl rfl⟩
  · intro q m hm; exact ⟨m, by rw [hmem]; exact hm, Nat.le_refl _⟩
  · intro c' sl _ hsl
    by_cases hc : c' = c
    · subst hc
      obtain ⟨sl', a, e, _⟩ := h.same sl hsl
      exact ⟨sl', a, e⟩
    · exact ⟨sl, by rw [h.upd.slots c' hc]; exact hsl, SlotEq.refl sl⟩
  · intro c' _ hn
    by_cases hc : c' = c
    · subst hc; exact h.gone hn
    · rw [h.upd.slots c' hc]; exact hn
  · intro c' sm _ hsm' _; rw [hsm]; exact hsm'
  · intro c' sm _ hsm' _; exact ⟨sm, by rw [hsm]; exact hsm', Or.inl rfl⟩

end X
end SalsaVerif.Proofs.CoreSpec
