/-
  C26 with flattening: what is known when the body of `q` has just run (`ExecCtx`), and the key
  comparison lemma: if the new `changed_at` candidate is `≤` a reader's anchor, the evaluation of
  `q` under the reader's anchor is the present one.  Core Lean only.
-/
import SalsaVerif.Proofs.PersistFlat4a

namespace SalsaVerif.Proofs.PersistFlat
open SalsaVerif.Model.Core SalsaVerif.Model.Persist SalsaVerif.Proofs.Core SalsaVerif.Proofs.Persist

/-- the state `t`, frame `F` and value `v` right after the body of `q` has run -/
structure ExecCtx (P : Nat → Body) (t : State) (q : Nat) (F : Frame) (v : Nat) : Prop where
  hotd : ∀ d, d ∈ sdeps P t.inp q → hot t d ∧ ∃ x, depInfo t d = some x ∧ x.ca ≤ F.ca ∧ F.dur ≤ x.dur
  obs : F.obs.map (·.dep) = sdeps P t.inp q
  val : v = sem P t.inp q
  ca_le : F.ca ≤ t.cur
  ca_max : F.ca ≤ 1 ∨ ∃ d, d ∈ sdeps P t.inp q ∧ ∃ x, depInfo t d = some x ∧ F.ca ≤ x.ca
  dur3 : F.dur ≤ 3
  dur_min : F.dur = 3 ∨ ∃ d, d ∈ sdeps P t.inp q ∧ ∃ x, depInfo t d = some x ∧ x.dur ≤ F.dur

theorem hot_qry {t k} (h : hot t (.qry k)) : ∃ m, t.memos k = some m ∧ m.va = t.cur := h

/-- a hot memo is valid now, and so is everything below it -/
theorem hot_valid {pers P H R0 t k1 m1} (hJ : J pers P H R0 t) (hm : t.memos k1 = some m1)
    (hv : m1.va = t.cur) : ∀ k mk, Reach P t.inp k1 k → t.memos k = some mk →
    sem P t.inp k = mk.value ∧ m1.dur ≤ mk.dur := by
  intro k mk hr hmk
  have h1 := hJ.memo k1 m1 hm
  have hc : H m1.va = t.inp := by rw [hv]; exact hJ.hist.cur hJ.base
  have := h1.pc k mk (by rw [hc]; exact hr) hmk
    (by rw [hv]; exact Nat.le_trans (hJ.memo k mk hmk).ca_va (hJ.memo k mk hmk).va_cur)
  rw [hc] at this; exact this

/-- everything strictly below `q` is valid after the body has run -/
theorem below_valid {pers P H R0 t q F v} (hJ : J pers P H R0 t) (hx : ExecCtx P t q F v) :
    ∀ k mk, Reach P t.inp q k → k ≠ q → t.memos k = some mk →
    sem P t.inp k = mk.value ∧ F.dur ≤ mk.dur := by
  intro k mk hr hne hmk
  rcases reach_cases hr with e | ⟨k1, hd, hr1⟩
  · exact absurd e hne
  · obtain ⟨hh, x, hi, _, hdur⟩ := hx.hotd _ hd
    obtain ⟨m1, hm1, hv1⟩ := hot_qry hh
    simp only [depInfo, hm1, Option.map, Option.some.injEq] at hi
    subst hi
    obtain ⟨a, b⟩ := hot_valid hJ hm1 hv1 k mk hr1 hmk
    exact ⟨a, Nat.le_trans hdur b⟩

theorem below_memo {pers P H R0 t q F v} (hJ : J pers P H R0 t) (hx : ExecCtx P t q F v) :
    ∀ k, Reach P t.inp q k → k ≠ q → pers k = true → ∃ mk, t.memos k = some mk := by
  intro k hr hne hp
  rcases reach_cases hr with e | ⟨k1, hd, hr1⟩
  · exact absurd e hne
  · obtain ⟨hh, _⟩ := hx.hotd _ hd
    obtain ⟨m1, hm1, hv1⟩ := hot_qry hh
    have hc : H m1.va = t.inp := by rw [hv1]; exact hJ.hist.cur hJ.base
    exact (hJ.memo k1 m1 hm1).j16 k (by rw [hc]; exact hr1) hp

/-- **the comparison lemma.**  A reader `m0` (of `q0`) anchored at `ρ` reaches `q` under `H ρ`, and
    every dependency just read has a stamp `≤ ρ`: then `q` evaluates under `H ρ` exactly as now,
    and the reader's durability is at most the new one. -/
theorem exec_same {pers P H R0 t q F v q0 m0} (hP : Wf P) (hJ : J pers P H R0 t)
    (hx : ExecCtx P t q F v) (hm0 : t.memos q0 = some m0) (hr : Reach P (H m0.va) q0 q)
    (hca : F.ca ≤ m0.va) :
    sdeps P (H m0.va) q = sdeps P t.inp q ∧ sem P (H m0.va) q = sem P t.inp q ∧ m0.dur ≤ F.dur := by
  have h0 := hJ.memo q0 m0 hm0
  have key : ∀ d, d ∈ sdeps P t.inp q → d ∈ sdeps P (H m0.va) q →
      semDep P t.inp d = semDep P (H m0.va) d ∧ ∀ x, depInfo t d = some x → m0.dur ≤ x.dur := by
    intro d hd hd2
    obtain ⟨hh, x, hi, hxc, _⟩ := hx.hotd d hd
    cases d with
    | inp i =>
      simp only [depInfo, Option.some.injEq] at hi
      have hci : (t.inp i).ca ≤ m0.va := by rw [← hi] at hxc; exact Nat.le_trans hxc hca
      have e := hJ.hist.since i m0.va hci h0.va_cur
      refine ⟨by simp only [semDep]; rw [e], ?_⟩
      intro x' hx'
      simp only [depInfo, Option.some.injEq] at hx'
      have := h0.j3 i ⟨q, hr, hd2⟩
      rw [e] at this
      rw [← hx']; exact this
    | qry k =>
      obtain ⟨mk, hmk, hvk⟩ := hot_qry hh
      simp only [depInfo, hmk, Option.map, Option.some.injEq] at hi
      have hck : mk.ca ≤ m0.va := by rw [← hi] at hxc; exact Nat.le_trans hxc hca
      obtain ⟨a, b⟩ := h0.pc k mk (hr.trans (Reach.step hd2 (Reach.refl k))) hmk hck
      obtain ⟨c, _⟩ := hot_valid hJ hmk hvk k mk (Reach.refl k) hmk
      refine ⟨by simp only [semDep]; rw [a, c], ?_⟩
      intro x' hx'
      simp only [depInfo, hmk, Option.map, Option.some.injEq] at hx'
      rw [← hx']; exact b
  have hall : ∀ d, d ∈ sdeps P t.inp q → semDep P t.inp d = semDep P (H m0.va) d := by
    rcases first_diff (P := P) t.inp (H m0.va) q with ⟨d, a, b, c⟩ | hall
    · exact absurd (key d a b).1 c
    · exact hall
  obtain ⟨e1, e2⟩ := eval_same hP hall
  refine ⟨e1, e2, ?_⟩
  rcases hx.dur_min with e | ⟨d, hd, x, hi, hle⟩
  · rw [e]; exact h0.dur3
  · exact Nat.le_trans ((key d hd (by rw [e1]; exact hd)).2 x hi) hle

end SalsaVerif.Proofs.PersistFlat
