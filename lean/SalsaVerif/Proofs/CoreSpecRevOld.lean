/-
  CoreSpec, histories with writes: `execute` of a node, part 4 — what is known about the OLD memo
  of the re-executed node `r` and its struct / `spec` memo (`OldF`).  Core Lean only.
-/
import SalsaVerif.Proofs.CoreSpecRevRead

namespace SalsaVerif.Proofs.CoreSpec
namespace X
open SalsaVerif.Model.CoreSpec

/-! ### the old memo -/

/-- the shape of a recorded value: what `Wf2B` constrains continuations on -/
def ObsShape (o : Obs) : Prop :=
  match o.dep with
  | .qry q => ∀ c, o.val.h = some c → c ≤ q
  | _ => o.val.h = none

def ShapeOk (l : List Obs) : Prop := ∀ o, o ∈ l → o.out = false → ObsShape o

theorem shapeOk_tail {o : Obs} {l : List Obs} (h : ShapeOk (o :: l)) : ShapeOk l :=
  fun o' ho' => h o' (List.mem_cons_of_mem _ ho')


/-- the level of the reads before the `create` of the old execution -/
def PLof (s : State) (r : Nat) (mo : Memo) (Ro : SemRes) : Nat :=
  match Ro.ts with
  | none => mo.dur
  | some _ =>
    match Ro.sp with
    | some _ => (match s.smemos r with | some A => A.dur | none => mo.dur)
    | none => max (match s.slots r with | some sl => sl.dur | none => 0) mo.dur

/-- the old memo `mo` of node `r` (replay `Ro`, prefix level `PL`) and the records of `r` in `s` -/
structure OldF (P : Prog) (idOf : Nat → Nat) (NB0 : Prop) (s : State) (r : Nat) (mo : Memo) (Ro : SemRes)
    (PL : Nat) : Prop where
  memo : s.memos r = some mo
  rep : replayR r idOf (P.node r) mo.obs none none = some Ro
  durPL : mo.dur ≤ PL
  PL3 : PL ≤ 3
  tsSome : mo.ts.isSome = Ro.ts.isSome
  shape : ShapeOk mo.obs
  kid : ∀ k v, Ro.ts = some (k, v) → k = idOf r
  tnone : Ro.ts = none → s.slots r = none ∧ s.smemos r = none
  tsome : ∀ k v, Ro.ts = some (k, v) →
    ∃ sl, s.slots r = some sl ∧ sl.k = k ∧ sl.v = v ∧ sl.fca ≤ mo.va ∧ sl.dur ≤ PL
  asg : ∀ w, Ro.ts ≠ none → Ro.sp = some w → ∃ A, s.smemos r = some A ∧ A.origin = some r ∧
    A.value = ⟨w, none⟩ ∧ A.dur = PL ∧ A.ca ≤ mo.va
  /-- (only when `r` was not busy at the start) -/
  aord : NB0 → AOrd s r mo Ro
  stale : Ro.ts ≠ none → Ro.sp = none → ∀ A, s.smemos r = some A → A.origin ≠ none →
    Wit s A.dur A.va mo.va
  /-- a `Derived` memo of `spec(struct of r)`: its level is below the prefix level, or it is stale -/
  drv : ∀ D, s.smemos r = some D → D.origin = none → D.dur ≤ PL ∨ Wit s D.dur D.va mo.va

theorem oldF_of_tie {P idOf s r mo Ro} (hI : Inv P idOf s) (hm : s.memos r = some mo)
    (hR : replayR r idOf (P.node r) mo.obs none none = some Ro)
    (htie : TieOk s r mo Ro (preOf idOf (P.node r) mo.obs)) {NB0 : Prop} (hao : NB0 → AOrd s r mo Ro)
    (hsh : ShapeOk mo.obs) :
    OldF P idOf NB0 s r mo Ro (PLof s r mo Ro) ∧
    PreAt s mo.va (PLof s r mo Ro) (preOf idOf (P.node r) mo.obs) := by
  have ok := hI.node r mo hm
  have hts : mo.ts.isSome = Ro.ts.isSome := by
    obtain ⟨R, h1, _, h3, _⟩ := ok.rep
    rw [hR] at h1; cases h1; exact h3
  have hkid : ∀ k v, Ro.ts = some (k, v) → k = idOf r := by
    obtain ⟨R, h1, _, _, h4, _⟩ := ok.rep
    rw [hR] at h1; cases h1; exact h4
  unfold TieOk at htie
  cases hro : Ro.ts with
  | none =>
    rw [hro] at htie
    simp only at htie
    have hPL : PLof s r mo Ro = mo.dur := by simp [PLof, hro]
    rw [hPL]
    refine ⟨⟨hm, hR, Nat.le_refl _, ok.obs.dur3, hts, hsh, hkid, fun _ => htie, ?_, ?_, hao, ?_, ?_⟩, ?_⟩
    · intro k v h; rw [hro] at h; cases h
    · intro w h; exact absurd hro h
    · intro h; exact absurd hro h
    · intro D hD; rw [htie.2] at hD; cases hD
    · intro o ho
      have hmem := preOf_sublist idOf _ _ o ho
      have hout := preOf_nonout r idOf _ _ none none Ro hR o ho
      exact ⟨ok.obs.iv o hmem hout, ok.sobs o hmem hout⟩
  | some kv =>
    obtain ⟨k, v⟩ := kv
    rw [hro] at htie
    simp only at htie
    obtain ⟨sl, h1, h2, h3, h4, h5⟩ := htie
    have hsl3 := (hI.slot r sl h1).2.2.2
    have hne : Ro.ts ≠ none := by rw [hro]; exact fun h => by cases h
    have hnn : Ro.ts = none → s.slots r = none ∧ s.smemos r = none := by
      intro h; rw [hro] at h; cases h
    have drv : ∀ PL, sl.dur ≤ PL → ∀ D, s.smemos r = some D → D.origin = none →
        D.dur ≤ PL ∨ Wit s D.dur D.va mo.va := by
      intro PL hPL D hD ho
      obtain ⟨okD, o, rest, hobs, hdep, hout, _⟩ := (hI.smemo r D hD).derived ho
      have hx : depInfo s o.dep = some ⟨⟨sl.v, none⟩, sl.fca, sl.dur⟩ := by
        rw [hdep]; simp [depInfo, h1]
      rcases (okD.iv o (by rw [hobs]; simp) hout).iv _ hx with a | a
      · exact Or.inl (Nat.le_trans a.2 hPL)
      · exact Or.inr (a.mono h4)
    cases hsp : Ro.sp with
    | some w =>
      rw [hsp] at h5
      obtain ⟨A, hA, g1, g2, g3, g4, g5, g6, x1⟩ := h5
      have hPL : PLof s r mo Ro = A.dur := by simp [PLof, hro, hsp, hA]
      rw [hPL]
      have hA3 := (specOk_bounds (hI.smemo r A hA)).2.2.2
      refine ⟨⟨hm, hR, g4, hA3, hts, hsh, hkid, hnn, ?_, ?_, hao, ?_, drv _ g5⟩, g6⟩
      · intro k' v' h; rw [hro] at h; cases h; exact ⟨sl, h1, h2, h3, h4, g5⟩
      · intro w' _ h; rw [hsp] at h; cases h; exact ⟨A, hA, g1, g2, rfl, x1⟩
      · intro _ h; rw [hsp] at h; cases h
    | none =>
      rw [hsp] at h5
      obtain ⟨g1, g2⟩ := h5
      have hPL : PLof s r mo Ro = max sl.dur mo.dur := by simp [PLof, hro, hsp, h1]
      rw [hPL]
      refine ⟨⟨hm, hR, Nat.le_max_right _ _, Nat.max_le.mpr ⟨hsl3, ok.obs.dur3⟩, hts, hsh, hkid, hnn, ?_, ?_, hao, ?_,
        drv _ (Nat.le_max_left _ _)⟩, g2⟩
      · intro k' v' h; rw [hro] at h; cases h; exact ⟨sl, h1, h2, h3, h4, Nat.le_max_left _ _⟩
      · intro w' _ h; rw [hsp] at h; cases h
      · intro _ _ A hA ho; exact g1 A hA ho

/-- the records of `r` are those of `s` -/
structure SameR (r : Nat) (s t : State) : Prop where
  memos : t.memos r = s.memos r
  slots : t.slots r = s.slots r
  smemos : t.smemos r = s.smemos r
  wlog : t.wlog = s.wlog
  cur : t.cur = s.cur

theorem sameR_of_ext {r s t} (h : Ext s t r) : SameR r s t :=
  ⟨h.above_m r (Nat.le_refl _), h.above_s r (Nat.le_refl _), h.above_sm r (Nat.le_refl _), h.wlog, h.cur⟩

theorem OldF.same {P idOf NB0 s t r mo Ro PL} (h : OldF P idOf NB0 s r mo Ro PL) (e : SameR r s t) :
    OldF P idOf NB0 t r mo Ro PL := by
  refine ⟨by rw [e.memos]; exact h.memo, h.rep, h.durPL, h.PL3, h.tsSome, h.shape, h.kid, ?_, ?_, ?_, ?_, ?_, ?_⟩
  · intro a; rw [e.slots, e.smemos]; exact h.tnone a
  · intro k v a; rw [e.slots]; exact h.tsome k v a
  · intro w a b; rw [e.smemos]; exact h.asg w a b
  · intro hn; unfold AOrd; rw [e.smemos, e.wlog]; exact h.aord hn
  · intro a b A hA; rw [e.smemos] at hA; simp only [Wit, e.wlog]; exact h.stale a b A hA
  · intro D hD; rw [e.smemos] at hD; simp only [Wit, e.wlog]; exact h.drv D hD

end X
end SalsaVerif.Proofs.CoreSpec
