/-
  `AllRec` — every observation of every memo is a recorded edge — is an invariant of the
  persistence-build engine (`engP`: `pushP` records every read), of writes, and of
  snapshot / restore.  Independent of `Inv`.  Core Lean only.
-/
import SalsaVerif.Proofs.PersistCovers

namespace SalsaVerif.Proofs.Persist
open SalsaVerif.Model.Core SalsaVerif.Model.Persist SalsaVerif.Proofs.Core

def RecList (l : List Obs) : Prop := ∀ o, o ∈ l → o.recd = true

theorem allRec_setMemo {s q m} (h : AllRec s) (hm : RecList m.obs) : AllRec (setMemo s q m) := by
  intro p mp hp
  by_cases hpq : p = q
  · subst hpq; simp at hp; subst hp; exact hm
  · rw [setMemo_other s q m hpq] at hp; exact h p mp hp

theorem allRec_emit {s e} (h : AllRec s) : AllRec (emit s e) := h

def FeRec (fe : FetchFn) : Prop := ∀ s q, AllRec s → AllRec (fe s q).1
def McRec (mc : McaFn) : Prop := ∀ s q rev, AllRec s → AllRec (mc s q rev).1

theorem readDep_rec {fe} (hfe : FeRec fe) (s : State) (d : Dep) (h : AllRec s) : AllRec (readDep fe s d).1 := by
  cases d with
  | inp i => exact h
  | qry q => exact hfe s q h

theorem runBodyP_rec {fe} (hfe : FeRec fe) : ∀ b s f, AllRec s → RecList f.obs →
    AllRec (runBodyP fe b s f).1 ∧ RecList (runBodyP fe b s f).2.1.obs := by
  intro b
  induction b with
  | ret v => intro s f h hf; exact ⟨h, hf⟩
  | read d k ih =>
    intro s f h hf
    simp only [runBodyP]
    apply ih
    · exact readDep_rec hfe s d h
    · intro o ho
      simp only [pushP, List.mem_append, List.mem_singleton] at ho
      rcases ho with ho | ho
      · exact hf o ho
      · rw [ho]

theorem executeP_rec {fe} (hfe : FeRec fe) (P s q old) (h : AllRec s) : AllRec (executeP fe P s q old).1 := by
  simp only [executeP]
  obtain ⟨h1, h2⟩ := runBodyP_rec hfe (P q) (emit s (.exec q)) frame0 (allRec_emit h) (by intro o ho; cases ho)
  exact allRec_setMemo h1 h2

theorem deepEdges_rec {mc} (hmc : McRec mc) : ∀ obs s rev, AllRec s → AllRec (deepEdges mc obs s rev).1 := by
  intro obs
  induction obs with
  | nil => intro s rev h; exact h
  | cons o rest ih =>
    intro s rev h
    simp only [deepEdges]
    split
    · have h1 : AllRec (depChanged mc s o.dep rev).1 := by
        unfold depChanged
        split
        · exact h
        · exact hmc s _ rev h
      split
      · exact h1
      · exact ih _ rev h1
    · exact ih s rev h

theorem fetchStepP_rec {fe mc} (hfe : FeRec fe) (hmc : McRec mc) (P s q) (h : AllRec s) :
    AllRec (fetchStepP fe mc P s q).1 := by
  unfold fetchStepP
  split
  · exact executeP_rec hfe P s q none h
  · rename_i m hm
    have hobs : RecList m.obs := h q m hm
    split
    · exact h
    · split
      · exact allRec_setMemo (allRec_emit h) hobs
      · have h1 := deepEdges_rec hmc m.obs s m.va h
        by_cases hr : (deepEdges mc m.obs s m.va).2 = true
        · simp only [hr, if_true]
          exact allRec_setMemo (allRec_emit h1) hobs
        · simp only [hr]
          exact executeP_rec hfe P _ q _ h1

theorem engP_rec (P : Nat → Body) : ∀ r, FeRec (engP P r).1 ∧ McRec (engP P r).2 := by
  intro r
  induction r with
  | zero => exact ⟨fun s _ h => h, fun s _ _ h => h⟩
  | succ r ih =>
    obtain ⟨hfe, hmc⟩ := ih
    constructor
    · intro s q h
      simp only [engP]
      split
      · exact hfe s q h
      · split
        · exact fetchStepP_rec hfe hmc P s q h
        · exact h
    · intro s q rev h
      simp only [engP]
      split
      · exact hmc s q rev h
      · split
        · unfold mcaStepP
          split
          · exact h
          · exact fetchStepP_rec hfe hmc P s q h
        · exact h

theorem fetchP_rec (P s q) (h : AllRec s) : AllRec (fetchP P s q).1 := (engP_rec P (q + 1)).1 s q h

theorem write_rec {s} (i v nd) (h : AllRec s) : AllRec (write s i v nd) := by
  intro q m hm
  have : (write s i v nd).memos = s.memos := by
    by_cases hd : (s.inp i).dur ≥ 3 <;> simp [write, hd]
  rw [this] at hm; exact h q m hm

theorem synth_rec {s} (d) (h : AllRec s) : AllRec (synth s d) := by
  intro q m hm
  have : (synth s d).memos = s.memos := by
    by_cases hd : d ≥ 3 <;> simp [synth, hd]
  rw [this] at hm; exact h q m hm

theorem cmse_rec (s : State) : ∀ fuel j a, RecList a.flat → RecList (cmse s fuel j a).flat := by
  intro fuel
  induction fuel with
  | zero => intro j a ha; exact ha
  | succ fuel ih =>
    intro j a ha
    simp only [cmse]
    split
    · exact ha
    · apply foldl_flat (Q := fun o => o.recd = true)
      · intro a' o ha'
        unfold cmseEdge
        split
        · exact ha'
        · split
          · exact ha'
          · split
            · exact insertEdge_flat (Q := fun o => o.recd = true) a' o ha' rfl
            · exact ih _ _ ha'
      · exact ha

theorem flattenObs_rec (pers : Nat → Bool) (s : State) (obs : List Obs) (h : RecList obs) :
    RecList (flattenObs pers s obs) := by
  unfold flattenObs
  have key : ∀ (l : List Obs) (a : FAcc), RecList l → RecList a.flat → RecList (l.foldl (flattenEdge pers s) a).flat := by
    intro l
    induction l with
    | nil => intro a _ ha; exact ha
    | cons o rest ih =>
      intro a hl ha
      simp only [List.foldl_cons]
      apply ih _ (fun o' ho' => hl o' (by simp [ho']))
      have ho : o.recd = true := hl o (by simp)
      have copy : RecList (a.flat ++ [o]) := by
        intro y hy
        simp only [List.mem_append, List.mem_singleton] at hy
        rcases hy with hy | hy
        · exact ha y hy
        · rw [hy]; exact ho
      unfold flattenEdge
      split
      · exact copy
      · split
        · exact copy
        · exact cmse_rec s _ _ a ha
  exact key obs ⟨[], []⟩ h (by intro o ho; cases ho)

theorem restore_snapshot_rec (pers : Nat → Bool) {s} (h : AllRec s) : AllRec (restore (snapshot pers s)) := by
  intro q m hm
  simp only [restore, snapshot] at hm
  split at hm
  · cases hm0 : s.memos q with
    | none => simp [hm0] at hm
    | some m0 =>
      simp only [hm0, Option.map, Option.some.injEq] at hm
      subst hm
      exact flattenObs_rec pers s m0.obs (h q m0 hm0)
  · cases hm

theorem stepP_rec (pers P s) (op : POp) (h : AllRec s) : AllRec (stepP pers P s op) := by
  cases op with
  | get q => exact fetchP_rec P s q h
  | set i v nd => exact write_rec i v nd h
  | synth d => exact synth_rec d h
  | snapshot => exact restore_snapshot_rec pers h

/-- every state reached by the persistence-build engine has only recorded edges -/
theorem runP_rec (pers P inp) (ops : List POp) : AllRec (runP pers P inp ops) := by
  unfold runP
  have key : ∀ (ops : List POp) (s : State), AllRec s → AllRec (ops.foldl (stepP pers P) s) := by
    intro ops
    induction ops with
    | nil => intro s h; exact h
    | cons op rest ih => intro s h; exact ih _ (stepP_rec pers P s op h)
  exact key ops _ (by intro q m hm; simp [init] at hm)

/-! ### histories without snapshots need no side condition for `Inv` -/

theorem runP_inv_nosnap {pers P} (hP : Wf P) (inp : Nat → Inp) (ops : List POp)
    (hn : ops.all (fun o => !o.isSnap) = true) : Inv P (runP pers P inp ops) := by
  unfold runP
  have key : ∀ (ops : List POp) (s : State), ops.all (fun o => !o.isSnap) = true → Inv P s →
      Inv P (ops.foldl (stepP pers P) s) := by
    intro ops
    induction ops with
    | nil => intro s _ h; exact h
    | cons op rest ih =>
      intro s hn h
      simp only [List.all_cons, Bool.and_eq_true] at hn
      apply ih _ hn.2
      cases op with
      | get q => exact (fetch_soundP hP s q h).1
      | set i v nd => obtain ⟨b, hb⟩ := write_bump s i v nd; exact bump_inv hb h
      | synth d => obtain ⟨b, hb⟩ := synth_bump s d; exact bump_inv hb h
      | snapshot => simp [POp.isSnap] at hn
  exact key ops _ hn (init_inv P inp)

end SalsaVerif.Proofs.Persist
