/-
  Upper bound for the revision-aware cycle model: every value the engine of
  `Model/CycleRev.lean` ever stores or returns is below any post-fixpoint `B` of the equations
  (at the inputs of the revision it is computed in).  Part 1: the invariant and the functions
  that do not touch memo values.  Core Lean only.
-/
import SalsaVerif.Proofs.CycleRevRef

namespace SalsaVerif.Proofs.CycleRev
open SalsaVerif.Model
open SalsaVerif.Model.CycleRev
open SalsaVerif.Proofs.Cycle (le)

/-- every memo value is below `B`. -/
def Inv (B : Nat → Nat) (s : St) : Prop :=
  ∀ c m v, memoOf s c = some m → m.value = some v → le v (B c)

/-- the invariant of one revision: memo values below `B`, inputs `i`. -/
def G (B : Nat → Nat) (i : List Inp) (s : St) : Prop := Inv B s ∧ s.inp = i

/-- outcome of an engine function: the invariant holds in the state it leaves (also when it
    panics), and the result satisfies `Q`. -/
def Good {α : Type} (B : Nat → Nat) (i : List Inp) (Q : α → Prop) (r : Res (α × St)) : Prop :=
  match r with
  | .ok (a, s) => G B i s ∧ Q a
  | .error p => G B i p.st

def GoodS (B : Nat → Nat) (i : List Inp) (r : Res St) : Prop :=
  match r with
  | .ok s => G B i s
  | .error p => G B i p.st

variable {B : Nat → Nat} {i : List Inp}

theorem G_of_same {s s' : St} (h : G B i s) (hm : s'.memos = s.memos) (hi : s'.inp = s.inp) :
    G B i s' := by
  refine ⟨?_, hi.trans h.2⟩
  intro c m v hc hv
  exact h.1 c m v (by simpa [memoOf, hm] using hc) hv

theorem memoOf_setMemo (s : St) (c c' : Nat) (m : Memo) :
    memoOf (setMemo s c m) c' = if c' = c ∧ c < s.memos.length then some m else memoOf s c' := by
  unfold memoOf setMemo
  simp only [List.getD_eq_getElem?_getD, List.getElem?_set]
  by_cases h : c = c'
  · subst h
    by_cases h2 : c < s.memos.length
    · simp [h2]
    · simp [h2]
  · have h' : ¬ c' = c := fun e => h e.symm
    simp [h, h']

theorem G_setMemo {s : St} (h : G B i s) (c : Nat) (m : Memo)
    (hv : ∀ v, m.value = some v → le v (B c)) : G B i (setMemo s c m) := by
  refine ⟨?_, h.2⟩
  intro c' m' v hc hv'
  rw [memoOf_setMemo] at hc
  split at hc
  · rename_i h1
    cases hc
    rw [h1.1]; exact hv v hv'
  · exact h.1 c' m' v hc hv'

theorem G_modMemo {s : St} (h : G B i s) (c : Nat) (f : Memo → Memo)
    (hf : ∀ m, (f m).value = m.value) : G B i (modMemo s c f) := by
  unfold modMemo
  cases hm : memoOf s c with
  | none => exact h
  | some m =>
    refine G_setMemo h c (f m) ?_
    intro v hv
    rw [hf] at hv
    exact h.1 c m v hm hv

/-! ### functions that leave memos and inputs alone -/

/-- case-split all `match` / `if` of the goal, closing the leaves by `rfl` / `simp`. -/
syntax "frame_tac" : tactic
macro_rules
  | `(tactic| frame_tac) => `(tactic| first | rfl | (simp; done) | (split <;> frame_tac))

@[simp] theorem setSync_memos (s : St) (k : Nat) (y : Sync) : (setSync s k y).memos = s.memos := rfl
@[simp] theorem setSync_inp (s : St) (k : Nat) (y : Sync) : (setSync s k y).inp = s.inp := rfl
@[simp] theorem eraseSync_memos (s : St) (k : Nat) : (eraseSync s k).memos = s.memos := rfl
@[simp] theorem eraseSync_inp (s : St) (k : Nat) : (eraseSync s k).inp = s.inp := rfl
@[simp] theorem emit_memos (s : St) (e : Ev) : (emit s e).memos = s.memos := rfl
@[simp] theorem emit_inp (s : St) (e : Ev) : (emit s e).inp = s.inp := rfl
@[simp] theorem pushQuery_memos (s : St) (c : Nat) : (pushQuery s c).memos = s.memos := rfl
@[simp] theorem pushQuery_inp (s : St) (c : Nat) : (pushQuery s c).inp = s.inp := rfl
@[simp] theorem popQuery_memos (s : St) : (popQuery s).memos = s.memos := rfl
@[simp] theorem popQuery_inp (s : St) : (popQuery s).inp = s.inp := rfl

@[simp] theorem modTop_memos (s : St) (f : Frame → Frame) : (modTop s f).memos = s.memos := by
  unfold modTop; frame_tac
@[simp] theorem modTop_inp (s : St) (f : Frame → Frame) : (modTop s f).inp = s.inp := by
  unfold modTop; frame_tac

@[simp] theorem seedFrame_memos (s : St) (o : Option Memo) : (seedFrame s o).memos = s.memos := by
  unfold seedFrame; frame_tac
@[simp] theorem seedFrame_inp (s : St) (o : Option Memo) : (seedFrame s o).inp = s.inp := by
  unfold seedFrame; frame_tac

@[simp] theorem readInput_memos (s : St) (k : Nat) : (readInput s k).2.memos = s.memos := by
  unfold readInput; simp
@[simp] theorem readInput_inp (s : St) (k : Nat) : (readInput s k).2.inp = s.inp := by
  unfold readInput; simp

@[simp] theorem tryClaim_memos (s : St) (k : Nat) (a : Bool) : (tryClaim s k a).2.memos = s.memos := by
  unfold tryClaim; frame_tac
@[simp] theorem tryClaim_inp (s : St) (k : Nat) (a : Bool) : (tryClaim s k a).2.inp = s.inp := by
  unfold tryClaim; frame_tac

@[simp] theorem peekClaim_memos (s : St) (k : Nat) : (peekClaim s k).2.memos = s.memos := by
  unfold peekClaim; frame_tac
@[simp] theorem peekClaim_inp (s : St) (k : Nat) : (peekClaim s k).2.inp = s.inp := by
  unfold peekClaim; frame_tac

@[simp] theorem release_memos (s : St) (k : Nat) (y : Sync) : (release s k y).memos = s.memos := by
  unfold release; frame_tac
@[simp] theorem release_inp (s : St) (k : Nat) (y : Sync) : (release s k y).inp = s.inp := by
  unfold release; frame_tac

@[simp] theorem releaseDefault_memos (s : St) (k : Nat) : (releaseDefault s k).memos = s.memos := by
  unfold releaseDefault; frame_tac
@[simp] theorem releaseDefault_inp (s : St) (k : Nat) : (releaseDefault s k).inp = s.inp := by
  unfold releaseDefault; frame_tac

@[simp] theorem releaseSelf_memos (s : St) (k : Nat) : (releaseSelf s k).memos = s.memos := by
  unfold releaseSelf; frame_tac
@[simp] theorem releaseSelf_inp (s : St) (k : Nat) : (releaseSelf s k).inp = s.inp := by
  unfold releaseSelf; frame_tac

theorem transfer_same {s s' : St} {k o : Nat} (h : transfer s k o = some s') :
    s'.memos = s.memos ∧ s'.inp = s.inp := by
  unfold transfer at h
  split at h
  · cases h; exact ⟨rfl, rfl⟩
  · cases h

theorem dropClaim_same {s s' : St} {k : Nat} {md : Mode} (h : dropClaim s k md = some s') :
    s'.memos = s.memos ∧ s'.inp = s.inp := by
  cases md with
  | default => simp [dropClaim] at h; subst h; simp
  | selfOnly => simp [dropClaim] at h; subst h; simp
  | transferTo o => exact transfer_same h

theorem G_dropClaim {s s' : St} {k : Nat} {md : Mode} (hG : G B i s) (h : dropClaim s k md = some s') :
    G B i s' := G_of_same hG (dropClaim_same h).1 (dropClaim_same h).2

/-! ### memo updates that keep the values -/

theorem G_emit {s : St} (h : G B i s) (e : Ev) : G B i (emit s e) := G_of_same h rfl rfl
theorem G_popQuery {s : St} (h : G B i s) : G B i (popQuery s) := G_of_same h rfl rfl
theorem G_pushQuery {s : St} (h : G B i s) (c : Nat) : G B i (pushQuery s c) := G_of_same h rfl rfl
theorem G_releaseDefault {s : St} (h : G B i s) (c : Nat) : G B i (releaseDefault s c) :=
  G_of_same h (by simp) (by simp)
theorem G_seedFrame {s : St} (h : G B i s) (o : Option Memo) : G B i (seedFrame s o) :=
  G_of_same h (by simp) (by simp)
theorem G_tryClaim {s : St} (h : G B i s) (k : Nat) (a : Bool) : G B i (tryClaim s k a).2 :=
  G_of_same h (by simp) (by simp)
theorem G_peekClaim {s : St} (h : G B i s) (k : Nat) : G B i (peekClaim s k).2 :=
  G_of_same h (by simp) (by simp)
theorem G_readInput {s : St} (h : G B i s) (k : Nat) : G B i (readInput s k).2 :=
  G_of_same h (by simp) (by simp)

theorem G_markAsVerified {s : St} (h : G B i s) (c : Nat) : G B i (markAsVerified s c) := by
  unfold markAsVerified
  exact G_modMemo (G_emit h _) c _ (fun _ => rfl)

theorem G_updateShallow {s : St} (h : G B i s) (c : Nat) (su : Shallow) :
    G B i (updateShallow s c su) := by
  cases su <;> simp only [updateShallow]
  · exact h
  · exact G_markAsVerified h c
  · exact h

theorem G_validateProvisional {s : St} (h : G B i s) (c : Nat) (m : Memo) :
    G B i (validateProvisional s c m).2 := by
  unfold validateProvisional
  simp only
  split
  · exact G_modMemo h c _ (fun _ => rfl)
  · exact h

theorem G_setIterationCount {s : St} (h : G B i s) (k it : Nat) : G B i (setIterationCount s k it) := by
  unfold setIterationCount
  exact G_modMemo h k _ (fun _ => rfl)

theorem G_poison {s : St} (h : G B i s) (c : Nat) : G B i (poison c s) := by
  unfold poison
  exact G_setMemo h c _ (fun v hv => by cases hv)

theorem G_foldl_final {s : St} (h : G B i s) (hs : List Head) :
    G B i (hs.foldl (fun s h => modMemo s h.key (fun m => { m with final := true })) s) := by
  induction hs generalizing s with
  | nil => exact h
  | cons a rest ih => exact ih (G_modMemo h a.key _ (fun _ => rfl))

theorem G_foldl_setIter {s : St} (h : G B i s) (hs : List Head) (it : Nat) :
    G B i (hs.foldl (fun s h => setIterationCount s h.key it) s) := by
  induction hs generalizing s with
  | nil => exact h
  | cons a rest ih => exact ih (G_setIterationCount h a.key it)

theorem good_sameIterationHeads (m : Memo) (hs : List Head) {s : St} (h : G B i s) :
    Good B i (fun _ => True) (sameIterationHeads m hs s) := by
  induction hs generalizing s with
  | nil => exact ⟨h, trivial⟩
  | cons a rest ih =>
    unfold sameIterationHeads
    have hp := G_peekClaim h a.key
    generalize peekClaim s a.key = pc at hp
    obtain ⟨pc1, s1⟩ := pc
    simp only
    split
    · exact ⟨hp, trivial⟩
    · split
      · exact hp
      · split
        · exact hp
        · exact ⟨hp, trivial⟩
      · split
        · exact ⟨hp, trivial⟩
        · exact ih hp
      · split
        · exact ⟨hp, trivial⟩
        · exact ih hp

theorem good_validateSameIteration {s : St} (h : G B i s) (c : Nat) (m : Memo) :
    Good B i (fun _ => True) (validateSameIteration s c m) := by
  unfold validateSameIteration
  split
  · exact ⟨h, trivial⟩
  · simp only
    split
    · exact ⟨h, trivial⟩
    · exact good_sameIterationHeads m _ h

theorem good_validateMayBeProvisional {s : St} (h : G B i s) (c : Nat) (m : Memo) :
    Good B i (fun _ => True) (validateMayBeProvisional s c m) := by
  unfold validateMayBeProvisional
  split
  · exact ⟨h, trivial⟩
  · split
    · exact ⟨h, trivial⟩
    · have hv := G_validateProvisional h c m
      generalize validateProvisional s c m = r at hv
      obtain ⟨ok1, s1⟩ := r
      simp only
      split
      · exact ⟨hv, trivial⟩
      · exact good_validateSameIteration hv c m

theorem goodS_reportTrackedRead {s : St} (h : G B i s) (c : Nat) (m : Memo) :
    GoodS B i (reportTrackedRead s c m) := by
  unfold reportTrackedRead
  split
  · exact h
  · split
    · exact h
    · exact G_of_same h rfl rfl

theorem G_outerPeek (hs : List Head) {s : St} (h : G B i s) : G B i (outerPeek hs s).2 := by
  induction hs generalizing s with
  | nil => exact h
  | cons a rest ih =>
    unfold outerPeek
    have hp := G_peekClaim h a.key
    generalize peekClaim s a.key = pc at hp
    obtain ⟨pc1, s1⟩ := pc
    simp only
    split
    · exact hp
    · exact ih hp

theorem G_outerCycle {s : St} (h : G B i s) (hs : List Head) (c : Nat) : G B i (outerCycle s hs c).2 := by
  unfold outerCycle
  split
  · exact h
  · exact G_outerPeek _ h

theorem completeCycleQuery_value (P : Prog) (s : St) (fr : Frame) (v it : Nat) :
    (completeCycleQuery P s fr v it).1.value = some v := rfl

theorem G_completeCycleQuery (P : Prog) {s : St} (h : G B i s) (fr : Frame) (v it : Nat) :
    G B i (completeCycleQuery P s fr v it).2 := G_popQuery h

end SalsaVerif.Proofs.CycleRev
