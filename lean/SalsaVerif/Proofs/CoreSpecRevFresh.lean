/-
  CoreSpec, histories with writes: a memo that passes the shallow test (`SOK`) in a state that
  satisfies `Inv` is FRESH — the replay of its recorded reads is the from-scratch result.
    * `not_sok_of_wit`, `memoSok_not_busy`
    * `fresh_of_sok` (strong induction on the query; per kind of dependency the recorded value is
      the from-scratch value of the dependency)
    * corollaries: `value_of_sok`, `slot_of_sok`, `field_sem`, `field_sem_val`, `ident_sem`,
      `spec_sem`, `spec_assigned_of_sem`, `spec_derived_of_sem`
    * `handle_ok`: the handle of a valid memo's value points to a valid creator with a struct
  Core Lean only.
-/
import SalsaVerif.Proofs.CoreSpecRevSem
import SalsaVerif.Proofs.CoreSpecRevInv

namespace SalsaVerif.Proofs.CoreSpec
open SalsaVerif.Model.CoreSpec

/-! ### the shallow test against a relevant write -/

theorem not_sok_of_wit {P idOf s} (hI : Inv P idOf s) {m : Memo} (_hva : m.va ≤ s.cur)
    (h : Wit s m.dur m.va s.cur) : ¬ SOK s m := by
  obtain ⟨w, d, hw, hd, hlo, hhi⟩ := h
  have hlc : w ≤ lc s m.dur := hI.wlog_lc w d hw m.dur hd
  intro hs
  cases hs with
  | inl e => omega
  | inr e => omega

theorem memoSok_not_busy {s c} (h : memoSok s c) : ¬ Busy s c := by
  intro hb
  obtain ⟨_, _, _, hn⟩ := hb
  exact hn h

/-- non-vacuity of `not_sok_of_wit`: a memo verified at 1, a level-0 write at 2 -/
example : Wit { init (fun _ => ⟨0, 0, 0⟩) with cur := 2, wlog := [(2, 0)] } 0 1 2 :=
  ⟨2, 0, by simp, Nat.le_refl _, by decide, Nat.le_refl _⟩

/-! ### a valid memo's recorded reads are current -/

/-- KA + I2: every recorded read of a valid memo still has its value -/
theorem obs_cur {s m} (ok : ObsOk s m) (hs : SOK s m) (o : Obs) (ho : o ∈ m.obs) (hout : o.out = false) :
    ∃ x, depInfo s o.dep = some x ∧ x.val = o.val := by
  obtain ⟨x, hx, hca⟩ := ok.kaca hs o ho hout
  exact ⟨x, hx, (ok.i2 o ho hout x hx (Nat.le_trans hca ok.deep_va)).1⟩

/-- the replay of the memo of `c` (when valid) is the from-scratch result of `c` -/
def FreshAt (P : Prog) (idOf : Nat → Nat) (s : State) (c : Nat) : Prop :=
  ∀ m, s.memos c = some m → SOK s m →
    ∀ R, replayR c idOf (P.node c) m.obs none none = some R → R = semRes P s.inp c

theorem tie_of_fresh {P idOf s c mc} (hI : Inv P idOf s) (hf : FreshAt P idOf s c)
    (hm : s.memos c = some mc) (hs : SOK s mc) :
    (semRes P s.inp c).val = mc.value ∧ (∀ k v, (semRes P s.inp c).ts = some (k, v) → k = idOf c) ∧
    TieOk s c mc (semRes P s.inp c) (preOf idOf (P.node c) mc.obs) := by
  obtain ⟨R, hR, hval, _, hid, htie⟩ := (hI.node c mc hm).rep
  have e := hf mc hm hs R hR
  subst e
  exact ⟨hval, hid, (htie (memoSok_not_busy ⟨mc, hm, hs⟩)).1⟩

theorem tie_none {P idOf s c} (hI : Inv P idOf s) (hf : FreshAt P idOf s c) (hc : memoSok s c)
    (hts : (semRes P s.inp c).ts = none) : s.slots c = none ∧ s.smemos c = none := by
  obtain ⟨mc, hm, hs⟩ := hc
  have h := (tie_of_fresh hI hf hm hs).2.2
  unfold TieOk at h
  rw [hts] at h
  exact h

theorem tie_some {P idOf s c mc k v} (hI : Inv P idOf s) (hf : FreshAt P idOf s c)
    (hm : s.memos c = some mc) (hs : SOK s mc) (hts : (semRes P s.inp c).ts = some (k, v)) :
    k = idOf c ∧ ∃ sl, s.slots c = some sl ∧ sl.k = k ∧ sl.v = v ∧ sl.fca ≤ mc.va ∧
      SpTie s c mc sl (preOf idOf (P.node c) mc.obs) (semRes P s.inp c).sp := by
  obtain ⟨_, hid, h⟩ := tie_of_fresh hI hf hm hs
  unfold TieOk at h
  rw [hts] at h
  obtain ⟨sl, h1, h2, h3, h4, h6⟩ := h
  exact ⟨hid k v hts, sl, h1, h2, h3, h4, h6⟩

theorem field_fresh {P idOf s c sl} (hI : Inv P idOf s) (hf : FreshAt P idOf s c) (hc : memoSok s c)
    (hsl : s.slots c = some sl) : (semRes P s.inp c).ts = some (idOf c, sl.v) ∧ sl.k = idOf c := by
  cases hts : (semRes P s.inp c).ts with
  | none =>
    have := (tie_none hI hf hc hts).1
    rw [hsl] at this; cases this
  | some kv =>
    obtain ⟨k, v⟩ := kv
    obtain ⟨mc, hm, hs⟩ := hc
    obtain ⟨hk, sl', h1, h2, h3, _, _⟩ := tie_some hI hf hm hs hts
    rw [hsl] at h1; cases h1
    subst hk
    subst h3
    exact ⟨rfl, h2⟩

theorem field_fresh_val {P idOf s c sl} (hI : Inv P idOf s) (hf : FreshAt P idOf s c) (hc : memoSok s c)
    (hsl : s.slots c = some sl) : fieldVal (semRes P s.inp c) = ⟨sl.v, none⟩ := by
  unfold fieldVal
  rw [(field_fresh hI hf hc hsl).1]

/-! ### the body of `spec`: reads that are current on their input reads are input reads -/

theorem replayS_inp (env : Nat → Inp) (P : Prog) (self : Nat) (idOf : Nat → Nat) :
    ∀ b, WfS b → ∀ (obs : List Obs) ts sp R, replayR self idOf b obs ts sp = some R →
      (∀ o, o ∈ obs → o.out = false → ∀ i, o.dep = .inp i → o.val = ⟨(env i).val, none⟩) →
      ∀ o, o ∈ obs → o.out = false → semDep P env o.dep = o.val := by
  intro b hb
  induction hb with
  | ret n =>
    intro obs ts sp R h _ o ho
    cases obs with
    | nil => simp at ho
    | cons _ _ => simp [replayR] at h
  | read i k _ ih =>
    intro obs ts sp R h hobs o ho hout
    cases obs with
    | nil => simp [replayR] at h
    | cons o1 rest =>
      simp only [replayR] at h
      split at h
      · rename_i hc
        have hv : o1.val = ⟨(env i).val, none⟩ := hobs o1 (by simp) hc.1 i hc.2
        cases List.mem_cons.mp ho with
        | inl e => subst e; rw [hc.2, hv]; rfl
        | inr hm =>
          rw [hv] at h
          exact ih _ rest ts sp R h (fun o' hm' => hobs o' (by simp [hm'])) o hm hout
      · simp at h

/-- a replay that specifies has created -/
theorem replay_sp_ts (self : Nat) (idOf : Nat → Nat) : ∀ b (obs : List Obs) ts sp R,
    replayR self idOf b obs ts sp = some R → (sp ≠ none → ts ≠ none) → ∀ w, R.sp = some w → R.ts ≠ none := by
  intro b
  induction b with
  | ret v =>
    intro obs ts sp R h hh w hw
    cases obs with
    | nil =>
      simp only [replayR, Option.some.injEq] at h
      subst h
      exact hh (by simp only at hw; rw [hw]; exact fun h => by cases h)
    | cons _ _ => simp [replayR] at h
  | read d k ih =>
    intro obs ts sp R h hh w hw
    cases obs with
    | nil => simp [replayR] at h
    | cons o rest =>
      simp only [replayR] at h
      split at h
      · exact ih _ rest ts sp R h hh w hw
      · simp at h
  | ident c k ih =>
    intro obs ts sp R h hh w hw
    simp only [replayR] at h
    exact ih _ obs ts sp R h hh w hw
  | create idk v k ih =>
    intro obs ts sp R h hh w hw
    cases ts with
    | some t => simp [replayR] at h
    | none =>
      simp only [replayR] at h
      exact ih _ obs _ sp R h (fun _ => by simp) w hw
  | specify c v k ih =>
    intro obs ts sp R h hh w hw
    cases obs with
    | nil => simp [replayR] at h
    | cons o rest =>
      simp only [replayR] at h
      split at h
      · rename_i hc
        refine ih rest ts _ R h (fun _ => ?_) w hw
        intro e; rw [e] at hc; simp at hc
      · simp at h

/-! ### `spec(struct of c)` under the freshness of the creator -/

theorem specOk_va' {P idOf s c sm} (ok : SpecOk P idOf s c sm) : sm.va ≤ s.cur := by
  cases ho : sm.origin with
  | none => exact (ok.derived ho).1.va_cur
  | some k => exact (ok.assigned k ho).2.2.2.1

/-- the creator does not specify (from scratch): a valid memo of `spec` is `Derived` -/
theorem spec_derived_fresh {P idOf s c sm} (hI : Inv P idOf s) (hf : FreshAt P idOf s c) (hc : memoSok s c)
    (hsp : (semRes P s.inp c).sp = none) (hsm : s.smemos c = some sm) (hss : SOK s sm) :
    sm.origin = none := by
  obtain ⟨sl, hsl⟩ := hI.smslot c sm hsm
  have hts := (field_fresh hI hf hc hsl).1
  obtain ⟨mc, hm, hs⟩ := hc
  obtain ⟨_, _, _, _, _, _, htie⟩ := tie_some hI hf hm hs hts
  rw [hsp] at htie
  cases ho : sm.origin with
  | none => rfl
  | some k =>
    have hw := htie.1 sm hsm (by rw [ho]; exact fun h => by cases h)
    exact absurd hss (not_sok_of_wit hI (specOk_va' (hI.smemo c sm hsm))
      (hw.mono (hI.node c mc hm).obs.va_cur))

/-- the creator specifies `w` (from scratch): the `Assigned` memo is there and valid -/
theorem spec_assigned_fresh {P idOf s c w} (hI : Inv P idOf s) (hf : FreshAt P idOf s c) (hc : memoSok s c)
    (hsp : (semRes P s.inp c).sp = some w) :
    ∃ A, s.smemos c = some A ∧ A.origin = some c ∧ A.value = ⟨w, none⟩ ∧ SOK s A := by
  obtain ⟨mc, hm, hs⟩ := hc
  have hnb : ¬ Busy s c := memoSok_not_busy ⟨mc, hm, hs⟩
  cases hts : (semRes P s.inp c).ts with
  | none =>
    -- a `specify` needs a struct: the replay has `sp = some _` only after a `create`; here we
    -- only need the tie, which is vacuous — so go through the replay
    obtain ⟨R, hR, _, _, _, htie⟩ := (hI.node c mc hm).rep
    have e := hf mc hm hs R hR
    subst e
    exact absurd hts (replay_sp_ts c idOf (P.node c) mc.obs none none _ hR (fun h => absurd rfl h) w hsp)
  | some kv =>
    obtain ⟨k, v⟩ := kv
    obtain ⟨_, sl, _, _, _, _, htie⟩ := tie_some hI hf hm hs hts
    rw [hsp] at htie
    obtain ⟨A, hA, ho, hv, hva, hdur, _, _⟩ := htie
    refine ⟨A, hA, ho, hv, ?_⟩
    obtain ⟨_, _, _, hAcur, hA1, hA3⟩ := (hI.smemo c A hA).assigned c ho
    cases hva with
    | inr h3 =>
      right
      rw [hI.lc_never A.dur (by omega)]; exact hA1
    | inl hle =>
      cases hs with
      | inl hot => left; omega
      | inr hd =>
        right
        have := lc_mono hI mc.dur A.dur hdur
        omega

/-- a valid memo of `spec(struct of c)` holds the from-scratch value -/
theorem spec_fresh {P idOf s c sm} (hP : Wf2 P idOf) (hI : Inv P idOf s) (hf : FreshAt P idOf s c)
    (hc : memoSok s c) (hsm : s.smemos c = some sm) (hss : SOK s sm) : sm.value = semSpec P s.inp c := by
  obtain ⟨sl, hsl⟩ := hI.smslot c sm hsm
  have hts := (field_fresh hI hf hc hsl).1
  cases hsp : (semRes P s.inp c).sp with
  | some w =>
    obtain ⟨A, hA, _, hv, _⟩ := spec_assigned_fresh hI hf hc hsp
    rw [hsm] at hA; cases hA
    rw [hv]
    simp only [semSpec, specVal, hsp]
  | none =>
    have ho := spec_derived_fresh hI hf hc hsp hsm hss
    obtain ⟨ok, o, rest, hobs, hdep, hout, hrep⟩ := (hI.smemo c sm hsm).derived ho
    -- the first read: the tracked field
    have hov : o.val = ⟨sl.v, none⟩ := by
      obtain ⟨x, hx, hxv⟩ := obs_cur ok hss o (by rw [hobs]; simp) hout
      rw [hdep] at hx
      simp only [depInfo, hsl, Option.map_some, Option.some.injEq] at hx
      rw [← hxv, ← hx]
    have hon : o.val.n = sl.v := by rw [hov]
    rw [hon] at hrep
    -- the other reads: inputs, current
    have hin : ∀ o', o' ∈ rest → o'.out = false → ∀ i, o'.dep = .inp i → o'.val = ⟨(s.inp i).val, none⟩ := by
      intro o' hm' hout' i hd'
      obtain ⟨x, hx, hxv⟩ := obs_cur ok hss o' (by rw [hobs]; simp [hm']) hout'
      rw [hd'] at hx
      simp only [depInfo, Option.some.injEq] at hx
      rw [← hxv, ← hx]
    have hall := replayS_inp s.inp P 0 idOf _ (hP.spec (idOf c) sl.v) rest none none _ hrep hin
    have := replay_spec_sem hP.spec s.inp idOf (idOf c) sl.v rest sm.value hrep hall
    rw [this]
    simp only [semSpec, specVal, hsp, hts]

/-! ### the recorded reads of a valid memo carry the from-scratch values -/

theorem dep_sem {P idOf s q m} (hP : Wf2 P idOf) (hI : Inv P idOf s)
    (hlow : ∀ c, c < q → FreshAt P idOf s c) (hm : s.memos q = some m) (hs : SOK s m) :
    ∀ o, o ∈ m.obs → o.out = false → semDep P s.inp o.dep = o.val := by
  intro o ho hout
  have ok := hI.node q m hm
  obtain ⟨x, hx, hxv⟩ := obs_cur ok.obs hs o ho hout
  have hsd := ok.ksok hs o ho hout
  have hrk := ok.rank o ho hout
  cases hd : o.dep with
  | inp i =>
    rw [hd] at hx
    simp only [depInfo, Option.some.injEq] at hx
    rw [← hxv, ← hx]; rfl
  | qry q' =>
    rw [hd] at hx hsd hrk
    obtain ⟨m', hm', hs'⟩ := hsd
    simp only [depInfo, hm', Option.map_some, Option.some.injEq] at hx
    have := (tie_of_fresh hI (hlow q' hrk) hm' hs').1
    rw [← hxv, ← hx]
    exact this
  | field c =>
    rw [hd] at hx hsd hrk
    obtain ⟨hc, hne⟩ := hsd
    cases hsl : s.slots c with
    | none => exact absurd hsl hne
    | some sl =>
      simp only [depInfo, hsl, Option.map_some, Option.some.injEq] at hx
      rw [← hxv, ← hx]
      exact field_fresh_val hI (hlow c hrk) hc hsl
  | spec c =>
    rw [hd] at hx hsd hrk
    obtain ⟨hc, sm, hsm, hss⟩ := hsd
    simp only [depInfo, hsm, Option.map_some, Option.some.injEq] at hx
    rw [← hxv, ← hx]
    exact (spec_fresh hP hI (hlow c hrk) hc hsm hss).symm

/-- MAIN: the replay of a valid memo is the from-scratch result -/
theorem fresh_of_sok {P idOf s} (hP : Wf2 P idOf) (hI : Inv P idOf s) :
    ∀ q m, s.memos q = some m → SOK s m →
      ∀ R, replayR q idOf (P.node q) m.obs none none = some R → R = semRes P s.inp q := by
  intro q
  induction q using Nat.strongRecOn with
  | _ q ih =>
    intro m hm hs R hR
    exact (replay_node_sem hP s.inp q m.obs R hR (dep_sem hP hI (fun c hc => ih c hc) hm hs)).symm

theorem freshAt_all {P idOf s} (hP : Wf2 P idOf) (hI : Inv P idOf s) (c : Nat) : FreshAt P idOf s c :=
  fresh_of_sok hP hI c

/-! ### corollaries -/

theorem value_of_sok {P idOf s q m} (hP : Wf2 P idOf) (hI : Inv P idOf s)
    (hm : s.memos q = some m) (hs : SOK s m) : m.value = sem P s.inp q :=
  (tie_of_fresh hI (freshAt_all hP hI q) hm hs).1.symm

theorem slot_of_sok {P idOf s c} (hP : Wf2 P idOf) (hI : Inv P idOf s) (hc : memoSok s c) :
    (match (semRes P s.inp c).ts with
     | none => s.slots c = none ∧ s.smemos c = none
     | some (k, v) => k = idOf c ∧ ∃ sl, s.slots c = some sl ∧ sl.k = k ∧ sl.v = v) := by
  cases hts : (semRes P s.inp c).ts with
  | none => exact tie_none hI (freshAt_all hP hI c) hc hts
  | some kv =>
    obtain ⟨k, v⟩ := kv
    obtain ⟨mc, hm, hs⟩ := hc
    obtain ⟨hk, sl, h1, h2, h3, _, _⟩ := tie_some hI (freshAt_all hP hI c) hm hs hts
    exact ⟨hk, sl, h1, h2, h3⟩

theorem field_sem {P idOf s c sl} (hP : Wf2 P idOf) (hI : Inv P idOf s) (hc : memoSok s c)
    (hsl : s.slots c = some sl) : (semRes P s.inp c).ts = some (idOf c, sl.v) ∧ sl.k = idOf c :=
  field_fresh hI (freshAt_all hP hI c) hc hsl

theorem field_sem_val {P idOf s c sl} (hP : Wf2 P idOf) (hI : Inv P idOf s) (hc : memoSok s c)
    (hsl : s.slots c = some sl) : fieldVal (semRes P s.inp c) = ⟨sl.v, none⟩ :=
  field_fresh_val hI (freshAt_all hP hI c) hc hsl

theorem ident_sem {P idOf s c sl} (hP : Wf2 P idOf) (hI : Inv P idOf s) (hc : memoSok s c)
    (hsl : s.slots c = some sl) : semIdent P s.inp c = sl.k := by
  obtain ⟨h1, h2⟩ := field_sem hP hI hc hsl
  simp only [semIdent, identVal, h1, h2]

theorem spec_sem {P idOf s c sm} (hP : Wf2 P idOf) (hI : Inv P idOf s) (hc : memoSok s c)
    (hsm : s.smemos c = some sm) (hss : SOK s sm) : sm.value = semSpec P s.inp c :=
  spec_fresh hP hI (freshAt_all hP hI c) hc hsm hss

theorem spec_assigned_of_sem {P idOf s c w} (hP : Wf2 P idOf) (hI : Inv P idOf s) (hc : memoSok s c)
    (hsp : (semRes P s.inp c).sp = some w) :
    ∃ A, s.smemos c = some A ∧ A.origin = some c ∧ A.value = ⟨w, none⟩ ∧ SOK s A :=
  spec_assigned_fresh hI (freshAt_all hP hI c) hc hsp

theorem spec_derived_of_sem {P idOf s c sm} (hP : Wf2 P idOf) (hI : Inv P idOf s) (hc : memoSok s c)
    (hsp : (semRes P s.inp c).sp = none) (hsm : s.smemos c = some sm) (hss : SOK s sm) :
    sm.origin = none :=
  spec_derived_fresh hI (freshAt_all hP hI c) hc hsp hsm hss

/-! ### the handle of a valid memo's value -/

/-- the creator a valid memo's handle points to has a valid memo (along `NodeOk.hsrc`) -/
theorem handle_memoSok {P idOf s} (hI : Inv P idOf s) :
    ∀ q m c, s.memos q = some m → SOK s m → m.value.h = some c → memoSok s c := by
  intro q
  induction q using Nat.strongRecOn with
  | _ q ih =>
    intro m c hm hs hh
    have ok := hI.node q m hm
    cases ok.hsrc c hh with
    | inl h => rw [h.1]; exact ⟨m, hm, hs⟩
    | inr h =>
      obtain ⟨o, q', ho, hout, hd, hv⟩ := h
      have hsd := ok.ksok hs o ho hout
      have hrk := ok.rank o ho hout
      obtain ⟨x, hx, hxv⟩ := obs_cur ok.obs hs o ho hout
      rw [hd] at hx hsd hrk
      obtain ⟨m', hm', hs'⟩ := hsd
      simp only [depInfo, hm', Option.map_some, Option.some.injEq] at hx
      have hv' : m'.value.h = some c := by
        have : m'.value = o.val := by rw [← hxv, ← hx]
        rw [this]; exact hv
      exact ih q' hrk m' c hm' hs' hv'

theorem handle_ok {P idOf s} (hP : Wf2 P idOf) (hI : Inv P idOf s) {q m c} (hm : s.memos q = some m)
    (hs : SOK s m) (hh : m.value.h = some c) : c ≤ q ∧ memoSok s c ∧ ∃ sl, s.slots c = some sl := by
  have hv := value_of_sok hP hI hm hs
  rw [hv] at hh
  obtain ⟨hle, v, hts⟩ := sem_handle2 hP s.inp q c hh
  rw [← hv] at hh
  have hc := handle_memoSok hI q m c hm hs hh
  refine ⟨hle, hc, ?_⟩
  obtain ⟨mc, hmc, hsc⟩ := hc
  obtain ⟨_, sl, hsl, _⟩ := tie_some hI (freshAt_all hP hI c) hmc hsc hts
  exact ⟨sl, hsl⟩

end SalsaVerif.Proofs.CoreSpec
