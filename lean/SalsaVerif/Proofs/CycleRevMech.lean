/-
  The two mechanisms behind the recorded findings, as lemmas about single functions of
  `Model/CycleRev.lean` (for all states).  Core Lean only.
-/
import SalsaVerif.Model.CycleRev

namespace SalsaVerif.Proofs.CycleRev
open SalsaVerif.Model
open SalsaVerif.Model.CycleRev

/-- kf2, the lag: flattening an edge to a recovering query whose memo is still provisional (it is
    on the stack, or completed earlier in this iteration) copies the edges STORED in that memo —
    those of its previous completion — whatever it has read since. -/
theorem flatten_provisional_recovering (P : Prog) (s : St) (q : Nat) (m : Memo)
    (hm : memoOf s q = some m) (hf : m.final = false) (hs : P.strat q ≠ .panic) :
    flattenCycleDependencies P s [.qry q] = m.edges.foldl edgeInsert [] := by
  unfold flattenCycleDependencies
  simp only [List.foldl]
  unfold flattenQ
  simp only [hm, hf]
  cases h : P.strat q with
  | panic => exact absurd h hs
  | fixpoint b => simp
  | fallback v => simp

/-- … in particular nothing at all while that memo is the fixpoint-initial one. -/
theorem flatten_initial (P : Prog) (s : St) (q : Nat) (m : Memo)
    (hm : memoOf s q = some m) (hf : m.final = false) (hs : P.strat q ≠ .panic)
    (he : m.edges = []) : flattenCycleDependencies P s [.qry q] = [] := by
  rw [flatten_provisional_recovering P s q m hm hf hs, he]; rfl

theorem validateProvisional_false (s : St) (c : Nat) (m : Memo) (h : Head)
    (hprov : m.final = false) (hh : h ∈ live m.heads) (it va : Nat)
    (hst : provisionalStatus s h.key = some (.final it va)) (hne : va ≠ m.va) :
    validateProvisional s c m = (false, s) := by
  unfold validateProvisional
  simp only
  split
  · rename_i hall
    rw [List.all_eq_true] at hall
    have := hall h (by unfold Memo.cycleHeads; rw [hprov]; exact hh)
    rw [hst] at this
    simp [hne] at this
  · rfl

/-- kf1, lazy finalisation: a provisional participant memo from an earlier revision whose head
    is final but was verified in ANOTHER revision than the memo (e.g. the head was re-validated
    by a request after a write) does not verify: the participant is re-executed, now outside
    its cycle. -/
theorem verifyMemo_stale_participant (P : Prog) (sub : Eng) (s : St) (c : Nat) (m : Memo) (h : Head)
    (hprov : m.final = false) (hh : h ∈ live m.heads) (hva : m.va ≠ s.cur) (it va : Nat)
    (hst : provisionalStatus s h.key = some (.final it va)) (hne : va ≠ m.va) :
    verifyMemo P sub c m s = .ok (false, s) := by
  have hne' : m.heads.isEmpty = false := by
    cases hm : m.heads with
    | nil => rw [hm] at hh; cases hh
    | cons a r => rfl
  have hdeep : deepVerifyMemo P sub c m s = .ok (false, s) := by
    unfold deepVerifyMemo; simp [hprov]
  have hval : validateMayBeProvisional s c m = .ok (false, s) := by
    unfold validateMayBeProvisional
    simp only [hprov, hne', Bool.false_eq_true, if_false]
    rw [validateProvisional_false s c m h hprov hh it va hst hne]
    simp only [Bool.false_eq_true, if_false]
    unfold validateSameIteration
    simp [hva]
  unfold verifyMemo
  simp only
  split
  · rw [hval]; simp only [Bool.false_eq_true, if_false]; exact hdeep
  · exact hdeep

end SalsaVerif.Proofs.CycleRev
