/-
  CoreSpec, histories with writes: requests of the specifiable function, part 2.
  Installing a memo of `spec(struct of c)` verified now: `inv_setSMemo` re-establishes `Inv` from
  (i) `SpecOk` of the new memo, (ii) "the info is unchanged when the old memo passed the shallow
  test", (iii) the level-generic observer transfer `SetHyp.tr`, (iv) the creator's own tie.
  Core Lean only.
-/
import SalsaVerif.Proofs.CoreSpecRevFSpec1

namespace SalsaVerif.Proofs.CoreSpec
open SalsaVerif.Model.CoreSpec

theorem depInfo_set_spec (s : State) (c : Nat) (M : Memo) :
    depInfo (setSMemo s c (some M)) (.spec c) = some ⟨M.value, M.ca, M.dur⟩ := by
  simp [depInfo]

theorem depInfo_set_other (s : State) (c : Nat) (M : Memo) {d : Dep} (h : d ≠ .spec c) :
    depInfo (setSMemo s c (some M)) d = depInfo s d := by
  cases d with
  | spec c' =>
    have : c' ≠ c := fun e => h (by rw [e])
    simp only [depInfo, setSMemo_other _ _ _ this]
  | inp i => rfl
  | qry q => rfl
  | field c' => rfl

/-- what the installation of `M` as the memo of `spec(struct of c)` must satisfy -/
structure SetHyp (s : State) (c : Nat) (M : Memo) : Prop where
  va : M.va = s.cur
  keep : ∀ old, s.smemos c = some old → SOK s old → M.value = old.value ∧ M.ca = old.ca ∧ M.dur = old.dur
  tr : ∀ mp, ObsOk s mp → ∀ o, o ∈ mp.obs → o.out = false → o.dep = .spec c → ∀ L, mp.dur ≤ L →
      ObsAt s mp.va L o → (M.value = o.val ∧ L ≤ M.dur) ∨ Wit s L mp.va M.ca
  /-- the stamp does not go down -/
  ca_old : ∀ old, s.smemos c = some old → old.ca ≤ M.ca
  ca_none : s.smemos c = none → ∀ sl, s.slots c = some sl → sl.fca ≤ M.ca

theorem obsAt_set {s : State} {c : Nat} {M : Memo} {va L : Nat} {o : Obs} (a : ObsAt s va L o)
    (hiv : o.dep = .spec c → (M.value = o.val ∧ L ≤ M.dur) ∨ Wit s L va M.ca) :
    ObsAt (setSMemo s c (some M)) va L o := by
  refine ⟨?_, ?_, ?_⟩
  · intro x hx
    by_cases hd : o.dep = .spec c
    · rw [hd, depInfo_set_spec] at hx
      cases hx
      exact hiv hd
    · rw [depInfo_set_other _ _ _ hd] at hx
      exact a.iv x hx
  · intro c' mc hd hs hm
    exact a.dead c' mc hd hs hm
  · intro c' sl hd hs hm
    have hne : c' ≠ c := by
      intro e; subst e; rw [setSMemo_same] at hm; cases hm
    rw [setSMemo_other _ _ _ hne] at hm
    exact a.deadsm c' sl hd hs hm

/-- an observer memo (not the memo being replaced) keeps its clauses -/
theorem obsOk_set {s c M mp} (H : SetHyp s c M) (ok : ObsOk s mp)
    (hso : SOK s mp → ∀ o, o ∈ mp.obs → o.out = false → o.dep = .spec c →
      ∃ old, s.smemos c = some old ∧ SOK s old) :
    ObsOk (setSMemo s c (some M)) mp := by
  refine ⟨ok.ca_va, ok.va_cur, ok.va1, ok.deep_va, ok.deep1, ok.dur3, ?_, ?_, ok.i4, ok.i5q, ?_, ok.ordw, ?_,
    ok.g4⟩
  · intro o ho hout
    exact obsAt_set (ok.iv o ho hout) (fun hd => H.tr mp ok o ho hout hd mp.dur (Nat.le_refl _) (ok.iv o ho hout))
  · intro hs o ho hout
    have hs' : SOK s mp := hs
    obtain ⟨x0, h0, hc0⟩ := ok.kaca hs' o ho hout
    by_cases hd : o.dep = .spec c
    · obtain ⟨old, hold, hsold⟩ := hso hs' o ho hout hd
      obtain ⟨_, k2, _⟩ := H.keep old hold hsold
      rw [hd] at h0 ⊢
      simp only [depInfo, hold, Option.map_some, Option.some.injEq] at h0
      subst h0
      exact ⟨_, depInfo_set_spec s c M, by simp only; rw [k2]; exact hc0⟩
    · exact ⟨x0, by rw [depInfo_set_other _ _ _ hd]; exact h0, hc0⟩
  · intro o c' sm ho hout hd hr hsm
    by_cases hc : c' = c
    · subst hc
      rw [setSMemo_same] at hsm
      cases hsm
      rw [H.va]
      exact Nat.le_trans ok.deep_va ok.va_cur
    · rw [setSMemo_other _ _ _ hc] at hsm
      exact ok.i5s o c' sm ho hout hd hr hsm
  · intro o ho hout hr
    exact obsAt_set (ok.i6 o ho hout hr) (fun hd => H.tr mp ok o ho hout hd 3 ok.dur3 (ok.i6 o ho hout hr))

theorem preAt_set {P idOf s c M q m R} (H : SetHyp s c M) (ok : NodeOk P idOf s q m)
    (hR : replayR q idOf (P.node q) m.obs none none = some R) {L : Nat} (hL : m.dur ≤ L)
    (a : PreAt s m.va L (preOf idOf (P.node q) m.obs)) :
    PreAt (setSMemo s c (some M)) m.va L (preOf idOf (P.node q) m.obs) := by
  intro o ho
  have hm := preOf_sublist idOf _ _ o ho
  have hout := preOf_nonout q idOf _ _ none none R hR o ho
  refine ⟨obsAt_set (a o ho).1 (fun hd => H.tr m ok.obs o hm hout hd L hL (a o ho).1), ?_⟩
  exact ⟨(a o ho).2.odur, (a o ho).2.hexp⟩

theorem spTie_set_other {P idOf s c M q m R sl} (H : SetHyp s c M) (ok : NodeOk P idOf s q m)
    (hR : replayR q idOf (P.node q) m.obs none none = some R) (hq : q ≠ c) :
    ∀ sp, SpTie s q m sl (preOf idOf (P.node q) m.obs) sp →
      SpTie (setSMemo s c (some M)) q m sl (preOf idOf (P.node q) m.obs) sp := by
  intro sp a
  cases sp with
  | some w =>
    obtain ⟨A, hA, h1, h2, h3, h4, h5, h6, h7⟩ := a
    exact ⟨A, by rw [setSMemo_other _ _ _ hq]; exact hA, h1, h2, h3, h4, h5, preAt_set H ok hR h4 h6, h7⟩
  | none =>
    obtain ⟨h1, h2⟩ := a
    refine ⟨?_, preAt_set H ok hR (Nat.le_max_right _ _) h2⟩
    intro A hA ho
    rw [setSMemo_other _ _ _ hq] at hA
    exact h1 A hA ho

theorem sokDep_set {s c M d} (hva : M.va = s.cur) (a : sokDep s d) : sokDep (setSMemo s c (some M)) d := by
  cases d with
  | inp i => trivial
  | qry q => exact a
  | field c' => exact a
  | spec c' =>
    obtain ⟨a1, sm, a2, a3⟩ := a
    refine ⟨a1, ?_⟩
    by_cases hc : c' = c
    · subst hc
      exact ⟨M, setSMemo_same _ _ _, Or.inl hva⟩
    · exact ⟨sm, by rw [setSMemo_other _ _ _ hc]; exact a2, a3⟩

theorem nodeOk_set {P idOf s c M q m} (hI : Inv P idOf s) (H : SetHyp s c M)
    (hsl : ∃ sl, s.slots c = some sl)
    (htie : ∀ mc R sl, s.memos c = some mc → replayR c idOf (P.node c) mc.obs none none = some R →
      SpTie s c mc sl (preOf idOf (P.node c) mc.obs) R.sp → AOrd s c mc R →
      (∀ L, mc.dur ≤ L → PreAt s mc.va L (preOf idOf (P.node c) mc.obs) →
        PreAt (setSMemo s c (some M)) mc.va L (preOf idOf (P.node c) mc.obs)) →
      SpTie (setSMemo s c (some M)) c mc sl (preOf idOf (P.node c) mc.obs) R.sp ∧
      AOrd (setSMemo s c (some M)) c mc R)
    (hm : s.memos q = some m) : NodeOk P idOf (setSMemo s c (some M)) q m := by
  have ok := hI.node q m hm
  refine ⟨?_, ok.origin, ?_, ok.rank, ?_, ok.hmemo, ok.hd, ?_, ok.hsrc, ok.outedge, ok.never, ?_, ok.shape⟩
  rotate_right
  · rcases ok.m4 with a | ⟨o, ho, hout, a⟩
    · exact Or.inl a
    · refine Or.inr ⟨o, ho, hout, ?_⟩
      intro x hx
      by_cases hd : o.dep = .spec c
      · rw [hd, depInfo_set_spec] at hx
        cases hx
        show m.ca ≤ M.ca
        cases hold : s.smemos c with
        | some old =>
          have := a ⟨old.value, old.ca, old.dur⟩ (by rw [hd]; simp [depInfo, hold])
          exact Nat.le_trans this (H.ca_old old hold)
        | none =>
          obtain ⟨sl, hsl'⟩ := hsl
          have hw := (ok.obs.iv o ho hout).deadsm c sl hd hsl' hold
          have := H.ca_none hold sl hsl'
          have := hw.lt
          have := ok.obs.ca_va
          omega
      · rw [depInfo_set_other _ _ _ hd] at hx
        exact a x hx
  · apply obsOk_set H ok.obs
    intro hs o ho hout hd
    have := ok.ksok hs o ho hout
    rw [hd] at this
    exact this.2
  · intro hs o ho hout
    exact sokDep_set H.va (ok.ksok hs o ho hout)
  · intro o ho hout
    exact ⟨(ok.sobs o ho hout).odur, (ok.sobs o ho hout).hexp⟩
  · obtain ⟨R, h1, h2, h3, h4, h5⟩ := ok.rep
    refine ⟨R, h1, h2, h3, h4, ?_⟩
    intro hnb
    obtain ⟨a, ao⟩ := h5 hnb
    have aoOther : q ≠ c → AOrd (setSMemo s c (some M)) q m R := by
      intro hq w0 hw0 A hA
      rw [setSMemo_other _ _ _ hq] at hA
      exact ao w0 hw0 A hA
    unfold TieOk at a ⊢
    cases hts : R.ts with
    | none =>
      rw [hts] at a
      simp only at a ⊢
      have hq : q ≠ c := by
        intro e; subst e
        obtain ⟨sl, hsl⟩ := hsl
        rw [a.1] at hsl; cases hsl
      refine ⟨⟨a.1, ?_⟩, aoOther hq⟩
      rw [setSMemo_other _ _ _ hq]; exact a.2
    | some kv =>
      obtain ⟨k, v⟩ := kv
      rw [hts] at a
      simp only at a ⊢
      obtain ⟨sl, b1, b2, b3, b4, b5⟩ := a
      by_cases hq : q = c
      · subst hq
        obtain ⟨t1, t2⟩ := htie m R sl hm h1 b5 ao (fun L hL a => preAt_set H ok h1 hL a)
        exact ⟨⟨sl, b1, b2, b3, b4, t1⟩, t2⟩
      · exact ⟨⟨sl, b1, b2, b3, b4, spTie_set_other H ok h1 hq _ b5⟩, aoOther hq⟩

theorem specOk_set_other {P idOf s c M c' sm} (hI : Inv P idOf s) (H : SetHyp s c M)
    (hsm : s.smemos c' = some sm) : SpecOk P idOf (setSMemo s c (some M)) c' sm := by
  have ok := hI.smemo c' sm hsm
  refine ⟨?_, ok.assigned, ok.noh, ok.hgen, ok.dshape⟩
  intro ho
  obtain ⟨h1, h2⟩ := ok.derived ho
  refine ⟨?_, h2⟩
  apply obsOk_set H h1
  intro hs o hm hout hd
  rcases (ok.dshape ho o hm).2 with e | ⟨i, e⟩
  · rw [e] at hd; cases hd
  · rw [e] at hd; cases hd

/-- MAIN of this part: installing a memo of `spec(struct of c)` verified now -/
theorem inv_setSMemo {P idOf s c M} (hI : Inv P idOf s) (hc : memoSok s c)
    (hsl : ∃ sl, s.slots c = some sl) (H : SetHyp s c M)
    (hM : SpecOk P idOf (setSMemo s c (some M)) c M)
    (htie : ∀ mc R sl, s.memos c = some mc → replayR c idOf (P.node c) mc.obs none none = some R →
      SpTie s c mc sl (preOf idOf (P.node c) mc.obs) R.sp → AOrd s c mc R →
      (∀ L, mc.dur ≤ L → PreAt s mc.va L (preOf idOf (P.node c) mc.obs) →
        PreAt (setSMemo s c (some M)) mc.va L (preOf idOf (P.node c) mc.obs)) →
      SpTie (setSMemo s c (some M)) c mc sl (preOf idOf (P.node c) mc.obs) R.sp ∧
      AOrd (setSMemo s c (some M)) c mc R) :
    Inv P idOf (setSMemo s c (some M)) := by
  refine ⟨hI.pn, hI.cur1, hI.lc_le, hI.lc_ge1, hI.lc_anti, hI.lc_never, hI.inp_le, hI.inp_ge1, hI.wlog_lc,
    hI.wlog3, hI.bumps, ?_, ?_, ?_, ?_, hI.slot, ?_⟩
  · intro q m hm
    exact nodeOk_set hI H hsl htie hm
  · intro q hq hnb
    obtain ⟨a, b⟩ := hI.nonode q hq hnb
    refine ⟨a, ?_⟩
    have hq' : s.memos q = none := hq
    have hne : q ≠ c := by
      intro e; subst e
      obtain ⟨mc, hmc, _⟩ := hc
      rw [hmc] at hq'; cases hq'
    rw [setSMemo_other _ _ _ hne]; exact b
  · intro c' sm hsm
    by_cases hcc : c' = c
    · subst hcc
      rw [setSMemo_same] at hsm; cases hsm
      exact hM
    · rw [setSMemo_other _ _ _ hcc] at hsm
      exact specOk_set_other hI H hsm
  · intro c' sm hsm
    by_cases hcc : c' = c
    · subst hcc; exact hsl
    · rw [setSMemo_other _ _ _ hcc] at hsm
      exact hI.smslot c' sm hsm
  · intro c' sm hsm hv
    by_cases hcc : c' = c
    · subst hcc; exact Or.inl hc
    · rw [setSMemo_other _ _ _ hcc] at hsm
      exact hI.hotsm c' sm hsm hv

end SalsaVerif.Proofs.CoreSpec
