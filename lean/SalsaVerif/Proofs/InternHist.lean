/-
  Helper lemmas for Props/C07–C09: what happens to one slot along a history
  (`kept_step`, `Protected`, `neverStale`).  Core Lean only.
-/
import SalsaVerif.Model.Intern
import SalsaVerif.Proofs.InternSys

namespace SalsaVerif.Proofs.Intern
open SalsaVerif.Model.Intern

/-! ### shape of the steps -/

theorem stepSys_intern {s s' : Sys} {d : Nat} {inq : Bool} {x : Nat} {r : Ret} (inv : Inv s)
    (h : stepSys s (.intern d inq x) = some (s', r)) :
    ∃ q' sh' o, r = .interned o ∧
      recordIfMortal s.it.revisions s.it.queue s.cur = some q' ∧
      s' = { s with it := { s.it with queue := q', shard := sh',
                                      nextId := if o.kind = .new then s.it.nextId + 1
                                                else s.it.nextId } } ∧
      ShardStep s.it.revisions q' s.cur d inq x s.it.nextId s.it.shard sh' o ∧
      (∀ r ∈ q'.revisions, r ≤ s.cur) := by
  obtain ⟨q', sh', o, hq, hi, hs, _, hle⟩ := intern_step inv d inq x
  simp only [stepSys, hi, Option.some.injEq, Prod.mk.injEq] at h
  exact ⟨q', sh', o, h.2.symm, hq, h.1.symm, hs, hle⟩

theorem intern_total {s : Sys} (inv : Inv s) (d : Nat) (inq : Bool) (x : Nat) :
    ∃ s' o, stepSys s (.intern d inq x) = some (s', .interned o) := by
  obtain ⟨q', sh', o, _, hi, _⟩ := intern_step inv d inq x
  exact ⟨_, o, by simp only [stepSys, hi]; rfl⟩

/-- The slot `i` of `s` is not stale for the reuse scan of an `intern` executed now. -/
def NotStale (s : Sys) (v : Slot) : Prop :=
  ∀ q', recordIfMortal s.it.revisions s.it.queue s.cur = some q' →
    q'.isStale v.lastInternedAt = false

theorem notStale_of_touched {s : Sys} (inv : Inv s) {v : Slot} (h : s.cur ≤ v.lastInternedAt) :
    NotStale s v := by
  intro q' hq
  obtain ⟨q'', hq', _, hmem⟩ := recordIfMortal_some inv.qne s.cur
  rw [hq] at hq'
  injection hq' with hq'
  subst hq'
  cases hst : q'.isStale v.lastInternedAt with
  | false => rfl
  | true =>
    have := (stale_lt hst (c := s.cur) (by
      intro r hr
      rcases hmem r hr with h' | h'
      · exact inv.qle r h'
      · omega)).1
    omega

/-- A slot that is not stale now, or not reusable at all, survives any step with its value and
    generation. -/
theorem kept_step {s s' : Sys} {op : Op} {r : Ret} (inv : Inv s) {i : Nat} {v : Slot}
    (hv : s.it.shard.slot? i = some v)
    (H : NotStale s v ∨ isReusable s.it.revisions v.durability = false)
    (h : stepSys s op = some (s', r)) :
    s'.it.revisions = s.it.revisions ∧ (op ≠ .newRev → s'.cur = s.cur) ∧
    ∃ v', s'.it.shard.slot? i = some v' ∧ v'.fields = v.fields ∧ v'.generation = v.generation ∧
      (isReusable s.it.revisions v.durability = false →
        isReusable s.it.revisions v'.durability = false) ∧
      (op ≠ .newRev → v'.lastInternedAt = v.lastInternedAt ∨ s.cur ≤ v'.lastInternedAt) := by
  cases op with
  | newRev =>
    simp only [stepSys, Option.some.injEq, Prod.mk.injEq] at h
    obtain ⟨rfl, _⟩ := h
    exact ⟨rfl, fun h => absurd rfl h, v, hv, rfl, rfl, id, fun h => absurd rfl h⟩
  | intern d inq x =>
    obtain ⟨q', sh', o, _, hq, rfl, hs, hle⟩ := stepSys_intern inv h
    refine ⟨rfl, fun _ => rfl, ?_⟩
    by_cases hio : i = o.id
    · subst hio
      rcases hs.cases with ⟨_, w, hw, _, _, hw'⟩ | ⟨_, hid, _, _, _⟩ | ⟨_, w, hw, hmem, _, hst, _⟩
      · rw [hv] at hw; injection hw with hw; subst hw
        refine ⟨_, hw', rfl, rfl, ?_, fun _ => Or.inr ?_⟩
        · intro hnr
          simp only
          cases inq
          · simpa using hnr
          · simp only [if_true]
            cases hr : isReusable s.it.revisions (max v.durability d) with
            | false => rfl
            | true =>
              have h1 := (isReusable_iff _ _).mp hr
              have : isReusable s.it.revisions v.durability = true :=
                (isReusable_iff _ _).mpr ⟨h1.1, by omega⟩
              rw [hnr] at this; cases this
        · simp only
          split <;> omega
      · have := inv.fresh _ v hv
        omega
      · rw [hv] at hw; injection hw with hw; subst hw
        obtain ⟨u, hu, hru⟩ := inv.shard.lru_reusable _ hmem
        rw [hv] at hu; injection hu with hu; subst hu
        rcases H with H | H
        · rw [H q' hq] at hst; cases hst
        · rw [H] at hru; cases hru
    · exact ⟨v, by rw [← hv]; exact hs.frame i hio, rfl, rfl, id, fun _ => Or.inl rfl⟩
  | mca id g =>
    simp only [stepSys] at h
    cases hi : s.it.maybeChangedAfter id g s.cur with
    | none => rw [hi] at h; cases h
    | some p =>
      rw [hi] at h
      simp only [Option.some.injEq, Prod.mk.injEq] at h
      obtain ⟨rfl, _⟩ := h
      obtain ⟨q', w, _, hw, _, hit, _, _⟩ := mca_step inv id g p.1 p.2 hi
      have hid := slot?_id hw
      subst hid
      by_cases hg : w.generation > g
      · rw [if_pos hg] at hit
        rw [hit]
        exact ⟨rfl, fun _ => rfl, v, hv, rfl, rfl, id, fun _ => Or.inl rfl⟩
      · rw [if_neg hg] at hit
        rw [hit]
        refine ⟨rfl, fun _ => rfl, ?_⟩
        show ∃ v', (s.it.shard.setSlot { w with lastInternedAt := s.cur }).slot? i = some v' ∧ _
        rw [slot?_touch w { w with lastInternedAt := s.cur } hw rfl]
        by_cases hiw : i = w.id
        · subst hiw
          rw [hv] at hw; injection hw with hw; subst hw
          rw [if_pos rfl]
          exact ⟨_, rfl, rfl, rfl, id, fun _ => Or.inr (Nat.le_refl _)⟩
        · rw [if_neg hiw]
          exact ⟨v, hv, rfl, rfl, id, fun _ => Or.inl rfl⟩
  | addMemo id =>
    simp only [stepSys, Interner.addMemo] at h
    cases hw : s.it.shard.slot? id with
    | none => rw [hw] at h; cases h
    | some w =>
      rw [hw] at h
      simp only [Option.some.injEq, Prod.mk.injEq] at h
      obtain ⟨rfl, _⟩ := h
      have hid := slot?_id hw
      subst hid
      refine ⟨rfl, fun _ => rfl, ?_⟩
      show ∃ v', (s.it.shard.setSlot { w with memos := w.generation :: w.memos }).slot? i
        = some v' ∧ _
      rw [slot?_touch w { w with memos := w.generation :: w.memos } hw rfl]
      by_cases hiw : i = w.id
      · subst hiw
        rw [hv] at hw; injection hw with hw; subst hw
        rw [if_pos rfl]
        exact ⟨_, rfl, rfl, rfl, id, fun _ => Or.inl rfl⟩
      · rw [if_neg hiw]
        exact ⟨v, hv, rfl, rfl, id, fun _ => Or.inl rfl⟩

/-! ### protection within one revision -/

/-- Slot `i` holds value `x` at generation `g` and was touched in the current revision (or can
    never be reused). -/
def Protected (s : Sys) (i x g : Nat) : Prop :=
  ∃ v, s.it.shard.slot? i = some v ∧ v.fields = x ∧ v.generation = g ∧
    (s.cur ≤ v.lastInternedAt ∨ isReusable s.it.revisions v.durability = false)

theorem protected_of_intern {s s' : Sys} {d : Nat} {inq : Bool} {x : Nat} {o : Outcome}
    (inv : Inv s) (h : stepSys s (.intern d inq x) = some (s', .interned o)) :
    Protected s' o.id x o.generation := by
  obtain ⟨q', sh', o', ho, _, rfl, hs, _⟩ := stepSys_intern inv h
  injection ho with ho
  subst ho
  have hnew : s.cur ≤ newLastInternedAt s.cur inq ∨
      isReusable s.it.revisions (newDurability d inq) = false := by
    cases inq
    · right; simp [newDurability, isReusable, NEVER_CHANGE, LOW]
    · left; simp [newLastInternedAt]
  rcases hs.cases with ⟨_, w, _, hf, hg, hw'⟩ | ⟨_, hid, hg, _, hw'⟩ | ⟨_, w, _, _, _, _, _, hg, _, hw'⟩
  · refine ⟨_, hw', hf, hg.symm, Or.inl ?_⟩
    simp only
    split <;> omega
  · exact ⟨_, hid ▸ hw', rfl, hg.symm, hnew⟩
  · exact ⟨_, hw', rfl, hg.symm, hnew⟩

theorem protected_step {s s' : Sys} {op : Op} {r : Ret} {i x g : Nat} (inv : Inv s)
    (hp : Protected s i x g) (hop : op ≠ .newRev) (h : stepSys s op = some (s', r)) :
    Protected s' i x g := by
  obtain ⟨v, hv, hf, hg, hl⟩ := hp
  have H : NotStale s v ∨ isReusable s.it.revisions v.durability = false := by
    rcases hl with hl | hl
    · exact Or.inl (notStale_of_touched inv hl)
    · exact Or.inr hl
  obtain ⟨hrev, hcur, v', hv', hf', hg', hnr, hlast⟩ := kept_step inv hv H h
  refine ⟨v', hv', hf'.trans hf, hg'.trans hg, ?_⟩
  rw [hrev, hcur hop]
  rcases hl with hl | hl
  · rcases hlast hop with e | e
    · left; omega
    · exact Or.inl e
  · exact Or.inr (hnr hl)

theorem protected_run {s s' : Sys} {ops : List Op} {log : List Ev} {i x g : Nat} (inv : Inv s)
    (hp : Protected s i x g) (hops : ∀ op ∈ ops, op ≠ .newRev)
    (h : runSys s ops = some (s', log)) : Protected s' i x g := by
  induction ops generalizing s log with
  | nil =>
    simp only [runSys, Option.some.injEq, Prod.mk.injEq] at h
    exact h.1 ▸ hp
  | cons op ops ih =>
    simp only [runSys] at h
    cases hs : stepSys s op with
    | none => rw [hs] at h; cases h
    | some p =>
      rw [hs] at h
      simp only at h
      cases hr : runSys p.1 ops with
      | none => rw [hr] at h; cases h
      | some p' =>
        rw [hr] at h
        simp only [Option.some.injEq, Prod.mk.injEq] at h
        obtain ⟨rfl, _⟩ := h
        have hs' : stepSys s op = some (p.1, p.2) := by rw [hs]
        exact ih (inv_step inv hs')
          (protected_step inv hp (hops op List.mem_cons_self) hs')
          (fun o ho => hops o (List.mem_cons_of_mem _ ho)) hr

/-- Interning the value held by slot `i` is a hit on `i`. -/
theorem intern_hit_of_slot {s s' : Sys} {d : Nat} {inq : Bool} {x : Nat} {r : Ret} {i : Nat}
    {v : Slot} (inv : Inv s) (hv : s.it.shard.slot? i = some v) (hf : v.fields = x)
    (h : stepSys s (.intern d inq x) = some (s', r)) :
    r = .interned ⟨.hit, i, v.generation⟩ := by
  obtain ⟨q', sh', o, ho, _, _, hs, _⟩ := stepSys_intern inv h
  have hk : (x, i) ∈ s.it.shard.keyMap := (inv.shard.key_iff x i).mpr ⟨v, hv, hf⟩
  rcases hs.cases with ⟨hkind, w, hw, hwf, hg, _⟩ | ⟨_, _, _, hnone, _⟩ | ⟨_, _, _, _, _, _, _, _, hnone, _⟩
  · have : i = o.id := fields_injective inv.shard hv hw (hf.trans hwf.symm)
    subst this
    rw [hv] at hw; injection hw with hw; subst hw
    rw [ho]
    cases o
    simp only at hkind hg
    subst hkind; subst hg
    rfl
  · exact absurd hk (lookup_none_not_mem hnone i)
  · exact absurd hk (lookup_none_not_mem hnone i)

/-! ### never stale along a history -/

def notStaleNow (s : Sys) (i : Nat) : Bool :=
  match s.it.shard.slot? i, recordIfMortal s.it.revisions s.it.queue s.cur with
  | some v, some q' => !q'.isStale v.lastInternedAt
  | _, _ => true

/-- At every step of the history, slot `i` (if it exists) would not be considered stale by an
    `intern` executed at that point. -/
def neverStale (i : Nat) : Sys → List Op → Bool
  | _, [] => true
  | s, op :: ops =>
    notStaleNow s i &&
      (match stepSys s op with
       | none => true
       | some r => neverStale i r.1 ops)

theorem notStale_of_now {s : Sys} {i : Nat} {v : Slot} (hv : s.it.shard.slot? i = some v)
    (h : notStaleNow s i = true) : NotStale s v := by
  intro q' hq
  unfold notStaleNow at h
  rw [hv, hq] at h
  simpa using h

theorem kept_run {s s' : Sys} {ops : List Op} {log : List Ev} {i : Nat} {v : Slot}
    (inv : Inv s) (hv : s.it.shard.slot? i = some v) (hns : neverStale i s ops = true)
    (h : runSys s ops = some (s', log)) :
    (∃ v', s'.it.shard.slot? i = some v' ∧ v'.fields = v.fields ∧ v'.generation = v.generation) ∧
    (∀ e ∈ log, ∀ d inq, e.op = .intern d inq v.fields →
      e.ret = .interned ⟨.hit, i, v.generation⟩) := by
  induction ops generalizing s log v with
  | nil =>
    simp only [runSys, Option.some.injEq, Prod.mk.injEq] at h
    obtain ⟨rfl, rfl⟩ := h
    exact ⟨⟨v, hv, rfl, rfl⟩, by simp⟩
  | cons op ops ih =>
    simp only [runSys] at h
    cases hs : stepSys s op with
    | none => rw [hs] at h; cases h
    | some p =>
      rw [hs] at h
      simp only at h
      cases hr : runSys p.1 ops with
      | none => rw [hr] at h; cases h
      | some p' =>
        rw [hr] at h
        simp only [Option.some.injEq, Prod.mk.injEq] at h
        obtain ⟨rfl, rfl⟩ := h
        have hs' : stepSys s op = some (p.1, p.2) := by rw [hs]
        simp only [neverStale, hs, Bool.and_eq_true] at hns
        obtain ⟨_, _, v1, hv1, hf1, hg1, _, _⟩ :=
          kept_step inv hv (Or.inl (notStale_of_now hv hns.1)) hs'
        obtain ⟨⟨v2, hv2, hf2, hg2⟩, hlog⟩ := ih (inv_step inv hs') hv1 hns.2 hr
        refine ⟨⟨v2, hv2, hf2.trans hf1, hg2.trans hg1⟩, ?_⟩
        intro e he d inq hop
        rcases List.mem_cons.mp he with e1 | e1
        · subst e1
          simp only at hop
          subst hop
          exact intern_hit_of_slot inv hv rfl hs'
        · have := hlog e e1 d inq (by rw [hf1]; exact hop)
          rw [this, hg1]


/-! ### slots that can never be reused -/

theorem pinned_run {s s' : Sys} {ops : List Op} {log : List Ev} {i : Nat} {v : Slot}
    (inv : Inv s) (hv : s.it.shard.slot? i = some v)
    (hnr : isReusable s.it.revisions v.durability = false)
    (h : runSys s ops = some (s', log)) :
    (∃ v', s'.it.shard.slot? i = some v' ∧ v'.fields = v.fields ∧ v'.generation = v.generation ∧
      isReusable s'.it.revisions v'.durability = false) ∧
    (∀ e ∈ log, ∀ o, e.ret = .interned o → o.id = i → o.kind = .hit) := by
  induction ops generalizing s log v with
  | nil =>
    simp only [runSys, Option.some.injEq, Prod.mk.injEq] at h
    obtain ⟨rfl, rfl⟩ := h
    exact ⟨⟨v, hv, rfl, rfl, hnr⟩, by simp⟩
  | cons op ops ih =>
    simp only [runSys] at h
    cases hs : stepSys s op with
    | none => rw [hs] at h; cases h
    | some p =>
      rw [hs] at h
      simp only at h
      cases hr : runSys p.1 ops with
      | none => rw [hr] at h; cases h
      | some p' =>
        rw [hr] at h
        simp only [Option.some.injEq, Prod.mk.injEq] at h
        obtain ⟨rfl, rfl⟩ := h
        have hs' : stepSys s op = some (p.1, p.2) := by rw [hs]
        obtain ⟨hrev, _, v1, hv1, hf1, hg1, hnr1, _⟩ := kept_step inv hv (Or.inr hnr) hs'
        obtain ⟨⟨v2, hv2, hf2, hg2, hnr2⟩, hlog⟩ :=
          ih (inv_step inv hs') hv1 (by rw [hrev]; exact hnr1 hnr) hr
        refine ⟨⟨v2, hv2, hf2.trans hf1, hg2.trans hg1, hnr2⟩, ?_⟩
        intro e he o ho hid
        rcases List.mem_cons.mp he with e1 | e1
        · subst e1
          simp only at ho
          cases op with
          | intern d inq x =>
            obtain ⟨q', sh', o', ho', _, _, hst, _⟩ := stepSys_intern inv hs'
            rw [ho'] at ho
            injection ho with ho
            subst ho
            rcases hst.cases with ⟨hk, _⟩ | ⟨_, hfr, _⟩ | ⟨_, w, hw, hmem, _⟩
            · exact hk
            · have := inv.fresh _ v hv
              omega
            · obtain ⟨u, hu, hru⟩ := inv.shard.lru_reusable _ hmem
              rw [hid, hv] at hu
              injection hu with hu
              subst hu
              rw [hnr] at hru; cases hru
          | newRev => simp only [stepSys, Option.some.injEq, Prod.mk.injEq] at hs'; rw [← hs'.2] at ho; cases ho
          | mca id g =>
            simp only [stepSys] at hs'
            cases hm : s.it.maybeChangedAfter id g s.cur with
            | none => rw [hm] at hs'; cases hs'
            | some pm =>
              rw [hm] at hs'
              simp only [Option.some.injEq, Prod.mk.injEq] at hs'
              rw [← hs'.2] at ho; cases ho
          | addMemo id =>
            simp only [stepSys] at hs'
            cases hm : s.it.addMemo id with
            | none => rw [hm] at hs'; cases hs'
            | some pm =>
              rw [hm] at hs'
              simp only [Option.some.injEq, Prod.mk.injEq] at hs'
              rw [← hs'.2] at ho; cases ho
        · exact hlog e e1 o ho hid


/-! ### generations -/

/-- Any step either keeps generation and value of slot `i`, or it is the `intern` that reuses
    the slot: generation + 1, memos cleared, fields replaced by the (different) new value. -/
theorem gen_step {s s' : Sys} {op : Op} {r : Ret} (inv : Inv s) {i : Nat} {v : Slot}
    (hv : s.it.shard.slot? i = some v) (h : stepSys s op = some (s', r)) :
    ∃ v', s'.it.shard.slot? i = some v' ∧
      ((v'.generation = v.generation ∧ v'.fields = v.fields) ∨
       (v'.generation = v.generation + 1 ∧ v'.memos = [] ∧
        ∃ d inq x, op = .intern d inq x ∧ r = .interned ⟨.reuse, i, v.generation + 1⟩ ∧
          v'.fields = x ∧ x ≠ v.fields)) := by
  cases op with
  | newRev =>
    simp only [stepSys, Option.some.injEq, Prod.mk.injEq] at h
    obtain ⟨rfl, _⟩ := h
    exact ⟨v, hv, Or.inl ⟨rfl, rfl⟩⟩
  | intern d inq x =>
    obtain ⟨q', sh', o, hr, hq, rfl, hs, hle⟩ := stepSys_intern inv h
    by_cases hio : i = o.id
    · subst hio
      rcases hs.cases with ⟨_, w, hw, _, _, hw'⟩ | ⟨_, hid, _, _, _⟩ |
          ⟨hk, w, hw, _, _, _, _, hgen, hnone, hw'⟩
      · rw [hv] at hw; injection hw with hw; subst hw
        exact ⟨_, hw', Or.inl ⟨rfl, rfl⟩⟩
      · have := inv.fresh _ v hv
        omega
      · rw [hv] at hw; injection hw with hw; subst hw
        refine ⟨_, hw', Or.inr ⟨rfl, rfl, d, inq, x, rfl, ?_, rfl, ?_⟩⟩
        · rw [hr]
          cases o
          simp only at hk hgen
          subst hk; subst hgen
          rfl
        · intro hf
          exact lookup_none_not_mem hnone o.id ((inv.shard.key_iff x o.id).mpr ⟨v, hv, hf.symm⟩)
    · exact ⟨v, by rw [← hv]; exact hs.frame i hio, Or.inl ⟨rfl, rfl⟩⟩
  | mca id g =>
    simp only [stepSys] at h
    cases hi : s.it.maybeChangedAfter id g s.cur with
    | none => rw [hi] at h; cases h
    | some p =>
      rw [hi] at h
      simp only [Option.some.injEq, Prod.mk.injEq] at h
      obtain ⟨rfl, _⟩ := h
      obtain ⟨q', w, _, hw, _, hit, _, _⟩ := mca_step inv id g p.1 p.2 hi
      have hid := slot?_id hw
      subst hid
      by_cases hg : w.generation > g
      · rw [if_pos hg] at hit
        rw [hit]
        exact ⟨v, hv, Or.inl ⟨rfl, rfl⟩⟩
      · rw [if_neg hg] at hit
        rw [hit]
        show ∃ v', (s.it.shard.setSlot { w with lastInternedAt := s.cur }).slot? i = some v' ∧ _
        rw [slot?_touch w { w with lastInternedAt := s.cur } hw rfl]
        by_cases hiw : i = w.id
        · subst hiw
          rw [hv] at hw; injection hw with hw; subst hw
          rw [if_pos rfl]
          exact ⟨_, rfl, Or.inl ⟨rfl, rfl⟩⟩
        · rw [if_neg hiw]
          exact ⟨v, hv, Or.inl ⟨rfl, rfl⟩⟩
  | addMemo id =>
    simp only [stepSys, Interner.addMemo] at h
    cases hw : s.it.shard.slot? id with
    | none => rw [hw] at h; cases h
    | some w =>
      rw [hw] at h
      simp only [Option.some.injEq, Prod.mk.injEq] at h
      obtain ⟨rfl, _⟩ := h
      have hid := slot?_id hw
      subst hid
      show ∃ v', (s.it.shard.setSlot { w with memos := w.generation :: w.memos }).slot? i
        = some v' ∧ _
      rw [slot?_touch w { w with memos := w.generation :: w.memos } hw rfl]
      by_cases hiw : i = w.id
      · subst hiw
        rw [hv] at hw; injection hw with hw; subst hw
        rw [if_pos rfl]
        exact ⟨_, rfl, Or.inl ⟨rfl, rfl⟩⟩
      · rw [if_neg hiw]
        exact ⟨v, hv, Or.inl ⟨rfl, rfl⟩⟩

/-- Along a history a slot's generation never decreases, and an unchanged generation means an
    unchanged value. -/
theorem gen_run {s s' : Sys} {ops : List Op} {log : List Ev} {i : Nat} {v : Slot}
    (inv : Inv s) (hv : s.it.shard.slot? i = some v) (h : runSys s ops = some (s', log)) :
    ∃ v', s'.it.shard.slot? i = some v' ∧ v.generation ≤ v'.generation ∧
      (v'.generation = v.generation → v'.fields = v.fields) := by
  induction ops generalizing s log v with
  | nil =>
    simp only [runSys, Option.some.injEq, Prod.mk.injEq] at h
    obtain ⟨rfl, rfl⟩ := h
    exact ⟨v, hv, Nat.le_refl _, fun _ => rfl⟩
  | cons op ops ih =>
    simp only [runSys] at h
    cases hs : stepSys s op with
    | none => rw [hs] at h; cases h
    | some p =>
      rw [hs] at h
      simp only at h
      cases hr : runSys p.1 ops with
      | none => rw [hr] at h; cases h
      | some p' =>
        rw [hr] at h
        simp only [Option.some.injEq, Prod.mk.injEq] at h
        obtain ⟨rfl, rfl⟩ := h
        have hs' : stepSys s op = some (p.1, p.2) := by rw [hs]
        obtain ⟨v1, hv1, hcase⟩ := gen_step inv hv hs'
        obtain ⟨v2, hv2, hle, heq⟩ := ih (inv_step inv hs') hv1 hr
        refine ⟨v2, hv2, ?_, ?_⟩
        · rcases hcase with ⟨hg, _⟩ | ⟨hg, _⟩ <;> omega
        · intro hg2
          rcases hcase with ⟨hg, hf⟩ | ⟨hg, _⟩
          · rw [heq (by omega), hf]
          · omega

/-! ### reachability -/

/-- `s` is the state after some history from the initial state with `REVISIONS = rev`. -/
def Reachable (rev : Option Nat) (s : Sys) : Prop :=
  ∃ ops log, runSys (Sys.init rev) ops = some (s, log)

theorem inv_of_reachable {rev : Option Nat} {s : Sys} (hrev : rev ≠ some 0)
    (h : Reachable rev s) : Inv s := by
  obtain ⟨ops, log, h⟩ := h
  exact inv_run (inv_init rev hrev) h

end SalsaVerif.Proofs.Intern
