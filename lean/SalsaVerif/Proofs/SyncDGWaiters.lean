/-
  W6 with transfers, state part: in every state reached by a run whose transfers satisfy the client
  precondition (`runC`),
    * a key with dependents has a sync entry whose `anyone_waiting` flag is set
      (so a key without sync entry has no dependents), and
    * a key in the `Transferred` state whose `transferred` entry is gone (released by its owner — the
      "stale Transferred" state) has no dependents.
  Uses the hand-back wake-up of `release_self` (salsa 451fce7; since e06010e only when the releasing
  thread does not own the transfer target — otherwise the key keeps its flag and its `transferred` entry).
-/
import SalsaVerif.Proofs.SyncDGKeys

namespace SalsaVerif.Proofs.SyncDG
open SalsaVerif.Model.SyncDG

structure QInv (s : State) : Prop where
  aw : ∀ k, s.qdeps k ≠ [] → ∃ st, s.sync k = some st ∧ st.anyoneWaiting = true
  stale : ∀ k st, s.sync k = some st → st.owner = .transferred → s.transferred k = none →
    s.qdeps k = []

theorem QInv_init : QInv init := by
  constructor
  · intro k hk; simp [init] at hk
  · intro k st hs; simp [init] at hs

/-- Dependents lists only lose members. -/
def QShrink (s s' : State) : Prop := ∀ k x, x ∈ s'.qdeps k → x ∈ s.qdeps k

theorem QShrink.refl (s : State) : QShrink s s := fun _ _ h => h
theorem QShrink.of_eq {s s' : State} (h : s'.qdeps = s.qdeps) : QShrink s s' := fun k x hx => by
  rw [h] at hx; exact hx
theorem QShrink.trans {a b c : State} (h1 : QShrink a b) (h2 : QShrink b c) : QShrink a c :=
  fun k x hx => h1 k x (h2 k x hx)
theorem QShrink.nil {s s' : State} (h : QShrink s s') {k : Nat} (hk : s.qdeps k = []) :
    s'.qdeps k = [] := by
  cases hq : s'.qdeps k with
  | nil => rfl
  | cons x xs => have := h k x (by simp [hq]); rw [hk] at this; simp at this

theorem unblockRuntimesBlockedOn_q {s s' : State} {k : Nat} {r : WaitResult}
    (h : unblockRuntimesBlockedOn s k r = some s') :
    s'.qdeps = upd s.qdeps k [] ∧ s'.sync = s.sync ∧ s'.transferred = s.transferred := by
  unfold unblockRuntimesBlockedOn at h
  obtain ⟨h1, h2⟩ := unblockAll_sameTD _ _ _ h
  exact ⟨h2, h1.sync, h1.transferred⟩

theorem QShrink.of_upd_nil {s s' : State} {k : Nat} (h : s'.qdeps = upd s.qdeps k []) : QShrink s s' := by
  intro k' x hx
  rw [h] at hx
  by_cases hk : k' = k
  · subst hk; simp at hx
  · rwa [upd_other _ _ _ _ hk] at hx

/-- What `unblock_recursive` guarantees for the keys whose `transferred` entry it removes. -/
structure RecClear (s s' : State) (q : Nat) : Prop where
  sync : s'.sync = s.sync
  shrink : QShrink s s'
  cleared : ∀ d, d ≠ q → (s.transferred d).isSome → s'.transferred d = none → s'.qdeps d = []

theorem unblockRecursive_clear {r : WaitResult} : ∀ (fuel : Nat) (s s' : State) (q : Nat),
    unblockRecursive r fuel s q = some s' → RecClear s s' q := by
  intro fuel
  induction fuel with
  | zero => intro s s' q h; simp [unblockRecursive] at h
  | succ n ih =>
    intro s s' q h
    unfold unblockRecursive at h
    simp only at h
    generalize hs1 : ({ s with transferred := upd s.transferred q none, tdeps := upd s.tdeps q none } : State) = s1 at h
    have e1 : s1.sync = s.sync := by subst hs1; rfl
    have e2 : s1.qdeps = s.qdeps := by subst hs1; rfl
    have e3 : ∀ d, d ≠ q → s1.transferred d = s.transferred d := by
      intro d hd; subst hs1; simp [upd_other _ _ _ _ hd]
    have hP : RecClear s s1 q := by
      refine ⟨e1, QShrink.of_eq e2, ?_⟩
      intro d hd hsome hnone
      rw [e3 d hd] at hnone; rw [hnone] at hsome; simp at hsome
    refine forEachDep_ind (P := fun a => RecClear s a q) ?_ _ _ _ hP h
    intro a c b ha hb
    cases h2 : unblockRuntimesBlockedOn a c r with
    | none => simp [h2] at hb
    | some a1 =>
      simp only [h2] at hb
      obtain ⟨q1, s1', t1⟩ := unblockRuntimesBlockedOn_q h2
      have rc := ih a1 b c hb
      refine ⟨rc.sync.trans (s1'.trans ha.sync), ha.shrink.trans ((QShrink.of_upd_nil q1).trans rc.shrink), ?_⟩
      intro d hd hsome hnone
      by_cases ha0 : a.transferred d = none
      · exact ((QShrink.of_upd_nil q1).trans rc.shrink).nil (ha.cleared d hd hsome ha0)
      · have hsa : (a1.transferred d).isSome := by
          rw [t1]; cases hx : a.transferred d with
          | none => exact absurd hx ha0
          | some v => simp
        by_cases hdc : d = c
        · subst hdc
          have : a1.qdeps d = [] := by rw [q1]; simp
          exact rc.shrink.nil this
        · exact rc.cleared d hdc hsa hnone

theorem undoTransferLock_q {s s' : State} {k : Nat} (h : undoTransferLock s k = some s') :
    s'.qdeps = s.qdeps ∧ s'.sync = s.sync ∧ (∀ d, d ≠ k → s'.transferred d = s.transferred d) := by
  rcases undoTransferLock_eq h with ⟨_, rfl⟩ | ⟨t, o, l, _, _, rfl⟩
  · exact ⟨rfl, rfl, fun _ _ => rfl⟩
  · exact ⟨rfl, rfl, fun d hd => by simp [upd_other _ _ _ _ hd]⟩

theorem unblockTransferredOwnedBy_clear {s s' : State} {k : Nat} {r : WaitResult}
    (h : unblockTransferredOwnedBy s k r = some s') : RecClear s s' k := by
  unfold unblockTransferredOwnedBy at h
  cases h1 : undoTransferLock s k with
  | none => simp [h1] at h
  | some s1 =>
    simp only [h1] at h
    obtain ⟨q1, sy1, t1⟩ := undoTransferLock_q h1
    have rc := unblockRecursive_clear _ _ _ _ h
    refine ⟨rc.sync.trans sy1, (QShrink.of_eq q1).trans rc.shrink, ?_⟩
    intro d hd hsome hnone
    exact rc.cleared d hd (by rw [t1 d hd]; exact hsome) hnone

/-- Effect of `ClaimGuard::release` on dependents, sync table and the domain of `transferred`. -/
structure RelEffect (s s' : State) (k : Nat) (st : SyncState) : Prop where
  sync : s'.sync = s.sync
  shrink : QShrink s s'
  own : st.anyoneWaiting = true → s'.qdeps k = []
  cleared : ∀ d, d ≠ k → (s.transferred d).isSome → s'.transferred d = none → s'.qdeps d = []

theorem release_effect {s s' : State} {k : Nat} {st : SyncState} {r : WaitResult}
    (h : release s k st r = some s') : RelEffect s s' k st := by
  unfold release at h
  cases haw : st.anyoneWaiting with
  | false =>
    simp only [haw, Bool.not_false, if_true, Option.some.injEq] at h
    subst h
    refine ⟨rfl, QShrink.refl _, (by intro hf; rw [haw] at hf; cases hf), ?_⟩
    intro d _ hs hn; rw [hn] at hs; simp at hs
  | true =>
    simp only [haw, Bool.not_true, Bool.false_eq_true, if_false] at h
    cases hu : (if st.claimedTwice = true then undoTransferLock s k else some s) with
    | none => simp [hu] at h
    | some s1 =>
      simp only [hu] at h
      have f1 : s1.qdeps = s.qdeps ∧ s1.sync = s.sync ∧ (∀ d, d ≠ k → s1.transferred d = s.transferred d) := by
        cases hct : st.claimedTwice with
        | false =>
          simp only [hct, Bool.false_eq_true, if_false, Option.some.injEq] at hu
          subst hu; exact ⟨rfl, rfl, fun _ _ => rfl⟩
        | true =>
          simp only [hct, if_true] at hu
          exact undoTransferLock_q hu
      cases h2 : unblockRuntimesBlockedOn s1 k r with
      | none => simp [h2] at h
      | some s2 =>
        simp only [h2] at h
        obtain ⟨q2, sy2, t2⟩ := unblockRuntimesBlockedOn_q h2
        have sh2 : QShrink s s2 := (QShrink.of_eq f1.1).trans (QShrink.of_upd_nil q2)
        have hk2 : s2.qdeps k = [] := by rw [q2]; simp
        have tr2 : ∀ d, d ≠ k → s2.transferred d = s.transferred d := by
          intro d hd; rw [t2]; exact f1.2.2 d hd
        cases htt : st.isTransferTarget with
        | false =>
          simp only [htt, Bool.false_eq_true, if_false, Option.some.injEq] at h
          subst h
          refine ⟨sy2.trans f1.2.1, sh2, fun _ => hk2, ?_⟩
          intro d hd hs hn; rw [tr2 d hd] at hn; rw [hn] at hs; simp at hs
        | true =>
          simp only [htt, if_true] at h
          have rc := unblockTransferredOwnedBy_clear h
          refine ⟨rc.sync.trans (sy2.trans f1.2.1), sh2.trans rc.shrink, fun _ => rc.shrink.nil hk2, ?_⟩
          intro d hd hs hn
          exact rc.cleared d hd (by rw [tr2 d hd]; exact hs) hn

/-- Removing the entry of `k` and running `release` keeps `QInv`. -/
theorem releaseEntry_qinv {s s' : State} {k : Nat} {r : WaitResult} (hq : QInv s)
    (h : releaseEntry s k r = some s') : QInv s' := by
  unfold releaseEntry at h
  cases hk : s.sync k with
  | none => simp [hk] at h
  | some st =>
    simp only [hk] at h
    have eff := release_effect h
    have hsync : s'.sync = upd s.sync k none := eff.sync
    have hkq : s'.qdeps k = [] := by
      cases haw : st.anyoneWaiting with
      | true => exact eff.own haw
      | false =>
        apply eff.shrink.nil
        show s.qdeps k = []
        cases hqk : s.qdeps k with
        | nil => rfl
        | cons x xs =>
          obtain ⟨st', h1, h2⟩ := hq.aw k (by simp [hqk])
          rw [hk] at h1; cases h1; rw [haw] at h2; cases h2
    constructor
    · intro k' hne
      by_cases hkk : k' = k
      · subst hkk; exact absurd hkq hne
      · have : s.qdeps k' ≠ [] := by
          intro h0; exact hne (eff.shrink.nil (s := { s with sync := upd s.sync k none }) h0)
        obtain ⟨st', h1, h2⟩ := hq.aw k' this
        exact ⟨st', by rw [hsync, upd_other _ _ _ _ hkk]; exact h1, h2⟩
    · intro k' st' hs ho hn
      by_cases hkk : k' = k
      · subst hkk; rw [hsync] at hs; simp at hs
      · rw [hsync, upd_other _ _ _ _ hkk] at hs
        cases htr : s.transferred k' with
        | none => exact eff.shrink.nil (s := { s with sync := upd s.sync k none }) (hq.stale k' st' hs ho htr)
        | some v => exact eff.cleared k' hkk (by simp [htr]) hn

/-! ### claims -/

theorem threadId_none_iff {s : State} {k : Nat} {skip : Option Nat} :
    (threadIdOfTransferredQuery s k skip = some none → s.transferred k = none) ∧
    (∀ t, threadIdOfTransferredQuery s k skip = some (some t) → (s.transferred k).isSome) := by
  unfold threadIdOfTransferredQuery
  cases hk : s.transferred k with
  | none => simp
  | some p =>
    obtain ⟨rt, o⟩ := p
    simp only
    cases resolveLoop s.transferred skip (s.bound + 1) o rt <;> simp

theorem blockTransferred_facts {s : State} {k t : Nat} {r : BlockTransferredResult}
    (h : blockTransferred s k t = some r) :
    (r = .released → s.transferred k = none) ∧ (∀ o, r = .ownedBy o → (s.transferred k).isSome) := by
  unfold blockTransferred at h
  cases ht : threadIdOfTransferredQuery s k none with
  | none => simp [ht] at h
  | some o =>
    cases o with
    | none =>
      simp only [ht, Option.some.injEq] at h
      subst h
      exact ⟨fun _ => threadId_none_iff.1 ht, fun o ho => by cases ho⟩
    | some ow =>
      simp only [ht] at h
      have hsome := threadId_none_iff.2 ow ht
      refine ⟨?_, fun _ _ => hsome⟩
      rintro rfl
      by_cases how : ow = t
      · simp [how] at h
      · simp only [how, if_false] at h
        cases hd : dependsOn s ow t with
        | none => simp [hd] at h
        | some b => cases b <;> simp [hd] at h

/-- The sync-table effect of `try_claim` / `peek_claim`. -/
inductive TryCase (s s1 : State) (t k : Nat) (a : ClaimAnswer) : Prop
  | fresh (hq : s.qdeps k = [] ∨ True) (hk : s.sync k = none ∨ ∃ st, s.sync k = some st ∧ st.owner = .transferred ∧ s.transferred k = none)
      (hs : s1.sync = upd s.sync k (some (freshClaim t))) (ha : ∀ o, a ≠ .running o)
  | waiting (st : SyncState) (hk : s.sync k = some st)
      (hs : s1.sync = upd s.sync k (some { st with anyoneWaiting := true }))
      (htr : st.owner = .transferred → (s.transferred k).isSome)
  | reclaim (st : SyncState) (hk : s.sync k = some st)
      (hs : s1.sync = upd s.sync k (some { st with owner := .thread t, claimedTwice := true }))
      (ha : ∀ o, a ≠ .running o)
  | nothing (hs : s1.sync = s.sync) (ha : ∀ o, a ≠ .running o)

theorem blockWaiting_case {s s1 : State} {t k other : Nat} {st : SyncState} {a : ClaimAnswer}
    (hk : s.sync k = some st) (htr : st.owner = .transferred → (s.transferred k).isSome)
    (h : (match block (setWaiting s k st) t other with
          | none => none
          | some a => some (setWaiting s k st, a)) = some (s1, a)) : TryCase s s1 t k a := by
  cases hb : block (setWaiting s k st) t other with
  | none => simp [hb] at h
  | some a' =>
    simp only [hb, Option.some.injEq, Prod.mk.injEq] at h
    obtain ⟨rfl, rfl⟩ := h
    exact .waiting st hk rfl htr

theorem tryClaim_case {s s1 : State} {t k : Nat} {re : Bool} {a : ClaimAnswer}
    (hc : tryClaim s t k re = some (s1, a)) : TryCase s s1 t k a := by
  unfold tryClaim at hc
  cases hk : s.sync k with
  | none =>
    simp only [hk, Option.some.injEq, Prod.mk.injEq] at hc
    obtain ⟨rfl, rfl⟩ := hc
    exact .fresh (Or.inr trivial) (Or.inl hk) rfl (by intro o h; cases h)
  | some st =>
    simp only [hk] at hc
    cases ho : st.owner with
    | thread id =>
      simp only [ho] at hc
      exact blockWaiting_case hk (by intro h; rw [ho] at h; cases h) hc
    | transferred =>
      simp only [ho] at hc
      unfold tryClaimTransferred at hc
      cases hbt : blockTransferred s k t with
      | none => simp [hbt] at hc
      | some r =>
        have facts := blockTransferred_facts hbt
        cases r with
        | imTheOwner =>
          simp only [hbt] at hc
          cases re with
          | false =>
            simp only [Bool.false_eq_true, if_false, Option.some.injEq, Prod.mk.injEq] at hc
            obtain ⟨rfl, rfl⟩ := hc
            exact .nothing rfl (by intro o h; cases h)
          | true =>
            simp only [if_true] at hc
            cases hct : st.claimedTwice with
            | true => simp [hct] at hc
            | false =>
              simp only [hct, Bool.false_eq_true, if_false, Option.some.injEq, Prod.mk.injEq] at hc
              obtain ⟨rfl, rfl⟩ := hc
              exact .reclaim st hk rfl (by intro o h; cases h)
        | ownedBy other =>
          simp only [hbt] at hc
          exact blockWaiting_case hk (fun _ => facts.2 other rfl) hc
        | released =>
          simp only [hbt, Option.some.injEq, Prod.mk.injEq] at hc
          obtain ⟨rfl, rfl⟩ := hc
          exact .fresh (Or.inr trivial) (Or.inr ⟨st, hk, ho, facts.1 rfl⟩) rfl (by intro o h; cases h)

theorem peekClaim_case {s s1 : State} {t k : Nat} {re : Bool} {a : ClaimAnswer}
    (hc : peekClaim s t k re = some (s1, a)) : TryCase s s1 t k a := by
  unfold peekClaim at hc
  cases hk : s.sync k with
  | none =>
    simp only [hk, Option.some.injEq, Prod.mk.injEq] at hc
    obtain ⟨rfl, rfl⟩ := hc
    exact .nothing rfl (by intro o h; cases h)
  | some st =>
    simp only [hk] at hc
    cases ho : st.owner with
    | thread id =>
      simp only [ho] at hc
      exact blockWaiting_case hk (by intro h; rw [ho] at h; cases h) hc
    | transferred =>
      simp only [ho] at hc
      unfold peekClaimTransferred at hc
      cases hbt : blockTransferred s k t with
      | none => simp [hbt] at hc
      | some r =>
        have facts := blockTransferred_facts hbt
        cases r with
        | imTheOwner =>
          simp only [hbt] at hc
          cases re with
          | false =>
            simp only [Bool.false_eq_true, if_false, Option.some.injEq, Prod.mk.injEq] at hc
            obtain ⟨rfl, rfl⟩ := hc
            exact .nothing rfl (by intro o h; cases h)
          | true =>
            simp only [if_true, Option.some.injEq, Prod.mk.injEq] at hc
            obtain ⟨rfl, rfl⟩ := hc
            exact .nothing rfl (by intro o h; cases h)
        | ownedBy other =>
          simp only [hbt] at hc
          exact blockWaiting_case hk (fun _ => facts.2 other rfl) hc
        | released =>
          simp only [hbt, Option.some.injEq, Prod.mk.injEq] at hc
          obtain ⟨rfl, rfl⟩ := hc
          exact .nothing rfl (by intro o h; cases h)

/-- A sync-table update at `k` together with the dependents of `k` possibly growing. -/
theorem QInv_upd {s s' : State} {k : Nat} {st' : SyncState} (hq : QInv s)
    (ht : s'.transferred = s.transferred) (hs : s'.sync = upd s.sync k (some st'))
    (hqo : ∀ k', k' ≠ k → s'.qdeps k' = s.qdeps k')
    (hAW : s'.qdeps k ≠ [] → st'.anyoneWaiting = true)
    (hST : st'.owner = .transferred → s.transferred k = none → s'.qdeps k = []) : QInv s' := by
  constructor
  · intro k' hne
    by_cases hkk : k' = k
    · subst hkk; exact ⟨st', by rw [hs]; simp, hAW hne⟩
    · rw [hqo k' hkk] at hne
      obtain ⟨st, h1, h2⟩ := hq.aw k' hne
      exact ⟨st, by rw [hs, upd_other _ _ _ _ hkk]; exact h1, h2⟩
  · intro k' st hsy ho hn
    rw [ht] at hn
    by_cases hkk : k' = k
    · subst hkk
      rw [hs] at hsy; simp only [upd_same, Option.some.injEq] at hsy; subst hsy
      exact hST ho hn
    · rw [hs, upd_other _ _ _ _ hkk] at hsy
      rw [hqo k' hkk]; exact hq.stale k' st hsy ho hn

theorem QInv.congr {s s' : State} (hq : QInv s) (h1 : s'.qdeps = s.qdeps) (h2 : s'.sync = s.sync)
    (h3 : s'.transferred = s.transferred) : QInv s' := by
  constructor
  · rw [h1, h2]; exact hq.aw
  · rw [h1, h2, h3]; exact hq.stale

theorem QInv.sync_none {s : State} (hq : QInv s) {k : Nat} (hk : s.sync k = none) : s.qdeps k = [] := by
  cases hqk : s.qdeps k with
  | nil => rfl
  | cons x xs =>
    obtain ⟨st, h1, _⟩ := hq.aw k (by simp [hqk])
    rw [hk] at h1; cases h1

/-- claim / peek (with the optional `block_on`) keeps `QInv`. -/
theorem claimStep_qinv {s0 s1 s' : State} {t k : Nat} {blk : Bool} {a : ClaimAnswer} {ans : Answer}
    (hq : QInv s0) (only : SyncOnly s0 s1) (hcase : TryCase s0 s1 t k a)
    (hf : finishClaim t k blk (s1, a) = some (s', ans)) : QInv s' := by
  -- the final state: `s1`, or `s1` with `t` appended to the dependents of `k`
  have hfin : (s' = s1) ∨ (∃ o, a = .running o ∧ s'.sync = s1.sync ∧ s'.transferred = s1.transferred ∧
      s'.qdeps = upd s1.qdeps k (s1.qdeps k ++ [t])) := by
    cases a with
    | claimed =>
      simp only [finishClaim, Option.some.injEq, Prod.mk.injEq] at hf
      exact Or.inl hf.1.symm
    | cycle i =>
      simp only [finishClaim, Option.some.injEq, Prod.mk.injEq] at hf
      exact Or.inl hf.1.symm
    | running o =>
      cases blk with
      | false =>
        simp only [finishClaim, Bool.false_eq_true, if_false, Option.some.injEq, Prod.mk.injEq] at hf
        exact Or.inl hf.1.symm
      | true =>
        simp only [finishClaim, if_true] at hf
        cases ha : addEdge s1 t k o with
        | none => simp [ha] at hf
        | some s2 =>
          simp only [ha, Option.some.injEq, Prod.mk.injEq] at hf
          obtain ⟨rfl, _⟩ := hf
          obtain ⟨_, _, _, rfl⟩ := addEdge_eq ha
          exact Or.inr ⟨o, rfl, rfl, rfl, rfl⟩
  have hq1 : QInv s1 := by
    cases hcase with
    | fresh _ hk hs ha =>
      have hk0 : s0.qdeps k = [] := by
        rcases hk with hk | ⟨st, hk, ho, htr⟩
        · exact hq.sync_none hk
        · exact hq.stale k st hk ho htr
      refine QInv_upd hq only.transferred hs (fun k' _ => by rw [only.qdeps]) ?_ ?_
      · intro hne; rw [only.qdeps, hk0] at hne; exact absurd rfl hne
      · intro ho; simp [freshClaim] at ho
    | waiting st hk hs htr =>
      refine QInv_upd hq only.transferred hs (fun k' _ => by rw [only.qdeps]) (fun _ => rfl) ?_
      intro ho hn
      have := htr ho
      rw [hn] at this; simp at this
    | reclaim st hk hs ha =>
      refine QInv_upd hq only.transferred hs (fun k' _ => by rw [only.qdeps]) ?_ ?_
      · intro hne
        rw [only.qdeps] at hne
        obtain ⟨st', h1, h2⟩ := hq.aw k hne
        rw [hk] at h1; cases h1; exact h2
      · intro ho; cases ho
    | nothing hs ha => exact hq.congr only.qdeps hs only.transferred
  rcases hfin with rfl | ⟨o, rfl, hsy, htr, hqd⟩
  · exact hq1
  · -- only the `waiting` case can answer `Running`
    cases hcase with
    | fresh _ _ _ ha => exact absurd rfl (ha o)
    | reclaim _ _ _ ha => exact absurd rfl (ha o)
    | nothing _ ha => exact absurd rfl (ha o)
    | waiting st hk hs htr' =>
      constructor
      · intro k' hne
        by_cases hkk : k' = k
        · subst hkk
          exact ⟨{ st with anyoneWaiting := true }, by rw [hsy, hs]; simp, rfl⟩
        · rw [hqd, upd_other _ _ _ _ hkk] at hne
          obtain ⟨st', h1, h2⟩ := hq1.aw k' hne
          exact ⟨st', by rw [hsy]; exact h1, h2⟩
      · intro k' st' hsy' ho hn
        rw [hsy] at hsy'; rw [htr] at hn
        by_cases hkk : k' = k
        · subst hkk
          rw [hs] at hsy'; simp only [upd_same, Option.some.injEq] at hsy'; subst hsy'
          have := htr' ho
          rw [only.transferred] at hn
          rw [hn] at this; simp at this
        · rw [hqd, upd_other _ _ _ _ hkk]
          exact hq1.stale k' st' hsy' ho hn

/-! ### `release_self` -/

/-- `is_owner_of_transferred_query(k, t)` answers `true` exactly when
    `thread_id_of_transferred_query(k, None)` is `Some(t)`. -/
theorem isOwner_true_iff {s : State} {k t : Nat} :
    isOwnerOfTransferredQuery s k t = some true ↔ threadIdOfTransferredQuery s k none = some (some t) := by
  unfold isOwnerOfTransferredQuery
  cases h : threadIdOfTransferredQuery s k none with
  | none => simp
  | some r => simp

theorem isOwner_false_iff {s : State} {k t : Nat} :
    isOwnerOfTransferredQuery s k t = some false ↔
      ∃ r, threadIdOfTransferredQuery s k none = some r ∧ r ≠ some t := by
  unfold isOwnerOfTransferredQuery
  cases h : threadIdOfTransferredQuery s k none with
  | none => simp
  | some r => simp

theorem releaseSelf_qinv {s s' : State} {t k : Nat} (hq : QInv s) (h : releaseSelf s t k = some s') :
    QInv s' := by
  cases hk : s.sync k with
  | none => simp [releaseSelf, hk] at h
  | some st =>
    cases hct : st.claimedTwice with
    | false =>
      unfold releaseSelf at h
      simp only [hk, hct, Bool.false_eq_true, if_false] at h
      apply releaseEntry_qinv hq (k := k) (r := .completed)
      simp [releaseEntry, hk, h]
    | true =>
      rcases releaseSelf_handback_cases hk hct h with ⟨hc, rfl⟩ | ⟨_, _, h⟩
      · -- quiet hand-back: no dependents, or the key keeps its flag and its `transferred` entry
        refine QInv_upd hq rfl rfl (fun _ _ => rfl) ?_ ?_
        · intro hne
          obtain ⟨st', h1, h2⟩ := hq.aw k hne
          rw [hk] at h1; cases h1; exact h2
        · intro _ hn
          rcases hc with haw | hown
          · cases hqk : s.qdeps k with
            | nil => rfl
            | cons x xs =>
              obtain ⟨st', h1, h2⟩ := hq.aw k (by simp [hqk])
              rw [hk] at h1; cases h1; rw [haw] at h2; cases h2
          · have := threadId_none_iff.2 t (isOwner_true_iff.mp hown)
            simp only at this
            rw [hn] at this; simp at this
      · obtain ⟨q1, sy1, t1⟩ := unblockRuntimesBlockedOn_q h
        refine QInv_upd hq t1 sy1 ?_ ?_ ?_
        · intro k' hkk; rw [q1]; simp [upd_other _ _ _ _ hkk]
        · intro hne; rw [q1] at hne; simp at hne
        · intro _ _; rw [q1]; simp

end SalsaVerif.Proofs.SyncDG
