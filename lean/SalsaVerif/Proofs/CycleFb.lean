/-
  Invariants of the engine model for programs whose recovering nodes are all `FallbackImmediate`
  (`cycle_result`): soundness of the cycle-head sets, values, no iteration (core Lean only).
-/
import SalsaVerif.Proofs.CycleSound

namespace SalsaVerif.Proofs.Cycle
open SalsaVerif.Model.Cycle

/-- the assignment under which every gate is closed: `callees env ρ0 ρ0 e` is the callee list of
    a gate-free body `e` (for which the assignment is irrelevant, `callees_noGate`).  The
    fallback theorems are proved for gate-free programs (`Prog.NoGate`). -/
def ρ0 : Nat → Nat := fun _ => 0

section
variable (P : Prog) (env : Nat → Nat)

/-- `Reach a b`: a non-empty path from `a` to `b` in the input-determined call graph (the graph
    of a gate-free program). -/
inductive Reach : Nat → Nat → Prop where
  | step {a c : Nat} : c ∈ callees env ρ0 (P.node a).body → Reach a c
  | trans {a b c : Nat} : Reach a b → Reach b c → Reach a c

/-- the Boolean `reach` of the model (paths of bounded length) is sound for `Reach`. -/
theorem reach_sound : ∀ (k a b : Nat), reach P env ρ0 k a b = true → Reach P env a b := by
  intro k
  induction k with
  | zero => intro a b h; simp [reach] at h
  | succ k ih =>
    intro a b h
    simp only [reach, List.any_eq_true, Bool.or_eq_true, beq_iff_eq] at h
    obtain ⟨c, hc, h⟩ := h
    rcases h with h | h
    · subst h; exact Reach.step hc
    · exact Reach.trans (Reach.step hc) (ih c b h)

theorem onCycle_sound (i : Nat) (h : onCycle P env ρ0 i = true) : Reach P env i i :=
  reach_sound P env _ i i h

/-- the active stack (innermost first) is a call chain. -/
def Chain : List Nat → Prop
  | [] => True
  | [_] => True
  | a :: b :: rest => a ∈ callees env ρ0 (P.node b).body ∧ Chain (b :: rest)

theorem Chain.tail {a : Nat} {l : List Nat} (h : Chain P env (a :: l)) : Chain P env l := by
  cases l with
  | nil => trivial
  | cons b rest => exact h.2

/-- every active query below the top one reaches the top one. -/
theorem Chain.reach_top : ∀ (l : List Nat) (j : Nat), Chain P env (j :: l) →
    ∀ k ∈ l, Reach P env k j := by
  intro l
  induction l with
  | nil => intro j _ k hk; cases hk
  | cons b rest ih =>
    intro j h k hk
    have hb : Reach P env b j := Reach.step h.1
    cases hk with
    | head => exact hb
    | tail _ hk => exact Reach.trans (ih b h.2 k hk) hb

/-- no node uses `Fixpoint`: recovering nodes are `FallbackImmediate`. -/
def NoFixpoint (P : Prog) : Prop := ∀ j b, (P.node j).strat ≠ .fixpoint b

theorem lookup_substCache_some (j : Nat) (hc : List Nat) (l : List (Nat × Entry)) (y : Nat)
    (e' : Entry) (h : (substCache j hc l).lookup y = some e') :
    ∃ e, l.lookup y = some e ∧ e' = ⟨e.val, substHeads j hc e.heads⟩ := by
  unfold substCache at h
  induction l with
  | nil => cases h
  | cons p l ih =>
    obtain ⟨k, e⟩ := p
    by_cases hk : y = k
    · subst hk
      simp only [List.map_cons] at h
      rw [lookup_cons_self] at h
      injection h with h
      exact ⟨e, lookup_cons_self _ _ _, h.symm⟩
    · simp only [List.map_cons] at h
      rw [lookup_cons_ne _ _ hk] at h
      obtain ⟨e0, h1, h2⟩ := ih h
      exact ⟨e0, by rw [lookup_cons_ne _ _ hk]; exact h1, h2⟩

theorem mem_substHeads {c : Nat} {hc hs : List Nat} {k : Nat} (h : k ∈ substHeads c hc hs) :
    (k ∈ hc ∧ c ∈ hs) ∨ (k ∈ hs ∧ k ≠ c) := by
  unfold substHeads at h
  rw [List.mem_flatMap] at h
  obtain ⟨a, ha, hk⟩ := h
  split at hk
  · rename_i hac; subst hac; exact Or.inl ⟨hk, ha⟩
  · rename_i hac
    simp only [List.mem_singleton] at hk
    subst hk; exact Or.inr ⟨ha, hac⟩

/-- the invariant for programs without `Fixpoint` nodes. -/
structure InvF (s : St) : Prop where
  nodup : s.stack.Nodup
  stackFresh : ∀ x ∈ s.stack, s.cache.lookup x = none ∧ s.final.lookup x = none
  cacheNotFinal : ∀ x, s.cache.lookup x ≠ none → s.final.lookup x = none
  empty : ¬ HeadOn s → s.cache = [] ∧ s.prov = []
  chain : Chain P env s.stack
  provFb : ∀ c w, s.prov.lookup c = some w →
    w = fallbackValue P c ∧ Reach P env c c ∧ ∃ fv, (P.node c).strat = .fallback fv
  provDom : ∀ c, isHead s.prov c = true → c ∈ s.stack ∨ s.cache.lookup c ≠ none
  headVal : ∀ c w, cval s c = some w → isHead s.prov c = true → w = fallbackValue P c
  heads : ∀ y e, s.cache.lookup y = some e → ∀ k ∈ e.heads, k ∈ s.stack ∧ Reach P env y k
  just : ∀ x w, cval s x = some w →
    (Reach P env x x ∧ w = fallbackValue P x) ∨ EvalRel env (Avail s) (P.node x).body w
  finalJust : ∀ x w, s.final.lookup x = some w →
    (Reach P env x x ∧ w = fallbackValue P x) ∨
    EvalRel env (fun c u => s.final.lookup c = some u) (P.node x).body w

/-- a query completes while a head is active below it (fallback programs). -/
theorem completeF_cached (s1 : St) (j : Nat) (rest : List Nat) (v' : Nat) (hs' : List Nat)
    (hI : InvF P env s1) (hst : s1.stack = j :: rest)
    (hbelow : s1.stack.tail.any (isHead s1.prov) = true)
    (hhs : ∀ k ∈ hs', k ∈ rest ∧ Reach P env j k)
    (hjust : (Reach P env j j ∧ v' = fallbackValue P j) ∨
      EvalRel env (Avail s1) (P.node j).body v')
    (hhead : isHead s1.prov j = true → v' = fallbackValue P j) :
    InvF P env (stCached s1 j v' hs') ∧ Ext s1 (stCached s1 j v' hs') ∧
    Avail (stCached s1 j v' hs') j v' := by
  have hjm : j ∈ s1.stack := by rw [hst]; exact List.mem_cons_self
  obtain ⟨hjc, hjf⟩ := hI.stackFresh j hjm
  have hnd := hI.nodup
  rw [hst] at hnd
  obtain ⟨hjr, hndr⟩ := List.nodup_cons.mp hnd
  have htail : s1.stack.tail = rest := by rw [hst]; rfl
  have hE : Ext s1 (stCached s1 j v' hs') := by
    refine ⟨rfl, fun _ _ h => h, fun _ _ h => h, ?_⟩
    intro c w hw
    have hcj : c ≠ j := by
      intro e; subst e
      simp [cval, hjc] at hw
    rw [cval_cons_subst_ne s1 j v' hs' hcj]; exact hw
  have hcl : ∀ x, x ≠ j → ((stCached s1 j v' hs').cache.lookup x = none ↔
      s1.cache.lookup x = none) := by
    intro x hxj
    show ((j, (⟨v', hs'⟩ : Entry)) :: substCache j hs' s1.cache).lookup x = none ↔ _
    rw [lookup_cons_ne _ _ hxj]
    exact lookup_substCache_none j hs' s1.cache x
  refine ⟨?_, hE, Or.inr (Or.inr (cval_cons_self s1 j v' hs'))⟩
  refine ⟨?_, ?_, ?_, ?_, ?_, hI.provFb, ?_, ?_, ?_, ?_, hI.finalJust⟩
  · show s1.stack.tail.Nodup
    rw [htail]; exact hndr
  · intro x hx
    have hx' : x ∈ rest := by rw [← htail]; exact hx
    have hxj : x ≠ j := by intro e; subst e; exact hjr hx'
    have hxm : x ∈ s1.stack := by rw [hst]; exact List.mem_cons_of_mem _ hx'
    obtain ⟨hxc, hxf⟩ := hI.stackFresh x hxm
    exact ⟨(hcl x hxj).mpr hxc, hxf⟩
  · intro x hx
    by_cases hxj : x = j
    · subst hxj; exact hjf
    · exact hI.cacheNotFinal x (fun hn => hx ((hcl x hxj).mpr hn))
  · intro hno
    exfalso
    apply hno
    obtain ⟨k, hk, hp⟩ := (below_iff s1).mp hbelow
    exact ⟨k, hk, hp⟩
  · show Chain P env s1.stack.tail
    have := hI.chain
    rw [hst] at this
    rw [htail]; exact Chain.tail P env this
  · intro c hc
    by_cases hcj : c = j
    · subst hcj
      right
      show ((c, (⟨v', hs'⟩ : Entry)) :: substCache c hs' s1.cache).lookup c ≠ none
      rw [lookup_cons_self]; exact fun h => nomatch h
    · rcases hI.provDom c hc with h | h
      · left
        show c ∈ s1.stack.tail
        rw [htail]
        rw [hst] at h
        cases h with
        | head => exact absurd rfl hcj
        | tail _ h => exact h
      · right
        exact fun hn => h ((hcl c hcj).mp hn)
  · intro c w hw hh
    by_cases hcj : c = j
    · subst hcj
      rw [cval_cons_self] at hw
      injection hw with hw; subst hw; exact hhead hh
    · rw [cval_cons_subst_ne s1 j v' hs' hcj] at hw
      exact hI.headVal c w hw hh
  · intro y e hy k hk
    have hy' : ((j, (⟨v', hs'⟩ : Entry)) :: substCache j hs' s1.cache).lookup y = some e := hy
    show k ∈ s1.stack.tail ∧ _
    rw [htail]
    by_cases hyj : y = j
    · subst hyj
      rw [lookup_cons_self] at hy'
      injection hy' with hy'; subst hy'
      exact hhs k hk
    · rw [lookup_cons_ne _ _ hyj] at hy'
      obtain ⟨e0, h1, h2⟩ := lookup_substCache_some j hs' s1.cache y e hy'
      subst h2
      rcases mem_substHeads hk with ⟨hk1, hk2⟩ | ⟨hk1, hk2⟩
      · obtain ⟨_, hr⟩ := hI.heads y e0 h1 j hk2
        obtain ⟨hkr, hr2⟩ := hhs k hk1
        exact ⟨hkr, Reach.trans hr hr2⟩
      · obtain ⟨hks, hr⟩ := hI.heads y e0 h1 k hk1
        rw [hst] at hks
        cases hks with
        | head => exact absurd rfl hk2
        | tail _ h => exact ⟨h, hr⟩
  · intro x w hw
    by_cases hxj : x = j
    · subst hxj
      rw [cval_cons_self] at hw
      injection hw with hw; subst hw
      rcases hjust with h | h
      · exact Or.inl h
      · exact Or.inr (EvalRel.mono (fun c w hw => Avail.mono hE hw) h)
    · rw [cval_cons_subst_ne s1 j v' hs' hxj] at hw
      rcases hI.just x w hw with h | h
      · exact Or.inl h
      · exact Or.inr (EvalRel.mono (fun c w hw => Avail.mono hE hw) h)

/-- a query completes with no head active anywhere (fallback programs). -/
theorem completeF_final (s1 : St) (j : Nat) (rest : List Nat) (v : Nat)
    (hI : InvF P env s1) (hst : s1.stack = j :: rest)
    (hbelow : s1.stack.tail.any (isHead s1.prov) = false)
    (hself : s1.prov.lookup j = none)
    (hev : EvalRel env (Avail s1) (P.node j).body v) :
    InvF P env (stFinal s1 j v) ∧ Ext s1 (stFinal s1 j v) ∧ Avail (stFinal s1 j v) j v := by
  have hjm : j ∈ s1.stack := by rw [hst]; exact List.mem_cons_self
  obtain ⟨hjc, hjf⟩ := hI.stackFresh j hjm
  have hnd := hI.nodup
  rw [hst] at hnd
  obtain ⟨hjr, hndr⟩ := List.nodup_cons.mp hnd
  have htail : s1.stack.tail = rest := by rw [hst]; rfl
  have hno : ¬ HeadOn s1 := by
    intro ⟨k, hk, hp⟩
    rw [hst] at hk
    cases hk with
    | head => simp [isHead, hself] at hp
    | tail _ hk =>
      have : s1.stack.tail.any (isHead s1.prov) = true :=
        (below_iff s1).mpr ⟨k, by rw [htail]; exact hk, hp⟩
      rw [hbelow] at this; cases this
  obtain ⟨hc0, hp0⟩ := hI.empty hno
  have hAv : ∀ c w, Avail s1 c w → s1.final.lookup c = some w := by
    intro c w hw
    rcases hw with hw | hw | hw
    · exact hw
    · rw [hp0] at hw; cases hw
    · simp [cval, hc0] at hw
  have hstab : ∀ c w, s1.final.lookup c = some w → (stFinal s1 j v).final.lookup c = some w := by
    intro c w hw
    have hcj : c ≠ j := by intro e; subst e; rw [hjf] at hw; cases hw
    show ((j, v) :: s1.final).lookup c = some w
    rw [lookup_cons_ne _ _ hcj]; exact hw
  have hE : Ext s1 (stFinal s1 j v) := ⟨rfl, hstab, fun _ _ h => h, fun _ _ h => h⟩
  refine ⟨?_, hE, Or.inl (lookup_cons_self _ _ _)⟩
  refine ⟨?_, ?_, ?_, ?_, ?_, ?_, ?_, ?_, ?_, ?_, ?_⟩
  · show s1.stack.tail.Nodup
    rw [htail]; exact hndr
  · intro x hx
    have hx' : x ∈ rest := by rw [← htail]; exact hx
    have hxj : x ≠ j := by intro e; subst e; exact hjr hx'
    have hxm : x ∈ s1.stack := by rw [hst]; exact List.mem_cons_of_mem _ hx'
    obtain ⟨hxc, hxf⟩ := hI.stackFresh x hxm
    refine ⟨hxc, ?_⟩
    show ((j, v) :: s1.final).lookup x = none
    rw [lookup_cons_ne _ _ hxj]; exact hxf
  · intro x hx
    exfalso; apply hx
    show s1.cache.lookup x = none
    rw [hc0]; rfl
  · intro _; exact ⟨hc0, hp0⟩
  · show Chain P env s1.stack.tail
    have := hI.chain
    rw [hst] at this
    rw [htail]; exact Chain.tail P env this
  · intro c w hw
    have hw' : s1.prov.lookup c = some w := hw
    rw [hp0] at hw'; cases hw'
  · intro c hc
    have hc' : isHead s1.prov c = true := hc
    simp [isHead, hp0] at hc'
  · intro c w hw
    have hw' : cval s1 c = some w := hw
    simp [cval, hc0] at hw'
  · intro y e hy
    have hy' : s1.cache.lookup y = some e := hy
    rw [hc0] at hy'; cases hy'
  · intro c w hw
    have hw' : cval s1 c = some w := hw
    simp [cval, hc0] at hw'
  · intro x w hw
    have hw' : ((j, v) :: s1.final).lookup x = some w := hw
    by_cases hxj : x = j
    · subst hxj
      rw [lookup_cons_self] at hw'
      injection hw' with hw'; subst hw'
      exact Or.inr (EvalRel.mono (fun c u hu => hstab c u (hAv c u hu)) hev)
    · rw [lookup_cons_ne _ _ hxj] at hw'
      rcases hI.finalJust x w hw' with h | h
      · exact Or.inl h
      · exact Or.inr (EvalRel.mono (fun c u hu => hstab c u hu) h)

/-- an outermost fallback head always converges at once, and every memo becomes final. -/
theorem completeF_converged (s1 : St) (j : Nat) (rest : List Nat) (last : Nat)
    (hI : InvF P env s1) (hst : s1.stack = j :: rest)
    (hbelow : ¬ s1.stack.tail.any (isHead s1.prov) = true)
    (hself : s1.prov.lookup j = some last) :
    converged (cache1Of s1 j (fallbackValue P j)) s1.prov = true ∧
    InvF P env (stConv s1 j (fallbackValue P j)) ∧
    (∀ c w, s1.final.lookup c = some w →
      (stConv s1 j (fallbackValue P j)).final.lookup c = some w) ∧
    Avail (stConv s1 j (fallbackValue P j)) j (fallbackValue P j) := by
  have hjm : j ∈ s1.stack := by rw [hst]; exact List.mem_cons_self
  obtain ⟨hjc, hjf⟩ := hI.stackFresh j hjm
  have hnd := hI.nodup
  rw [hst] at hnd
  obtain ⟨hjr, hndr⟩ := List.nodup_cons.mp hnd
  have htail : s1.stack.tail = rest := by rw [hst]; rfl
  obtain ⟨hlast, hcyc, _⟩ := hI.provFb j last hself
  -- every head has reproduced its provisional value
  have hheads : ∀ c w, s1.prov.lookup c = some w →
      cv1 s1 j (fallbackValue P j) c = some w := by
    intro c w hw
    obtain ⟨hwv, _, _⟩ := hI.provFb c w hw
    have hh : isHead s1.prov c = true := by simp [isHead, hw]
    by_cases hcj : c = j
    · subst hcj; rw [cv1_self, hwv]
    · rw [cv1_ne s1 j _ hcj]
      rcases hI.provDom c hh with h | h
      · exfalso
        apply hbelow
        rw [below_iff]
        rw [hst] at h
        cases h with
        | head => exact absurd rfl hcj
        | tail _ h => exact ⟨c, by rw [htail]; exact h, hh⟩
      · cases hl : s1.cache.lookup c with
        | none => exact absurd hl h
        | some e =>
          have hcv : cval s1 c = some e.val := by simp [cval, hl]
          rw [hcv, hI.headVal c e.val hcv hh, hwv]
  have hconv : converged (cache1Of s1 j (fallbackValue P j)) s1.prov = true := by
    unfold converged
    rw [List.all_eq_true]
    intro p hp
    have hsome := lookup_isSome_of_mem (l := s1.prov) (c := p.1) (b := p.2) hp
    cases hl : s1.prov.lookup p.1 with
    | none => rw [hl] at hsome; cases hsome
    | some w =>
      have := hheads p.1 w hl
      simp only [cv1] at this
      rw [this]; simp
  -- what a reader saw is what becomes final
  have hd : ∀ c w, Avail s1 c w →
      (stConv s1 j (fallbackValue P j)).final.lookup c = some w := by
    intro c w h
    rw [stConv_final]
    rcases h with h | h | h
    · have hcj : c ≠ j := by intro e; subst e; rw [hjf] at h; cases h
      have : cv1 s1 j (fallbackValue P j) c = none := by
        rw [cv1_ne s1 j _ hcj]
        unfold cval
        cases hl : s1.cache.lookup c with
        | none => rfl
        | some e =>
          have := hI.cacheNotFinal c (by rw [hl]; exact fun h => nomatch h)
          rw [this] at h; cases h
      rw [this]; exact h
    · rw [hheads c w h]; rfl
    · have hcj : c ≠ j := by intro e; subst e; simp [cval, hjc] at h
      rw [cv1_ne s1 j _ hcj, h]; rfl
  refine ⟨hconv, ?_, fun c w h => hd c w (Or.inl h), Or.inl ?_⟩
  · refine ⟨?_, ?_, ?_, ?_, ?_, ?_, ?_, ?_, ?_, ?_, ?_⟩
    · show s1.stack.tail.Nodup
      rw [htail]; exact hndr
    · intro x hx
      have hx' : x ∈ rest := by rw [← htail]; exact hx
      have hxj : x ≠ j := by intro e; subst e; exact hjr hx'
      have hxm : x ∈ s1.stack := by rw [hst]; exact List.mem_cons_of_mem _ hx'
      obtain ⟨hxc, hxf⟩ := hI.stackFresh x hxm
      refine ⟨rfl, ?_⟩
      rw [stConv_final, cv1_ne s1 j _ hxj]
      simp [cval, hxc, hxf]
    · intro x hx; exact absurd rfl hx
    · intro _; exact ⟨rfl, rfl⟩
    · show Chain P env s1.stack.tail
      have := hI.chain
      rw [hst] at this
      rw [htail]; exact Chain.tail P env this
    · intro c w hw; cases hw
    · intro c hc; simp [isHead, stConv] at hc
    · intro c w hw; simp [cval, stConv] at hw
    · intro y e hy; cases hy
    · intro c w hw; simp [cval, stConv] at hw
    · intro x w hw
      rw [stConv_final] at hw
      cases hcx : cv1 s1 j (fallbackValue P j) x with
      | some wx =>
        rw [hcx] at hw
        injection hw with hw; subst hw
        by_cases hxj : x = j
        · subst hxj
          rw [cv1_self] at hcx
          injection hcx with hcx; subst hcx
          exact Or.inl ⟨hcyc, rfl⟩
        · rw [cv1_ne s1 j _ hxj] at hcx
          rcases hI.just x wx hcx with h | h
          · exact Or.inl h
          · exact Or.inr (EvalRel.mono hd h)
      | none =>
        rw [hcx] at hw
        have hw' : s1.final.lookup x = some w := hw
        rcases hI.finalJust x w hw' with h | h
        · exact Or.inl h
        · exact Or.inr (EvalRel.mono (fun c u hu => hd c u (Or.inl hu)) h)
  · rw [stConv_final, cv1_self]; rfl

/-- the top active query (if any) calls `c`. -/
def TopCalls (s : St) (c : Nat) : Prop :=
  ∀ t, s.stack.head? = some t → c ∈ callees env ρ0 (P.node t).body

def ReadSpecF (read : Nat → St → Res Fetched) : Prop :=
  ∀ c s v hs s', InvF P env s → TopCalls P env s c → read c s = .ok (v, hs, s') →
    InvF P env s' ∧ s'.stack = s.stack ∧ Ext s s' ∧ Avail s' c v ∧ s'.iters = s.iters ∧
    (∀ k ∈ hs, k ∈ s.stack ∧ (k = c ∨ Reach P env c k)) ∧
    (c ∈ s.stack → c ∈ hs ∧ isHead s'.prov c = true)

def ExecSpecF (exec : Nat → St → Res Fetched) : Prop :=
  ∀ j s v hs s', InvF P env s → j ∉ s.stack → s.final.lookup j = none →
    s.cache.lookup j = none → TopCalls P env s j → exec j s = .ok (v, hs, s') →
    InvF P env s' ∧ s'.stack = s.stack ∧ Ext s s' ∧ Avail s' j v ∧ s'.iters = s.iters ∧
    (∀ k ∈ hs, k ∈ s.stack ∧ Reach P env j k)

theorem evalM_specF {read : Nat → St → Res Fetched} (hR : ReadSpecF P env read) :
    ∀ (e : Expr), e.noGate = true → ∀ (s : St) (v : Nat) (hs : List Nat) (s' : St), InvF P env s →
      (∀ c ∈ callees env ρ0 e, TopCalls P env s c) →
      evalM env read e s = .ok (v, hs, s') →
      InvF P env s' ∧ s'.stack = s.stack ∧ Ext s s' ∧ EvalRel env (Avail s') e v ∧
      s'.iters = s.iters ∧
      (∀ k ∈ hs, k ∈ s.stack ∧ ∃ c ∈ callees env ρ0 e, k = c ∨ Reach P env c k) ∧
      (∀ c ∈ callees env ρ0 e, c ∈ s.stack → c ∈ hs ∧ isHead s'.prov c = true) := by
  intro e
  induction e with
  | const c =>
    intro _ s v hs s' hI _ h
    simp only [evalM] at h
    injection h with h; injection h with h1 h; injection h with h2 h3
    subst h1; subst h2; subst h3
    exact ⟨hI, rfl, Ext.refl _, rfl, rfl, (fun k hk => nomatch hk),
      (fun c hc => by simp [callees] at hc)⟩
  | input i =>
    intro _ s v hs s' hI _ h
    simp only [evalM] at h
    injection h with h; injection h with h1 h; injection h with h2 h3
    subst h1; subst h2; subst h3
    exact ⟨hI, rfl, Ext.refl _, rfl, rfl, (fun k hk => nomatch hk),
      (fun c hc => by simp [callees] at hc)⟩
  | call j =>
    intro _ s v hs s' hI hT h
    simp only [evalM] at h
    cases hr : read j s with
    | error e => rw [hr] at h; cases h
    | ok r =>
      obtain ⟨w, hs1, s1⟩ := r
      rw [hr] at h
      injection h with h; injection h with h1 h; injection h with h2 h3
      subst h1; subst h2; subst h3
      obtain ⟨hI1, hst, hE, hA, hit, hh, hon⟩ :=
        hR j s w hs1 s1 hI (hT j (by simp [callees])) hr
      refine ⟨hI1, hst, hE, ⟨w, hA, rfl⟩, hit, ?_, ?_⟩
      · intro k hk
        obtain ⟨h1, h2⟩ := hh k hk
        exact ⟨h1, j, by simp [callees], h2⟩
      · intro c hc hcs
        simp only [callees, List.mem_singleton] at hc
        subst hc; exact hon hcs
  | union a b iha ihb =>
    intro hng s v hs s' hI hT h
    simp only [Expr.noGate, Bool.and_eq_true] at hng
    have iha := iha hng.1
    have ihb := ihb hng.2
    simp only [evalM] at h
    cases ha : evalM env read a s with
    | error e => rw [ha] at h; cases h
    | ok r =>
      obtain ⟨x, h1, s1⟩ := r
      rw [ha] at h
      simp only at h
      cases hb : evalM env read b s1 with
      | error e => rw [hb] at h; cases h
      | ok r2 =>
        obtain ⟨y, h2, s2⟩ := r2
        rw [hb] at h
        injection h with h; injection h with e1 h; injection h with e2 e3
        subst e1; subst e2; subst e3
        obtain ⟨hI1, hst1, hE1, hA1, hit1, hh1, hon1⟩ := iha s x h1 s1 hI
          (fun c hc => hT c (by simp [callees, hc])) ha
        have hT2 : ∀ c ∈ callees env ρ0 b, TopCalls P env s1 c := by
          intro c hc t ht
          rw [hst1] at ht
          exact hT c (by simp [callees, hc]) t ht
        obtain ⟨hI2, hst2, hE2, hA2, hit2, hh2, hon2⟩ := ihb s1 y h2 s2 hI1 hT2 hb
        refine ⟨hI2, hst2.trans hst1, hE1.trans hE2, ⟨x, y,
          EvalRel.mono (fun c w hw => Avail.mono hE2 hw) hA1, hA2, rfl⟩, hit2.trans hit1, ?_, ?_⟩
        · intro k hk
          rw [List.mem_append] at hk
          rcases hk with hk | hk
          · obtain ⟨p1, c, hc, p2⟩ := hh1 k hk
            exact ⟨p1, c, by simp [callees, hc], p2⟩
          · obtain ⟨p1, c, hc, p2⟩ := hh2 k hk
            exact ⟨by rw [← hst1]; exact p1, c, by simp [callees, hc], p2⟩
        · intro c hc hcs
          simp only [callees, List.mem_append] at hc
          rcases hc with hc | hc
          · obtain ⟨p1, p2⟩ := hon1 c hc hcs
            exact ⟨List.mem_append_left _ p1, isHead_mono hE2 p2⟩
          · obtain ⟨p1, p2⟩ := hon2 c hc (by rw [hst1]; exact hcs)
            exact ⟨List.mem_append_right _ p1, p2⟩
  | inter a b iha ihb =>
    intro hng s v hs s' hI hT h
    simp only [Expr.noGate, Bool.and_eq_true] at hng
    have iha := iha hng.1
    have ihb := ihb hng.2
    simp only [evalM] at h
    cases ha : evalM env read a s with
    | error e => rw [ha] at h; cases h
    | ok r =>
      obtain ⟨x, h1, s1⟩ := r
      rw [ha] at h
      simp only at h
      cases hb : evalM env read b s1 with
      | error e => rw [hb] at h; cases h
      | ok r2 =>
        obtain ⟨y, h2, s2⟩ := r2
        rw [hb] at h
        injection h with h; injection h with e1 h; injection h with e2 e3
        subst e1; subst e2; subst e3
        obtain ⟨hI1, hst1, hE1, hA1, hit1, hh1, hon1⟩ := iha s x h1 s1 hI
          (fun c hc => hT c (by simp [callees, hc])) ha
        have hT2 : ∀ c ∈ callees env ρ0 b, TopCalls P env s1 c := by
          intro c hc t ht
          rw [hst1] at ht
          exact hT c (by simp [callees, hc]) t ht
        obtain ⟨hI2, hst2, hE2, hA2, hit2, hh2, hon2⟩ := ihb s1 y h2 s2 hI1 hT2 hb
        refine ⟨hI2, hst2.trans hst1, hE1.trans hE2, ⟨x, y,
          EvalRel.mono (fun c w hw => Avail.mono hE2 hw) hA1, hA2, rfl⟩, hit2.trans hit1, ?_, ?_⟩
        · intro k hk
          rw [List.mem_append] at hk
          rcases hk with hk | hk
          · obtain ⟨p1, c, hc, p2⟩ := hh1 k hk
            exact ⟨p1, c, by simp [callees, hc], p2⟩
          · obtain ⟨p1, c, hc, p2⟩ := hh2 k hk
            exact ⟨by rw [← hst1]; exact p1, c, by simp [callees, hc], p2⟩
        · intro c hc hcs
          simp only [callees, List.mem_append] at hc
          rcases hc with hc | hc
          · obtain ⟨p1, p2⟩ := hon1 c hc hcs
            exact ⟨List.mem_append_left _ p1, isHead_mono hE2 p2⟩
          · obtain ⟨p1, p2⟩ := hon2 c hc (by rw [hst1]; exact hcs)
            exact ⟨List.mem_append_right _ p1, p2⟩
  | ite i a b iha ihb =>
    intro hng s v hs s' hI hT h
    simp only [Expr.noGate, Bool.and_eq_true] at hng
    have iha := iha hng.1
    have ihb := ihb hng.2
    simp only [evalM] at h
    simp only [EvalRel, callees] at hT ⊢
    split at h
    · rename_i hc
      simp only [if_pos hc] at hT ⊢
      exact iha s v hs s' hI hT h
    · rename_i hc
      simp only [if_neg hc] at hT ⊢
      exact ihb s v hs s' hI hT h
  | gate g a _ _ => intro hng; simp [Expr.noGate] at hng

theorem cycleInitial_fb {P : Prog} {c fv : Nat} (h : (P.node c).strat = .fallback fv) :
    cycleInitial P c = fallbackValue P c ∧ fallbackValue P c = fv % 256 := by
  simp [cycleInitial, fallbackValue, h]

theorem cycleFn_fb {P : Prog} {j fv : Nat} (h : (P.node j).strat = .fallback fv) (last v : Nat) :
    cycleFn P j last v = fallbackValue P j := by
  simp [cycleFn, fallbackValue, h]

theorem fetchColdCycle_specF (hNX : NoFixpoint P) (c : Nat) (s : St) (v : Nat) (hs : List Nat)
    (s' : St) (hI : InvF P env s) (hT : TopCalls P env s c) (hc : c ∈ s.stack)
    (h : fetchColdCycle P c s = .ok (v, hs, s')) :
    InvF P env s' ∧ s'.stack = s.stack ∧ Ext s s' ∧ Avail s' c v ∧ s'.iters = s.iters ∧
    hs = [c] ∧ isHead s'.prov c = true := by
  unfold fetchColdCycle at h
  cases hst : (P.node c).strat with
  | panic => rw [hst] at h; cases h
  | fixpoint b => exact absurd hst (hNX c b)
  | fallback fv =>
    rw [hst] at h
    simp only at h
    cases hl : s.prov.lookup c with
    | some w =>
      rw [hl] at h
      injection h with h; injection h with e1 h; injection h with e2 e3
      subst e1; subst e2; subst e3
      exact ⟨hI, rfl, Ext.refl _, Or.inr (Or.inl hl), rfl, rfl, by simp [isHead, hl]⟩
    | none =>
      rw [hl] at h
      injection h with h; injection h with e1 h; injection h with e2 e3
      subst e1; subst e2; subst e3
      have hE : Ext s { s with prov := (c, cycleInitial P c) :: s.prov } := by
        refine ⟨rfl, fun _ _ h => h, ?_, fun _ _ h => h⟩
        intro c' w hw
        have : c' ≠ c := by intro e; subst e; rw [hl] at hw; cases hw
        show ((c, cycleInitial P c) :: s.prov).lookup c' = some w
        rw [lookup_cons_ne _ _ this]; exact hw
      have hcyc : Reach P env c c := by
        cases hstk : s.stack with
        | nil => rw [hstk] at hc; cases hc
        | cons t rest =>
          have ht : c ∈ callees env ρ0 (P.node t).body := hT t (by rw [hstk]; rfl)
          rw [hstk] at hc
          cases hc with
          | head => exact Reach.step ht
          | tail _ hc =>
            have hch := hI.chain
            rw [hstk] at hch
            exact Reach.trans (Chain.reach_top P env rest t hch c hc) (Reach.step ht)
      have hhead : ∀ c', isHead ((c, cycleInitial P c) :: s.prov) c' = true →
          c' = c ∨ isHead s.prov c' = true := by
        intro c' h'
        by_cases hcc : c' = c
        · exact Or.inl hcc
        · right
          unfold isHead at h' ⊢
          rw [lookup_cons_ne _ _ hcc] at h'; exact h'
      refine ⟨?_, rfl, hE, Or.inr (Or.inl (lookup_cons_self _ _ _)), rfl, rfl,
        by simp [isHead]⟩
      refine ⟨hI.nodup, hI.stackFresh, hI.cacheNotFinal, ?_, hI.chain, ?_, ?_, ?_, hI.heads, ?_,
        hI.finalJust⟩
      · intro hno
        exact absurd ⟨c, hc, by simp [isHead]⟩ hno
      · intro c' w hw
        have hw' : ((c, cycleInitial P c) :: s.prov).lookup c' = some w := hw
        by_cases hcc : c' = c
        · subst hcc
          rw [lookup_cons_self] at hw'
          injection hw' with hw'; subst hw'
          exact ⟨(cycleInitial_fb hst).1, hcyc, fv, hst⟩
        · rw [lookup_cons_ne _ _ hcc] at hw'
          exact hI.provFb c' w hw'
      · intro c' h'
        rcases hhead c' h' with h1 | h1
        · subst h1; exact Or.inl hc
        · exact hI.provDom c' h1
      · intro c' w hw h'
        rcases hhead c' h' with h1 | h1
        · subst h1
          have := (hI.stackFresh c' hc).1
          have hw' : cval s c' = some w := hw
          simp [cval, this] at hw'
        · exact hI.headVal c' w hw h1
      · intro x w hx
        rcases hI.just x w hx with h1 | h1
        · exact Or.inl h1
        · exact Or.inr (EvalRel.mono (fun c w hw => Avail.mono hE hw) h1)

theorem fetch_specF (hNX : NoFixpoint P) {exec : Nat → St → Res Fetched}
    (hX : ExecSpecF P env exec) : ReadSpecF P env (fetch P exec) := by
  intro c s v hs s' hI hT h
  unfold fetch at h
  split at h
  · cases h
  · cases hf : s.final.lookup c with
    | some w =>
      rw [hf] at h
      injection h with h; injection h with e1 h; injection h with e2 e3
      subst e1; subst e2; subst e3
      refine ⟨hI, rfl, Ext.refl _, Or.inl hf, rfl, (fun k hk => nomatch hk), ?_⟩
      intro hc
      rw [(hI.stackFresh c hc).2] at hf; cases hf
    | none =>
      rw [hf] at h
      simp only at h
      split at h
      · rename_i hc
        have hc' : c ∈ s.stack := by simpa using hc
        obtain ⟨h1, h2, h3, h4, h5, h6, h7⟩ :=
          fetchColdCycle_specF P env hNX c s v hs s' hI hT hc' h
        subst h6
        refine ⟨h1, h2, h3, h4, h5, ?_, fun _ => ⟨List.mem_cons_self, h7⟩⟩
        intro k hk
        simp only [List.mem_singleton] at hk
        subst hk
        exact ⟨hc', Or.inl rfl⟩
      · rename_i hc
        have hc' : c ∉ s.stack := by simpa using hc
        cases hcache : s.cache.lookup c with
        | some e =>
          rw [hcache] at h
          injection h with h; injection h with e1 h; injection h with e2 e3
          subst e1; subst e2; subst e3
          refine ⟨hI, rfl, Ext.refl _, Or.inr (Or.inr (by simp [cval, hcache])), rfl, ?_,
            fun hcs => absurd hcs hc'⟩
          intro k hk
          obtain ⟨p1, p2⟩ := hI.heads c e hcache k hk
          exact ⟨p1, Or.inr p2⟩
        | none =>
          rw [hcache] at h
          obtain ⟨h1, h2, h3, h4, h5, h6⟩ := hX c s v hs s' hI hc' hf hcache hT h
          exact ⟨h1, h2, h3, h4, h5, fun k hk => ⟨(h6 k hk).1, Or.inr (h6 k hk).2⟩,
            fun hcs => absurd hcs hc'⟩

/-- the head loop for fallback programs: one pass, no iteration. -/
theorem loop_specF (hNX : NoFixpoint P) (hG : P.NoGate) {read : Nat → St → Res Fetched}
    (hR : ReadSpecF P env read) (j : Nat) (s0 : St)
    (hs0 : ¬ HeadOn s0 → s0.cache = [] ∧ s0.prov = [])
    (fuel stamp : Nat) (s : St) (v : Nat) (hs : List Nat) (s' : St)
    (hI : InvF P env s) (hst : s.stack = j :: s0.stack) (hE0 : Ext s0 s)
    (h : executeMaybeIterate P env read j fuel stamp s = .ok (v, hs, s')) :
    InvF P env s' ∧ s'.stack = s0.stack ∧ Ext s0 s' ∧ Avail s' j v ∧ s'.iters = s.iters ∧
    (∀ k ∈ hs, k ∈ s0.stack ∧ Reach P env j k) ∧
    ((∃ c ∈ callees env ρ0 (P.node j).body, c ∈ s.stack) →
      ∀ fv, (P.node j).strat = .fallback fv → v = fv % 256) := by
  cases fuel with
  | zero => simp [executeMaybeIterate] at h
  | succ fuel =>
    unfold executeMaybeIterate at h
    cases hev : evalM env read (P.node j).body s with
    | error e => rw [hev] at h; cases h
    | ok r =>
      obtain ⟨v1, hs1, s1⟩ := r
      rw [hev] at h
      simp only at h
      have hT : ∀ c ∈ callees env ρ0 (P.node j).body, TopCalls P env s c := by
        intro c hc t ht
        rw [hst] at ht
        injection ht with ht; subst ht; exact hc
      obtain ⟨hI1, hst1, hE1, hrel, hit1, hh1, hon1⟩ :=
        evalM_specF P env hR _ (noGate_node hG j) s v1 hs1 s1 hI hT hev
      have hst1' : s1.stack = j :: s0.stack := hst1.trans hst
      have htail : s1.stack.tail = s0.stack := by rw [hst1']; rfl
      have hE01 : Ext s0 s1 := hE0.trans hE1
      have hhs : ∀ k ∈ hs1.filter (fun k => k != j), k ∈ s0.stack ∧ Reach P env j k := by
        intro k hk
        rw [List.mem_filter] at hk
        obtain ⟨hk1, hk2⟩ := hk
        have hkj : k ≠ j := by simpa using hk2
        obtain ⟨p1, c, hc, p2⟩ := hh1 k hk1
        rw [hst] at p1
        refine ⟨?_, ?_⟩
        · cases p1 with
          | head => exact absurd rfl hkj
          | tail _ p1 => exact p1
        · rcases p2 with p2 | p2
          · subst p2; exact Reach.step hc
          · exact Reach.trans (Reach.step hc) p2
      have hchain : Chain P env (j :: s0.stack) := by
        have := hI1.chain; rw [hst1'] at this; exact this
      cases hl : s1.prov.lookup j with
      | none =>
        rw [hl] at h
        simp only at h
        split at h
        · rename_i hb
          injection h with h; injection h with e1 h; injection h with e2 e3
          subst e1; subst e2; subst e3
          have hjust : (Reach P env j j ∧
                (if (hs1.filter (fun k => k != j)).isEmpty = true then v1
                  else participantValue P j v1) = fallbackValue P j) ∨
              EvalRel env (Avail s1) (P.node j).body
                (if (hs1.filter (fun k => k != j)).isEmpty = true then v1
                  else participantValue P j v1) := by
            split
            · exact Or.inr hrel
            · rename_i hne
              cases hstr : (P.node j).strat with
              | fixpoint b => exact absurd hstr (hNX j b)
              | panic => right; simp [participantValue, hstr]; exact hrel
              | fallback fv =>
                left
                cases hfl : hs1.filter (fun k => k != j) with
                | nil => rw [hfl] at hne; exact absurd rfl hne
                | cons k rest =>
                  obtain ⟨p1, p2⟩ := hhs k (by rw [hfl]; exact List.mem_cons_self)
                  refine ⟨Reach.trans p2 (Chain.reach_top P env _ j hchain k p1), ?_⟩
                  simp [participantValue, fallbackValue, hstr]
          obtain ⟨hI', hE', hA'⟩ := completeF_cached P env s1 j s0.stack _
            (hs1.filter (fun k => k != j)) hI1 hst1' hb hhs hjust
            (by intro hh; simp [isHead, hl] at hh)
          refine ⟨hI', htail, hE01.trans hE', hA', hit1, hhs, ?_⟩
          intro ⟨c, hc, hcs⟩ fv hstr
          obtain ⟨q1, q2⟩ := hon1 c hc hcs
          have hcj : c ≠ j := by intro e; subst e; simp [isHead, hl] at q2
          have : c ∈ hs1.filter (fun k => k != j) := by
            rw [List.mem_filter]; exact ⟨q1, by simpa using hcj⟩
          have hne : ¬ (hs1.filter (fun k => k != j)).isEmpty = true := by
            intro he
            rw [List.isEmpty_iff] at he
            rw [he] at this; cases this
          rw [if_neg hne]
          simp [participantValue, hstr]
        · rename_i hb
          injection h with h; injection h with e1 h; injection h with e2 e3
          subst e1; subst e2; subst e3
          obtain ⟨hI', hE', hA'⟩ := completeF_final P env s1 j s0.stack v1 hI1 hst1'
            (by simpa using hb) hl hrel
          refine ⟨hI', htail, hE01.trans hE', hA', hit1, (fun k hk => nomatch hk), ?_⟩
          intro ⟨c, hc, hcs⟩ fv hstr
          exfalso
          obtain ⟨q1, q2⟩ := hon1 c hc hcs
          have hcj : c ≠ j := by intro e; subst e; simp [isHead, hl] at q2
          apply hb
          rw [below_iff]
          rw [hst] at hcs
          cases hcs with
          | head => exact absurd rfl hcj
          | tail _ hcs => exact ⟨c, by rw [htail]; exact hcs, q2⟩
      | some last =>
        rw [hl] at h
        simp only at h
        obtain ⟨_, hcyc, fv0, hstr0⟩ := hI1.provFb j last hl
        have hnew : cycleFn P j last v1 = fallbackValue P j := cycleFn_fb hstr0 last v1
        rw [hnew] at h
        have hP2 : ∀ fv, (P.node j).strat = .fallback fv → fallbackValue P j = fv % 256 := by
          intro fv hstr; simp [fallbackValue, hstr]
        split at h
        · rename_i hb
          injection h with h; injection h with e1 h; injection h with e2 e3
          subst e1; subst e2; subst e3
          obtain ⟨hI', hE', hA'⟩ := completeF_cached P env s1 j s0.stack (fallbackValue P j)
            (hs1.filter (fun k => k != j)) hI1 hst1' hb hhs (Or.inl ⟨hcyc, rfl⟩) (fun _ => rfl)
          exact ⟨hI', htail, hE01.trans hE', hA', hit1, hhs, fun _ fv hstr => hP2 fv hstr⟩
        · rename_i hb
          have hno : ¬ HeadOn s0 := not_headOn_of_not_below hE01 hst1' hb
          obtain ⟨hc0, hp0⟩ := hs0 hno
          obtain ⟨hconv, hI', hF', hA'⟩ :=
            completeF_converged P env s1 j s0.stack last hI1 hst1' hb hl
          have hconv' : converged ((j, (⟨fallbackValue P j, []⟩ : Entry)) :: s1.cache) s1.prov
              = true := hconv
          rw [if_pos hconv'] at h
          injection h with h; injection h with e1 h; injection h with e2 e3
          subst e1; subst e2; subst e3
          refine ⟨hI', htail, ?_, hA', hit1, (fun k hk => nomatch hk),
            fun _ fv hstr => hP2 fv hstr⟩
          exact ext_of_empty hE01.poisoned (fun c w hw => hF' c w (hE01.final c w hw)) hc0 hp0

theorem inv_pushF {s : St} {j : Nat} (hI : InvF P env s) (hj : j ∉ s.stack)
    (hf : s.final.lookup j = none) (hc : s.cache.lookup j = none) (hT : TopCalls P env s j) :
    InvF P env { s with stack := j :: s.stack } := by
  refine ⟨List.nodup_cons.mpr ⟨hj, hI.nodup⟩, ?_, hI.cacheNotFinal, ?_, ?_, hI.provFb, ?_,
    hI.headVal, ?_, hI.just, hI.finalJust⟩
  · intro x hx
    cases hx with
    | head => exact ⟨hc, hf⟩
    | tail _ hx => exact hI.stackFresh x hx
  · intro hno
    apply hI.empty
    intro ⟨k, hk, hp⟩
    exact hno ⟨k, List.mem_cons_of_mem _ hk, hp⟩
  · show Chain P env (j :: s.stack)
    cases hstk : s.stack with
    | nil => trivial
    | cons t rest =>
      have := hI.chain
      rw [hstk] at this
      exact ⟨hT t (by rw [hstk]; rfl), this⟩
  · intro c hh
    rcases hI.provDom c hh with h | h
    · exact Or.inl (List.mem_cons_of_mem _ h)
    · exact Or.inr h
  · intro y e hy k hk
    obtain ⟨p1, p2⟩ := hI.heads y e hy k hk
    exact ⟨List.mem_cons_of_mem _ p1, p2⟩

theorem execute_specF (hNX : NoFixpoint P) (hG : P.NoGate) : ∀ d, ExecSpecF P env (execute P env d) := by
  intro d
  induction d with
  | zero => intro j s v hs s' _ _ _ _ _ h; simp [execute] at h
  | succ d ih =>
    intro j s v hs s' hI hj hf hc hT h
    unfold execute at h
    obtain ⟨h1, h2, h3, h4, h5, h6, _⟩ :=
      loop_specF P env hNX hG (fetch_specF P env hNX ih) j s hI.empty loopFuel _ _ v hs s'
        (inv_pushF P env hI hj hf hc hT) rfl ⟨rfl, fun _ _ h => h, fun _ _ h => h, fun _ _ h => h⟩ h
    exact ⟨h1, h2, h3, h4, h5, h6⟩

/-- a database between requests of a fallback program: every memo is justified. -/
def DbOkF (final : List (Nat × Nat)) : Prop :=
  ∀ x w, final.lookup x = some w →
    (Reach P env x x ∧ w = fallbackValue P x) ∨
    EvalRel env (fun c u => final.lookup c = some u) (P.node x).body w

theorem inv_initF {final : List (Nat × Nat)} (h : DbOkF P env final) (poisoned : List Nat) :
    InvF P env (St.init final poisoned) := by
  refine ⟨List.nodup_nil, ?_, ?_, ?_, trivial, ?_, ?_, ?_, ?_, ?_, h⟩
  · intro x hx; cases hx
  · intro x hx; exact absurd rfl hx
  · intro _; exact ⟨rfl, rfl⟩
  · intro c v hv; cases hv
  · intro c hc; simp [isHead, St.init] at hc
  · intro c v hv; simp [cval, St.init] at hv
  · intro y e hy; cases hy
  · intro c v hv; simp [cval, St.init] at hv

/-- soundness of a top-level request of a fallback program. -/
theorem eval_soundF (hNX : NoFixpoint P) (hG : P.NoGate) {final : List (Nat × Nat)} (hdb : DbOkF P env final)
    (poisoned : List Nat) (j v : Nat) (s : St)
    (h : eval P env final poisoned j = .ok (v, s)) :
    s.final.lookup j = some v ∧ DbOkF P env s.final ∧
    s.stack = [] ∧ s.prov = [] ∧ s.cache = [] ∧ s.iters = 0 ∧
    (∀ c w, final.lookup c = some w → s.final.lookup c = some w) ∧
    (final.lookup j = none → j ∈ callees env ρ0 (P.node j).body →
      ∀ fv, (P.node j).strat = .fallback fv → v = fv % 256) := by
  unfold eval at h
  cases hf : fetch P (execute P env (P.n + 1)) j (St.init final poisoned) with
  | error e => rw [hf] at h; cases h
  | ok r =>
    obtain ⟨v1, hs1, s1⟩ := r
    rw [hf] at h
    injection h with h; injection h with e1 e2
    subst e1; subst e2
    have hT : TopCalls P env (St.init final poisoned) j := by
      intro t ht; cases ht
    obtain ⟨hI, hst, hE, hA, hit, _, _⟩ :=
      fetch_specF P env hNX (execute_specF P env hNX hG (P.n + 1)) j _ v1 hs1 s1
        (inv_initF P env hdb poisoned) hT hf
    have hst' : s1.stack = [] := hst
    have hno : ¬ HeadOn s1 := by
      intro ⟨k, hk, _⟩; rw [hst'] at hk; cases hk
    obtain ⟨hc0, hp0⟩ := hI.empty hno
    have hfin : s1.final.lookup j = some v1 := by
      rcases hA with hA | hA | hA
      · exact hA
      · rw [hp0] at hA; cases hA
      · simp [cval, hc0] at hA
    refine ⟨hfin, hI.finalJust, hst', hp0, hc0, hit, hE.final, ?_⟩
    intro hnone hself fv hstr
    -- the request goes through `execute`, whose loop sees `j` calling the active `j`
    unfold fetch at hf
    have h1 : (St.init final poisoned).poisoned.contains j = false := by
      cases hp : (St.init final poisoned).poisoned.contains j with
      | false => rfl
      | true => rw [hp] at hf; simp at hf
    rw [h1] at hf
    have h2 : (St.init final poisoned).final.lookup j = none := hnone
    have h3 : (St.init final poisoned).stack.contains j = false := by simp [St.init]
    have h4 : (St.init final poisoned).cache.lookup j = none := rfl
    simp only [h2, h3, h4] at hf
    have hf' : execute P env (P.n + 1) j (St.init final poisoned) = .ok (v1, hs1, s1) := by
      simpa using hf
    unfold execute at hf'
    obtain ⟨_, _, _, _, _, _, hP2⟩ :=
      loop_specF P env hNX hG (fetch_specF P env hNX (execute_specF P env hNX hG P.n)) j
        (St.init final poisoned) (inv_initF P env hdb poisoned).empty loopFuel _ _ v1 hs1 s1
        (inv_pushF P env (inv_initF P env hdb poisoned) (by simp [St.init]) h2 h4 hT) rfl
        ⟨rfl, fun _ _ h => h, fun _ _ h => h, fun _ _ h => h⟩ hf'
    exact hP2 ⟨j, hself, List.mem_cons_self⟩ fv hstr

end

theorem dbOkF_nil (P : Prog) (env : Nat → Nat) : DbOkF P env [] :=
  fun _ _ h => nomatch h

/-- the memoised results as an assignment. -/
def results (s : St) : Nat → Nat := fun c => (s.final.lookup c).getD 0

/-- justified databases are preserved by requests (successful or panicking). -/
theorem dbOkF_gets (P : Prog) (env : Nat → Nat) (hNX : NoFixpoint P) (hG : P.NoGate)
    (js : List Nat) :
    ∀ db : Db, DbOkF P env db.final → DbOkF P env (gets P env db js).final := by
  induction js with
  | nil => intro db h; exact h
  | cons j js ih =>
    intro db h
    apply ih
    unfold Db.get
    cases he : eval P env db.final db.poisoned j with
    | error e => exact h
    | ok r =>
      obtain ⟨v, s⟩ := r
      exact (eval_soundF P env hNX hG h db.poisoned j v s he).2.1

end SalsaVerif.Proofs.Cycle
