/-
  CoreP engine (stage S2 + a panic at an arbitrary read position): the invariant `Inv` of
  Proofs/CoreInv.lean (on the `core` component) is preserved whether or not the panic fires; a
  key whose execution is interrupted gets no new memo.  Core Lean only.
-/
import SalsaVerif.Model.CoreP
import SalsaVerif.Proofs.CoreLemmas

namespace SalsaVerif.Proofs.CoreP
open SalsaVerif.Model.Core hiding readDep runBody execute depChanged deepEdges fetchStep mcaStep eng fetch step run outputs
open SalsaVerif.Model.CoreP SalsaVerif.Proofs.Core

@[simp] theorem tick_core (s : PState) : (tick s).core = s.core := by
  unfold tick; split <;> rfl

@[simp] theorem onCore_core (s : PState) (f) : (onCore s f).core = f s.core := rfl
@[simp] theorem onCore_aborted (s : PState) (f) : (onCore s f).aborted = s.aborted := rfl

/-- what a completed (not unwinding) refresh of `q` from `s` yields -/
def Done (P : Nat → Body) (s : State) (q : Nat) (t : State) (res : Res) : Prop :=
  res.val = sem P s.inp q ∧
  ∃ m, t.memos q = some m ∧ m.va = s.cur ∧ m.value = res.val ∧ m.ca = res.ca ∧ m.dur = res.dur

structure PFetchSpec (P : Nat → Body) (r : Nat) (fe : PFetchFn) : Prop where
  ok : ∀ s q, q < r → Inv P s.core → s.aborted = false →
    Inv P (fe s q).1.core ∧ Ext s.core (fe s q).1.core r ∧
    ((fe s q).1.aborted = false → Done P s.core q (fe s q).1.core (fe s q).2) ∧
    ((fe s q).1.aborted = true → ∀ p, q ≤ p → (fe s q).1.core.memos p = s.core.memos p)
  hot : ∀ s q m, q < r → s.core.memos q = some m → m.va = s.core.cur →
    fe s q = (s, ⟨m.value, m.ca, m.dur⟩)

structure PMcaSpec (P : Nat → Body) (r : Nat) (mc : PMcaFn) : Prop where
  ok : ∀ s q rev, q < r → Inv P s.core → s.aborted = false → (∃ m, s.core.memos q = some m) →
    Inv P (mc s q rev).1.core ∧ Ext s.core (mc s q rev).1.core r ∧
    ((mc s q rev).1.aborted = false →
      ∃ m, (mc s q rev).1.core.memos q = some m ∧ m.va = s.core.cur ∧ (mc s q rev).2 = decide (m.ca > rev))

theorem preadDep_ok {P r fe} (hfe : PFetchSpec P r fe) {s : PState} {d : Dep} (hI : Inv P s.core)
    (ha : s.aborted = false) (hr : ∀ q', d = .qry q' → q' < r) :
    Inv P (readDep fe s d).1.core ∧ Ext s.core (readDep fe s d).1.core r ∧
    ((readDep fe s d).1.aborted = false →
      (readDep fe s d).2.val = semDep P s.core.inp d ∧ hot (readDep fe s d).1.core d ∧
      depInfo (readDep fe s d).1.core d = some (readDep fe s d).2 ∧ (readDep fe s d).2.ca ≤ s.core.cur) := by
  unfold readDep
  by_cases h1 : (tick s).aborted = true
  · simp only [h1, if_true, tick_core]
    exact ⟨hI, Ext.refl _ r, fun h => by simp at h⟩
  · have h1' : (tick s).aborted = false := by cases h : (tick s).aborted <;> simp_all
    simp only [h1', Bool.false_eq_true, if_false]
    cases d with
    | inp i =>
      simp only [tick_core]
      exact ⟨hI, Ext.refl _ r, fun _ => ⟨rfl, trivial, rfl, hI.inp_le i⟩⟩
    | qry q =>
      simp only
      have hI1 : Inv P (tick s).core := by rw [tick_core]; exact hI
      obtain ⟨g1, g2, g3, _⟩ := hfe.ok (tick s) q (hr q rfl) hI1 h1'
      rw [tick_core] at g2 g3
      refine ⟨g1, g2, ?_⟩
      intro hna
      obtain ⟨g3, m, g4, g5, g6, g7, g8⟩ := g3 hna
      have mok := g1.memo q m g4
      refine ⟨g3, ⟨m, g4, by rw [g5, g2.cur]⟩, ?_, ?_⟩
      · simp only [depInfo, g4, Option.map, g6, g7, g8]
      · rw [← g7, ← g5]; exact mok.ca_va

/-- the facts about a completed run of a body (as in `run_ok` of stage S2) -/
def RunDone (P : Nat → Body) (r : Nat) (b : Body) (s : State) (f : Frame) (t : State) (F : Frame) (v : Nat) : Prop :=
  v = evalB (semDep P s.inp) b ∧ f.ca ≤ F.ca ∧ F.ca ≤ s.cur ∧ F.dur ≤ f.dur ∧
  ∃ new, F.obs = f.obs ++ new ∧ replay b (obsPairs new) = some v ∧
    ∀ o, o ∈ new → hot t o.dep ∧
      (∃ x, depInfo t o.dep = some x ∧ x.val = o.val ∧ x.ca ≤ F.ca ∧ F.dur ≤ x.dur ∧
        (o.recd = false → 3 ≤ x.dur)) ∧
      (∀ q', o.dep = .qry q' → q' < r)

theorem prun_ok {P r fe} (hfe : PFetchSpec P r fe) : ∀ b, WfB r b → ∀ s f, Inv P s.core →
    s.aborted = false → f.ca ≤ s.core.cur →
    Inv P (runBody fe b s f).1.core ∧ Ext s.core (runBody fe b s f).1.core r ∧
    ((runBody fe b s f).1.aborted = false →
      RunDone P r b s.core f (runBody fe b s f).1.core (runBody fe b s f).2.1 (runBody fe b s f).2.2) := by
  intro b hb
  induction hb with
  | ret v =>
    intro s f hI _ hf
    simp only [runBody]
    exact ⟨hI, Ext.refl _ r, fun _ => ⟨rfl, Nat.le_refl _, hf, Nat.le_refl _, [], by simp,
      by simp [replay, obsPairs], by simp⟩⟩
  | read d k hd _ ih =>
    intro s f hI ha hf
    simp only [runBody]
    obtain ⟨g1, g2, g3⟩ := preadDep_ok hfe (s := s) (d := d) hI ha hd
    generalize readDep fe s d = rd at g1 g2 g3
    by_cases hab : rd.1.aborted = true
    · simp only [hab, if_true]
      exact ⟨g1, g2, fun h => by simp [hab] at h⟩
    · have hab' : rd.1.aborted = false := by cases h : rd.1.aborted <;> simp_all
      simp only [hab', Bool.false_eq_true, if_false]
      obtain ⟨g3, g4, g5, g6⟩ := g3 hab'
      have hf' : (f.push d rd.2).ca ≤ rd.1.core.cur := by
        simp only [Frame.push]; rw [g2.cur]; exact Nat.max_le.mpr ⟨hf, g6⟩
      obtain ⟨h1, h2, h3⟩ := ih rd.2.val rd.1 (f.push d rd.2) g1 hab' hf'
      refine ⟨h1, Ext.trans g2 h2, ?_⟩
      intro hfin
      obtain ⟨h3, h4, h5, h5d, new, h6, h7, h8⟩ := h3 hfin
      refine ⟨?_, ?_, by rw [← g2.cur]; exact h5, ?_, ⟨d, rd.2.val, decide (rd.2.dur ≠ 3)⟩ :: new, ?_, ?_, ?_⟩
      · rw [h3, g2.inp]; simp only [evalB, g3]
      · exact Nat.le_trans (by simp only [Frame.push]; exact Nat.le_max_left _ _) h4
      · exact Nat.le_trans h5d (by simp only [Frame.push]; exact Nat.min_le_left _ _)
      · rw [h6]; simp [Frame.push]
      · simp only [obsPairs, List.map_cons, replay, if_true]
        exact h7
      · intro o hm
        simp only [List.mem_cons] at hm
        rcases hm with hm | hm
        · subst hm
          simp only
          refine ⟨hot_ext h2 g4, ⟨rd.2, depInfo_hot_ext h2 g4 g5, rfl, ?_, ?_, ?_⟩, hd⟩
          · exact Nat.le_trans (by simp only [Frame.push]; exact Nat.le_max_right _ _) h4
          · exact Nat.le_trans h5d (by simp only [Frame.push]; exact Nat.min_le_right _ _)
          · intro hrec
            have : rd.2.dur = 3 := by
              have := of_decide_eq_false hrec
              exact Decidable.of_not_not this
            rw [this]; exact Nat.le_refl 3
        · exact h8 o hm

theorem prun_prefix {P r fe} (hfe : PFetchSpec P r fe) : ∀ pre b s f o post x,
    WfB r b → Inv P s.core → s.aborted = false → f.ca ≤ s.core.cur →
    (replay b (obsPairs (pre ++ o :: post))).isSome →
    (∀ o', o' ∈ pre → semDep P s.core.inp o'.dep = o'.val) →
    hot s.core o.dep → depInfo s.core o.dep = some x →
    (runBody fe b s f).1.aborted = false →
    x.ca ≤ (runBody fe b s f).2.1.ca := by
  intro pre
  induction pre with
  | nil =>
    intro b s f o post x hb hI ha hf hrep _ hh hi
    cases hb with
    | ret v => simp [replay, obsPairs] at hrep
    | read d0 k hd hk =>
      simp only [List.nil_append, obsPairs, List.map_cons, replay] at hrep
      split at hrep
      · rename_i hdd
        subst hdd
        simp only [runBody]
        obtain ⟨g1, g2, g3⟩ := preadDep_ok hfe (s := s) (d := o.dep) hI ha hd
        generalize readDep fe s o.dep = rd at g1 g2 g3
        by_cases hab : rd.1.aborted = true
        · simp only [hab, if_true]; intro h; simp [hab] at h
        · have hab' : rd.1.aborted = false := by cases h : rd.1.aborted <;> simp_all
          simp only [hab', Bool.false_eq_true, if_false]
          intro hfin
          obtain ⟨_, g4, g5, g6⟩ := g3 hab'
          have hx : depInfo rd.1.core o.dep = some x := depInfo_hot_ext g2 hh hi
          rw [hx] at g5
          have e : x = rd.2 := Option.some.inj g5
          have hf' : (f.push o.dep rd.2).ca ≤ rd.1.core.cur := by
            simp only [Frame.push]; rw [g2.cur]; exact Nat.max_le.mpr ⟨hf, g6⟩
          have := ((prun_ok hfe (k rd.2.val) (hk rd.2.val) rd.1 (f.push o.dep rd.2) g1 hab' hf').2.2 hfin).2.1
          rw [e]
          exact Nat.le_trans (by simp only [Frame.push]; exact Nat.le_max_right _ _) this
      · simp at hrep
  | cons o1 pre ih =>
    intro b s f o post x hb hI ha hf hrep hpre hh hi
    cases hb with
    | ret v => simp [replay, obsPairs] at hrep
    | read d0 k hd hk =>
      simp only [List.cons_append, obsPairs, List.map_cons, replay] at hrep
      split at hrep
      · rename_i hdd
        subst hdd
        simp only [runBody]
        obtain ⟨g1, g2, g3⟩ := preadDep_ok hfe (s := s) (d := o1.dep) hI ha hd
        generalize readDep fe s o1.dep = rd at g1 g2 g3
        by_cases hab : rd.1.aborted = true
        · simp only [hab, if_true]; intro h; simp [hab] at h
        · have hab' : rd.1.aborted = false := by cases h : rd.1.aborted <;> simp_all
          simp only [hab', Bool.false_eq_true, if_false]
          obtain ⟨g3, _, _, g6⟩ := g3 hab'
          have hval : rd.2.val = o1.val := by rw [g3]; exact hpre o1 (by simp)
          rw [hval]
          have hf' : (f.push o1.dep rd.2).ca ≤ rd.1.core.cur := by
            simp only [Frame.push]; rw [g2.cur]; exact Nat.max_le.mpr ⟨hf, g6⟩
          exact ih (k o1.val) rd.1 (f.push o1.dep rd.2) o post x (hk o1.val) g1 hab' hf'
            (by simpa [obsPairs] using hrep)
            (fun o' hm => by rw [g2.inp]; exact hpre o' (by simp [hm]))
            (hot_ext g2 hh) (depInfo_hot_ext g2 hh hi)
      · simp at hrep

def DeepTrue (t : State) (obs : List Obs) (rev : Nat) : Prop :=
  ∀ o, o ∈ obs → o.recd = true → hot t o.dep ∧ ∃ x, depInfo t o.dep = some x ∧ x.ca ≤ rev

def DeepFalse (t : State) (obs : List Obs) (rev : Nat) : Prop :=
  ∃ pre o post x, obs = pre ++ o :: post ∧ o.recd = true ∧
    (∀ o', o' ∈ pre → o'.recd = true → hot t o'.dep ∧ ∃ x', depInfo t o'.dep = some x' ∧ x'.ca ≤ rev) ∧
    hot t o.dep ∧ depInfo t o.dep = some x ∧ rev < x.ca

theorem pdeep_ok {P r mc} (hmc : PMcaSpec P r mc) : ∀ obs s rev, Inv P s.core → s.aborted = false →
    (∀ o q', o ∈ obs → o.dep = .qry q' → q' < r ∧ ∃ m, s.core.memos q' = some m) →
    Inv P (deepEdges mc obs s rev).1.core ∧ Ext s.core (deepEdges mc obs s rev).1.core r ∧
    ((deepEdges mc obs s rev).1.aborted = false →
      ((deepEdges mc obs s rev).2 = true → DeepTrue (deepEdges mc obs s rev).1.core obs rev) ∧
      ((deepEdges mc obs s rev).2 = false → DeepFalse (deepEdges mc obs s rev).1.core obs rev)) := by
  intro obs
  induction obs with
  | nil =>
    intro s rev hI _ _
    simp only [deepEdges]
    exact ⟨hI, Ext.refl _ r, fun _ => ⟨fun _ o ho => by simp at ho, fun h => by simp at h⟩⟩
  | cons o rest ih =>
    intro s rev hI ha hpre
    have hpre_rest : ∀ o' q', o' ∈ rest → o'.dep = .qry q' → q' < r ∧ ∃ m, s.core.memos q' = some m :=
      fun o' q' hm hd => hpre o' q' (by simp [hm]) hd
    simp only [deepEdges]
    by_cases hrec : o.recd = true
    · simp only [hrec, if_true]
      have first : Inv P (depChanged mc s o.dep rev).1.core ∧ Ext s.core (depChanged mc s o.dep rev).1.core r ∧
          ((depChanged mc s o.dep rev).1.aborted = false →
            hot (depChanged mc s o.dep rev).1.core o.dep ∧
            ∃ x, depInfo (depChanged mc s o.dep rev).1.core o.dep = some x ∧
              (depChanged mc s o.dep rev).2 = decide (x.ca > rev)) := by
        cases hd : o.dep with
        | inp i =>
          simp only [depChanged]
          exact ⟨hI, Ext.refl _ r, fun _ => ⟨trivial, _, rfl, rfl⟩⟩
        | qry q =>
          simp only [depChanged]
          obtain ⟨hq, hm⟩ := hpre o q (by simp) hd
          obtain ⟨a1, a2, a3⟩ := hmc.ok s q rev hq hI ha hm
          refine ⟨a1, a2, fun hna => ?_⟩
          obtain ⟨m, a3, a4, a5⟩ := a3 hna
          exact ⟨⟨m, a3, by rw [a4, a2.cur]⟩, ⟨m.value, m.ca, m.dur⟩, by simp [depInfo, a3], a5⟩
      obtain ⟨f1, f2, f3⟩ := first
      generalize depChanged mc s o.dep rev = dc at f1 f2 f3
      by_cases hab : dc.1.aborted = true
      · simp only [hab, if_true]
        exact ⟨f1, f2, fun h => by simp [hab] at h⟩
      · have hab' : dc.1.aborted = false := by cases h : dc.1.aborted <;> simp_all
        simp only [hab', Bool.false_eq_true, if_false]
        obtain ⟨f3, x, f4, f5⟩ := f3 hab'
        by_cases hch : dc.2 = true
        · simp only [hch, if_true]
          refine ⟨f1, f2, fun _ => ⟨fun h => by simp at h, fun _ => ?_⟩⟩
          refine ⟨[], o, rest, x, by simp, hrec, by simp, f3, f4, ?_⟩
          rw [f5] at hch
          exact of_decide_eq_true hch
        · have hch' : dc.2 = false := by cases h : dc.2 <;> simp_all
          simp only [hch', Bool.false_eq_true, if_false]
          have hpre' : ∀ o' q', o' ∈ rest → o'.dep = .qry q' →
              q' < r ∧ ∃ m, dc.1.core.memos q' = some m := by
            intro o' q' hm hd
            obtain ⟨hq, m, hmm⟩ := hpre_rest o' q' hm hd
            obtain ⟨m', hm', _⟩ := f2.mono q' m hmm
            exact ⟨hq, m', hm'⟩
          obtain ⟨i1, i2, i3⟩ := ih dc.1 rev f1 hab' hpre'
          have hcle : x.ca ≤ rev := by
            rw [f5] at hch'
            exact Nat.le_of_not_gt (of_decide_eq_false hch')
          refine ⟨i1, Ext.trans f2 i2, fun hna => ?_⟩
          obtain ⟨i3, i4⟩ := i3 hna
          refine ⟨?_, ?_⟩
          · intro ht o' hm hr'
            simp only [List.mem_cons] at hm
            rcases hm with hm | hm
            · subst hm
              exact ⟨hot_ext i2 f3, x, depInfo_hot_ext i2 f3 f4, hcle⟩
            · exact i3 ht o' hm hr'
          · intro hf
            obtain ⟨pre, o2, post, x2, j1, j1r, j2, j3, j4, j5⟩ := i4 hf
            refine ⟨o :: pre, o2, post, x2, by simp [j1], j1r, ?_, j3, j4, j5⟩
            intro o' hm hr'
            simp only [List.mem_cons] at hm
            rcases hm with hm | hm
            · subst hm
              exact ⟨hot_ext i2 f3, x, depInfo_hot_ext i2 f3 f4, hcle⟩
            · exact j2 o' hm hr'
    · have hrec' : o.recd = false := by cases h : o.recd <;> simp_all
      simp only [hrec', Bool.false_eq_true, if_false]
      obtain ⟨i1, i2, i3⟩ := ih s rev hI ha hpre_rest
      refine ⟨i1, i2, fun hna => ?_⟩
      obtain ⟨i3, i4⟩ := i3 hna
      refine ⟨?_, ?_⟩
      · intro ht o' hm hr'
        simp only [List.mem_cons] at hm
        rcases hm with hm | hm
        · subst hm; rw [hrec'] at hr'; cases hr'
        · exact i3 ht o' hm hr'
      · intro hf
        obtain ⟨pre, o2, post, x2, j1, j1r, j2, j3, j4, j5⟩ := i4 hf
        refine ⟨o :: pre, o2, post, x2, by simp [j1], j1r, ?_, j3, j4, j5⟩
        intro o' hm hr'
        simp only [List.mem_cons] at hm
        rcases hm with hm | hm
        · subst hm; rw [hrec'] at hr'; cases hr'
        · exact j2 o' hm hr'

/-- the result of one engine step on key `r`: invariant and frame always; the refreshed memo if the
    step completed; nothing of rank `≥ r` touched if it unwound -/
def PStepOk (P : Nat → Body) (r : Nat) (s : State) (out : PState × Res) : Prop :=
  Inv P out.1.core ∧ Ext s out.1.core (r + 1) ∧
  (out.1.aborted = false → Done P s r out.1.core out.2) ∧
  (out.1.aborted = true → ∀ p, r ≤ p → out.1.core.memos p = s.memos p)

theorem pexecute_ok {P r fe} (hP : Wf P) (hfe : PFetchSpec P r fe) (s : PState) (old : Option Memo)
    (hI : Inv P s.core) (ha : s.aborted = false) (hold : s.core.memos r = old)
    (hstale : ∀ m, s.core.memos r = some m → m.va ≠ s.core.cur)
    (hnsok : ∀ o, old = some o → ¬ SOK s.core o)
    (hback : (runBody fe (P r) (onCore s (emit · (.exec r))) frame0).1.aborted = false →
      ∀ o, old = some o → ∃ w d, (w, d) ∈ s.core.wlog ∧ o.dur ≤ d ∧ o.va < w ∧
        w ≤ (runBody fe (P r) (onCore s (emit · (.exec r))) frame0).2.1.ca) :
    PStepOk P r s.core (execute fe P s r old) := by
  have hrun := prun_ok hfe (P r) (hP r) (onCore s (emit · (.exec r))) frame0 (inv_emit _ hI) ha hI.cur1
  unfold execute
  generalize runBody fe (P r) (onCore s (emit · (.exec r))) frame0 = r0 at hrun hback
  obtain ⟨k1, k2, k3⟩ := hrun
  replace k2 : Ext s.core r0.1.core r := Ext.trans (ext_emit s.core _ r) k2
  by_cases hab : r0.1.aborted = true
  · simp only [hab, if_true]
    exact ⟨k1, k2.weaken (Nat.le_succ r), fun h => by simp [hab] at h, fun _ p hp => k2.above p hp⟩
  · have hab' : r0.1.aborted = false := by cases h : r0.1.aborted <;> simp_all
    simp only [hab', Bool.false_eq_true, if_false]
    obtain ⟨k3, _, k5, k5d, new, k6, k7, k8⟩ := k3 hab'
    replace k3 : r0.2.2 = evalB (semDep P s.core.inp) (P r) := k3
    replace k5 : r0.2.1.ca ≤ s.core.cur := k5
    simp only [frame0, List.nil_append] at k6 k5d
    have hmr : r0.1.core.memos r = old := by rw [k2.above r (Nat.le_refl r)]; exact hold
    have hnsok' : ∀ o, old = some o → ¬ SOK r0.1.core o := by
      intro o ho h
      apply hnsok o ho
      rcases h with h | h
      · left; rw [h, k2.cur]
      · right; rw [← k2.lc]; exact h
    have hca_le : backdateCa old r0.2.2 r0.2.1 ≤ r0.1.core.cur := by
      rw [k2.cur]
      cases old with
      | none => exact k5
      | some o =>
        simp only [backdateCa]
        split
        · have := hI.memo r o hold
          exact Nat.le_trans this.ca_va this.va_cur
        · exact k5
    have hok := memoOk_new (P := P) (r := r) (v := r0.2.2) (F := r0.2.1) k1 (by rw [k2.cur]; exact k5)
      hca_le k5d (by rw [k6]; exact k7) (by rw [k6]; exact k8)
    have hback' : ∀ o, old = some o → ∃ w d, (w, d) ∈ r0.1.core.wlog ∧ o.dur ≤ d ∧ o.va < w ∧ w ≤ r0.2.1.ca := by
      intro o ho
      obtain ⟨w, d, a, b, c, e⟩ := hback hab' o ho
      exact ⟨w, d, by rw [k2.wlog]; exact a, b, c, e⟩
    have hobs := hobs_exec (v := r0.2.2) (F := r0.2.1) k1 hmr hnsok' hback'
    have hinv := inv_setMemo (q := r) k1 hok rfl hobs
    refine ⟨hinv, ?_, fun _ => ⟨by show r0.2.2 = _; rw [k3, sem_unfold P s.core.inp hP r],
      _, setMemo_same _ _ _, k2.cur, rfl, rfl, rfl⟩, fun h => by simp [hab'] at h⟩
    apply ext_install hI k2 hstale k2.cur
    · intro m hm
      have hom : old = some m := by rw [← hold]; exact hm
      have mok := hI.memo r m hm
      show m.ca ≤ backdateCa old r0.2.2 r0.2.1
      rw [hom]
      simp only [backdateCa]
      split
      · exact Nat.le_refl _
      · obtain ⟨w, d, _, _, hlt, hle⟩ := hback hab' m hom
        exact Nat.le_trans mok.ca_va (Nat.le_trans (Nat.le_of_lt hlt) hle)
    · intro m hm hv hd
      have hom : old = some m := by rw [← hold]; exact hm
      show backdateCa old r0.2.2 r0.2.1 = m.ca
      rw [hom]
      simp only [backdateCa]
      rw [if_pos ⟨hv.symm, hd⟩]

theorem pfetchStep_ok {P r fe mc} (hP : Wf P) (hfe : PFetchSpec P r fe) (hmc : PMcaSpec P r mc)
    (s : PState) (hI : Inv P s.core) (ha : s.aborted = false) :
    PStepOk P r s.core (fetchStep fe mc P s r) := by
  unfold fetchStep
  cases hm : s.core.memos r with
  | none =>
    simp only
    exact pexecute_ok hP hfe s none hI ha hm (by intro m h; rw [hm] at h; cases h)
      (by intro o h; cases h) (by intro _ o h; cases h)
  | some m =>
    simp only
    have mok := hI.memo r m hm
    have hst : ∀ m0, s.core.memos r = some m0 → m0 = m := by intro m0 h0; rw [hm] at h0; exact (Option.some.inj h0).symm
    by_cases hv : m.va = s.core.cur
    · simp only [hv, if_true]
      exact ⟨hI, Ext.refl _ _, fun _ => ⟨fresh_of_sok hP hI r m hm (Or.inl hv), m, hm, hv, rfl, rfl, rfl⟩,
        fun h => by simp [ha] at h⟩
    · simp only [hv, if_false]
      by_cases hsh : lc s.core m.dur ≤ m.va
      · simp only [hsh, if_true, onCore_core, onCore_aborted, Core.markVerified_eq]
        have hinv := inv_markShallow hI hm hv hsh
        refine ⟨inv_emit _ hinv, (ext_install (m' := { m with va := s.core.cur }) hI (Ext.refl _ r) ?_ rfl ?_ ?_).emit _,
          fun _ => ⟨fresh_of_sok hP hI r m hm (Or.inr hsh), _, setMemo_same _ _ _, rfl, rfl, rfl, rfl⟩,
          fun h => by simp [ha] at h⟩
        · intro m0 h0; rw [hst m0 h0]; exact hv
        · intro m0 h0; rw [hst m0 h0]; exact Nat.le_refl _
        · intro m0 h0 _ _; rw [hst m0 h0]
      · simp only [hsh, if_false]
        have hpre : ∀ o q', o ∈ m.obs → o.dep = .qry q' → q' < r ∧ ∃ m', s.core.memos q' = some m' := by
          intro o q' ho hd
          obtain ⟨h1, m', h2, _⟩ := mok.i5 o q' ho hd
          exact ⟨h1, m', h2⟩
        obtain ⟨d1, d2, d3⟩ := pdeep_ok hmc m.obs s m.va hI ha hpre
        generalize deepEdges mc m.obs s m.va = t at d1 d2 d3
        have hm1 : t.1.core.memos r = some m := by rw [d2.above r (Nat.le_refl r)]; exact hm
        by_cases hab : t.1.aborted = true
        · simp only [hab, if_true]
          exact ⟨d1, d2.weaken (Nat.le_succ r), fun h => by simp [hab] at h, fun _ p hp => d2.above p hp⟩
        · have hab' : t.1.aborted = false := by cases h : t.1.aborted <;> simp_all
          simp only [hab', Bool.false_eq_true, if_false]
          obtain ⟨d3, d4⟩ := d3 hab'
          cases hres : t.2 with
          | true =>
            simp only [if_true, onCore_core, onCore_aborted, Core.markDeepVerified_eq]
            have hinv := inv_markDeep d1 hm1 (d3 hres)
            have hval : m.value = sem P s.core.inp r := by
              have := fresh_of_sok hP hinv r _ (setMemo_same _ _ _) (Or.inl rfl)
              simpa [d2.inp] using this
            refine ⟨inv_emit _ hinv,
              (ext_install (m' := { m with va := t.1.core.cur, deepAt := t.1.core.cur }) hI d2 ?_ d2.cur ?_ ?_).emit _,
              fun _ => ⟨hval, _, setMemo_same _ _ _, d2.cur, rfl, rfl, rfl⟩, fun h => by simp [hab'] at h⟩
            · intro m0 h0; rw [hst m0 h0]; exact hv
            · intro m0 h0; rw [hst m0 h0]; exact Nat.le_refl _
            · intro m0 h0 _ _; rw [hst m0 h0]
          | false =>
            simp only [Bool.false_eq_true, if_false]
            obtain ⟨pre, o, post, x, e1, _, e2, e3, e4, e5⟩ := d4 hres
            have hstale : ∀ m0, t.1.core.memos r = some m0 → m0.va ≠ t.1.core.cur := by
              intro m0 h0; rw [hm1] at h0; cases h0; rw [d2.cur]; exact hv
            have hnsok : ∀ o', some m = some o' → ¬ SOK t.1.core o' := by
              intro o' ho' h
              cases ho'
              rcases h with h | h
              · rw [d2.cur] at h; exact hv h
              · rw [d2.lc] at h; exact hsh h
            have mok1 := d1.memo r m hm1
            have hoin : o ∈ m.obs := by rw [e1]; simp
            have hback : (runBody fe (P r) (onCore t.1 (emit · (.exec r))) frame0).1.aborted = false →
                ∀ o', some m = some o' → ∃ w d, (w, d) ∈ t.1.core.wlog ∧ o'.dur ≤ d ∧ o'.va < w ∧
                w ≤ (runBody fe (P r) (onCore t.1 (emit · (.exec r))) frame0).2.1.ca := by
              intro hfin o' ho'
              cases ho'
              have hrep : (replay (P r) (obsPairs (pre ++ o :: post))).isSome := by
                rw [← e1, mok1.rep]; rfl
              have hpre' : ∀ o', o' ∈ pre → semDep P t.1.core.inp o'.dep = o'.val := by
                intro o' ho'
                have hin : o' ∈ m.obs := by rw [e1]; simp [ho']
                obtain ⟨x', hx'⟩ := depInfo_exists d1 hm1 hin
                cases hr : o'.recd with
                | true =>
                  obtain ⟨hh, x2, hi2, hc2⟩ := e2 o' ho' hr
                  rw [hx'] at hi2; cases hi2
                  rw [semDep_of_stored hP d1 hx' (sokDep_of_hot hh)]
                  exact (mok1.i2 o' hin x' hx' hc2).1
                | false =>
                  obtain ⟨a, b⟩ := mok1.i6 o' hin hr x' hx'
                  rw [semDep_of_stored hP d1 hx' (sokDep_of_never d1 hx' b)]
                  exact a
              have hle := prun_prefix hfe pre (P r) (onCore t.1 (emit · (.exec r))) frame0 o post x (hP r)
                (inv_emit _ d1) hab' (by show 1 ≤ t.1.core.cur; exact d1.cur1) hrep hpre'
                ((hot_emit _ _ _).mpr e3) (by simp only [onCore_core, depInfo_emit]; exact e4) hfin
              rcases mok1.i10 o hoin x e4 with h | ⟨w, d, a, b, c, e⟩
              · exact absurd e5 (Nat.not_lt.mpr h)
              · exact ⟨w, d, a, b, c, Nat.le_trans e hle⟩
            obtain ⟨x1, x2, x3, x4⟩ := pexecute_ok hP hfe t.1 (some m) d1 hab' hm1 hstale hnsok hback
            refine ⟨x1, Ext.trans (d2.weaken (Nat.le_succ r)) x2, fun hna => ?_, fun hab2 p hp => ?_⟩
            · obtain ⟨y0, m2, y1, y2, y3, y4, y5⟩ := x3 hna
              exact ⟨by rw [y0, d2.inp], m2, y1, by rw [y2, d2.cur], y3, y4, y5⟩
            · rw [x4 hab2 p hp]; exact d2.above p hp

theorem peng_ok {P} (hP : Wf P) : ∀ r, PFetchSpec P r (eng P r).1 ∧ PMcaSpec P r (eng P r).2 := by
  intro r
  induction r with
  | zero =>
    exact ⟨⟨by intro s q h; omega, by intro s q m h; omega⟩, ⟨by intro s q rev h; omega⟩⟩
  | succ r ih =>
    obtain ⟨hfe, hmc⟩ := ih
    have hstep := fun s hI ha => pfetchStep_ok hP hfe hmc s hI ha
    constructor
    · constructor
      · intro s q hq hI ha
        simp only [eng]
        by_cases hlt : q < r
        · simp only [hlt, if_true]
          obtain ⟨a1, a2, a3, a4⟩ := hfe.ok s q hlt hI ha
          exact ⟨a1, a2.weaken (Nat.le_succ r), a3, a4⟩
        · have : q = r := by omega
          subst this
          simp only [Nat.lt_irrefl, if_false, if_true]
          exact hstep s hI ha
      · intro s q m hq hm hv
        simp only [eng]
        by_cases hlt : q < r
        · simp only [hlt, if_true]; exact hfe.hot s q m hlt hm hv
        · have : q = r := by omega
          subst this
          simp only [Nat.lt_irrefl, if_false, if_true, fetchStep, hm, hv]
    · constructor
      intro s q rev hq hI ha hex
      simp only [eng]
      by_cases hlt : q < r
      · simp only [hlt, if_true]
        obtain ⟨a1, a2, a3⟩ := hmc.ok s q rev hlt hI ha hex
        exact ⟨a1, a2.weaken (Nat.le_succ r), a3⟩
      · have : q = r := by omega
        subst this
        simp only [Nat.lt_irrefl, if_false, if_true]
        obtain ⟨m0, hm0⟩ := hex
        simp only [mcaStep, hm0]
        obtain ⟨b1, b2, b3, _⟩ := hstep s hI ha
        refine ⟨b1, b2, fun hna => ?_⟩
        obtain ⟨_, m, b4, b5, _, b7, _⟩ := b3 hna
        exact ⟨m, b4, b5, by rw [b7]⟩

/-- one request with an optional injected panic, from any state satisfying the invariant -/
theorem fetchInj_ok {P} (hP : Wf P) (s : State) (q : Nat) (inj : Option Nat) (hI : Inv P s) :
    Inv P (fetchInj P s q inj).1 ∧ Ext s (fetchInj P s q inj).1 (q + 1) ∧
    (∀ res, (fetchInj P s q inj).2 = some res → res.val = sem P s.inp q) ∧
    ((fetchInj P s q inj).2 = none → ∀ p, q ≤ p → (fetchInj P s q inj).1.memos p = s.memos p) := by
  obtain ⟨a1, a2, a3, a4⟩ := (peng_ok hP (q + 1)).1.ok ⟨s, inj, false⟩ q (Nat.lt_succ_self q) hI rfl
  unfold fetchInj
  generalize (eng P (q + 1)).1 ⟨s, inj, false⟩ q = out at a1 a2 a3 a4
  refine ⟨a1, a2, ?_, ?_⟩
  · intro res h
    by_cases hab : out.1.aborted = true
    · simp [hab] at h
    · have hab' : out.1.aborted = false := by cases h' : out.1.aborted <;> simp_all
      simp only [hab', Bool.false_eq_true, if_false, Option.some.injEq] at h
      rw [← h]; exact (a3 hab').1
  · intro h
    by_cases hab : out.1.aborted = true
    · exact a4 hab
    · have hab' : out.1.aborted = false := by cases h' : out.1.aborted <;> simp_all
      simp [hab'] at h

theorem pstep_inv {P} (hP : Wf P) (s : State) (op : POp) (hI : Inv P s) : Inv P (pstep P s op) := by
  cases op with
  | get q inj => exact (fetchInj_ok hP s q inj hI).1
  | set i v nd => obtain ⟨b, hb⟩ := write_bump s i v nd; exact bump_inv hb hI
  | synth d => obtain ⟨b, hb⟩ := synth_bump s d; exact bump_inv hb hI

theorem prun_inv {P} (hP : Wf P) (inp : Nat → Inp) (ops : List POp) : Inv P (prun P inp ops) := by
  have h : ∀ (ops : List POp) (s : State), Inv P s → Inv P (ops.foldl (pstep P) s) := by
    intro ops
    induction ops with
    | nil => intro s h; exact h
    | cons op rest ih => intro s h; exact ih _ (pstep_inv hP s op h)
  exact h ops _ (init_inv P inp)

/-! ### without an injected panic nothing unwinds -/

def Clean (s : PState) : Prop := s.fuel = none ∧ s.aborted = false

theorem clean_tick {s} (h : Clean s) : tick s = s := by
  unfold tick; rw [h.1]

theorem clean_onCore {s f} (h : Clean s) : Clean (onCore s f) := h

theorem clean_readDep {fe} (hfe : ∀ s q, Clean s → Clean (fe s q).1) (s : PState) (d : Dep) (h : Clean s) :
    Clean (readDep fe s d).1 := by
  unfold readDep
  rw [clean_tick h]
  simp only [h.2, Bool.false_eq_true, if_false]
  cases d with
  | inp i => exact h
  | qry q => exact hfe s q h

theorem clean_run {fe} (hfe : ∀ s q, Clean s → Clean (fe s q).1) : ∀ b s f, Clean s → Clean (runBody fe b s f).1 := by
  intro b
  induction b with
  | ret v => intro s f h; exact h
  | read d k ih =>
    intro s f h
    simp only [runBody]
    have h1 := clean_readDep hfe s d h
    simp only [h1.2, Bool.false_eq_true, if_false]
    exact ih _ _ _ h1

theorem clean_execute {fe} (hfe : ∀ s q, Clean s → Clean (fe s q).1) (P s q old) (h : Clean s) :
    Clean (execute fe P s q old).1 := by
  unfold execute
  have h1 := clean_run hfe (P q) (onCore s (emit · (.exec q))) frame0 (clean_onCore h)
  simp only [h1.2, Bool.false_eq_true, if_false]
  exact clean_onCore h1

theorem clean_deep {mc} (hmc : ∀ s q rev, Clean s → Clean (mc s q rev).1) : ∀ obs s rev, Clean s →
    Clean (deepEdges mc obs s rev).1 := by
  intro obs
  induction obs with
  | nil => intro s rev h; exact h
  | cons o rest ih =>
    intro s rev h
    simp only [deepEdges]
    have h1 : Clean (depChanged mc s o.dep rev).1 := by
      cases o.dep with
      | inp i => exact h
      | qry q => exact hmc s q rev h
    split
    · simp only [h1.2, Bool.false_eq_true, if_false]
      split
      · exact h1
      · exact ih _ _ h1
    · exact ih _ _ h

theorem clean_fetchStep {fe mc} (hfe : ∀ s q, Clean s → Clean (fe s q).1)
    (hmc : ∀ s q rev, Clean s → Clean (mc s q rev).1) (P s q) (h : Clean s) :
    Clean (fetchStep fe mc P s q).1 := by
  unfold fetchStep
  cases hm : s.core.memos q with
  | none => exact clean_execute hfe P s q none h
  | some m =>
    simp only
    by_cases h1 : m.va = s.core.cur
    · simp only [h1, if_true]; exact h
    · simp only [h1, if_false]
      by_cases h2 : lc s.core m.dur ≤ m.va
      · simp only [h2, if_true]; exact clean_onCore h
      · simp only [h2, if_false]
        have hd := clean_deep hmc m.obs s m.va h
        generalize deepEdges mc m.obs s m.va = t at hd
        simp only [hd.2, Bool.false_eq_true, if_false]
        by_cases h3 : t.2 = true
        · simp only [h3, if_true]; exact clean_onCore hd
        · simp only [h3, if_false]; exact clean_execute hfe P t.1 q _ hd

theorem clean_eng (P : Nat → Body) : ∀ r, (∀ s q, Clean s → Clean ((eng P r).1 s q).1) ∧
    (∀ s q rev, Clean s → Clean ((eng P r).2 s q rev).1) := by
  intro r
  induction r with
  | zero => exact ⟨fun s _ h => h, fun s _ _ h => h⟩
  | succ r ih =>
    obtain ⟨hfe, hmc⟩ := ih
    constructor
    · intro s q h
      simp only [eng]
      split
      · exact hfe s q h
      · split
        · exact clean_fetchStep hfe hmc P s q h
        · exact h
    · intro s q rev h
      simp only [eng]
      split
      · exact hmc s q rev h
      · split
        · simp only [mcaStep]
          split
          · exact h
          · exact clean_fetchStep hfe hmc P s q h
        · exact h

/-- a request without an injected panic completes -/
theorem noInj_completes (P : Nat → Body) (s : State) (q : Nat) :
    ∃ res, (fetchInj P s q none).2 = some res := by
  have h := (clean_eng P (q + 1)).1 ⟨s, none, false⟩ q ⟨rfl, rfl⟩
  unfold fetchInj
  simp only [h.2, Bool.false_eq_true, if_false]
  exact ⟨_, rfl⟩

end SalsaVerif.Proofs.CoreP
