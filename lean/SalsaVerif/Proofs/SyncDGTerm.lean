/-
  Termination and completeness of `depends_on` in reachable states (the operational meaning of W2):
  every thread with an edge has an id below the ghost `bound`, the graph is acyclic, so the walk
  visits at most `bound` blocked threads and `bound + 1` fuel suffices.
-/
import SalsaVerif.Proofs.SyncDGForest3

namespace SalsaVerif.Proofs.SyncDG
open SalsaVerif.Model.SyncDG

theorem nodup_lt_length : ∀ (n : Nat) (l : List Nat), l.Nodup → (∀ x, x ∈ l → x < n) → l.length ≤ n := by
  intro n
  induction n with
  | zero =>
    intro l _ h
    cases l with
    | nil => simp
    | cons a t => exact absurd (h a (by simp)) (Nat.not_lt_zero a)
  | succ n ih =>
    intro l hnd h
    have h1 : (l.erase n).length ≤ n := by
      apply ih _ (hnd.erase n)
      intro x hx
      rw [hnd.mem_erase_iff] at hx
      have := h x hx.2
      omega
    by_cases hm : n ∈ l
    · rw [List.length_erase_of_mem hm] at h1
      omega
    · rw [List.erase_of_not_mem hm] at h1
      omega

theorem dependsOnLoop_terminates {e : Nat → Option Nat} {b bound : Nat}
    (hac : ∀ x, ¬ Path e x x) (hb : ∀ t, (e t).isSome → t < bound) :
    ∀ (fuel p : Nat) (visited : List Nat), visited.Nodup →
      (∀ x, x ∈ visited → x < bound ∧ Path e x p) → bound + 1 ≤ fuel + visited.length →
      dependsOnLoop e b fuel p ≠ none := by
  intro fuel
  induction fuel with
  | zero =>
    intro p visited hnd hv hlen
    have := nodup_lt_length bound visited hnd (fun x hx => (hv x hx).1)
    omega
  | succ n ih =>
    intro p visited hnd hv hlen
    unfold dependsOnLoop
    cases hep : e p with
    | none => simp
    | some q =>
      simp only
      by_cases hq : q = b
      · simp [hq]
      · simp only [hq, if_false]
        apply ih q (p :: visited)
        · rw [List.nodup_cons]
          refine ⟨?_, hnd⟩
          intro hm
          exact hac p (hv p hm).2
        · intro x hx
          simp only [List.mem_cons] at hx
          rcases hx with rfl | hx
          · exact ⟨hb x (by simp [hep]), Path.single hep⟩
          · exact ⟨(hv x hx).1, (hv x hx).2.trans (Path.single hep)⟩
        · simp only [List.length_cons]; omega

/-- Every blocked thread's id is below the ghost bound. -/
def BInv (s : State) : Prop := ∀ t, (s.edges t).isSome → t < s.bound

theorem dependsOn_terminates {s : State} (hg : GInv s []) (hb : BInv s) (a b : Nat) :
    dependsOn s a b ≠ none := by
  unfold dependsOn
  apply dependsOnLoop_terminates hg.acyclic hb (s.bound + 1) a [] List.nodup_nil
  · intro x hx; simp at hx
  · simp

/-- `depends_on(a, b)` answers `true` exactly when `a` is transitively blocked on `b`
    (or `a = b` is not blocked at all — the Rust loop's final `p == to_id`). -/
theorem dependsOn_complete {s : State} (hg : GInv s []) (hb : BInv s) (a b : Nat) :
    (dependsOn s a b = some true ↔ (Path s.edges a b ∨ (a = b ∧ s.edges a = none))) ∧
    (dependsOn s a b = some false ↔ ¬ (Path s.edges a b ∨ (a = b ∧ s.edges a = none))) := by
  have ht := dependsOn_terminates hg hb a b
  cases hd : dependsOn s a b with
  | none => exact absurd hd ht
  | some r =>
    cases r with
    | true =>
      have := dependsOnLoop_true _ _ hd
      simp [this]
    | false =>
      have := dependsOnLoop_false _ _ hd
      simp only [Option.some.injEq, Bool.false_eq_true, false_iff, true_iff, not_or, not_and]
      refine ⟨⟨this.1, fun hab he => this.2 he hab⟩, this.1, fun hab he => this.2 he hab⟩

/-! ### the ghost bound along protocol steps -/

theorem finishClaim_bound {s1 s' : State} {t k : Nat} {blk : Bool} {a : ClaimAnswer} {ans : Answer}
    (hf : finishClaim t k blk (s1, a) = some (s', ans)) : s'.bound = s1.bound := by
  cases a with
  | claimed =>
    simp only [finishClaim, Option.some.injEq, Prod.mk.injEq] at hf
    rw [← hf.1]
  | cycle i =>
    simp only [finishClaim, Option.some.injEq, Prod.mk.injEq] at hf
    rw [← hf.1]
  | running o =>
    cases blk with
    | false =>
      simp only [finishClaim, Bool.false_eq_true, if_false, Option.some.injEq, Prod.mk.injEq] at hf
      rw [← hf.1]
    | true =>
      simp only [finishClaim, if_true] at hf
      cases ha : addEdge s1 t k o with
      | none => simp [ha] at hf
      | some s2 =>
        simp only [ha, Option.some.injEq, Prod.mk.injEq] at hf
        rw [← hf.1]
        obtain ⟨_, _, _, rfl⟩ := addEdge_eq ha
        rfl

theorem releaseEntry_bound {s s' : State} {k : Nat} {r : WaitResult} (hinv : GInv s [])
    (h : releaseEntry s k r = some s') : s'.bound = s.bound := by
  unfold releaseEntry at h
  cases hk : s.sync k with
  | none => simp [hk] at h
  | some st =>
    simp only [hk] at h
    have hg0 : GInv { s with sync := upd s.sync k none } [] := GInv.congr (s := s) rfl rfl rfl hinv
    exact (release_gstep hg0 h).bound

theorem releaseSelf_bound {s s' : State} {t k : Nat} (hinv : GInv s [])
    (h : releaseSelf s t k = some s') : s'.bound = s.bound := by
  cases hk : s.sync k with
  | none => simp [releaseSelf, hk] at h
  | some st =>
    cases hct : st.claimedTwice with
    | true => exact (handback_frame hk hct h).2.2
    | false =>
      unfold releaseSelf at h
      simp only [hk, hct, Bool.false_eq_true, if_false] at h
      have hg0 : GInv { s with sync := upd s.sync k none } [] := GInv.congr (s := s) rfl rfl rfl hinv
      exact (release_gstep hg0 h).bound

theorem transferLock_bound {s s' : State} {q c n : Nat} {o : SyncOwner} {kind : TransferKind} {b : Bool}
    (hinv : GInv s []) (h : transferLock s q c n o = some (s', kind, b)) : s'.bound = s.bound := by
  unfold transferLock at h
  cases hc : transferLockCore s q c n o with
  | none => simp [hc] at h
  | some p =>
    obtain ⟨s1, kd, nt⟩ := p
    have g := transferLockCore_gstep hinv hc
    cases kd with
    | noop =>
      simp only [hc, Option.some.injEq, Prod.mk.injEq] at h
      rw [← h.1]; exact g.bound
    | same =>
      simp only [hc, Option.some.injEq, Prod.mk.injEq] at h
      rw [← h.1]; exact g.bound
    | changed =>
      simp only [hc] at h
      by_cases hcn : c = nt
      · simp only [hcn, if_true, Option.some.injEq, Prod.mk.injEq] at h
        rw [← h.1]; exact g.bound
      · simp only [hcn, if_false] at h
        cases hd : dependsOn s1 nt c with
        | none => simp [hd] at h
        | some bb =>
          cases bb with
          | true =>
            simp only [hd, Option.some.injEq, Prod.mk.injEq] at h
            rw [← h.1]; exact g.bound
          | false =>
            simp only [hd] at h
            cases ha : addEdge s1 c n nt with
            | none => simp [ha] at h
            | some s2 =>
              simp only [ha, Option.some.injEq, Prod.mk.injEq] at h
              rw [← h.1]
              obtain ⟨_, _, _, rfl⟩ := addEdge_eq ha
              exact g.bound

theorem transfer_bound {s s' : State} {t k n : Nat} {a : TransferAnswer} (hinv : GInv s [])
    (h : transfer s t k n = some (s', a)) : s'.bound = s.bound := by
  unfold transfer at h
  cases hn : markAsTransferTarget s n with
  | none =>
    simp only [hn] at h
    cases hr : releaseEntry s k .panicked with
    | none => simp [hr] at h
    | some s1 =>
      simp only [hr, Option.some.injEq, Prod.mk.injEq] at h
      rw [← h.1]; exact releaseEntry_bound hinv hr
  | some p =>
    obtain ⟨s1, o⟩ := p
    simp only [hn] at h
    cases hk : setTransferred s1 k with
    | none => simp [hk] at h
    | some s2 =>
      simp only [hk] at h
      have o2 : SyncOnly s s2 := (markAsTransferTarget_only hn).trans (setTransferred_only hk)
      cases ht : transferLock s2 k t n o with
      | none => simp [ht] at h
      | some p =>
        obtain ⟨s3, kind, b⟩ := p
        simp only [ht, Option.some.injEq, Prod.mk.injEq] at h
        rw [← h.1, transferLock_bound (o2.ginv hinv) ht, o2.bound]

theorem touch_bound_le (s : State) (n : Nat) : s.bound ≤ (touch s n).bound ∧ n < (touch s n).bound := by
  simp only [touch]; omega

theorem stepA_bound {s s' : State} {op : Op} {ans : Answer} (hinv : GInv s [])
    (hs : stepA s op = some (s', ans)) : s.bound ≤ s'.bound ∧ op.actor < s'.bound := by
  cases op with
  | claim t k re blk =>
    simp only [stepA] at hs
    have h0 := GInv_touch k (GInv_touch t hinv)
    have hb : s.bound ≤ (touch (touch s t) k).bound ∧ t < (touch (touch s t) k).bound := by
      simp only [touch]; omega
    generalize touch (touch s t) k = s0 at hs h0 hb
    cases hi : idle s0 t with
    | false => simp [hi] at hs
    | true =>
      simp only [hi, if_true] at hs
      cases hc : tryClaim s0 t k re with
      | none => simp [hc] at hs
      | some p =>
        obtain ⟨s1, a⟩ := p
        simp only [hc] at hs
        have e : s'.bound = s0.bound := (finishClaim_bound hs).trans (tryClaim_frame hc).only.bound
        simp only [Op.actor]; omega
  | peek t k re blk =>
    simp only [stepA] at hs
    have hb : s.bound ≤ (touch (touch s t) k).bound ∧ t < (touch (touch s t) k).bound := by
      simp only [touch]; omega
    generalize touch (touch s t) k = s0 at hs hb
    cases hi : idle s0 t with
    | false => simp [hi] at hs
    | true =>
      simp only [hi, if_true] at hs
      cases hc : peekClaim s0 t k re with
      | none => simp [hc] at hs
      | some p =>
        obtain ⟨s1, a⟩ := p
        simp only [hc] at hs
        have e : s'.bound = s0.bound := (finishClaim_bound hs).trans (peekClaim_frame hc).only.bound
        simp only [Op.actor]; omega
  | release t k r =>
    simp only [stepA] at hs
    have h0 := GInv_touch k (GInv_touch t hinv)
    have hb : s.bound ≤ (touch (touch s t) k).bound ∧ t < (touch (touch s t) k).bound := by
      simp only [touch]; omega
    generalize touch (touch s t) k = s0 at hs h0 hb
    cases hc : (idle s0 t && ownedBy s0 k t) with
    | false => simp [hc] at hs
    | true =>
      simp only [hc, if_true, Option.map_eq_some_iff, Prod.mk.injEq] at hs
      obtain ⟨s2, hr, rfl, _⟩ := hs
      have e := releaseEntry_bound h0 hr
      simp only [Op.actor]; omega
  | releaseSelf t k =>
    simp only [stepA] at hs
    have h0 := GInv_touch k (GInv_touch t hinv)
    have hb : s.bound ≤ (touch (touch s t) k).bound ∧ t < (touch (touch s t) k).bound := by
      simp only [touch]; omega
    generalize touch (touch s t) k = s0 at hs h0 hb
    cases hc : (idle s0 t && ownedBy s0 k t) with
    | false => simp [hc] at hs
    | true =>
      simp only [hc, if_true, Option.map_eq_some_iff, Prod.mk.injEq] at hs
      obtain ⟨s2, hr, rfl, _⟩ := hs
      have e := releaseSelf_bound h0 hr
      simp only [Op.actor]; omega
  | transfer t k n =>
    simp only [stepA] at hs
    have h0 := GInv_touch n (GInv_touch k (GInv_touch t hinv))
    have hb : s.bound ≤ (touch (touch (touch s t) k) n).bound ∧ t < (touch (touch (touch s t) k) n).bound := by
      simp only [touch]; omega
    generalize touch (touch (touch s t) k) n = s0 at hs h0 hb
    cases hc : (idle s0 t && ownedBy s0 k t) with
    | false => simp [hc] at hs
    | true =>
      simp only [hc, if_true, Option.map_eq_some_iff, Prod.mk.injEq] at hs
      obtain ⟨p, hr, rfl, _⟩ := hs
      obtain ⟨s2, a⟩ := p
      have e := transfer_bound h0 hr
      simp only [Op.actor]; omega
  | wake t =>
    simp only [stepA] at hs
    have hb : s.bound ≤ (touch s t).bound ∧ t < (touch s t).bound := touch_bound_le s t
    generalize touch s t = s0 at hs hb
    cases hr : s0.results t with
    | none => simp [hr] at hs
    | some r =>
      simp only [hr, Option.some.injEq, Prod.mk.injEq] at hs
      obtain ⟨rfl, _⟩ := hs
      simp only [Op.actor]; omega

theorem stepA_binv {s s' : State} {op : Op} {ans : Answer} (hinv : GInv s []) (hb : BInv s)
    (hs : stepA s op = some (s', ans)) : BInv s' := by
  obtain ⟨hle, hact⟩ := stepA_bound hinv hs
  obtain ⟨_, hlife⟩ := stepA_full hinv hs
  intro t ht
  have hbl : status s' t = .blocked := status_blocked.mpr ht
  rcases hlife t with ⟨h1, _⟩ | ⟨_, _, h2, _⟩ | ⟨_, h2⟩ | ⟨_, h2, _⟩
  · rw [hbl] at h1
    have := hb t (status_blocked.mp h1.symm)
    omega
  · rw [← h2]; exact hact
  · rw [hbl] at h2; cases h2
  · rw [hbl] at h2; cases h2

theorem run_binv : ∀ (ops : List Op) (s s' : State), GInv s [] → BInv s → run s ops = some s' →
    GInv s' [] ∧ BInv s' := by
  intro ops
  induction ops with
  | nil =>
    intro s s' h hb hr
    simp only [run, Option.some.injEq] at hr
    subst hr; exact ⟨h, hb⟩
  | cons op ops ih =>
    intro s s' h hb hr
    unfold run at hr
    cases hs : step s op with
    | none => simp [hs] at hr
    | some s1 =>
      simp only [hs] at hr
      have hs' := hs
      unfold step at hs'
      cases ha : stepA s op with
      | none => simp [ha] at hs'
      | some p =>
        obtain ⟨s1', ans⟩ := p
        simp only [ha, Option.map_some, Option.some.injEq] at hs'
        subst hs'
        exact ih _ s' (stepA_full h ha).1 (stepA_binv h hb ha) hr

theorem BInv_init : BInv init := by
  intro t ht; simp [init] at ht

end SalsaVerif.Proofs.SyncDG
