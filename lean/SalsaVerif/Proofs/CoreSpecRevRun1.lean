/-
  CoreSpec, histories with writes: `execute` of a node, part 8 — running the body, phase POST
  (after the `create` and the optional `specify`: reads and the final `ret`).  Core Lean only.
-/
import SalsaVerif.Proofs.CoreSpecRevSpecify

namespace SalsaVerif.Proofs.CoreSpec
namespace X
open SalsaVerif.Model.CoreSpec

/-- progress of the run by reads only: state `t → t'` (nested requests of rank `< r`), frame
    `f → f'` -/
structure Adv (P : Prog) (idOf : Nat → Nat) (r : Nat) (t t' : State) (f f' : Frame) : Prop where
  inv : Inv P idOf t'
  nb : NB t' r
  ext : Ext t t' r
  fr : FrOk P r t' f'
  ts : f'.ts = f.ts
  seed : f'.seed = f.seed
  dur : f'.dur ≤ f.dur
  ca : f.ca ≤ f'.ca

theorem Adv.refl {P idOf r t f} (hI : Inv P idOf t) (hnb : NB t r) (fi : FrOk P r t f) : Adv P idOf r t t f f :=
  ⟨hI, hnb, Ext.refl t r, fi, rfl, rfl, Nat.le_refl _, Nat.le_refl _⟩

theorem Adv.trans {P idOf r t t' t'' f f' f''} (a : Adv P idOf r t t' f f') (b : Adv P idOf r t' t'' f' f'') :
    Adv P idOf r t t'' f f'' :=
  ⟨b.inv, b.nb, a.ext.trans b.ext, b.fr, b.ts.trans a.ts, b.seed.trans a.seed, Nat.le_trans b.dur a.dur,
   Nat.le_trans a.ca b.ca⟩

/-- one read -/
theorem read_adv {P idOf r fe} (hP : Wf2 P idOf) (hfe : FetchSpec P idOf r fe)
    (hfs : SpecFetchOk P idOf (fetchSpec P.spec)) {t : State} {f : Frame} {d : Dep}
    (hI : Inv P idOf t) (hnb : NB t r) (fi : FrOk P r t f) (hd : DepOk r f d)
    (hpn : (readDep fe (fetchSpec P.spec) t d).1.panic = none) :
    Adv P idOf r t (readDep fe (fetchSpec P.spec) t d).1 f (f.push d (readDep fe (fetchSpec P.spec) t d).2) ∧
    (readDep fe (fetchSpec P.spec) t d).2.val = semDep P t.inp d ∧
    depInfo (readDep fe (fetchSpec P.spec) t d).1 d = some (readDep fe (fetchSpec P.spec) t d).2 := by
  obtain ⟨g1, g2, g3, g4, g5, _, g7⟩ := readDep_ok hP hfe hfs hI hnb fi hd hpn
  exact ⟨⟨g1, g2, g3, g4, rfl, rfl, Nat.min_le_left _ _, Nat.le_max_left _ _⟩, g5, g7⟩

theorem hsrc_push_other {H : Nat → Prop} {f : Frame} {d : Dep} {x : Res} (h : HSrc H f.obs) :
    HSrc H (f.push d x).obs := by
  simp only [Frame.push]; exact hsrc_append h

theorem hsrc_push_qry {H : Nat → Prop} {f : Frame} {q : Nat} {x : Res} (h : HSrc H f.obs) :
    HSrc (fun c => H c ∨ x.val.h = some c) (f.push (.qry q) x).obs := by
  intro c hc
  simp only [Frame.push]
  rcases hc with hc | hc
  · obtain ⟨o', q', a, b⟩ := h c hc
    exact ⟨o', q', by simp [a], b⟩
  · exact ⟨⟨.qry q, x.val, decide (x.dur ≠ 3), false⟩, q, by simp, rfl, rfl, hc⟩

/-- the end of the run against the old memo (if any): the run reproduced the old replay, or a
    relevant write lies between the old `verified_at` and the frame's stamp -/
def EndTrk (idOf : Nat → Nat) (r : Nat) (old : Option Memo) (Ro : SemRes) (Lv : Memo → Nat) (NBp : Prop)
    (t : State) (f : Frame) (R : SemRes) : Prop :=
  ∀ mo, old = some mo → (Ro = R ∧ mo.obs.map obsProj = f.obs.map obsProj ∧ Lv mo ≤ f.dur) ∨
    (NBp ∧ Wit t (Lv mo) mo.va f.ca)

/-- the tracker for an optional old memo -/
def TrkO (idOf : Nat → Nat) (r : Nat) (old : Option Memo) (Ro : SemRes) (NBp : Prop) (Lv : Memo → Nat)
    (C : Memo → Body → List Obs → Prop) (t : State) (f : Frame) (b : Body)
    (ts : Option (Nat × Nat)) (sp : Option Nat) : Prop :=
  ∀ mo, old = some mo → Trk idOf r mo Ro NBp (Lv mo) (C mo) t f b ts sp

theorem trkO_ret {idOf r old Ro NBp Lv C t f v ts sp} (h : TrkO idOf r old Ro NBp Lv C t f (.ret v) ts sp) :
    EndTrk idOf r old Ro Lv NBp t f ⟨v, ts, sp⟩ := by
  intro mo hmo
  rcases h mo hmo with ⟨orem, a, b, _⟩ | w
  · obtain ⟨e1, e2⟩ := fol_ret a
    exact Or.inl ⟨e1, e2, b⟩
  · exact Or.inr w

/-- what a run of a POST-phase body achieves -/
def PostC (P : Prog) (idOf : Nat → Nat) (r : Nat) (fe : FetchFn) (old : Option Memo) (Ro : SemRes)
    (kv : Nat × Nat) (sp : Option Nat) (t : State) (f : Frame) (b : Body) : Prop :=
  Adv P idOf r t (runBody fe (fetchSpec P.spec) (some r) b t f).1 f (runBody fe (fetchSpec P.spec) (some r) b t f).2.1 ∧
  (∃ new, (runBody fe (fetchSpec P.spec) (some r) b t f).2.1.obs = f.obs ++ new ∧
    replayR r idOf b new (some kv) sp = some ⟨(runBody fe (fetchSpec P.spec) (some r) b t f).2.2, some kv, sp⟩ ∧
    ∀ o, o ∈ new → o.out = false) ∧
  (∀ c, (runBody fe (fetchSpec P.spec) (some r) b t f).2.2.h = some c → c = r ∨
    ∃ o q', o ∈ (runBody fe (fetchSpec P.spec) (some r) b t f).2.1.obs ∧ o.out = false ∧ o.dep = .qry q' ∧
      o.val.h = some c) ∧
  EndTrk idOf r old Ro Memo.dur True (runBody fe (fetchSpec P.spec) (some r) b t f).1
    (runBody fe (fetchSpec P.spec) (some r) b t f).2.1
    ⟨(runBody fe (fetchSpec P.spec) (some r) b t f).2.2, some kv, sp⟩

/-- the hypotheses of a run of a POST-phase body -/
structure PostH (P : Prog) (idOf : Nat → Nat) (r : Nat) (fe : FetchFn) (old : Option Memo) (Ro : SemRes)
    (kv : Nat × Nat) (sp : Option Nat) (H : Nat → Prop) (t : State) (f : Frame) (b : Body) : Prop where
  inv : Inv P idOf t
  nb : NB t r
  fr : FrOk P r t f
  hs : HSrc H f.obs
  ts : f.ts.isSome = true
  memo : t.memos r = old
  trk : TrkO idOf r old Ro True Memo.dur (fun _ _ _ => True) t f b (some kv) sp
  pn : (runBody fe (fetchSpec P.spec) (some r) b t f).1.panic = none

theorem sticky_none {s t : State} (h : Sticky s t) (ht : t.panic = none) : s.panic = none := by
  cases hp : s.panic with
  | none => rfl
  | some p => rw [h p hp] at ht; cases ht

theorem fail_contra {s t : State} {p} (hs : s.panic = none) (hst : Sticky (fail s p) t) (ht : t.panic = none) :
    False := by
  have := hst p (fail_panic_none hs)
  rw [this] at ht; cases ht

theorem run_sticky {P : Prog} {fe : FetchFn} (hst : RelF Sticky fe) (self : Option Nat) (b : Body) (t : State)
    (f : Frame) : Sticky t (runBody fe (fetchSpec P.spec) self b t f).1 :=
  runBody_rel primRel_sticky.toPrimRel0 hst (relF_fetchSpec primRel_sticky P.spec) self b t f

/-- a read in phase POST, given the run of the continuation -/
theorem post_read {P idOf r fe} (hP : Wf2 P idOf) (hfe : FetchSpec P idOf r fe)
    (hfs : SpecFetchOk P idOf (fetchSpec P.spec)) (hst : RelF Sticky fe)
    {old : Option Memo} {Ro : SemRes} {kv : Nat × Nat} {sp : Option Nat} {H H' : Nat → Prop}
    {t : State} {f : Frame} {d : Dep} {k : Val → Body}
    (h : PostH P idOf r fe old Ro kv sp H t f (.read d k)) (hd : DepOk r f d)
    (hH' : HSrc H' (f.push d (readDep fe (fetchSpec P.spec) t d).2).obs)
    (IH : (readDep fe (fetchSpec P.spec) t d).2.val = semDep P t.inp d →
      PostH P idOf r fe old Ro kv sp H' (readDep fe (fetchSpec P.spec) t d).1
        (f.push d (readDep fe (fetchSpec P.spec) t d).2) (k (readDep fe (fetchSpec P.spec) t d).2.val) →
      PostC P idOf r fe old Ro kv sp (readDep fe (fetchSpec P.spec) t d).1
        (f.push d (readDep fe (fetchSpec P.spec) t d).2) (k (readDep fe (fetchSpec P.spec) t d).2.val)) :
    PostC P idOf r fe old Ro kv sp t f (.read d k) := by
  have hpn := h.pn
  simp only [runBody] at hpn
  have hp1 : (readDep fe (fetchSpec P.spec) t d).1.panic = none := sticky_none (run_sticky hst _ _ _ _) hpn
  obtain ⟨a, hval, hinfo⟩ := read_adv hP hfe hfs h.inv h.nb h.fr hd hp1
  replace IH := IH hval
  clear hval
  unfold PostC at IH ⊢
  simp only [runBody]
  generalize readDep fe (fetchSpec P.spec) t d = rd at hpn hp1 a hinfo hH' IH ⊢
  have hmemo : rd.1.memos r = old := by rw [a.ext.above_m r (Nat.le_refl _)]; exact h.memo
  have htrk : TrkO idOf r old Ro True Memo.dur (fun _ _ _ => True) rd.1 (f.push d rd.2) (k rd.2.val) (some kv) sp := by
    intro mo hmo
    refine trk_read (h.trk mo hmo) a.ext.wlog (fun _ _ _ => trivial) ?_
    intro oo rest _ hmem hout hdep
    have ok := a.inv.node r mo (by rw [hmemo, hmo])
    rcases (ok.obs.iv oo hmem hout).iv rd.2 (by rw [hdep]; exact hinfo) with c | c
    · exact Or.inl c
    · exact Or.inr ⟨trivial, c⟩
  obtain ⟨b1, ⟨new, b2, b3, b4⟩, b5, b6⟩ := IH ⟨a.inv, a.nb, a.fr, hH', by rw [a.ts]; exact h.ts, hmemo, htrk, hpn⟩
  refine ⟨a.trans b1, ⟨⟨d, rd.2.val, decide (rd.2.dur ≠ 3), false⟩ :: new, ?_, ?_, ?_⟩, b5, b6⟩
  · rw [b2]; simp [Frame.push]
  · simp only [replayR, and_self, if_true]; exact b3
  · intro o ho
    rcases List.mem_cons.mp ho with e | e
    · rw [e]
    · exact b4 o e

/-- a read of an identity field in phase POST, given the run of the continuation -/
theorem post_ident {P idOf r fe} (hP : Wf2 P idOf) (hst : RelF Sticky fe)
    {old : Option Memo} {Ro : SemRes} {kv : Nat × Nat} {sp : Option Nat} {H : Nat → Prop}
    {t : State} {f : Frame} {c : Nat} {k : Nat → Body}
    (h : PostH P idOf r fe old Ro kv sp H t f (.ident c k)) (hc : H c)
    (IH : PostH P idOf r fe old Ro kv sp H (identStep t c).1 f (k (idOf c)) →
      PostC P idOf r fe old Ro kv sp (identStep t c).1 f (k (idOf c))) :
    PostC P idOf r fe old Ro kv sp t f (.ident c k) := by
  have hpn := h.pn
  simp only [runBody] at hpn
  obtain ⟨g1, g2, g3, g4, g5⟩ := identStep_ok hP h.inv h.nb h.fr (h.hs c hc)
  unfold PostC at IH ⊢
  simp only [runBody]
  rw [g5] at hpn ⊢
  generalize (identStep t c).1 = t1 at hpn g1 g2 g3 g4 IH ⊢
  have hmemo : t1.memos r = old := by rw [g3.above_m r (Nat.le_refl _)]; exact h.memo
  have htrk : TrkO idOf r old Ro True Memo.dur (fun _ _ _ => True) t1 f (k (idOf c)) (some kv) sp :=
    fun mo hmo => trk_ident (h.trk mo hmo) g3.wlog (fun _ _ => trivial)
  obtain ⟨b1, ⟨new, b2, b3, b4⟩, b5, b6⟩ := IH ⟨g1, g2, g4, h.hs, h.ts, hmemo, htrk, hpn⟩
  have a : Adv P idOf r t t1 f f := ⟨g1, g2, g3, g4, rfl, rfl, Nat.le_refl _, Nat.le_refl _⟩
  exact ⟨a.trans b1, ⟨new, b2, by simp only [replayR]; exact b3, b4⟩, b5, b6⟩

/-- the run of a POST-phase body -/
theorem runPost {P idOf r fe} (hP : Wf2 P idOf) (hfe : FetchSpec P idOf r fe)
    (hfs : SpecFetchOk P idOf (fetchSpec P.spec)) (hst : RelF Sticky fe)
    (old : Option Memo) (Ro : SemRes) (kv : Nat × Nat) (sp : Option Nat) :
    ∀ {ph H b}, Wf2B idOf r ph H b → ph = .post → ∀ (t : State) (f : Frame),
      PostH P idOf r fe old Ro kv sp H t f b → PostC P idOf r fe old Ro kv sp t f b := by
  intro ph H b hb
  induction hb with
  | retPre H v hv => intro h; cases h
  | retPost H v hv =>
    intro _ t f h
    unfold PostC
    simp only [runBody]
    refine ⟨Adv.refl h.inv h.nb h.fr, ⟨[], by simp, by simp [replayR], by simp⟩, ?_, trkO_ret h.trk⟩
    intro c hc
    rcases hv c hc with a | a
    · exact Or.inr (h.hs c a)
    · exact Or.inl a
  | inp ph H i k _ _ ih =>
    intro hp t f h
    refine post_read hP hfe hfs hst h trivial (hsrc_push_other h.hs) ?_
    intro _ hh
    have e : (readDep fe (fetchSpec P.spec) t (.inp i)).2.val = ⟨(t.inp i).val, none⟩ := rfl
    rw [e] at hh ⊢
    exact ih _ hp _ _ hh
  | qry ph H q k _ hq _ ih =>
    intro hp t f h
    refine post_read hP hfe hfs hst h hq (hsrc_push_qry h.hs) ?_
    intro hv hh
    refine ih _ ?_ hp _ _ hh
    intro c hc
    rw [hv] at hc
    exact (sem_handle2 hP t.inp q c hc).1
  | field ph H c k _ hc _ ih =>
    intro hp t f h
    refine post_read hP hfe hfs hst h (h.hs c hc) (hsrc_push_other h.hs) ?_
    intro hv hh
    have e : (readDep fe (fetchSpec P.spec) t (.field c)).2.val =
        ⟨(readDep fe (fetchSpec P.spec) t (.field c)).2.val.n, none⟩ := by
      apply val_eta; rw [hv]; rfl
    rw [e] at hh ⊢
    exact ih _ hp _ _ hh
  | spec ph H c k _ hc _ ih =>
    intro hp t f h
    refine post_read hP hfe hfs hst h (h.hs c hc) (hsrc_push_other h.hs) ?_
    intro hv hh
    have e : (readDep fe (fetchSpec P.spec) t (.spec c)).2.val =
        ⟨(readDep fe (fetchSpec P.spec) t (.spec c)).2.val.n, none⟩ := by
      apply val_eta; rw [hv]; exact specVal_handleS hP.spec _ _
    rw [e] at hh ⊢
    exact ih _ hp _ _ hh
  | ident ph H c k _ hc _ ih =>
    intro hp t f h
    exact post_ident hP hst h hc (fun hh => ih _ hp _ _ hh)
  | create H idk v k _ _ _ => intro h; cases h
  | create2 H idk v k _ _ _ =>
    intro _ t f h
    exfalso
    have hpn := h.pn
    simp only [runBody, createStep, h.ts, if_true] at hpn
    exact fail_contra h.inv.pn (run_sticky hst _ _ _ _) hpn
  | specify H c v k _ _ => intro h; cases h
  | mid H b _ _ => intro h; cases h

end X
end SalsaVerif.Proofs.CoreSpec
