/-
  Upper bound for the revision-aware cycle model, part 2: bodies, verification, the iteration
  loop, fetch / maybe_changed_after and the engine.  Core Lean only.
-/
import SalsaVerif.Proofs.CycleRevLe

namespace SalsaVerif.Proofs.CycleRev
open SalsaVerif.Model
open SalsaVerif.Model.CycleRev
open SalsaVerif.Proofs.Cycle (le le_refl le_trans zero_le or_le or_mono and_mono mod_mono low_mono)

/-- no `FallbackImmediate` node. -/
def NoFb (P : Prog) : Prop := ∀ nd ∈ P.nodes, ∀ v, nd.strat ≠ .fallback v

instance (P : Prog) : Decidable (NoFb P) := by
  unfold NoFb
  exact decidable_of_iff (∀ nd ∈ P.nodes, (match nd.strat with | .fallback _ => false | _ => true) = true)
    (by
      constructor
      · intro h nd hnd v hv
        have := h nd hnd
        rw [hv] at this
        cases this
      · intro h nd hnd
        cases hs : nd.strat with
        | fallback v => exact absurd hs (h nd hnd v)
        | fixpoint j => rfl
        | panic => rfl)

theorem strat_noFb {P : Prog} (h : NoFb P) (c v : Nat) : P.strat c ≠ .fallback v := by
  unfold Prog.strat Prog.node
  rw [List.getD_eq_getElem?_getD]
  cases hc : P.nodes[c]? with
  | none => simp
  | some nd => simpa using h nd (List.mem_of_getElem? hc) v

theorem isFallback_false {P : Prog} (h : NoFb P) (c : Nat) : isFallback P c = false := by
  unfold isFallback
  split
  · rename_i v hv; exact absurd hv (strat_noFb h c v)
  · rfl

theorem cycleInitial_zero {P : Prog} (h : NoFb P) (c : Nat) : cycleInitial P c = 0 := by
  unfold cycleInitial
  split
  · rename_i v hv; exact absurd hv (strat_noFb h c v)
  · rfl

theorem body_noAdd {P : Prog} (h : NoAdd P) (c : Nat) : noAddE (P.node c).body = true := by
  unfold Prog.node
  rw [List.getD_eq_getElem?_getD]
  cases hc : P.nodes[c]? with
  | none => rfl
  | some nd => simpa using h nd (List.mem_of_getElem? hc)

/-- `B` is a post-fixpoint of the equations at the inputs `i`. -/
def Post (P : Prog) (B : Nat → Nat) (i : List Inp) : Prop :=
  ∀ c, le (Cycle.evalExpr (envI i) B (toCycleExpr (P.node c).body)) (B c)

theorem getD_map_val (i : List Inp) (k : Nat) : (i.map (·.val)).getD k 0 = (i.getD k ⟨0, 1, 0⟩).val := by
  simp only [List.getD_eq_getElem?_getD, List.getElem?_map]
  cases i[k]? <;> rfl

theorem env_even (i : List Inp) (k : Nat) : envI i (2 * k) = (i.getD k ⟨0, 1, 0⟩).val := by
  unfold envI envOfVals
  have h1 : 2 * k % 2 = 0 := by omega
  have h2 : 2 * k / 2 = k := by omega
  simp only [h1, h2, if_true, getD_map_val]

theorem env_odd (i : List Inp) (k : Nat) : envI i (2 * k + 1) = (i.getD k ⟨0, 1, 0⟩).val % 2 := by
  unfold envI envOfVals
  have h1 : ¬ (2 * k + 1) % 2 = 0 := by omega
  have h2 : (2 * k + 1) / 2 = k := by omega
  simp only [h1, h2, if_false, getD_map_val]

variable {B : Nat → Nat} {i : List Inp}

theorem readInput_val {s : St} (h : G B i s) (k : Nat) :
    (readInput s k).1 = (i.getD k ⟨0, 1, 0⟩).val % 256 := by
  unfold readInput; simp [h.2]

/-- the query function returns a value below the body evaluated over `B`. -/
theorem good_evalM (fetch : Nat → St → Res (Nat × St))
    (hf : ∀ j s, G B i s → Good B i (fun v => le v (B j)) (fetch j s)) :
    ∀ (e : Expr), noAddE e = true → ∀ s, G B i s →
      Good B i (fun v => le v (Cycle.evalExpr (envI i) B (toCycleExpr e))) (evalM fetch e s) := by
  intro e
  induction e with
  | const c => intro _ s h; exact ⟨h, le_refl _⟩
  | input k =>
    intro _ s h
    refine ⟨G_readInput h k, ?_⟩
    show le (readInput s k).1 (envI i (2 * k) % 256)
    rw [readInput_val h, env_even]; exact le_refl _
  | call j =>
    intro _ s h
    have := hf j s h
    unfold evalM
    cases hr : fetch j s with
    | error p => rw [hr] at this; exact this
    | ok r =>
      obtain ⟨v, s1⟩ := r
      rw [hr] at this
      exact ⟨this.1, mod_mono this.2⟩
  | union a b iha ihb =>
    intro hn s h
    simp only [noAddE, Bool.and_eq_true] at hn
    have ha := iha hn.1 s h
    unfold evalM
    cases hr : evalM fetch a s with
    | error p => rw [hr] at ha; exact ha
    | ok r =>
      obtain ⟨x, s1⟩ := r
      rw [hr] at ha
      have hb := ihb hn.2 s1 ha.1
      simp only
      cases hr2 : evalM fetch b s1 with
      | error p => rw [hr2] at hb; exact hb
      | ok r2 =>
        obtain ⟨y, s2⟩ := r2
        rw [hr2] at hb
        exact ⟨hb.1, or_mono ha.2 hb.2⟩
  | inter a b iha ihb =>
    intro hn s h
    simp only [noAddE, Bool.and_eq_true] at hn
    have ha := iha hn.1 s h
    unfold evalM
    cases hr : evalM fetch a s with
    | error p => rw [hr] at ha; exact ha
    | ok r =>
      obtain ⟨x, s1⟩ := r
      rw [hr] at ha
      have hb := ihb hn.2 s1 ha.1
      simp only
      cases hr2 : evalM fetch b s1 with
      | error p => rw [hr2] at hb; exact hb
      | ok r2 =>
        obtain ⟨y, s2⟩ := r2
        rw [hr2] at hb
        exact ⟨hb.1, and_mono ha.2 hb.2⟩
  | ite k a b iha ihb =>
    intro hn s h
    simp only [noAddE, Bool.and_eq_true] at hn
    unfold evalM
    have hv := readInput_val h k
    have hg := G_readInput h k
    generalize readInput s k = r at hv hg
    obtain ⟨v, s1⟩ := r
    simp only at hv hg ⊢
    have hc : (v % 2 = 1) ↔ (envI i (2 * k + 1) % 256 ≠ 0) := by
      rw [env_odd, hv]; omega
    show Good B i (fun v => le v (if envI i (2 * k + 1) % 256 ≠ 0 then _ else _)) _
    by_cases h1 : v % 2 = 1
    · rw [if_pos h1, if_pos (hc.1 h1)]; exact iha hn.1 s1 hg
    · rw [if_neg h1, if_neg (fun h2 => h1 (hc.2 h2))]; exact ihb hn.2 s1 hg
  | add a b _ _ => intro hn; simp [noAddE] at hn
  | gate c a ihc iha =>
    intro hn s h
    simp only [noAddE, Bool.and_eq_true] at hn
    have hc := ihc hn.1 s h
    unfold evalM
    cases hr : evalM fetch c s with
    | error p => rw [hr] at hc; exact hc
    | ok r =>
      obtain ⟨x, s1⟩ := r
      rw [hr] at hc
      simp only
      by_cases ho : x % 2 = 1
      · rw [if_pos ho]
        have ha := iha hn.2 s1 hc.1
        have ho' := low_mono hc.2 ho
        show Good B i (fun v => le v (if Cycle.evalExpr (envI i) B (toCycleExpr c) % 2 = 1
          then Cycle.evalExpr (envI i) B (toCycleExpr a) else 0)) _
        rw [if_pos ho']
        exact ha
      · rw [if_neg ho]
        exact ⟨hc.1, zero_le _⟩

/-- an engine level whose entry points keep the invariant. -/
structure EngGood (B : Nat → Nat) (i : List Inp) (sub : Eng) : Prop where
  fetch : ∀ c s, G B i s → Good B i (fun v => le v (B c)) (sub.fetch c s)
  mca : ∀ c rev s, G B i s → Good B i (fun _ => True) (sub.mca c rev s)

theorem good_deepVerifyEdges {sub : Eng} (hs : EngGood B i sub) (va : Nat) (es : List Edge) :
    ∀ s, G B i s → Good B i (fun _ => True) (deepVerifyEdges sub va es s) := by
  induction es with
  | nil => intro s h; exact ⟨h, trivial⟩
  | cons e rest ih =>
    intro s h
    cases e with
    | inp k =>
      unfold deepVerifyEdges
      split
      · exact ⟨h, trivial⟩
      · exact ih s h
    | qry q =>
      unfold deepVerifyEdges
      have := hs.mca q va s h
      cases hr : sub.mca q va s with
      | error p => rw [hr] at this; exact this
      | ok r =>
        obtain ⟨ch, s1⟩ := r
        rw [hr] at this
        simp only
        split
        · exact ⟨this.1, trivial⟩
        · exact ih s1 this.1

theorem good_deepVerifyMemo (P : Prog) {sub : Eng} (hs : EngGood B i sub) (c : Nat) (m : Memo)
    {s : St} (h : G B i s) : Good B i (fun _ => True) (deepVerifyMemo P sub c m s) := by
  unfold deepVerifyMemo
  split
  · exact ⟨h, trivial⟩
  · split
    · exact ⟨h, trivial⟩
    · have := good_deepVerifyEdges hs m.va m.edges s h
      cases hr : deepVerifyEdges sub m.va m.edges s with
      | error p => rw [hr] at this; exact this
      | ok r =>
        obtain ⟨u, s1⟩ := r
        rw [hr] at this
        simp only
        refine ⟨?_, trivial⟩
        split
        · exact G_markAsVerified this.1 c
        · exact this.1

theorem good_verifyMemo (P : Prog) {sub : Eng} (hs : EngGood B i sub) (c : Nat) (m : Memo)
    {s : St} (h : G B i s) : Good B i (fun _ => True) (verifyMemo P sub c m s) := by
  unfold verifyMemo
  simp only
  split
  · have := good_validateMayBeProvisional h c m
    cases hr : validateMayBeProvisional s c m with
    | error p => rw [hr] at this; exact this
    | ok r =>
      obtain ⟨ok1, s1⟩ := r
      rw [hr] at this
      simp only
      split
      · exact ⟨G_updateShallow this.1 c _, trivial⟩
      · exact good_deepVerifyMemo P hs c m this.1
  · exact good_deepVerifyMemo P hs c m h

end SalsaVerif.Proofs.CycleRev
