/-
  The closed-table certificate for `cycle_result` programs: a closed set of finalised memos in
  which every node on a cycle holds its fallback value and every other node its body over the
  finalised values IS the reference `fbReference` of `Model/Cycle.lean` — for any state of the
  revision-aware model, whatever the history (pure reasoning about the table, through
  `dbOk_fbReference`).  Core Lean only.
-/
import SalsaVerif.Proofs.CycleRevLe5
import SalsaVerif.Proofs.CycleFbCompleteRef

namespace SalsaVerif.Proofs.CycleRev
open SalsaVerif.Model
open SalsaVerif.Model.CycleRev
open SalsaVerif.Proofs.Cycle (EvalRel DbOkF DbOkC Reach IsFb)

theorem evalRel_of_eval {env : Nat → Nat} {A : Nat → Nat → Prop} {ρ : Nat → Nat} :
    ∀ (e : Cycle.Expr), (∀ c ∈ Cycle.callees env ρ e, A c (ρ c)) →
      EvalRel env A e (Cycle.evalExpr env ρ e) := by
  intro e
  induction e with
  | const c => intro _; rfl
  | input k => intro _; rfl
  | call j => intro h; exact ⟨ρ j, h j (by simp [Cycle.callees]), rfl⟩
  | union a b iha ihb =>
    intro h
    exact ⟨_, _, iha (fun c hc => h c (by simp [Cycle.callees, hc])),
      ihb (fun c hc => h c (by simp [Cycle.callees, hc])), rfl⟩
  | inter a b iha ihb =>
    intro h
    exact ⟨_, _, iha (fun c hc => h c (by simp [Cycle.callees, hc])),
      ihb (fun c hc => h c (by simp [Cycle.callees, hc])), rfl⟩
  | ite k a b iha ihb =>
    intro h
    simp only [EvalRel, Cycle.evalExpr]
    simp only [Cycle.callees] at h
    split
    · rename_i hc; rw [if_pos hc] at h; exact iha h
    · rename_i hc; rw [if_neg hc] at h; exact ihb h
  | gate g a ihg iha =>
    intro h
    refine ⟨_, ihg (fun c hc => h c (by simp [Cycle.callees, hc])), ?_⟩
    simp only [Cycle.evalExpr]
    by_cases ho : Cycle.evalExpr env ρ g % 2 = 1
    · rw [if_pos ho, if_pos ho]
      apply iha
      intro c hc
      apply h c
      simp only [Cycle.callees, if_pos ho, List.mem_append]
      exact Or.inr hc
    · rw [if_neg ho, if_neg ho]

/-- the certified part of the table as an association list. -/
def tab (s : St) (R : List Nat) : List (Nat × Nat) := R.map (fun x => (x, finalEnv s x))

theorem lookup_tab (s : St) (R : List Nat) (x : Nat) :
    (tab s R).lookup x = if x ∈ R then some (finalEnv s x) else none := by
  unfold tab
  induction R with
  | nil => simp
  | cons a r ih =>
    simp only [List.map_cons, List.lookup_cons, List.mem_cons]
    by_cases h : x = a
    · subst h; simp
    · have h' : (x == a) = false := by simpa using h
      simp only [h', h, false_or]
      exact ih

theorem fbClosed_at {P : Prog} {s : St} {R : List Nat} (hc : fbClosedOn P s R = true) {x : Nat}
    (hx : x ∈ R) :
    ∃ v, finalVal s x = some v ∧
      (∀ c ∈ Cycle.callees (envI s.inp) (finalEnv s) ((toCycle P).node x).body, c ∈ R) ∧
      (Cycle.onCycle (toCycle P) (envI s.inp) (finalEnv s) x = true →
        v = Cycle.fallbackValue (toCycle P) x) ∧
      (Cycle.onCycle (toCycle P) (envI s.inp) (finalEnv s) x = false →
        v = Cycle.evalExpr (envI s.inp) (finalEnv s) ((toCycle P).node x).body) := by
  unfold fbClosedOn at hc
  rw [List.all_eq_true] at hc
  have := hc x hx
  unfold fbClosedAt at this
  cases hf : finalVal s x with
  | none => rw [hf] at this; cases this
  | some v =>
    rw [hf] at this
    simp only [Bool.and_eq_true, List.all_eq_true] at this
    refine ⟨v, rfl, ?_, ?_, ?_⟩
    · intro c hcc; rw [toCycle_node] at hcc; simpa using this.1 c hcc
    · intro ho; rw [if_pos ho] at this; simpa using this.2
    · intro ho
      rw [if_neg (by rw [ho]; simp)] at this
      rw [toCycle_node]; simpa using this.2

/-- **the certificate is the reference**, any state (gate-free programs: the fallback theorems
    of `Model/Cycle.lean` are proved for those). -/
theorem fbClosed_reference (P : Prog) (s : St) (R : List Nat) (hW : (toCycle P).Wf)
    (hG : (toCycle P).NoGate)
    (hA : SalsaVerif.Proofs.Cycle.allFb (toCycle P) = true) (hc : fbClosedOn P s R = true)
    (x w : Nat) (hx : x ∈ R) (hv : finalVal s x = some w) :
    w = Cycle.fbReference (toCycle P) (envI s.inp) x := by
  have hfin : ∀ y, y ∈ R → ∀ u, (tab s R).lookup y = some u → finalVal s y = some u := by
    intro y hy u hu
    rw [lookup_tab, if_pos hy] at hu
    obtain ⟨v, hfv, _⟩ := fbClosed_at hc hy
    unfold finalEnv at hu
    rw [hfv] at hu ⊢
    exact hu
  have hmem : ∀ y u, (tab s R).lookup y = some u → y ∈ R := by
    intro y u hu
    rw [lookup_tab] at hu
    by_cases hy : y ∈ R
    · exact hy
    · rw [if_neg hy] at hu; cases hu
  have hF : DbOkF (toCycle P) (envI s.inp) (tab s R) := by
    intro y u hu
    have hy := hmem y u hu
    obtain ⟨v, hfv, hcal, hon, hoff⟩ := fbClosed_at hc hy
    have huv : u = v := by
      have := hfin y hy u hu; rw [hfv] at this; cases this; rfl
    subst huv
    cases ho : Cycle.onCycle (toCycle P) (envI s.inp) (finalEnv s) y with
    | true =>
      refine Or.inl ⟨SalsaVerif.Proofs.Cycle.onCycle_sound _ _ y ?_, hon ho⟩
      rw [← ho]; exact SalsaVerif.Proofs.Cycle.onCycle_noGate hG _ _ y
    | false =>
      right
      rw [hoff ho]
      apply evalRel_of_eval
      intro c hcc
      rw [lookup_tab, if_pos (hcal c hcc)]
  have hC : DbOkC (toCycle P) (envI s.inp) (tab s R) := by
    refine ⟨?_, ?_⟩
    · intro y u hu c hcc
      have hy := hmem y u hu
      obtain ⟨v, _, hcal, _, _⟩ := fbClosed_at hc hy
      rw [Cycle.callees_noGate (envI s.inp) _ (finalEnv s) _
        (SalsaVerif.Proofs.Cycle.noGate_node hG y)] at hcc
      rw [lookup_tab, if_pos (hcal c hcc)]; rfl
    · intro y u hu hr _
      have hy := hmem y u hu
      obtain ⟨v, hfv, _, hon, _⟩ := fbClosed_at hc hy
      have huv : u = v := by
        have := hfin y hy u hu; rw [hfv] at this; cases this; rfl
      subst huv
      apply hon
      rw [SalsaVerif.Proofs.Cycle.onCycle_noGate hG (finalEnv s) SalsaVerif.Proofs.Cycle.ρ0 y]
      exact (SalsaVerif.Proofs.Cycle.onCycle_iff hW y).2 hr
  have hl : (tab s R).lookup x = some w := by
    rw [lookup_tab, if_pos hx]; unfold finalEnv; rw [hv]; rfl
  exact (SalsaVerif.Proofs.Cycle.dbOk_fbReference hW hG
    (SalsaVerif.Proofs.Cycle.allFb_cycFb hA _) hF hC hl).symm

end SalsaVerif.Proofs.CycleRev
