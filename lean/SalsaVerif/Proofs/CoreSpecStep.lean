/-
  CoreSpec engine: step-level facts about `specify_and_record`, `fetch`/`maybe_changed_after` of the
  specifiable function, `mark_validated_output`, `diff_outputs` (used by Props/C10).  Core Lean only.
-/
import SalsaVerif.Proofs.CoreSpecBasic

namespace SalsaVerif.Proofs.CoreSpec
open SalsaVerif.Model.CoreSpec

theorem touchMemos_idem (s c) : touchMemos (touchMemos s c) c = touchMemos s c := by
  rcases touchMemos_cases s c with e | ⟨sl, h, e⟩
  · rw [e, e]
  · rw [e]
    simp only [Model.CoreSpec.touchMemos, lockSlot, setSlot_same, setSlot_cur]
    simp only [setSlot]
    congr 1
    funext c'
    by_cases hc : c' = c <;> simp [hc]

/-! ### the specifiable function: hit, stale `Assigned` -/

theorem fetchSpec_hit (SB : Nat → Nat → Body) (s : State) (c : Nat) (m : Memo)
    (hm : s.smemos c = some m) (hv : m.va = s.cur) :
    fetchSpec SB s c = (touchMemos s c, hit m) := by
  unfold fetchSpec
  simp only [touchMemos_smemos, hm, touchMemos_cur, hv, if_true]

theorem mcaSpec_hit (SB : Nat → Nat → Body) (s : State) (c : Nat) (m : Memo) (rev : Nat)
    (hm : s.smemos c = some m) (hv : m.va = s.cur) :
    mcaSpec SB s c rev = (touchMemos s c, decide (m.ca > rev)) := by
  unfold mcaSpec
  have h2 : (touchMemos s c).smemos c = some m := by simp [hm]
  simp only [h2]
  rw [fetchSpec_hit SB (touchMemos s c) c m h2 (by simp [hv])]
  have : touchMemos (touchMemos s c) c = touchMemos s c := touchMemos_idem s c
  simp [this, hit]

theorem fetchSpec_assigned_stale (SB : Nat → Nat → Body) (s : State) (c : Nat) (m : Memo) (k : Nat)
    (hm : s.smemos c = some m) (ho : m.origin = some k) (hv : m.va ≠ s.cur) (hd : ¬ lc s m.dur ≤ m.va) :
    fetchSpec SB s c = executeSpec SB (touchMemos s c) c (some m) := by
  unfold fetchSpec
  simp only [touchMemos_smemos, hm, touchMemos_cur, hv, if_false, touchMemos_lc, hd, ho]

/-- a body run with fetchers that emit nothing emits nothing (`spec` bodies call no query) -/
theorem runBody_noFetch_trace (self : Option Nat) (b : Body) (s : State) (f : Frame) :
    (runBody noFetch noFetch self b s f).1.trace = s.trace :=
  runBody_rel primRel0_sameTrace (fe := noFetch) (fs := noFetch)
    (fun _ _ => (rfl : SameTrace _ _)) (fun _ _ => (rfl : SameTrace _ _)) self b s f

theorem executeSpec_trace (SB : Nat → Nat → Body) (s : State) (c : Nat) (old : Option Memo) :
    (executeSpec SB s c old).1.trace = s.trace ++ [.execS c (genOf s c)] := by
  unfold executeSpec installSpec
  simp [runBody_noFetch_trace]

theorem installSpec_memo (s : State) (c : Nat) (old : Option Memo) (f : Frame) (v : Val) :
    ∃ m, (installSpec s c old f v).1.smemos c = some m ∧ m.origin = none ∧
      m.va = s.cur ∧ m.value = (installSpec s c old f v).2.val ∧ m.ca = (installSpec s c old f v).2.ca ∧
      (installSpec s c old f v).2.val = v ∧
      (installSpec s c old f v).2.ca = (backdate old false v none f.ca f.dur s.cur).1 := by
  unfold installSpec
  exact ⟨_, setSMemo_same _ _ _, rfl, rfl, rfl, rfl, rfl, rfl⟩

theorem executeSpec_memo (SB : Nat → Nat → Body) (s : State) (c : Nat) (old : Option Memo) :
    ∃ m, (executeSpec SB s c old).1.smemos c = some m ∧ m.origin = none := by
  unfold executeSpec
  obtain ⟨m, h1, h2, _⟩ := installSpec_memo
    (runBody noFetch noFetch none (specBody SB c) (emit s (.execS c (genOf s c))) (frame0 none)).1 c old
    (runBody noFetch noFetch none (specBody SB c) (emit s (.execS c (genOf s c))) (frame0 none)).2.1
    (runBody noFetch noFetch none (specBody SB c) (emit s (.execS c (genOf s c))) (frame0 none)).2.2
  exact ⟨m, h1, h2⟩

/-! ### `specify_and_record` -/

theorem installAssigned_facts (s : State) (f : Frame) (c v : Nat) :
    (installAssigned s f c v).1.smemos c =
      some (assignedMemo s.cur (backdate (s.smemos c) true ⟨v, none⟩ none f.ca f.dur s.cur).1 f.dur c v) ∧
    (installAssigned s f c v).1.cur = s.cur ∧
    (installAssigned s f c v).1.trace = s.trace ∧
    (installAssigned s f c v).1.slots = s.slots ∧
    (installAssigned s f c v).2 = f.addOut c v := by
  unfold installAssigned
  exact ⟨setSMemo_same _ _ _, by simp, by simp, by simp, rfl⟩

theorem specify_installs (s : State) (f : Frame) (c v : Nat) (hown : f.ts.isSome = true)
    (hnc : ∀ o, s.smemos c = some o → o.va = s.cur → o.origin.isSome = true ∧ f.hasOut c = false) :
    specifyAndRecord s (some c) f c v = installAssigned s f c v := by
  unfold specifyAndRecord
  rw [if_pos ⟨rfl, hown⟩]
  cases hm : s.smemos c with
  | none => rfl
  | some o =>
    dsimp only
    by_cases hva : o.va = s.cur
    · obtain ⟨ho, hout⟩ := hnc o hm hva
      rw [if_pos hva]
      cases horg : o.origin with
      | none => rw [horg] at ho; cases ho
      | some k =>
        dsimp only
        rw [if_neg (by rw [hout]; exact Bool.false_ne_true)]
    · rw [if_neg hva]

theorem specify_computed_wins (s : State) (f : Frame) (c v : Nat) (o : Memo) (hown : f.ts.isSome = true)
    (hm : s.smemos c = some o) (hva : o.va = s.cur) (hd : o.origin = none) :
    specifyAndRecord s (some c) f c v = (s, f) := by
  unfold specifyAndRecord
  rw [if_pos ⟨rfl, hown⟩, hm]
  dsimp only
  rw [if_pos hva, hd]

theorem specify_foreign (s : State) (self : Option Nat) (f : Frame) (c v : Nat)
    (h : self ≠ some c ∨ f.ts.isSome = false) :
    specifyAndRecord s self f c v = (fail s .specifyForeign, f) := by
  unfold specifyAndRecord
  have h0 : ¬ (self = some c ∧ f.ts.isSome = true) := by
    rintro ⟨a, b⟩
    rcases h with h | h
    · exact h a
    · rw [h] at b; cases b
  rw [if_neg h0]

theorem specify_twice (s : State) (f : Frame) (c v : Nat) (o : Memo) (k : Nat) (hown : f.ts.isSome = true)
    (hm : s.smemos c = some o) (hva : o.va = s.cur) (hd : o.origin = some k) (hout : f.hasOut c = true) :
    specifyAndRecord s (some c) f c v = (fail s .specifyTwice, f) := by
  unfold specifyAndRecord
  rw [if_pos ⟨rfl, hown⟩, hm]
  dsimp only
  rw [if_pos hva, hd]
  dsimp only
  rw [if_pos hout]

theorem addOut_hasOut (f : Frame) (c v : Nat) : (f.addOut c v).hasOut c = true := by
  unfold Frame.addOut
  by_cases h : f.hasOut c = true
  · simp [h]
  · simp only [h]
    simp [Frame.hasOut]

theorem addOut_ts (f : Frame) (c v : Nat) : (f.addOut c v).ts = f.ts := by
  unfold Frame.addOut; split <;> rfl

/-! ### validation of outputs -/

/-- every `Assigned`-by-`q` memo of `spec(struct of c)` is verified in the current revision -/
def OutGood (q c : Nat) (s : State) : Prop :=
  ∀ sm, s.smemos c = some sm → sm.origin = some q → sm.va = s.cur

theorem markValidatedOutput_cur (s e c) : (markValidatedOutput s e c).cur = s.cur :=
  (markValidatedOutput_rel primRel_sameEnv s e c).1

theorem markValidatedOutput_good (s : State) (q c : Nat) : OutGood q c (markValidatedOutput s q c) := by
  intro sm hsm horg
  rw [markValidatedOutput_cur]
  unfold markValidatedOutput at hsm
  dsimp only at hsm
  cases hm : (touchMemos s c).smemos c with
  | none =>
    rw [hm] at hsm
    dsimp only at hsm
    rw [hm] at hsm; cases hsm
  | some m =>
    rw [hm] at hsm
    dsimp only at hsm
    by_cases ho : m.origin = some q
    · rw [if_pos ho] at hsm
      rw [setSMemo_same] at hsm
      cases hsm
      simp
    · rw [if_neg ho] at hsm
      rw [fail_smemos, hm] at hsm
      cases hsm
      exact absurd horg ho

theorem markValidatedOutput_keeps (s : State) (q c c' : Nat) (h : OutGood q c s) :
    OutGood q c (markValidatedOutput s q c') := by
  by_cases hc : c' = c
  · subst hc; exact markValidatedOutput_good s q c'
  · intro sm hsm horg
    rw [markValidatedOutput_cur]
    apply h sm _ horg
    unfold markValidatedOutput at hsm
    dsimp only at hsm
    have hne : c ≠ c' := fun e => hc e.symm
    split at hsm
    · simpa using hsm
    · split at hsm
      · rw [setSMemo_other _ _ _ hne] at hsm; simpa using hsm
      · simpa using hsm

theorem markOutputsVerified_keeps (q c : Nat) : ∀ obs s, OutGood q c s →
    OutGood q c (markOutputsVerified q obs s) := by
  intro obs
  induction obs with
  | nil => intro s h; exact h
  | cons o os ih =>
    intro s h
    simp only [markOutputsVerified]
    split
    · exact ih _ (markValidatedOutput_keeps s q c _ h)
    · exact ih _ h

/-- `mark_outputs_as_verified`: every recorded output edge of the list is validated -/
theorem markOutputsVerified_good (q c : Nat) : ∀ obs s,
    (∃ o, o ∈ obs ∧ o.recd = true ∧ o.out = true ∧ o.dep = .spec c) →
    OutGood q c (markOutputsVerified q obs s) := by
  intro obs
  induction obs with
  | nil => intro s h; obtain ⟨o, ho, _⟩ := h; cases ho
  | cons o os ih =>
    intro s h
    obtain ⟨o', hmem, hr, hout, hdep⟩ := h
    simp only [markOutputsVerified]
    rcases List.mem_cons.mp hmem with e | hmem'
    · subst e
      simp only [hr, hout, Bool.and_self, hdep]
      exact markOutputsVerified_keeps q c os _ (markValidatedOutput_good s q c)
    · split
      · exact ih _ ⟨o', hmem', hr, hout, hdep⟩
      · exact ih _ ⟨o', hmem', hr, hout, hdep⟩

/-- a body run without an executing query (`spec` bodies) leaves every `spec` memo alone -/
theorem runBody_none_smemos (b : Body) : ∀ (s : State) (f : Frame),
    (runBody noFetch noFetch none b s f).1.smemos = s.smemos := by
  induction b with
  | ret v => intro s f; rfl
  | read d k ih =>
    intro s f
    simp only [runBody]
    rw [ih]
    cases d with
    | inp i => rfl
    | qry q => rfl
    | field c => simp only [readDep]; split <;> simp
    | spec c => simp only [readDep]; split <;> simp [noFetch]
  | ident c k ih =>
    intro s f
    simp only [runBody]
    rw [ih]
    unfold identStep; split <;> simp
  | create idk v k ih =>
    intro s f
    simp only [runBody]
    rw [ih]
    simp [createStep]
  | specify c v k ih =>
    intro s f
    simp only [runBody]
    rw [ih, specify_foreign s none f c v (Or.inl (by simp))]
    simp

theorem depChangedLeaf_smemos (s d rev) : (depChangedLeaf s d rev).1.smemos = s.smemos := by
  unfold depChangedLeaf
  split
  · rfl
  · split <;> simp
  · rfl

theorem deepEdgesLeaf_smemos : ∀ obs s rev, (deepEdgesLeaf obs s rev).1.smemos = s.smemos := by
  intro obs
  induction obs with
  | nil => intro s rev; rfl
  | cons o os ih =>
    intro s rev
    simp only [deepEdgesLeaf]
    split
    · split
      · exact depChangedLeaf_smemos _ _ _
      · rw [ih, depChangedLeaf_smemos]
    · exact ih _ _

theorem executeSpec_smemos_other (SB : Nat → Nat → Body) (s : State) {c c' : Nat} (old) (h : c ≠ c') :
    (executeSpec SB s c' old).1.smemos c = s.smemos c := by
  unfold executeSpec installSpec
  simp only [setSMemo_other _ _ _ h, failIf_smemos, runBody_none_smemos, emit_smemos]

theorem fetchSpec_smemos_other (SB : Nat → Nat → Body) (s : State) {c c' : Nat} (h : c ≠ c') :
    (fetchSpec SB s c').1.smemos c = s.smemos c := by
  unfold fetchSpec
  dsimp only
  split
  · rw [executeSpec_smemos_other SB _ _ h]; simp
  · split
    · simp
    · split
      · simp [setSMemo_other _ _ _ h]
      · split
        · rw [executeSpec_smemos_other SB _ _ h]; simp
        · split
          · simp [setSMemo_other _ _ _ h, deepEdgesLeaf_smemos]
          · rw [executeSpec_smemos_other SB _ _ h, deepEdgesLeaf_smemos]; simp

/-- Within a revision nothing can produce an `Assigned` memo that is not verified in the current
    revision: every memo the engine installs is stamped `verified_at = cur`. -/
def KeepsGood (q c : Nat) (s t : State) : Prop := t.cur = s.cur ∧ (OutGood q c s → OutGood q c t)

theorem primRel_keepsGood (q c : Nat) : PrimRel (KeepsGood q c) where
  refl _ := ⟨rfl, id⟩
  trans h1 h2 := ⟨h2.1.trans h1.1, fun g => h2.2 (h1.2 g)⟩
  fail s p := ⟨by simp, fun g sm hsm ho => by simp at hsm ⊢; exact g sm hsm ho⟩
  setMemo s q' m _ := ⟨rfl, fun g => g⟩
  setSMemo s c' m hv := ⟨rfl, fun g sm hsm ho => by
    by_cases hc : c = c'
    · subst hc
      rw [setSMemo_same] at hsm
      simpa using hv sm hsm
    · rw [setSMemo_other _ _ _ hc] at hsm
      simpa using g sm hsm ho⟩
  setSlot s c' sl := ⟨rfl, fun g => g⟩
  gen s n := ⟨rfl, fun g => g⟩
  emit s e := ⟨rfl, fun g => g⟩

/-- `fetch`/`maybe_changed_after` of `spec` never produce an unverified `Assigned` memo -/
theorem fetchSpec_keeps (SB : Nat → Nat → Body) (s : State) (q c c' : Nat) (h : OutGood q c s) :
    OutGood q c (fetchSpec SB s c').1 := (fetchSpec_rel (primRel_keepsGood q c) SB s c').2 h

/-- `deep_verify_edges` that walks the whole edge list validates every recorded output edge -/
theorem deepEdges_good {mc : McaFn} (SB : Nat → Nat → Body) (q c : Nat)
    (hmc : RelM (KeepsGood q c) mc) :
    ∀ obs s rev, (OutGood q c s ∨ ∃ o, o ∈ obs ∧ o.recd = true ∧ o.out = true ∧ o.dep = .spec c) →
      (deepEdges mc SB q obs s rev).2 = true → OutGood q c (deepEdges mc SB q obs s rev).1 := by
  intro obs
  induction obs with
  | nil =>
    intro s rev h _
    rcases h with h | ⟨o, ho, _⟩
    · exact h
    · cases ho
  | cons o os ih =>
    intro s rev h hres
    simp only [deepEdges] at hres ⊢
    by_cases hr : o.recd = true
    · simp only [hr, if_true] at hres ⊢
      by_cases hout : o.out = true
      · simp only [hout, if_true] at hres ⊢
        cases hd : o.dep with
        | spec c' =>
          simp only [hd] at hres ⊢
          apply ih _ _ _ hres
          by_cases hc : c' = c
          · subst hc; exact Or.inl (markValidatedOutput_good s q c')
          · rcases h with h | ⟨o', hmem, h1, h2, h3⟩
            · exact Or.inl (markValidatedOutput_keeps s q c c' h)
            · rcases List.mem_cons.mp hmem with e | hmem'
              · subst e; rw [hd] at h3; cases h3; exact absurd rfl hc
              · exact Or.inr ⟨o', hmem', h1, h2, h3⟩
        | inp i =>
          simp only [hd] at hres ⊢
          apply ih _ _ _ hres
          rcases h with h | ⟨o', hmem, h1, h2, h3⟩
          · exact Or.inl h
          · rcases List.mem_cons.mp hmem with e | hmem'
            · subst e; rw [hd] at h3; cases h3
            · exact Or.inr ⟨o', hmem', h1, h2, h3⟩
        | qry i =>
          simp only [hd] at hres ⊢
          apply ih _ _ _ hres
          rcases h with h | ⟨o', hmem, h1, h2, h3⟩
          · exact Or.inl h
          · rcases List.mem_cons.mp hmem with e | hmem'
            · subst e; rw [hd] at h3; cases h3
            · exact Or.inr ⟨o', hmem', h1, h2, h3⟩
        | field i =>
          simp only [hd] at hres ⊢
          apply ih _ _ _ hres
          rcases h with h | ⟨o', hmem, h1, h2, h3⟩
          · exact Or.inl h
          · rcases List.mem_cons.mp hmem with e | hmem'
            · subst e; rw [hd] at h3; cases h3
            · exact Or.inr ⟨o', hmem', h1, h2, h3⟩
      · have hout' : o.out = false := by cases hh : o.out <;> simp_all
        simp only [hout', Bool.false_eq_true, if_false] at hres ⊢
        have hk := depChanged_rel (primRel_keepsGood q c) hmc SB s o.dep rev
        by_cases hch : (depChanged mc SB s o.dep rev).2 = true
        · simp [hch] at hres
        · simp only [hch, if_false] at hres ⊢
          apply ih _ _ _ hres
          rcases h with h | ⟨o', hmem, h1, h2, h3⟩
          · exact Or.inl (hk.2 h)
          · rcases List.mem_cons.mp hmem with e | hmem'
            · subst e; rw [hout'] at h2; cases h2
            · exact Or.inr ⟨o', hmem', h1, h2, h3⟩
    · have hr' : o.recd = false := by cases hh : o.recd <;> simp_all
      simp only [hr', Bool.false_eq_true, if_false] at hres ⊢
      apply ih _ _ _ hres
      rcases h with h | ⟨o', hmem, h1, h2, h3⟩
      · exact Or.inl h
      · rcases List.mem_cons.mp hmem with e | hmem'
        · subst e; rw [hr'] at h1; cases h1
        · exact Or.inr ⟨o', hmem', h1, h2, h3⟩

end SalsaVerif.Proofs.CoreSpec
