/-
  Upper bound for the revision-aware cycle model, part 4: fetch, maybe_changed_after, the engine,
  requests and histories.  Core Lean only.
-/
import SalsaVerif.Proofs.CycleRevLe3

namespace SalsaVerif.Proofs.CycleRev
open SalsaVerif.Model
open SalsaVerif.Model.CycleRev
open SalsaVerif.Proofs.Cycle (le le_refl le_trans zero_le)

variable {B : Nat → Nat} {i : List Inp}

theorem goodS_fetchColdCycle (P : Prog) (hNF : NoFb P) (c : Nat) {s : St} (h : G B i s) :
    GoodS B i (fetchColdCycle P c s) := by
  unfold fetchColdCycle
  have hfresh : ∀ it, G B i (setMemo s c
      ⟨some (cycleInitial P c), s.cur, 1, 3, [], [⟨c, it, false⟩], it, false, false⟩) := by
    intro it
    refine G_setMemo h c _ (fun v hv => ?_)
    cases hv
    rw [cycleInitial_zero hNF]; exact zero_le _
  split
  · exact h
  · simp only
    split
    · exact hfresh 0
    · rename_i m hm
      split
      · exact h
      · split
        · exact G_setMemo h c _ (fun v hv => h.1 c m v hm hv)
        · exact hfresh _

theorem goodS_fetchColdClaimed (P : Prog) {sub : Eng} (hs : EngGood B i sub) (hNF : NoFb P)
    (hNA : NoAdd P) (hB : Post P B i) (c : Nat) (mode0 : Mode) {s1 : St} (h1 : G B i s1) :
    GoodS B i (fetchColdClaimed P sub c mode0 s1) := by
  unfold fetchColdClaimed
  have hold : ∀ m v, memoOf s1 c = some m → m.value = some v → le v (B c) :=
    fun m v hm hv => h1.1 c m v hm hv
  have hver : Good B i (fun _ => True) (verifyOld P sub c (memoOf s1 c) s1) := by
    unfold verifyOld
    split
    · split
      · exact good_verifyMemo P hs c _ h1
      · exact ⟨h1, trivial⟩
    · exact ⟨h1, trivial⟩
  simp only
  cases hr : verifyOld P sub c (memoOf s1 c) s1 with
  | error p => rw [hr] at hver; exact hver
  | ok r =>
    obtain ⟨b, s2⟩ := r
    rw [hr] at hver
    cases b with
    | true =>
      simp only
      split
      · exact hver.1
      · rename_i s3 hd; exact G_dropClaim hver.1 hd
    | false => exact goodS_execute P hs hNF hNA hB c _ _ hver.1 hold

theorem goodS_fetchCold (P : Prog) {sub : Eng} (hs : EngGood B i sub) (hNF : NoFb P)
    (hNA : NoAdd P) (hB : Post P B i) (c : Nat) {s : St} (h : G B i s) :
    GoodS B i (fetchCold P sub c s) := by
  unfold fetchCold
  have h1 := G_tryClaim h c true
  generalize tryClaim s c true = r at h1
  obtain ⟨cl, s1⟩ := r
  simp only at h1 ⊢
  split
  · exact goodS_fetchColdCycle P hNF c h1
  · exact goodS_onPanic _ (fun _ hg => G_releaseDefault hg c)
      (goodS_fetchColdClaimed P hs hNF hNA hB c _ h1)

theorem G_fetchHot {s s1 : St} {c : Nat} (h : G B i s) (hh : fetchHot s c = some s1) : G B i s1 := by
  unfold fetchHot at hh
  split at hh
  · simp only at hh
    split at hh
    · cases hh; exact G_updateShallow h c _
    · cases hh
  · cases hh

theorem goodS_refreshMemo (P : Prog) {sub : Eng} (hs : EngGood B i sub) (hNF : NoFb P)
    (hNA : NoAdd P) (hB : Post P B i) (c : Nat) {s : St} (h : G B i s) :
    GoodS B i (refreshMemo P sub c s) := by
  unfold refreshMemo
  split
  · rename_i s1 hh; exact G_fetchHot h hh
  · exact goodS_fetchCold P hs hNF hNA hB c h

theorem good_fetchStep (P : Prog) {sub : Eng} (hs : EngGood B i sub) (hNF : NoFb P)
    (hNA : NoAdd P) (hB : Post P B i) (c : Nat) {s : St} (h : G B i s) :
    Good B i (fun v => le v (B c)) (fetchStep P sub c s) := by
  unfold fetchStep
  have href := goodS_refreshMemo P hs hNF hNA hB c h
  cases hr : refreshMemo P sub c s with
  | error p => rw [hr] at href; exact href
  | ok s1 =>
    rw [hr] at href
    simp only
    split
    · exact href
    · rename_i m hm
      split
      · exact href
      · rename_i v hv
        have hrt := goodS_reportTrackedRead href c m
        cases hrr : reportTrackedRead s1 c m with
        | error p => rw [hrr] at hrt; exact hrt
        | ok s2 => rw [hrr] at hrt; exact ⟨hrt, href.1 c m v hm hv⟩

theorem good_mcaStep (P : Prog) {sub : Eng} (hs : EngGood B i sub) (hNF : NoFb P)
    (hNA : NoAdd P) (hB : Post P B i) (c rev : Nat) {s : St} (h : G B i s) :
    Good B i (fun _ => True) (mcaStep P sub c rev s) := by
  unfold mcaStep
  split
  · exact ⟨h, trivial⟩
  · rename_i m hm
    simp only
    split
    · exact ⟨G_updateShallow h c _, trivial⟩
    · have h1 := G_tryClaim h c false
      generalize tryClaim s c false = r at h1
      obtain ⟨cl, s1⟩ := r
      simp only at h1 ⊢
      split
      · split
        · exact h1
        · exact ⟨h1, trivial⟩
      · apply good_onPanic _ (fun _ hg => G_releaseDefault hg c)
        have hv := good_verifyMemo P hs c m h1
        cases hr : verifyMemo P sub c m s1 with
        | error p => rw [hr] at hv; exact hv
        | ok r =>
          obtain ⟨b, s2⟩ := r
          rw [hr] at hv
          cases b with
          | true => exact ⟨G_releaseDefault hv.1 c, trivial⟩
          | false =>
            simp only
            split
            · split
              · exact ⟨G_releaseDefault hv.1 c, trivial⟩
              · have he := goodS_execute P hs hNF hNA hB c (some m) .default hv.1
                  (fun m' v hm' hv' => by cases hm'; exact h.1 c m v hm hv')
                cases hre : execute P sub c (some m) .default s2 with
                | error p => rw [hre] at he; exact he
                | ok s3 =>
                  rw [hre] at he
                  simp only
                  split
                  · exact he
                  · exact ⟨he, trivial⟩
            · exact ⟨G_releaseDefault hv.1 c, trivial⟩

theorem engGood (P : Prog) (hNF : NoFb P) (hNA : NoAdd P) (hB : Post P B i) :
    ∀ d, EngGood B i (eng P d) := by
  intro d
  induction d with
  | zero => exact ⟨fun _ _ h => h, fun _ _ _ h => h⟩
  | succ d ih =>
    exact ⟨fun c s h => good_fetchStep P ih hNF hNA hB c h,
           fun c rev s h => good_mcaStep P ih hNF hNA hB c rev h⟩

end SalsaVerif.Proofs.CycleRev
